(* EngineGrow.v — how the non-empty blocks of a topic ([memne]) evolve under appends and
   batches: existing blocks keep their position and id, only the last block may receive
   entries, new blocks come behind; the sealed chain only grows at its end, by non-empty
   blocks.  Every outcome of [append] / [batch] (accepted or rejected) is covered. *)
From W Require Import model.Base model.Engine proofs.EngineWF proofs.EngineInv proofs.EngineW proofs.EnginePos.
From Coq Require Import ZArith ZifyBool ZifyN ZifyNat.

(* ------------------------------------------------------------------ Grow is a preorder *)
Lemma Grow_refl ts : Grow ts ts.
Proof.
  split.
  - exists []. split; [now rewrite app_nil_r|constructor].
  - exists []. split; [now rewrite app_nil_r|apply MG_refl].
Qed.

Lemma Grow_trans a b d : Grow a b -> Grow b d -> Grow a d.
Proof.
  intros ((q1 & Hc1 & Hq1) & es1 & Hs1 & Hm1) ((q2 & Hc2 & Hq2) & es2 & Hs2 & Hm2).
  split.
  - exists (q1 ++ q2). split; [now rewrite Hc2, Hc1, app_assoc|].
    apply Forall_app. split; assumption.
  - exists (es1 ++ es2). split; [now rewrite Hs2, Hs1, app_assoc|].
    eapply MG_trans; eassumption.
Qed.

(* ------------------------------------------------------------------ list-level growth *)
Lemma nth_error_snoc_lt {A} (l : list A) x j : (j < length l)%nat -> nth_error (l ++ [x]) j = nth_error l j.
Proof. intros H. now apply nth_error_app1. Qed.

Lemma nth_error_snoc_len {A} (l : list A) x : nth_error (l ++ [x]) (length l) = Some x.
Proof. rewrite nth_error_app2 by lia. now rewrite Nat.sub_diag. Qed.

Lemma nth_error_snoc_inv {A} (l : list A) x j y : nth_error (l ++ [x]) j = Some y ->
  ((j < length l)%nat /\ nth_error l j = Some y) \/ (j = length l /\ y = x).
Proof.
  intros H. destruct (Nat.lt_ge_cases j (length l)) as [Hl|Hg].
  - left. split; [exact Hl|]. now rewrite nth_error_app1 in H by exact Hl.
  - right. rewrite nth_error_app2 in H by exact Hg.
    destruct (j - length l)%nat as [|k] eqn:Ek; cbn in H.
    + split; [lia|congruence].
    + destruct k; discriminate.
Qed.

Lemma length_snoc {A} (l : list A) x : length (l ++ [x]) = S (length l).
Proof. rewrite app_length. cbn. lia. Qed.

(* a new block behind the list *)
Lemma MG_snoc_new M b : MG M (M ++ [b]) (b_ents b).
Proof.
  split; [rewrite length_snoc; lia|]. split.
  - intros j b0 Hj. exists b0, []. rewrite app_nil_r.
    assert (Hl : (j < length M)%nat) by (apply nth_error_Some; congruence).
    rewrite nth_error_snoc_lt by exact Hl. auto.
  - rewrite chain_ents_app. unfold chain_ents at 2. cbn [flat_map]. now rewrite app_nil_r.
Qed.

(* the last block receives entries *)
Lemma MG_last_ext M w w' e1 : b_id w' = b_id w -> b_ents w' = b_ents w ++ e1 -> MG (M ++ [w]) (M ++ [w']) e1.
Proof.
  intros Hid He. split; [rewrite !length_snoc; lia|]. split.
  - intros j b Hj. destruct (nth_error_snoc_inv _ _ _ _ Hj) as [(Hl & Hn)|(-> & ->)].
    + exists b, []. rewrite app_nil_r. rewrite nth_error_snoc_lt by exact Hl. auto.
    + exists w', e1. rewrite nth_error_snoc_len. repeat split; auto.
      rewrite length_snoc. intros Hx. exfalso. lia.
  - rewrite !chain_ents_app. unfold chain_ents at 2 4. cbn [flat_map]. rewrite !app_nil_r, He. now rewrite app_assoc.
Qed.

(* ------------------------------------------------------------------ block facts *)
Lemma bwf_used0 c b : 0 < c_hdr c -> bwf c b -> (b_used b =? 0) = true -> b_ents b = [].
Proof.
  intros Hh (Hu & _) Hz. destruct (b_ents b) as [|e0 r0] eqn:Ee; [reflexivity|].
  exfalso. cbn [sum_need] in Hu. pose proof (need_pos c e0 Hh). lia.
Qed.

Lemma bwf_used_pos c b : bwf c b -> (b_used b =? 0) = false -> b_ents b <> [].
Proof. intros (Hu & _) Hz He. rewrite He in Hu. cbn [sum_need] in Hu. lia. Qed.

Lemma chain_push_chain r b : r_chain (chain_push r b) = if b_used b =? 0 then r_chain r else r_chain r ++ [b].
Proof.
  unfold chain_push. destruct (b_used b =? 0); [reflexivity|].
  destruct (r_tail_bid r =? b_id b); reflexivity.
Qed.

Lemma chain_of_seal ts b : chain_of (seal ts b) = if b_used b =? 0 then chain_of ts else chain_of ts ++ [b].
Proof. unfold chain_of, seal. cbn [reader_of ts_reader]. apply chain_push_chain. Qed.

Lemma nonempty_b_false b : b_ents b = [] -> nonempty_b b = false.
Proof. unfold nonempty_b. now intros ->. Qed.

Lemma nonempty_b_true' b : b_ents b <> [] -> nonempty_b b = true.
Proof. apply nonempty_b_true. Qed.

Lemma memne_unfold ts : memne ts = filter nonempty_b (chain_of ts) ++ filter nonempty_b (w_list ts).
Proof. unfold memne. apply filter_app. Qed.

(* same non-empty blocks, chain extended by non-empty blocks: nothing was appended *)
Lemma Grow_same_mem ts ts' q : chain_of ts' = chain_of ts ++ q -> Forall (fun b => b_ents b <> []) q ->
  memne ts' = memne ts -> Grow ts ts'.
Proof.
  intros Hc Hq Hm. split; [exists q; auto|]. exists []. split.
  - rewrite app_nil_r, <- !chain_ents_memne. now rewrite Hm.
  - rewrite Hm. apply MG_refl.
Qed.

(* ------------------------------------------------------------------ the three building blocks *)
(* the topic's first writer block: it is empty, so nothing changes among the non-empty blocks *)
Lemma first_writer_grow c nid ts nb : TInvP c nid ts -> ts_writer ts = None -> fresh_blk nid nb ->
  Grow ts (with_writer ts (Some nb)).
Proof.
  intros _ Hnone (_ & _ & Fe & _).
  apply (Grow_same_mem ts (with_writer ts (Some nb)) []).
  - change (chain_of (with_writer ts (Some nb))) with (chain_of ts). now rewrite app_nil_r.
  - constructor.
  - rewrite !memne_unfold. change (chain_of (with_writer ts (Some nb))) with (chain_of ts).
    f_equal. unfold w_list. cbn [with_writer ts_writer]. rewrite Hnone. cbn [filter].
    now rewrite (nonempty_b_false nb Fe).
Qed.

(* one more entry in the writer block: the last non-empty block receives it, or (the writer
   block was empty) the writer block becomes the new last non-empty block *)
Lemma add_entry_grow c (Hh : 0 < c_hdr c) nid ts w e : TInvP c nid ts -> ts_writer ts = Some w ->
  b_used w + need c e <= b_limit w ->
  Grow ts (with_writer ts (Some (blk_add w c [e]))).
Proof.
  intros _ Hsome _.
  set (w' := blk_add w c [e]).
  assert (Hne' : nonempty_b w' = true).
  { apply nonempty_b_true. unfold w', blk_add. cbn [b_ents]. destruct (b_ents w); discriminate. }
  split.
  - exists []. split; [|constructor]. change (chain_of (with_writer ts (Some w'))) with (chain_of ts). now rewrite app_nil_r.
  - exists [e]. split.
    + unfold stream, w_ents. change (chain_of (with_writer ts (Some w'))) with (chain_of ts).
      cbn [with_writer ts_writer]. rewrite Hsome. unfold w', blk_add. cbn [b_ents]. now rewrite app_assoc.
    + rewrite !memne_unfold. change (chain_of (with_writer ts (Some w'))) with (chain_of ts).
      unfold w_list. cbn [with_writer ts_writer]. rewrite Hsome. cbn [filter]. rewrite Hne'.
      destruct (b_ents w) as [|e0 r0] eqn:Ew.
      * rewrite (nonempty_b_false w Ew), app_nil_r.
        replace [e] with (b_ents w') by (unfold w', blk_add; cbn [b_ents]; now rewrite Ew).
        apply MG_snoc_new.
      * assert (Hne : nonempty_b w = true) by (apply nonempty_b_true; rewrite Ew; discriminate).
        rewrite Hne. apply MG_last_ext; [reflexivity|].
        unfold w', blk_add. cbn [b_ents]. now rewrite Ew.
Qed.

(* sealing the writer block and switching to a fresh one: the non-empty blocks are the same
   (an empty writer block is retired, a non-empty one moves to the end of the chain) *)
Lemma rotate_grow c (Hh : 0 < c_hdr c) nid ts w nb : 0 < nid -> TInvP c nid ts -> ts_writer ts = Some w ->
  fresh_blk nid nb ->
  Grow ts (with_writer (seal ts w) (Some nb)).
Proof.
  intros _ Hinv Hsome (_ & _ & Fe & _).
  assert (Hwwf : bwf c w).
  { pose proof (tp_writer _ _ _ Hinv) as Hw. unfold w_list in Hw. rewrite Hsome in Hw. now inversion Hw. }
  assert (Hch : chain_of (with_writer (seal ts w) (Some nb)) = if b_used w =? 0 then chain_of ts else chain_of ts ++ [w]).
  { change (chain_of (with_writer (seal ts w) (Some nb))) with (chain_of (seal ts w)). apply chain_of_seal. }
  assert (Hwl' : filter nonempty_b (w_list (with_writer (seal ts w) (Some nb))) = []).
  { unfold w_list. cbn [with_writer ts_writer filter]. now rewrite (nonempty_b_false nb Fe). }
  assert (Hwl : w_list ts = [w]) by (unfold w_list; now rewrite Hsome).
  destruct (b_used w =? 0) eqn:Ez.
  - pose proof (bwf_used0 c w Hh Hwwf Ez) as Hwe.
    apply (Grow_same_mem _ _ []); [now rewrite Hch, app_nil_r|constructor|].
    rewrite !memne_unfold, Hch, Hwl', Hwl. cbn [filter]. now rewrite (nonempty_b_false w Hwe).
  - pose proof (bwf_used_pos c w Hwwf Ez) as Hwe.
    apply (Grow_same_mem _ _ [w]); [exact Hch|constructor; [exact Hwe|constructor]|].
    rewrite !memne_unfold, Hch, Hwl', Hwl, filter_app, app_nil_r. reflexivity.
Qed.

Lemma count_add_grow ts d : Grow ts (count_add ts d).
Proof.
  unfold count_add. destruct (d =? 0); [apply Grow_refl|].
  apply (Grow_same_mem _ _ []); [now rewrite app_nil_r|constructor|reflexivity].
Qed.

(* ------------------------------------------------------------------ whole operations *)
(* get_or_create_writer *)
Lemma ensure_grow c s t : cfg_ok c -> GInv c s ->
  Grow (get_ts s (t_id t)) (get_ts (fst (ensure_writer c s t)) (t_id t)).
Proof.
  intros (Hh & Hb0 & Hba & Hbm & Hme & Hhb) (Hn & Hall). unfold ensure_writer.
  destruct (ts_writer (get_ts s (t_id t))) as [w|] eqn:Ew; [apply Grow_refl|].
  destruct (alloc_first_spec c s ltac:(lia)) as (s1 & b & Ha & Hsame & Hnext & Hfresh & Hlim). rewrite Ha.
  cbn [fst]. rewrite get_set_same, (Hsame (t_id t)).
  eapply first_writer_grow; [apply TInv_P, Hall|exact Ew|exact Hfresh].
Qed.

(* a single append, whatever its outcome *)
Lemma append_grow_nc c s t e : cfg_ok c -> GInv c s ->
  Grow (get_ts s (t_id t)) (get_ts (fst (append c s t e)) (t_id t)).
Proof.
  intros Hc Hg. pose proof Hc as (Hh & Hb0 & Hba & Hbm & Hme & Hhb).
  pose proof (ensure_grow c s t Hc Hg) as Hg1.
  destruct (ensure_writer_spec c s t Hc Hg) as (s1 & w & He & Hle1 & Hn1 & Hoth1 & Hw1 & Hp1 & Hst1 & Hun1 & Hcnt1).
  rewrite He in Hg1. cbn [fst] in Hg1.
  unfold append. rewrite He.
  destruct (appendable c t (e_len e)) as [k|] eqn:Eap; [exact Hg1|].
  assert (Hname : name_ok c t = true /\ need c e <= c_max_alloc c).
  { unfold appendable in Eap. destruct (c_max_alloc c <? N.min u64_max (c_hdr c + e_len e)) eqn:E1; [discriminate|].
    destruct (name_ok c t); [|discriminate]. split; [reflexivity|unfold need; lia]. }
  destruct Hname as (Hname & Hsize).
  set (ts := get_ts s1 (t_id t)) in *.
  rewrite (tp_poison _ _ _ Hp1).
  pose proof (need_pos c e Hh) as Hnp.
  (* after the optional rotation: state s2 whose topic state has writer w2 with room for e *)
  assert (Hrot : exists s2 w2,
            (if b_limit w <? b_used w + need c e
             then match alloc_sized c (set_ts s1 (t_id t) (seal ts w)) (need c e) with
                  | None => (set_ts s1 (t_id t) (seal ts w), w, true)
                  | Some (s1'', nb) => (set_ts s1'' (t_id t) (with_writer (get_ts s1'' (t_id t)) (Some nb)), nb, false)
                  end
             else (s1, w, false)) = (s2, w2, false) /\
            ts_writer (get_ts s2 (t_id t)) = Some w2 /\ TInvP c (a_next (s_alloc s2)) (get_ts s2 (t_id t)) /\
            Grow ts (get_ts s2 (t_id t)) /\ b_used w2 + need c e <= b_limit w2).
  { destruct (b_limit w <? b_used w + need c e) eqn:Erot.
    - destruct (alloc_sized_spec c (set_ts s1 (t_id t) (seal ts w)) (need c e) Hb0 Hbm Hnp Hsize) as (s1'' & nb & Ha & Hsame & Hnext & Hfresh & Hlim).
      rewrite Ha. cbn [s_alloc set_ts] in Hnext.
      rewrite (Hsame (t_id t)), get_set_same.
      destruct (rotate c Hh (a_next (s_alloc s1)) ts w nb Hn1 Hp1 Hw1 Hfresh) as (R1 & R2 & R3).
      pose proof (rotate_grow c Hh (a_next (s_alloc s1)) ts w nb Hn1 Hp1 Hw1 Hfresh) as RG.
      eexists; eexists. split; [reflexivity|]. cbn [s_alloc set_ts]. rewrite Hnext.
      rewrite get_set_same. split; [reflexivity|]. split; [exact R1|]. split; [exact RG|].
      destruct Hfresh as (_ & Fu & _ & _). lia.
    - exists s1, w. split; [reflexivity|]. split; [exact Hw1|]. split; [exact Hp1|]. split; [apply Grow_refl|lia]. }
  destruct Hrot as (s2 & w2 & Hrot & Hw2 & Hp2 & HG2 & Hfit).
  rewrite Hrot. rewrite Hname. cbn [negb fst].
  rewrite get_ts_disk_write, get_set_same.
  eapply Grow_trans; [exact Hg1|]. eapply Grow_trans; [exact HG2|].
  eapply Grow_trans; [|apply count_add_grow].
  exact (add_entry_grow c Hh (a_next (s_alloc s2)) (get_ts s2 (t_id t)) w2 e Hp2 Hw2 Hfit).
Qed.

Lemma append_grow c s t e : cfg_ok c -> GInv c s -> cnt (get_ts s (t_id t)) + 1 <= u64_max ->
  Grow (get_ts s (t_id t)) (get_ts (fst (append c s t e)) (t_id t)).
Proof. intros Hc Hg _. now apply append_grow_nc. Qed.

(* ------------------------------------------------------------------ batches *)
Lemma batch_plan_grow c (Hc : cfg_ok c) t : forall es s cur rot,
  0 < a_next (s_alloc s) ->
  TInvP c (a_next (s_alloc s)) (with_writer (get_ts s (t_id t)) (Some cur)) ->
  Forall (fun e => need c e <= c_max_alloc c) es ->
  let '(s', cur', _, _) := batch_plan c s t cur rot es in
  Grow (with_writer (get_ts s (t_id t)) (Some cur)) (with_writer (get_ts s' (t_id t)) (Some cur')).
Proof.
  pose proof Hc as (Hh & Hb0 & Hba & Hbm & Hme & Hhb).
  induction es as [|e r IH]; intros s cur rot Hn Hinv Hsz; cbn [batch_plan]; [apply Grow_refl|].
  inversion Hsz as [|x l Hse Hsr]; subst.
  pose proof (need_pos c e Hh) as Hnp.
  set (X := with_writer (get_ts s (t_id t)) (Some cur)) in *.
  assert (HXw : ts_writer X = Some cur) by reflexivity.
  assert (Hcur : bwf c cur).
  { pose proof (tp_writer _ _ _ Hinv) as Hw. unfold w_list in Hw. rewrite HXw in Hw. now inversion Hw. }
  destruct Hcur as (Hcu & Hcl & Hcm).
  destruct (need c e <=? b_limit cur - b_used cur) eqn:Efit.
  - (* fits into the running block *)
    assert (Hfit : b_used cur + need c e <= b_limit cur) by lia.
    destruct (add_entry c Hh _ X cur e Hinv HXw Hfit) as (A1 & A2 & A3).
    pose proof (add_entry_grow c Hh _ X cur e Hinv HXw Hfit) as AG.
    pose proof (IH (st_disk_write s cur t [e]) (blk_add cur c [e]) rot Hn A1 Hsr) as Hrec.
    destruct (batch_plan c (st_disk_write s cur t [e]) t (blk_add cur c [e]) rot r) as [[[s' cur'] okp] rot'].
    eapply Grow_trans; [exact AG|exact Hrec].
  - (* seal the running block, take a fresh one sized for [e], write [e] into it *)
    destruct (alloc_sized_spec c (set_ts s (t_id t) (seal (get_ts s (t_id t)) cur)) (N.max (need c e) (c_block c)) Hb0 Hbm ltac:(lia) ltac:(lia))
      as (s'' & nb & Ha & Hsame & Hnext & Hfresh & Hlim).
    rewrite Ha. cbn [s_alloc set_ts] in Hnext.
    destruct (rotate c Hh (a_next (s_alloc s)) X cur nb Hn Hinv HXw Hfresh) as (R1 & R2 & R3).
    pose proof (rotate_grow c Hh (a_next (s_alloc s)) X cur nb Hn Hinv HXw Hfresh) as RG.
    assert (Hg'' : get_ts s'' (t_id t) = seal (get_ts s (t_id t)) cur) by (rewrite Hsame; apply get_set_same).
    assert (Hconv : with_writer (get_ts s'' (t_id t)) (Some nb) = with_writer (seal X cur) (Some nb)) by (rewrite Hg''; reflexivity).
    set (Y := with_writer (get_ts s'' (t_id t)) (Some nb)) in *.
    assert (HYw : ts_writer Y = Some nb) by reflexivity.
    assert (HYinv : TInvP c (a_next (s_alloc s'')) Y) by (rewrite Hnext, Hconv; exact R1).
    pose proof Hfresh as (Fi & Fu & Fe & Fl).
    assert (Hfit : b_used nb + need c e <= b_limit nb) by lia.
    destruct (add_entry c Hh _ Y nb e HYinv HYw Hfit) as (A1 & A2 & A3).
    pose proof (add_entry_grow c Hh _ Y nb e HYinv HYw Hfit) as AG.
    pose proof (IH (st_disk_write s'' nb t [e]) (blk_add nb c [e]) true ltac:(cbn [st_disk_write s_alloc]; lia) A1 Hsr) as Hrec.
    destruct (batch_plan c (st_disk_write s'' nb t [e]) t (blk_add nb c [e]) true r) as [[[s' cur'] okp] rot'].
    rewrite <- Hconv in RG.
    eapply Grow_trans; [exact RG|]. eapply Grow_trans; [exact AG|exact Hrec].
Qed.

(* a batch, whatever its outcome *)
Lemma batch_grow_nc c be s t es : cfg_ok c -> GInv c s ->
  Grow (get_ts s (t_id t)) (get_ts (fst (batch c be s t es)) (t_id t)).
Proof.
  intros Hc Hg. pose proof Hc as (Hh & Hb0 & Hba & Hbm & Hme & Hhb).
  pose proof (ensure_grow c s t Hc Hg) as Hg1.
  destruct (ensure_writer_spec c s t Hc Hg) as (s1 & w & He & Hle1 & Hn1 & Hoth1 & Hw1 & Hp1 & Hst1 & Hun1 & Hcnt1).
  rewrite He in Hg1. cbn [fst] in Hg1. unfold batch. rewrite He.
  destruct (c_max_entries c <? N.of_nat (length es)); [exact Hg1|].
  destruct (c_max_bytes c <? sum_need c es); [exact Hg1|].
  destruct (appendable c t (max_len es)) as [k|] eqn:Eap; [exact Hg1|].
  assert (Hname : name_ok c t = true /\ c_hdr c + max_len es <= c_max_alloc c).
  { unfold appendable in Eap. destruct (c_max_alloc c <? N.min u64_max (c_hdr c + max_len es)) eqn:E1; [discriminate|].
    destruct (name_ok c t); [|discriminate]. split; [reflexivity|lia]. }
  destruct Hname as (Hname & Hml).
  assert (Hsz : Forall (fun e => need c e <= c_max_alloc c) es).
  { clear - Hml. induction es as [|e es IH]; [constructor|]. cbn [max_len fold_right] in Hml. fold (max_len es) in Hml.
    constructor; [unfold need; lia|apply IH; lia]. }
  destruct es as [|e0 es0]; [exact Hg1|].
  rewrite (tp_poison _ _ _ Hp1).
  set (ts := get_ts s1 (t_id t)) in *.
  assert (Hww : with_writer ts (Some w) = ts) by (apply with_writer_same; exact Hw1).
  assert (Hinvw : TInvP c (a_next (s_alloc s1)) (with_writer ts (Some w))) by (rewrite Hww; exact Hp1).
  pose proof (batch_plan_grow c Hc t (e0 :: es0) s1 w false Hn1 Hinvw Hsz) as Hpl.
  destruct (batch_plan_spec c Hc t (e0 :: es0) s1 w false Hn1 Hinvw Hsz) as (s2 & wfin & rot' & Hbp & _).
  rewrite Hbp in *. cbn [negb]. rewrite Hname. cbn [negb fst].
  rewrite get_set_same. fold ts in Hpl. rewrite Hww in Hpl.
  eapply Grow_trans; [exact Hg1|]. eapply Grow_trans; [exact Hpl|apply count_add_grow].
Qed.

Lemma batch_grow c be s t es : cfg_ok c -> GInv c s -> cnt (get_ts s (t_id t)) + N.of_nat (length es) <= u64_max ->
  Grow (get_ts s (t_id t)) (get_ts (fst (batch c be s t es)) (t_id t)).
Proof. intros Hc Hg _. now apply batch_grow_nc. Qed.
