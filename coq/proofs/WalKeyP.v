(* Proofs about model/WalKey.v *)
From W Require Import model.Base model.WalKey.
From Coq Require Import ZArith ZifyBool ZifyN.
Ltac Zify.zify_post_hook ::= Z.div_mod_to_equations.

Definition digits (s : str) : Prop := Forall (fun c => is_digit c = true) s.

Lemma strip_prefix_app p s : strip_prefix p (p ++ s) = Some s.
Proof. induction p as [|x p IH]; cbn; [reflexivity|]. now rewrite N.eqb_refl. Qed.

Lemma strip_prefix_sound p : forall s r, strip_prefix p s = Some r -> s = p ++ r.
Proof.
  induction p as [|x p IH]; intros s r H; cbn in *; [now inversion H|].
  destruct s as [|y s]; [discriminate|].
  destruct (x =? y) eqn:E; [|discriminate]. apply N.eqb_eq in E; subst y.
  now rewrite (IH _ _ H).
Qed.

(* ---- decimal printing ---- *)
Fixpoint val (acc : N) (ds : str) : N :=
  match ds with [] => acc | d :: r => val (acc * 10 + (d - ch_0)) r end.

Lemma dec_aux_digits fuel : forall n acc, digits acc -> digits (dec_aux fuel n acc).
Proof.
  induction fuel as [|f IH]; intros n acc Ha; cbn [dec_aux]; [exact Ha|].
  destruct (n <? 10) eqn:E.
  - constructor; [|exact Ha]. unfold is_digit, ch_0, ch_9. lia.
  - apply IH. constructor; [|exact Ha]. unfold is_digit, ch_0, ch_9. lia.
Qed.

Lemma dec_digits n : digits (dec n).
Proof. apply dec_aux_digits. constructor. Qed.

Lemma dec_aux_nonempty fuel n acc : dec_aux (S fuel) n acc <> [].
Proof.
  revert n acc; induction fuel as [|f IH]; intros n acc; cbn [dec_aux].
  - destruct (n <? 10); discriminate.
  - destruct (n <? 10); [discriminate|]. apply IH.
Qed.

Lemma dec_nonempty n : dec n <> [].
Proof. apply dec_aux_nonempty. Qed.

Lemma val_ge ds : forall a, a <= val a ds.
Proof.
  induction ds as [|d r IH]; intros a; cbn [val]; [lia|].
  etransitivity; [|apply IH]. lia.
Qed.

(* reading the printed digits back from any start value b *)
Lemma dec_aux_val fuel : forall n acc, n < 10 ^ N.of_nat fuel ->
  exists k, forall b, val b (dec_aux fuel n acc) = val (b * 10 ^ k + n) acc.
Proof.
  induction fuel as [|f IH]; intros n acc Hn.
  - exists 0. intros b. cbn [dec_aux]. cbn in Hn. f_equal. rewrite N.pow_0_r. lia.
  - cbn [dec_aux]. destruct (n <? 10) eqn:E.
    + exists 1. intros b. cbn [val]. f_equal. rewrite N.pow_1_r. unfold ch_0. lia.
    + assert (Hn' : n / 10 < 10 ^ N.of_nat f).
      { rewrite Nat2N.inj_succ, N.pow_succ_r' in Hn.
        set (p := 10 ^ N.of_nat f) in *. clearbody p. lia. }
      destruct (IH (n / 10) ((ch_0 + n mod 10) :: acc) Hn') as [k Hk].
      exists (N.succ k). intros b. rewrite Hk. cbn [val]. f_equal.
      rewrite N.pow_succ_r'. set (p := 10 ^ k). clearbody p. unfold ch_0. lia.
Qed.

Lemma dec_val n : n < two64 -> val 0 (dec n) = n.
Proof.
  intros Hn. destruct (dec_aux_val 20 n []) as [k Hk].
  - eapply N.lt_trans; [exact Hn|]. vm_compute. reflexivity.
  - unfold dec. rewrite Hk. cbn [val]. lia.
Qed.

Lemma parse_digits_val ds : forall a, digits ds -> val a ds <= u64_max ->
  parse_digits a ds = Some (val a ds).
Proof.
  induction ds as [|d r IH]; intros a Hd Hv; cbn [parse_digits val] in *; [reflexivity|].
  inversion Hd as [|x l Hx Hr]; subst. rewrite Hx.
  pose proof (val_ge r (a * 10 + (d - ch_0))) as Hge.
  destruct (u64_max <? a * 10 + (d - ch_0)) eqn:E; [lia|]. now apply IH.
Qed.

Lemma parse_u64_dec n : n < two64 -> parse_u64 (dec n) = Some n.
Proof.
  intros Hn. pose proof (dec_digits n) as Hd. pose proof (dec_nonempty n) as Hne.
  unfold parse_u64. destruct (dec n) as [|c r] eqn:E; [congruence|].
  assert (Hc : is_digit c = true) by (inversion Hd; assumption).
  destruct (c =? ch_plus) eqn:Ep.
  { unfold is_digit, ch_0, ch_9, ch_plus in *. lia. }
  rewrite parse_digits_val; [|exact Hd|].
  - rewrite <- E, dec_val by exact Hn. reflexivity.
  - rewrite <- E, dec_val by exact Hn. unfold two64, u64_max in *. lia.
Qed.

(* ---- the right-most "_s_" of a printed key is the one that was inserted ---- *)
Lemma rsplit_digits ds : digits ds -> rsplit_s ds = None.
Proof.
  induction ds as [|d r IH]; intros Hd; [reflexivity|].
  inversion Hd as [|x l Hx Hr]; subst. cbn [rsplit_s]. rewrite (IH Hr).
  cbn. unfold is_digit, ch_0, ch_9, ch_us in *.
  destruct (95 =? d) eqn:E; [lia|reflexivity].
Qed.

Lemma rsplit_pat_digits ds : digits ds -> rsplit_s (pat_s ++ ds) = Some ([], ds).
Proof.
  intros Hd. unfold pat_s. cbn [app].
  assert (H3 : rsplit_s (ch_us :: ds) = None).
  { cbn [rsplit_s]. rewrite (rsplit_digits _ Hd). destruct ds as [|d r]; [reflexivity|].
    inversion Hd; subst. cbn. unfold is_digit, ch_0, ch_9, ch_s in *.
    destruct (115 =? d) eqn:E; [lia|reflexivity]. }
  assert (H2 : rsplit_s (ch_s :: ch_us :: ds) = None).
  { cbn [rsplit_s] in *. rewrite (rsplit_digits _ Hd) in *. rewrite H3. reflexivity. }
  change (rsplit_s (ch_us :: ch_s :: ch_us :: ds)) with
    (match rsplit_s (ch_s :: ch_us :: ds) with
     | Some (a, b) => Some (ch_us :: a, b)
     | None => match strip_prefix pat_s (ch_us :: ch_s :: ch_us :: ds) with
               | Some rest => Some ([], rest) | None => None end end).
  rewrite H2. reflexivity.
Qed.

Lemma rsplit_app a ds : digits ds -> rsplit_s (a ++ pat_s ++ ds) = Some (a, ds).
Proof.
  intros Hd. induction a as [|c a IH]; [now apply rsplit_pat_digits|].
  cbn [app rsplit_s]. rewrite IH. reflexivity.
Qed.

Theorem wal_key_roundtrip topic n : n < two64 ->
  parse_wal_key (wal_key topic n) = Some (topic, n).
Proof.
  intros Hn. unfold parse_wal_key, wal_key.
  rewrite app_assoc, rsplit_app by apply dec_digits.
  rewrite strip_prefix_app, parse_u64_dec by exact Hn. reflexivity.
Qed.

Theorem wal_key_injective t1 n1 t2 n2 : n1 < two64 -> n2 < two64 ->
  wal_key t1 n1 = wal_key t2 n2 -> t1 = t2 /\ n1 = n2.
Proof.
  intros H1 H2 E. pose proof (wal_key_roundtrip t1 n1 H1) as R1.
  rewrite E, wal_key_roundtrip in R1 by exact H2. now inversion R1.
Qed.

(* decoder soundness: whatever parses is a key that re-encodes to the same pair's key
   only up to leading zeros and '+', so only the one direction the property asks for is
   claimed; this lemma records what the decoder guarantees about its output. *)
Lemma parse_wal_key_shape k topic n : parse_wal_key k = Some (topic, n) ->
  exists ds, k = pre_t ++ topic ++ pat_s ++ ds /\ parse_u64 ds = Some n.
Proof.
  unfold parse_wal_key. destruct (rsplit_s k) as [[l r]|] eqn:Er; [|discriminate].
  destruct (strip_prefix pre_t l) as [tp|] eqn:Es; [|discriminate].
  destruct (parse_u64 r) as [m|] eqn:Ep; [|discriminate].
  intros H; inversion H; subst. exists r. split; [|exact Ep].
  apply strip_prefix_sound in Es. subst l.
  assert (G : forall s a b, rsplit_s s = Some (a, b) -> s = a ++ pat_s ++ b).
  { induction s as [|c s IH]; intros a b Hs; cbn [rsplit_s] in Hs; [discriminate|].
    destruct (rsplit_s s) as [[a' b']|] eqn:E.
    - inversion Hs; subst. cbn. f_equal. now apply IH.
    - destruct (strip_prefix pat_s (c :: s)) as [rest|] eqn:Eq; [|discriminate].
      inversion Hs; subst. apply strip_prefix_sound in Eq. exact Eq. }
  apply G in Er. rewrite Er. now rewrite <- app_assoc.
Qed.
