(* Proofs for C20: snapshot/restore of the metadata state machine reproduces the state (any
   map iteration order), replicas that are equal stay equal, reachable states are in the
   domain of the codec; the Raft adapter of octopii never transfers the application state. *)
From W Require Import model.Base model.Utf8 model.Map model.Bincode model.Meta model.Adapter
  proofs.MapP proofs.BincodeP.
From Coq Require Import Permutation ZArith ZifyBool ZifyN ZifyNat.

(* ---------- restore (snapshot s) = s ---------- *)
Lemma restore_listing s l rest :
  cluster_sorted (m_cl s) -> cluster_wf l -> cluster_listing l (m_cl s) ->
  restore m_init (enc_cluster l ++ rest) = (mkM (m_cl s) false, true).
Proof.
  intros Hs Hw Hl. unfold restore. rewrite (codec_roundtrip (m_cl s) l rest Hs Hw Hl). reflexivity.
Qed.

Lemma live_eta s : m_poisoned s = false -> mkM (m_cl s) false = s.
Proof. destruct s as [c p]. cbn. now intros ->. Qed.

(* a snapshot written in ANY iteration order of the maps, restored into a fresh state
   machine, gives exactly the sender's state *)
Lemma snapshot_restore_any_order s l :
  m_poisoned s = false -> cluster_sorted (m_cl s) -> cluster_wf l -> cluster_listing l (m_cl s) ->
  restore m_init (enc_cluster l) = (s, true).
Proof.
  intros Hp Hs Hw Hl. rewrite <- (app_nil_r (enc_cluster l)). rewrite (restore_listing s l [] Hs Hw Hl).
  now rewrite live_eta.
Qed.

Lemma snap_item_id s :
  m_poisoned s = false -> cluster_sorted (m_cl s) -> cluster_wf (m_cl s) ->
  snap_item s = (s, (enc_cluster (m_cl s), true)).
Proof.
  intros Hp Hs Hw. unfold snap_item, snapshot. rewrite Hp.
  rewrite (snapshot_restore_any_order s (m_cl s) Hp Hs Hw (cluster_listing_refl _)). reflexivity.
Qed.

(* equal replicas stay equal; a replica restored from a snapshot behaves like the sender *)
Lemma then_equal oc s l inputs :
  m_poisoned s = false -> cluster_sorted (m_cl s) -> cluster_wf l -> cluster_listing l (m_cl s) ->
  mrun oc (fst (restore m_init (enc_cluster l))) inputs = mrun oc s inputs /\
  mexec oc (fst (restore m_init (enc_cluster l))) inputs = mexec oc s inputs.
Proof. intros Hp Hs Hw Hl. rewrite (snapshot_restore_any_order s l Hp Hs Hw Hl). auto. Qed.

(* ---------- reachable states are sorted ---------- *)
Lemma sorted_rollover oc t nl count t' p :
  topic_sorted t -> rollover oc t nl count = (t', p) -> topic_sorted t'.
Proof.
  intros [S1 S2]. unfold rollover.
  destruct (oc && (two64 <=? t_last t + count)).
  - intros H. inversion H; subst. split; cbn; now apply (sorted_ins N_cmp_ok).
  - destruct (oc && (two64 <=? t_cur t + 1)); intros H; inversion H; subst; split; cbn;
      repeat apply (sorted_ins N_cmp_ok); assumption.
Qed.

Lemma sorted_new leader : topic_sorted (new_topic leader).
Proof. split; reflexivity. Qed.

Lemma lookup_Forall {V} (P : V -> Prop) name (ts : list (str * V)) t :
  Forall (fun nt => P (snd nt)) ts -> lookup str_cmp name ts = Some t -> P t.
Proof.
  intros Hf Hl. rewrite Forall_forall in Hf. apply (Hf (name, t)). now apply (lookup_In str_cmp_ok).
Qed.

Lemma sorted_apply_cmd oc s c s' r :
  cluster_sorted (m_cl s) -> apply_cmd oc s c = (s', r) -> cluster_sorted (m_cl s').
Proof.
  intros (S1 & S2 & S3). destruct s as [[ts ns] p]. cbn [m_cl c_topics c_nodes] in *.
  destruct c as [name leader|name nl count|id addr]; cbn [apply_cmd m_cl c_topics c_nodes set_topics].
  - destruct (lookup str_cmp name ts) eqn:El; intros H; inversion H; subst; cbn [m_cl].
    + repeat split; auto.
    + split; [|split]; cbn [c_topics c_nodes]; auto.
      * now apply (sorted_ins str_cmp_ok).
      * apply Forall_ins; [apply sorted_new|exact S3].
  - destruct (lookup str_cmp name ts) as [t|] eqn:El.
    + destruct (rollover oc t nl count) as [t' [ps|]] eqn:Er; intros H; inversion H; subst; cbn [m_cl];
        (split; [|split]; cbn [c_topics c_nodes]; auto;
         [now apply (sorted_ins str_cmp_ok)|
          apply Forall_ins; [cbn; eapply sorted_rollover; [|exact Er]; eapply (lookup_Forall topic_sorted); eauto|exact S3]]).
    + intros H; inversion H; subst. repeat split; auto.
  - intros H; inversion H; subst. split; [|split]; cbn [m_cl c_topics c_nodes]; auto.
    now apply (sorted_ins N_cmp_ok).
Qed.

Lemma sorted_apply oc s bs : cluster_sorted (m_cl s) -> cluster_sorted (m_cl (fst (apply oc s bs))).
Proof.
  intros Hs. unfold apply. destruct (dec_cmd bs) as [[c r]|]; [|exact Hs].
  destruct (m_poisoned s); [exact Hs|].
  destruct (apply_cmd oc s c) as [s' r'] eqn:E. cbn [fst]. eapply sorted_apply_cmd; eauto.
Qed.

Lemma sorted_init : cluster_sorted (m_cl m_init).
Proof. repeat split; constructor. Qed.

Lemma sorted_mexec oc inputs : forall s, cluster_sorted (m_cl s) -> cluster_sorted (m_cl (mexec oc s inputs)).
Proof. induction inputs as [|b r IH]; intros s Hs; cbn [mexec]; [exact Hs|]. apply IH. now apply sorted_apply. Qed.

Lemma sorted_restore s bs : cluster_sorted (m_cl s) -> cluster_sorted (m_cl (fst (restore s bs))).
Proof.
  intros Hs. unfold restore. destruct (dec_cluster bs) as [[c r]|] eqn:E; [|exact Hs].
  destruct (m_poisoned s); [exact Hs|]. cbn. eapply dec_cluster_sorted; eauto.
Qed.

(* ---------- reachable states fit the wire format ---------- *)
(* inputs are byte strings, not too long; at most [n] inputs so far *)
Definition input_ok (bs : list N) : Prop := Forall (fun b => b < 256) bs /\ 4 * N.of_nat (length bs) < two64.

Definition nmap_b (n : N) (l : list (N * N)) : Prop :=
  Forall (fun kv => fst kv < two64 /\ snd kv < two64) l /\ N.of_nat (length l) <= n.
Definition topic_b (n : N) (t : tstate) : Prop :=
  t_cur t < two64 /\ t_leader t < two64 /\ t_last t < two64 /\ nmap_b n (t_sealed t) /\ nmap_b (2 * n + 1) (t_leaders t).
Definition cluster_b (n : N) (c : cluster) : Prop :=
  Forall (fun nt => str_ok (fst nt) /\ topic_b n (snd nt)) (c_topics c) /\ N.of_nat (length (c_topics c)) <= n /\
  Forall (fun na => fst na < two64 /\ str_ok (snd na)) (c_nodes c) /\ N.of_nat (length (c_nodes c)) <= n.

Lemma cluster_b_wf n c : 2 * n + 2 < two64 -> cluster_b n c -> cluster_wf c.
Proof.
  intros Hn (H1 & H2 & H3 & H4). repeat split; auto; try lia.
  eapply Forall_impl; [|exact H1]. intros [nm t] [A (B1 & B2 & B3 & [B4 B4'] & [B5 B5'])]. cbn [fst snd] in *.
  split; [exact A|]. repeat split; auto; lia.
Qed.

Lemma ins_length {K V} cmp (k : K) (v : V) l : (length (ins cmp k v l) <= S (length l))%nat.
Proof.
  induction l as [|[k' v'] r IH]; cbn [ins length]; [lia|]. destruct (cmp k k'); cbn [length]; lia.
Qed.

Lemma nmap_b_ins n k v l : k < two64 -> v < two64 -> nmap_b n l -> nmap_b (n + 1) (ins N.compare k v l).
Proof.
  intros Hk Hv [H1 H2]. split; [apply Forall_ins; auto|]. pose proof (ins_length N.compare k v l). lia.
Qed.

Lemma nmap_b_mono n m l : n <= m -> nmap_b n l -> nmap_b m l.
Proof. intros H [H1 H2]. split; [exact H1|lia]. Qed.

Lemma topic_b_mono n t : topic_b n t -> topic_b (n + 1) t.
Proof.
  intros (A & B & C & D & E). split; [exact A|]. split; [exact B|]. split; [exact C|]. split.
  - eapply nmap_b_mono; [|exact D]. lia.
  - eapply nmap_b_mono; [|exact E]. lia.
Qed.

(* decoded values *)
Lemma utf8_dec1_scalar bs c r : utf8_dec1 bs = Some (c, r) -> is_scalar c = true /\ (length r < length bs)%nat.
Proof.
  unfold utf8_dec1, is_scalar, is_cont. destruct bs as [|b0 r0]; [discriminate|].
  destruct (b0 <? 128) eqn:E1. { intros H; inversion H; subst. cbn [length]. split; lia. }
  destruct (b0 <? 194) eqn:E2; [discriminate|].
  destruct (b0 <? 224) eqn:E3.
  { destruct r0 as [|b1 r1]; [discriminate|].
    destruct ((128 <=? b1) && (b1 <? 192)) eqn:C1; [|discriminate]. intros H; inversion H; subst. cbn [length]. split; lia. }
  destruct (b0 <? 240) eqn:E4.
  { destruct r0 as [|b1 [|b2 r2]]; try discriminate.
    destruct (((128 <=? b1) && (b1 <? 192)) && ((128 <=? b2) && (b2 <? 192))) eqn:C1; [|discriminate].
    match goal with |- context [if ?x then None else _] => destruct x eqn:C2 end; [discriminate|].
    intros H; inversion H; subst. cbn [length]. split; lia. }
  destruct (b0 <? 245) eqn:E5; [|discriminate].
  destruct r0 as [|b1 [|b2 [|b3 r3]]]; try discriminate.
  destruct ((((128 <=? b1) && (b1 <? 192)) && ((128 <=? b2) && (b2 <? 192))) && ((128 <=? b3) && (b3 <? 192))) eqn:C1; [|discriminate].
  match goal with |- context [if ?x then None else _] => destruct x eqn:C2 end; [discriminate|].
  intros H; inversion H; subst. cbn [length]. split; lia.
Qed.

Lemma utf8_decode_fuel_scalar f : forall bs s, utf8_decode_fuel f bs = Some s ->
  Forall (fun c => is_scalar c = true) s /\ (length s <= length bs)%nat.
Proof.
  induction f as [|f IH]; intros bs s H; cbn [utf8_decode_fuel] in H.
  - destruct bs; [|discriminate]. inversion H; subst. split; [constructor|cbn; lia].
  - destruct bs as [|b r]; [inversion H; subst; split; [constructor|cbn; lia]|].
    destruct (utf8_dec1 (b :: r)) as [[c r']|] eqn:E; [|discriminate].
    destruct (utf8_decode_fuel f r') as [s'|] eqn:E2; [|discriminate]. inversion H; subst.
    destruct (utf8_dec1_scalar _ _ _ E) as [Hc Hl]. destruct (IH _ _ E2) as [Hs Hl2].
    split; [constructor; auto|cbn [length] in *; lia].
Qed.

Lemma utf8_encode_len s : (length (utf8_encode s) <= 4 * length s)%nat.
Proof.
  induction s as [|c s IH]; cbn [utf8_encode length]; [lia|]. rewrite app_length. pose proof (utf8_enc1_len c). lia.
Qed.

Lemma take_len (k : nat) : forall (bs a r : list N), take k bs = Some (a, r) -> (length a + length r = length bs)%nat.
Proof. intros bs a r H. destruct (take_spec k bs a r H) as [-> _]. now rewrite app_length. Qed.

Lemma dec_str_ok bs s r : Forall (fun b => b < 256) bs -> 4 * N.of_nat (length bs) < two64 ->
  dec_str bs = Some (s, r) -> str_ok s /\ Forall (fun b => b < 256) r /\ (length r <= length bs)%nat.
Proof.
  intros Hb Hl H. unfold dec_str in H. destruct (dec_u64 bs) as [[n r0]|] eqn:E; [|discriminate].
  destruct (dec_u64_bound _ _ _ Hb E) as (_ & Hr0 & L0).
  destruct (N.of_nat (length r0) <? n); [discriminate|].
  destruct (take (N.to_nat n) r0) as [[a r']|] eqn:Et; [|discriminate].
  destruct (utf8_decode a) as [s'|] eqn:Eu; [|discriminate]. inversion H; subst.
  destruct (take_spec _ _ _ _ Et) as [-> La]. apply Forall_app in Hr0. destruct Hr0 as [_ Hr'].
  unfold utf8_decode in Eu. destruct (utf8_decode_fuel_scalar _ _ _ Eu) as [Hs Ls].
  rewrite app_length in L0. pose proof (utf8_encode_len s).
  repeat split; auto; lia.
Qed.

Lemma dec_cmd_ok bs c r : input_ok bs -> dec_cmd bs = Some (c, r) -> cmd_wf c.
Proof.
  intros [Hb Hl] H. unfold dec_cmd in H. destruct (dec_u32 bs) as [[tag r0]|] eqn:E; [|discriminate].
  assert (B0 : Forall (fun b => b < 256) r0 /\ (length r0 <= length bs)%nat).
  { unfold dec_u32 in E. destruct (take 4 bs) as [[a r1]|] eqn:Et; [|discriminate]. inversion E; subst.
    destruct (take_spec _ _ _ _ Et) as [-> _]. apply Forall_app in Hb. rewrite app_length. split; [tauto|lia]. }
  destruct B0 as [Hb0 L0].
  destruct (tag =? 0).
  { destruct (dec_str r0) as [[name r1]|] eqn:E1; [|discriminate].
    destruct (dec_str_ok _ _ _ Hb0 ltac:(lia) E1) as (S1 & Hb1 & L1).
    destruct (dec_u64 r1) as [[l r2]|] eqn:E2; [|discriminate].
    destruct (dec_u64_bound _ _ _ Hb1 E2) as (B2 & _). inversion H; subst. cbn. auto. }
  destruct (tag =? 1).
  { destruct (dec_str r0) as [[name r1]|] eqn:E1; [|discriminate].
    destruct (dec_str_ok _ _ _ Hb0 ltac:(lia) E1) as (S1 & Hb1 & L1).
    destruct (dec_u64 r1) as [[l r2]|] eqn:E2; [|discriminate].
    destruct (dec_u64_bound _ _ _ Hb1 E2) as (B2 & Hb2 & _).
    destruct (dec_u64 r2) as [[n r3]|] eqn:E3; [|discriminate].
    destruct (dec_u64_bound _ _ _ Hb2 E3) as (B3 & _). inversion H; subst. cbn. auto. }
  destruct (tag =? 2); [|discriminate].
  destruct (dec_u64 r0) as [[id r1]|] eqn:E1; [|discriminate].
  destruct (dec_u64_bound _ _ _ Hb0 E1) as (B1 & Hb1 & L1).
  destruct (dec_str r1) as [[addr r2]|] eqn:E2; [|discriminate].
  destruct (dec_str_ok _ _ _ Hb1 ltac:(lia) E2) as (S2 & _). inversion H; subst. cbn. auto.
Qed.

Lemma topic_b_rollover oc n t nl count t' p :
  nl < two64 -> count < two64 -> topic_b n t -> rollover oc t nl count = (t', p) -> topic_b (n + 1) t'.
Proof.
  intros Hnl Hc (A & B & C & D & [E1 E2]). unfold rollover.
  assert (M : forall x, x mod two64 < two64) by (intros x; apply N.mod_lt; unfold two64; lia).
  pose proof (ins_length N.compare ((t_cur t + 1) mod two64) nl (ins N.compare (t_cur t) (t_leader t) (t_leaders t))) as L2.
  pose proof (ins_length N.compare (t_cur t) (t_leader t) (t_leaders t)) as L1.
  assert (F1 : Forall (fun kv : N * N => fst kv < two64 /\ snd kv < two64) (ins N.compare (t_cur t) (t_leader t) (t_leaders t)))
    by (apply Forall_ins; auto).
  assert (Se : nmap_b (n + 1) (ins N.compare (t_cur t) count (t_sealed t))) by (now apply nmap_b_ins).
  destruct (oc && (two64 <=? t_last t + count)).
  - intros H; inversion H; subst. unfold topic_b; cbn [t_cur t_leader t_last t_sealed t_leaders].
    split; [|split; [|split; [|split]]]; auto. split; [exact F1|lia].
  - destruct (oc && (two64 <=? t_cur t + 1)); intros H; inversion H; subst;
      unfold topic_b; cbn [t_cur t_leader t_last t_sealed t_leaders];
      (split; [|split; [|split; [|split]]]); auto.
    + split; [exact F1|lia].
    + split; [|lia]. apply Forall_ins; [cbn; split; [apply M|exact Hnl]|exact F1].
Qed.

Lemma topic_b_new n leader : leader < two64 -> topic_b n (new_topic leader).
Proof.
  intros H. unfold topic_b, new_topic; cbn [t_cur t_leader t_last t_sealed t_leaders].
  split; [|split; [|split; [|split]]]; try (unfold two64; lia); try exact H.
  - split; [constructor|cbn; lia].
  - split; [cbn; repeat constructor; cbn; try exact H; unfold two64; lia|cbn; lia].
Qed.

Lemma Forall_topics_mono n (ts : list (str * tstate)) :
  Forall (fun nt => str_ok (fst nt) /\ topic_b n (snd nt)) ts ->
  Forall (fun nt => str_ok (fst nt) /\ topic_b (n + 1) (snd nt)) ts.
Proof. intros H. eapply Forall_impl; [|exact H]. intros a [A B]. split; [exact A|now apply topic_b_mono]. Qed.

Lemma cluster_b_mono n c : cluster_b n c -> cluster_b (n + 1) c.
Proof.
  intros (H1 & H2 & H3 & H4). split; [now apply Forall_topics_mono|]. split; [lia|]. split; [exact H3|lia].
Qed.

Lemma cluster_b_apply_cmd oc n s c s' r :
  cmd_wf c -> cluster_b n (m_cl s) -> apply_cmd oc s c = (s', r) -> cluster_b (n + 1) (m_cl s').
Proof.
  intros Hc Hb. pose proof Hb as (H1 & H2 & H3 & H4). destruct s as [[ts ns] p]. cbn [m_cl c_topics c_nodes] in *.
  destruct c as [name leader|name nl count|id addr]; cbn [apply_cmd m_cl c_topics c_nodes set_topics cmd_wf] in *; unfold set_topics; cbn [c_nodes].
  - destruct Hc as [Hn Hl].
    destruct (lookup str_cmp name ts) eqn:El; intros H; inversion H; subst; cbn [m_cl].
    + now apply (cluster_b_mono n (mkCluster ts ns)).
    + unfold cluster_b; cbn [c_topics c_nodes]. split; [|split; [|split; [exact H3|lia]]].
      * apply Forall_ins; [cbn; split; [exact Hn|now apply topic_b_new]|now apply Forall_topics_mono].
      * pose proof (ins_length str_cmp name (new_topic leader) ts). lia.
  - destruct Hc as (Hn & Hl & Hcnt).
    destruct (lookup str_cmp name ts) as [t|] eqn:El.
    + assert (Ht : topic_b n t).
      { rewrite Forall_forall in H1. apply (H1 (name, t)). now apply (lookup_In str_cmp_ok). }
      destruct (rollover oc t nl count) as [t' ps] eqn:Er.
      pose proof (topic_b_rollover oc n t nl count t' ps Hl Hcnt Ht Er) as Ht'.
      assert (G : cluster_b (n + 1) (mkCluster (ins str_cmp name t' ts) ns)).
      { unfold cluster_b; cbn [c_topics c_nodes]. split; [|split; [|split; [exact H3|lia]]].
        - apply Forall_ins; [cbn; split; [exact Hn|exact Ht']|now apply Forall_topics_mono].
        - pose proof (ins_length str_cmp name t' ts). lia. }
      destruct ps; intros H; inversion H; subst; exact G.
    + intros H; inversion H; subst. now apply (cluster_b_mono n (mkCluster ts ns)).
  - destruct Hc as [Hi Ha]. intros H; inversion H; subst. unfold cluster_b; cbn [m_cl c_topics c_nodes].
    split; [now apply Forall_topics_mono|]. split; [lia|]. split.
    + apply Forall_ins; [cbn; auto|exact H3].
    + pose proof (ins_length N.compare id addr ns). lia.
Qed.

Lemma cluster_b_apply oc n s bs :
  input_ok bs -> cluster_b n (m_cl s) -> cluster_b (n + 1) (m_cl (fst (apply oc s bs))).
Proof.
  intros Hi Hb. unfold apply. destruct (dec_cmd bs) as [[c r]|] eqn:E; [|now apply cluster_b_mono].
  destruct (m_poisoned s); [now apply cluster_b_mono|].
  destruct (apply_cmd oc s c) as [s' r'] eqn:Ea. cbn [fst].
  eapply cluster_b_apply_cmd; [eapply dec_cmd_ok; eauto|exact Hb|exact Ea].
Qed.

Lemma cluster_b_mexec oc inputs : forall n s,
  Forall input_ok inputs -> cluster_b n (m_cl s) -> cluster_b (n + N.of_nat (length inputs)) (m_cl (mexec oc s inputs)).
Proof.
  induction inputs as [|b r IH]; intros n s Hi Hb; cbn [mexec length].
  - now rewrite N.add_0_r.
  - inversion Hi; subst. replace (n + N.of_nat (S (length r))) with (n + 1 + N.of_nat (length r)) by lia.
    apply IH; [assumption|]. now apply cluster_b_apply.
Qed.

Lemma cluster_b_init : cluster_b 0 (m_cl m_init).
Proof. unfold cluster_b; cbn. repeat split; try constructor; lia. Qed.

(* every state reachable by applying byte strings is in the codec's domain *)
Lemma reach_wf oc inputs :
  Forall input_ok inputs -> 2 * N.of_nat (length inputs) + 2 < two64 ->
  cluster_wf (m_cl (mexec oc m_init inputs)) /\ cluster_sorted (m_cl (mexec oc m_init inputs)).
Proof.
  intros Hi Hn. split.
  - apply (cluster_b_wf (N.of_nat (length inputs))); [exact Hn|].
    pose proof (cluster_b_mexec oc inputs 0 m_init Hi cluster_b_init) as B. now rewrite N.add_0_l in B.
  - apply sorted_mexec. apply sorted_init.
Qed.

(* a listing of a well-formed state is well-formed *)
Lemma nmap_ok_perm a b : Permutation a b -> nmap_ok b -> nmap_ok a.
Proof.
  intros P [H1 H2]. split.
  - eapply Permutation_Forall; [apply Permutation_sym; exact P|exact H1].
  - now rewrite (Permutation_length P).
Qed.

Lemma topic_wf_listing l t : topic_listing l t -> topic_wf t -> topic_wf l.
Proof.
  intros (E1 & E2 & E3 & P1 & P2) (A & B & C & D & E). unfold topic_wf. rewrite E1, E2, E3.
  split; [exact A|]. split; [exact B|]. split; [exact C|]. split; eapply nmap_ok_perm; eauto.
Qed.

Lemma forall2_len {A B} (R : A -> B -> Prop) l1 l2 : Forall2 R l1 l2 -> length l1 = length l2.
Proof. induction 1; cbn; congruence. Qed.

Lemma cluster_wf_listing l c : cluster_listing l c -> cluster_wf c -> cluster_wf l.
Proof.
  intros [[mid [P1 F]] P2] (H1 & H2 & H3 & H4). unfold cluster_wf.
  assert (Fm : Forall (fun nt => str_ok (fst nt) /\ topic_wf (snd nt)) mid).
  { clear P1 H2. induction F as [|a b mid' ts' [Ea Ta] F IH]; [constructor|].
    inversion H1 as [|? ? [Hb1 Hb2] H1']; subst. constructor; [|now apply IH].
    rewrite Ea. split; [exact Hb1|]. eapply topic_wf_listing; eauto. }
  split; [eapply Permutation_Forall; [apply Permutation_sym; exact P1|exact Fm]|].
  split; [rewrite (Permutation_length P1), (forall2_len _ _ _ F); exact H2|].
  split; [eapply Permutation_Forall; [apply Permutation_sym; exact P2|exact H3]|].
  now rewrite (Permutation_length P2).
Qed.

(* C20 (a), assembled: after ANY sequence of byte-string commands, a snapshot written in any
   map iteration order and restored into a fresh state machine reproduces the state, and the
   two replicas then stay equal under the same further commands *)
Lemma snapshot_converges oc inputs l more :
  Forall input_ok inputs -> 2 * N.of_nat (length inputs) + 2 < two64 ->
  let s := mexec oc m_init inputs in
  m_poisoned s = false -> cluster_listing l (m_cl s) ->
  restore m_init (enc_cluster l) = (s, true) /\
  mrun oc (fst (restore m_init (enc_cluster l))) more = mrun oc s more.
Proof.
  intros Hi Hn s Hp Hl. destruct (reach_wf oc inputs Hi Hn) as [Hw Hs]. fold s in Hw, Hs.
  pose proof (cluster_wf_listing l (m_cl s) Hl Hw) as Hwl.
  split; [now apply snapshot_restore_any_order|]. now apply then_equal.
Qed.

(* ---------- the Raft adapter ---------- *)
Lemma restore_empty_smap app : restore app (enc_smap []) = (app, false).
Proof. unfold restore. replace (dec_cluster (enc_smap [])) with (@None (cluster * list N)) by (vm_compute; reflexivity). reflexivity. Qed.

Lemma dec_smap_empty : dec_smap (enc_smap []) = Some ([], []).
Proof. vm_compute. reflexivity. Qed.

(* adapters reachable by the adapter's own operations, snapshots coming from such adapters *)
Inductive areach : adapter -> Prop :=
| ar_init : areach a_init
| ar_apply oc a entries : areach a -> areach (fst (a_apply oc a entries))
| ar_build a : areach a -> areach (fst (build_snapshot a))
| ar_install a b : areach a -> areach b -> areach (fst (install_snapshot a (snd (build_snapshot b)))).

Lemma a_apply_data oc entries : forall a, a_data (fst (a_apply oc a entries)) = a_data a.
Proof.
  induction entries as [|[idx p] r IH]; intros a; cbn [a_apply]; [reflexivity|].
  destruct p as [|bs|m].
  - rewrite IH. reflexivity.
  - cbn [a_app]. destruct (apply oc (a_app a) bs) as [app' [b| |ps]]; cbn [a_last a_memb a_data a_cur fst]; try reflexivity.
    rewrite IH. reflexivity.
  - rewrite IH. reflexivity.
Qed.

Lemma install_empty a b : a_data b = [] ->
  install_snapshot a (snd (build_snapshot b)) = (mkA (a_app a) (a_last b) (a_memb b) [] (a_cur a), false).
Proof.
  intros Hb. unfold build_snapshot, install_snapshot. cbn [snd]. rewrite Hb, dec_smap_empty, restore_empty_smap.
  reflexivity.
Qed.

Lemma areach_data a : areach a -> a_data a = [].
Proof.
  induction 1 as [|oc a entries Ha IH|a Ha IH|a b Ha IHa Hb IHb].
  - reflexivity.
  - now rewrite a_apply_data.
  - exact IH.
  - rewrite (install_empty a b IHb). reflexivity.
Qed.

(* what a snapshot built by the adapter contains: the encoding of an empty map, never the
   application state *)
Lemma adapter_snapshot_const b : areach b -> snd (snd (build_snapshot b)) = [0; 0; 0; 0; 0; 0; 0; 0].
Proof. intros H. unfold build_snapshot. cbn [snd]. now rewrite (areach_data b H). Qed.

(* installing it: reports an error, leaves the receiver's application state untouched, but has
   already overwritten the receiver's last-applied / membership bookkeeping with the sender's *)
Lemma adapter_install a b : areach a -> areach b ->
  install_snapshot a (snd (build_snapshot b)) = (mkA (a_app a) (a_last b) (a_memb b) [] (a_cur a), false).
Proof. intros _ Hb. apply install_empty. now apply areach_data. Qed.

Lemma adapter_never_transfers a b : areach a -> areach b ->
  let r := install_snapshot a (snd (build_snapshot b)) in
  snd r = false /\ a_visible (fst r) = a_visible a /\ a_last (fst r) = a_last b.
Proof. intros Ha Hb. cbn zeta. rewrite (adapter_install a b Ha Hb). cbn. auto. Qed.

(* outside the known class (the receiver already has the sender's application state) the
   receiver is equal to the sender afterwards — and only then *)
Lemma adapter_outside_known a b : areach a -> areach b ->
  (a_visible (fst (install_snapshot a (snd (build_snapshot b)))) = a_visible b <-> a_visible a = a_visible b).
Proof. intros Ha Hb. destruct (adapter_never_transfers a b Ha Hb) as (_ & E & _). cbn zeta in E. now rewrite E. Qed.

Definition c20_sender_entries : list (N * payload) :=
  [(1, Normal (enc_cmd (CreateTopic [116] 1))); (2, Normal (enc_cmd (RolloverTopic [116] 2 5)))].

Lemma refuted_adapter :
  exists entries,
    let sender := fst (a_apply false a_init entries) in
    let snap := snd (build_snapshot sender) in
    let r := install_snapshot a_init snap in
    snd snap = [0; 0; 0; 0; 0; 0; 0; 0] /\
    snd r = false /\
    a_visible (fst r) = empty_cluster /\
    a_visible sender <> a_visible (fst r) /\
    a_last (fst r) = a_last sender /\ a_last sender = Some 2.
Proof.
  exists c20_sender_entries. vm_compute. repeat split; try reflexivity. discriminate.
Qed.

(* the property as stated, for the adapter path *)
Definition C20_adapter_full : Prop :=
  forall a b, areach a -> areach b ->
    a_visible (fst (install_snapshot a (snd (build_snapshot b)))) = a_visible b.

Lemma adapter_full_refuted : ~ C20_adapter_full.
Proof.
  intros H.
  specialize (H a_init (fst (a_apply false a_init c20_sender_entries)) ar_init (ar_apply false a_init c20_sender_entries ar_init)).
  vm_compute in H. discriminate.
Qed.
