(* EngineRaw.v — facts about raw (possibly un-hydrated) states that need no invariant: the
   write side touches one topic only; the disk/block invariants do not look at readers;
   "the persisted position is the cursor" gives the position invariant. *)
From W Require Import model.Base model.Engine spec.Queue proofs.EngineBasic proofs.EngineWF proofs.EngineInv proofs.EngineBR proofs.EngineW
  proofs.EngineMain proofs.EngineRec proofs.EngineDisk proofs.EnginePos proofs.EngineGrow proofs.EngineP3 proofs.EngineBlk
  proofs.EngineNorm proofs.EngineNormW.
From Coq Require Import ZArith ZifyBool ZifyN ZifyNat.

(* ------------------------------------------------------------------ the write side touches one topic *)
Lemma get_ts_alloc_sized c s want s1 b t : alloc_sized c s want = Some (s1, b) -> get_ts s1 t = get_ts s t.
Proof. intros H. destruct (alloc_sized_facts _ _ _ _ _ H) as (_ & _ & Ht). unfold get_ts. now rewrite Ht. Qed.

Lemma ensure_writer_others c s t t' : t' <> t_id t -> get_ts (fst (ensure_writer c s t)) t' = get_ts s t'.
Proof.
  intros Hne. unfold ensure_writer. destruct (ts_writer (get_ts s (t_id t))); [reflexivity|].
  unfold alloc_first. destruct (c_file c <=? a_off (s_alloc s)); cbn [fst]; rewrite get_set_other by exact Hne; reflexivity.
Qed.

Lemma append_others c s t e t' : t' <> t_id t -> get_ts (fst (append c s t e)) t' = get_ts s t'.
Proof.
  intros Hne. unfold append. pose proof (ensure_writer_others c s t t' Hne) as He.
  destruct (ensure_writer c s t) as [s1 w]. cbn [fst] in He.
  destruct (appendable c t (e_len e)); [exact He|].
  destruct (ts_poisoned (get_ts s1 (t_id t))); [exact He|].
  destruct (b_limit w <? b_used w + need c e).
  - destruct (alloc_sized c _ (need c e)) as [[s1'' nb]|] eqn:Ea.
    + pose proof (get_ts_alloc_sized _ _ _ _ _ t' Ea) as Hg. rewrite get_set_other in Hg by exact Hne.
      destruct (negb (name_ok c t)); cbn [fst].
      * rewrite get_set_other by exact Hne. now rewrite Hg.
      * rewrite get_set_other by exact Hne. rewrite get_ts_disk_write, get_set_other by exact Hne. now rewrite Hg.
    + cbn [fst]. rewrite get_set_other by exact Hne. exact He.
  - destruct (negb (name_ok c t)); cbn [fst]; [exact He|].
    rewrite get_set_other by exact Hne. now rewrite get_ts_disk_write.
Qed.

Lemma batch_plan_others c t t' (Hne : t' <> t_id t) : forall es s cur rot,
  get_ts (fst (fst (fst (batch_plan c s t cur rot es)))) t' = get_ts s t'.
Proof.
  induction es as [|e r IH]; intros s cur rot; cbn [batch_plan]; [reflexivity|].
  destruct (need c e <=? b_limit cur - b_used cur).
  - rewrite IH. apply get_ts_disk_write.
  - destruct (alloc_sized c _ _) as [[s'' nb]|] eqn:Ea.
    + rewrite IH, get_ts_disk_write, (get_ts_alloc_sized _ _ _ _ _ t' Ea). now rewrite get_set_other by exact Hne.
    + cbn [fst]. now rewrite get_set_other by exact Hne.
Qed.

Lemma mark_unmodelled_others s t t' : t' <> t -> get_ts (mark_unmodelled s t) t' = get_ts s t'.
Proof. intros Hne. unfold mark_unmodelled. now rewrite get_set_other by exact Hne. Qed.

Lemma batch_others c be s t es t' : t' <> t_id t -> get_ts (fst (batch c be s t es)) t' = get_ts s t'.
Proof.
  intros Hne. unfold batch. pose proof (ensure_writer_others c s t t' Hne) as He.
  destruct (ensure_writer c s t) as [s1 w]. cbn [fst] in He.
  destruct (c_max_entries c <? N.of_nat (length es)); [exact He|].
  destruct (c_max_bytes c <? sum_need c es); [exact He|].
  destruct (appendable c t (max_len es)); [exact He|].
  destruct es as [|e0 es0]; [exact He|].
  destruct (ts_poisoned (get_ts s1 (t_id t))); [exact He|].
  pose proof (batch_plan_others c t t' Hne (e0 :: es0) s1 w false) as Hp.
  destruct (batch_plan c s1 t w false (e0 :: es0)) as [[[s2 wfin] okp] rot]. cbn [fst] in Hp.
  destruct (negb okp); [cbn [fst]; rewrite mark_unmodelled_others by exact Hne; now rewrite Hp|].
  destruct (negb (name_ok c t)).
  - destruct be; destruct rot; cbn [fst]; rewrite ?get_set_other by exact Hne; rewrite ?mark_unmodelled_others by exact Hne; congruence.
  - cbn [fst]. rewrite get_set_other by exact Hne. now rewrite Hp.
Qed.

(* ------------------------------------------------------------------ disk and block invariants ignore readers *)
Lemma DIs_Nst x c s : DIs c (Nst x s) <-> DIs c s.
Proof.
  unfold DIs. cbn [Nst s_disk s_alloc s_files]. split; intros H; (eapply DI_ext; [| |exact H]); intros t; unfold wrs, sms;
    rewrite get_Nst; rewrite ?nrm_writer, ?nrm_stream; reflexivity.
Qed.

Lemma mblocks_nrm x ts : mblocks (nrm x ts) = mblocks ts.
Proof. unfold mblocks. now rewrite nrm_chain, nrm_w_list. Qed.

Lemma BIs_Nst x c s : BIs c (Nst x s) <-> BIs c s.
Proof.
  unfold BIs. cbn [Nst s_disk]. split; intros H t; specialize (H t); rewrite get_Nst, mblocks_nrm in *; exact H.
Qed.

(* ------------------------------------------------------------------ a position that is the cursor is a good position *)
Lemma chain_ents_wne ts : chain_ents (filter nonempty_b (w_list ts)) = w_ents ts.
Proof.
  rewrite chain_ents_filter. unfold w_list, w_ents. destruct (ts_writer ts); cbn; [now rewrite app_nil_r|reflexivity].
Qed.

Lemma posis_PGood c nid T p : 0 < c_hdr c -> TInv c nid T -> CNE T -> PosIs T p -> PGood c T p.
Proof.
  intros Hh Hinv Hcne Hpos.
  pose proof Hinv as [Hp Hu Hch Hw Hnd Hids Htl Hidxr Hend Hcur Hst Htail Hhyd Hcnt].
  unfold PosIs in Hpos. destruct (p_tail p) eqn:Etail.
  - destruct Hpos as (w & Hw' & Ha & Hri & Hoff & Ew).
    pose proof (Htail w Hw') as Hokw.
    assert (Hun : unread c T = ents_from c (b_ents w) (tail_start T w)).
    { unfold unread. fold (chain_of T). rewrite Hri. unfold chain_of. rewrite skipn_all, Hw'. reflexivity. }
    exists (length (chain_of T)), w.
    assert (Hm : memne T = chain_of T ++ [w]).
    { rewrite (memne_cne T Hcne). unfold w_list. rewrite Hw'. cbn [filter].
      apply nonempty_b_true in Ew. now rewrite Ew. }
    split; [rewrite Hm; rewrite nth_error_app2 by lia; now rewrite Nat.sub_diag|].
    rewrite Etail. split; [congruence|]. split; [rewrite Hoff; exact Hokw|].
    rewrite Hun, Hm. unfold from. rewrite skipn_app, skipn_all, Nat.sub_diag. cbn [app skipn chain_ents flat_map].
    rewrite app_nil_r, Hoff. reflexivity.
  - destruct Hpos as (Ha & Hlt & Hoff).
    destruct (nth_error (chain_of T) (r_idx (reader_of T))) as [b|] eqn:Eb; [|apply nth_error_None in Eb; lia].
    exists (r_idx (reader_of T)), b.
    rewrite (memne_cne T Hcne).
    split; [rewrite nth_error_app1 by exact Hlt; exact Eb|].
    rewrite Etail. split; [split; [exact Ha|exact Hlt]|]. split; [rewrite Hoff; now apply Hcur|].
    destruct (skipn_nth_error _ _ _ Eb) as (rest & Hsk).
    assert (Hun : unread c T = ents_from c (b_ents b) (r_off (reader_of T)) ++ chain_ents rest ++ w_ents T).
    { unfold unread. unfold chain_of in Hsk. rewrite Hsk. reflexivity. }
    rewrite Hun. unfold from. rewrite skipn_app, Hsk.
    replace (r_idx (reader_of T) - length (chain_of T))%nat with 0%nat by lia.
    cbn [skipn app]. rewrite chain_ents_app, chain_ents_wne, Hoff. reflexivity.
Qed.

Lemma posis_P3 c nid T p : 0 < c_hdr c -> TInv c nid T -> CNE T -> ts_index T = Some p -> PosIs T p -> P3 c nid T.
Proof.
  intros Hh Hinv Hcne Hidx Hpos. split; [exact Hcne|]. rewrite Hidx. left. eapply posis_PGood; eauto.
Qed.

(* the invariant only looks at these components of the topic state *)
Lemma P3_ext c nid T T' : chain_of T' = chain_of T -> ts_writer T' = ts_writer T -> ts_index T' = ts_index T ->
  unread c T' = unread c T -> P3 c nid T -> P3 c nid T'.
Proof.
  intros Hc Hw Hi Hu (Hcne & H).
  assert (Hwl : w_list T' = w_list T) by (unfold w_list; now rewrite Hw).
  assert (Hm : memne T' = memne T) by (unfold memne; now rewrite Hc, Hwl).
  assert (Hs : stream T' = stream T) by (unfold stream, w_ents; now rewrite Hc, Hw).
  split; [unfold CNE; now rewrite Hc|]. rewrite Hi. destruct (ts_index T) as [p|]; [|now rewrite Hu, Hs].
  destruct H as [(j & b & A1 & A2 & A3 & A4)|[(A1 & w & A2 & A3)|(A1 & A2 & A3)]].
  - left. unfold PGood. exists j, b. rewrite Hm, Hc, Hu. auto.
  - right. left. unfold PProv. split; [exact A1|]. exists w. rewrite Hw, Hu. auto.
  - right. right. unfold PDead. rewrite Hc, Hwl. auto.
Qed.
