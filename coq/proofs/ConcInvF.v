(* ConcInvF.v — invariant of the concurrent model for the code WITH the fix (fx = true), programs
   of single appends and consuming read_next calls, ANY number of consumers per topic, no
   hypothesis on the schedule.
   Differences to proofs/ConcInv.v:
   * a writer snapshot [a] held by a read_next (pcs PR_t_wsnap / PR_t_init) is described by a
     history fact J that survives block rotations: either [a] is still a prefix of the writer
     block, or it is empty, or its id is at most the last id in the chain (it was sealed) — the
     last two are exactly what the fix's checks at the commit detect;
   * deliveries are recorded in a ghost log per topic (thread, out) in commit order: the log's
     outs ++ unread = stream, and each thread's part of the log is what that thread returned. *)
From W Require Import model.Base model.Engine model.Conc spec.ConcSpec proofs.EngineWF proofs.EngineInv proofs.EngineW proofs.EngineBR
  proofs.EngineMain proofs.ConcInv proofs.ConcStep.
From Coq Require Import ZArith ZifyBool ZifyN ZifyNat.

(* ------------------------------------------------------------------ what a writer snapshot still guarantees *)
Definition J (c : Cfg) (nid : N) (md : bool) (ts : tstate) (a : blk) : Prop :=
  b_used a = sum_need c (b_ents a) /\ b_id a < nid /\
  (forall w, ts_writer ts = Some w -> b_id a <= b_id w) /\
  ((md = false /\ snap_ok c ts a) \/ b_used a = 0 \/ sealed_since (r_chain (reader_of ts)) a = true).

Lemma J_same c nid nid' md ts ts' a :
  r_chain (reader_of ts') = r_chain (reader_of ts) -> ts_writer ts' = ts_writer ts -> nid <= nid' ->
  J c nid md ts a -> J c nid' md ts' a.
Proof.
  intros Hc Hw Hn (A & B & C0 & D). split; [exact A|]. split; [lia|]. split; [now rewrite Hw|].
  rewrite Hc. destruct D as [(D1 & (w & suf & S1 & S2 & S3 & S4))|[D|D]]; auto.
  left. split; [exact D1|]. exists w, suf. rewrite Hw. auto.
Qed.

Lemma J_write c nid md ts w e a : ts_writer ts = Some w ->
  J c nid md ts a -> J c nid md (with_writer ts (Some (blk_add w c [e]))) a.
Proof.
  intros Hw (A & B & C0 & D). split; [exact A|]. split; [exact B|]. split.
  - intros w' Hw'. cbn in Hw'. inversion Hw'; subst w'. cbn [blk_add b_id]. now apply C0.
  - change (reader_of (with_writer ts (Some (blk_add w c [e])))) with (reader_of ts).
    destruct D as [(D1 & (w0 & suf & S1 & S2 & S3 & S4))|[D|D]]; auto.
    left. split; [exact D1|]. rewrite Hw in S1. inversion S1; subst w0.
    exists (blk_add w c [e]), (suf ++ [e]). cbn [with_writer ts_writer blk_add b_id b_ents]. repeat split; auto. now rewrite S3, app_assoc.
Qed.

Lemma J_new_writer c nid md md' ts nb a : b_id nb = nid ->
  (md = false -> ts_writer ts = None) ->
  J c nid md ts a -> J c (nid + 1) md' (with_writer ts (Some nb)) a.
Proof.
  intros Hid Hnone (A & B & C0 & D). split; [exact A|]. split; [lia|]. split.
  - intros w' Hw'. cbn in Hw'. inversion Hw'; subst w'. lia.
  - change (reader_of (with_writer ts (Some nb))) with (reader_of ts).
    destruct D as [(D1 & (w0 & suf & S1 & _))|[D|D]]; auto. rewrite (Hnone D1) in S1. discriminate.
Qed.

Lemma last_id_snoc ch b : last_id (ch ++ [b]) = Some (b_id b).
Proof. induction ch as [|x ch IH]; [reflexivity|]. cbn [app last_id]. destruct (ch ++ [b]) eqn:E; [destruct ch; discriminate|]. exact IH. Qed.

Lemma chain_push_chain r b : r_chain (chain_push r b) = if b_used b =? 0 then r_chain r else r_chain r ++ [b].
Proof. unfold chain_push. destruct (b_used b =? 0); [reflexivity|]. destruct (r_tail_bid r =? b_id b); reflexivity. Qed.

Lemma J_seal c nid md ts w a : ts_writer ts = Some w -> b_used w = sum_need c (b_ents w) ->
  J c nid md ts a -> J c nid true (seal ts w) a.
Proof.
  intros Hw Hwu (A & B & C0 & D). split; [exact A|]. split; [exact B|]. split; [exact C0|].
  unfold seal. cbn [reader_of ts_reader]. rewrite chain_push_chain.
  assert (Hle : b_id a <= b_id w) by (now apply C0).
  destruct (b_used w =? 0) eqn:Ez.
  - destruct D as [(D1 & (w0 & suf & S1 & S2 & S3 & S4))|[D|D]]; auto.
    rewrite Hw in S1. inversion S1; subst w0. right. left. rewrite S3, sum_need_app in Hwu. lia.
  - right. right. unfold sealed_since. rewrite last_id_snoc. lia.
Qed.

(* ------------------------------------------------------------------ calls covered: appends, consuming reads and peeks *)
Definition simple_callP (cl : call) : bool :=
  match cl with CAppend _ _ | CRead _ _ => true | _ => false end.

Definition rthreadP (t : topic) (ck : bool) (rest : list call) (p : pc) (d : list result) : thread :=
  {| th_todo := CRead t ck :: rest; th_pc := p; th_done := d |}.

Definition th_okP (c : Cfg) (cs : cstate) (th : thread) : Prop :=
  match th_todo th with
  | [] => th_pc th = PStart
  | CAppend t e :: _ =>
    match th_pc th with
    | PStart | PA_written => True
    | PA_flag | PA_seal_post => appendable c t (e_len e) = None
    | PA_seal_pre w => appendable c t (e_len e) = None /\ ts_writer (rawts cs (t_id t)) = Some w
    | _ => False
    end
  | CRead t ck :: _ =>
    match th_pc th with
    | PStart => True
    | PR_top | PR_t_snap _ _ | PR_t_wsnap _ _ _ | PR_t_init _ _ => hyd (rawts cs (t_id t))
    | PR_commit _ r _ | PR_idx r => ck = true /\ hyd (rawts cs (t_id t)) /\ exists o, r = REntry o
    | _ => False
    end
  | _ => False
  end.

Lemma th_okP_frame c cs cs' th :
  th_okP c cs th ->
  (forall t, head_topic th = Some t -> hyd (rawts cs t) -> hyd (rawts cs' t)) ->
  (forall t w, head_topic th = Some t -> th_holds t th = true -> ts_writer (rawts cs t) = Some w -> ts_writer (rawts cs' t) = Some w) ->
  th_okP c cs' th.
Proof.
  unfold th_okP, head_topic, th_holds. intros H Hh Hw.
  destruct (th_todo th) as [|[t e|t es|t ck|t mb ck] rest]; auto.
  - destruct (th_pc th); auto. destruct H as (A & B). split; [exact A|].
    apply (Hw (t_id t) sealed eq_refl); [apply N.eqb_refl|exact B].
  - destruct (th_pc th); auto; try (apply (Hh (t_id t) eq_refl H));
      (destruct H as (B0 & B1 & B2); split; [exact B0|]; split; [apply (Hh (t_id t) eq_refl B1)|exact B2]).
Qed.

Lemma th_okP_start c cs th : th_pc th = PStart -> Forall (fun cl => simple_callP cl = true) (th_todo th) -> th_okP c cs th.
Proof.
  intros Hp Hs. unfold th_okP. rewrite Hp. destruct (th_todo th) as [|cl rest]; [reflexivity|].
  inversion Hs; subst. destruct cl as [t e|t es|t ck|t mb ck]; cbn in H1; try discriminate; auto.
Qed.

Lemma others_th_okP c cs sh' tid th th' t0 :
  nth_error (cs_threads cs) tid = Some th -> head_topic th = Some t0 ->
  (forall t, t <> t0 -> get_ts (sh_st sh') t = get_ts (sh_st (cs_sh cs)) t) ->
  (hyd (rawts cs t0) -> hyd (get_ts (sh_st sh') t0)) ->
  (forall j thj w, j <> tid -> nth_error (cs_threads cs) j = Some thj -> th_holds t0 thj = true ->
     ts_writer (rawts cs t0) = Some w -> ts_writer (get_ts (sh_st sh') t0) = Some w) ->
  forall j thj, j <> tid -> nth_error (cs_threads cs) j = Some thj -> th_okP c cs thj -> th_okP c (upd cs sh' tid th') thj.
Proof.
  intros Hth Hhead Hoth Hhyd Hwr j thj Hne Hj Hok. apply (th_okP_frame c cs _ thj Hok).
  - intros t _ Hh. rewrite rawts_upd. destruct (N.eq_dec t t0) as [->|Hn]; [auto|]. unfold hyd in *. now rewrite (Hoth t Hn).
  - intros t w _ Hhold Hw. rewrite rawts_upd. destruct (N.eq_dec t t0) as [->|Hn]; [eapply Hwr; eauto|]. now rewrite (Hoth t Hn).
Qed.

Lemma th_readP_hyd c cs th t ck rest : th_okP c cs th -> th_todo th = CRead t ck :: rest -> th_pc th <> PStart -> hyd (rawts cs (t_id t)).
Proof.
  unfold th_okP. intros H Ht Hp. rewrite Ht in H. destruct (th_pc th); try contradiction; try tauto.
Qed.

(* ------------------------------------------------------------------ windows, ghost log, invariant *)
Definition winF (c : Cfg) (cs : cstate) (th : thread) : Prop :=
  match th_todo th with
  | CRead t true :: _ =>
    match th_pc th with
    | PR_t_wsnap _ _ a | PR_t_init a _ => J c (nid_of cs) (mid cs (t_id t)) (rawts cs (t_id t)) a
    | _ => True
    end
  | _ => True
  end.

Definition glog := N -> list (nat * out).
Definition log_of (i : nat) (l : list (nat * out)) : list out := map snd (filter (fun x => Nat.eqb (fst x) i) l).

Record INVF (c : Cfg) (progs : list (list call)) (cs : cstate) (L : glog) : Prop := {
  fv_next : 0 < nid_of cs;
  fv_ts : forall t, TInvP c (nid_of cs) (eff cs t);
  fv_bf : sh_bf (cs_sh cs) = [];
  fv_lock : lock_ok cs;
  fv_len : length (cs_threads cs) = length progs;
  fv_th : forall i th, nth_error (cs_threads cs) i = Some th ->
            th_okP c cs th /\ Forall (fun cl => simple_callP cl = true) (th_todo th) /\ hist_ok (nth i progs []) th;
  fv_win : forall i th, nth_error (cs_threads cs) i = Some th -> winF c cs th;
  fv_log : forall t, map snd (L t) ++ map out_of (unread c (eff cs t)) = map out_of (stream (eff cs t));
  fv_mine : forall t i th, nth_error (cs_threads cs) i = Some th -> log_of i (L t) = del_seq t (nth i progs []) th;
  fv_own : forall t i th, nth_error (cs_threads cs) i = Some th ->
             filter (own (nth i progs [])) (stream (eff cs t)) = wr_seq t (nth i progs []) th;
  fv_owned : forall t e, In e (stream (eff cs t)) -> exists i, (i < length progs)%nat /\ own (nth i progs []) e = true
}.

Lemma winF_frame c cs cs' th :
  winF c cs th ->
  (forall t a, head_topic th = Some t -> J c (nid_of cs) (mid cs t) (rawts cs t) a -> J c (nid_of cs') (mid cs' t) (rawts cs' t) a) ->
  winF c cs' th.
Proof.
  unfold winF, head_topic. intros H HJ.
  destruct (th_todo th) as [|[t e|t es|t ck|t mb ck] rest]; auto. destruct ck; auto.
  destruct (th_pc th); auto; apply (HJ (t_id t) _ eq_refl H).
Qed.

Lemma winF_start c cs th : th_pc th = PStart -> winF c cs th.
Proof. intros Hp. unfold winF. rewrite Hp. destruct (th_todo th) as [|[| |t [|]|] ?]; auto. Qed.

(* the other threads' snapshots across a step of thread tid on topic t0 *)
Lemma others_winF c cs sh' tid th th' t0 :
  nth_error (cs_threads cs) tid = Some th -> head_topic th = Some t0 ->
  (forall t, t <> t0 -> get_ts (sh_st sh') t = get_ts (sh_st (cs_sh cs)) t) ->
  (forall t, t <> t0 -> th_mid t th' = false) ->
  nid_of cs <= nid_of (upd cs sh' tid th') ->
  (forall a, J c (nid_of cs) (mid cs t0) (rawts cs t0) a ->
             J c (nid_of (upd cs sh' tid th')) (mid (upd cs sh' tid th') t0) (get_ts (sh_st sh') t0) a) ->
  forall j thj, j <> tid -> nth_error (cs_threads cs) j = Some thj -> winF c cs thj -> winF c (upd cs sh' tid th') thj.
Proof.
  intros Hth Hhead Hoth Hm Hnid HJ j thj Hne Hj Hok. apply (winF_frame c cs _ thj Hok).
  intros t a _ Ha. rewrite rawts_upd. destruct (N.eq_dec t t0) as [->|Hn]; [now apply HJ|].
  rewrite (Hoth t Hn), (mid_upd_other cs sh' tid th th' t0 t Hth Hhead Hm Hn).
  apply (J_same c (nid_of cs) _ _ (rawts cs t) (rawts cs t) a eq_refl eq_refl Hnid Ha).
Qed.

(* ------------------------------------------------------------------ one step, generically *)
Definition log_add (L : glog) (t0 : N) (tid : nat) (dd : list entry) : glog :=
  fun t => if t =? t0 then L t0 ++ map (fun e => (tid, out_of e)) dd else L t.

Lemma log_of_app i a b : log_of i (a ++ b) = log_of i a ++ log_of i b.
Proof. unfold log_of. now rewrite filter_app, map_app. Qed.
Lemma log_of_mine tid dd : log_of tid (map (fun e => (tid, out_of e)) dd) = map out_of dd.
Proof. unfold log_of. induction dd as [|e dd IH]; cbn; [reflexivity|]. rewrite Nat.eqb_refl. cbn. now rewrite IH. Qed.
Lemma log_of_other i tid dd : i <> tid -> log_of i (map (fun e => (tid, out_of e)) dd) = [].
Proof. intros H. unfold log_of. induction dd as [|e dd IH]; cbn; [reflexivity|]. replace (Nat.eqb tid i) with false by (symmetry; apply Nat.eqb_neq; congruence). exact IH. Qed.

Lemma INVF_step c progs cs L sh' tid th th' t0 da dd :
  INVF c progs cs L ->
  nth_error (cs_threads cs) tid = Some th ->
  head_topic th = Some t0 ->
  let cs' := upd cs sh' tid th' in
  sh_bf sh' = [] ->
  nid_of cs <= nid_of cs' ->
  (forall t, t <> t0 -> get_ts (sh_st sh') t = get_ts (sh_st (cs_sh cs)) t) ->
  (forall t, t <> t0 -> th_mid t th' = false) ->
  lock_ok cs' ->
  TInvP c (nid_of cs') (eff cs' t0) ->
  effect_ok c (eff cs t0) (eff cs' t0) da dd ->
  (th_okP c cs' th' /\ Forall (fun cl => simple_callP cl = true) (th_todo th') /\ hist_ok (nth tid progs []) th') ->
  (forall j thj, j <> tid -> nth_error (cs_threads cs) j = Some thj -> th_okP c cs' thj) ->
  winF c cs' th' ->
  (forall j thj, j <> tid -> nth_error (cs_threads cs) j = Some thj -> winF c cs' thj) ->
  del_seq t0 (nth tid progs []) th' = del_seq t0 (nth tid progs []) th ++ map out_of dd ->
  (forall i thi tho, nth_error (cs_threads cs') i = Some thi -> nth_error (cs_threads cs) i = Some tho ->
     wr_seq t0 (nth i progs []) thi = wr_seq t0 (nth i progs []) tho ++ filter (own (nth i progs [])) da) ->
  (forall e, In e da -> exists i, (i < length progs)%nat /\ own (nth i progs []) e = true) ->
  (forall t, t <> t0 -> del_seq t (nth tid progs []) th' = del_seq t (nth tid progs []) th /\
                        wr_seq t (nth tid progs []) th' = wr_seq t (nth tid progs []) th) ->
  INVF c progs cs' (log_add L t0 tid dd).
Proof.
  intros Hinv Hth Hhead cs' Hbf Hnid Hoth Hmid' Hlock Hts0 Heff Hth' Hothok Hwin' Hothwin Hdel Hown Howned Hother.
  pose proof Hinv as [Inext Its Ibf Ilock Ilen Ith Iwin Ilog Imine Iown Iowned].
  assert (Hmid_th : forall t, t <> t0 -> th_mid t th = false) by (intros t Hne; eapply head_topic_mid_false; eauto).
  assert (Heff_o : forall t, t <> t0 -> eff cs' t = eff cs t).
  { intros t Hne. unfold eff, rawts. unfold cs'.
    rewrite (mid_upd_same cs sh' tid th th' t Hth) by (rewrite Hmid' by exact Hne; now rewrite Hmid_th).
    cbn [upd cs_sh]. now rewrite (Hoth t Hne). }
  assert (Hnth' : forall i thi, nth_error (cs_threads cs') i = Some thi ->
            (i = tid /\ thi = th') \/ (i <> tid /\ nth_error (cs_threads cs) i = Some thi)).
  { intros i thi Hi. destruct (Nat.eq_dec i tid) as [->|Hne].
    - left. unfold cs' in Hi. rewrite (upd_nth_same _ _ _ _ _ Hth) in Hi. inversion Hi. auto.
    - right. split; [exact Hne|]. unfold cs' in Hi. now rewrite upd_nth_other in Hi by exact Hne. }
  assert (HL0 : log_add L t0 tid dd t0 = L t0 ++ map (fun e => (tid, out_of e)) dd) by (unfold log_add; now rewrite N.eqb_refl).
  assert (HLo : forall t, t <> t0 -> log_add L t0 tid dd t = L t) by (intros t Hne; unfold log_add; now replace (t =? t0) with false by lia).
  constructor.
  - lia.
  - intros t. destruct (N.eq_dec t t0) as [->|Hne]; [exact Hts0|]. rewrite (Heff_o t Hne). eapply TInvP_mono; [exact Hnid|apply Its].
  - exact Hbf.
  - exact Hlock.
  - unfold cs'. cbn. now rewrite length_set_nth.
  - intros i thi Hi. destruct (Hnth' i thi Hi) as [(-> & ->)|(Hne & Hio)]; [exact Hth'|].
    destruct (Ith i thi Hio) as (A & B & C0). split; [apply (Hothok i thi Hne Hio)|]. split; [exact B|exact C0].
  - intros i thi Hi. destruct (Hnth' i thi Hi) as [(-> & ->)|(Hne & Hio)]; [exact Hwin'|apply (Hothwin i thi Hne Hio)].
  - intros t. destruct (N.eq_dec t t0) as [->|Hne].
    + destruct Heff as (E1 & E2). rewrite HL0, map_app, map_map. cbn [snd]. rewrite E1, map_app, <- (Ilog t0).
      rewrite <- !app_assoc. f_equal. change (map (fun x : entry => out_of x) dd) with (map out_of dd). rewrite <- !map_app. now rewrite E2.
    + rewrite (HLo t Hne), (Heff_o t Hne). apply Ilog.
  - intros t i thi Hi. destruct (N.eq_dec t t0) as [->|Hne].
    + rewrite HL0, log_of_app. destruct (Hnth' i thi Hi) as [(-> & ->)|(Hne2 & Hio)].
      * rewrite log_of_mine, Hdel. f_equal. apply (Imine t0 tid th Hth).
      * rewrite (log_of_other i tid dd Hne2), app_nil_r. apply (Imine t0 i thi Hio).
    + rewrite (HLo t Hne). destruct (Hnth' i thi Hi) as [(-> & ->)|(Hne2 & Hio)].
      * destruct (Hother t Hne) as (A & _). rewrite A. apply (Imine t tid th Hth).
      * apply (Imine t i thi Hio).
  - intros t i thi Hi. destruct (N.eq_dec t t0) as [->|Hne].
    + destruct Heff as (E1 & E2).
      assert (Hio : exists tho, nth_error (cs_threads cs) i = Some tho).
      { destruct (Hnth' i thi Hi) as [(-> & _)|(_ & Hio)]; eauto. }
      destruct Hio as (tho & Hio).
      rewrite (Hown i thi tho Hi Hio), E1, filter_app, (Iown t0 i tho Hio). reflexivity.
    + rewrite (Heff_o t Hne). destruct (Hnth' i thi Hi) as [(-> & ->)|(Hne2 & Hio)].
      * destruct (Hother t Hne) as (_ & B). rewrite B. apply (Iown t tid th Hth).
      * apply (Iown t i thi Hio).
  - intros t e Hin. destruct (N.eq_dec t t0) as [->|Hne].
    + destruct Heff as (E1 & _). rewrite E1 in Hin. apply in_app_or in Hin. destruct Hin as [Hin|Hin]; [apply (Iowned t0 e Hin)|apply (Howned e Hin)].
    + rewrite (Heff_o t Hne) in Hin. apply (Iowned t e Hin).
Qed.

Lemma log_add_nil L t0 tid t : log_add L t0 tid [] t = L t.
Proof. unfold log_add. destruct (N.eqb_spec t t0) as [->|]; [cbn; now rewrite app_nil_r|reflexivity]. Qed.

(* the invariant depends on the log only through its values *)
Lemma INVF_ext c progs cs L L' : (forall t, L' t = L t) -> INVF c progs cs L -> INVF c progs cs L'.
Proof.
  intros HE [A B C0 D E F G H I0 J0 K]. constructor; auto.
  - intros t. rewrite HE. apply H.
  - intros t i th Hi. rewrite HE. now apply I0.
Qed.
