(* EngineBR.v — batch_read_for_topic (stateful): the plan covers a prefix of what is unread,
   parsing returns a prefix of the plan, the commit lands exactly behind it. *)
From W Require Import model.Base model.Engine proofs.EngineWF proofs.EngineInv.
From Coq Require Import ZArith ZifyBool ZifyN ZifyNat.

(* ------------------------------------------------------------------ parse_range *)
(* the state of the parser relative to the list [U] of entries it is walking through *)
Record PR (c : Cfg) (p0 p : pstate) (j : nat) (U : list entry) : Prop := {
  pr_outs : ps_outs p = rev (map out_of (firstn j U)) ++ ps_outs p0;
  pr_n : ps_n p = ps_n p0 + N.of_nat j;
  pr_parsed : ps_parsed p = ps_parsed p0 + N.of_nat j;
  pr_j : (j <= length U)%nat;
  pr_trim : ps_trim p = 0
}.

Lemma out_of_trim0 e : {| o_pid := e_pid e; o_skip := N.min 0 (e_len e); o_len := e_len e - N.min 0 (e_len e) |} = out_of e.
Proof. unfold out_of. f_equal; lia. Qed.

(* One range. [es] are the entries from in-block offset [pos] on, [R] what follows the block.
   Result: j entries taken; the recorded position is behind them; if the range was not
   emptied, the whole read is over (cap or budget) unless the range itself ends early. *)
Lemma parse_range_spec c (Hh : 0 < c_hdr c) maxb pi : forall es pos p R,
  ps_trim p = 0 ->
  exists j, let p' := parse_range c maxb pi es pos p in
    PR c p p' j (es ++ R) /\ (j <= length es)%nat /\
    (* position bookkeeping *)
    ((j = 0)%nat -> p' = p \/ (ps_stop p' = true /\ ps_outs p' = ps_outs p /\ ps_n p' = ps_n p /\ ps_parsed p' = ps_parsed p /\
                               ps_fin_idx p' = ps_fin_idx p /\ ps_fin_off p' = ps_fin_off p /\ ps_tail_id p' = ps_tail_id p /\
                               ps_tail_off p' = ps_tail_off p /\ ps_saw_tail p' = ps_saw_tail p /\ ps_trim p' = ps_trim p)) /\
    ((0 < j)%nat ->
       (if pi_tail pi then ps_saw_tail p' = true /\ ps_tail_id p' = b_id (pi_blk pi) /\ ps_tail_off p' = pos + sum_need c (firstn j es)
        else ps_saw_tail p' = ps_saw_tail p /\ ps_fin_idx p' = pi_idx pi /\ ps_fin_off p' = pos + sum_need c (firstn j es))) /\
    (* why it ended *)
    ((j < length es)%nat ->
       (c_max_entries c <= ps_n p') \/ ps_stop p' = true \/
       (exists e, nth_error es j = Some e /\ pi_end pi < pos + sum_need c (firstn j es) + need c e)) /\
    (* progress: the first entry of a fresh read is always taken when it lies inside the range *)
    (forall e r, es = e :: r -> ps_n p = 0 -> 1 <= c_max_entries c -> pos + need c e <= pi_end pi -> (1 <= j)%nat).
Proof.
  assert (PRrefl : forall p U, ps_trim p = 0 -> PR c p p 0 U).
  { intros p U Ht. constructor; cbn; auto; lia. }
  induction es as [|e r IH]; intros pos p R Ht; cbn [parse_range].
  - exists 0%nat. cbn zeta.
    split; [apply PRrefl; exact Ht|]. split; [cbn; lia|]. split; [intros _; left; reflexivity|].
    split; [intros; lia|]. split; [cbn; intros; lia|]. intros e0 r0 He; discriminate.
  - destruct (c_max_entries c <=? ps_n p) eqn:Ecap.
    { exists 0%nat. cbn zeta.
      split; [apply PRrefl; exact Ht|]. split; [cbn; lia|]. split; [intros _; left; reflexivity|].
      split; [intros; lia|]. split; [intros _; left; lia|].
      intros e0 r0 He Hn H1 _. lia. }
    destruct (pi_end pi <? pos + c_hdr c) eqn:Eh.
    { exists 0%nat. cbn zeta.
      split; [apply PRrefl; exact Ht|]. split; [cbn; lia|]. split; [intros _; left; reflexivity|].
      split; [intros; lia|].
      split; [intros _; right; right; exists e; split; [reflexivity|cbn; unfold need; lia]|].
      intros e0 r0 He Hn H1 Hfit. inversion He; subst. unfold need in Hfit. lia. }
    destruct (pi_end pi <? pos + need c e) eqn:En.
    { exists 0%nat. cbn zeta.
      split; [apply PRrefl; exact Ht|]. split; [cbn; lia|]. split; [intros _; left; reflexivity|].
      split; [intros; lia|].
      split; [intros _; right; right; exists e; split; [reflexivity|cbn; lia]|].
      intros e0 r0 He Hn H1 Hfit. inversion He; subst. lia. }
    destruct ((maxb <? N.min usize_max (ps_total p + e_len e)) && negb (ps_n p =? 0)) eqn:Eb.
    { exists 0%nat. cbn zeta.
      split; [constructor; cbn; auto; lia|]. split; [cbn; lia|].
      split; [intros _; right; cbn; repeat split; auto|].
      split; [intros; lia|].
      split; [intros _; right; left; reflexivity|].
      intros e0 r0 He Hn H1 Hfit. rewrite Hn in Eb. cbn in Eb. rewrite andb_false_r in Eb. discriminate. }
    (* the entry is taken *)
    match goal with |- context [parse_range c maxb pi r (pos + need c e) ?q] => set (p1 := q) end.
    assert (Ht1 : ps_trim p1 = 0) by reflexivity.
    destruct (IH (pos + need c e) p1 R Ht1) as (j & Hpr & Hjl & Hz & Hpos & Hend & _).
    exists (S j). cbn zeta in *.
    destruct Hpr as [Ho Hn Hp Hj Htr].
    assert (Hout : {| o_pid := e_pid e; o_skip := N.min (ps_trim p) (e_len e); o_len := e_len e - N.min (ps_trim p) (e_len e) |} = out_of e).
    { rewrite Ht. unfold out_of. f_equal; lia. }
    split; [|split; [|split; [|split; [|split]]]].
    + constructor.
      * rewrite Ho. unfold p1; cbn [ps_outs]. rewrite Hout. cbn [app firstn map rev]. now rewrite <- app_assoc.
      * rewrite Hn. unfold p1; cbn [ps_n]. lia.
      * rewrite Hp. unfold p1; cbn [ps_parsed]. lia.
      * cbn [length app] in *. lia.
      * exact Htr.
    + cbn [length]. lia.
    + intros; discriminate.
    + intros _. destruct j as [|j'].
      * destruct (Hz eq_refl) as [Heq | Hst].
        -- rewrite Heq. unfold p1; cbn. destruct (pi_tail pi); cbn; rewrite ?orb_true_r, ?orb_false_r; repeat split; auto; lia.
        -- destruct Hst as (_ & _ & _ & _ & G1 & G2 & G3 & G4 & G5 & _).
           unfold p1 in *; cbn in *. destruct (pi_tail pi); cbn in *; rewrite ?G1, ?G2, ?G3, ?G4, ?G5, ?orb_true_r, ?orb_false_r; repeat split; auto; lia.
      * specialize (Hpos ltac:(lia)).
        change (firstn (S (S j')) (e :: r)) with (e :: firstn (S j') r). cbn [sum_need].
        destruct (pi_tail pi); destruct Hpos as (Q1 & Q2 & Q3); rewrite ?Q1, ?Q2, ?Q3; unfold p1; cbn;
          rewrite ?orb_false_r; repeat split; auto; lia.
    + intros Hlt. cbn [length] in Hlt. specialize (Hend ltac:(lia)).
      destruct Hend as [Hc|[Hs|(e' & Hn' & Hlt')]]; [left; exact Hc|right; left; exact Hs|].
      right. right. exists e'. split; [exact Hn'|].
      change (firstn (S j) (e :: r)) with (e :: firstn j r). cbn [sum_need]. lia.
    + intros; lia.
Qed.

(* ------------------------------------------------------------------ plans *)
(* unread entries as a function of a cursor into the sealed chain; [W] = everything in the
   writer block, [WT] = what is unread when the cursor is past the chain *)
Definition UR (c : Cfg) (chain : list blk) (W WT : list entry) (i : nat) (off : N) : list entry :=
  match skipn i chain with
  | b :: r => ents_from c (b_ents b) off ++ chain_ents r ++ W
  | [] => WT
  end.

Definition item_ents (c : Cfg) (it : plan_item) : list entry := ents_from c (b_ents (pi_blk it)) (pi_start it).
Definition item_rest (chain : list blk) (W : list entry) (it : plan_item) : list entry :=
  if pi_tail it then [] else chain_ents (skipn (S (pi_idx it)) chain) ++ W.

Definition item_ok (c : Cfg) (chain : list blk) (w : option blk) (it : plan_item) : Prop :=
  okoff c (b_ents (pi_blk it)) (pi_start it) /\ pi_start it <= pi_end it /\ pi_end it <= b_used (pi_blk it) /\
  b_used (pi_blk it) = sum_need c (b_ents (pi_blk it)) /\
  (if pi_tail it then w = Some (pi_blk it) else nth_error chain (pi_idx it) = Some (pi_blk it)).

Definition full (it : plan_item) : Prop := pi_end it = b_used (pi_blk it).

Inductive Seg (c : Cfg) (chain : list blk) (W : list entry) (w : option blk)
  : list plan_item -> list entry -> option (list entry) -> Prop :=
| SegNil U : Seg c chain W w [] U (Some U)
| SegFull it rest U Uo : item_ok c chain w it -> full it -> (pi_tail it = true -> rest = []) ->
                         U = item_ents c it ++ item_rest chain W it ->
                         Seg c chain W w rest (item_rest chain W it) Uo -> Seg c chain W w (it :: rest) U Uo
| SegTrunc it U : item_ok c chain w it -> U = item_ents c it ++ item_rest chain W it ->
                  Seg c chain W w [it] U None.

Lemma Seg_app c chain W w : forall a U U1 b Uo,
  Forall (fun it => pi_tail it = false) a ->
  Seg c chain W w a U (Some U1) -> Seg c chain W w b U1 Uo -> Seg c chain W w (a ++ b) U Uo.
Proof.
  induction a as [|it a IH]; intros U U1 b Uo Hs Ha Hb.
  - inversion Ha; subst. exact Hb.
  - inversion Ha; subst. inversion Hs; subst. cbn. eapply SegFull; eauto. intros; congruence.
Qed.

(* where the parser says it stopped, and what is unread from there *)
Definition PosOk (c : Cfg) (chain : list blk) (W : list entry) (w : option blk) (p : pstate) (L : list entry) : Prop :=
  if ps_saw_tail p then
    exists wb, w = Some wb /\ ps_tail_id p = b_id wb /\ okoff c (b_ents wb) (ps_tail_off p) /\
               ents_from c (b_ents wb) (ps_tail_off p) = L
  else
    exists b, nth_error chain (ps_fin_idx p) = Some b /\ okoff c (b_ents b) (ps_fin_off p) /\
              ents_from c (b_ents b) (ps_fin_off p) ++ chain_ents (skipn (S (ps_fin_idx p)) chain) ++ W = L.

Definition same_pos (p p' : pstate) : Prop :=
  ps_fin_idx p' = ps_fin_idx p /\ ps_fin_off p' = ps_fin_off p /\ ps_tail_id p' = ps_tail_id p /\
  ps_tail_off p' = ps_tail_off p /\ ps_saw_tail p' = ps_saw_tail p.

Lemma PosOk_same c chain W w p p' L : same_pos p p' -> PosOk c chain W w p L -> PosOk c chain W w p' L.
Proof. intros (A & B & C & D & E). unfold PosOk. now rewrite A, B, C, D, E. Qed.

(* after j entries from a boundary *)
Lemma ents_from_firstn c (Hh : 0 < c_hdr c) es : forall j off l,
  okoff c es off -> ents_from c es off = l -> (j <= length l)%nat ->
  okoff c es (off + sum_need c (firstn j l)) /\ ents_from c es (off + sum_need c (firstn j l)) = skipn j l.
Proof.
  induction j as [|j IH]; intros off l Ho He Hj.
  - cbn. rewrite N.add_0_r. auto.
  - destruct l as [|e r]; [cbn in Hj; lia|].
    cbn [firstn sum_need skipn].
    pose proof (okoff_step c Hh _ _ _ _ Ho He) as Ho'.
    pose proof (ents_from_step c Hh _ _ _ _ He) as He'.
    cbn [length] in Hj.
    destruct (IH (off + need c e) r Ho' He' ltac:(lia)) as (A & B).
    rewrite N.add_assoc. auto.
Qed.

Lemma firstn_app_len {A} (a b : list A) j : firstn (length a + j) (a ++ b) = a ++ firstn j b.
Proof. induction a; cbn; [reflexivity|]. now f_equal. Qed.
Lemma skipn_app_len2 {A} (a b : list A) j : skipn (length a + j) (a ++ b) = skipn j b.
Proof. induction a; cbn; auto. Qed.
Lemma skipn_app_le {A} (a b : list A) j : (j <= length a)%nat -> skipn j (a ++ b) = skipn j a ++ b.
Proof. revert a; induction j as [|j IH]; intros a H; [reflexivity|]. destruct a; cbn in *; [lia|]. apply IH. lia. Qed.
Lemma firstn_app_le {A} (a b : list A) j : (j <= length a)%nat -> firstn j (a ++ b) = firstn j a.
Proof. revert a; induction j as [|j IH]; intros a H; [reflexivity|]. destruct a; cbn in *; [lia|]. f_equal. apply IH. lia. Qed.

Lemma PR_trans c p p1 p' es R j2 :
  PR c p p1 (length es) (es ++ R) -> PR c p1 p' j2 R -> PR c p p' (length es + j2) (es ++ R).
Proof.
  intros [A1 A2 A3 A4 A5] [B1 B2 B3 B4 B5]. constructor.
  - rewrite B1, A1. rewrite firstn_app_len. rewrite (firstn_app_le es R (length es)) by lia.
    rewrite firstn_all. rewrite map_app, rev_app_distr. now rewrite app_assoc.
  - rewrite B2, A2. lia.
  - rewrite B3, A3. lia.
  - rewrite app_length. lia.
  - exact B5.
Qed.

Lemma parse_plan_halt c maxb items p :
  (c_max_entries c <= ps_n p \/ ps_stop p = true) -> parse_plan c maxb items p = p.
Proof.
  intros H. destruct items as [|it r]; [reflexivity|]. cbn [parse_plan].
  destruct H as [H|H].
  - replace (c_max_entries c <=? ps_n p) with true by lia. reflexivity.
  - rewrite H. now rewrite orb_true_r.
Qed.

Definition first_covered (c : Cfg) (items : list plan_item) : Prop :=
  match items with
  | it :: _ => exists e r, item_ents c it = e :: r /\ pi_start it + need c e <= pi_end it
  | [] => False
  end.

Lemma parse_plan_spec c (Hh : 0 < c_hdr c) maxb chain W w : forall items U Uo,
  Seg c chain W w items U Uo -> forall p, ps_trim p = 0 -> ps_saw_tail p = false ->
  exists j, let p' := parse_plan c maxb items p in
    PR c p p' j U /\
    ((j = 0)%nat -> same_pos p p') /\
    ((0 < j)%nat -> PosOk c chain W w p' (skipn j U)) /\
    (first_covered c items -> ps_n p = 0 -> ps_stop p = false -> 1 <= c_max_entries c -> (1 <= j)%nat) /\
    ((0 < j)%nat -> Forall (fun it => pi_tail it = true) items -> ps_saw_tail p' = true).
Proof.
  assert (PRrefl : forall p U, ps_trim p = 0 -> PR c p p 0 U).
  { intros p U Ht. constructor; cbn; auto; lia. }
  assert (SPrefl : forall p, same_pos p p) by (intros; repeat split).
  (* one item, shared by the two non-trivial constructors *)
  assert (One : forall it U p, item_ok c chain w it -> U = item_ents c it ++ item_rest chain W it -> ps_trim p = 0 -> ps_saw_tail p = false ->
            exists j1, let p1 := parse_range c maxb it (item_ents c it) (pi_start it) p in
              PR c p p1 j1 U /\ (j1 <= length (item_ents c it))%nat /\
              ((j1 = 0)%nat -> same_pos p p1) /\
              ((0 < j1)%nat -> PosOk c chain W w p1 (skipn j1 U)) /\
              ((j1 < length (item_ents c it))%nat -> full it -> (c_max_entries c <= ps_n p1 \/ ps_stop p1 = true)) /\
              (first_covered c [it] -> ps_n p = 0 -> 1 <= c_max_entries c -> (1 <= j1)%nat) /\
              (pi_tail it = false -> ps_saw_tail p1 = false) /\
              (pi_tail it = true -> (0 < j1)%nat -> ps_saw_tail p1 = true)).
  { intros it U p (Hok & Hse & Heu & Hus & Hblk) HU Ht Hnt.
    destruct (parse_range_spec c Hh maxb it (item_ents c it) (pi_start it) p (item_rest chain W it) Ht)
      as (j1 & Hpr & Hjl & Hz & Hpos & Hend & Hprog).
    exists j1. cbn zeta in *. subst U.
    split; [exact Hpr|]. split; [exact Hjl|].
    split.
    { intros Hj0. destruct (Hz Hj0) as [Heq|Hst]; [rewrite Heq; apply SPrefl|].
      destruct Hst as (_ & _ & _ & _ & G1 & G2 & G3 & G4 & G5 & _). repeat split; assumption. }
    split.
    { intros Hjp. specialize (Hpos Hjp).
      destruct (ents_from_firstn c Hh (b_ents (pi_blk it)) j1 (pi_start it) (item_ents c it) Hok eq_refl Hjl) as (Ho' & He').
      rewrite skipn_app_le by exact Hjl.
      unfold PosOk. destruct (pi_tail it) eqn:Etail.
      - destruct Hpos as (Q1 & Q2 & Q3). rewrite Q1.
        exists (pi_blk it). rewrite Q2, Q3. unfold item_rest. rewrite Etail, app_nil_r. repeat split; auto.
      - destruct Hpos as (Q1 & Q2 & Q3).
        (* a sealed item never follows a tail item: saw_tail is still what it was; it must be false *)
        rewrite Q2, Q3. unfold item_rest. rewrite Etail.
        destruct (ps_saw_tail (parse_range c maxb it (item_ents c it) (pi_start it) p)) eqn:Est.
        + exfalso. congruence.
        + exists (pi_blk it). repeat split; auto. now rewrite He'. }
    split.
    { intros Hlt Hfull. destruct (Hend Hlt) as [H1|[H2|(e' & Hn' & Hlt')]]; [left; exact H1|right; exact H2|].
      exfalso. unfold full in Hfull.
      (* the entry after the first j1 lies inside the block *)
      assert (Hsum : pi_start it + sum_need c (item_ents c it) = sum_need c (b_ents (pi_blk it))) by exact Hok.
      assert (Hsplit : item_ents c it = firstn j1 (item_ents c it) ++ e' :: skipn (S j1) (item_ents c it)).
      { rewrite <- (firstn_skipn j1 (item_ents c it)) at 1. f_equal.
        clear - Hn'. revert Hn'. generalize (item_ents c it) as l. induction j1 as [|j IH]; intros l H; destruct l; cbn in *; try discriminate.
        - now inversion H.
        - now apply IH. }
      rewrite Hsplit in Hsum. rewrite sum_need_app in Hsum. cbn [sum_need] in Hsum. lia. }
    split.
    { intros (e & r & He & Hfit) Hn H1. eapply Hprog; eauto. }
    split.
    { intros Etail. destruct j1 as [|j1'].
      - destruct (Hz eq_refl) as [Heq|Hst]; [now rewrite Heq|]. destruct Hst as (_ & _ & _ & _ & _ & _ & _ & _ & G5 & _). congruence.
      - specialize (Hpos ltac:(lia)). rewrite Etail in Hpos. destruct Hpos as (Q1 & _). congruence. }
    { intros Etail Hjp. specialize (Hpos Hjp). rewrite Etail in Hpos. destruct Hpos as (Q1 & _). exact Q1. }
  }
  induction 1 as [U | it rest U Uo Hok Hfull Hlast HU Hseg IH | it U Hok HU]; intros p Ht Hnt.
  - exists 0%nat. cbn [parse_plan]. cbn zeta. split; [apply PRrefl; exact Ht|]. split; [intros; apply SPrefl|].
    split; [intros; lia|]. split; [intros []|intros; lia].
  - cbn [parse_plan].
    destruct ((c_max_entries c <=? ps_n p) || ps_stop p) eqn:Eh.
    { exists 0%nat. cbn zeta. split; [apply PRrefl; exact Ht|]. split; [intros; apply SPrefl|]. split; [intros; lia|].
      split; [|intros; lia].
      intros _ Hn Hs H1. rewrite Hs, Hn in Eh. cbn in Eh. rewrite orb_false_r in Eh. lia. }
    fold (item_ents c it).
    destruct (One it U p Hok HU Ht Hnt) as (j1 & Hpr1 & Hjl & Hz1 & Hp1 & Hend1 & Hprog1 & Hst1 & Hst2). cbn zeta in *.
    set (p1 := parse_range c maxb it (item_ents c it) (pi_start it) p) in *.
    destruct (Nat.eq_dec j1 (length (item_ents c it))) as [Hall|Hnot].
    + (* the range was emptied: go on with the rest *)
      assert (Ht1 : ps_trim p1 = 0) by (destruct Hpr1; assumption).
      destruct (pi_tail it) eqn:Etail.
      { (* the tail item is the last one *)
        rewrite (Hlast eq_refl). cbn [parse_plan].
        exists j1. split; [exact Hpr1|]. split; [exact Hz1|]. split; [exact Hp1|].
        split; [intros Hfc Hn Hs H1; exact (Hprog1 Hfc Hn H1)|].
        intros Hjp _. apply Hst2; auto. }
      destruct (IH p1 Ht1 (Hst1 eq_refl)) as (j2 & Hpr2 & Hz2 & Hp2 & _). cbn zeta in *.
      exists (j1 + j2)%nat. subst j1. subst U.
      split; [eapply PR_trans; eassumption|].
      split.
      { intros H0. assert (length (item_ents c it) = 0 /\ j2 = 0)%nat as (A & B) by lia.
        specialize (Hz1 A). specialize (Hz2 B).
        destruct Hz1 as (a1 & a2 & a3 & a4 & a5). destruct Hz2 as (b1 & b2 & b3 & b4 & b5).
        repeat split; congruence. }
      split.
      { intros Hpos. rewrite skipn_app_len2.
        destruct j2 as [|j2'].
        - eapply PosOk_same; [apply Hz2; reflexivity|].
          assert (Hl : (0 < length (item_ents c it))%nat) by lia.
          specialize (Hp1 Hl). rewrite <- (Nat.add_0_r (length (item_ents c it))) in Hp1 at 1.
          rewrite skipn_app_len2 in Hp1. exact Hp1.
        - apply Hp2. lia. }
      split.
      { intros Hfc Hn Hs H1. specialize (Hprog1 Hfc Hn H1). lia. }
      { intros _ Hall'. inversion Hall'; subst. congruence. }
    + (* stopped inside a full range: the whole read is over *)
      assert (Hlt : (j1 < length (item_ents c it))%nat) by lia.
      rewrite (parse_plan_halt c maxb rest p1 (Hend1 Hlt Hfull)).
      exists j1. split; [exact Hpr1|]. split; [exact Hz1|]. split; [exact Hp1|].
      split; [intros Hfc Hn Hs H1; exact (Hprog1 Hfc Hn H1)|].
      intros Hjp Hall'. inversion Hall'; subst. apply Hst2; auto.
  - cbn [parse_plan].
    destruct ((c_max_entries c <=? ps_n p) || ps_stop p) eqn:Eh.
    { exists 0%nat. cbn zeta. split; [apply PRrefl; exact Ht|]. split; [intros; apply SPrefl|]. split; [intros; lia|].
      split; [|intros; lia].
      intros _ Hn Hs H1. rewrite Hs, Hn in Eh. cbn in Eh. rewrite orb_false_r in Eh. lia. }
    fold (item_ents c it).
    destruct (One it U p Hok HU Ht Hnt) as (j1 & Hpr1 & Hjl & Hz1 & Hp1 & Hend1 & Hprog1 & Hst1 & Hst2). cbn zeta in *.
    exists j1. split; [exact Hpr1|]. split; [exact Hz1|]. split; [exact Hp1|].
    split; [intros Hfc Hn Hs H1; exact (Hprog1 Hfc Hn H1)|].
    intros Hjp Hall'. inversion Hall'; subst. apply Hst2; auto.
Qed.

(* ------------------------------------------------------------------ planning the sealed ranges *)
Lemma peek_want_ge c (Hh : 0 < c_hdr c) b off e1 r :
  ents_from c (b_ents b) off = e1 :: r -> off + need c e1 <= b_used b ->
  exists req, peek_want c b off = Some req /\ need c e1 <= req.
Proof.
  intros He Hfit. unfold peek_want.
  replace (b_used b <? off + c_hdr c) with false by (unfold need in Hfit; lia).
  rewrite (ents_from_view c _ _ _ _ He).
  destruct (e_len e1 <? c_small c).
  - destruct (b_used b <? off + need c e1 + c_hdr c); [eexists; split; [reflexivity|lia]|].
    destruct r; eexists; split; try reflexivity; lia.
  - eexists; split; [reflexivity|lia].
Qed.

Lemma UR_cons c chain W WT i off b r : skipn i chain = b :: r ->
  UR c chain W WT i off = ents_from c (b_ents b) off ++ chain_ents r ++ W.
Proof. intros H. unfold UR. now rewrite H. Qed.

Lemma skipn_S_of {A} (l : list A) i x r : skipn i l = x :: r -> skipn (S i) l = r.
Proof. revert l; induction i as [|i IH]; intros l H; destruct l; cbn in *; try discriminate; [now inversion H|now apply IH]. Qed.

Lemma plan_sealed_spec c (Hh : 0 < c_hdr c) maxb chain W WT w : forall rest idx off hint planned acc,
  skipn idx chain = rest ->
  Forall (bwf c) rest ->
  (forall b r, rest = b :: r -> okoff c (b_ents b) off) ->
  (acc <> [] -> off = 0 /\ planned < maxb \/ True) ->
  (acc <> [] -> off = 0) ->
  ((idx < length chain)%nat -> WT = W) ->
  let '(acc', planned', idx', trunc) := plan_sealed c maxb false rest idx off hint planned acc in
  exists items, acc' = rev items ++ acc /\ Forall (fun it => pi_tail it = false) items /\
    (if trunc then Seg c chain W w items (UR c chain W WT idx off) None
     else Seg c chain W w items (UR c chain W WT idx off) (Some (UR c chain W WT idx' 0)) /\ (idx <= idx')%nat /\
          ((idx <= length chain)%nat -> (idx' <= length chain)%nat)) /\
    (acc = [] -> (idx <= length chain)%nat ->
       match items with
       | [] => trunc = false /\ idx' = length chain /\ UR c chain W WT idx off = WT
       | _ => first_covered c items
       end) /\
    (rest = [] -> items = []).
Proof.
  induction rest as [|b rest' IH]; intros idx off hint planned acc Hsk Hwf Hcur _ Hacc HWT; cbn [plan_sealed].
  - exists []. split; [reflexivity|]. split; [constructor|]. split; [|split; [|reflexivity]].
    + split; [|split; [lia|auto]]. unfold UR. rewrite Hsk. constructor.
    + intros _ Hle. apply skipn_nil_ge in Hsk as Hl. split; [reflexivity|]. split; [lia|]. unfold UR.
      destruct (skipn idx chain); [reflexivity|discriminate].
  - pose proof (Hcur b rest' eq_refl) as Hok.
    inversion Hwf as [|x l (Hbu & Hbl & Hbm) Hwf']; subst.
    assert (Hnth : nth_error chain idx = Some b) by (eapply nth_error_skipn; eauto).
    assert (HidxLt : (idx < length chain)%nat) by (eapply skipn_len_lt; eauto).
    assert (HskS : skipn (S idx) chain = rest') by (eapply skipn_S_of; eauto).
    assert (HURS : UR c chain W WT (S idx) 0 = chain_ents rest' ++ W).
    { unfold UR. rewrite HskS. destruct rest' as [|b1 r1]; [cbn; now apply HWT|]. cbn [chain_ents flat_map].
      rewrite ents_from_0. now rewrite <- app_assoc. }
    destruct (negb ((planned <? maxb) || match acc with [] => true | _ :: _ => false end)) eqn:Estop.
    { (* budget used up before this block: only possible after a first range *)
      exists []. split; [reflexivity|]. split; [constructor|].
      assert (Hne : acc <> []) by (destruct acc; [cbn in Estop; rewrite orb_true_r in Estop; discriminate|discriminate]).
      rewrite (Hacc Hne). split; [|split; [|intros; discriminate]].
      - split; [constructor|split; [lia|intros; lia]].
      - intros Ha. congruence. }
    destruct (b_used b <=? off) eqn:Eex.
    { (* exhausted block *)
      assert (He : ents_from c (b_ents b) off = []) by (apply ents_from_end; [exact Hh|lia]).
      assert (HUeq : UR c chain W WT idx off = UR c chain W WT (S idx) 0).
      { rewrite (UR_cons c chain W WT idx off b rest' Hsk), He, HURS. reflexivity. }
      specialize (IH (S idx) 0 0 planned acc HskS Hwf' (fun b0 r0 _ => okoff_0 c (b_ents b0)) (fun _ => or_intror I) (fun _ => eq_refl)
                     (fun _ => HWT HidxLt)).
      destruct (plan_sealed c maxb false rest' (S idx) 0 0 planned acc) as [[[acc' planned'] idx'] trunc].
      destruct IH as (items & Hacc' & Hall & Hseg & Hfirst & _).
      exists items. split; [exact Hacc'|]. split; [exact Hall|]. split; [|split; [|intros; discriminate]].
      - rewrite HUeq. destruct trunc; [exact Hseg|]. destruct Hseg as (A & B & C). split; [exact A|]. split; [lia|]. intros; apply C; lia.
      - intros Ha Hle. specialize (Hfirst Ha ltac:(lia)). rewrite HUeq. exact Hfirst. }
    (* a range is planned in this block *)
    assert (Hlt : off < b_used b) by lia.
    assert (Hne : ents_from c (b_ents b) off <> []) by (apply okoff_nonempty; [exact Hok|lia]).
    destruct (ents_from c (b_ents b) off) as [|e1 re] eqn:Eef; [congruence|].
    assert (Hfit1 : off + need c e1 <= b_used b).
    { unfold okoff in Hok. rewrite Eef in Hok. cbn [sum_need] in Hok. lia. }
    set (want0 := maxb - planned).
    set (want := match acc with
                 | [] => if false && (off <? hint) then N.max want0 (hint - off)
                         else match peek_want c b off with Some req => N.max want0 req | None => want0 end
                 | _ :: _ => want0 end).
    assert (Hwant : (acc = [] -> need c e1 <= want) /\ 0 < want).
    { unfold want. destruct acc as [|a0 acc0].
      - cbn [andb]. destruct (peek_want_ge c Hh b off e1 re Eef Hfit1) as (req & Hp & Hr). rewrite Hp.
        pose proof (need_pos c e1 Hh). split; [intros; lia|lia].
      - split; [intros; discriminate|]. unfold want0. cbn in Estop. rewrite orb_false_r in Estop. lia. }
    destruct Hwant as (Hw1 & Hw0).
    set (e := N.min (b_used b) (N.min u64_max (off + want))).
    assert (Hoe : off < e) by (unfold e; lia).
    replace (off <? e) with true by lia.
    set (item := {| pi_blk := b; pi_start := off; pi_end := e; pi_tail := false; pi_idx := idx |}).
    assert (Hitem : item_ok c chain w item).
    { unfold item_ok, item; cbn. repeat split; auto; unfold e; lia. }
    assert (HU : UR c chain W WT idx off = item_ents c item ++ item_rest chain W item).
    { rewrite (UR_cons c chain W WT idx off b rest' Hsk). unfold item_ents, item_rest, item; cbn [pi_blk pi_start pi_tail pi_idx]. now rewrite HskS. }
    assert (Hcov : acc = [] -> first_covered c [item]).
    { intros Ha. cbn. exists e1, re. unfold item_ents, item; cbn. split; [exact Eef|]. specialize (Hw1 Ha). unfold e. lia. }
    destruct (e <? b_used b) eqn:Etr.
    + (* truncated by the budget: the plan ends here *)
      exists [item]. split; [reflexivity|]. split; [repeat constructor|]. split; [|split; [|intros; discriminate]].
      * apply SegTrunc; assumption.
      * intros Ha _. now apply Hcov.
    + assert (Hfull : full item) by (unfold full, item; cbn; unfold e in *; lia).
      specialize (IH (S idx) 0 hint (planned + (e - off)) (item :: acc) HskS Hwf' (fun b0 r0 _ => okoff_0 c (b_ents b0)) (fun _ => or_intror I)
                     (fun _ => eq_refl) (fun _ => HWT HidxLt)).
      destruct (plan_sealed c maxb false rest' (S idx) 0 hint (planned + (e - off)) (item :: acc)) as [[[acc' planned'] idx'] trunc].
      destruct IH as (items & Hacc' & Hall & Hseg & _).
      exists (item :: items). split; [rewrite Hacc'; cbn [rev]; now rewrite <- app_assoc|].
      split; [constructor; [reflexivity|exact Hall]|]. split; [|split; [|intros; discriminate]].
      * assert (Hrest : item_rest chain W item = UR c chain W WT (S idx) 0).
        { unfold item_rest, item; cbn [pi_tail pi_idx]. now rewrite HskS, HURS. }
        destruct trunc.
        -- eapply SegFull; eauto. { intros; discriminate. } rewrite Hrest. exact Hseg.
        -- destruct Hseg as (A & B & C). split; [|split; [lia|intros; apply C; lia]].
           eapply SegFull; eauto. { intros; discriminate. } rewrite Hrest. exact A.
      * intros Ha _. now apply Hcov.
Qed.

(* ------------------------------------------------------------------ the stateful batch read *)
Definition tail_unread (c : Cfg) (ts : tstate) : list entry :=
  match ts_writer ts with Some w => ents_from c (b_ents w) (tail_start ts w) | None => [] end.

Lemma unread_UR c ts : unread c ts =
  UR c (chain_of ts) (w_ents ts) (tail_unread c ts) (r_idx (reader_of ts)) (r_off (reader_of ts)).
Proof. reflexivity. Qed.

Lemma batch_read_spec c m s t maxb ck nid : cfg_ok c ->
  TInv c nid (get_ts s (t_id t)) ->
  let ts := get_ts s (t_id t) in
  let U := unread c ts in
  exists ts' k, batch_read c m s t maxb ck None = (set_ts s (t_id t) ts', REntries (map out_of (firstn k U))) /\
    TInv c nid ts' /\ stream ts' = stream ts /\ ts_writer ts' = ts_writer ts /\
    (k <= length U)%nat /\ (U <> [] -> (1 <= k)%nat) /\
    unread c ts' = (if ck then skipn k U else U).
Proof.
  intros (Hh & Hb0 & Hba & Hbm & Hme & Hhb) Hinv ts U.
  pose proof Hinv as [Hp Hu Hch Hw Hnd Hids Htl Hidx Hend Hcur Hst Htail Hhyd Hcnt].
  fold ts in Hp, Hu, Hch, Hw, Hnd, Hids, Htl, Hidx, Hend, Hcur, Hst, Htail, Hhyd, Hcnt.
  unfold batch_read, br_position, br_from. fold ts. rewrite Hp.
  destruct (hydrate_fresh (reader_of ts) (ts_index ts) true Hhyd) as (r1 & Hhy & E1 & E2 & E3 & E4 & E5 & E6 & E7).
  rewrite Hhy. cbn beta iota zeta.
  rewrite E1, E2, E3, E4, E5.
  set (chain := r_chain (reader_of ts)) in *.
  set (W := w_ents ts). set (WT := tail_unread c ts).
  assert (HWT : (r_idx (reader_of ts) < length chain)%nat -> WT = W).
  { intros Hl. unfold WT, W, tail_unread, w_ents, tail_start. destruct (ts_writer ts) as [w|] eqn:Ew; [|reflexivity].
    pose proof (Hst Hl w eq_refl). replace (r_tail_bid (reader_of ts) =? b_id w) with false by lia. apply ents_from_0. }
  pose proof (plan_sealed_spec c Hh maxb chain W WT (ts_writer ts) (skipn (r_idx (reader_of ts)) chain)
                (r_idx (reader_of ts)) (r_off (reader_of ts)) 0 0 [] eq_refl
                (Forall_skipn _ _ _ Hch)) as Hplan.
  assert (A2 : forall b r, skipn (r_idx (reader_of ts)) chain = b :: r -> okoff c (b_ents b) (r_off (reader_of ts))).
  { intros b r Hs. apply Hcur. unfold chain_of. eapply nth_error_skipn; eauto. }
  specialize (Hplan A2 (fun _ => or_intror I) (fun H => match H eq_refl with end) HWT).
  destruct (plan_sealed c maxb false (skipn (r_idx (reader_of ts)) chain) (r_idx (reader_of ts)) (r_off (reader_of ts)) 0 0 [])
    as [[[racc planned'] idx'] trunc].
  destruct Hplan as (items & Hracc & Hsealed & Hseg & Hfirst & Hnil0).
  rewrite app_nil_r in Hracc. subst racc.
  specialize (Hfirst eq_refl Hidx).
  assert (HU : U = UR c chain W WT (r_idx (reader_of ts)) (r_off (reader_of ts))) by reflexivity.
  (* the complete plan, in order, with what it covers *)
  assert (Hfull : exists L Uo, 
            (let '(racc2, trim1) :=
               (if negb trunc && (length chain <=? idx')%nat
                then match ts_writer ts with
                     | Some w =>
                       if (if r_tail_bid (reader_of ts) =? b_id w then r_tail_off (reader_of ts) else 0) <? b_used w
                       then ({| pi_blk := w; pi_start := if r_tail_bid (reader_of ts) =? b_id w then r_tail_off (reader_of ts) else 0;
                                pi_end := b_used w; pi_tail := true; pi_idx := 0 |} :: rev items, 0)
                       else (rev items, 0)
                     | None => (rev items, 0)
                     end
                else (rev items, 0)) in racc2 = rev L /\ trim1 = 0) /\
            Seg c chain W (ts_writer ts) L U Uo /\
            (L = [] -> U = []) /\ (L <> [] -> first_covered c L) /\
            (skipn (r_idx (reader_of ts)) chain = [] -> Forall (fun it => pi_tail it = true) L)).
  { destruct trunc.
    - exists items, None. cbn [negb andb]. split; [split; reflexivity|]. split; [rewrite HU; exact Hseg|].
      split; [intros HL; subst items; exfalso; destruct Hfirst as (Hf & _); discriminate|].
      split; [intros HL; destruct items; [congruence|exact Hfirst]|].
      intros Hs0. rewrite (Hnil0 Hs0). constructor.
    - destruct Hseg as (Hseg & Hle1 & Hle2). specialize (Hle2 Hidx). cbn [negb andb].
      destruct (length chain <=? idx')%nat eqn:Elen.
      + apply Nat.leb_le in Elen. assert (idx' = length chain) by lia. subst idx'.
        assert (HURend : UR c chain W WT (length chain) 0 = WT) by (unfold UR; now rewrite skipn_all).
        rewrite HURend in Hseg.
        destruct (ts_writer ts) as [w|] eqn:Ew.
        * set (tstart := if r_tail_bid (reader_of ts) =? b_id w then r_tail_off (reader_of ts) else 0) in *.
          assert (Hwt : WT = ents_from c (b_ents w) tstart) by (unfold WT, tail_unread; rewrite Ew; reflexivity).
          assert (Hokw : okoff c (b_ents w) tstart) by (apply (Htail w); reflexivity).
          assert (Hwwf : bwf c w) by (unfold w_list in Hw; try rewrite Ew in Hw; inversion Hw; assumption).
          destruct Hwwf as (Hwu & _).
          destruct (tstart <? b_used w) eqn:Ets.
          -- set (titem := {| pi_blk := w; pi_start := tstart; pi_end := b_used w; pi_tail := true; pi_idx := 0 |}).
             exists (items ++ [titem]), (Some []).
             split; [split; [now rewrite rev_app_distr|reflexivity]|].
             assert (Htok : item_ok c chain (Some w) titem) by (unfold item_ok, titem; cbn; repeat split; auto; lia).
             split.
             { rewrite HU. eapply Seg_app; [exact Hsealed|exact Hseg|].
               eapply SegFull; [exact Htok|reflexivity|reflexivity| |constructor].
               unfold item_ents, item_rest, titem; cbn. now rewrite app_nil_r. }
             split; [intros HL; destruct items; discriminate|].
             split.
             { intros _. destruct items as [|i0 items']; [|exact Hfirst].
               cbn. unfold item_ents, titem; cbn.
               assert (Hne : ents_from c (b_ents w) tstart <> []) by (apply okoff_nonempty; [exact Hokw|lia]).
               destruct (ents_from c (b_ents w) tstart) as [|e re] eqn:Eef; [congruence|].
               exists e, re. split; [reflexivity|]. unfold okoff in Hokw. rewrite Eef in Hokw. cbn [sum_need] in Hokw. lia. }
             intros Hs0. rewrite (Hnil0 Hs0). cbn. repeat constructor.
          -- exists items, (Some WT). split; [split; reflexivity|]. split; [rewrite HU; exact Hseg|].
             split.
             { intros HL; subst items. destruct Hfirst as (_ & _ & Hf). rewrite HU, Hf, Hwt. apply ents_from_end; [exact Hh|lia]. }
             split; [intros HL; destruct items; [congruence|exact Hfirst]|].
             intros Hs0. rewrite (Hnil0 Hs0). constructor.
        * exists items, (Some WT). split; [split; reflexivity|]. split; [rewrite HU; exact Hseg|].
          split.
          { intros HL; subst items. destruct Hfirst as (_ & _ & Hf). rewrite HU, Hf. unfold WT, tail_unread. now rewrite Ew. }
          split; [intros HL; destruct items; [congruence|exact Hfirst]|].
          intros Hs0. rewrite (Hnil0 Hs0). constructor.
      + exists items, (Some (UR c chain W WT idx' 0)). split; [split; reflexivity|]. split; [rewrite HU; exact Hseg|].
        split.
        { intros HL; subst items. destruct Hfirst as (_ & Hf & _). apply Nat.leb_gt in Elen. lia. }
        split; [intros HL; destruct items; [congruence|exact Hfirst]|].
        intros Hs0. rewrite (Hnil0 Hs0). constructor. }
  destruct Hfull as (L & Uo & Hshape & HsegL & HLnil & HLcov & HLtail).
  match goal with |- context [match ?X with (_, _) => _ end] => destruct X as [racc2 trim1] end.
  destruct Hshape as (Hr2 & Htr). subst trim1.
  assert (HrevL : rev racc2 = L) by (rewrite Hr2; apply rev_involutive).
  set (ts_h := with_reader ts r1).
  assert (Hts_h : ts_h = mk_ts ts r1 (ts_count ts) (ts_index ts)) by reflexivity.
  assert (Hinv_h : TInv c nid ts_h /\ unread c ts_h = U /\ stream ts_h = stream ts).
  { rewrite Hts_h. split; [|split].
    - apply TInv_reader; auto; rewrite ?E1, ?E2, ?E3, ?E4, ?E5; auto.
      rewrite unread_mk, E1, E2, E3, E4, E5. fold (cnt ts). exact Hcnt.
    - rewrite unread_mk, E1, E2, E3, E4, E5. reflexivity.
    - apply stream_mk. exact E1. }
  destruct Hinv_h as (Hinvh & Hunh & Hsth).
  destruct racc2 as [|it0 racc2'].
  { (* nothing planned: nothing unread *)
    assert (L = []) by (rewrite <- HrevL; reflexivity). specialize (HLnil H).
    exists ts_h, 0%nat. rewrite HLnil. cbn [firstn map skipn]. 
    split; [reflexivity|]. split; [exact Hinvh|]. split; [exact Hsth|]. split; [reflexivity|].
    split; [cbn; lia|]. split; [congruence|]. rewrite Hunh. fold U. rewrite HLnil. now destruct ck. }
  rewrite HrevL.
  match goal with |- context [parse_plan c maxb L ?q] => set (p0 := q) end.
  destruct (parse_plan_spec c Hh maxb chain W (ts_writer ts) L U Uo HsegL p0 eq_refl eq_refl) as (j & Hpr & Hz & Hpos & Hprog & Hsawt).
  cbn zeta in *. set (p := parse_plan c maxb L p0) in *.
  destruct Hpr as [Ho Hn Hpa Hj _]. cbn [ps_outs ps_n ps_parsed p0] in Ho, Hn, Hpa. rewrite app_nil_r in Ho.
  assert (HLne : L <> []) by (rewrite <- HrevL; cbn; intros X; apply app_eq_nil in X; destruct X; discriminate).
  assert (Hk1 : U <> [] -> (1 <= j)%nat).
  { intros _. apply Hprog; auto. }
  assert (Hres : rev (ps_outs p) = map out_of (firstn j U)) by (rewrite Ho; apply rev_involutive).
  rewrite Hres. rewrite Hpa. cbn [negb]. rewrite !andb_true_r.
  (* the two shapes of a committed state *)
  assert (Htail_case : forall r' ix', r_chain r' = chain -> r_hydrated r' = true -> (0 < j)%nat -> ps_saw_tail p = true ->
            let ts' := mk_ts ts (set_tail (set_cur r' (length chain) 0) (ps_tail_id p) (ps_tail_off p)) (Some (cnt ts - N.of_nat j)) ix' in
            TInv c nid ts' /\ stream ts' = stream ts /\ ts_writer ts' = ts_writer ts /\ unread c ts' = skipn j U).
  { intros r' ix' R1 R7 Hjp Esaw ts'. specialize (Hpos Hjp). unfold PosOk in Hpos. rewrite Esaw in Hpos.
    destruct Hpos as (wb & Hwb & Hid & Hokt & Hents).
    assert (Hwid : 0 < b_id wb < nid).
    { eapply Forall_forall in Hids; [exact Hids|]. apply in_or_app. right. unfold w_list. rewrite Hwb. left. reflexivity. }
    assert (Hur : unread c ts' = skipn j U).
    { unfold ts'. rewrite unread_mk. cbn [set_tail set_cur r_idx r_chain r_tail_bid r_tail_off]. rewrite R1.
      unfold chain. rewrite skipn_all. rewrite Hwb, Hid, N.eqb_refl. exact Hents. }
    split.
    { unfold ts'. apply TInv_reader; auto; cbn [set_tail set_cur r_idx r_off r_chain r_tail_bid r_tail_off r_hydrated].
      - rewrite Hid. lia.
      - intros b' Hb'. exfalso. unfold chain_of in Hb'. fold chain in Hb'. eapply nth_error_len_none; eauto.
      - unfold chain_of. fold chain. lia.
      - intros w' Hw'. rewrite Hwb in Hw'. inversion Hw'; subst w'. rewrite Hid, N.eqb_refl. exact Hokt.
      - fold ts'. rewrite Hur, Hcnt. fold U. rewrite skipn_length. lia. }
    split; [unfold ts'; apply stream_mk; exact R1|]. split; [reflexivity|exact Hur]. }
  assert (Hsealed_case : forall r' ix', r_chain r' = chain -> r_tail_bid r' = r_tail_bid (reader_of ts) ->
            r_tail_off r' = r_tail_off (reader_of ts) -> r_hydrated r' = true -> (0 < j)%nat -> ps_saw_tail p = false ->
            let ts' := mk_ts ts (set_cur r' (ps_fin_idx p) (ps_fin_off p)) (Some (cnt ts - N.of_nat j)) ix' in
            TInv c nid ts' /\ stream ts' = stream ts /\ ts_writer ts' = ts_writer ts /\ unread c ts' = skipn j U).
  { intros r' ix' R1 R4 R5 R7 Hjp Esaw ts'. specialize (Hpos Hjp). unfold PosOk in Hpos. rewrite Esaw in Hpos.
    destruct Hpos as (b & Hnb & Hokb & Hents).
    assert (Hfl : (ps_fin_idx p < length chain)%nat) by (apply nth_error_Some; congruence).
    destruct (skipn_nth_error _ _ _ Hnb) as (rr & Hskb).
    assert (Hur : unread c ts' = skipn j U).
    { unfold ts'. rewrite unread_mk. cbn [set_cur r_idx r_off r_chain]. rewrite R1, Hskb.
      rewrite <- Hents. now rewrite (skipn_S_of _ _ _ _ Hskb). }
    assert (Hwas : (r_idx (reader_of ts) < length chain)%nat).
    { destruct (Nat.lt_ge_cases (r_idx (reader_of ts)) (length chain)) as [Hl|Hg]; [exact Hl|]. exfalso.
      assert (Hs0 : skipn (r_idx (reader_of ts)) chain = []) by (apply skipn_all2; exact Hg).
      pose proof (Hsawt Hjp (HLtail Hs0)). congruence. }
    split.
    { unfold ts'. apply TInv_reader; auto; cbn [set_cur r_idx r_off r_chain r_tail_bid r_tail_off r_hydrated].
      - now rewrite R4.
      - unfold chain_of. fold chain. lia.
      - unfold chain_of. fold chain. lia.
      - intros b' Hb'. unfold chain_of in Hb'. fold chain in Hb'. rewrite Hnb in Hb'. inversion Hb'; subst b'. exact Hokb.
      - rewrite R4. intros _. apply Hst. exact Hwas.
      - rewrite R4, R5. exact Htail.
      - fold ts'. rewrite Hur, Hcnt. fold U. rewrite skipn_length. lia. }
    split; [unfold ts'; apply stream_mk; exact R1|]. split; [reflexivity|exact Hur]. }
  destruct ck; cbn [andb].
  2:{ exists ts_h, j. rewrite ?andb_false_r. split; [reflexivity|]. split; [exact Hinvh|]. split; [exact Hsth|]. split; [reflexivity|].
      split; [exact Hj|]. split; [exact Hk1|exact Hunh]. }
  destruct (0 <? 0 + N.of_nat j) eqn:Ej.
  2:{ assert (j = 0%nat) by lia. subst j. exists ts_h, 0%nat.
      split; [unfold count_sub; cbn; reflexivity|]. split; [exact Hinvh|]. split; [exact Hsth|]. split; [reflexivity|].
      split; [lia|]. split; [exact Hk1|exact Hunh]. }
  assert (Hjp : (0 < j)%nat) by lia.
  unfold count_sub. replace (0 + N.of_nat j =? 0) with false by lia.
  assert (Hrh : r_chain (reader_of ts_h) = chain /\ r_tail_bid (reader_of ts_h) = r_tail_bid (reader_of ts) /\
                r_tail_off (reader_of ts_h) = r_tail_off (reader_of ts) /\ r_hydrated (reader_of ts_h) = true).
  { unfold ts_h; cbn. rewrite E1, E4, E5, E7. auto. }
  destruct Hrh as (R1 & R4 & R5 & R7).
  destruct m as [|n]; cbn zeta; destruct (ps_saw_tail p) eqn:Esaw.
  - eexists; exists j. split; [reflexivity|].
    destruct (Htail_case (reader_of ts_h) (Some {| p_tail := true; p_a := ps_tail_id p; p_off := ps_tail_off p |}) R1 R7 Hjp eq_refl) as (A & B & C & D).
    split; [exact A|]. split; [exact B|]. split; [exact C|]. split; [exact Hj|]. split; [exact Hk1|exact D].
  - eexists; exists j. split; [reflexivity|].
    destruct (Hsealed_case (reader_of ts_h) (Some {| p_tail := false; p_a := N.of_nat (ps_fin_idx p); p_off := ps_fin_off p |}) R1 R4 R5 R7 Hjp eq_refl) as (A & B & C & D).
    split; [exact A|]. split; [exact B|]. split; [exact C|]. split; [exact Hj|]. split; [exact Hk1|exact D].
  - eexists; exists j. split; [reflexivity|].
    match goal with |- context [set_cur ?rr (length chain) 0] =>
      destruct (Htail_case rr (ts_index ts) R1 R7 Hjp eq_refl) as (A & B & C & D) end.
    split; [exact A|]. split; [exact B|]. split; [exact C|]. split; [exact Hj|]. split; [exact Hk1|exact D].
  - eexists; exists j. split; [reflexivity|].
    match goal with |- context [set_cur ?rr (ps_fin_idx p) (ps_fin_off p)] =>
      destruct (Hsealed_case rr (ts_index ts) R1 R4 R5 R7 Hjp eq_refl) as (A & B & C & D) end.
    split; [exact A|]. split; [exact B|]. split; [exact C|]. split; [exact Hj|]. split; [exact Hk1|exact D].
Qed.
