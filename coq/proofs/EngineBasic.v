(* EngineBasic.v — facts about model/Engine.v that need no well-formedness invariant:
   backend irrelevance (C16) and the cap/budget halves of C03. *)
From W Require Import model.Base model.Engine spec.Queue.
From Coq Require Import ZArith ZifyBool ZifyN.

(* ------------------------------------------------------------------ C16 *)
(* the one place where the backends' code paths differ observably (header copy panics on the
   FD path, InvalidData on the mmap path) is behind the argument check: unreachable *)
Lemma batch_backend c s t es : batch c Fd s t es = batch c Mmap s t es.
Proof.
  unfold batch, appendable.
  destruct (ensure_writer c s t) as [s1 w].
  destruct (c_max_entries c <? N.of_nat (length es)); [reflexivity|].
  destruct (c_max_bytes c <? sum_need c es); [reflexivity|].
  destruct (c_max_alloc c <? _); [reflexivity|].
  destruct (name_ok c t) eqn:Hn; cbn [negb]; [|reflexivity].
  destruct es as [|e es']; [reflexivity|].
  destruct (ts_poisoned _); [reflexivity|].
  destruct (batch_plan c s1 t w false (e :: es')) as [[[s2 wfin] okp] rot].
  destruct okp; reflexivity.
Qed.

Lemma step_backend c m s o :
  step {| v_cfg := c; v_mode := m; v_backend := Fd |} s o = step {| v_cfg := c; v_mode := m; v_backend := Mmap |} s o.
Proof. destruct o; cbn; try reflexivity. apply batch_backend. Qed.

Theorem run_backend c m : forall ops s,
  run {| v_cfg := c; v_mode := m; v_backend := Fd |} s ops = run {| v_cfg := c; v_mode := m; v_backend := Mmap |} s ops.
Proof.
  induction ops as [|o ops IH]; intros s; [reflexivity|].
  cbn [run]. rewrite (step_backend c m s o).
  destruct (step _ s o) as [s' r]. now rewrite IH.
Qed.

(* ------------------------------------------------------------------ C03: cap and budget *)
(* [X] is the exact payload total of the parsed entries; the code keeps it saturated *)
Definition pinv (c : Cfg) (maxb : N) (p : pstate) : Prop :=
  N.of_nat (length (ps_outs p)) = ps_n p /\ ps_n p <= c_max_entries c /\
  (exists X, sum_out_len (ps_outs p) <= X /\ ps_total p = N.min usize_max X) /\
  (ps_total p <= maxb \/ ps_n p <= 1).

Lemma parse_range_inv c maxb pi : forall es pos p,
  pinv c maxb p -> pinv c maxb (parse_range c maxb pi es pos p).
Proof.
  induction es as [|e r IH]; intros pos p Hp; cbn [parse_range]; [exact Hp|].
  destruct (c_max_entries c <=? ps_n p) eqn:E1; [exact Hp|].
  destruct (pi_end pi <? pos + c_hdr c); [exact Hp|].
  destruct (pi_end pi <? pos + need c e); [exact Hp|].
  destruct ((maxb <? N.min usize_max (ps_total p + e_len e)) && negb (ps_n p =? 0)) eqn:E2; [exact Hp|].
  apply IH. destruct Hp as (Hl & Hc & (X & Hs & Ht) & Hb).
  unfold pinv; cbn [ps_outs ps_n ps_total length].
  repeat split.
  - rewrite Nat2N.inj_succ, Hl. lia.
  - lia.
  - exists (X + e_len e). split.
    + unfold sum_out_len in *. cbn [fold_right o_len]. lia.
    + rewrite Ht. lia.
  - lia.
Qed.

Lemma parse_plan_inv c maxb : forall plan p, pinv c maxb p -> pinv c maxb (parse_plan c maxb plan p).
Proof.
  induction plan as [|pi rest IH]; intros p Hp; cbn [parse_plan]; [exact Hp|].
  destruct ((c_max_entries c <=? ps_n p) || ps_stop p); [exact Hp|].
  apply IH. now apply parse_range_inv.
Qed.

Lemma pinv0 c maxb trim :
  pinv c maxb {| ps_outs := []; ps_n := 0; ps_total := 0; ps_parsed := 0; ps_trim := trim;
                 ps_fin_idx := 0; ps_fin_off := 0; ps_tail_id := 0; ps_tail_off := 0; ps_saw_tail := false; ps_stop := false |}.
Proof. unfold pinv; cbn. repeat split; try lia. exists 0. cbn. split; [lia|reflexivity]. Qed.

Lemma sum_out_len_rev os : sum_out_len (rev os) = sum_out_len os.
Proof.
  unfold sum_out_len. induction os as [|o r IH]; [reflexivity|]. cbn [rev].
  rewrite fold_right_app. cbn [fold_right].
  assert (G : forall l a, fold_right (fun o0 a0 => o_len o0 + a0) a l = fold_right (fun o0 a0 => o_len o0 + a0) 0 l + a).
  { induction l as [|x l IHl]; intros a; cbn; [lia|]. rewrite IHl. lia. }
  rewrite G, IH. lia.
Qed.

(* every batch read, in every state whatsoever *)
Theorem batch_read_cap_budget c m s t maxb ck start s' os :
  batch_read c m s t maxb ck start = (s', REntries os) ->
  N.of_nat (length os) <= c_max_entries c /\
  (N.min usize_max (sum_out_len os) <= maxb \/ (length os <= 1)%nat).
Proof.
  unfold batch_read, br_from. generalize (br_position c (get_ts s (t_id t)) start). intros pos H.
  repeat match type of H with
  | (let '(_, _) := ?x in _) = _ => destruct x
  | context [match ?x with _ => _ end] => destruct x eqn:?
  end; inversion H; subst; cbn; try lia;
  try match goal with
  | |- context [parse_plan c maxb ?plan ?p0] =>
    let Hi := fresh in
    assert (Hi : pinv c maxb (parse_plan c maxb plan p0)) by (apply parse_plan_inv, pinv0);
    destruct Hi as (Hl & Hc & (X & Hs & Ht) & Hb);
    rewrite rev_length, sum_out_len_rev; split; [lia|];
    destruct Hb as [Hb|Hb]; [left; lia | right; lia]
  end.
Qed.
