(* ClusterSeqN.v — C22, positive theorem for the sequential system of ClusterSys.v with ANY
   number of nodes: operations never overlap, every proposed command is applied by every node
   before the next event, no restart.  For EVERY schedule the client-visible history is
   accepted by the FIFO-queue acceptor [c22_seq_ok] and is a sequential history [seq_hist].

   Invariant (between two events): every node has applied the whole log and holds the same
   metadata; for its topic state t, the acceptor's queue is the concatenation, segment by
   segment, of the engine queue held by that segment's leader; only a segment's leader holds
   entries of it; every sealed count equals the leader's `offsets` counter; a queue is never
   longer than its counter; and every node's read cursor (seg, del) has only drained segments
   behind it and del + |queue| <= counter for its own segment (other nodes' readers may have
   consumed from it too).  Leases, write locks and mutexes are unconstrained: a refused lease
   check answers an error before anything is written. *)
From Coq Require Import ZArith ZifyBool ZifyN ZifyNat.
From W Require Import model.Base model.Map model.Bincode model.Meta model.Cluster model.ClusterSys
  spec.StreamSpec proofs.MapP proofs.MetaP proofs.ClusterP proofs.ClusterSeq.
Open Scope N_scope.

(* ---------- the state seen through its nodes ---------- *)
Definition qo (s : cst) (n seg : N) : list cpayload :=
  match get_node s n with Some x => queue_of x seg | None => [] end.
Definition co (s : cst) (n seg : N) : N :=
  match get_node s n with Some x => count_of x seg | None => 0 end.
Definition cu (s : cst) (h : N) : N * N :=
  match get_node s h with Some x => cur_of x | None => (0, 0) end.

Definition qfun := N -> N -> list cpayload.
Definition cfun := N -> N -> N.
Definition ufun := N -> N * N.

Definition sl (t : tstate) (s : N) : N := seg_leader t s.

(* one node's read cursor *)
Record CVn (q : qfun) (c : cfun) (t : tstate) (seg del : N) : Prop := {
  cn_le : seg <= t_cur t;
  cn_lo : forall s, 1 <= s -> s < seg -> q (sl t s) s = [];
  cn_at : 1 <= seg -> del + nlen (q (sl t seg) seg) <= c (sl t seg) seg;
  cn_0 : seg = 0 -> del = 0
}.

Record Dn (q : qfun) (c : cfun) (u : ufun) (t : tstate) (Q : list cpayload) : Prop := {
  dn_cur : 1 <= t_cur t;
  dn_ldef : forall s, 1 <= s -> s <= t_cur t -> lookup N.compare s (t_leaders t) <> None;
  dn_lead : lookup N.compare (t_cur t) (t_leaders t) = Some (t_leader t);
  dn_sealed : forall s, 1 <= s -> s < t_cur t -> sealed_of t s = c (sl t s) s;
  dn_out : forall n s, s = 0 \/ t_cur t < s -> q n s = [] /\ c n s = 0;
  dn_other : forall n s, 1 <= s -> s <= t_cur t -> n <> sl t s -> q n s = [];
  dn_len : forall s, 1 <= s -> s <= t_cur t -> nlen (q (sl t s) s) <= c (sl t s) s;
  dn_q : Q = flat_map (fun s => q (sl t s) s) (segs (t_cur t));
  dn_curs : forall h, CVn q c t (fst (u h)) (snd (u h))
}.

Definition DS (s : cst) (t : tstate) (Q : list cpayload) : Prop := Dn (qo s) (co s) (cu s) t Q.

Lemma sl_cur q c u t Q : Dn q c u t Q -> sl t (t_cur t) = t_leader t.
Proof. intros H. unfold sl, seg_leader. now rewrite (dn_lead _ _ _ _ _ H). Qed.

Lemma Dn_ext q c u q' c' u' t Q :
  (forall n s, q' n s = q n s) -> (forall n s, c' n s = c n s) -> (forall h, u' h = u h) ->
  Dn q c u t Q -> Dn q' c' u' t Q.
Proof.
  intros Eq Ec Eu [H1 H2 H3 H4 H5 H6 H7 H8 H9]. split; auto.
  - intros s A B. rewrite Ec. auto.
  - intros n s A. rewrite Eq, Ec. auto.
  - intros n s A B C. rewrite Eq. auto.
  - intros s A B. rewrite Eq, Ec. auto.
  - rewrite H8. apply flat_map_ext_in. intros s _. now rewrite Eq.
  - intros h. rewrite Eu. destruct (H9 h) as [C1 C2 C3 C4]. split; auto.
    + intros s A B. rewrite Eq. auto.
    + intros A. rewrite Eq, Ec. auto.
Qed.

(* pointwise updates *)
Definition upd2 {V} (f : N -> N -> V) (n s : N) (v : V) : N -> N -> V :=
  fun n' s' => if (n' =? n) && (s' =? s) then v else f n' s'.
Definition upd1 {V} (f : N -> V) (n : N) (v : V) : N -> V := fun n' => if n' =? n then v else f n'.

Lemma upd2_same {V} (f : N -> N -> V) n s v : upd2 f n s v n s = v.
Proof. unfold upd2. now rewrite !N.eqb_refl. Qed.
Lemma upd2_other {V} (f : N -> N -> V) n s v n' s' : n' <> n \/ s' <> s -> upd2 f n s v n' s' = f n' s'.
Proof.
  intros H. unfold upd2. destruct (N.eqb_spec n' n); destruct (N.eqb_spec s' s); cbn; auto. subst. destruct H; contradiction.
Qed.

(* the engine append at the leader of the current segment, with its record_append *)
Lemma Dn_append q c u t Q p :
  Dn q c u t Q ->
  Dn (upd2 q (t_leader t) (t_cur t) (q (t_leader t) (t_cur t) ++ [p]))
     (upd2 c (t_leader t) (t_cur t) (c (t_leader t) (t_cur t) + 1)) u t (Q ++ [p]).
Proof.
  intros HD. pose proof (sl_cur _ _ _ _ _ HD) as Hsl. destruct HD as [H1 H2 H3 H4 H5 H6 H7 H8 H9].
  set (l := t_leader t) in *. set (k := t_cur t) in *.
  split; auto.
  - intros s A B. rewrite upd2_other by (right; lia). auto.
  - intros n s A. rewrite !upd2_other by (right; lia). auto.
  - intros n s A B C. destruct (N.eq_dec s k) as [->|Hne].
    + rewrite upd2_other by (left; congruence). auto.
    + rewrite upd2_other by (right; exact Hne). auto.
  - intros s A B. destruct (N.eq_dec s k) as [->|Hne].
    + rewrite Hsl, !upd2_same, nlen_app. specialize (H7 k A B). rewrite Hsl in H7. unfold nlen at 2. cbn [length]. lia.
    + rewrite !upd2_other by (right; exact Hne). auto.
  - rewrite H8. unfold k. rewrite (segs_split (t_cur t) (t_cur t)) by lia.
    replace (N.to_nat (t_cur t - t_cur t)) with 0%nat by lia. cbn [nrange].
    rewrite !flat_map_app. cbn [flat_map]. rewrite !app_nil_r. fold k. rewrite Hsl, upd2_same, app_assoc. f_equal. f_equal.
    apply flat_map_ext_in. intros s Hs. apply in_segs in Hs. rewrite upd2_other by (right; lia). reflexivity.
  - intros h. destruct (H9 h) as [C1 C2 C3 C4]. split; auto.
    + intros s A B. rewrite upd2_other by (right; lia). auto.
    + intros A. destruct (N.eq_dec (fst (u h)) k) as [E|Hne].
      * rewrite E, Hsl, !upd2_same, nlen_app. specialize (C3 A). rewrite E, Hsl in C3. unfold nlen at 2. cbn [length]. lia.
      * rewrite !upd2_other by (right; exact Hne). auto.
Qed.

(* a cursor move of node h *)
Lemma Dn_cursor q c u t Q h seg del :
  Dn q c u t Q -> CVn q c t seg del -> Dn q c (upd1 u h (seg, del)) t Q.
Proof.
  intros [H1 H2 H3 H4 H5 H6 H7 H8 H9] Hcv. split; auto.
  intros h'. unfold upd1. destruct (h' =? h); [exact Hcv|apply H9].
Qed.

(* the consuming read of the head of segment [seg] (cursor segment of h) at its leader, and h's
   cursor advance *)
Lemma Dn_deq q c u t Q h a rest :
  Dn q c u t Q -> 1 <= fst (u h) -> q (sl t (fst (u h))) (fst (u h)) = a :: rest ->
  exists Q', Q = a :: Q' /\
    Dn (upd2 q (sl t (fst (u h))) (fst (u h)) rest) c (upd1 u h (fst (u h), snd (u h) + 1)) t Q'.
Proof.
  intros [H1 H2 H3 H4 H5 H6 H7 H8 H9] Hcs Hq.
  destruct (H9 h) as [C1 C2 C3 C4]. destruct (u h) as [cs cd] eqn:Eu. cbn [fst snd] in *.
  set (q' := upd2 q (sl t cs) cs rest).
  exists (flat_map (fun s => q' (sl t s) s) (segs (t_cur t))). split.
  - rewrite H8. rewrite (segs_split (t_cur t) cs) by lia. rewrite !flat_map_app. cbn [flat_map].
    rewrite !(flat_map_nil _ (segs (cs - 1))).
    + cbn [app]. rewrite Hq. unfold q' at 1. rewrite upd2_same. cbn [app]. do 2 f_equal.
      apply flat_map_ext_in. intros s Hs. apply in_nrange in Hs. unfold q'. rewrite upd2_other by (right; lia). reflexivity.
    + intros s Hs. apply in_segs in Hs. unfold q'. rewrite upd2_other by (right; lia). apply C2; lia.
    + intros s Hs. apply in_segs in Hs. apply C2; lia.
  - assert (Hle : forall n s, nlen (q' n s) <= nlen (q n s)).
    { intros n s. unfold q', upd2. destruct ((n =? sl t cs) && (s =? cs)) eqn:E; [|lia].
      apply andb_prop in E. destruct E as [E1 E2]. apply N.eqb_eq in E1, E2. subst. rewrite Hq, nlen_cons. lia. }
    assert (Hnil : forall n s, q n s = [] -> q' n s = []).
    { intros n s E. apply nlen_0. specialize (Hle n s). rewrite E in Hle. rewrite nlen_nil in Hle. lia. }
    split; [exact H1|exact H2|exact H3|exact H4| | | |reflexivity|].
    + intros n s A. destruct (H5 n s A) as [B1 B2]. split; [now apply Hnil|exact B2].
    + intros n s A B C. apply Hnil. auto.
    + intros s A B. specialize (H7 s A B). specialize (Hle (sl t s) s). lia.
    + intros h'. unfold upd1. destruct (N.eqb_spec h' h) as [->|Hne].
      * cbn [fst snd]. split; [exact C1| | |lia].
        -- intros s A B. apply Hnil. auto.
        -- intros A. unfold q'. rewrite upd2_same. specialize (C3 A). rewrite Hq, nlen_cons in C3. lia.
      * destruct (H9 h') as [E1 E2 E3 E4]. split; [exact E1| | |exact E4].
        -- intros s A B. apply Hnil. auto.
        -- intros A. specialize (E3 A). specialize (Hle (sl t (fst (u h'))) (fst (u h'))). lia.
Qed.

(* the cursor loop *)
Lemma skipn_ok q c u t Q : Dn q c u t Q -> forall fuel seg del, 1 <= seg -> CVn q c t seg del ->
  CVn q c t (fst (skip_sealed fuel t seg del)) (snd (skip_sealed fuel t seg del)) /\
  1 <= fst (skip_sealed fuel t seg del).
Proof.
  intros [H1 H2 H3 H4 H5 H6 H7 H8 H9]. induction fuel as [|f IH]; intros seg del Hs Hcv; cbn [skip_sealed].
  - auto.
  - destruct (N.ltb_spec seg (t_cur t)) as [Hlt|Hge]; [|auto].
    fold (sealed_of t seg). destruct (N.leb_spec (sealed_of t seg) del) as [Hle|Hgt]; [|auto].
    apply IH; [lia|]. destruct Hcv as [C1 C2 C3 C4].
    assert (E : q (sl t seg) seg = []).
    { apply nlen_0. rewrite (H4 seg Hs Hlt) in Hle. specialize (C3 Hs). lia. }
    split.
    + lia.
    + intros s A B. destruct (N.eq_dec s seg) as [->|]; [exact E|]. apply C2; lia.
    + intros _. rewrite N.add_0_l. apply H7; lia.
    + lia.
Qed.

Lemma CVn_first q c u t Q seg del : Dn q c u t Q -> CVn q c t seg del ->
  CVn q c t (if seg =? 0 then 1 else seg) del /\ 1 <= (if seg =? 0 then 1 else seg).
Proof.
  intros [H1 H2 H3 H4 H5 H6 H7 H8 H9] [C1 C2 C3 C4]. destruct (N.eqb_spec seg 0) as [->|Hne].
  - split; [|lia]. rewrite (C4 eq_refl). split.
    + exact H1.
    + intros s A B. lia.
    + intros _. rewrite N.add_0_l. apply H7; lia.
    + lia.
  - split; [|lia]. split; auto.
Qed.

Lemma CVn_next q c u t Q seg del : Dn q c u t Q -> CVn q c t seg del -> 1 <= seg ->
  q (sl t seg) seg = [] -> seg < t_cur t -> CVn q c t (seg + 1) 0.
Proof.
  intros [H1 H2 H3 H4 H5 H6 H7 H8 H9] [C1 C2 C3 C4] Hs E Hlt. split.
  - lia.
  - intros s A B. destruct (N.eq_dec s seg) as [->|]; [exact E|]. apply C2; lia.
  - intros _. rewrite N.add_0_l. apply H7; lia.
  - lia.
Qed.

(* ---------- the metadata under RolloverTopic ---------- *)
Lemma Dn_rolled q c u t t' Q nl :
  Dn q c u t Q -> rollover_fx t nl (c (t_leader t) (t_cur t)) = Some t' -> Dn q c u t' Q.
Proof.
  intros HD. pose proof (sl_cur _ _ _ _ _ HD) as Hsl. destruct HD as [H1 H2 H3 H4 H5 H6 H7 H8 H9]. unfold rollover_fx.
  destruct (two64 <=? t_last t + c (t_leader t) (t_cur t)); [discriminate|].
  destruct (two64 <=? t_cur t + 1); [discriminate|]. intros E. inversion E; subst t'; clear E.
  set (t' := mkTopic _ _ _ _ _).
  assert (Hsl' : forall s, 1 <= s -> s <= t_cur t -> sl t' s = sl t s).
  { intros s A B. unfold sl, seg_leader, t'. cbn [t_leaders t_leader].
    rewrite (lookup_ins_other N_cmp_ok) by lia.
    destruct (N.eq_dec s (t_cur t)) as [->|Hne].
    - now rewrite (lookup_ins_same N_cmp_ok), H3.
    - rewrite (lookup_ins_other N_cmp_ok) by exact Hne.
      destruct (lookup N.compare s (t_leaders t)) eqn:El; [reflexivity|]. exfalso. now apply (H2 s A B). }
  assert (Hnew : sl t' (t_cur t + 1) = nl).
  { unfold sl, seg_leader, t'. cbn [t_leaders]. now rewrite (lookup_ins_same N_cmp_ok). }
  split; cbn [t_cur t_leader t_leaders t_sealed t'].
  - lia.
  - intros s A B. destruct (N.eq_dec s (t_cur t + 1)) as [->|Hne].
    + rewrite (lookup_ins_same N_cmp_ok). discriminate.
    + rewrite (lookup_ins_other N_cmp_ok) by exact Hne.
      destruct (N.eq_dec s (t_cur t)) as [->|Hne2].
      * rewrite (lookup_ins_same N_cmp_ok). discriminate.
      * rewrite (lookup_ins_other N_cmp_ok) by exact Hne2. apply H2; lia.
  - now rewrite (lookup_ins_same N_cmp_ok).
  - intros s A B. rewrite (Hsl' s) by lia. unfold sealed_of. cbn [t_sealed t']. destruct (N.eq_dec s (t_cur t)) as [->|Hne].
    + rewrite (lookup_ins_same N_cmp_ok). now rewrite Hsl.
    + rewrite (lookup_ins_other N_cmp_ok) by exact Hne. apply H4; lia.
  - intros n s A. apply H5. lia.
  - intros n s A B C. destruct (N.eq_dec s (t_cur t + 1)) as [->|Hne].
    + apply H5. lia.
    + rewrite (Hsl' s) in C by lia. apply H6; auto. lia.
  - intros s A B. destruct (N.eq_dec s (t_cur t + 1)) as [->|Hne].
    + destruct (H5 (sl t' (t_cur t + 1)) (t_cur t + 1)) as [E1 E2]; [lia|]. rewrite E1, nlen_nil. lia.
    + rewrite (Hsl' s) by lia. apply H7; lia.
  - rewrite segs_succ, flat_map_app. cbn [flat_map].
    destruct (H5 (sl t' (t_cur t + 1)) (t_cur t + 1)) as [E1 _]; [lia|]. rewrite E1, !app_nil_r, H8.
    apply flat_map_ext_in. intros s Hs. apply in_segs in Hs. now rewrite Hsl' by lia.
  - intros h. destruct (H9 h) as [C1 C2 C3 C4]. split; [unfold t'; cbn [t_cur]; lia| | |exact C4].
    + intros s A B. rewrite Hsl' by lia. apply C2; auto.
    + intros A. rewrite Hsl' by lia. auto.
Qed.

Lemma apply_roll_n m t nl cnt :
  topic_of m = Some t ->
  (rollover_fx t nl cnt = None /\ fst (apply_cmd_fx m (RolloverTopic tname nl cnt)) = m) \/
  (exists t', rollover_fx t nl cnt = Some t' /\ topic_of (fst (apply_cmd_fx m (RolloverTopic tname nl cnt))) = Some t').
Proof.
  unfold topic_of, get_topic_state. destruct (m_poisoned m) eqn:Ep; [discriminate|]. intros El.
  cbn [apply_cmd_fx]. rewrite El. destruct (rollover_fx t nl cnt) as [t'|]; [right|left; auto].
  exists t'. split; [reflexivity|]. cbn [fst m_poisoned m_cl set_topics c_topics].
  apply (lookup_ins_same str_cmp_ok).
Qed.

(* ---------- accessors under node updates ---------- *)
Lemma qo_set s e x' n seg : qo (set_node s e x') n seg = if n =? e then queue_of x' seg else qo s n seg.
Proof.
  unfold qo. destruct (N.eqb_spec n e) as [->|Hne]; [now rewrite get_set_same|now rewrite get_set_other].
Qed.
Lemma co_set s e x' n seg : co (set_node s e x') n seg = if n =? e then count_of x' seg else co s n seg.
Proof.
  unfold co. destruct (N.eqb_spec n e) as [->|Hne]; [now rewrite get_set_same|now rewrite get_set_other].
Qed.
Lemma cu_set s e x' h : cu (set_node s e x') h = if h =? e then cur_of x' else cu s h.
Proof.
  unfold cu. destruct (N.eqb_spec h e) as [->|Hne]; [now rewrite get_set_same|now rewrite get_set_other].
Qed.

(* an update of node e that keeps queues, counters and cursor *)
Lemma acc_same s e x x' :
  get_node s e = Some x -> nd_q x' = nd_q x -> nd_offsets x' = nd_offsets x -> nd_cursor x' = nd_cursor x ->
  (forall n seg, qo (set_node s e x') n seg = qo s n seg) /\
  (forall n seg, co (set_node s e x') n seg = co s n seg) /\
  (forall h, cu (set_node s e x') h = cu s h).
Proof.
  intros Hg Eq Eo Ec. repeat split; intros.
  - rewrite qo_set. destruct (N.eqb_spec n e) as [->|]; [|reflexivity]. unfold qo, queue_of. now rewrite Hg, Eq.
  - rewrite co_set. destruct (N.eqb_spec n e) as [->|]; [|reflexivity]. unfold co, count_of. now rewrite Hg, Eo.
  - rewrite cu_set. destruct (N.eqb_spec h e) as [->|]; [|reflexivity]. unfold cu, cur_of. now rewrite Hg, Ec.
Qed.

(* ---------- every node has applied everything ---------- *)
Record Base (cfg : ccfg) (s : cst) (M : mstate) (t : tstate) : Prop := {
  b_sync : forall n x, get_node s n = Some x -> nd_applied x = length (s_log s) /\ nd_meta x = M;
  b_topic : topic_of M = Some t;
  b_dom : forall n, get_node s n <> None -> In n (node_ids cfg)
}.

Lemma ap_noop fuel s n :
  (forall x, get_node s n = Some x -> (length (s_log s) <= nd_applied x)%nat) -> apply_pending fuel s n = s.
Proof.
  intros H. destruct fuel as [|f]; [reflexivity|]. cbn [apply_pending]. unfold Cluster.step_apply.
  destruct (get_node s n) as [x|] eqn:Hg; [|reflexivity].
  replace (nth_error (s_log s) (nd_applied x)) with (@None cmd); [reflexivity|].
  symmetry. apply nth_error_None. now apply H.
Qed.

Lemma fold_ap_id l : forall s,
  (forall n x, get_node s n = Some x -> nd_applied x = length (s_log s)) ->
  fold_left (fun s n => apply_pending (length (s_log s)) s n) l s = s.
Proof.
  induction l as [|n l IH]; intros s H; cbn [fold_left]; [reflexivity|].
  rewrite ap_noop; [now apply IH|]. intros x Hx. rewrite (H _ _ Hx). lia.
Qed.

Lemma ae_id cfg s :
  (forall n x, get_node s n = Some x -> nd_applied x = length (s_log s)) -> apply_everywhere cfg s = s.
Proof. apply fold_ap_id. Qed.

Definition bumpm (c : cmd) (k : nat) (x : node) : node :=
  if Nat.eqb (nd_applied x) k then with_meta x (fst (apply_cmd_fx (nd_meta x) c)) (S k) else x.

Definition near (k : nat) (s : cst) : Prop :=
  forall n x, get_node s n = Some x -> nd_applied x = k \/ nd_applied x = S k.

Ltac five := split; [try reflexivity|split; [try reflexivity|split; [try reflexivity|split; [try reflexivity|]]]].

Lemma ap_one_eq s n c k :
  length (s_log s) = S k -> nth_error (s_log s) k = Some c -> near k s ->
  apply_pending (S k) s n =
  match get_node s n with
  | Some x => if Nat.eqb (nd_applied x) k then set_node s n (with_meta x (fst (apply_cmd_fx (nd_meta x) c)) (S k)) else s
  | None => s
  end.
Proof.
  intros Hl Hc Hn. cbn [apply_pending]. unfold Cluster.step_apply.
  destruct (get_node s n) as [x|] eqn:Hg; [|reflexivity].
  destruct (Hn _ _ Hg) as [Ha|Ha].
  - rewrite Ha, Hc, Nat.eqb_refl. apply ap_noop.
    intros y Hy. rewrite get_set_same in Hy. inversion Hy. subst y. cbn [set_node s_log with_meta nd_applied]. lia.
  - replace (nth_error (s_log s) (nd_applied x)) with (@None cmd) by (symmetry; apply nth_error_None; lia).
    rewrite Ha. replace (Nat.eqb (S k) k) with false by (symmetry; apply Nat.eqb_neq; lia). reflexivity.
Qed.

Lemma ap_one s n c k :
  length (s_log s) = S k -> nth_error (s_log s) k = Some c -> near k s ->
  let s' := apply_pending (S k) s n in
  s_log s' = s_log s /\ s_clients s' = s_clients s /\ s_lease s' = s_lease s /\ s_mon s' = s_mon s /\
  forall m, get_node s' m = if m =? n then option_map (bumpm c k) (get_node s n) else get_node s m.
Proof.
  intros Hl Hc Hn. cbn zeta. rewrite (ap_one_eq s n c k Hl Hc Hn).
  destruct (get_node s n) as [x|] eqn:Hg.
  2:{ five. intros m. destruct (N.eqb_spec m n) as [->|]; [now rewrite Hg|reflexivity]. }
  unfold bumpm. cbn [option_map]. destruct (Nat.eqb (nd_applied x) k).
  - five. intros m. destruct (N.eqb_spec m n) as [->|Hne]; [now rewrite get_set_same|now rewrite get_set_other].
  - five. intros m. destruct (N.eqb_spec m n) as [->|]; [now rewrite Hg|reflexivity].
Qed.

Lemma bumpm_idem c k x : bumpm c k (bumpm c k x) = bumpm c k x.
Proof.
  unfold bumpm. destruct (Nat.eqb (nd_applied x) k) eqn:E; [|now rewrite E].
  cbn [with_meta nd_applied]. replace (Nat.eqb (S k) k) with false by (symmetry; apply Nat.eqb_neq; lia). reflexivity.
Qed.

Lemma bumpm_near c k x : nd_applied x = k \/ nd_applied x = S k -> nd_applied (bumpm c k x) = S k.
Proof.
  intros [H|H]; unfold bumpm; rewrite H.
  - now rewrite Nat.eqb_refl.
  - replace (Nat.eqb (S k) k) with false by (symmetry; apply Nat.eqb_neq; lia). exact H.
Qed.

Lemma fold_ap_one c k l : forall s,
  length (s_log s) = S k -> nth_error (s_log s) k = Some c -> near k s ->
  let s' := fold_left (fun s n => apply_pending (length (s_log s)) s n) l s in
  s_log s' = s_log s /\ s_clients s' = s_clients s /\ s_lease s' = s_lease s /\ s_mon s' = s_mon s /\
  forall m, get_node s' m = if existsb (N.eqb m) l then option_map (bumpm c k) (get_node s m) else get_node s m.
Proof.
  induction l as [|n l IH]; intros s Hl Hc Hn; cbn zeta; cbn [fold_left existsb]; [five; reflexivity|].
  rewrite Hl. destruct (ap_one s n c k Hl Hc Hn) as (A1 & A2 & A3 & A4 & A5).
  set (s1 := apply_pending (S k) s n) in *.
  assert (Hn1 : near k s1).
  { intros m x Hx. rewrite A5 in Hx. destruct (N.eqb_spec m n) as [->|].
    - destruct (get_node s n) as [y|] eqn:Hy; [|discriminate]. cbn in Hx. inversion Hx. subst x.
      right. apply bumpm_near. eapply Hn; eauto.
    - eapply Hn; eauto. }
  destruct (IH s1) as (B1 & B2 & B3 & B4 & B5); [congruence|congruence|exact Hn1|].
  cbn zeta in *. five; try congruence.
  intros m. rewrite B5, A5. destruct (N.eqb_spec m n) as [->|Hne]; cbn [orb].
  - destruct (existsb (N.eqb n) l); [|reflexivity]. destruct (get_node s n); cbn [option_map]; [|reflexivity].
    now rewrite bumpm_idem.
  - reflexivity.
Qed.

(* after a proposal: every node applies the new command *)
Lemma ae_one cfg s M t c s1 :
  Base cfg s M t -> s_nodes s1 = s_nodes s -> s_log s1 = s_log s ++ [c] ->
  let s2 := apply_everywhere cfg s1 in
  s_log s2 = s_log s1 /\ s_clients s2 = s_clients s1 /\ s_lease s2 = s_lease s1 /\ s_mon s2 = s_mon s1 /\
  forall n, get_node s2 n =
    option_map (fun x => with_meta x (fst (apply_cmd_fx M c)) (S (length (s_log s)))) (get_node s n).
Proof.
  intros [Hs Ht Hd] En El. cbn zeta. unfold apply_everywhere.
  assert (Hg : forall n, get_node s1 n = get_node s n) by (intros n; unfold get_node; now rewrite En).
  set (k := length (s_log s)).
  assert (L1 : length (s_log s1) = S k) by (rewrite El, app_length; cbn; lia).
  assert (L2 : nth_error (s_log s1) k = Some c).
  { rewrite El, nth_error_app2 by (unfold k; lia). unfold k. now rewrite Nat.sub_diag. }
  assert (L3 : near k s1).
  { intros n x Hx. rewrite Hg in Hx. left. now apply (Hs n x). }
  destruct (fold_ap_one c k (node_ids cfg) s1 L1 L2 L3) as (A1 & A2 & A3 & A4 & A5). cbn zeta in *.
  five; auto. intros n. rewrite A5, Hg.
  destruct (get_node s n) as [x|] eqn:Hx; [|now destruct (existsb _ _)].
  assert (Hin : existsb (N.eqb n) (node_ids cfg) = true).
  { apply existsb_exists. exists n. split; [|apply N.eqb_refl]. apply Hd. congruence. }
  rewrite Hin. cbn [option_map]. destruct (Hs _ _ Hx) as [Ha Hm]. unfold bumpm. fold k in Ha. rewrite Ha, Nat.eqb_refl, Hm.
  reflexivity.
Qed.

(* ---------- the state of the one task that is not at rest ---------- *)
Inductive knd := KP (p : cpayload) | KG | KB.
Definition isp (kd : knd) : Prop := match kd with KP _ => True | _ => False end.
Definition Qn (kd : knd) (Q : list cpayload) : list cpayload := match kd with KP p => Q ++ [p] | _ => Q end.
Definition kpn (kd : knd) (p : cpayload) : Prop := match kd with KP p' => p' = p | _ => True end.
Definition ppk_okn (kd : knd) (k : ppk) : Prop := match k with PKPut => isp kd | PKMon _ => kd = KB end.

Definition Stn (kd : knd) (pc : cpc) (q : qfun) (c : cfun) (u : ufun) (t : tstate) (Q : list cpayload) : Prop :=
  match pc with
  | PUlRead e ex k | PUlWrite e ex k =>
    Dn q c u t Q /\ match k with KAppend seg att => isp kd /\ seg = t_cur t /\ e = t_leader t | KTick => kd = KB end
  | PPutRpc dst seg => Dn q c u t Q /\ isp kd /\ seg = t_cur t /\ dst = t_leader t
  | PEnsure e seg att | PWlRead e seg att | PWlWrite e seg att | PKeyLock e seg att | PSpawn e seg att =>
    Dn q c u t Q /\ isp kd /\ seg = t_cur t /\ e = t_leader t
  | PRecord e seg => e = t_leader t /\ seg = t_cur t /\ isp kd /\ Dn q (upd2 c e seg (c e seg + 1)) u t (Qn kd Q)
  | PCount e seg => e = t_leader t /\ seg = t_cur t /\ isp kd /\ Dn q c u t (Qn kd Q)
  | PMetaRpc cm k | PPropose cm k =>
    (exists nl, cm = RolloverTopic tname nl (c (t_leader t) (t_cur t))) /\ Dn q c u t (Qn kd Q) /\ ppk_okn kd k
  | PWaitApplied idx k => Dn q c u t (Qn kd Q) /\ ppk_okn kd k
  | PGLock h => kd = KG /\ Dn q c u t Q
  | PGRpc h e cur | PGRead h e cur =>
    kd = KG /\ Dn q c u t Q /\ cur = t_cur t /\ 1 <= fst (u h) /\ e = sl t (fst (u h))
  | PGHw h e cur r =>
    kd = KG /\ cur = t_cur t /\ 1 <= fst (u h) /\
    match r with
    | Some a => exists Q', Q = a :: Q' /\ Dn q c (upd1 u h (fst (u h), snd (u h) + 1)) t Q'
    | None => Dn q c u t Q /\ q (sl t (fst (u h))) (fst (u h)) = []
    end
  | PLTick n | PMTick n => kd = KB /\ Dn q c u t Q
  | PMCount n seg => kd = KB /\ Dn q c u t Q /\ n = t_leader t /\ seg = t_cur t
  end.

Definition finn (kd : knd) (r : cres) (q : qfun) (c : cfun) (u : ufun) (t : tstate) (Q Q' : list cpayload) : Prop :=
  Dn q c u t Q' /\
  match kd, r with
  | KP p, CROk => Q' = Q ++ [p]
  | KP _, CRErr _ => Q' = Q
  | KG, CRVal a => Q = a :: Q'
  | KG, CREmpty => Q = [] /\ Q' = []
  | KG, CRErr _ => Q' = Q
  | _, _ => False
  end.

Definition outn (kd : knd) (out : outcome) (q : qfun) (c : cfun) (u : ufun) (t : tstate) (Q : list cpayload) : Prop :=
  match out with
  | OYield pc' _ subs | OBlocked subs pc' => quiet subs = true /\ Stn kd pc' q c u t Q
  | OFinish r subs => quiet subs = true /\ exists Q', finn kd r q c u t Q Q'
  end.

Lemma Stn_ext q q' c c' u u' kd pc t Q :
  (forall n s, q' n s = q n s) -> (forall n s, c' n s = c n s) -> (forall h, u' h = u h) ->
  Stn kd pc q c u t Q -> Stn kd pc q' c' u' t Q.
Proof.
  intros Eq Ec Eu.
  assert (DX : forall Q0, Dn q c u t Q0 -> Dn q' c' u' t Q0) by (intros Q0; now apply Dn_ext).
  destruct pc; cbn [Stn]; rewrite ?Eu, ?Ec, ?Eq; intuition auto.
  - eapply Dn_ext; [exact Eq| |exact Eu|eassumption]. intros n s. unfold upd2. now rewrite !Ec.
  - destruct r as [a|].
    + destruct H3 as (Q' & E & HD). exists Q'. split; [exact E|].
      eapply Dn_ext; [exact Eq|exact Ec| |exact HD]. intros h'. unfold upd1. now rewrite !Eu.
    + destruct H3 as [HD E]. split; [now apply DX|exact E].
Qed.

Lemma finn_ext q q' c c' u u' kd r t Q Q' :
  (forall n s, q' n s = q n s) -> (forall n s, c' n s = c n s) -> (forall h, u' h = u h) ->
  finn kd r q c u t Q Q' -> finn kd r q' c' u' t Q Q'.
Proof. intros Eq Ec Eu [H1 H2]. split; [now apply (Dn_ext q c u)|exact H2]. Qed.

Lemma outn_ext q q' c c' u u' kd out t Q :
  (forall n s, q' n s = q n s) -> (forall n s, c' n s = c n s) -> (forall h, u' h = u h) ->
  outn kd out q c u t Q -> outn kd out q' c' u' t Q.
Proof.
  intros Eq Ec Eu. destruct out; cbn [outn]; intros [H1 H2]; (split; [exact H1|]).
  - now apply (Stn_ext q q' c c' u u').
  - destruct H2 as [Q' H2]. exists Q'. now apply (finn_ext q q' c c' u u').
  - now apply (Stn_ext q q' c c' u u').
Qed.

(* ---------- the cursor loop of read_one_for_topic on node h ---------- *)
Lemma get_loop_n q c u t Q x h seg del x' o :
  topic_of (nd_meta x) = Some t -> Dn q c u t Q -> CVn q c t seg del ->
  get_loop x h seg del = (x', o) ->
  exists seg2 del2 b, x' = with_cursor x (Some (seg2, del2)) b /\ CVn q c t seg2 del2 /\ 1 <= seg2 /\
    ((o = OYield (PGRead h h (t_cur t)) SSB [] /\ h = sl t seg2)
     \/ o = OYield (PGRpc h (sl t seg2) (t_cur t)) SRPC []
     \/ o = OFinish (CRErr 3) []).
Proof.
  intros Ht Hd Hcv. unfold get_loop. rewrite Ht.
  destruct (CVn_first q c u t Q seg del Hd Hcv) as [Hcv1 Hs1].
  set (seg1 := if seg =? 0 then 1 else seg) in *.
  pose proof (skipn_ok q c u t Q Hd (S (N.to_nat (t_cur t - seg1))) seg1 del Hs1 Hcv1) as [Hcv2 Hs2].
  destruct (skip_sealed (S (N.to_nat (t_cur t - seg1))) t seg1 del) as [seg2 del2]. cbn [fst snd] in *.
  assert (El : (if seg2 =? t_cur t then t_leader t else seg_leader t seg2) = sl t seg2).
  { destruct (N.eqb_spec seg2 (t_cur t)) as [->|]; [|reflexivity]. symmetry. eapply sl_cur; eauto. }
  rewrite El. destruct (N.eqb_spec (sl t seg2) h) as [E|Hne].
  - intros X. inversion X; subst x' o. exists seg2, del2, true.
    split; [reflexivity|split; [exact Hcv2|split; [exact Hs2|left; split; [reflexivity|now symmetry]]]].
  - destruct (has_addr (nd_meta x) (sl t seg2)); intros X; inversion X; subst x' o.
    + exists seg2, del2, true. split; [reflexivity|split; [exact Hcv2|split; [exact Hs2|right; left; reflexivity]]].
    + exists seg2, del2, false. split; [reflexivity|split; [exact Hcv2|split; [exact Hs2|right; right; reflexivity]]].
Qed.

(* the state after a cursor move of node h *)
Lemma acc_cursor s h x seg del b :
  get_node s h = Some x ->
  let s1 := set_node s h (with_cursor x (Some (seg, del)) b) in
  (forall n sg, qo s1 n sg = qo s n sg) /\ (forall n sg, co s1 n sg = co s n sg) /\
  (forall h', cu s1 h' = upd1 (cu s) h (seg, del) h').
Proof.
  intros Hg. cbn zeta. repeat split; intros.
  - rewrite qo_set. destruct (N.eqb_spec n h) as [->|]; [|reflexivity]. unfold qo. now rewrite Hg.
  - rewrite co_set. destruct (N.eqb_spec n h) as [->|]; [|reflexivity]. unfold co. now rewrite Hg.
  - rewrite cu_set. unfold upd1. destruct (h' =? h); reflexivity.
Qed.

Lemma Dn_cursor_state s h x seg del b t Q :
  get_node s h = Some x -> Dn (qo s) (co s) (cu s) t Q -> CVn (qo s) (co s) t seg del ->
  let s1 := set_node s h (with_cursor x (Some (seg, del)) b) in Dn (qo s1) (co s1) (cu s1) t Q.
Proof.
  intros Hg HD Hcv. cbn zeta. destruct (acc_cursor s h x seg del b Hg) as (A1 & A2 & A3).
  eapply Dn_ext; [exact A1|exact A2|exact A3|]. now apply Dn_cursor.
Qed.

Lemma cu_node s h x : get_node s h = Some x -> cu s h = cur_of x.
Proof. intros H. unfold cu. now rewrite H. Qed.
Lemma qo_node s n x seg : get_node s n = Some x -> qo s n seg = queue_of x seg.
Proof. intros H. unfold qo. now rewrite H. Qed.
Lemma co_node s n x seg : get_node s n = Some x -> co s n seg = count_of x seg.
Proof. intros H. unfold co. now rewrite H. Qed.

(* the common tail of PGLock / PGHw: run the cursor loop from (seg, del) on node h *)
Lemma loop_step s h x seg del t Q x' o :
  get_node s h = Some x -> topic_of (nd_meta x) = Some t ->
  Dn (qo s) (co s) (cu s) t Q -> CVn (qo s) (co s) t seg del ->
  get_loop x h seg del = (x', o) ->
  let s1 := set_node s h x' in outn KG o (qo s1) (co s1) (cu s1) t Q.
Proof.
  intros Hg Ht HD Hcv G. cbn zeta.
  destruct (get_loop_n _ _ _ t Q x h seg del x' o Ht HD Hcv G) as (seg2 & del2 & b & -> & Hcv2 & Hs2 & Ho).
  pose proof (Dn_cursor_state s h x seg2 del2 b t Q Hg HD Hcv2) as HD1. cbn zeta in HD1.
  destruct (acc_cursor s h x seg2 del2 b Hg) as (A1 & A2 & A3). cbn zeta in *.
  assert (Hc : cu (set_node s h (with_cursor x (Some (seg2, del2)) b)) h = (seg2, del2)).
  { rewrite A3. unfold upd1. now rewrite N.eqb_refl. }
  destruct Ho as [[-> Eh]|[->| ->]]; cbn [outn Stn quiet forallb].
  - rewrite Hc. cbn [fst]. exact (conj eq_refl (conj eq_refl (conj HD1 (conj eq_refl (conj Hs2 Eh))))).
  - rewrite Hc. cbn [fst]. exact (conj eq_refl (conj eq_refl (conj HD1 (conj eq_refl (conj Hs2 eq_refl))))).
  - split; [reflexivity|]. exists Q. split; [exact HD1|reflexivity].
Qed.
