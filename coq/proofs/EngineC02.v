(* EngineC02.v — non-consuming reads.
   (c) every batch read (stateful or offset-addressed) returns sub-ranges of entries of the
       topic's stream, in stream order — purely structural, no invariant needed;
   (b) a peek returns what the immediately following consuming read with the same arguments
       returns. *)
From W Require Import model.Base model.Engine spec.Queue proofs.EngineBasic proofs.EngineWF proofs.EngineInv
  proofs.EngineBR proofs.EngineW proofs.EngineMain.
From Coq Require Import ZArith ZifyBool ZifyN ZifyNat.

(* ------------------------------------------------------------------ subsequences *)
Inductive sub {A} : list A -> list A -> Prop :=
| sub_nil l : sub [] l
| sub_take x l1 l2 : sub l1 l2 -> sub (x :: l1) (x :: l2)
| sub_skip x l1 l2 : sub l1 l2 -> sub l1 (x :: l2).

Lemma sub_refl {A} (l : list A) : sub l l.
Proof. induction l; constructor; auto. Qed.

Lemma sub_tail {A} (x : A) l1 l2 : sub (x :: l1) l2 -> sub l1 l2.
Proof.
  intros H. remember (x :: l1) as l eqn:E. revert x l1 E.
  induction H as [l|y l1' l2' H IH|y l1' l2' H IH]; intros x l1 E; [discriminate| |].
  - inversion E; subst. now apply sub_skip.
  - apply sub_skip. eapply IH; eauto.
Qed.

Lemma sub_app {A} (a1 a2 b1 b2 : list A) : sub a1 a2 -> sub b1 b2 -> sub (a1 ++ b1) (a2 ++ b2).
Proof.
  intros Ha Hb. induction Ha as [l|x l1 l2 H IH|x l1 l2 H IH]; cbn.
  - induction l; cbn; [exact Hb|now apply sub_skip].
  - now apply sub_take.
  - now apply sub_skip.
Qed.

Lemma sub_app_r {A} (a b : list A) : sub b (a ++ b).
Proof. induction a; cbn; [apply sub_refl|now apply sub_skip]. Qed.

Lemma sub_trans {A} (a b c : list A) : sub a b -> sub b c -> sub a c.
Proof.
  intros Hab Hbc. revert a Hab. induction Hbc as [l|x l1 l2 H IH|x l1 l2 H IH]; intros a Hab.
  - inversion Hab; subst. constructor.
  - inversion Hab; subst; [constructor|apply sub_take; auto|apply sub_skip; auto].
  - apply sub_skip. auto.
Qed.

Lemma sub_firstn {A} (l : list A) k : sub (firstn k l) l.
Proof. revert k; induction l; intros [|k]; cbn; try constructor; auto. Qed.

Lemma sub_skipn {A} (l : list A) k : sub (skipn k l) l.
Proof. revert k; induction l; intros [|k]; cbn; try constructor; auto using sub_refl. Qed.

Lemma sub_flat_map {A B} (f : A -> list B) l1 l2 : sub l1 l2 -> sub (flat_map f l1) (flat_map f l2).
Proof.
  induction 1 as [l|x l1 l2 H IH|x l1 l2 H IH]; cbn.
  - constructor.
  - apply sub_app; [apply sub_refl|exact IH].
  - eapply sub_trans; [exact IH|apply sub_app_r].
Qed.

Lemma ents_from_sub c : forall es off, sub (ents_from c es off) es.
Proof.
  induction es as [|e es IH]; intros off; cbn [ents_from]; [constructor|].
  destruct (off =? 0); [apply sub_refl|]. destruct (off <? need c e); [constructor|]. apply sub_skip, IH.
Qed.

(* ------------------------------------------------------------------ outs cover entries *)
Definition covers (o : out) (e : entry) : Prop := o_pid o = e_pid e /\ o_skip o + o_len o = e_len e.

(* greedy matching finds every in-order embedding *)
Lemma outs_subranges_sub : forall os L S,
  Forall2 covers os L -> sub L S -> outs_subranges S os = true.
Proof.
  induction os as [|o os IH]; intros L S HF Hs; [reflexivity|].
  inversion HF as [|o' e os' L' Hc HF']; subst. cbn [outs_subranges].
  induction S as [|x S IHS]; [inversion Hs|].
  cbn [find_entry_from].
  destruct ((((e_pid x =? o_pid o) && (o_skip o + o_len o <=? e_len x))
             || ((o_len o =? 0) && (o_skip o <=? e_len x) && (e_len x =? o_skip o)))) eqn:Ex.
  - apply (IH L' S HF'). inversion Hs; subst; [assumption|eapply sub_tail; eauto].
  - inversion Hs; subst.
    + exfalso. destruct Hc as (Hp & Hl). rewrite Hp, N.eqb_refl in Ex. cbn in Ex.
      assert (o_skip o + o_len o <=? e_len x = true) by lia. rewrite H in Ex. discriminate.
    + apply IHS. assumption.
Qed.

(* ------------------------------------------------------------------ what the parser emits *)
Lemma parse_range_outs c maxb pi : forall es pos p,
  exists outs j, ps_outs (parse_range c maxb pi es pos p) = rev outs ++ ps_outs p /\
                 Forall2 covers outs (firstn j es).
Proof.
  induction es as [|e es IH]; intros pos p; cbn [parse_range].
  - exists [], 0%nat. split; [reflexivity|constructor].
  - destruct (c_max_entries c <=? ps_n p); [exists [], 0%nat; split; [reflexivity|constructor]|].
    destruct (pi_end pi <? pos + c_hdr c); [exists [], 0%nat; split; [reflexivity|constructor]|].
    destruct (pi_end pi <? pos + need c e); [exists [], 0%nat; split; [reflexivity|constructor]|].
    destruct ((maxb <? N.min usize_max (ps_total p + e_len e)) && negb (ps_n p =? 0));
      [exists [], 0%nat; split; [reflexivity|constructor]|].
    match goal with |- context [parse_range c maxb pi es ?np ?p1] => destruct (IH np p1) as (outs & j & Ho & HF) end.
    cbn [ps_outs] in Ho.
    eexists (_ :: outs), (S j). split.
    + rewrite Ho. cbn [rev]. rewrite <- app_assoc. reflexivity.
    + cbn [firstn]. constructor; [|exact HF]. unfold covers; cbn. split; [reflexivity|lia].
Qed.

Definition item_src (c : Cfg) (it : plan_item) : list entry := ents_from c (b_ents (pi_blk it)) (pi_start it).

Lemma parse_plan_outs c maxb : forall plan p,
  exists outs L, ps_outs (parse_plan c maxb plan p) = rev outs ++ ps_outs p /\
                 Forall2 covers outs L /\ sub L (flat_map (item_src c) plan).
Proof.
  induction plan as [|it plan IH]; intros p; cbn [parse_plan].
  - exists [], []. repeat split; constructor.
  - destruct ((c_max_entries c <=? ps_n p) || ps_stop p); [exists [], []; repeat split; constructor|].
    destruct (parse_range_outs c maxb it (ents_from c (b_ents (pi_blk it)) (pi_start it)) (pi_start it) p) as (o1 & j & Ho1 & HF1).
    destruct (IH (parse_range c maxb it (ents_from c (b_ents (pi_blk it)) (pi_start it)) (pi_start it) p)) as (o2 & L2 & Ho2 & HF2 & Hs2).
    exists (o1 ++ o2), (firstn j (item_src c it) ++ L2). split; [|split].
    + rewrite Ho2, Ho1, rev_app_distr, <- app_assoc. reflexivity.
    + apply Forall2_app; assumption.
    + cbn [flat_map]. apply sub_app; [apply sub_firstn|exact Hs2].
Qed.

(* the planner walks the chain forwards: its items name blocks of [rest] in order *)
Lemma plan_sealed_blocks c maxb stateless : forall rest idx off hint planned acc,
  let '(acc', _, _, _) := plan_sealed c maxb stateless rest idx off hint planned acc in
  exists items, acc' = rev items ++ acc /\ Forall (fun it => pi_tail it = false) items /\ sub (map pi_blk items) rest.
Proof.
  induction rest as [|b rest IH]; intros idx off hint planned acc; cbn [plan_sealed].
  - exists []. repeat split; constructor.
  - destruct (negb ((planned <? maxb) || match acc with [] => true | _ => false end)).
    { exists []. repeat split; constructor. }
    destruct (b_used b <=? off).
    { specialize (IH (S idx) 0 0 planned acc). destruct (plan_sealed _ _ _ rest _ _ _ _ _) as [[[a ?] ?] ?].
      destruct IH as (items & -> & Ht & Hs). exists items. repeat split; auto. now apply sub_skip. }
    set (want := match acc with
                 | [] => if stateless && (off <? hint) then N.max (maxb - planned) (hint - off)
                         else match peek_want c b off with Some req => N.max (maxb - planned) req | None => maxb - planned end
                 | _ :: _ => maxb - planned end).
    set (e := N.min (b_used b) (N.min u64_max (off + want))).
    destruct (e <? b_used b).
    + destruct (off <? e).
      * eexists [_]. cbn. repeat split; [repeat constructor|]. apply sub_take. constructor.
      * exists []. repeat split; constructor.
    + match goal with |- context [plan_sealed c maxb stateless rest ?i ?o ?h ?pl ?ac] => specialize (IH i o h pl ac) end.
      destruct (plan_sealed _ _ _ rest _ _ _ _ _) as [[[a ?] ?] ?].
      destruct IH as (items & -> & Ht & Hs).
      destruct (off <? e).
      * eexists (_ :: items). cbn [rev map pi_blk]. rewrite <- app_assoc. cbn. repeat split; [constructor; auto|]. now apply sub_take.
      * exists items. repeat split; auto. now apply sub_skip.
Qed.

(* ------------------------------------------------------------------ (c): outs are sub-ranges of the stream *)
Lemma flat_map_item_src_sub c : forall items, sub (flat_map (item_src c) items) (flat_map b_ents (map pi_blk items)).
Proof.
  induction items as [|it items IH]; cbn; [constructor|]. apply sub_app; [apply ents_from_sub|exact IH].
Qed.

Lemma flat_map_map {A B C} (f : B -> list C) (g : A -> B) l : flat_map f (map g l) = flat_map (fun x => f (g x)) l.
Proof. induction l; cbn; [reflexivity|now rewrite IHl]. Qed.

Lemma br_from_subranges c m s t maxb ck ts r1 chain idx0 off0 tb tof trim0 hint0 stl s' os :
  br_from c m s t maxb ck ts (r1, chain, idx0, off0, tb, tof, trim0, hint0, stl) = (s', REntries os) ->
  outs_subranges (chain_ents chain ++ w_ents ts) os = true.
Proof.
  unfold br_from. cbn zeta.
  pose proof (plan_sealed_blocks c maxb stl (skipn idx0 chain) idx0 off0 hint0 0 []) as Hpl.
  destruct (plan_sealed _ _ _ _ _ _ _ _ _) as [[[racc planned] idx_after] truncated].
  destruct Hpl as (items & Hacc & Htl & Hsub). rewrite app_nil_r in Hacc. subst racc.
  (* all plan items, in order, name blocks of chain ++ [writer] *)
  assert (Hall : forall racc2,
            (racc2 = rev items \/
             exists w ts0, (if ts_poisoned ts then None else ts_writer ts) = Some w /\
                           racc2 = {| pi_blk := w; pi_start := ts0; pi_end := b_used w; pi_tail := true; pi_idx := 0 |} :: rev items) ->
            sub (flat_map (item_src c) (rev racc2)) (chain_ents chain ++ w_ents ts)).
  { intros racc2 [->|(w & ts0 & Hw & ->)].
    - rewrite rev_involutive. eapply sub_trans; [apply flat_map_item_src_sub|].
      eapply sub_trans; [apply sub_flat_map; eapply sub_trans; [exact Hsub|apply sub_skipn]|].
      unfold chain_ents. rewrite <- (app_nil_r (flat_map b_ents chain)) at 1. apply sub_app; [apply sub_refl|constructor].
    - cbn [rev]. rewrite rev_involutive, flat_map_app. apply sub_app.
      + eapply sub_trans; [apply flat_map_item_src_sub|].
        apply sub_flat_map. eapply sub_trans; [exact Hsub|apply sub_skipn].
      + cbn [flat_map item_src pi_blk pi_start]. rewrite app_nil_r. unfold w_ents.
        destruct (ts_poisoned ts); [discriminate|]. rewrite Hw. apply ents_from_sub. }
  match goal with |- context [let '(_, _) := ?X in _] => assert (Hx : exists racc2 trim1, X = (racc2, trim1) /\
      (racc2 = rev items \/ exists w ts0, (if ts_poisoned ts then None else ts_writer ts) = Some w /\
          racc2 = {| pi_blk := w; pi_start := ts0; pi_end := b_used w; pi_tail := true; pi_idx := 0 |} :: rev items)) end.
  { destruct (negb truncated && (length chain <=? idx_after)%nat); [|eexists; eexists; split; [reflexivity|now left]].
    destruct (if ts_poisoned ts then None else ts_writer ts) as [w|] eqn:Ew; [|eexists; eexists; split; [reflexivity|now left]].
    match goal with |- context [let '(_, _) := ?Y in _] => destruct Y as [tstart trim] end.
    destruct (tstart <? b_used w); eexists; eexists; (split; [reflexivity|]); [right; eauto|now left]. }
  destruct Hx as (racc2 & trim1 & -> & Hcase).
  specialize (Hall racc2 Hcase).
  destruct racc2 as [|it0 racc2'] eqn:Er.
  - intros H. inversion H; subst. reflexivity.
  - intros H. inversion H; subst. clear H.
    match goal with |- context [parse_plan c maxb ?pl ?p0] => destruct (parse_plan_outs c maxb pl p0) as (outs & L & Ho & HF & Hs) end.
    rewrite Ho. cbn [ps_outs]. rewrite app_nil_r, rev_involutive.
    eapply outs_subranges_sub; [exact HF|]. eapply sub_trans; [exact Hs|exact Hall].
Qed.

Theorem batch_read_subranges c m s t maxb ck start s' os :
  batch_read c m s t maxb ck start = (s', REntries os) ->
  outs_subranges (stream (get_ts s (t_id t))) os = true.
Proof.
  unfold batch_read. set (ts := get_ts s (t_id t)).
  destruct (br_position c ts start) as [[[[[[[[r1 chain] idx0] off0] tb] tof] trim0] hint0] stl] eqn:Ep.
  intros H. apply br_from_subranges in H.
  assert (Hch : chain = chain_of ts \/ (r_chain (reader_of ts) = chain)).
  { right. unfold br_position in Ep. destruct start as [st0|].
    - assert (Hrc : r_chain (reader_of ts) = match ts_reader ts with Some r => r_chain r | None => [] end)
        by (unfold reader_of; destruct (ts_reader ts); reflexivity).
      rewrite Hrc. clear Hrc. revert Ep. generalize (match ts_reader ts with Some r => r_chain r | None => [] end). intros ch Ep.
      destruct (off_locate ch 0 st0) as [[[i b]|] rem].
      + destruct (off_scan c (b_ents b) 0 (b_used b) rem) as [[[[co hint] trim]|] fl]; [|destruct fl]; inversion Ep; reflexivity.
      + inversion Ep; reflexivity.
    - unfold hydrate in Ep. destruct (r_hydrated (reader_of ts)).
      + inversion Ep; reflexivity.
      + destruct (ts_index ts) as [p|]; [|inversion Ep; reflexivity].
        destruct (p_tail p).
        * cbn in Ep. destruct (find_id _ _ _); inversion Ep; reflexivity.
        * inversion Ep; reflexivity. }
  unfold stream, chain_of. destruct Hch as [->|<-]; exact H.
Qed.

(* ------------------------------------------------------------------ (b): peek, then consume *)
Lemma result_eqb_refl r : match r with RNone | REntry _ | REntries _ => result_eqb r r = true | _ => True end.
Proof.
  destruct r as [| | | |o|os|]; cbn; auto.
  - rewrite !N.eqb_refl. reflexivity.
  - rewrite Nat.eqb_refl. cbn. induction os as [|o os IH]; cbn; [reflexivity|]. rewrite !N.eqb_refl. cbn. exact IH.
Qed.

Lemma hydrate_hydrated r idx b : r_hydrated (fst (hydrate r idx b)) = true.
Proof.
  unfold hydrate. destruct (r_hydrated r) eqn:E; [exact E|].
  destruct idx as [p|]; [|reflexivity]. destruct (p_tail p); [destruct b|]; reflexivity.
Qed.

Lemma with_reader_twice ts r : with_reader (with_reader ts r) r = with_reader ts r.
Proof. reflexivity. Qed.

(* the position computed by a stateful batch read is a fixed point: computing it again
   from the state the peek left behind gives the same position *)
Lemma br_position_idem c ts r1 chain idx0 off0 tb tof trim0 hint0 stl :
  br_position c ts None = (Some r1, chain, idx0, off0, tb, tof, trim0, hint0, stl) ->
  br_position c (with_reader ts r1) None = (Some r1, chain, idx0, off0, tb, tof, trim0, hint0, stl).
Proof.
  unfold br_position. intros H.
  pose proof (hydrate_hydrated (reader_of ts) (ts_index ts) true) as Hh.
  destruct (hydrate (reader_of ts) (ts_index ts) true) as [r pt]. cbn [fst] in Hh.
  assert (Hr1 : r_hydrated r1 = true).
  { destruct pt as [[id off]|]; [destruct (find_id (r_chain r) id 0)|]; inversion H; subst; cbn; exact Hh. }
  cbn [reader_of with_reader ts_reader ts_index]. unfold hydrate. rewrite Hr1.
  destruct pt as [[id off]|]; [destruct (find_id (r_chain r) id 0)|]; inversion H; subst; reflexivity.
Qed.

Lemma br_position_some c ts : exists r1 chain idx0 off0 tb tof,
  br_position c ts None = (Some r1, chain, idx0, off0, tb, tof, 0, 0, false).
Proof.
  unfold br_position. destruct (hydrate _ _ _) as [r pt].
  destruct pt as [[id off]|]; [destruct (find_id _ _ _)|]; repeat eexists.
Qed.

Theorem batch_peek_then_consume c m s t maxb :
  let '(s1, r1) := batch_read c m s t maxb false None in
  let '(s2, r2) := batch_read c m s1 t maxb true None in
  r1 = r2.
Proof.
  unfold batch_read. set (ts := get_ts s (t_id t)).
  destruct (br_position_some c ts) as (r1 & chain & idx0 & off0 & tb & tof & Ep). rewrite Ep.
  pose proof (br_position_idem c ts _ _ _ _ _ _ _ _ _ Ep) as Ep2.
  (* the peek stores back exactly the hydrated reader *)
  assert (Hpeek : exists res, br_from c m s t maxb false ts (Some r1, chain, idx0, off0, tb, tof, 0, 0, false)
                              = (set_ts s (t_id t) (with_reader ts r1), res) /\
                 forall s0, snd (br_from c m s0 t maxb true (with_reader ts r1) (Some r1, chain, idx0, off0, tb, tof, 0, 0, false)) = res).
  { unfold br_from. cbn zeta. cbn [with_reader ts_poisoned ts_writer].
    destruct (plan_sealed _ _ _ _ _ _ _ _ _) as [[[racc planned] idx_after] truncated].
    match goal with |- context [let '(_, _) := ?X in _] => destruct X as [racc2 trim1] end.
    destruct racc2 as [|it racc2]; [eexists; split; [reflexivity|intros; reflexivity]|].
    rewrite !andb_false_r. cbn [andb]. eexists; split; [reflexivity|]. intros s0. reflexivity. }
  destruct Hpeek as (res & Hp1 & Hp2). rewrite Hp1.
  rewrite get_set_same, Ep2.
  specialize (Hp2 (set_ts s (t_id t) (with_reader ts r1))).
  destruct (br_from c m (set_ts s (t_id t) (with_reader ts r1)) t maxb true (with_reader ts r1) _) as [s2 r2].
  cbn [snd] in Hp2. now subst.
Qed.

(* ------------------------------------------------------------------ along every admissible history *)
Lemma read_next_tid c m s t t' ck : t_id t = t_id t' -> read_next c m s t ck = read_next c m s t' ck.
Proof. intros H. unfold read_next. rewrite H. reflexivity. Qed.
Lemma batch_read_tid c m s t t' maxb ck st0 : t_id t = t_id t' -> batch_read c m s t maxb ck st0 = batch_read c m s t' maxb ck st0.
Proof. intros H. unfold batch_read, br_from. rewrite H. reflexivity. Qed.

Lemma same_read_args_inv o1 o2 : same_read_args o1 o2 = true ->
  (exists t t', o1 = ORead t false /\ o2 = ORead t' true /\ t_id t' = t_id t) \/
  (exists t t' mb, o1 = OBatchRead t mb false None /\ o2 = OBatchRead t' mb true None /\ t_id t' = t_id t).
Proof.
  destruct o1, o2; cbn [same_read_args]; intros H; try discriminate;
    repeat match goal with b : bool |- _ => destruct b | o : option N |- _ => destruct o end; try discriminate.
  - left. eexists; eexists. repeat split. lia.
  - right. apply andb_prop in H. destruct H as [H1 H2]. apply N.eqb_eq in H2. subst. eexists; eexists; eexists. repeat split. lia.
Qed.

Lemma pair_ok c m be s g B Bb o1 o2 : cfg_ok c -> Rel c s g B Bb -> same_read_args o1 o2 = true ->
  let '(s1, r1) := step (env_of c m be) s o1 in
  let '(s2, r2) := step (env_of c m be) s1 o2 in
  result_eqb r1 r2 = true.
Proof.
  intros Hc (Hg & _) Hsame.
  destruct (same_read_args_inv _ _ Hsame) as [(t & t' & -> & -> & Ht)|(t & t' & maxb & -> & -> & Ht)].
  - (* read_next *)
    cbn [step env_of v_cfg v_mode].
    destruct Hg as (Hn & Hti).
    destruct (read_next_spec c m s t false (a_next (s_alloc s)) Hc (Hti (t_id t))) as (ts1 & res1 & Hr1 & Hinv1 & _ & _ & Hcase1).
    rewrite Hr1.
    rewrite (read_next_tid c m _ t' t true Ht).
    assert (Hinv1' : TInv c (a_next (s_alloc s)) (get_ts (set_ts s (t_id t) ts1) (t_id t))) by (now rewrite get_set_same).
    destruct (read_next_spec c m (set_ts s (t_id t) ts1) t true (a_next (s_alloc s)) Hc Hinv1') as (ts2 & res2 & Hr2 & _ & _ & _ & Hcase2).
    rewrite Hr2. rewrite get_set_same in Hcase2.
    destruct (unread c (get_ts s (t_id t))) as [|e rest].
    + destruct Hcase1 as (-> & Hu). rewrite Hu in Hcase2. destruct Hcase2 as (-> & _). reflexivity.
    + destruct Hcase1 as (-> & Hu). rewrite Hu in Hcase2. destruct Hcase2 as (-> & _). apply (result_eqb_refl (REntry (out_of e))).
  - (* batch read *)
    cbn [step env_of v_cfg v_mode].
    pose proof (batch_peek_then_consume c m s t maxb) as Hp.
    destruct (batch_read c m s t maxb false None) as [s1 r1] eqn:E1.
    rewrite (batch_read_tid c m s1 t' t maxb true None Ht).
    destruct (batch_read c m s1 t maxb true None) as [s2 r2]. subst r2.
    (* the result of a stateful batch read is always a list of entries *)
    destruct Hg as (Hn & Hti).
    destruct (batch_read_spec c m s t maxb false (a_next (s_alloc s)) Hc (Hti (t_id t))) as (ts' & k & Hr & _).
    rewrite Hr in E1. inversion E1; subst. apply (result_eqb_refl (REntries _)).
Qed.

Theorem c02_along_histories c m be : cfg_ok c -> forall ops s g B Bb,
  Rel c s g B Bb -> Forall (op_ok c) ops ->
  B + N.of_nat (length (offered_all ops)) <= u64_max -> Bb + sum_len (offered_all ops) <= u64_max ->
  c02c_ok_from g (trace (env_of c m be) s ops) = true /\ c02b_ok (trace (env_of c m be) s ops) = true.
Proof.
  intros Hc. induction ops as [|o r IH]; intros s g B Bb Hrel Hok HB HBb; [cbn; auto|].
  inversion Hok as [|x l Ho Hr]; subst.
  cbn [offered_all] in HB, HBb. rewrite app_length, Nat2N.inj_add in HB. rewrite sum_len_app in HBb.
  pose proof (step_ok c m be s g B Bb o Hc Hrel Ho ltac:(lia) ltac:(lia)) as Hstep.
  assert (Hc1 : let '(s', res) := step (env_of c m be) s o in c02c_step_ok g o res = true).
  { destruct o as [t e | t es | t ck | t maxb ck start | t | ]; cbn [step env_of v_cfg v_mode v_backend];
      try (destruct (append _ _ _ _)); try (destruct (batch _ _ _ _ _)); try (destruct (read_next _ _ _ _ _)); try reflexivity.
    - destruct start as [st0|].
      + destruct (batch_read_stateless c m s t maxb ck st0) as (os & Hr0). rewrite Hr0. cbn [c02c_step_ok].
        destruct Hrel as (_ & Hall). destruct (Hall (t_id t)) as (_ & Hs & _). rewrite <- Hs.
        eapply batch_read_subranges. exact Hr0.
      + destruct (batch_read _ _ _ _ _ _ _) as [? [| | | | | |]]; reflexivity. }
  assert (Hpair : forall o2, In o2 (firstn 1 r) ->
            let '(s1, r1) := step (env_of c m be) s o in
            let '(s2, r2) := step (env_of c m be) s1 o2 in
            (if same_read_args o o2 then result_eqb r1 r2 else true) = true).
  { intros o2 _. destruct (same_read_args o o2) eqn:Es.
    - apply (pair_ok c m be s g B Bb o o2 Hc Hrel Es).
    - destruct (step _ s o) as [s1 r1]. destruct (step _ s1 o2); reflexivity. }
  cbn [trace]. destruct (step (env_of c m be) s o) as [s' res] eqn:Est.
  destruct Hstep as (_ & _ & _ & Hrel').
  destruct (IH s' _ _ _ Hrel' Hr ltac:(lia) ltac:(lia)) as (I1 & I2).
  cbn [c02c_ok_from]. rewrite Hc1, I1. split; [reflexivity|].
  destruct r as [|o2 r2]; [reflexivity|].
  specialize (Hpair o2 (or_introl eq_refl)).
  cbn [trace] in *. destruct (step (env_of c m be) s' o2) as [s2 res2].
  cbn [c02b_ok]. cbn [c02b_ok] in I2. rewrite Hpair. exact I2.
Qed.

Corollary c02_from_init c m be ops : cfg_ok c -> Forall (op_ok c) ops ->
  N.of_nat (length (offered_all ops)) <= u64_max -> sum_len (offered_all ops) <= u64_max ->
  c02c_ok (trace (env_of c m be) init ops) = true /\ c02b_ok (trace (env_of c m be) init ops) = true.
Proof. intros Hc Hok HB HBb. unfold c02c_ok. apply (c02_along_histories c m be Hc ops init [] 0 0 (Rel_init c) Hok); lia. Qed.
