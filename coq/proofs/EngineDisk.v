(* EngineDisk.v — the on-disk image kept by model/Engine.v ([s_disk]) always reflects the
   topics' streams: for every reachable state, the entries the image holds for a topic, in
   allocation (= file/offset) order, are exactly that topic's stream, and the image is
   well-formed in the sense of EngineRec.v.  Consequence (with the recovery theorem): a
   restart after ANY restart-free history rebuilds every topic's stream exactly. *)
From W Require Import model.Base model.Engine proofs.EngineWF proofs.EngineInv proofs.EngineW proofs.EngineRec.
From Coq Require Import ZArith ZifyBool ZifyN ZifyNat.

Definition dkey (x : dblk) : N * N := (d_file x, d_off x).
Definition bkey (b : blk) : N * N := (b_file b, b_off b).

(* what block [x] contributes to topic [t] *)
Definition contrib (t : N) (x : dblk) : list entry :=
  match d_topic x with Some t0 => if t_id t0 =? t then d_ents x else [] | None => [] end.

Lemma ents_of_topic_flat t D : ents_of_topic t D = flat_map (contrib t) D.
Proof. reflexivity. Qed.

Definition owner_ok (t : N) (x : dblk) : Prop :=
  match d_topic x with None => d_ents x = [] | Some t0 => t_id t0 = t end.

(* the writer block [w] of topic [t] has its image in [D], nothing of [t] lies behind it *)
Definition wslot (c : Cfg) (t : N) (w : blk) (D : list dblk) : Prop :=
  exists pre x post, D = pre ++ x :: post /\ dkey x = bkey w /\ d_ents x = b_ents w /\ d_limit x = b_limit w /\
    owner_ok t x /\ Forall (fun y => contrib t y = []) post /\ (b_ents w = [] -> b_limit w = c_block c).

Definition AInv (c : Cfg) (D : list dblk) (al : alloc) (nf : N) : Prop :=
  a_file al < nf /\
  Forall (fun x => d_file x <= a_file al /\ (d_file x = a_file al -> d_off x + d_limit x <= a_off al) /\ 0 < d_limit x) D.

Fixpoint fsorted (D : list dblk) : Prop :=
  match D with
  | [] => True
  | x :: r => Forall (fun y => d_file x <= d_file y) r /\ fsorted r
  end.

Record DI (c : Cfg) (D : list dblk) (al : alloc) (nf : N) (wr : N -> option blk) (sm : N -> list entry) : Prop := {
  di_nodup : NoDup (map dkey D);
  di_ents : forall t, ents_of_topic t D = sm t;
  di_slot : forall t w, wr t = Some w -> wslot c t w D;
  di_wf : Forall (dwf c) D;
  di_alloc : AInv c D al nf;
  di_sorted : fsorted D;
  di_keys : forall t t' w w', t <> t' -> wr t = Some w -> wr t' = Some w' -> bkey w <> bkey w'
}.

Definition upd {A} (f : N -> A) (t : N) (v : A) : N -> A := fun t' => if t' =? t then v else f t'.
Lemma upd_same {A} (f : N -> A) t v : upd f t v t = v. Proof. unfold upd. now rewrite N.eqb_refl. Qed.
Lemma upd_other {A} (f : N -> A) t v t' : t' <> t -> upd f t v t' = f t'.
Proof. intros H. unfold upd. replace (t' =? t) with false by lia. reflexivity. Qed.

(* ------------------------------------------------------------------ list facts *)
Lemma fsorted_app_one D z : fsorted D -> Forall (fun x => d_file x <= d_file z) D -> fsorted (D ++ [z]).
Proof.
  induction D as [|x D IH]; intros Hs Hf; cbn [app fsorted]; [split; [constructor|exact I]|].
  destruct Hs as (H1 & H2). inversion Hf; subst. split.
  - apply Forall_app. split; [exact H1|]. constructor; [assumption|constructor].
  - now apply IH.
Qed.

Lemma fsorted_replace pre x x' post : d_file x' = d_file x -> fsorted (pre ++ x :: post) -> fsorted (pre ++ x' :: post).
Proof.
  intros Hf. induction pre as [|p pre IH]; cbn [app fsorted].
  - intros (H1 & H2). rewrite Hf. split; assumption.
  - intros (H1 & H2). split; [|now apply IH].
    apply Forall_app in H1. destruct H1 as (A & B). inversion B; subst.
    apply Forall_app. split; [exact A|]. constructor; [now rewrite Hf|assumption].
Qed.

Lemma flat_map_quiet {A B} (f : A -> list B) l : Forall (fun y => f y = []) l -> flat_map f l = [].
Proof. induction 1 as [|y l Hy _ IH]; cbn; [reflexivity|]. now rewrite Hy, IH. Qed.

(* ------------------------------------------------------------------ allocation of a fresh block *)
Definition zblk (f o lim : N) : dblk := {| d_file := f; d_off := o; d_limit := lim; d_topic := None; d_ents := [] |}.

Lemma contrib_zblk t f o lim : contrib t (zblk f o lim) = [].
Proof. reflexivity. Qed.

Lemma wslot_app_z c t w D z : contrib t z = [] -> wslot c t w D -> wslot c t w (D ++ [z]).
Proof.
  intros Hz (pre & x & post & -> & K & E & L & O & Q & Z).
  exists pre, x, (post ++ [z]). rewrite <- app_assoc. cbn [app]. repeat split; auto.
  apply Forall_app. split; [exact Q|]. constructor; [exact Hz|constructor].
Qed.

(* a fresh zero block [z] at the end of the image becomes topic [t]'s writer block [nb] *)
Lemma DI_new_block c D al nf wr sm t nb f o lim al' nf' :
  DI c D al nf wr sm ->
  ~ In (f, o) (map dkey D) -> Forall (fun x => d_file x <= f) D ->
  AInv c (D ++ [zblk f o lim]) al' nf' ->
  bkey nb = (f, o) -> b_ents nb = [] -> b_limit nb = lim -> lim = c_block c ->
  DI c (D ++ [zblk f o lim]) al' nf' (upd wr t (Some nb)) sm.
Proof.
  intros [Hnd He Hsl Hwf Hal Hso Hk] Hfresh Hfiles Hal' Kb Eb Lb Hlim.
  constructor.
  - rewrite map_app. cbn [map]. apply NoDup_snoc; [exact Hnd|exact Hfresh].
  - intros t0. rewrite ents_of_topic_app, He. cbn. now rewrite app_nil_r.
  - intros t0 w Hw. destruct (N.eq_dec t0 t) as [->|Hne].
    + rewrite upd_same in Hw. inversion Hw; subst w.
      exists D, (zblk f o lim), []. repeat split; auto; try (cbn; congruence); try (intros _; congruence).
    + rewrite upd_other in Hw by exact Hne. apply wslot_app_z; [reflexivity|]. now apply Hsl.
  - apply Forall_app. split; [exact Hwf|]. constructor; [exact I|constructor].
  - exact Hal'.
  - now apply fsorted_app_one.
  - intros t1 t2 w1 w2 Hne H1 H2.
    destruct (N.eq_dec t1 t) as [->|N1]; destruct (N.eq_dec t2 t) as [->|N2]; try congruence.
    + rewrite upd_same in H1. rewrite upd_other in H2 by exact N2. inversion H1; subst w1.
      destruct (Hsl t2 w2 H2) as (pre & x & post & -> & K & _). rewrite Kb. intros Heq.
      apply Hfresh. rewrite Heq, <- K. rewrite map_app. apply in_or_app. right. now left.
    + rewrite upd_other in H1 by exact N1. rewrite upd_same in H2. inversion H2; subst w2.
      destruct (Hsl t1 w1 H1) as (pre & x & post & -> & K & _). rewrite Kb. intros Heq.
      apply Hfresh. rewrite <- Heq, <- K. rewrite map_app. apply in_or_app. right. now left.
    + rewrite upd_other in H1 by exact N1. rewrite upd_other in H2 by exact N2. exact (Hk t1 t2 w1 w2 Hne H1 H2).
Qed.

(* ------------------------------------------------------------------ writing into the writer block *)
Definition wr_blk (x : dblk) (t : topic) (es : list entry) : dblk :=
  {| d_file := d_file x; d_off := d_off x; d_limit := d_limit x;
     d_topic := match d_topic x with Some t0 => Some t0 | None => Some t end;
     d_ents := d_ents x ++ es |}.

Lemma disk_write_at : forall l1 x l2 f o t es,
  NoDup (map dkey (l1 ++ x :: l2)) -> dkey x = (f, o) ->
  disk_write (l1 ++ x :: l2) f o t es = l1 ++ wr_blk x t es :: l2.
Proof.
  induction l1 as [|y l1 IH]; intros x l2 f o t es Hnd Hk; cbn [app disk_write].
  - unfold dkey in Hk. inversion Hk; subst. rewrite !N.eqb_refl. reflexivity.
  - cbn [app map] in Hnd. inversion Hnd as [|k ks Hnin Hnd']; subst.
    destruct ((d_file y =? f) && (d_off y =? o)) eqn:E.
    + exfalso. apply Hnin. rewrite map_app. apply in_or_app. right. left.
      unfold dkey in *. rewrite Hk. f_equal; lia.
    + f_equal. now apply IH.
Qed.

Lemma contrib_wr_same x t es : owner_ok (t_id t) x -> contrib (t_id t) (wr_blk x t es) = contrib (t_id t) x ++ es.
Proof.
  unfold owner_ok, contrib, wr_blk. cbn. destruct (d_topic x) as [t0|].
  - intros ->. now rewrite N.eqb_refl.
  - intros ->. now rewrite N.eqb_refl.
Qed.

Lemma contrib_wr_other x t es t' : t' <> t_id t -> owner_ok (t_id t) x -> contrib t' (wr_blk x t es) = [] /\ contrib t' x = [].
Proof.
  intros Hne. unfold owner_ok, contrib, wr_blk. cbn. destruct (d_topic x) as [t0|].
  - intros Ht0. replace (t_id t0 =? t') with false by lia. auto.
  - intros _. replace (t_id t =? t') with false by lia. auto.
Qed.

Lemma in_map_key_split D k : In k (map dkey D) -> exists pre x post, D = pre ++ x :: post /\ dkey x = k.
Proof.
  intros H. apply in_map_iff in H. destruct H as (x & Hk & Hin). apply in_split in Hin. destruct Hin as (pre & post & ->).
  exists pre, x, post. auto.
Qed.

(* uniqueness of a key in a duplicate-free image: two decompositions at the same key coincide *)
Lemma split_unique D pre x post pre' x' post' :
  NoDup (map dkey D) -> D = pre ++ x :: post -> D = pre' ++ x' :: post' -> dkey x = dkey x' ->
  pre = pre' /\ x = x' /\ post = post'.
Proof.
  revert pre pre'. induction D as [|d D IH]; intros pre pre' Hnd H1 H2 Hk.
  - destruct pre; discriminate.
  - cbn [map] in Hnd. inversion Hnd as [|k ks Hnin Hnd']; subst.
    destruct pre as [|p pre], pre' as [|p' pre']; cbn [app] in *.
    + inversion H1; inversion H2; subst. auto.
    + inversion H1; inversion H2; subst. exfalso. apply Hnin. rewrite Hk. rewrite map_app. apply in_or_app. right. now left.
    + inversion H1; inversion H2; subst. exfalso. apply Hnin. rewrite <- Hk. rewrite map_app. apply in_or_app. right. now left.
    + injection H1 as Ep E1. injection H2 as Ep' E2. subst p p'.
      destruct (IH pre pre' Hnd' E1 E2 Hk) as (A & B & C). subst. auto.
Qed.

Lemma extent_small c e : 0 < c_block c -> need c e <= c_block c -> extent_of c e = c_block c.
Proof. intros Hb H. unfold extent_of. replace (c_block c <? need c e) with false by lia. reflexivity. Qed.

Lemma DI_write c D al nf wr sm t w e :
  0 < c_hdr c -> 0 < c_block c ->
  DI c D al nf wr sm -> wr (t_id t) = Some w ->
  b_used w = sum_need c (b_ents w) -> b_used w + need c e <= b_limit w ->
  exists pre x post, D = pre ++ x :: post /\ dkey x = bkey w /\
    DI c (pre ++ wr_blk x t [e] :: post) al nf (upd wr (t_id t) (Some (blk_add w c [e]))) (upd sm (t_id t) (sm (t_id t) ++ [e])).
Proof.
  intros Hh Hb [Hnd He Hsl Hwf Hal Hso Hk] Hw Hu Hfit.
  destruct (Hsl _ _ Hw) as (pre & x & post & HD & K & E & L & O & Q & Z).
  exists pre, x, post. split; [exact HD|]. split; [exact K|]. subst D.
  constructor.
  - rewrite map_app in *. cbn [map] in *. exact Hnd.
  - intros t0. specialize (He t0). rewrite ents_of_topic_app in *. cbn [ents_of_topic flat_map] in *. fold (contrib t0 x) in He. fold (contrib t0 (wr_blk x t [e])).
    fold (ents_of_topic t0 post) in *.
    destruct (N.eq_dec t0 (t_id t)) as [->|Hne].
    + rewrite upd_same, <- He. rewrite (contrib_wr_same x t [e] O).
      assert (Hq : ents_of_topic (t_id t) post = []) by (rewrite ents_of_topic_flat; now apply flat_map_quiet).
      rewrite Hq, !app_nil_r. now rewrite app_assoc.
    + rewrite upd_other by exact Hne. destruct (contrib_wr_other x t [e] t0 Hne O) as (C1 & C2). rewrite C1. rewrite C2 in He. exact He.
  - intros t0 w0 Hw0. destruct (N.eq_dec t0 (t_id t)) as [->|Hne].
    + rewrite upd_same in Hw0. inversion Hw0; subst w0.
      exists pre, (wr_blk x t [e]), post. split; [reflexivity|]. split; [exact K|].
      split; [cbn; now rewrite E|]. split; [cbn; exact L|]. split.
      * unfold owner_ok, wr_blk in *. cbn. destruct (d_topic x); [exact O|reflexivity].
      * split; [exact Q|]. cbn. intros Habs. destruct (b_ents w); discriminate.
    + rewrite upd_other in Hw0 by exact Hne.
      destruct (Hsl _ _ Hw0) as (pre0 & x0 & post0 & HD0 & K0 & E0 & L0 & O0 & Q0 & Z0).
      assert (Hkk : dkey x0 <> dkey x).
      { rewrite K0, K. apply (Hk t0 (t_id t) w0 w Hne Hw0 Hw). }
      (* x sits either before or behind x0 *)
      assert (Hin : In x (pre0 ++ x0 :: post0)) by (rewrite <- HD0; apply in_or_app; right; now left).
      apply in_app_or in Hin. destruct Hin as [Hin|[Hin|Hin]]; [|congruence|].
      * apply in_split in Hin. destruct Hin as (a & b & ->).
        assert (Hs : pre = a /\ x = x /\ post = b ++ x0 :: post0).
        { apply (split_unique (pre ++ x :: post) pre x post a x (b ++ x0 :: post0) Hnd eq_refl); [|reflexivity].
          rewrite HD0. now rewrite <- app_assoc. }
        destruct Hs as (-> & _ & ->).
        exists (a ++ wr_blk x t [e] :: b), x0, post0. rewrite <- app_assoc. cbn [app]. repeat split; auto.
      * apply in_split in Hin. destruct Hin as (a & b & ->).
        assert (Hs : pre = pre0 ++ x0 :: a /\ x = x /\ post = b).
        { apply (split_unique (pre ++ x :: post) pre x post (pre0 ++ x0 :: a) x b Hnd eq_refl); [|reflexivity].
          rewrite HD0. now rewrite <- app_assoc. }
        destruct Hs as (-> & _ & ->).
        exists pre0, x0, (a ++ wr_blk x t [e] :: b). rewrite <- app_assoc. cbn [app]. repeat split; auto.
        apply Forall_app in Q0. destruct Q0 as (Qa & Qb). inversion Qb; subst.
        apply Forall_app. split; [exact Qa|]. constructor; [|assumption].
        apply (contrib_wr_other x t [e] t0 Hne O).
  - apply Forall_app in Hwf. destruct Hwf as (W1 & W2). inversion W2 as [|y l Hx W3]; subst.
    apply Forall_app. split; [exact W1|]. constructor; [|exact W3].
    unfold dwf in *. cbn [wr_blk d_ents d_topic d_limit].
    destruct (d_ents x) as [|e1 es] eqn:Ex; cbn [app].
    + (* first entry of the block *)
      split; [destruct (d_topic x); eauto|]. rewrite L.
      assert (Hwe : b_ents w = []) by congruence. rewrite Hwe in Hu. cbn in Hu.
      rewrite (Z Hwe) in *. split; [apply extent_small; [exact Hb|lia]|]. cbn [sum_need]. lia.
    + destruct Hx as (Ht & Hext & Hsum). split; [destruct (d_topic x); [eauto|destruct Ht; discriminate]|].
      split; [exact Hext|]. rewrite L. cbn [sum_need] in *. rewrite sum_need_app. cbn [sum_need].
      assert (Hbw : b_ents w = e1 :: es) by congruence. rewrite Hbw in Hu. cbn [sum_need] in Hu. lia.
  - destruct Hal as (A1 & A2). split; [exact A1|].
    apply Forall_app in A2. destruct A2 as (B1 & B2). inversion B2; subst.
    apply Forall_app. split; [exact B1|]. constructor; [cbn; assumption|assumption].
  - eapply fsorted_replace; [|exact Hso]. reflexivity.
  - intros t1 t2 w1 w2 Hne H1 H2.
    assert (Hbk : bkey (blk_add w c [e]) = bkey w) by reflexivity.
    destruct (N.eq_dec t1 (t_id t)) as [->|N1]; destruct (N.eq_dec t2 (t_id t)) as [->|N2]; try congruence.
    + rewrite upd_same in H1. rewrite upd_other in H2 by exact N2. inversion H1; subst w1. rewrite Hbk. exact (Hk _ _ _ _ Hne Hw H2).
    + rewrite upd_other in H1 by exact N1. rewrite upd_same in H2. inversion H2; subst w2. rewrite Hbk. exact (Hk _ _ _ _ Hne H1 Hw).
    + rewrite upd_other in H1 by exact N1. rewrite upd_other in H2 by exact N2. exact (Hk _ _ _ _ Hne H1 H2).
Qed.

(* a fresh block allocated for entry [e] and written at once (rotation) *)
Lemma DI_new_written c D al nf wr sm t nb e f o lim al' nf' :
  0 < c_hdr c ->
  DI c D al nf wr sm ->
  ~ In (f, o) (map dkey D) -> Forall (fun x => d_file x <= f) D ->
  AInv c (D ++ [wr_blk (zblk f o lim) t [e]]) al' nf' ->
  bkey nb = (f, o) -> b_ents nb = [] -> b_limit nb = lim -> extent_of c e = lim -> need c e <= lim ->
  DI c (D ++ [wr_blk (zblk f o lim) t [e]]) al' nf' (upd wr (t_id t) (Some (blk_add nb c [e]))) (upd sm (t_id t) (sm (t_id t) ++ [e])).
Proof.
  intros Hh [Hnd He Hsl Hwf Hal Hso Hk] Hfresh Hfiles Hal' Kb Eb Lb Hext Hfit.
  set (z := wr_blk (zblk f o lim) t [e]).
  assert (Hzk : dkey z = (f, o)) by reflexivity.
  assert (Hzc : forall t0, contrib t0 z = if t_id t =? t0 then [e] else []) by (intros t0; reflexivity).
  constructor.
  - rewrite map_app. cbn [map]. rewrite Hzk. apply NoDup_snoc; [exact Hnd|exact Hfresh].
  - intros t0. rewrite ents_of_topic_app, He. cbn [ents_of_topic flat_map]. fold (contrib t0 z). rewrite Hzc, app_nil_r.
    destruct (N.eq_dec t0 (t_id t)) as [->|Hne].
    + now rewrite upd_same, N.eqb_refl.
    + rewrite upd_other by exact Hne. replace (t_id t =? t0) with false by lia. now rewrite app_nil_r.
  - intros t0 w Hw. destruct (N.eq_dec t0 (t_id t)) as [->|Hne].
    + rewrite upd_same in Hw. inversion Hw; subst w.
      exists D, z, []. split; [reflexivity|]. split; [rewrite Hzk; symmetry; exact Kb|].
      split; [cbn; now rewrite Eb|]. split; [cbn; now rewrite Lb|]. split; [reflexivity|]. split; [constructor|].
      cbn. rewrite Eb. discriminate.
    + rewrite upd_other in Hw by exact Hne. apply wslot_app_z; [|now apply Hsl].
      rewrite Hzc. now replace (t_id t =? t0) with false by lia.
  - apply Forall_app. split; [exact Hwf|]. constructor; [|constructor].
    unfold dwf. cbn. split; [eauto|]. split; [exact Hext|]. lia.
  - exact Hal'.
  - apply fsorted_app_one; [exact Hso|exact Hfiles].
  - intros t1 t2 w1 w2 Hne H1 H2.
    assert (Hbk : bkey (blk_add nb c [e]) = (f, o)) by (rewrite <- Kb; reflexivity).
    destruct (N.eq_dec t1 (t_id t)) as [->|N1]; destruct (N.eq_dec t2 (t_id t)) as [->|N2]; try congruence.
    + rewrite upd_same in H1. rewrite upd_other in H2 by exact N2. inversion H1; subst w1.
      destruct (Hsl t2 w2 H2) as (pre & x & post & -> & K & _). rewrite Hbk. intros Heq.
      apply Hfresh. rewrite Heq, <- K. rewrite map_app. apply in_or_app. right. now left.
    + rewrite upd_other in H1 by exact N1. rewrite upd_same in H2. inversion H2; subst w2.
      destruct (Hsl t1 w1 H1) as (pre & x & post & -> & K & _). rewrite Hbk. intros Heq.
      apply Hfresh. rewrite <- Heq, <- K. rewrite map_app. apply in_or_app. right. now left.
    + rewrite upd_other in H1 by exact N1. rewrite upd_other in H2 by exact N2. exact (Hk t1 t2 w1 w2 Hne H1 H2).
Qed.

(* ------------------------------------------------------------------ the allocator keeps its side of the bargain *)
Lemma AInv_fresh c D al nf : AInv c D al nf ->
  (~ In (a_file al, a_off al) (map dkey D)) /\ (~ In (nf, 0) (map dkey D)) /\
  Forall (fun x => d_file x <= a_file al) D /\ Forall (fun x => d_file x <= nf) D.
Proof.
  intros (A1 & A2). repeat split.
  - intros Hin. apply in_map_iff in Hin. destruct Hin as (x & Hk & Hx). eapply Forall_forall in A2; [|exact Hx].
    unfold dkey in Hk. inversion Hk. destruct A2 as (_ & B & C). specialize (B H0). lia.
  - intros Hin. apply in_map_iff in Hin. destruct Hin as (x & Hk & Hx). eapply Forall_forall in A2; [|exact Hx].
    unfold dkey in Hk. inversion Hk. lia.
  - eapply Forall_impl; [|exact A2]. cbn. intros x (B & _). exact B.
  - eapply Forall_impl; [|exact A2]. cbn. intros x (B & _). lia.
Qed.

Lemma AInv_same_file c D al nf z lim : AInv c D al nf -> 0 < lim ->
  d_file z = a_file al -> d_off z = a_off al -> d_limit z = lim ->
  AInv c (D ++ [z]) {| a_next := a_next al + 1; a_file := a_file al; a_off := a_off al + lim |} nf.
Proof.
  intros (A1 & A2) Hl Hf Ho Hlim. split; [exact A1|]. cbn [a_file a_off].
  apply Forall_app. split.
  - eapply Forall_impl; [|exact A2]. cbn. intros x (B & C & E). repeat split; auto. intros H. specialize (C H). lia.
  - constructor; [|constructor]. rewrite Hf, Ho, Hlim. repeat split; lia.
Qed.

Lemma AInv_new_file c D al nf z lim : AInv c D al nf -> 0 < lim ->
  d_file z = nf -> d_off z = 0 -> d_limit z = lim ->
  AInv c (D ++ [z]) {| a_next := a_next al + 1; a_file := nf; a_off := 0 + lim |} (nf + 1).
Proof.
  intros (A1 & A2) Hl Hf Ho Hlim. split; [cbn; lia|]. cbn [a_file a_off].
  apply Forall_app. split.
  - eapply Forall_impl; [|exact A2]. cbn. intros x (B & C & E). repeat split; auto; lia.
  - constructor; [|constructor]. rewrite Hf, Ho, Hlim. repeat split; lia.
Qed.

(* ------------------------------------------------------------------ the invariant on model states *)
Definition wrs (s : st) : N -> option blk := fun t => ts_writer (get_ts s t).
Definition sms (s : st) : N -> list entry := fun t => stream (get_ts s t).
Definition DIs (c : Cfg) (s : st) : Prop := DI c (rev (s_disk s)) (s_alloc s) (s_files s) (wrs s) (sms s).

Lemma DI_ext c D al nf wr sm wr' sm' :
  (forall t, wr' t = wr t) -> (forall t, sm' t = sm t) -> DI c D al nf wr sm -> DI c D al nf wr' sm'.
Proof.
  intros Hw Hs [A1 A2 A3 A4 A5 A6 A7]. constructor; auto.
  - intros t. now rewrite Hs.
  - intros t w H. apply A3. now rewrite <- Hw.
  - intros t t' w w' Hne H1 H2. rewrite Hw in H1, H2. eauto.
Qed.

Lemma DIs_init c : 0 < c_block c -> DIs c init.
Proof.
  intros Hb. unfold DIs, init, wrs, sms. cbn [s_disk s_alloc s_files rev].
  constructor.
  - constructor.
  - intros t. reflexivity.
  - intros t w H. cbn in H. discriminate.
  - constructor.
  - split; [cbn; lia|constructor].
  - exact I.
  - intros t t' w w' _ H. cbn in H. discriminate.
Qed.

Lemma round_up_small c x : 0 < c_block c -> 0 < x -> x <= c_block c -> round_up c x = c_block c.
Proof.
  intros Hb H0 H1. unfold round_up, div_up. set (B := c_block c) in *.
  assert (Hd : (x + B - 1) / B = 1); [|lia].
  symmetry. apply N.div_unique with (r := x - 1); lia.
Qed.

Lemma extent_round c e : 0 < c_block c -> 0 < c_hdr c -> extent_of c e = round_up c (need c e).
Proof.
  intros Hb Hh. unfold extent_of. destruct (c_block c <? need c e) eqn:E; [reflexivity|].
  symmetry. apply round_up_small; [exact Hb|apply need_pos; exact Hh|lia].
Qed.

Lemma round_up_ge c x : 0 < c_block c -> x <= round_up c x.
Proof.
  intros Hb. unfold round_up, div_up. set (B := c_block c) in *.
  pose proof (N.div_mod (x + B - 1) B ltac:(lia)). pose proof (N.mod_lt (x + B - 1) B ltac:(lia)). nia.
Qed.

Lemma rev_disk_write l pre x post f o t es :
  NoDup (map dkey (rev l)) -> rev l = pre ++ x :: post -> dkey x = (f, o) ->
  rev (disk_write l f o t es) = pre ++ wr_blk x t es :: post.
Proof.
  intros Hnd Hr Hk.
  assert (Hl : l = rev post ++ x :: rev pre).
  { rewrite <- (rev_involutive l), Hr, rev_app_distr. cbn. now rewrite <- app_assoc. }
  assert (Hnd2 : NoDup (map dkey l)).
  { rewrite <- (rev_involutive l), map_rev. apply NoDup_rev. exact Hnd. }
  rewrite Hl. rewrite disk_write_at; [|rewrite <- Hl; exact Hnd2|exact Hk].
  rewrite rev_app_distr. cbn. rewrite !rev_involutive, <- app_assoc. reflexivity.
Qed.

(* ------------------------------------------------------------------ the topic's first block *)
Lemma alloc_first_disk c s : let '(s1, b) := alloc_first c s in
  exists f o, s_disk s1 = zblk f o (c_block c) :: s_disk s /\ bkey b = (f, o) /\ b_ents b = [] /\ b_limit b = c_block c /\
    s_topics s1 = s_topics s /\
    ((f = a_file (s_alloc s) /\ o = a_off (s_alloc s) /\ s_files s1 = s_files s /\
      s_alloc s1 = {| a_next := a_next (s_alloc s) + 1; a_file := a_file (s_alloc s); a_off := a_off (s_alloc s) + c_block c |}) \/
     (f = s_files s /\ o = 0 /\ s_files s1 = s_files s + 1 /\
      s_alloc s1 = {| a_next := a_next (s_alloc s) + 1; a_file := s_files s; a_off := 0 + c_block c |})).
Proof.
  unfold alloc_first, disk_add, zblk. destruct (c_file c <=? a_off (s_alloc s)); eexists; eexists; cbn;
    (split; [reflexivity|]); (split; [reflexivity|]); (split; [reflexivity|]); (split; [reflexivity|]); (split; [reflexivity|]);
    [right|left]; repeat split; reflexivity.
Qed.

Lemma get_ts_topics s s' t : s_topics s' = s_topics s -> get_ts s' t = get_ts s t.
Proof. intros H. unfold get_ts. now rewrite H. Qed.

Lemma ensure_DIs c s t : cfg_ok c -> GInv c s -> DIs c s -> DIs c (fst (ensure_writer c s t)).
Proof.
  intros Hc Hg Hd. pose proof Hc as (Hh & Hb0 & Hba & Hbm & Hme & Hhb). unfold ensure_writer.
  destruct (ts_writer (get_ts s (t_id t))) as [w|] eqn:Ew; [exact Hd|].
  pose proof (alloc_first_disk c s) as Ha. destruct (alloc_first c s) as [s1 b].
  destruct Ha as (f & o & Hdisk & Kb & Eb & Lb & Htop & Hcase). cbn [fst].
  unfold DIs in *. cbn [set_ts s_disk s_alloc s_files]. rewrite Hdisk. cbn [rev].
  destruct (AInv_fresh c _ _ _ (di_alloc _ _ _ _ _ _ Hd)) as (F1 & F2 & F3 & F4).
  assert (Hg1 : forall t0, get_ts s1 t0 = get_ts s t0) by (intros; now apply get_ts_topics).
  eapply DI_ext; [| |eapply (DI_new_block c _ _ _ _ _ (t_id t) b f o (c_block c)); try eassumption; try reflexivity].
  - intros t0. unfold wrs, upd. destruct (N.eq_dec t0 (t_id t)) as [->|Hne].
    + rewrite get_set_same, N.eqb_refl. reflexivity.
    + rewrite get_set_other by exact Hne. replace (t0 =? t_id t) with false by lia. now rewrite Hg1.
  - intros t0. unfold sms. destruct (N.eq_dec t0 (t_id t)) as [->|Hne].
    + rewrite get_set_same, Hg1. unfold stream, chain_of, w_ents, with_writer. cbn. rewrite Eb, Ew. reflexivity.
    + rewrite get_set_other by exact Hne. now rewrite Hg1.
  - destruct Hcase as [(-> & -> & _)|(-> & -> & _)]; assumption.
  - destruct Hcase as [(-> & -> & _)|(-> & -> & _)]; assumption.
  - destruct Hcase as [(-> & -> & -> & ->)|(-> & -> & -> & ->)].
    + apply AInv_same_file; [exact (di_alloc _ _ _ _ _ _ Hd)|lia|reflexivity|reflexivity|reflexivity].
    + apply AInv_new_file; [exact (di_alloc _ _ _ _ _ _ Hd)|lia|reflexivity|reflexivity|reflexivity].
Qed.

Lemma alloc_sized_disk c s want s1 b : alloc_sized c s want = Some (s1, b) ->
  exists f o, s_disk s1 = zblk f o (round_up c want) :: s_disk s /\ bkey b = (f, o) /\ b_ents b = [] /\ b_limit b = round_up c want /\
    s_topics s1 = s_topics s /\
    ((f = a_file (s_alloc s) /\ o = a_off (s_alloc s) /\ s_files s1 = s_files s /\
      s_alloc s1 = {| a_next := a_next (s_alloc s) + 1; a_file := a_file (s_alloc s); a_off := a_off (s_alloc s) + round_up c want |}) \/
     (f = s_files s /\ o = 0 /\ s_files s1 = s_files s + 1 /\
      s_alloc s1 = {| a_next := a_next (s_alloc s) + 1; a_file := s_files s; a_off := 0 + round_up c want |})).
Proof.
  unfold alloc_sized, disk_add, zblk, round_up. destruct ((want =? 0) || (c_max_alloc c <? want)); [discriminate|].
  destruct (c_file c <? _); intros H; inversion H; subst; eexists; eexists; cbn;
    (split; [reflexivity|]); (split; [reflexivity|]); (split; [reflexivity|]); (split; [reflexivity|]); (split; [reflexivity|]);
    [right|left]; repeat split; reflexivity.
Qed.

(* appending a fresh block for [e] behind the image and writing [e] into it, on states *)
Lemma DIs_rotate_write c s0 s1 nb t e want D wr sm :
  cfg_ok c ->
  DI c D (s_alloc s0) (s_files s0) wr sm -> rev (s_disk s0) = D ->
  alloc_sized c s0 want = Some (s1, nb) -> round_up c want = extent_of c e -> need c e <= round_up c want ->
  DI c (rev (disk_write (s_disk s1) (b_file nb) (b_off nb) t [e])) (s_alloc s1) (s_files s1)
     (upd wr (t_id t) (Some (blk_add nb c [e]))) (upd sm (t_id t) (sm (t_id t) ++ [e])).
Proof.
  intros Hc Hd HD Ha Hext Hfit. pose proof Hc as (Hh & Hb0 & Hba & Hbm & Hme & Hhb).
  destruct (alloc_sized_disk c s0 want s1 nb Ha) as (f & o & Hdisk & Kb & Eb & Lb & Htop & Hcase).
  rewrite Hdisk. pose proof Kb as Kb'. unfold bkey in Kb'. injection Kb' as Kf Ko. rewrite Kf, Ko.
  cbn [disk_write zblk d_file d_off]. rewrite !N.eqb_refl. cbn [andb rev].
  change ({| d_file := f; d_off := o; d_limit := d_limit (zblk f o (round_up c want));
             d_topic := match d_topic (zblk f o (round_up c want)) with Some t0 => Some t0 | None => Some t end;
             d_ents := d_ents (zblk f o (round_up c want)) ++ [e] |}) with (wr_blk (zblk f o (round_up c want)) t [e]).
  rewrite HD.
  destruct (AInv_fresh c _ _ _ (di_alloc _ _ _ _ _ _ Hd)) as (F1 & F2 & F3 & F4).
  assert (Hpos : 0 < round_up c want) by (pose proof (need_pos c e Hh); lia).
  apply (DI_new_written c D (s_alloc s0) (s_files s0) wr sm t nb e f o (round_up c want)); auto.
  - destruct Hcase as [(-> & -> & _)|(-> & -> & _)]; assumption.
  - destruct Hcase as [(-> & -> & _)|(-> & -> & _)]; assumption.
  - destruct Hcase as [(-> & -> & -> & ->)|(-> & -> & -> & ->)].
    + apply AInv_same_file; [exact (di_alloc _ _ _ _ _ _ Hd)|exact Hpos|reflexivity|reflexivity|reflexivity].
    + apply AInv_new_file; [exact (di_alloc _ _ _ _ _ _ Hd)|exact Hpos|reflexivity|reflexivity|reflexivity].
Qed.

Lemma ts_writer_count_add ts d : ts_writer (count_add ts d) = ts_writer ts.
Proof. unfold count_add. destruct (d =? 0); reflexivity. Qed.

Lemma append_DIs c s t e : cfg_ok c -> GInv c s -> DIs c s ->
  cnt (get_ts s (t_id t)) + 1 <= u64_max ->
  DIs c (fst (append c s t e)).
Proof.
  intros Hc Hg Hd Hcntb. pose proof Hc as (Hh & Hb0 & Hba & Hbm & Hme & Hhb).
  pose proof (ensure_DIs c s t Hc Hg Hd) as Hd1.
  destruct (ensure_writer_spec c s t Hc Hg) as (s1 & w & He & Hle1 & Hn1 & Hoth1 & Hw1 & Hp1 & Hst1 & Hun1 & Hcnt1).
  rewrite He in Hd1. cbn [fst] in Hd1.
  destruct (appendable c t (e_len e)) as [k|] eqn:Eap.
  { unfold append. rewrite He, Eap. exact Hd1. }
  assert (Hname : name_ok c t = true /\ need c e <= c_max_alloc c).
  { unfold appendable in Eap. destruct (c_max_alloc c <? N.min u64_max (c_hdr c + e_len e)) eqn:E1; [discriminate|].
    destruct (name_ok c t); [|discriminate]. split; [reflexivity|unfold need; lia]. }
  destruct Hname as (Hname & Hsize).
  (* the streams after the append, from the sequential specification *)
  destruct (append_spec c s t e Hc Hg Hname Hsize Hcntb) as (s' & Happ & Hg' & Hoth & Hst & Hun).
  assert (Hsm : forall t0, sms s' t0 = upd (sms s1) (t_id t) (sms s1 (t_id t) ++ [e]) t0).
  { intros t0. unfold sms, upd. destruct (N.eq_dec t0 (t_id t)) as [->|Hne].
    - rewrite N.eqb_refl, Hst, Hst1. reflexivity.
    - replace (t0 =? t_id t) with false by lia. rewrite (Hoth t0 Hne), (Hoth1 t0 Hne). reflexivity. }
  rewrite Happ. cbn [fst].
  (* now the shape of s' *)
  unfold append in Happ. rewrite He, Eap in Happ. set (ts := get_ts s1 (t_id t)) in *.
  rewrite (tp_poison _ _ _ Hp1) in Happ.
  pose proof (need_pos c e Hh) as Hnp.
  pose proof (tp_writer _ _ _ Hp1) as Hwb. unfold w_list in Hwb. fold ts in Hw1. rewrite Hw1 in Hwb.
  pose proof (Forall_inv Hwb) as (Hwu & Hwl & Hwm).
  destruct (b_limit w <? b_used w + need c e) eqn:Erot.
  - (* rotation *)
    destruct (alloc_sized_spec c (set_ts s1 (t_id t) (seal ts w)) (need c e) Hb0 Hbm Hnp Hsize) as (s1'' & nb & Ha & Hsame & Hnext & Hfresh & Hlim).
    rewrite Ha in Happ. rewrite Hname in Happ. cbn [negb] in Happ. inversion Happ as [Hs']. clear Happ.
    unfold DIs. cbn [set_ts st_disk_write s_disk s_alloc s_files].
    eapply DI_ext; [| |eapply (DIs_rotate_write c (set_ts s1 (t_id t) (seal ts w)) s1'' nb t e (need c e) (rev (s_disk s1)) (wrs s1) (sms s1) Hc);
                        [exact Hd1|reflexivity|exact Ha|symmetry; apply extent_round; assumption|apply round_up_ge; assumption]].
    + intros t0. unfold wrs, upd. destruct (N.eq_dec t0 (t_id t)) as [->|Hne].
      * rewrite N.eqb_refl, get_set_same. now rewrite ts_writer_count_add.
      * replace (t0 =? t_id t) with false by lia. rewrite get_set_other by exact Hne. rewrite get_ts_disk_write.
        rewrite get_set_other by exact Hne. rewrite Hsame. now rewrite get_set_other by exact Hne.
    + intros t0. rewrite <- Hsm. now rewrite <- Hs'.
  - (* the entry fits *)
    rewrite Hname in Happ. cbn [negb] in Happ. inversion Happ as [Hs']. clear Happ.
    destruct (DI_write c _ _ _ _ _ t w e Hh Hb0 Hd1 Hw1 Hwu ltac:(lia)) as (pre & x & post & HD & Kx & Hdi).
    unfold DIs. cbn [set_ts st_disk_write s_disk s_alloc s_files].
    rewrite (rev_disk_write (s_disk s1) pre x post (b_file w) (b_off w) t [e] (di_nodup _ _ _ _ _ _ Hd1) HD Kx).
    eapply DI_ext; [| |exact Hdi].
    + intros t0. unfold wrs, upd. destruct (N.eq_dec t0 (t_id t)) as [->|Hne].
      * rewrite N.eqb_refl, get_set_same. now rewrite ts_writer_count_add.
      * replace (t0 =? t_id t) with false by lia. rewrite get_set_other by exact Hne. now rewrite get_ts_disk_write.
    + intros t0. rewrite <- Hsm. now rewrite <- Hs'.
Qed.

(* ------------------------------------------------------------------ batch planning *)
Definition DIcur (c : Cfg) (s : st) (t : topic) (cur : blk) : Prop :=
  DI c (rev (s_disk s)) (s_alloc s) (s_files s) (upd (wrs s) (t_id t) (Some cur))
     (upd (sms s) (t_id t) (stream (with_writer (get_ts s (t_id t)) (Some cur)))).

Lemma batch_plan_DI c (Hc : cfg_ok c) t : forall es s cur rot,
  0 < a_next (s_alloc s) ->
  TInvP c (a_next (s_alloc s)) (with_writer (get_ts s (t_id t)) (Some cur)) ->
  Forall (fun e => need c e <= c_max_alloc c) es ->
  DIcur c s t cur ->
  let '(s', cur', _, _) := batch_plan c s t cur rot es in DIcur c s' t cur'.
Proof.
  pose proof Hc as (Hh & Hb0 & Hba & Hbm & Hme & Hhb).
  induction es as [|e r IH]; intros s cur rot Hn Hinv Hsz Hd; cbn [batch_plan]; [exact Hd|].
  inversion Hsz as [|x l Hse Hsr]; subst.
  pose proof (need_pos c e Hh) as Hnp.
  set (X := with_writer (get_ts s (t_id t)) (Some cur)) in *.
  assert (HXw : ts_writer X = Some cur) by reflexivity.
  assert (Hcur : bwf c cur).
  { pose proof (tp_writer _ _ _ Hinv) as Hw. unfold w_list in Hw. rewrite HXw in Hw. now inversion Hw. }
  destruct Hcur as (Hcu & Hcl & Hcm).
  destruct (need c e <=? b_limit cur - b_used cur) eqn:Efit.
  - (* fits into the running block *)
    destruct (add_entry c Hh _ X cur e Hinv HXw ltac:(lia)) as (A1 & A2 & A3).
    apply (IH (st_disk_write s cur t [e]) (blk_add cur c [e]) rot Hn A1 Hsr).
    unfold DIcur in *.
    destruct (DI_write c _ _ _ _ _ t cur e Hh Hb0 Hd ltac:(apply upd_same) Hcu ltac:(lia)) as (pre & x & post & HD & Kx & Hdi).
    cbn [st_disk_write s_disk s_alloc s_files].
    rewrite (rev_disk_write (s_disk s) pre x post (b_file cur) (b_off cur) t [e] (di_nodup _ _ _ _ _ _ Hd) HD Kx).
    eapply DI_ext; [| |exact Hdi].
    + intros t0. unfold upd, wrs. destruct (t0 =? t_id t); [reflexivity|]. now rewrite get_ts_disk_write.
    + intros t0. unfold upd, sms. destruct (t0 =? t_id t) eqn:Et.
      * rewrite get_ts_disk_write.
        change (with_writer (get_ts s (t_id t)) (Some (blk_add cur c [e]))) with (with_writer X (Some (blk_add cur c [e]))).
        rewrite A2, N.eqb_refl. reflexivity.
      * now rewrite get_ts_disk_write.
  - (* seal the running block, take a fresh one sized for [e], write [e] into it *)
    destruct (alloc_sized_spec c (set_ts s (t_id t) (seal (get_ts s (t_id t)) cur)) (N.max (need c e) (c_block c)) Hb0 Hbm ltac:(lia) ltac:(lia))
      as (s'' & nb & Ha & Hsame & Hnext & Hfresh & Hlim).
    rewrite Ha. cbn [s_alloc set_ts] in Hnext.
    destruct (rotate c Hh (a_next (s_alloc s)) X cur nb Hn Hinv HXw Hfresh) as (R1 & R2 & R3).
    assert (Hg'' : get_ts s'' (t_id t) = seal (get_ts s (t_id t)) cur) by (rewrite Hsame; apply get_set_same).
    assert (Hconv : with_writer (get_ts s'' (t_id t)) (Some nb) = with_writer (seal X cur) (Some nb)) by (rewrite Hg''; reflexivity).
    set (Y := with_writer (get_ts s'' (t_id t)) (Some nb)) in *.
    assert (HYw : ts_writer Y = Some nb) by reflexivity.
    assert (HYinv : TInvP c (a_next (s_alloc s'')) Y) by (rewrite Hnext, Hconv; exact R1).
    pose proof Hfresh as (Fi & Fu & Fe & Fl).
    destruct (add_entry c Hh _ Y nb e HYinv HYw ltac:(lia)) as (A1 & A2 & A3).
    assert (Hst2 : stream (with_writer (get_ts s'' (t_id t)) (Some (blk_add nb c [e]))) = stream X ++ [e]).
    { change (with_writer (get_ts s'' (t_id t)) (Some (blk_add nb c [e]))) with (with_writer Y (Some (blk_add nb c [e]))).
      rewrite A2. subst Y. rewrite Hconv. exact (f_equal (fun l => l ++ [e]) R2). }
    apply (IH (st_disk_write s'' nb t [e]) (blk_add nb c [e]) true ltac:(cbn [st_disk_write s_alloc]; lia) A1 Hsr).
    unfold DIcur in *. cbn [st_disk_write s_disk s_alloc s_files].
    eapply DI_ext; [| |eapply (DIs_rotate_write c (set_ts s (t_id t) (seal (get_ts s (t_id t)) cur)) s'' nb t e (N.max (need c e) (c_block c))
                                  (rev (s_disk s)) _ _ Hc Hd eq_refl Ha)].
    + intros t0. unfold upd, wrs. destruct (t0 =? t_id t) eqn:Et; [reflexivity|].
      rewrite get_ts_disk_write, Hsame. rewrite get_set_other by lia. reflexivity.
    + intros t0. unfold upd, sms. destruct (t0 =? t_id t) eqn:Et.
      * rewrite get_ts_disk_write, Hst2, N.eqb_refl. reflexivity.
      * rewrite get_ts_disk_write, Hsame. rewrite get_set_other by lia. reflexivity.
    + (* the fresh block's extent is the one recovery will derive from [e] *)
      destruct (N.max_spec (need c e) (c_block c)) as [(Hlt & ->)|(Hge & ->)].
      * rewrite (round_up_small c (c_block c)) by lia. symmetry. apply extent_small; lia.
      * symmetry. apply extent_round; assumption.
    + destruct (N.max_spec (need c e) (c_block c)) as [(Hlt & ->)|(Hge & ->)].
      * rewrite (round_up_small c (c_block c)) by lia. lia.
      * apply round_up_ge; assumption.
Qed.

Lemma batch_DIs c be s t es : cfg_ok c -> GInv c s -> DIs c s -> DIs c (fst (batch c be s t es)).
Proof.
  intros Hc Hg Hd. pose proof Hc as (Hh & Hb0 & Hba & Hbm & Hme & Hhb).
  pose proof (ensure_DIs c s t Hc Hg Hd) as Hd1.
  destruct (ensure_writer_spec c s t Hc Hg) as (s1 & w & He & Hle1 & Hn1 & Hoth1 & Hw1 & Hp1 & Hst1 & Hun1 & Hcnt1).
  rewrite He in Hd1. cbn [fst] in Hd1. unfold batch. rewrite He.
  destruct (c_max_entries c <? N.of_nat (length es)); [exact Hd1|].
  destruct (c_max_bytes c <? sum_need c es); [exact Hd1|].
  destruct (appendable c t (max_len es)) as [k|] eqn:Eap; [exact Hd1|].
  assert (Hname : name_ok c t = true /\ c_hdr c + max_len es <= c_max_alloc c).
  { unfold appendable in Eap. destruct (c_max_alloc c <? N.min u64_max (c_hdr c + max_len es)) eqn:E1; [discriminate|].
    destruct (name_ok c t); [|discriminate]. split; [reflexivity|lia]. }
  destruct Hname as (Hname & Hml).
  assert (Hsz : Forall (fun e => need c e <= c_max_alloc c) es).
  { clear - Hml. induction es as [|e es IH]; [constructor|]. cbn [max_len fold_right] in Hml. fold (max_len es) in Hml.
    constructor; [unfold need; lia|apply IH; lia]. }
  destruct es as [|e0 es0]; [exact Hd1|].
  rewrite (tp_poison _ _ _ Hp1).
  set (ts := get_ts s1 (t_id t)) in *.
  assert (Hww : with_writer ts (Some w) = ts) by (apply with_writer_same; exact Hw1).
  assert (Hcur : DIcur c s1 t w).
  { unfold DIcur. fold ts. rewrite Hww. eapply DI_ext; [| |exact Hd1].
    - intros t0. unfold upd, wrs. destruct (t0 =? t_id t) eqn:Et; [|reflexivity]. assert (Ht0 : t0 = t_id t) by lia. rewrite Ht0. fold ts. now rewrite Hw1.
    - intros t0. unfold upd, sms. destruct (t0 =? t_id t) eqn:Et; [|reflexivity]. assert (Ht0 : t0 = t_id t) by lia. rewrite Ht0. reflexivity. }
  assert (Hinvw : TInvP c (a_next (s_alloc s1)) (with_writer ts (Some w))) by (rewrite Hww; exact Hp1).
  pose proof (batch_plan_DI c Hc t (e0 :: es0) s1 w false Hn1 Hinvw Hsz Hcur) as Hpl.
  destruct (batch_plan_spec c Hc t (e0 :: es0) s1 w false Hn1 Hinvw Hsz) as (s2 & wfin & rot' & Hbp & _).
  rewrite Hbp in *. cbn [negb]. rewrite Hname. cbn [negb fst].
  unfold DIcur in Hpl. unfold DIs. cbn [set_ts s_disk s_alloc s_files].
  eapply DI_ext; [| |exact Hpl].
  - intros t0. unfold upd, wrs. destruct (t0 =? t_id t) eqn:Et.
    + assert (t0 = t_id t) by lia. subst. rewrite get_set_same, ts_writer_count_add. reflexivity.
    + rewrite get_set_other by lia. reflexivity.
  - intros t0. unfold upd, sms. destruct (t0 =? t_id t) eqn:Et.
    + assert (t0 = t_id t) by lia. subst. rewrite get_set_same, stream_count_add. reflexivity.
    + rewrite get_set_other by lia. reflexivity.
Qed.

(* ------------------------------------------------------------------ reads and counts do not touch the image *)
Lemma DIs_set_ts c s t ts' : DIs c s ->
  ts_writer ts' = ts_writer (get_ts s t) -> stream ts' = stream (get_ts s t) -> DIs c (set_ts s t ts').
Proof.
  intros Hd Hw Hs. unfold DIs in *. cbn [set_ts s_disk s_alloc s_files].
  eapply DI_ext; [| |exact Hd].
  - intros t0. unfold wrs. destruct (N.eq_dec t0 t) as [->|Hne]; [now rewrite get_set_same|now rewrite get_set_other by exact Hne].
  - intros t0. unfold sms. destruct (N.eq_dec t0 t) as [->|Hne]; [now rewrite get_set_same|now rewrite get_set_other by exact Hne].
Qed.

From W Require Import spec.Queue proofs.EngineBasic proofs.EngineBR proofs.EngineMain.

Lemma DIs_step c m be s g B Bb o : cfg_ok c -> Rel c s g B Bb -> DIs c s -> op_ok c o ->
  B + N.of_nat (length (offered o)) <= u64_max ->
  DIs c (fst (step (env_of c m be) s o)).
Proof.
  intros Hc Hrel Hd Hok HB. pose proof Hrel as (Hg & Hall).
  destruct o as [t e | t es | t ck | t maxb ck start | t | ]; cbn [step env_of v_cfg v_mode v_backend].
  - apply append_DIs; auto.
    destruct (Hall (t_id t)) as (Hdl & Hs & Hu & Hb1 & Hb2). destruct Hg as (_ & Hti).
    rewrite (ti_cnt _ _ _ (Hti (t_id t))), Hu, skipn_length. cbn [offered length] in HB. lia.
  - apply batch_DIs; auto.
  - destruct Hg as (Hn & Hti).
    destruct (read_next_spec c m s t ck (a_next (s_alloc s)) Hc (Hti (t_id t))) as (ts' & res & Hr & _ & Hst' & Hw' & _).
    rewrite Hr. cbn [fst]. apply DIs_set_ts; auto.
  - destruct start as [st0|].
    + destruct (batch_read_stateless c m s t maxb ck st0) as (os & Hr). rewrite Hr. cbn [fst]. apply DIs_set_ts; auto.
    + destruct Hg as (Hn & Hti).
      destruct (batch_read_spec c m s t maxb ck (a_next (s_alloc s)) Hc (Hti (t_id t))) as (ts' & k & Hr & _ & Hst' & Hw' & _).
      rewrite Hr. cbn [fst]. apply DIs_set_ts; auto.
  - exact Hd.
  - contradiction.
Qed.

(* the state a history leads to *)
Fixpoint exec (v : env) (s : st) (ops : list op) : st :=
  match ops with [] => s | o :: r => exec v (fst (step v s o)) r end.

Theorem DIs_reachable c m be : cfg_ok c -> forall ops s g B Bb,
  Rel c s g B Bb -> DIs c s -> Forall (op_ok c) ops ->
  B + N.of_nat (length (offered_all ops)) <= u64_max -> Bb + sum_len (offered_all ops) <= u64_max ->
  DIs c (exec (env_of c m be) s ops) /\ GInv c (exec (env_of c m be) s ops).
Proof.
  intros Hc. induction ops as [|o r IH]; intros s g B Bb Hrel Hd Hok HB HBb; [split; [exact Hd|exact (proj1 Hrel)]|].
  inversion Hok as [|x l Ho Hr]; subst.
  cbn [offered_all] in HB, HBb. rewrite app_length, Nat2N.inj_add in HB. rewrite sum_len_app in HBb.
  pose proof (step_ok c m be s g B Bb o Hc Hrel Ho ltac:(lia) ltac:(lia)) as Hstep.
  pose proof (DIs_step c m be s g B Bb o Hc Hrel Hd Ho ltac:(lia)) as Hd'.
  cbn [exec]. destruct (step (env_of c m be) s o) as [s' res]. cbn [fst] in *.
  destruct Hstep as (_ & _ & _ & Hrel').
  apply (IH s' _ _ _ Hrel' Hd' Hr); lia.
Qed.

(* ------------------------------------------------------------------ scan order = allocation order *)
Lemma files_ents_ignore t : forall k g D,
  files_ents t k g D = files_ents t k g (filter (fun x => g <=? d_file x) D).
Proof.
  induction k as [|k IH]; intros g D; cbn [files_ents]; [reflexivity|].
  f_equal.
  - f_equal. induction D as [|x D IHD]; cbn [filter]; [reflexivity|].
    destruct (d_file x =? g) eqn:E1; destruct (g <=? d_file x) eqn:E2; cbn [filter]; rewrite ?E1; try lia;
      try (f_equal; exact IHD); exact IHD.
  - rewrite (IH (g + 1) D), (IH (g + 1) (filter (fun x => g <=? d_file x) D)). f_equal.
    induction D as [|x D IHD]; cbn [filter]; [reflexivity|].
    destruct (g + 1 <=? d_file x) eqn:E1; destruct (g <=? d_file x) eqn:E2; cbn [filter]; rewrite ?E1; try lia;
      try (f_equal; exact IHD); exact IHD.
Qed.

Lemma fsorted_filter p D : fsorted D -> fsorted (filter p D).
Proof.
  induction D as [|x D IH]; cbn [filter fsorted]; [auto|]. intros (H1 & H2).
  destruct (p x); cbn [fsorted]; [|now apply IH]. split; [|now apply IH].
  apply Forall_forall. intros y Hy. apply filter_In in Hy. destruct Hy as (Hy & _). eapply Forall_forall in H1; eauto.
Qed.

Lemma sorted_split f D : fsorted D -> Forall (fun x => f <= d_file x) D ->
  D = filter (fun x => d_file x =? f) D ++ filter (fun x => f + 1 <=? d_file x) D.
Proof.
  induction D as [|x D IH]; cbn [filter fsorted]; [reflexivity|]. intros (H1 & H2) Hf. inversion Hf as [|y l Hx Hr]; subst.
  destruct (d_file x =? f) eqn:E.
  - replace (f + 1 <=? d_file x) with false by lia. cbn [app]. f_equal. now apply IH.
  - replace (f + 1 <=? d_file x) with true by lia.
    assert (Hnone : filter (fun y => d_file y =? f) D = []).
    { clear - H1 E Hx. induction D as [|y D IHD]; cbn [filter]; [reflexivity|]. inversion H1; subst.
      replace (d_file y =? f) with false by lia. now apply IHD. }
    assert (Hall : filter (fun y => f + 1 <=? d_file y) D = D).
    { clear - H1 E Hx. induction D as [|y D IHD]; cbn [filter]; [reflexivity|]. inversion H1; subst.
      replace (f + 1 <=? d_file y) with true by lia. f_equal. now apply IHD. }
    rewrite Hnone, Hall. reflexivity.
Qed.

Lemma files_ents_sorted t : forall n f D, fsorted D -> Forall (fun x => f <= d_file x /\ d_file x < f + N.of_nat n) D ->
  files_ents t n f D = ents_of_topic t D.
Proof.
  induction n as [|k IH]; intros f D Hs Hb; cbn [files_ents].
  - destruct D as [|x D]; [reflexivity|]. inversion Hb as [|y l Hx _]; subst. cbn in Hx. lia.
  - rewrite (files_ents_ignore t k (f + 1) D).
    rewrite (IH (f + 1) (filter (fun x => f + 1 <=? d_file x) D)).
    + rewrite <- ents_of_topic_app. f_equal. symmetry. apply sorted_split; [exact Hs|].
      eapply Forall_impl; [|exact Hb]. cbn. intros x (A & _). exact A.
    + now apply fsorted_filter.
    + apply Forall_forall. intros x Hx. apply filter_In in Hx. destruct Hx as (Hx & Hge).
      eapply Forall_forall in Hb; [|exact Hx]. cbn in Hb. lia.
Qed.

(* ------------------------------------------------------------------ a restart rebuilds every stream *)
Lemma find_map_key {A} (F : N * A -> N * A) (t : N) : (forall p, fst (F p) = fst p) -> forall l,
  find (fun p => fst p =? t) (map F l) = option_map F (find (fun p => fst p =? t) l).
Proof.
  intros HF. induction l as [|p l IH]; cbn [map find option_map]; [reflexivity|].
  rewrite HF. destruct (fst p =? t); [reflexivity|exact IH].
Qed.

Theorem reopen_stream c s : cfg_ok c -> DIs c s ->
  forall t, stream (get_ts (reopen c s) t) = stream (get_ts s t).
Proof.
  intros Hc Hd t. pose proof Hc as (Hh & Hb0 & Hba & Hbm & Hme & Hhb).
  unfold DIs in Hd. pose proof Hd as [Hnd He Hsl Hwf Hal Hso Hk].
  unfold reopen.
  pose proof (scan_files_complete c Hh Hb0 (N.to_nat (s_files s + 1)) 0 (rev (s_disk s)) 1 {| rc_chains := []; rc_flag := false |} Hwf) as Hscan.
  destruct (scan_files c (N.to_nat (s_files s + 1)) 0 (rev (s_disk s)) 1 {| rc_chains := []; rc_flag := false |}) as [rc next_id].
  destruct Hscan as (_ & Hch). specialize (Hch t). cbn [rc_chains rc_get find chain_ents flat_map app] in Hch.
  rewrite (files_ents_sorted t _ 0 (rev (s_disk s)) Hso) in Hch.
  2:{ destruct Hal as (A1 & A2). eapply Forall_impl; [|exact A2]. cbn. intros x (B1 & _). split; [lia|]. rewrite N2Nat.id. lia. }
  rewrite (He t) in Hch. unfold sms in Hch.
  unfold get_ts at 1. cbn [s_topics].
  rewrite find_map_key.
  2:{ intros [k v]. cbn. destruct (find _ (rc_chains rc)) as [[? [? ?]]|]; [destruct (startup_cursor _ _)|]; reflexivity. }
  unfold get_ts in *. destruct (find (fun p => fst p =? t) (s_topics s)) as [[k old]|] eqn:Ef; cbn [option_map snd].
  - assert (k = t) by (apply find_some in Ef; destruct Ef as (_ & E); cbn in E; lia). subst k.
    cbn [fst snd] in *. unfold rc_get in Hch.
    destruct (find (fun q => fst q =? t) (rc_chains rc)) as [[k2 [t2 ch]]|].
    + destruct (startup_cursor ch (ts_index old)) as [i o]. cbn [snd]. unfold stream, chain_of, w_ents, reader_of. cbn. rewrite app_nil_r. exact Hch.
    + cbn [snd]. unfold stream, chain_of, w_ents, reader_of. cbn. exact Hch.
  - rewrite <- Hch. reflexivity.
Qed.

(* from init: after ANY admissible restart-free history a restart rebuilds every topic's stream *)
Corollary restart_rebuilds_streams c m be ops : cfg_ok c -> Forall (op_ok c) ops ->
  N.of_nat (length (offered_all ops)) <= u64_max -> sum_len (offered_all ops) <= u64_max ->
  forall t, stream (get_ts (reopen c (exec (env_of c m be) init ops)) t) = stream (get_ts (exec (env_of c m be) init ops) t).
Proof.
  intros Hc Hok HB HBb t. pose proof Hc as (Hh & Hb0 & _).
  destruct (DIs_reachable c m be Hc ops init [] 0 0 (Rel_init c) (DIs_init c Hb0) Hok ltac:(lia) ltac:(lia)) as (Hd & _).
  now apply reopen_stream.
Qed.
