(* EngineP3.v — the position invariant of StrictlyAtOnce mode (goal: the persisted position
   [ts_index] denotes exactly what the consumer has not been handed yet).  Stated on topic
   states whose reader is hydrated (or has no persisted position); raw post-restart states are
   covered through the normalisation of EngineNorm.v. *)
From W Require Import model.Base model.Engine proofs.EngineWF proofs.EngineInv proofs.EngineW proofs.EnginePos.
From Coq Require Import ZArith ZifyBool ZifyN ZifyNat.

(* the position names a block that holds entries, at an entry boundary, and what lies behind
   it is exactly what is unread *)
Definition PGood (c : Cfg) (T : tstate) (p : ppos) : Prop :=
  exists j b, nth_error (memne T) j = Some b /\
    (if p_tail p then b_id b = p_a p else p_a p = N.of_nat j /\ (j < length (chain_of T))%nat) /\
    okoff c (b_ents b) (p_off p) /\
    unread c T = from c (memne T) j (p_off p).

(* a provisional position on the current, still empty, writer block (empty poll) *)
Definition PProv (c : Cfg) (T : tstate) (p : ppos) : Prop :=
  p_tail p = true /\ exists w, ts_writer T = Some w /\ b_id w = p_a p /\ b_ents w = [] /\ p_off p = 0 /\ unread c T = [].

(* a tail position whose block was retired empty: names no block any more *)
Definition PDead (nid : N) (T : tstate) (p : ppos) : Prop :=
  p_tail p = true /\ p_a p < nid /\ Forall (fun b => b_id b <> p_a p) (chain_of T ++ w_list T).

Definition P3 (c : Cfg) (nid : N) (T : tstate) : Prop :=
  CNE T /\
  match ts_index T with
  | None => unread c T = stream T
  | Some p => PGood c T p \/ PProv c T p \/ PDead nid T p
  end.

Lemma P3_mono c nid nid' T : nid <= nid' -> P3 c nid T -> P3 c nid' T.
Proof.
  intros Hn (Hc & H). split; [exact Hc|]. destruct (ts_index T) as [p|]; [|exact H].
  destruct H as [H|[H|(A & B & C)]]; [left; exact H|right; left; exact H|right; right]. repeat split; auto. lia.
Qed.

Lemma P3_tstate0 c nid : P3 c nid tstate0.
Proof. split; [constructor|reflexivity]. Qed.

(* ------------------------------------------------------------------ [from] under growth *)
Lemma chain_ents_firstn_skipn l j : chain_ents l = chain_ents (firstn j l) ++ chain_ents (skipn j l).
Proof. rewrite <- chain_ents_app. now rewrite firstn_skipn. Qed.

Lemma nth_error_split_skipn {A} (l : list A) j x : nth_error l j = Some x -> skipn j l = x :: skipn (S j) l.
Proof. revert l; induction j as [|j IH]; intros l H; destruct l; cbn in *; try discriminate; [now inversion H|now apply IH]. Qed.

Lemma firstn_ents_ext : forall j (l l' : list blk),
  (forall n b, (n < j)%nat -> nth_error l n = Some b -> exists b', nth_error l' n = Some b' /\ b_ents b' = b_ents b) ->
  (j <= length l)%nat ->
  map b_ents (firstn j l') = map b_ents (firstn j l).
Proof.
  induction j as [|j IH]; intros l l' H Hl; [reflexivity|].
  destruct l as [|b l]; [cbn in Hl; lia|].
  destruct (H 0%nat b ltac:(lia) eq_refl) as (b' & Hb' & He).
  destruct l' as [|b0 l']; [discriminate|]. cbn in Hb'. inversion Hb'; subst b0.
  cbn [firstn map]. rewrite He. f_equal. apply IH; [|cbn in Hl; lia].
  intros n x Hn Hx. exact (H (S n) x ltac:(lia) Hx).
Qed.

Lemma MG_firstn_ents M M' es j : MG M M' es -> (j < length M)%nat -> map b_ents (firstn j M') = map b_ents (firstn j M).
Proof.
  intros (Hl & Hp & _) Hj. apply firstn_ents_ext; [|lia].
  intros n b Hn Hb. destruct (Hp n b Hb) as (b' & e1 & Hb' & _ & He & Hz).
  exists b'. split; [exact Hb'|]. rewrite He, (Hz ltac:(lia)). apply app_nil_r.
Qed.

Lemma chain_ents_map_eq l l' : map b_ents l = map b_ents l' -> chain_ents l = chain_ents l'.
Proof.
  revert l'; induction l as [|b l IH]; intros l' H; destruct l' as [|b' l']; cbn in H; try discriminate; [reflexivity|].
  inversion H. unfold chain_ents in *. cbn [flat_map]. rewrite H1. f_equal. now apply IH.
Qed.

Lemma from_MG c (Hh : 0 < c_hdr c) M M' es j b o :
  MG M M' es -> nth_error M j = Some b -> okoff c (b_ents b) o ->
  from c M' j o = from c M j o ++ es.
Proof.
  intros HMG Hb Hok. pose proof HMG as (Hl & Hp & Hce).
  destruct (Hp j b Hb) as (b' & e1 & Hb' & _ & He & Hz).
  assert (Hj : (j < length M)%nat) by (apply nth_error_Some; congruence).
  unfold from. rewrite (nth_error_split_skipn _ _ _ Hb), (nth_error_split_skipn _ _ _ Hb').
  rewrite He, (ents_from_app c Hh _ _ _ Hok), <- !app_assoc. f_equal.
  (* the entries behind block j *)
  pose proof (chain_ents_firstn_skipn M' j) as S1. pose proof (chain_ents_firstn_skipn M j) as S2.
  rewrite (nth_error_split_skipn _ _ _ Hb') in S1. rewrite (nth_error_split_skipn _ _ _ Hb) in S2.
  rewrite (chain_ents_map_eq _ _ (MG_firstn_ents M M' es j HMG Hj)) in S1.
  change (chain_ents (b' :: skipn (S j) M')) with (b_ents b' ++ chain_ents (skipn (S j) M')) in S1.
  change (chain_ents (b :: skipn (S j) M)) with (b_ents b ++ chain_ents (skipn (S j) M)) in S2.
  rewrite Hce, S2, He, <- !app_assoc in S1.
  apply app_inv_head in S1. apply app_inv_head in S1. symmetry. exact S1.
Qed.

(* a good position stays good when the topic grows *)
Lemma PGood_grow c (Hh : 0 < c_hdr c) T T' p es :
  Grow T T' -> stream T' = stream T ++ es -> unread c T' = unread c T ++ es ->
  PGood c T p -> PGood c T' p.
Proof.
  intros ((q & Hq & _) & (es' & Hs' & HMG)) Hs Hu (j & b & Hb & Hpos & Hok & Hun).
  assert (es' = es) by (rewrite Hs in Hs'; now apply app_inv_head in Hs'). subst es'.
  pose proof HMG as (_ & Hp & _). destruct (Hp j b Hb) as (b' & e1 & Hb' & Hid & He & _).
  exists j, b'. split; [exact Hb'|]. split.
  - destruct (p_tail p); [congruence|]. destruct Hpos as (A & B). split; [exact A|]. rewrite Hq, app_length. lia.
  - split; [rewrite He; now apply okoff_app|].
    rewrite Hu, Hun. symmetry. eapply from_MG; eauto.
Qed.
