(* ConcMain.v — every schedule: the invariant holds along every run that does not pass through
   the seal-in-read window, and at the end it yields the C05 acceptor's verdict. *)
From W Require Import model.Base model.Engine model.Conc spec.ConcSpec proofs.EngineWF proofs.EngineInv proofs.EngineW proofs.EngineBR
  proofs.EngineMain proofs.ConcInv proofs.ConcStep proofs.ConcBridge.
From Coq Require Import ZArith ZifyBool ZifyN ZifyNat.

Definition env_of' (c : Cfg) (m : mode) (be : backend) : env := {| v_cfg := c; v_mode := m; v_backend := be |}.

Lemma upd_eq cs sh' tid th' : {| cs_sh := sh'; cs_threads := c_set_nth (cs_threads cs) tid th' |} = upd cs sh' tid th'.
Proof. reflexivity. Qed.

Lemma bf_mem_nil t : bf_mem [] t = false. Proof. reflexivity. Qed.

Lemma step_inv c m be progs cs tid cs' l k :
  cfg_ok c -> single_consumer progs -> NoDup (offered_pids progs) ->
  INV c progs cs ->
  cstep (env_of' c m be) false tid cs = OStep cs' l ->
  k_seal_in_read (kstep cs tid l k) = false ->
  INV c progs cs'.
Proof.
  intros Hc SC Hnd Hinv Hstep Hk. pose proof Hinv as [Inext Its Ibf Ilock Ilen Ith Iwin Idel Iown Iowned].
  unfold cstep in Hstep. destruct (nth_error (cs_threads cs) tid) as [th|] eqn:Hth; [|discriminate].
  destruct (th_todo th) as [|cl rest] eqn:Htodo; [discriminate|].
  destruct (Ith tid th Hth) as (Hok & Hsimple & Hhist).
  rewrite Htodo in Hsimple. inversion Hsimple as [|x y Hs1 Hs2]; subst x y.
  destruct cl as [t e|t es|t ck|t mb ck]; cbn in Hs1; try discriminate.
  - (* ---------------- append *)
    unfold th_ok in Hok. rewrite Htodo in Hok.
    cbn [seg env_of' v_cfg v_mode] in Hstep. unfold seg_append in Hstep.
    destruct (th_pc th) eqn:Hpc; try contradiction.
    + (* PStart *)
      destruct (ensure_writer c (sh_st (cs_sh cs)) t) as [s1 w0] eqn:Hens.
      rewrite Ibf, bf_mem_nil in Hstep.
      destruct (appendable c t (e_len e)) as [kk|] eqn:Hap; inversion Hstep; subst cs' l; rewrite upd_eq.
      * eapply (step_A1 c progs cs tid th t e rest _ s1 w0 Hc Hinv Hth Htodo Hpc Hens). right. eexists. reflexivity.
      * eapply (step_A1 c progs cs tid th t e rest _ s1 w0 Hc Hinv Hth Htodo Hpc Hens). left. split; [reflexivity|exact Hap].
    + (* PA_flag *)
      destruct (wl_holder (sh_wl (cs_sh cs)) (t_id t)) as [x|] eqn:Hfree; [discriminate|].
      destruct (ts_writer (get_ts (sh_st (cs_sh cs)) (t_id t))) as [w|] eqn:Hw.
      * destruct (b_limit w <? b_used w + need c e) eqn:Erot; inversion Hstep; subst cs' l; rewrite upd_eq.
        -- apply (step_A2_take c progs cs tid th t e rest w Hinv Hth Htodo Hpc Hfree Hw).
        -- apply (step_A2_write c progs cs tid th t e rest w Hc Hnd Hinv Hth Htodo Hpc Hfree Hw Erot).
      * inversion Hstep; subst cs' l. rewrite upd_eq.
        apply (step_ret_noop c progs cs tid th (CAppend t e) rest (RErr EOther) (t_id t) Hinv Hth Htodo eq_refl I).
        -- intros t'. unfold th_mid. now rewrite Htodo, Hpc.
        -- intros t'. unfold th_holds. now rewrite Htodo, Hpc.
        -- intros t'. unfold del_pending. now rewrite Htodo.
        -- intros t'. unfold wr_pending. now rewrite Htodo, Hpc.
    + (* PA_seal_pre *)
      inversion Hstep; subst cs' l. rewrite upd_eq.
      apply (step_A3 c progs cs tid th t e rest sealed Hc Hinv Hth Htodo Hpc).
      unfold kstep, cur_topic in Hk. rewrite Hth, Htodo in Hk. cbn [call_topic k_seal_in_read andb] in Hk.
      apply orb_false_iff in Hk. tauto.
    + (* PA_seal_post *)
      destruct (step_A4 c progs cs tid th t e rest Hc Hnd Hinv Hth Htodo Hpc) as (s1 & nb & Ha & HI).
      rewrite Ha in Hstep. inversion Hstep; subst cs' l. rewrite upd_eq. exact HI.
    + (* PA_written *)
      inversion Hstep; subst cs' l. rewrite upd_eq.
      apply (step_A5 c progs cs tid th t e rest Hc Hinv Hth Htodo Hpc).
  - (* ---------------- read_next *)
    destruct ck; [|discriminate].
    unfold th_ok in Hok. rewrite Htodo in Hok. destruct Hok as (_ & Hok).
    cbn [seg env_of' v_cfg v_mode] in Hstep. unfold seg_read in Hstep.
    destruct (th_pc th) eqn:Hpc; try contradiction.
    + (* PStart *)
      inversion Hstep; subst cs' l. rewrite upd_eq.
      apply (step_R1 c progs cs tid th t rest Hc SC Hinv Hth Htodo Hpc).
    + (* PR_top *)
      unfold rn_top in Hstep.
      destruct (nth_error (r_chain (reader_of (get_ts (sh_st (cs_sh cs)) (t_id t)))) (r_idx (reader_of (get_ts (sh_st (cs_sh cs)) (t_id t))))) as [b|] eqn:Hnth.
      * destruct (b_used b <=? r_off (reader_of (get_ts (sh_st (cs_sh cs)) (t_id t)))) eqn:Eex.
        -- inversion Hstep; subst cs' l. rewrite upd_eq.
           apply (step_R2_adv c progs cs tid th t rest b Hc SC Hinv Hth Htodo Hpc Hnth). lia.
        -- destruct (step_R2_read c m progs cs tid th t rest b Hc SC Hinv Hth Htodo Hpc Hnth ltac:(lia)) as (e & Hbr & HI).
           rewrite Hbr in Hstep. cbn zeta in HI.
           destruct (should_persist m _ false) as [r5 p] eqn:Esp. inversion Hstep; subst cs' l. rewrite upd_eq.
           apply (HI r5 p eq_refl).
      * inversion Hstep; subst cs' l. rewrite upd_eq.
        apply (step_R2_tail c progs cs tid th t rest Hinv Hth Htodo Hpc Hnth).
    + (* PR_commit *)
      destruct pers as [pp|]; inversion Hstep; subst cs' l; rewrite upd_eq.
      * destruct tl; apply (step_R3_idx c progs cs tid th t rest _ r pp Hc SC Hinv Hth Htodo Hpc).
      * apply (step_R_ret c progs cs tid th t rest r Hc SC Hinv Hth Htodo). left. eexists. exact Hpc.
    + (* PR_idx *)
      inversion Hstep; subst cs' l. rewrite upd_eq.
      apply (step_R_ret c progs cs tid th t rest r Hc SC Hinv Hth Htodo). right. exact Hpc.
    + (* PR_t_snap *)
      destruct (ts_writer (get_ts (sh_st (cs_sh cs)) (t_id t))) as [w|] eqn:Hw.
      * destruct (wl_holder (sh_wl (cs_sh cs)) (t_id t)) as [x|] eqn:Hfree; [discriminate|].
        inversion Hstep; subst cs' l. rewrite upd_eq.
        apply (step_R5 c progs cs tid th t rest sb so w Hinv Hth Htodo Hpc Hw Hfree).
      * inversion Hstep; subst cs' l. rewrite upd_eq.
        apply (step_ret_noop c progs cs tid th (CRead t true) rest RNone (t_id t) Hinv Hth Htodo eq_refl I).
        -- intros t'. unfold th_mid. now rewrite Htodo.
        -- intros t'. unfold th_holds. now rewrite Htodo.
        -- intros t'. unfold del_pending. now rewrite Htodo, Hpc.
        -- intros t'. unfold wr_pending. now rewrite Htodo.
    + (* PR_t_wsnap *)
      cbn [andb] in Hstep. inversion Hstep; subst cs' l. rewrite upd_eq.
      apply (step_R6 c m progs cs tid th t rest sb so a Hc SC Hinv Hth Htodo Hpc).
    + (* PR_t_init *)
      destruct (off <? b_used a) eqn:Elt.
      * destruct (step_R7 c m progs cs tid th t rest a off Hc SC Hinv Hth Htodo Hpc ltac:(lia)) as (e & Hbr & HI).
        rewrite Hbr in Hstep. cbn [andb] in Hstep. cbn zeta in HI.
        destruct (should_persist m _ false) as [r6 p] eqn:Esp. inversion Hstep; subst cs' l. rewrite upd_eq.
        apply (HI r6 p eq_refl).
      * inversion Hstep; subst cs' l. rewrite upd_eq.
        apply (step_ret_noop c progs cs tid th (CRead t true) rest RNone (t_id t) Hinv Hth Htodo eq_refl I).
        -- intros t'. unfold th_mid. now rewrite Htodo.
        -- intros t'. unfold th_holds. now rewrite Htodo.
        -- intros t'. unfold del_pending. now rewrite Htodo, Hpc.
        -- intros t'. unfold wr_pending. now rewrite Htodo.
Qed.

(* ------------------------------------------------------------------ every schedule *)
Lemma kflag_mono_step cs tid l k : k_seal_in_read k = true -> k_seal_in_read (kstep cs tid l k) = true.
Proof. intros H. unfold kstep. destruct (cur_topic cs tid); [|exact H]. cbn. now rewrite H. Qed.

Lemma kflag_mono_run v fx : forall sched cs acc k,
  k_seal_in_read k = true -> k_seal_in_read (ro_k (crun_from v fx cs sched acc k)) = true.
Proof.
  induction sched as [|tid rest IH]; intros cs acc k H; cbn [crun_from ro_k]; [exact H|].
  destruct (cstep v fx tid cs) as [cs' l| |]; cbn [ro_k]; auto. apply IH. now apply kflag_mono_step.
Qed.

Lemma run_inv c m be progs : cfg_ok c -> single_consumer progs -> NoDup (offered_pids progs) ->
  forall sched cs acc k, INV c progs cs ->
  k_seal_in_read (ro_k (crun_from (env_of' c m be) false cs sched acc k)) = false ->
  INV c progs (ro_cs (crun_from (env_of' c m be) false cs sched acc k)).
Proof.
  intros Hc SC Hnd. induction sched as [|tid rest IH]; intros cs acc k Hinv Hk; cbn [crun_from ro_cs] in *; [exact Hinv|].
  destruct (cstep (env_of' c m be) false tid cs) as [cs' l| |] eqn:Es; cbn [ro_cs ro_k] in *; auto.
  apply IH; [|exact Hk].
  apply (step_inv c m be progs cs tid cs' l k Hc SC Hnd Hinv Es).
  destruct (k_seal_in_read (kstep cs tid l k)) eqn:E; [|reflexivity].
  rewrite (kflag_mono_run _ _ rest cs' _ _ E) in Hk. discriminate.
Qed.

Definition simple_progs (progs : list (list call)) : Prop :=
  Forall (Forall (fun cl => simple_call cl = true)) progs.

Lemma INV_init c progs : simple_progs progs -> INV c progs (cinit progs).
Proof.
  intros Hs.
  assert (Hnth : forall i th, nth_error (cs_threads (cinit progs)) i = Some th ->
            th = {| th_todo := nth i progs []; th_pc := PStart; th_done := [] |} /\ (i < length progs)%nat).
  { intros i th H. unfold cinit in H. cbn [cs_threads] in H. rewrite nth_error_map in H.
    destruct (nth_error progs i) as [p|] eqn:E; [|discriminate]. cbn in H. inversion H; subst.
    split; [f_equal; symmetry; now apply nth_error_nth|eapply nth_error_lt; eauto]. }
  assert (Hmid : forall t, mid (cinit progs) t = false).
  { intros t. unfold mid. destruct (existsb (th_mid t) (cs_threads (cinit progs))) eqn:E; [|reflexivity].
    apply existsb_exists in E. destruct E as (x & Hin & Hx). apply In_nth_error in Hin. destruct Hin as (i & Hi).
    destruct (Hnth i x Hi) as (-> & _). unfold th_mid in Hx. cbn in Hx. destruct (nth i progs []) as [|[| | |] ?]; discriminate. }
  assert (Heff : forall t, eff (cinit progs) t = tstate0) by (intros t; unfold eff; rewrite Hmid; reflexivity).
  constructor.
  - unfold nid_of. cbn. lia.
  - intros t. rewrite Heff. apply TInv_P, TInv0. unfold nid_of. cbn. lia.
  - reflexivity.
  - intros t. cbn. intros i th Hi. destruct (Hnth i th Hi) as (-> & _). unfold th_holds. cbn. now destruct (nth i progs []) as [|[| | |] ?].
  - unfold cinit. cbn. apply map_length.
  - intros i th Hi. destruct (Hnth i th Hi) as (-> & Hlt).
    assert (Hsi : Forall (fun cl => simple_call cl = true) (nth i progs [])).
    { eapply Forall_forall in Hs; [exact Hs|]. apply nth_In. exact Hlt. }
    split; [apply th_ok_start; [reflexivity|exact Hsi]|]. split; [exact Hsi|]. exists []. split; [reflexivity|constructor].
  - intros i th Hi. destruct (Hnth i th Hi) as (-> & _). apply win_ok_start. reflexivity.
  - intros t i th Hi _. destruct (Hnth i th Hi) as (-> & _). rewrite Heff. unfold del_seq, del_pending. cbn.
    destruct (done_of _ _); cbn; now destruct (nth i progs []) as [|[| |? [|]|] ?].
  - intros t i th Hi. destruct (Hnth i th Hi) as (-> & _). rewrite Heff. unfold wr_seq, wr_pending. cbn.
    destruct (done_of _ _); cbn; now destruct (nth i progs []) as [|[| | |] ?].
  - intros t e Hin. rewrite Heff in Hin. destruct Hin.
Qed.

Theorem inv_every_schedule c m be progs sched :
  cfg_ok c -> simple_progs progs -> single_consumer progs -> NoDup (offered_pids progs) ->
  let ro := run_schedule (env_of' c m be) false progs sched in
  k_seal_in_read (ro_k ro) = false -> INV c progs (ro_cs ro).
Proof.
  intros Hc Hs SC Hnd ro Hk. unfold ro, run_schedule in *.
  apply (run_inv c m be progs Hc SC Hnd sched (cinit progs) [] kflags0 (INV_init c progs Hs) Hk).
Qed.

(* ------------------------------------------------------------------ C05 for one consumer per topic *)
Theorem single_consumer_outside_known c m be progs sched :
  cfg_ok c -> simple_progs progs -> single_consumer progs -> NoDup (offered_pids progs) ->
  let ro := run_schedule (env_of' c m be) false progs sched in
  k_seal_in_read (ro_k ro) = false -> threads_done (ro_cs ro) = true ->
  c05_run_ok progs (cresults (ro_cs ro)) false = true.
Proof.
  intros Hc Hs SC Hnd ro Hk Hdone.
  apply (inv_accepts c progs (ro_cs ro) Hs SC Hnd); [|exact Hdone].
  apply (inv_every_schedule c m be progs sched Hc Hs SC Hnd Hk).
Qed.
