(* Crash points inside a single append AFTER any history with restarts (any mode), outside block-id
   drift: the append-side twin of [crash_inside_batch_after_restarts].  The streams do not depend on
   readers, so the mode-generic invariant GM (EngineGen / EngineGenR) carries the disk invariant DIs
   and the ledger through every restart; [reopen_stream] then rebuilds the streams of the state before
   and after the append. *)
From W Require Import model.Base model.Engine spec.Queue spec.Crash proofs.EngineBasic proofs.EngineWF proofs.EngineInv proofs.EngineBR proofs.EngineW
  proofs.EngineMain proofs.EngineRec proofs.EngineDisk proofs.EnginePos proofs.EngineBlk proofs.EngineNorm proofs.EngineRestart
  proofs.EngineReopen proofs.EngineC06 proofs.CrashP proofs.EngineNormW proofs.EngineRaw proofs.EngineP3L proofs.EngineIdxL proofs.EngineALO proofs.AloAccP
  proofs.EngineGen proofs.EngineGenR proofs.EngineCrash.
From Coq Require Import ZArith ZifyBool ZifyN ZifyNat.
Local Open Scope N_scope.

Lemma GM_stream c s g B Bb t : GM c s g B Bb -> stream (get_ts s t) = l_app (lget g t).
Proof.
  intros HG. destruct (GM_Rel false c s g B Bb HG) as (_ & Hall). destruct (Hall t) as (_ & Hs & _).
  rewrite get_Nst, nrm_stream in Hs. exact Hs.
Qed.

Theorem crash_inside_append_after_restarts c m be ops t e : cfg_ok c ->
  outside_known (env_of c m be) init ops = true ->
  N.of_nat (length (offered_all ops)) + 1 <= u64_max -> sum_len (offered_all ops) + e_len e <= u64_max ->
  let s := exec (env_of c m be) init ops in
  let s' := fst (step (env_of c m be) s (OAppend t e)) in
  forall image, image = reopen c s \/ image = reopen c s' ->
    (exists k, (k <= 1)%nat /\ stream (get_ts image (t_id t)) = stream (get_ts s (t_id t)) ++ firstn k [e]) /\
    forall t0, t0 <> t_id t -> stream (get_ts image t0) = stream (get_ts s t0).
Proof.
  intros Hc Hout HB HBb. cbn zeta. pose proof Hc as (_ & Hb0 & _).
  destruct (GM_reachable c m be Hc ops init [] 0 0 (GM_init c Hb0) Hout ltac:(lia) ltac:(lia)) as (g & HG).
  set (s := exec (env_of c m be) init ops) in *.
  pose proof (GM_step c m be s g _ _ (OAppend t e) Hc HG I ltac:(cbn [offered length]; lia) ltac:(cbn [offered sum_len fold_right]; lia)) as (_ & HG').
  destruct (step (env_of c m be) s (OAppend t e)) as [s' r]. cbn [fst snd] in *.
  pose proof HG as (_ & Hd & _). pose proof HG' as (_ & Hd' & _).
  intros image [->| ->].
  - split; [exists 0%nat; split; [lia|]; rewrite (reopen_stream c s Hc Hd); cbn; now rewrite app_nil_r|].
    intros t0 _. apply (reopen_stream c s Hc Hd).
  - split.
    + rewrite (reopen_stream c s' Hc Hd'), (GM_stream _ _ _ _ _ (t_id t) HG'), (GM_stream _ _ _ _ _ (t_id t) HG).
      destruct r; cbn [ledger_step]; try (exists 0%nat; split; [lia|]; cbn; now rewrite app_nil_r).
      exists 1%nat. split; [lia|]. rewrite lget_lset_same. reflexivity.
    + intros t0 Hne. rewrite (reopen_stream c s' Hc Hd'), (GM_stream _ _ _ _ _ t0 HG'), (GM_stream _ _ _ _ _ t0 HG).
      destruct r; cbn [ledger_step]; try reflexivity. now rewrite lget_lset_other by exact Hne.
Qed.

(* a crash BETWEEN two operations of any history with restarts outside drift, any mode: every stream is rebuilt *)
Theorem restart_rebuilds_streams_after_restarts c m be ops : cfg_ok c ->
  outside_known (env_of c m be) init ops = true ->
  N.of_nat (length (offered_all ops)) <= u64_max -> sum_len (offered_all ops) <= u64_max ->
  forall t, stream (get_ts (reopen c (exec (env_of c m be) init ops)) t) = stream (get_ts (exec (env_of c m be) init ops) t).
Proof.
  intros Hc Hout HB HBb t. pose proof Hc as (_ & Hb0 & _).
  destruct (GM_reachable c m be Hc ops init [] 0 0 (GM_init c Hb0) Hout ltac:(lia) ltac:(lia)) as (g & HG).
  destruct HG as (_ & Hd & _). apply (reopen_stream c _ Hc Hd).
Qed.

(* C08 / C07 boolean form after any history with restarts outside drift, any mode *)
Corollary crash_only_prefixes_after_restarts c m be ops t es j : cfg_ok c ->
  outside_known (env_of c m be) init ops = true ->
  N.of_nat (length (offered_all ops)) <= u64_max -> sum_len (offered_all ops) <= u64_max ->
  batch_ok c t es ->
  let s := exec (env_of c m be) init ops in
  exists k, (k <= length es)%nat /\ stream_of (batch_crash c s t es j) (t_id t) = stream_of s (t_id t) ++ firstn k es.
Proof.
  intros Hc Hout HB HBb Hbok. cbn zeta. exists (Nat.min j (length es)). split; [lia|].
  rewrite !stream_of_stream, (crash_inside_batch_after_restarts c m be ops t es j Hc Hout HB HBb Hbok (t_id t)), N.eqb_refl. f_equal.
  destruct (Nat.le_gt_cases j (length es)) as [H|H]; [now rewrite Nat.min_l by lia|].
  rewrite Nat.min_r by lia. rewrite !firstn_all2 by lia. reflexivity.
Qed.

Corollary crash_inside_batch_c07_after_restarts c m be ops t es j : cfg_ok c ->
  outside_known (env_of c m be) init ops = true ->
  N.of_nat (length (offered_all ops)) <= u64_max -> sum_len (offered_all ops) <= u64_max ->
  batch_ok c t es ->
  let s := exec (env_of c m be) init ops in
  c07_ok (stream_of s (t_id t)) es (map out_of (stream_of (batch_crash c s t es j) (t_id t))) = true /\
  forall t0, t0 <> t_id t -> stream_of (batch_crash c s t es j) t0 = stream_of s t0.
Proof.
  intros Hc Hout HB HBb Hbok. cbn zeta. split.
  - apply c07_ok_spec. exists (Nat.min j (length es)). split; [lia|].
    rewrite !stream_of_stream, (crash_inside_batch_after_restarts c m be ops t es j Hc Hout HB HBb Hbok (t_id t)), N.eqb_refl.
    replace (firstn (Nat.min j (length es)) es) with (firstn j es).
    + apply outs_are_map.
    + destruct (Nat.le_gt_cases j (length es)) as [H|H]; [now rewrite Nat.min_l by lia|].
      rewrite Nat.min_r by lia. rewrite !firstn_all2 by lia. reflexivity.
  - intros t0 Hne. rewrite !stream_of_stream, (crash_inside_batch_after_restarts c m be ops t es j Hc Hout HB HBb Hbok t0).
    now replace (t0 =? t_id t) with false by lia.
Qed.

(* ------------------------------------------------------------------ C07 in one statement *)
(* the entries an operation puts in flight for topic [t0] *)
Definition inflight (o : op) (t0 : N) : list entry :=
  match o with
  | OAppend t e => if t0 =? t_id t then [e] else []
  | OBatch t es => if t0 =? t_id t then es else []
  | _ => []
  end.

(* the crash images of operation [o] started in state [s] (process-crash model, completed writes persist):
   nothing of it happened / all of it happened (appends: one positional write; reads: the atomic index
   rename; queries: nothing durable) / for an admissible batch, the first j entry writes happened *)
Inductive crash_image (c : Cfg) (v : env) (s : st) : op -> st -> Prop :=
| CI_before o : crash_image c v s o (reopen c s)
| CI_after o : op_ok c o -> crash_image c v s o (reopen c (fst (step v s o)))
| CI_batch t es j : batch_ok c t es -> crash_image c v s (OBatch t es) (batch_crash c s t es j).

Lemma ledger_step_app g o r t0 :
  exists k, (k <= length (inflight o t0))%nat /\
            l_app (lget (ledger_step g o r) t0) = l_app (lget g t0) ++ firstn k (inflight o t0).
Proof.
  assert (H0 : forall l : list entry, exists k, (k <= length l)%nat /\ l_app (lget g t0) = l_app (lget g t0) ++ firstn k l).
  { intros l. exists 0%nat. split; [lia|]. cbn. now rewrite app_nil_r. }
  destruct o as [t e | t es | t ck | t maxb ck start | t | ]; cbn [inflight].
  - destruct r; cbn [ledger_step]; try apply H0.
    destruct (N.eq_dec t0 (t_id t)) as [->|Hne].
    + rewrite lget_lset_same, N.eqb_refl. exists 1%nat. split; [cbn; lia|reflexivity].
    + rewrite lget_lset_other by exact Hne. apply H0.
  - destruct r; cbn [ledger_step]; try apply H0.
    destruct (N.eq_dec t0 (t_id t)) as [->|Hne].
    + rewrite lget_lset_same, N.eqb_refl. exists (length es). split; [lia|]. cbn. now rewrite firstn_all.
    + rewrite lget_lset_other by exact Hne. apply H0.
  - destruct ck; [|cbn [ledger_step]; destruct r; apply (H0 [])].
    destruct r; cbn [ledger_step]; try apply (H0 []).
    destruct (N.eq_dec t0 (t_id t)) as [->|Hne]; [rewrite lget_lset_same|rewrite lget_lset_other by exact Hne]; apply (H0 []).
  - destruct ck; [|cbn [ledger_step]; destruct r; apply (H0 [])].
    destruct start; [cbn [ledger_step]; destruct r; apply (H0 [])|].
    destruct r; cbn [ledger_step]; try apply (H0 []).
    destruct (N.eq_dec t0 (t_id t)) as [->|Hne]; [rewrite lget_lset_same|rewrite lget_lset_other by exact Hne]; apply (H0 []).
  - cbn [ledger_step]. destruct r; apply (H0 []).
  - cbn [ledger_step]. destruct r; apply (H0 []).
Qed.

(* C07, model level, every crash point of every operation: after ANY history with restarts outside
   block-id drift (any mode, any backend), for every operation [o] and every crash image of it, every
   topic holds exactly its acknowledged stream followed by a prefix of what [o] had in flight for it *)
Theorem c07_every_crash_image c m be ops o : cfg_ok c ->
  outside_known (env_of c m be) init ops = true ->
  N.of_nat (length (offered_all ops)) + N.of_nat (length (offered o)) <= u64_max ->
  sum_len (offered_all ops) + sum_len (offered o) <= u64_max ->
  let v := env_of c m be in
  let s := exec v init ops in
  forall image, crash_image c v s o image ->
  forall t0, exists k, (k <= length (inflight o t0))%nat /\
                       stream (get_ts image t0) = stream (get_ts s t0) ++ firstn k (inflight o t0).
Proof.
  intros Hc Hout HB HBb. cbn zeta. pose proof Hc as (_ & Hb0 & _).
  destruct (GM_reachable c m be Hc ops init [] 0 0 (GM_init c Hb0) Hout ltac:(lia) ltac:(lia)) as (g & HG).
  set (s := exec (env_of c m be) init ops) in *.
  intros image Hci t0. inversion Hci as [o' | o' Hoko | t es j Hbok]; subst.
  - exists 0%nat. split; [lia|]. pose proof HG as (_ & Hd & _). rewrite (reopen_stream c s Hc Hd). cbn. now rewrite app_nil_r.
  - pose proof (GM_step c m be s g _ _ o Hc HG Hoko ltac:(lia) ltac:(lia)) as (_ & HG').
    pose proof HG' as (_ & Hd' & _).
    rewrite (reopen_stream c _ Hc Hd'), (GM_stream _ _ _ _ _ t0 HG'), (GM_stream _ _ _ _ _ t0 HG).
    apply ledger_step_app.
  - cbn [offered] in HB, HBb. unfold s.
    rewrite (crash_inside_batch_after_restarts c m be ops t es j Hc Hout ltac:(lia) ltac:(lia) Hbok t0). cbn [inflight].
    destruct (t0 =? t_id t) eqn:E.
    + apply N.eqb_eq in E. subst t0. exists (Nat.min j (length es)). split; [lia|]. f_equal.
      destruct (Nat.le_gt_cases j (length es)) as [H|H]; [now rewrite Nat.min_l by lia|].
      rewrite Nat.min_r by lia. rewrite !firstn_all2 by lia. reflexivity.
    + exists 0%nat. split; [cbn; lia|]. cbn. now rewrite app_nil_r.
Qed.

(* the same in the boolean form the check applies to implementation crash runs *)
Corollary c07_every_crash_image_accepted c m be ops o : cfg_ok c ->
  outside_known (env_of c m be) init ops = true ->
  N.of_nat (length (offered_all ops)) + N.of_nat (length (offered o)) <= u64_max ->
  sum_len (offered_all ops) + sum_len (offered o) <= u64_max ->
  let v := env_of c m be in
  let s := exec v init ops in
  forall image, crash_image c v s o image ->
  forall t0, c07_ok (stream_of s t0) (inflight o t0) (map out_of (stream_of image t0)) = true.
Proof.
  intros Hc Hout HB HBb. cbn zeta. intros image Hci t0.
  destruct (c07_every_crash_image c m be ops o Hc Hout HB HBb image Hci t0) as (k & Hk & Hs).
  apply c07_ok_spec. exists k. split; [exact Hk|].
  rewrite !stream_of_stream, Hs. apply outs_are_map.
Qed.
