(* EngineSince.v — AtLeastOnce{persist_every = n}: the persisted position lags behind the consumer
   by exactly [r_since] entries (the reader's "reads since the last persist" counter), and that
   counter stays below the period max n 1 — along every restart-free history whose consuming
   reads are read_next calls.  Hence a crash between two operations re-delivers at most
   persist_every entries (and skips none). *)
From W Require Import model.Base model.Engine spec.Queue proofs.EngineBasic proofs.EngineWF proofs.EngineInv proofs.EngineBR proofs.EngineW
  proofs.EngineMain proofs.EngineRec proofs.EngineDisk proofs.EnginePos proofs.EngineGrow proofs.EngineP3 proofs.EngineIdx proofs.EngineBlk
  proofs.EngineNorm proofs.EngineNormW proofs.EngineRaw proofs.EngineRestart proofs.EngineReopen proofs.EngineC06 proofs.EngineP3L
  proofs.EngineIdxL proofs.EnginePWL proofs.EngineALO proofs.EngineALO2.
From Coq Require Import ZArith ZifyBool ZifyN ZifyNat.

(* the lag, numbered: what lies behind the persisted position (everything, if none is persisted)
   is [pre ++ unread] with exactly r_since delivered entries in front *)
Definition LN (c : Cfg) (T : tstate) : Prop :=
  match ts_index T with
  | None => exists pre, stream T = pre ++ unread c T /\ N.of_nat (length pre) = r_since (reader_of T)
  | Some p => exists j b pre, nth_error (memne T) j = Some b /\
      (if p_tail p then b_id b = p_a p else p_a p = N.of_nat j /\ (j < length (chain_of T))%nat) /\
      okoff c (b_ents b) (p_off p) /\
      from c (memne T) j (p_off p) = pre ++ unread c T /\ N.of_nat (length pre) = r_since (reader_of T)
  end.

Definition LNs (c : Cfg) (n : N) (s : st) : Prop :=
  forall t, LN c (get_ts s t) /\ r_since (reader_of (get_ts s t)) < N.max n 1.

Lemma LNs_init c n : LNs c n init.
Proof. intros t. change (get_ts init t) with tstate0. split; [exists []; split; reflexivity|cbn; lia]. Qed.

(* consuming batch reads never persist in AtLeastOnce mode (and reset the counter): excluded *)
Definition rn_only (o : op) : bool :=
  match o with OBatchRead _ _ true None => false | _ => true end.

(* ------------------------------------------------------------------ LN only looks at these components *)
Lemma LN_ext c T T' : chain_of T' = chain_of T -> ts_writer T' = ts_writer T -> ts_index T' = ts_index T ->
  unread c T' = unread c T -> r_since (reader_of T') = r_since (reader_of T) -> LN c T -> LN c T'.
Proof.
  intros Hc Hw Hi Hu Hsn H.
  assert (Hwl : w_list T' = w_list T) by (unfold w_list; now rewrite Hw).
  assert (Hm : memne T' = memne T) by (unfold memne; now rewrite Hc, Hwl).
  assert (Hs : stream T' = stream T) by (unfold stream, w_ents; now rewrite Hc, Hw).
  unfold LN in *. rewrite Hi. destruct (ts_index T) as [p|].
  - destruct H as (j & b & pre & A1 & A2 & A3 & A4 & A5). exists j, b, pre. rewrite Hm, Hc, Hu, Hsn. auto.
  - destruct H as (pre & A1 & A2). exists pre. rewrite Hs, Hu, Hsn. auto.
Qed.

(* one more delivered, unpersisted entry *)
Lemma LN_consume c T T' e : chain_of T' = chain_of T -> ts_writer T' = ts_writer T -> ts_index T' = ts_index T ->
  unread c T = e :: unread c T' -> r_since (reader_of T') = r_since (reader_of T) + 1 -> LN c T -> LN c T'.
Proof.
  intros Hc Hw Hi Hu Hsn H.
  assert (Hwl : w_list T' = w_list T) by (unfold w_list; now rewrite Hw).
  assert (Hm : memne T' = memne T) by (unfold memne; now rewrite Hc, Hwl).
  assert (Hs : stream T' = stream T) by (unfold stream, w_ents; now rewrite Hc, Hw).
  unfold LN in *. rewrite Hi. destruct (ts_index T) as [p|].
  - destruct H as (j & b & pre & A1 & A2 & A3 & A4 & A5). exists j, b, (pre ++ [e]).
    rewrite Hm, Hc, Hsn, A4, Hu, <- app_assoc, app_length. cbn [app length]. repeat split; auto; lia.
  - destruct H as (pre & A1 & A2). exists (pre ++ [e]). rewrite Hs, Hsn, A1, Hu, <- app_assoc, app_length. cbn [app length]. split; [reflexivity|lia].
Qed.

(* the position was just persisted: no lag *)
Lemma LN_good c T p : ts_index T = Some p -> PGood c T p -> r_since (reader_of T) = 0 -> LN c T.
Proof.
  intros Hi (j & b & A1 & A2 & A3 & A4) Hs. unfold LN. rewrite Hi. exists j, b, []. rewrite <- A4, Hs. auto.
Qed.

(* the topic grows behind the position *)
Lemma LN_grow c (Hh : 0 < c_hdr c) T T' es :
  Grow T T' -> stream T' = stream T ++ es -> unread c T' = unread c T ++ es ->
  ts_index T' = ts_index T -> r_since (reader_of T') = r_since (reader_of T) -> LN c T -> LN c T'.
Proof.
  intros ((q & Hq & _) & (es' & Hs' & HMG)) Hs Hu Hi Hsn H.
  assert (es' = es) by (rewrite Hs in Hs'; now apply app_inv_head in Hs'). subst es'.
  unfold LN in *. rewrite Hi, Hsn. destruct (ts_index T) as [p|].
  - destruct H as (j & b & pre & Hb & Hpos & Hok & Hun & Hl).
    pose proof HMG as (_ & Hp & _). destruct (Hp j b Hb) as (b' & e1 & Hb' & Hid & He & _).
    exists j, b', pre. split; [exact Hb'|]. split.
    { destruct (p_tail p); [congruence|]. destruct Hpos as (A & B). split; [exact A|]. rewrite Hq, app_length. lia. }
    split; [rewrite He; now apply okoff_app|].
    split; [|exact Hl]. rewrite (from_MG c Hh _ _ _ _ _ _ HMG Hb Hok), Hun, Hu. now rewrite app_assoc.
  - destruct H as (pre & A1 & A2). exists pre. split; [|exact A2]. rewrite Hs, A1, Hu. now rewrite app_assoc.
Qed.

(* ------------------------------------------------------------------ a batch-read peek only hydrates the reader *)
Lemma batch_read_peek c m s t maxb nid : TInv c nid (get_ts s (t_id t)) ->
  exists r1 res, batch_read c m s t maxb false None = (set_ts s (t_id t) (with_reader (get_ts s (t_id t)) r1), res) /\
    r_chain r1 = chain_of (get_ts s (t_id t)) /\ r_idx r1 = r_idx (reader_of (get_ts s (t_id t))) /\
    r_off r1 = r_off (reader_of (get_ts s (t_id t))) /\ r_tail_bid r1 = r_tail_bid (reader_of (get_ts s (t_id t))) /\
    r_tail_off r1 = r_tail_off (reader_of (get_ts s (t_id t))) /\ r_since r1 = r_since (reader_of (get_ts s (t_id t))).
Proof.
  intros Hinv. set (ts := get_ts s (t_id t)) in *.
  destruct (hydrate_fresh (reader_of ts) (ts_index ts) true (ti_hyd _ _ _ Hinv)) as (r1 & Hhy & E1 & E2 & E3 & E4 & E5 & E6 & E7).
  exists r1. unfold batch_read, br_position. fold ts. rewrite Hhy. cbn beta iota zeta.
  unfold br_from.
  destruct (plan_sealed _ _ _ _ _ _ _ _ _) as [[[racc planned] idx_after] truncated].
  match goal with |- context [let '(_, _) := ?X in _] => destruct X as [racc2 trim1] end.
  destruct racc2; cbn [negb andb]; rewrite ?andb_false_r; eexists; (split; [reflexivity|]); unfold chain_of; auto 10.
Qed.

Lemma unread_with_reader c ts r1 :
  r_chain r1 = chain_of ts -> r_idx r1 = r_idx (reader_of ts) -> r_off r1 = r_off (reader_of ts) ->
  r_tail_bid r1 = r_tail_bid (reader_of ts) -> r_tail_off r1 = r_tail_off (reader_of ts) ->
  unread c (with_reader ts r1) = unread c ts.
Proof.
  intros E1 E2 E3 E4 E5. unfold unread, tail_start, w_ents, chain_of in *. cbn [reader_of with_reader ts_reader ts_writer].
  now rewrite E1, E2, E3, E4, E5.
Qed.

(* ------------------------------------------------------------------ across the restart, with the very [pre] of LN *)
Lemma skipn_back2 {A} (l pre : list A) k d : (d <= length l)%nat -> skipn k l = pre ++ skipn d l ->
  exists k', (k' <= d)%nat /\ (d - k' <= length pre)%nat /\ skipn k' l = skipn k l.
Proof.
  intros Hd H.
  assert (Hlen : length (skipn k l) = (length pre + length (skipn d l))%nat) by (rewrite H; apply app_length).
  rewrite !skipn_length in Hlen.
  destruct (Nat.le_gt_cases k d) as [Hle|Hgt]; [exists k; repeat split; auto; lia|].
  exists d. split; [lia|]. split; [lia|].
  assert (d = length l) by lia. subst d.
  rewrite skipn_all. rewrite skipn_all2 by lia. reflexivity.
Qed.

Lemma reopen_unread_LN c s t x nid : cfg_ok c -> DIs c s -> BIs c s -> DLim c s ->
  TInv c nid (get_ts s t) -> LN c (get_ts s t) -> id_drift c s = false ->
  stream (get_ts (reopen c s) t) = stream (get_ts s t) /\
  exists pre, N.of_nat (length pre) = r_since (reader_of (get_ts s t)) /\
    unread c (nrm x (get_ts (reopen c s) t)) = pre ++ unread c (get_ts s t) /\
    exists k, unread c (nrm x (get_ts (reopen c s) t)) = skipn k (stream (get_ts s t)).
Proof.
  intros Hc Hd Hb Hl Hti Hln Hdrift. pose proof Hc as (Hh & Hb0 & _).
  pose proof (reopen_stream c s Hc Hd t) as Hst. split; [exact Hst|].
  pose proof (di_wf _ _ _ _ _ _ Hd) as Hwf.
  destruct (reopen_shape c s t Hh Hb0 Hwf) as (S1 & S2 & S3 & S4 & S5 & S6 & Hcase). cbn zeta in *.
  set (ts := get_ts s t) in *. set (ts' := get_ts (reopen c s) t) in *.
  destruct Hcase as [(old & Hin & Hold & Hrch)|(H0 & H0')].
  2:{ rewrite H0', H0. rewrite nrm_tstate0. exists []. split; [reflexivity|]. split; [reflexivity|exists 0%nat; reflexivity]. }
  destruct (reopen_chain c s t Hc Hd Hb Hl) as (C1 & C2 & C3 & C4 & _). cbn zeta in *. fold ts ts' in C1, C2, C3, C4.
  set (rch := chain_of ts') in *.
  assert (Hents : map b_ents rch = map b_ents (memne ts)) by (rewrite C1; apply mblocks_memne).
  assert (Hids : map b_id rch = map b_id (memne ts)) by (rewrite Hrch, Hold; now apply nodrift_ids).
  assert (Hstream : chain_ents rch = stream ts) by (rewrite (chain_ents_map_eq _ _ Hents); apply chain_ents_memne).
  assert (Hhy' : r_hydrated (reader_of ts') = false) by (rewrite S1; reflexivity).
  assert (Hwe : w_ents ts' = []) by (unfold w_ents; now rewrite S3).
  unfold LN in Hln. destruct (ts_index ts) as [p|] eqn:Eidx.
  2:{ assert (Hnrm : nrm x ts' = ts') by (unfold nrm; now rewrite Hhy', S2).
      assert (Hun' : unread c ts' = chain_ents rch).
      { unfold unread. rewrite S1. cbn [mk_reader r_idx r_off r_chain startup_cursor fst snd skipn]. rewrite S3.
        destruct rch as [|b0 r0]; [reflexivity|]. rewrite Hwe, app_nil_r, ents_from_0. reflexivity. }
      destruct Hln as (pre & A1 & A2). exists pre. rewrite Hnrm, Hun', Hstream. split; [exact A2|]. split; [exact A1|exists 0%nat; reflexivity]. }
  destruct Hln as (j & b & pre & Hbj & Hpos & Hok & Hfrom & Hlen).
  destruct (nth_error_map_eq b_ents _ _ j b (eq_sym Hents) Hbj) as (b' & Hb' & He').
  destruct (nth_error_map_eq b_id _ _ j b (eq_sym Hids) Hbj) as (b'' & Hb'' & Hi').
  rewrite Hb' in Hb''. inversion Hb''; subst b''.
  assert (Hpos' : if p_tail p then b_id b' = p_a p else p_a p = N.of_nat j) by (destruct (p_tail p); [congruence|exact (proj1 Hpos)]).
  assert (Hok' : okoff c (b_ents b') (p_off p)) by (now rewrite He').
  assert (Hbw : bwf c b') by (eapply Forall_forall in C2; [exact C2|eapply nth_error_In; eauto]).
  destruct (hyd_mk c x rch (startup_cursor rch (Some p)) p j b' Hb' Hok' (proj1 Hbw) C4 Hpos') as (R1 & R2 & R3 & R4 & R5).
  set (R := hyd x (mk_reader rch (startup_cursor rch (Some p))) (Some p)) in *.
  assert (Hnrm : nrm x ts' = with_reader ts' R) by (unfold nrm; rewrite Hhy', S2, S1; reflexivity).
  assert (Hun' : unread c (with_reader ts' R) = from c rch j (p_off p)) by (eapply unread_reopened; eauto).
  rewrite Hnrm, Hun'. exists pre. split; [exact Hlen|]. split.
  - rewrite <- Hfrom. now apply from_ents_eq.
  - destruct (from_suffix c Hh rch j b' (p_off p) Hb' Hok') as (k & Hk). exists k. now rewrite Hk, Hstream.
Qed.
