(* HdrP.v — lemmas about model/Hdr.v: little-endian codec, header round trip (both decoder
   variants), the checked decoder refines the unchecked one, entry-level and block-level
   consequences of FNV-1a's single-byte sensitivity. *)
From W Require Import model.Base model.Fnv model.Utf8 model.Hdr spec.Damage proofs.FnvP.
From Coq Require Import ZArith ZifyBool ZifyN ZifyNat.
Ltac Zify.zify_post_hook ::= Z.div_mod_to_equations.

(* ------------------------------------------------------------------ lists *)
Lemma firstn_app_exact {A} (a b : list A) n : length a = n -> firstn n (a ++ b) = a.
Proof. intros <-. rewrite firstn_app, Nat.sub_diag, firstn_all, firstn_O, app_nil_r. reflexivity. Qed.

Lemma skipn_app_exact {A} (a b : list A) n : length a = n -> skipn n (a ++ b) = b.
Proof. intros <-. rewrite skipn_app, Nat.sub_diag, skipn_all. reflexivity. Qed.

Lemma zeros_length n : length (zeros n) = n.
Proof. apply repeat_length. Qed.

Lemma slice_skip (a b : list N) s l : length a = N.to_nat s -> slice (a ++ b) s l = slice b 0 l.
Proof. intros H. unfold slice. rewrite (skipn_app_exact a b _ H). reflexivity. Qed.

Lemma slice_take (a b : list N) l : length a = N.to_nat l -> slice (a ++ b) 0 l = a.
Proof. intros H. unfold slice. cbn [N.to_nat skipn]. apply firstn_app_exact. exact H. Qed.

Lemma slice_mid (a b c : list N) s l : length a = N.to_nat s -> length b = N.to_nat l ->
  slice (a ++ b ++ c) s l = b.
Proof. intros Ha Hb. rewrite (slice_skip a _ s l Ha). apply slice_take. exact Hb. Qed.

(* ------------------------------------------------------------------ little endian *)
Lemma le_bytes_length n : forall v, length (le_bytes n v) = n.
Proof. induction n; intros v; cbn [le_bytes length]; [reflexivity|]. now rewrite IHn. Qed.

Lemma le_bytes_ok n : forall v, bytes_ok (le_bytes n v).
Proof.
  induction n; intros v; cbn [le_bytes]; constructor.
  - apply N.mod_lt. discriminate.
  - apply IHn.
Qed.

Lemma le_num_bytes n : forall v, v < 256 ^ N.of_nat n -> le_num (le_bytes n v) = v.
Proof.
  induction n as [|k IH]; intros v Hv.
  - cbn [le_bytes le_num]. change (256 ^ N.of_nat 0) with 1 in Hv. lia.
  - cbn [le_bytes le_num]. rewrite IH.
    + pose proof (N.div_mod v 256). lia.
    + rewrite Nat2N.inj_succ, N.pow_succ_r' in Hv.
      apply N.div_lt_upper_bound; [discriminate|exact Hv].
Qed.

Lemma le_num_bytes2 v : v < 65536 -> le_num (le_bytes 2 v) = v.
Proof. intros. apply le_num_bytes. exact H. Qed.
Lemma le_num_bytes4 v : v < 4294967296 -> le_num (le_bytes 4 v) = v.
Proof. intros. apply le_num_bytes. exact H. Qed.
Lemma le_num_bytes8 v : v < two64 -> le_num (le_bytes 8 v) = v.
Proof. intros. apply le_num_bytes. exact H. Qed.

(* top byte of a u32 with bit 31 set *)
Lemma le_bytes4_top v : 2147483648 <= v < 4294967296 -> 128 <= nth 3 (le_bytes 4 v) 0.
Proof.
  intros Hv. cbn [le_bytes nth].
  assert (E : v / 256 / 256 / 256 = v / 16777216) by (rewrite !N.div_div by discriminate; reflexivity).
  rewrite E. assert (v / 16777216 < 256) by (apply N.div_lt_upper_bound; [discriminate|lia]).
  rewrite N.mod_small by assumption.
  apply N.div_le_lower_bound; [discriminate|lia].
Qed.

(* ------------------------------------------------------------------ encoder shape *)
Lemma roundup8_ge n : (n <= roundup8 n)%nat.
Proof. unfold roundup8. lia. Qed.
Lemma roundup8_le n : (n <= 216 -> roundup8 n <= 216)%nat.
Proof. unfold roundup8. lia. Qed.
Lemma roundup8_mod n : (roundup8 n mod 8 = 0)%nat.
Proof. unfold roundup8. apply Nat.mod_mul. discriminate. Qed.

Lemma name_repr_length name : (length name <= 216)%nat -> length (name_repr name) = 8%nat.
Proof.
  intros H. unfold name_repr. destruct (length name <=? 7)%nat eqn:E.
  - apply Nat.leb_le in E. rewrite !app_length, zeros_length. cbn [length]. lia.
  - rewrite app_length, !le_bytes_length. reflexivity.
Qed.

Lemma root_bytes_length m : (length (m_name m) <= 216)%nat -> length (root_bytes m) = 32%nat.
Proof.
  intros H. unfold root_bytes. rewrite !app_length, name_repr_length, !le_bytes_length, zeros_length by exact H.
  reflexivity.
Qed.

Lemma name_prefix_length name :
  length (name_prefix name) = if (length name <=? 7)%nat then 0%nat else roundup8 (length name).
Proof.
  unfold name_prefix. destruct (length name <=? 7)%nat; [reflexivity|].
  rewrite app_length, zeros_length. pose proof (roundup8_ge (length name)). lia.
Qed.

Lemma meta_bytes_length m : (length (m_name m) <= 216)%nat ->
  length (meta_bytes m) = (length (name_prefix (m_name m)) + 32)%nat /\
  (32 <= length (meta_bytes m) <= 248)%nat /\ (length (name_prefix (m_name m)) mod 8 = 0)%nat.
Proof.
  intros H. unfold meta_bytes. rewrite app_length, root_bytes_length by exact H.
  rewrite name_prefix_length. destruct (length (m_name m) <=? 7)%nat.
  - repeat split; lia.
  - pose proof (roundup8_le _ H). pose proof (roundup8_mod (length (m_name m))). repeat split; lia.
Qed.

Lemma encode_hdr_length m : (length (m_name m) <= 216)%nat -> length (encode_hdr m) = 256%nat.
Proof.
  intros H. destruct (meta_bytes_length m H) as (_ & Hb & _).
  unfold encode_hdr. rewrite !app_length, le_bytes_length, zeros_length. lia.
Qed.

(* ------------------------------------------------------------------ the root's fields *)
Lemma root_fields m : wf_meta m ->
  root_nbs (root_bytes m) = m_nbs m /\ root_checksum (root_bytes m) = m_checksum m /\
  root_read_size (root_bytes m) = m_read_size m.
Proof.
  intros (Hn & _ & Hrs & Hnbs & Hck).
  pose proof (name_repr_length _ Hn) as Hr.
  unfold root_nbs, root_checksum, root_read_size, root_bytes.
  repeat split.
  - rewrite slice_mid; [apply le_num_bytes8; exact Hnbs|rewrite Hr; reflexivity|apply le_bytes_length].
  - rewrite (app_assoc (name_repr _)).
    rewrite slice_mid; [apply le_num_bytes8; exact Hck| |apply le_bytes_length].
    rewrite app_length, Hr, le_bytes_length. reflexivity.
  - rewrite (app_assoc (name_repr _)), (app_assoc (_ ++ _)).
    rewrite slice_mid; [apply le_num_bytes4; exact Hrs| |apply le_bytes_length].
    rewrite !app_length, Hr, !le_bytes_length. reflexivity.
Qed.

Lemma nth_app_l' {A} (a b : list A) n d : (n < length a)%nat -> nth n (a ++ b) d = nth n a d.
Proof. intros. apply app_nth1. assumption. Qed.

Lemma names_of_encoded m : wf_meta m ->
  let buf := meta_bytes m in let L := N.of_nat (length buf) in
  name_unchecked buf L = Some (m_name m) /\ name_checked buf L = Some (m_name m).
Proof.
  intros Hwf. pose proof Hwf as (Hn & Hb & _).
  destruct (meta_bytes_length m Hn) as (HL & HLb & _).
  pose proof (root_bytes_length m Hn) as Hroot.
  cbn zeta. unfold name_unchecked, name_checked, root_size.
  set (P := length (name_prefix (m_name m))) in *.
  assert (Epos : N.to_nat (N.of_nat (length (meta_bytes m)) - 32) = P) by lia.
  rewrite Epos.
  assert (Hskip : skipn P (meta_bytes m) = root_bytes m)
    by (unfold meta_bytes; apply skipn_app_exact; reflexivity).
  rewrite Hskip. unfold root_bytes, name_repr.
  destruct (length (m_name m) <=? 7)%nat eqn:E.
  - (* inline *)
    apply Nat.leb_le in E.
    assert (E7 : nth 7 ((m_name m ++ zeros (7 - length (m_name m)) ++ [N.of_nat (length (m_name m))]) ++
                        le_bytes 8 (m_nbs m) ++ le_bytes 8 (m_checksum m) ++ le_bytes 4 (m_read_size m) ++ zeros 4) 0
                 = N.of_nat (length (m_name m))).
    { rewrite nth_app_l' by (rewrite !app_length, zeros_length; cbn [length]; lia).
      rewrite app_assoc. rewrite app_nth2 by (rewrite app_length, zeros_length; lia).
      rewrite app_length, zeros_length. replace (7 - _)%nat with 0%nat by lia. reflexivity. }
    rewrite E7.
    assert (Esl : slice ((m_name m ++ zeros (7 - length (m_name m)) ++ [N.of_nat (length (m_name m))]) ++
                        le_bytes 8 (m_nbs m) ++ le_bytes 8 (m_checksum m) ++ le_bytes 4 (m_read_size m) ++ zeros 4)
                        0 (N.of_nat (length (m_name m))) = m_name m).
    { rewrite <- !app_assoc. apply slice_take. lia. }
    rewrite Esl.
    replace (N.of_nat (length (m_name m)) <? 128) with true by lia.
    replace (N.of_nat (length (m_name m)) <=? 7) with true by lia.
    split; [|reflexivity].
    replace (_ <=? _) with true by lia. reflexivity.
  - (* out of line *)
    apply Nat.leb_gt in E.
    pose proof (roundup8_le _ Hn) as Hr. pose proof (roundup8_ge (length (m_name m))) as Hg.
    set (R := roundup8 (length (m_name m))) in *.
    set (rest := le_bytes 8 (m_nbs m) ++ le_bytes 8 (m_checksum m) ++ le_bytes 4 (m_read_size m) ++ zeros 4).
    set (lenb := le_bytes 4 (N.of_nat (length (m_name m)))).
    set (offb := le_bytes 4 (4294967296 - N.of_nat R)).
    assert (E7 : 128 <= nth 7 ((lenb ++ offb) ++ rest) 0).
    { rewrite <- app_assoc. rewrite app_nth2 by (unfold lenb; rewrite le_bytes_length; lia).
      unfold lenb. rewrite le_bytes_length. change (7 - 4)%nat with 3%nat.
      rewrite nth_app_l' by (unfold offb; rewrite le_bytes_length; lia).
      apply le_bytes4_top. lia. }
    replace (nth 7 ((lenb ++ offb) ++ rest) 0 <? 128) with false by lia.
    assert (El : le_num (slice ((lenb ++ offb) ++ rest) 0 4) = N.of_nat (length (m_name m))).
    { rewrite <- !app_assoc. rewrite slice_take by (unfold lenb; rewrite le_bytes_length; reflexivity).
      unfold lenb. apply le_num_bytes4. lia. }
    assert (Eo : le_num (slice ((lenb ++ offb) ++ rest) 4 4) = 4294967296 - N.of_nat R).
    { rewrite <- !app_assoc. rewrite slice_mid; try (unfold lenb, offb; rewrite le_bytes_length; reflexivity).
      unfold offb. apply le_num_bytes4. lia. }
    rewrite El, Eo.
    assert (Eb : 4294967296 - (4294967296 - N.of_nat R) = N.of_nat R) by lia.
    rewrite Eb.
    assert (HLen : N.of_nat (length (meta_bytes m)) - 32 = N.of_nat R).
    { rewrite HL. unfold P. rewrite name_prefix_length.
      replace (length (m_name m) <=? 7)%nat with false by lia. fold R. lia. }
    rewrite HLen. rewrite N.sub_diag.
    assert (Esl : slice (meta_bytes m) 0 (N.of_nat (length (m_name m))) = m_name m).
    { unfold meta_bytes, name_prefix. replace (length (m_name m) <=? 7)%nat with false by lia.
      rewrite <- !app_assoc. apply slice_take. lia. }
    rewrite Esl.
    replace (N.of_nat R <=? N.of_nat R) with true by lia.
    replace (0 + N.of_nat (length (m_name m)) <=? N.of_nat (length (meta_bytes m))) with true by lia.
    replace (N.of_nat (length (m_name m)) =? 0) with false by lia.
    replace (0 <? N.of_nat R) with true by lia.
    replace (N.of_nat (length (m_name m)) <=? N.of_nat R) with true by lia.
    split; reflexivity.
Qed.

(* ------------------------------------------------------------------ header round trip *)
Lemma decode_hdr_encoded_shape m : (length (m_name m) <= 216)%nat ->
  let L := N.of_nat (length (meta_bytes m)) in
  le_num (firstn 2 (encode_hdr m)) = L /\ slice (encode_hdr m) 2 L = meta_bytes m /\ 32 <= L <= 248.
Proof.
  intros Hn. destruct (meta_bytes_length m Hn) as (HL & HLb & _). cbn zeta.
  unfold encode_hdr. repeat split; try lia.
  - rewrite firstn_app_exact by apply le_bytes_length. apply le_num_bytes2. lia.
  - apply slice_mid; [apply le_bytes_length|lia].
Qed.

Lemma meta_at_encoded m nm : wf_meta m ->
  meta_at (meta_bytes m) (N.of_nat (length (meta_bytes m))) nm = mkMeta nm (m_read_size m) (m_nbs m) (m_checksum m).
Proof.
  intros Hwf. pose proof Hwf as (Hn & _).
  destruct (meta_bytes_length m Hn) as (HL & HLb & _).
  unfold meta_at, root_size.
  assert (Hskip : skipn (N.to_nat (N.of_nat (length (meta_bytes m)) - 32)) (meta_bytes m) = root_bytes m).
  { unfold meta_bytes at 2. apply skipn_app_exact. lia. }
  rewrite Hskip. destruct (root_fields m Hwf) as (-> & -> & ->). reflexivity.
Qed.

Lemma meta_len_aligned m : (length (m_name m) <= 216)%nat ->
  (N.of_nat (length (meta_bytes m)) - 32) mod 8 = 0.
Proof.
  intros Hn. destruct (meta_bytes_length m Hn) as (HL & _ & Hmod).
  rewrite HL. replace (N.of_nat (_ + 32) - 32) with (N.of_nat (length (name_prefix (m_name m)))) by lia.
  apply Nat.mod_divide in Hmod; [|discriminate]. destruct Hmod as [q Hq]. rewrite Hq.
  rewrite Nat2N.inj_mul. apply N.mod_mul. discriminate.
Qed.

Theorem hdr_roundtrip_v0 m : wf_meta m -> decode_hdr V0 (encode_hdr m) = HMeta m.
Proof.
  intros Hwf. pose proof Hwf as (Hn & _).
  destruct (decode_hdr_encoded_shape m Hn) as (E1 & E2 & E3). cbn zeta in *.
  unfold decode_hdr. rewrite E1, E2. unfold max_meta_len.
  replace ((_ =? 0) || (254 <? _)) with false by lia.
  unfold decode_unchecked, root_size. replace (_ <? 32) with false by lia.
  rewrite (meta_len_aligned m Hn). cbn [N.eqb negb].
  destruct (names_of_encoded m Hwf) as (-> & _).
  rewrite meta_at_encoded by exact Hwf. destruct m; reflexivity.
Qed.

Theorem hdr_roundtrip_v1 m : wf_meta m -> utf8_ok (m_name m) = true -> decode_hdr V1 (encode_hdr m) = HMeta m.
Proof.
  intros Hwf Hu. pose proof Hwf as (Hn & _).
  destruct (decode_hdr_encoded_shape m Hn) as (E1 & E2 & E3). cbn zeta in *.
  destruct (meta_bytes_length m Hn) as (HL & _ & Hmod).
  unfold decode_hdr. rewrite E1, E2. unfold max_meta_len.
  replace ((_ =? 0) || (254 <? _)) with false by lia.
  unfold decode_checked, root_size. replace (_ <? 32) with false by lia.
  rewrite (meta_len_aligned m Hn). cbn [N.eqb negb].
  destruct (names_of_encoded m Hwf) as (_ & ->). rewrite Hu.
  rewrite meta_at_encoded by exact Hwf. destruct m; reflexivity.
Qed.

(* whenever the checked decoder accepts, the unchecked one produces the same value *)
Lemma name_checked_refines buf L nm : 32 <= L -> name_checked buf L = Some nm -> name_unchecked buf L = Some nm.
Proof.
  unfold name_checked, name_unchecked, root_size. intros HL.
  set (root := skipn _ buf). set (b7 := nth 7 root 0).
  destruct (b7 <? 128) eqn:E.
  - destruct (b7 <=? 7) eqn:E7; [|discriminate]. intros H.
    replace (L - 32 + b7 <=? L) with true by lia. exact H.
  - set (len := le_num (slice root 0 4)). set (back := 4294967296 - le_num (slice root 4 4)).
    destruct (back <=? L - 32) eqn:Eb; cbn [andb]; [|discriminate].
    destruct (len =? 0) eqn:E0.
    + intros H. replace (L - 32 - back + len <=? L) with true by lia. exact H.
    + destruct (0 <? back); cbn [andb]; [|discriminate].
      destruct (len <=? back) eqn:El; [|discriminate].
      intros H. replace (L - 32 - back + len <=? L) with true by lia. exact H.
Qed.

Theorem checked_refines_unchecked hdr m : decode_hdr V1 hdr = HMeta m -> decode_hdr V0 hdr = HMeta m.
Proof.
  unfold decode_hdr. destruct (_ || _); [discriminate|].
  set (L := le_num (firstn 2 hdr)). set (buf := slice hdr 2 L).
  unfold decode_checked, decode_unchecked.
  destruct (L <? root_size) eqn:E; [discriminate|].
  destruct (negb _); [discriminate|].
  destruct (name_checked buf L) as [nm|] eqn:En; [|discriminate].
  unfold root_size in E.
  rewrite (name_checked_refines buf L nm) by (lia || exact En).
  destruct (utf8_ok nm); [|discriminate]. exact (fun H => H).
Qed.

(* the checked decoder has only two outcomes *)
Theorem checked_total hdr : match decode_hdr V1 hdr with HBadLen | HInvalid | HMeta _ => True | _ => False end.
Proof.
  unfold decode_hdr. destruct (_ || _); [exact I|].
  unfold decode_checked. destruct (_ <? _); [exact I|]. destruct (negb _); [exact I|].
  destruct (name_checked _ _); [|exact I]. destruct (utf8_ok _); exact I.
Qed.

(* and the names it lets through are valid UTF-8 *)
Theorem checked_name_utf8 hdr m : decode_hdr V1 hdr = HMeta m -> utf8_ok (m_name m) = true.
Proof.
  unfold decode_hdr. destruct (_ || _); [discriminate|].
  unfold decode_checked. destruct (_ <? _); [discriminate|]. destruct (negb _); [discriminate|].
  destruct (name_checked _ _) as [nm|]; [|discriminate]. destruct (utf8_ok nm) eqn:E; [|discriminate].
  intros H. inversion H. exact E.
Qed.

(* ------------------------------------------------------------------ entries *)
Record wentry := mkW { we_name : list N; we_payload : list N; we_nbs : N }.

(* what the engine writes: names are Rust &str (valid UTF-8, at most 216 bytes or the append is
   refused), payload sizes fit the u32 the archive stores *)
Definition wf_entry (e : wentry) : Prop :=
  (length (we_name e) <= 216)%nat /\ bytes_ok (we_name e) /\ utf8_ok (we_name e) = true /\
  bytes_ok (we_payload e) /\ N.of_nat (length (we_payload e)) < 4294967296 /\ we_nbs e < two64.

Definition enc_w (e : wentry) : list N := enc_entry (we_name e) (we_payload e) (we_nbs e).
Definition meta_w (e : wentry) : meta := meta_for (we_name e) (we_payload e) (we_nbs e).
Definition enc_ws (es : list wentry) : list N := flat_map enc_w es.

Lemma wf_meta_w e : wf_entry e -> wf_meta (meta_w e).
Proof.
  intros (Hn & Hb & _ & _ & Hl & Hnbs). unfold meta_w, meta_for, wf_meta. cbn [m_name m_read_size m_nbs m_checksum].
  repeat split; try assumption. apply checksum64_lt.
Qed.

Lemma decode_hdr_w v e : wf_entry e -> decode_hdr v (encode_hdr (meta_w e)) = HMeta (meta_w e).
Proof.
  intros Hwf. destruct v.
  - apply hdr_roundtrip_v0, wf_meta_w, Hwf.
  - apply hdr_roundtrip_v1; [apply wf_meta_w, Hwf|]. destruct Hwf as (_ & _ & Hu & _). exact Hu.
Qed.

Lemma enc_w_length e : wf_entry e -> length (enc_w e) = (256 + length (we_payload e))%nat.
Proof.
  intros (Hn & _). unfold enc_w, enc_entry. rewrite app_length, encode_hdr_length; [reflexivity|exact Hn].
Qed.

(* reading a stored payload window of the announced size *)
Lemma entry_read_window v lenient m p rest :
  (length (m_name m) <= 216)%nat -> decode_hdr v (encode_hdr m) = HMeta m ->
  m_read_size m = N.of_nat (length p) ->
  entry_read v lenient (encode_hdr m ++ p ++ rest) =
  if checksum64 p =? m_checksum m then ROk m p else RErr.
Proof.
  intros Hn Hd Hrs. unfold entry_read.
  rewrite (firstn_app_exact (encode_hdr m) _ 256) by (apply encode_hdr_length; exact Hn).
  rewrite Hd.
  rewrite (skipn_app_exact (encode_hdr m) _ 256) by (apply encode_hdr_length; exact Hn).
  rewrite Hrs, app_length.
  replace (N.of_nat (length p + length rest) <? N.of_nat (length p)) with false by lia.
  rewrite Nat2N.id, firstn_app_exact by reflexivity. reflexivity.
Qed.

Theorem entry_read_wf v lenient e rest : wf_entry e ->
  entry_read v lenient (enc_w e ++ rest) = ROk (meta_w e) (we_payload e).
Proof.
  intros Hwf. unfold enc_w, enc_entry. rewrite <- app_assoc.
  fold (meta_w e).
  rewrite entry_read_window.
  - unfold meta_w, meta_for. cbn [m_checksum]. rewrite N.eqb_refl. reflexivity.
  - destruct Hwf as (Hn & _). exact Hn.
  - apply decode_hdr_w. exact Hwf.
  - reflexivity.
Qed.

(* exactly one payload byte changed, header untouched: the read fails with InvalidData *)
Theorem entry_read_damaged v lenient name pre b b' post nbs rest :
  wf_entry (mkW name (pre ++ b :: post) nbs) -> b' < 256 -> b <> b' ->
  entry_read v lenient (encode_hdr (meta_for name (pre ++ b :: post) nbs) ++ (pre ++ b' :: post) ++ rest) = RErr.
Proof.
  intros Hwf Hb' Hne.
  rewrite entry_read_window.
  - unfold meta_for. cbn [m_checksum].
    destruct (checksum64 (pre ++ b' :: post) =? checksum64 (pre ++ b :: post)) eqn:E; [|reflexivity].
    apply N.eqb_eq in E. exfalso.
    destruct Hwf as (_ & _ & _ & Hp & _). cbn [we_payload] in Hp.
    exact (checksum64_single_byte pre b b' post Hp Hb' Hne (eq_sym E)).
  - destruct Hwf as (Hn & _). exact Hn.
  - exact (decode_hdr_w v (mkW name (pre ++ b :: post) nbs) Hwf).
  - unfold meta_for. cbn [m_read_size]. rewrite !app_length. reflexivity.
Qed.

(* a zeroed (or absent) length prefix: InvalidData before any archive access *)
Theorem entry_read_zero_len v lenient bs : le_num (firstn 2 bs) = 0 -> entry_read v lenient bs = RErr.
Proof.
  intros H. unfold entry_read, decode_hdr.
  rewrite firstn_firstn. change (Nat.min 2 256) with 2%nat. rewrite H. reflexivity.
Qed.

(* payload and checksum field rewritten together: any payload is accepted *)
Theorem entry_read_forged v lenient name p' nbs rest : wf_entry (mkW name p' nbs) ->
  entry_read v lenient (enc_entry name p' nbs ++ rest) = ROk (meta_for name p' nbs) p'.
Proof. intros Hwf. exact (entry_read_wf v lenient (mkW name p' nbs) rest Hwf). Qed.

(* ------------------------------------------------------------------ the recovery loop *)
Definition clean_stop (s : stop) : Prop := match s with StUb _ | StPastEnd _ => False | _ => True end.

(* well-formed entries followed by anything whose header read fails: the scan returns a prefix of
   the well-formed payloads and never reaches undefined behaviour or a panic *)
Theorem scan_prefix v lenient fsz B tail : entry_read v lenient tail = RErr ->
  forall es fuel pos off limit, Forall wf_entry es ->
  let r := scan_loop fuel v lenient fsz B (enc_ws es ++ tail) pos off limit in
  (exists k, sc_entries r = firstn k (map we_payload es)) /\ clean_stop (sc_stop r).
Proof.
  intros Htail. induction es as [|e es IH]; intros fuel pos off limit Hwf; cbn zeta.
  - cbn [enc_ws flat_map app]. destruct fuel as [|f]; cbn [scan_loop].
    + split; [exists 0%nat; reflexivity|exact I].
    + destruct (fsz <? pos + hdr_size); [split; [exists 0%nat; reflexivity|exact I]|].
      rewrite Htail. split; [exists 0%nat; reflexivity|exact I].
  - inversion Hwf as [|x l He Hes]; subst.
    destruct fuel as [|f]; cbn [scan_loop].
    + split; [exists 0%nat; reflexivity|exact I].
    + destruct (fsz <? pos + hdr_size); [split; [exists 0%nat; reflexivity|exact I]|].
      cbn [enc_ws flat_map]. fold (enc_ws es). rewrite <- app_assoc.
      rewrite entry_read_wf by exact He.
      destruct (_ <=? _).
      * split; [exists 1%nat; reflexivity|exact I].
      * assert (Hsk : skipn (N.to_nat (hdr_size + N.of_nat (length (we_payload e)))) (enc_w e ++ enc_ws es ++ tail)
                      = enc_ws es ++ tail).
        { apply skipn_app_exact. rewrite enc_w_length by exact He. unfold hdr_size. lia. }
        rewrite Hsk.
        match goal with |- context [scan_loop f v lenient fsz B _ ?p ?o ?l] =>
          destruct (IH f p o l Hes) as ((k & Hk) & Hc) end.
        cbn [sc_entries sc_stop]. split; [|exact Hc].
        exists (S k). cbn [map firstn]. rewrite Hk. reflexivity.
Qed.

(* with room and fuel the scan returns every well-formed entry *)
Theorem scan_complete v lenient fsz B tail : entry_read v lenient tail = RErr ->
  forall es fuel pos off limit, Forall wf_entry es ->
  (length es < fuel)%nat ->
  pos + N.of_nat (length (enc_ws es)) + hdr_size <= fsz ->
  off + N.of_nat (length (enc_ws es)) < limit ->
  let r := scan_loop fuel v lenient fsz B (enc_ws es ++ tail) pos off limit in
  sc_entries r = map we_payload es /\ sc_used r = off + N.of_nat (length (enc_ws es)) /\
  sc_limit r = limit /\ sc_stop r = StErr.
Proof.
  intros Htail. induction es as [|e es IH]; intros fuel pos off limit Hwf Hf Hp Hl; cbn zeta.
  - cbn [enc_ws flat_map app length] in *. destruct fuel as [|f]; [lia|]. cbn [scan_loop].
    replace (fsz <? pos + hdr_size) with false by lia. rewrite Htail. cbn. repeat split; lia.
  - inversion Hwf as [|x l He Hes]; subst.
    cbn [enc_ws flat_map length] in *. fold (enc_ws es) in *.
    rewrite app_length, enc_w_length in Hp, Hl by exact He.
    destruct fuel as [|f]; [lia|]. cbn [scan_loop].
    unfold hdr_size in *.
    replace (fsz <? pos + 256) with false by lia.
    rewrite <- app_assoc. rewrite entry_read_wf by exact He.
    set (c := 256 + N.of_nat (length (we_payload e))).
    replace (limit <? off + c) with false by (unfold c; lia).
    replace (limit <=? off + c) with false by (unfold c; lia).
    assert (Hsk : skipn (N.to_nat c) (enc_w e ++ enc_ws es ++ tail) = enc_ws es ++ tail).
    { apply skipn_app_exact. rewrite enc_w_length by exact He. unfold c. lia. }
    rewrite Hsk.
    destruct (IH f (pos + c) (off + c) limit Hes) as (E1 & E2 & E3 & E4); try (unfold c; lia).
    cbn [sc_entries sc_used sc_limit sc_stop map].
    rewrite E1, E2, E3, E4. rewrite app_length, enc_w_length by exact He.
    repeat split; unfold c; lia.
Qed.

(* ------------------------------------------------------------------ known classes, outside of them *)
(* the two mechanisms by which the code as it stands (V0) leaves defined behaviour at an entry
   position [bs] (file bytes from the entry's offset on) *)
Definition archive_invalid (bs : list N) : Prop := decode_hdr V1 (firstn 256 bs) = HInvalid.
Definition window_past_end (bs : list N) : Prop :=
  exists m, decode_hdr V0 (firstn 256 bs) = HMeta m /\ N.of_nat (length (skipn 256 bs)) < m_read_size m.
Definition KnownClass (bs : list N) : Prop := archive_invalid bs \/ window_past_end bs.

(* what a successful read is allowed to be: header and payload are consistent with each other *)
Definition consistent_read (bs : list N) (m : meta) (p : list N) : Prop :=
  decode_hdr V1 (firstn 256 bs) = HMeta m /\ p = slice bs 256 (m_read_size m) /\
  checksum64 p = m_checksum m /\ utf8_ok (m_name m) = true.

Theorem entry_outside_known lenient bs : ~ KnownClass bs ->
  match entry_read V0 lenient bs with
  | RErr => True
  | ROk m p => consistent_read bs m p
  | RUb _ | RPastEnd _ => False
  end.
Proof.
  intros Hk. unfold entry_read.
  destruct (decode_hdr V1 (firstn 256 bs)) as [| | | | |m] eqn:E1.
  - (* HBadLen in V1 means the length test failed, which V0 shares *)
    unfold decode_hdr in *. destruct (_ || _); [exact I|].
    unfold decode_checked in E1. destruct (_ <? _); [discriminate|]. destruct (negb _); [discriminate|].
    destruct (name_checked _ _); [|discriminate]. destruct (utf8_ok _); discriminate.
  - pose proof (checked_total (firstn 256 bs)) as T. rewrite E1 in T. destruct T.
  - pose proof (checked_total (firstn 256 bs)) as T. rewrite E1 in T. destruct T.
  - pose proof (checked_total (firstn 256 bs)) as T. rewrite E1 in T. destruct T.
  - exfalso. apply Hk. left. exact E1.
  - rewrite (checked_refines_unchecked _ _ E1).
    destruct (N.of_nat (length (skipn 256 bs)) <? m_read_size m) eqn:Ew.
    + exfalso. apply Hk. right. exists m. split; [apply checked_refines_unchecked; exact E1|lia].
    + destruct (checksum64 _ =? m_checksum m) eqn:Ec; [|exact I].
      unfold consistent_read. split; [exact E1|]. split; [reflexivity|].
      split; [apply N.eqb_eq; exact Ec|exact (checked_name_utf8 _ _ E1)].
Qed.

(* the repaired code (V1) has no undefined outcome at all, whatever the bytes *)
Theorem entry_fixed_total lenient bs :
  match entry_read V1 lenient bs with
  | RErr => True
  | ROk m p => consistent_read bs m p
  | RUb _ | RPastEnd _ => False
  end.
Proof.
  unfold entry_read.
  pose proof (checked_total (firstn 256 bs)) as T.
  destruct (decode_hdr V1 (firstn 256 bs)) as [| | | | |m] eqn:E1; try exact I; try destruct T.
  destruct (_ <? _); [exact I|].
  destruct (checksum64 _ =? m_checksum m) eqn:Ec; [|exact I].
  unfold consistent_read. split; [exact E1|]. split; [reflexivity|].
  split; [apply N.eqb_eq; exact Ec|exact (checked_name_utf8 _ _ E1)].
Qed.

Theorem scan_fixed_clean fuel : forall lenient fsz B bs pos off limit,
  clean_stop (sc_stop (scan_loop fuel V1 lenient fsz B bs pos off limit)).
Proof.
  induction fuel as [|f IH]; intros; cbn [scan_loop]; [exact I|].
  destruct (fsz <? _); [exact I|].
  pose proof (entry_fixed_total lenient bs) as T.
  destruct (entry_read V1 lenient bs); try exact I; try destruct T.
  destruct (_ <=? _); [exact I|]. cbn [sc_stop]. apply IH.
Qed.

Definition clean_file_stop (s : file_stop) : Prop := match s with FsUb _ | FsPastEnd _ => False | _ => True end.

Theorem scan_file_fixed_clean lenient fsz B file : clean_file_stop (fs_stop (scan_file V1 lenient fsz B file)).
Proof.
  unfold scan_file. destruct (_ <? fsz); [exact I|].
  generalize (S (N.to_nat (fsz / B))) as fuel. generalize 0 as boff. revert file.
  intros file boff fuel. revert file boff.
  induction fuel as [|f IH]; intros; cbn [scan_file_loop]; [exact I|].
  destruct (fsz <? _); [exact I|].
  destruct (all_zero _); [apply IH|].
  pose proof (checked_total (firstn 256 file)) as T.
  destruct (decode_hdr V1 (firstn 256 file)); try destruct T; try apply IH.
  match goal with |- context [file_stop_of (sc_stop ?s)] =>
    pose proof (scan_fixed_clean (S (N.to_nat (fsz / hdr_size))) lenient fsz B file boff 0 B) as Hc;
    destruct (sc_stop s) eqn:Es end; cbn [file_stop_of]; try destruct Hc;
  try (destruct (_ =? 0); [exact I|cbn [fs_stop]; apply IH]).
Qed.

(* ------------------------------------------------------------------ witnesses (code as it stands) *)
Fixpoint upd (n : nat) (x : N) (l : list N) : list N :=
  match l, n with
  | [], _ => []
  | _ :: r, O => x :: r
  | y :: r, S k => y :: upd k x r
  end.

Definition w_name : list N := [97; 98].                 (* "ab" *)
Definition w_payload : list N := [1; 2; 3; 4; 5].
Definition w_entry : list N := enc_entry w_name w_payload 4096.
(* meta_len := 5 *)
Definition w_short_root : list N := upd 0 5 w_entry.
(* meta_len := 33 *)
Definition w_misaligned : list N := upd 0 33 w_entry.
(* inline length byte := 100 *)
Definition w_oob_inline : list N := upd 9 100 w_entry.
(* out-of-line name: length 2^32-1, offset -16 *)
Definition w_oob_huge : list N := upd 2 255 (upd 3 255 (upd 4 255 (upd 5 255 (upd 6 240 (upd 7 255 (upd 8 255 (upd 9 255 w_entry))))))).
(* inline length byte := 20: still inside the buffer, the root's own bytes become the topic name *)
Definition w_inline_long : list N := upd 9 20 w_entry.
(* first name byte 'a' -> 'c' *)
Definition w_renamed : list N := upd 2 99 w_entry.
(* read_size := 65536 *)
Definition w_big_size : list N := upd 28 1 w_entry.

(* ------------------------------------------------------------------ the acceptor *)

Lemma c11_ok_spec app o :
  c11_ok app o = true <->
  o_clean o = true /\
  forall topic ids x, In (topic, ids) (o_delivered o) -> In x ids ->
    exists pid, x = Some pid /\ In pid (appended_of app topic).
Proof.
  unfold c11_ok. rewrite andb_true_iff, forallb_forall. split.
  - intros (Hc & Hall). split; [exact Hc|]. intros topic ids x Hin Hx.
    specialize (Hall (topic, ids) Hin). cbn [fst snd] in Hall. rewrite forallb_forall in Hall.
    specialize (Hall x Hx). unfold id_ok in Hall. destruct x as [pid|]; [|discriminate].
    exists pid. split; [reflexivity|]. apply existsb_exists in Hall. destruct Hall as (y & Hy & E).
    apply N.eqb_eq in E. subst. exact Hy.
  - intros (Hc & Hall). split; [exact Hc|]. intros (topic, ids) Hin. cbn [fst snd].
    apply forallb_forall. intros x Hx. destruct (Hall topic ids x Hin Hx) as (pid & -> & Hp).
    unfold id_ok. apply existsb_exists. exists pid. split; [exact Hp|apply N.eqb_refl].
Qed.

(* ------------------------------------------------------------------ the full property and its refutation *)
Definition one_byte_diff (a b : list N) : Prop :=
  exists pre x y post, a = pre ++ x :: post /\ b = pre ++ y :: post /\ x <> y.

(* C11, no-crash half, over the model of the recovery scan: whatever the file holds *)
Definition C11_full (v : variant) : Prop :=
  forall lenient fsz B file, clean_file_stop (fs_stop (scan_file v lenient fsz B file)).
(* C11, no-foreign-data half at one entry position: one damaged byte never lets the stored
   payload through under another topic *)
Definition C11_owner_full (v : variant) : Prop :=
  forall e bs' lenient m p, wf_entry e -> one_byte_diff (enc_w e) bs' ->
    entry_read v lenient bs' = ROk m p -> m_name m = we_name e.

Definition w_file (hdr : list N) : list N := hdr ++ zeros (512 - length hdr).

Lemma c11_full_refuted_v0 : ~ C11_full V0.
Proof.
  intros H. specialize (H false 512 512 (w_file w_short_root)).
  vm_compute in H. exact H.
Qed.

Lemma w_entry_wf : wf_entry (mkW w_name w_payload 4096).
Proof.
  unfold wf_entry, w_name, w_payload, bytes_ok. cbn [we_name we_payload we_nbs length].
  repeat split; try lia; try reflexivity; repeat constructor.
Qed.

Lemma c11_owner_refuted v : ~ C11_owner_full v.
Proof.
  intros H.
  assert (D : one_byte_diff (enc_w (mkW w_name w_payload 4096)) w_renamed).
  { exists (firstn 2 w_entry), 97, 99, (skipn 3 w_entry). repeat split; try discriminate; vm_compute; reflexivity. }
  specialize (H (mkW w_name w_payload 4096) w_renamed false
                (mkMeta [99; 98] 5 4096 (checksum64 w_payload)) w_payload w_entry_wf D).
  assert (E : entry_read v false w_renamed = ROk (mkMeta [99; 98] 5 4096 (checksum64 w_payload)) w_payload)
    by (destruct v; vm_compute; reflexivity).
  specialize (H E). discriminate H.
Qed.
