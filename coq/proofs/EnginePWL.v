(* EnginePWL.v — the lagging position invariant [P3L] of EngineP3L.v is preserved by the write side
   (the analogue of EnginePW.v for [P3L]): the three tstate-level building blocks, the count update,
   and the whole operations [append] / [batch] whatever their outcome. *)
From W Require Import model.Base model.Engine proofs.EngineWF proofs.EngineInv proofs.EngineW proofs.EnginePos proofs.EngineGrow proofs.EngineP3 proofs.EnginePW proofs.EngineP3L.
From Coq Require Import ZArith ZifyBool ZifyN ZifyNat.

(* ------------------------------------------------------------------ the count update *)
Lemma count_add_P3L c nid ts d : P3L c nid ts -> P3L c nid (count_add ts d).
Proof. unfold count_add. destruct (d =? 0); [auto|]. intros H. exact H. Qed.

(* ------------------------------------------------------------------ the topic's first writer block *)
Lemma first_writer_P3L c nid ts nb : 0 < nid -> TInvP c nid ts -> ts_writer ts = None -> fresh_blk nid nb ->
  P3L c nid ts -> P3L c (nid + 1) (with_writer ts (Some nb)).
Proof.
  intros Hn Hinv Hnone Hfresh (Hcne & HP).
  destruct (first_writer c nid ts nb Hn Hinv Hnone Hfresh) as (_ & Hst & Hun).
  destruct Hfresh as (Fi & Fu & Fe & Fl).
  set (T' := with_writer ts (Some nb)) in *.
  assert (Hch : chain_of T' = chain_of ts) by reflexivity.
  assert (Hwl' : w_list T' = [nb]) by reflexivity.
  assert (Hmem : memne T' = memne ts).
  { rewrite !memne_unfold, Hch, Hwl', (w_list_none ts Hnone). cbn [filter]. now rewrite (nonempty_b_false nb Fe). }
  split; [exact Hcne|].
  change (ts_index T') with (ts_index ts).
  destruct (ts_index ts) as [p|].
  2:{ destruct HP as (pre & HP). exists pre. now rewrite Hun, Hst. }
  destruct HP as [HG|[HV|HD]].
  - left. destruct HG as (j & b & pre & Hb & Hpos & Hok & Hu). exists j, b, pre.
    rewrite Hmem, Hch, Hun. auto.
  - exfalso. destruct HV as (_ & w & Hw & _). congruence.
  - right; right. destruct HD as (Ht & Hlt & Hall). split; [exact Ht|]. split; [lia|].
    rewrite Hch, Hwl'. rewrite (w_list_none ts Hnone), app_nil_r in Hall.
    apply Forall_snoc; [exact Hall|lia].
Qed.

(* ------------------------------------------------------------------ one more entry in the writer block *)
Lemma add_entry_P3L c (Hh : 0 < c_hdr c) nid ts w e : TInvP c nid ts -> ts_writer ts = Some w -> b_used w + need c e <= b_limit w ->
  P3L c nid ts -> P3L c nid (with_writer ts (Some (blk_add w c [e]))).
Proof.
  intros Hinv Hsome Hfit (Hcne & HP).
  destruct (add_entry c Hh nid ts w e Hinv Hsome Hfit) as (_ & Hst & Hun).
  pose proof (add_entry_grow c Hh nid ts w e Hinv Hsome Hfit) as HG.
  set (w' := blk_add w c [e]) in *.
  set (T' := with_writer ts (Some w')) in *.
  assert (Hch : chain_of T' = chain_of ts) by reflexivity.
  assert (Hwl' : w_list T' = [w']) by reflexivity.
  assert (Hid' : b_id w' = b_id w) by reflexivity.
  assert (Hne' : nonempty_b w' = true).
  { apply nonempty_b_true. unfold w', blk_add. cbn [b_ents]. destruct (b_ents w); discriminate. }
  assert (Hcne' : CNE T') by exact Hcne.
  split; [exact Hcne'|].
  change (ts_index T') with (ts_index ts).
  destruct (ts_index ts) as [p|].
  2:{ destruct HP as (pre & HP). exists pre. rewrite Hun, Hst, HP. now rewrite app_assoc. }
  destruct HP as [HPG|[HV|HD]].
  - left. exact (PLag_grow c Hh ts T' p [e] HG Hst Hun HPG).
  - (* the provisional position on the (so far empty) writer block becomes a lagging one with nothing in front *)
    left. destruct HV as (Ht & w0 & Hw0 & Hid0 & He0 & Hoff & Hu0).
    assert (w0 = w) by congruence. subst w0.
    assert (Hmem : memne T' = chain_of ts ++ [w']).
    { rewrite (memne_cne T' Hcne'), Hch, Hwl'. cbn [filter]. now rewrite Hne'. }
    assert (Hents : b_ents w' = [e]) by (unfold w', blk_add; cbn [b_ents]; now rewrite He0).
    exists (length (chain_of ts)), w', []. rewrite Hmem.
    split; [apply nth_error_snoc_len|].
    split; [rewrite Ht; congruence|].
    split; [rewrite Hoff; apply okoff_0|].
    rewrite Hun, Hu0, Hoff. unfold from. rewrite skipn_app_len, ents_from_0, Hents. reflexivity.
  - right; right. destruct HD as (Ht & Hlt & Hall). split; [exact Ht|]. split; [exact Hlt|].
    rewrite Hch, Hwl'. rewrite (w_list_some ts w Hsome) in Hall.
    apply Forall_app in Hall. destruct Hall as (H1 & H2).
    apply Forall_snoc; [exact H1|]. rewrite Hid'. now inversion H2.
Qed.

(* ------------------------------------------------------------------ sealing the writer block, switching to a fresh one *)
Lemma rotate_P3L c (Hh : 0 < c_hdr c) nid ts w nb : 0 < nid -> TInvP c nid ts -> ts_writer ts = Some w -> fresh_blk nid nb ->
  P3L c nid ts -> P3L c (nid + 1) (with_writer (seal ts w) (Some nb)).
Proof.
  intros Hn Hinv Hsome Hfresh (Hcne & HP).
  destruct (rotate c Hh nid ts w nb Hn Hinv Hsome Hfresh) as (_ & Hst & Hun).
  pose proof (rotate_grow c Hh nid ts w nb Hn Hinv Hsome Hfresh) as HG.
  destruct Hfresh as (Fi & Fu & Fe & Fl).
  pose proof (writer_bwf c nid ts w Hinv Hsome) as Hwwf.
  pose proof (writer_id_lt c nid ts w Hinv Hsome) as Hwid.
  pose proof (writer_id_fresh c nid ts w Hinv Hsome) as Hwfr.
  set (T' := with_writer (seal ts w) (Some nb)) in *.
  assert (Hch : chain_of T' = if b_used w =? 0 then chain_of ts else chain_of ts ++ [w]).
  { change (chain_of T') with (chain_of (seal ts w)). apply chain_of_seal. }
  assert (Hwl' : w_list T' = [nb]) by reflexivity.
  assert (Hcne' : CNE T').
  { unfold CNE. rewrite Hch. destruct (b_used w =? 0) eqn:Ez; [exact Hcne|].
    apply Forall_snoc; [exact Hcne|]. exact (bwf_used_pos c w Hwwf Ez). }
  split; [exact Hcne'|].
  change (ts_index T') with (ts_index ts).
  destruct (ts_index ts) as [p|].
  2:{ destruct HP as (pre & HP). exists pre. now rewrite Hun, Hst. }
  destruct HP as [HPG|[HV|HD]].
  - left. apply (PLag_grow c Hh ts T' p [] HG); [now rewrite app_nil_r|now rewrite app_nil_r|exact HPG].
  - (* the provisional position named the empty block that is now retired *)
    right; right. destruct HV as (Ht & w0 & Hw0 & Hid0 & He0 & Hoff & Hu0).
    assert (w0 = w) by congruence. subst w0.
    assert (Ez : (b_used w =? 0) = true).
    { destruct Hwwf as (Hu & _). rewrite He0 in Hu. cbn [sum_need] in Hu. lia. }
    rewrite Ez in Hch.
    split; [exact Ht|]. split; [lia|].
    rewrite Hch, Hwl'. apply Forall_snoc; [|lia].
    rewrite <- Hid0. exact Hwfr.
  - right; right. destruct HD as (Ht & Hlt & Hall). split; [exact Ht|]. split; [lia|].
    rewrite (w_list_some ts w Hsome) in Hall.
    rewrite Hch, Hwl'. apply Forall_snoc; [|lia].
    destruct (b_used w =? 0); [|exact Hall].
    apply Forall_app in Hall. now destruct Hall.
Qed.

(* ------------------------------------------------------------------ whole operations *)
(* get_or_create_writer *)
Lemma ensure_P3L c s t : cfg_ok c -> GInv c s ->
  P3L c (a_next (s_alloc s)) (get_ts s (t_id t)) ->
  P3L c (a_next (s_alloc (fst (ensure_writer c s t)))) (get_ts (fst (ensure_writer c s t)) (t_id t)).
Proof.
  intros (Hh & Hb0 & Hba & Hbm & Hme & Hhb) (Hn & Hall) HP. unfold ensure_writer.
  destruct (ts_writer (get_ts s (t_id t))) as [w|] eqn:Ew; [exact HP|].
  destruct (alloc_first_spec c s ltac:(lia)) as (s1 & b & Ha & Hsame & Hnext & Hfresh & Hlim). rewrite Ha.
  cbn [fst s_alloc set_ts]. rewrite get_set_same, (Hsame (t_id t)), Hnext.
  exact (first_writer_P3L c _ _ b Hn (TInv_P _ _ _ (Hall (t_id t))) Ew Hfresh HP).
Qed.

(* a single append, whatever its outcome *)
Lemma append_P3L c s t e : cfg_ok c -> GInv c s ->
  P3L c (a_next (s_alloc s)) (get_ts s (t_id t)) ->
  P3L c (a_next (s_alloc (fst (append c s t e)))) (get_ts (fst (append c s t e)) (t_id t)).
Proof.
  intros Hc Hg HP. pose proof Hc as (Hh & Hb0 & Hba & Hbm & Hme & Hhb).
  pose proof (ensure_P3L c s t Hc Hg HP) as HP1.
  destruct (ensure_writer_spec c s t Hc Hg) as (s1 & w & He & Hle1 & Hn1 & Hoth1 & Hw1 & Hp1 & Hst1 & Hun1 & Hcnt1).
  rewrite He in HP1. cbn [fst] in HP1.
  unfold append. rewrite He.
  destruct (appendable c t (e_len e)) as [k|] eqn:Eap; [exact HP1|].
  assert (Hname : name_ok c t = true /\ need c e <= c_max_alloc c).
  { unfold appendable in Eap. destruct (c_max_alloc c <? N.min u64_max (c_hdr c + e_len e)) eqn:E1; [discriminate|].
    destruct (name_ok c t); [|discriminate]. split; [reflexivity|unfold need; lia]. }
  destruct Hname as (Hname & Hsize).
  set (ts := get_ts s1 (t_id t)) in *.
  rewrite (tp_poison _ _ _ Hp1).
  pose proof (need_pos c e Hh) as Hnp.
  (* after the optional rotation: state s2 whose topic state has writer w2 with room for e *)
  assert (Hrot : exists s2 w2,
            (if b_limit w <? b_used w + need c e
             then match alloc_sized c (set_ts s1 (t_id t) (seal ts w)) (need c e) with
                  | None => (set_ts s1 (t_id t) (seal ts w), w, true)
                  | Some (s1'', nb) => (set_ts s1'' (t_id t) (with_writer (get_ts s1'' (t_id t)) (Some nb)), nb, false)
                  end
             else (s1, w, false)) = (s2, w2, false) /\
            ts_writer (get_ts s2 (t_id t)) = Some w2 /\ TInvP c (a_next (s_alloc s2)) (get_ts s2 (t_id t)) /\
            P3L c (a_next (s_alloc s2)) (get_ts s2 (t_id t)) /\ b_used w2 + need c e <= b_limit w2).
  { destruct (b_limit w <? b_used w + need c e) eqn:Erot.
    - destruct (alloc_sized_spec c (set_ts s1 (t_id t) (seal ts w)) (need c e) Hb0 Hbm Hnp Hsize) as (s1'' & nb & Ha & Hsame & Hnext & Hfresh & Hlim).
      rewrite Ha. cbn [s_alloc set_ts] in Hnext, Hfresh.
      rewrite (Hsame (t_id t)), get_set_same.
      destruct (rotate c Hh (a_next (s_alloc s1)) ts w nb Hn1 Hp1 Hw1 Hfresh) as (R1 & R2 & R3).
      pose proof (rotate_P3L c Hh (a_next (s_alloc s1)) ts w nb Hn1 Hp1 Hw1 Hfresh HP1) as RP.
      eexists; eexists. split; [reflexivity|]. cbn [s_alloc set_ts]. rewrite Hnext.
      rewrite get_set_same. split; [reflexivity|]. split; [exact R1|]. split; [exact RP|].
      destruct Hfresh as (_ & Fu & _ & _). lia.
    - exists s1, w. split; [reflexivity|]. split; [exact Hw1|]. split; [exact Hp1|]. split; [exact HP1|lia]. }
  destruct Hrot as (s2 & w2 & Hrot & Hw2 & Hp2 & HP2 & Hfit).
  rewrite Hrot. rewrite Hname. cbn [negb fst].
  rewrite get_ts_disk_write, get_set_same. cbn [s_alloc set_ts st_disk_write].
  apply count_add_P3L.
  exact (add_entry_P3L c Hh (a_next (s_alloc s2)) (get_ts s2 (t_id t)) w2 e Hp2 Hw2 Hfit HP2).
Qed.

(* ------------------------------------------------------------------ batches *)
Lemma batch_plan_P3L c (Hc : cfg_ok c) t : forall es s cur rot,
  0 < a_next (s_alloc s) ->
  TInvP c (a_next (s_alloc s)) (with_writer (get_ts s (t_id t)) (Some cur)) ->
  Forall (fun e => need c e <= c_max_alloc c) es ->
  P3L c (a_next (s_alloc s)) (with_writer (get_ts s (t_id t)) (Some cur)) ->
  let '(s', cur', _, _) := batch_plan c s t cur rot es in
  P3L c (a_next (s_alloc s')) (with_writer (get_ts s' (t_id t)) (Some cur')).
Proof.
  pose proof Hc as (Hh & Hb0 & Hba & Hbm & Hme & Hhb).
  induction es as [|e r IH]; intros s cur rot Hn Hinv Hsz HP; cbn [batch_plan]; [exact HP|].
  inversion Hsz as [|x l Hse Hsr]; subst.
  pose proof (need_pos c e Hh) as Hnp.
  set (X := with_writer (get_ts s (t_id t)) (Some cur)) in *.
  assert (HXw : ts_writer X = Some cur) by reflexivity.
  assert (Hcur : bwf c cur) by exact (writer_bwf c _ X cur Hinv HXw).
  destruct Hcur as (Hcu & Hcl & Hcm).
  destruct (need c e <=? b_limit cur - b_used cur) eqn:Efit.
  - (* fits into the running block *)
    assert (Hfit : b_used cur + need c e <= b_limit cur) by lia.
    destruct (add_entry c Hh _ X cur e Hinv HXw Hfit) as (A1 & A2 & A3).
    pose proof (add_entry_P3L c Hh _ X cur e Hinv HXw Hfit HP) as AP.
    exact (IH (st_disk_write s cur t [e]) (blk_add cur c [e]) rot Hn A1 Hsr AP).
  - (* seal the running block, take a fresh one sized for [e], write [e] into it *)
    destruct (alloc_sized_spec c (set_ts s (t_id t) (seal (get_ts s (t_id t)) cur)) (N.max (need c e) (c_block c)) Hb0 Hbm ltac:(lia) ltac:(lia))
      as (s'' & nb & Ha & Hsame & Hnext & Hfresh & Hlim).
    rewrite Ha. cbn [s_alloc set_ts] in Hnext, Hfresh.
    destruct (rotate c Hh (a_next (s_alloc s)) X cur nb Hn Hinv HXw Hfresh) as (R1 & R2 & R3).
    pose proof (rotate_P3L c Hh (a_next (s_alloc s)) X cur nb Hn Hinv HXw Hfresh HP) as RP.
    assert (Hg'' : get_ts s'' (t_id t) = seal (get_ts s (t_id t)) cur) by (rewrite Hsame; apply get_set_same).
    assert (Hconv : with_writer (get_ts s'' (t_id t)) (Some nb) = with_writer (seal X cur) (Some nb)) by (rewrite Hg''; reflexivity).
    set (Y := with_writer (get_ts s'' (t_id t)) (Some nb)) in *.
    assert (HYw : ts_writer Y = Some nb) by reflexivity.
    assert (HYinv : TInvP c (a_next (s_alloc s'')) Y) by (rewrite Hnext, Hconv; exact R1).
    assert (HYP : P3L c (a_next (s_alloc s'')) Y) by (rewrite Hnext, Hconv; exact RP).
    pose proof Hfresh as (Fi & Fu & Fe & Fl).
    assert (Hfit : b_used nb + need c e <= b_limit nb) by lia.
    destruct (add_entry c Hh _ Y nb e HYinv HYw Hfit) as (A1 & A2 & A3).
    pose proof (add_entry_P3L c Hh _ Y nb e HYinv HYw Hfit HYP) as AP.
    exact (IH (st_disk_write s'' nb t [e]) (blk_add nb c [e]) true ltac:(cbn [st_disk_write s_alloc]; lia) A1 Hsr AP).
Qed.

(* a batch, whatever its outcome *)
Lemma batch_P3L c be s t es : cfg_ok c -> GInv c s ->
  P3L c (a_next (s_alloc s)) (get_ts s (t_id t)) ->
  P3L c (a_next (s_alloc (fst (batch c be s t es)))) (get_ts (fst (batch c be s t es)) (t_id t)).
Proof.
  intros Hc Hg HP. pose proof Hc as (Hh & Hb0 & Hba & Hbm & Hme & Hhb).
  pose proof (ensure_P3L c s t Hc Hg HP) as HP1.
  destruct (ensure_writer_spec c s t Hc Hg) as (s1 & w & He & Hle1 & Hn1 & Hoth1 & Hw1 & Hp1 & Hst1 & Hun1 & Hcnt1).
  rewrite He in HP1. cbn [fst] in HP1. unfold batch. rewrite He.
  destruct (c_max_entries c <? N.of_nat (length es)); [exact HP1|].
  destruct (c_max_bytes c <? sum_need c es); [exact HP1|].
  destruct (appendable c t (max_len es)) as [k|] eqn:Eap; [exact HP1|].
  assert (Hname : name_ok c t = true /\ c_hdr c + max_len es <= c_max_alloc c).
  { unfold appendable in Eap. destruct (c_max_alloc c <? N.min u64_max (c_hdr c + max_len es)) eqn:E1; [discriminate|].
    destruct (name_ok c t); [|discriminate]. split; [reflexivity|lia]. }
  destruct Hname as (Hname & Hml).
  assert (Hsz : Forall (fun e => need c e <= c_max_alloc c) es).
  { clear - Hml. induction es as [|e es IH]; [constructor|]. cbn [max_len fold_right] in Hml. fold (max_len es) in Hml.
    constructor; [unfold need; lia|apply IH; lia]. }
  destruct es as [|e0 es0]; [exact HP1|].
  rewrite (tp_poison _ _ _ Hp1).
  set (ts := get_ts s1 (t_id t)) in *.
  assert (Hww : with_writer ts (Some w) = ts) by (apply with_writer_same; exact Hw1).
  assert (Hinvw : TInvP c (a_next (s_alloc s1)) (with_writer ts (Some w))) by (rewrite Hww; exact Hp1).
  assert (HPw : P3L c (a_next (s_alloc s1)) (with_writer ts (Some w))) by (rewrite Hww; exact HP1).
  pose proof (batch_plan_P3L c Hc t (e0 :: es0) s1 w false Hn1 Hinvw Hsz HPw) as Hpl.
  destruct (batch_plan_spec c Hc t (e0 :: es0) s1 w false Hn1 Hinvw Hsz) as (s2 & wfin & rot' & Hbp & _).
  rewrite Hbp in *. cbn [negb]. rewrite Hname. cbn [negb fst].
  rewrite get_set_same. cbn [s_alloc set_ts].
  apply count_add_P3L. exact Hpl.
Qed.
