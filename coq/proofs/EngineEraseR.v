(* EngineEraseR.v — C02 (a) for histories WITH restarts.
   [reopen] reads, of the in-memory state, only each known topic's persisted index and the
   unmodelled flag (everything else comes from the disk image); a non-consuming read changes
   neither, nor the disk.  So two runs that differ by erased peeks restart into states that are
   equal topic by topic ([reopen_get_eq]).
   Between a restart and a topic's first stateful read the topic's reader is raw (cursor as set by
   the recovery scan, persisted position not yet applied); the two stateful read APIs apply it in
   two flavours ([nrm false] = read_next, [nrm true] = batch_read) that differ in the reader's tail
   fields.  This file proves the erasure theorem for histories whose stateful reads all use ONE
   API ([api_ok x]): the runs are compared through the eager normalisation [Nst x], on which the
   restart-free simulation of EngineErase.v applies.  Offset-addressed batch reads (which never
   apply the persisted position) are unrestricted. *)
From W Require Import model.Base model.Engine spec.Queue spec.Crash proofs.EngineBasic proofs.EngineWF proofs.EngineInv proofs.EngineBR proofs.EngineW
  proofs.EngineMain proofs.EngineRec proofs.EngineDisk proofs.EnginePos proofs.EngineBlk proofs.EngineNorm proofs.EngineRestart
  proofs.EngineReopen proofs.EngineC06 proofs.CrashP proofs.EngineNormW proofs.EngineRaw proofs.EngineP3L proofs.EngineIdxL proofs.EngineALO proofs.AloAccP
  proofs.EngineGen proofs.EngineGenR proofs.EngineCrash proofs.EngineErase.
From Coq Require Import ZArith ZifyBool ZifyN ZifyNat.

(* ------------------------------------------------------------------ the recovery scan only finds non-empty chains *)
Definition NEc (l : list (N * (topic * list blk))) : Prop := Forall (fun q => snd (snd q) <> []) l.

Lemma rc_push_NE l t b : NEc l -> NEc (rc_push l t b).
Proof.
  induction l as [|[k [t0 ch]] r IH]; intros H; cbn [rc_push].
  - constructor; [cbn; discriminate|constructor].
  - inversion H as [|q l' Hq Hr]; subst. destruct (k =? t_id t).
    + constructor; [|exact Hr]. cbn. intros E. apply app_eq_nil in E. destruct E; discriminate.
    + constructor; [exact Hq|exact (IH Hr)].
Qed.

Lemma scan_blocks_NE c f : forall blocks zeros nid acc, NEc (rc_chains acc) ->
  NEc (rc_chains (fst (scan_blocks c f blocks zeros nid acc))).
Proof.
  induction blocks as [|b rest IH]; intros zeros nid acc H; cbn [scan_blocks]; [exact H|].
  destruct (d_ents b) as [|e es]; destruct (d_topic b) as [t|]; try (apply IH; exact H).
  destruct (walk_unit c (c_block c) (e :: es) 0 []) as [[seen used] lim].
  destruct (d_limit b <? lim); [exact H|]. apply IH. cbn [rc_chains]. apply rc_push_NE; exact H.
Qed.

Lemma scan_files_NE c disk : forall n f nid acc, NEc (rc_chains acc) ->
  NEc (rc_chains (fst (scan_files c n f disk nid acc))).
Proof.
  induction n as [|k IH]; intros f nid acc H; cbn [scan_files]; [exact H|].
  pose proof (scan_blocks_NE c f (filter (fun x => d_file x =? f) disk) 0 nid acc H) as H1.
  destruct (scan_blocks c f _ 0 nid acc) as [acc' id']. apply IH. exact H1.
Qed.

(* ------------------------------------------------------------------ what [reopen] reads *)
Lemma reopen_get_eq c s s' : cfg_ok c -> DIs c s -> BIs c s -> DIs c s' -> BIs c s' ->
  s_disk s' = s_disk s -> s_files s' = s_files s ->
  (forall t, ts_index (get_ts s' t) = ts_index (get_ts s t) /\ ts_unmodelled (get_ts s' t) = ts_unmodelled (get_ts s t)) ->
  forall t, get_ts (reopen c s') t = get_ts (reopen c s) t.
Proof.
  intros Hc Hd Hb Hd' Hb' Ed Ef Hiu t. pose proof Hc as (Hh & Hb0 & _).
  pose proof (scan_chain_ents c s t Hc Hd Hb) as Hce.
  pose proof (scan_chain_ents c s' t Hc Hd' Hb') as Hce'.
  pose proof (scan_files_NE c (rev (s_disk s)) (N.to_nat (s_files s + 1)) 0 1 {| rc_chains := []; rc_flag := false |} ltac:(constructor)) as Hne.
  unfold DIs in Hd. pose proof Hd as [_ _ _ Hwf _ _ _].
  pose proof (scan_files_complete c Hh Hb0 (N.to_nat (s_files s + 1)) 0 (rev (s_disk s)) 1 {| rc_chains := []; rc_flag := false |} Hwf) as Hscan.
  unfold reopen, scan0 in *. rewrite Ed, Ef in *.
  destruct (scan_files c (N.to_nat (s_files s + 1)) 0 (rev (s_disk s)) 1 {| rc_chains := []; rc_flag := false |}) as [rc nid].
  destruct Hscan as (Hflag & _). cbn [rc_flag fst] in *.
  specialize (Hiu t). unfold get_ts in *. cbn [s_topics].
  rewrite !find_map_key.
  2,3: (intros [k v]; cbn; destruct (find _ (rc_chains rc)) as [[? [? ?]]|]; [destruct (startup_cursor _ _)|]; reflexivity).
  unfold rc_get in *.
  destruct (find (fun p => fst p =? t) (s_topics s)) as [[k old]|] eqn:E1;
  destruct (find (fun p => fst p =? t) (s_topics s')) as [[k' old']|] eqn:E2; cbn [option_map snd fst] in *.
  - pose proof (find_some _ _ E1) as (_ & Hk). pose proof (find_some _ _ E2) as (_ & Hk'). cbn in Hk, Hk'.
    assert (k = t) by lia. assert (k' = t) by lia. subst k k'. destruct Hiu as (Hi & Hu). rewrite Hi, Hu. reflexivity.
  - pose proof (find_some _ _ E1) as (_ & Hk). cbn in Hk. assert (k = t) by lia. subst k.
    destruct Hiu as (Hi & Hu). cbn in Hi, Hu.
    destruct (find (fun q => fst q =? t) (rc_chains rc)) as [[k2 [t2 ch]]|] eqn:E3.
    + exfalso. pose proof (find_some _ _ E3) as (Hin & _).
      pose proof (proj1 (Forall_forall _ _) Hne _ Hin) as Hch. cbn in Hch.
      cbn in Hce'. destruct ch; [congruence|discriminate].
    + cbn [snd]. rewrite <- Hi, <- Hu, Hflag. reflexivity.
  - pose proof (find_some _ _ E2) as (_ & Hk). cbn in Hk. assert (k' = t) by lia. subst k'.
    destruct Hiu as (Hi & Hu). cbn in Hi, Hu.
    destruct (find (fun q => fst q =? t) (rc_chains rc)) as [[k2 [t2 ch]]|] eqn:E3.
    + exfalso. pose proof (find_some _ _ E3) as (Hin & _).
      pose proof (proj1 (Forall_forall _ _) Hne _ Hin) as Hch. cbn in Hch.
      cbn in Hce. destruct ch; [congruence|discriminate].
    + cbn [snd]. rewrite Hi, Hu, Hflag. reflexivity.
  - reflexivity.
Qed.

(* ------------------------------------------------------------------ one read API per history *)
(* x = false: the stateful reads are read_next calls; x = true: they are batch reads.
   Offset-addressed batch reads are allowed in both. *)
Definition api_ok (x : bool) (o : op) : bool :=
  match o with
  | ORead _ _ => negb x
  | OBatchRead _ _ _ None => x
  | _ => true
  end.

(* the two runs are compared through the eager normalisation *)
Definition ER (x : bool) (s s' : st) : Prop := ssim (Nst x s) (Nst x s').

Lemma batch_read_nrm_gen c m S t maxb ck ts : get_ts S (t_id t) = nrm true ts ->
  batch_read c m S t maxb ck None = br_from c m S t maxb ck ts (br_position c ts None).
Proof.
  intros Hg. unfold batch_read. rewrite Hg, !br_position_hyd. cbn zeta.
  unfold nrm. destruct (r_hydrated (reader_of ts)) eqn:E; [reflexivity|].
  destruct (ts_index ts) as [p|] eqn:Ei; [|rewrite Ei; reflexivity].
  cbn [reader_of with_reader ts_reader ts_index]. rewrite Ei.
  rewrite (hyd_of_hydrated true (hyd true (reader_of ts) (Some p)) (Some p) (hyd_hydrated _ _ _)).
  apply br_from_reader.
Qed.

(* every operation except a restart and the offset-addressed reads commutes with the
   normalisation of its own flavour *)
Lemma step_Nst c m be x s g B Bb o : cfg_ok c -> GM c s g B Bb -> api_ok x o = true ->
  match o with OReopen | OBatchRead _ _ _ (Some _) => False | _ => True end ->
  step (env_of c m be) (Nst x s) o = (Nst x (fst (step (env_of c m be) s o)), snd (step (env_of c m be) s o)).
Proof.
  intros Hc HG Hapi Hsh. pose proof HG as (Hn & _ & _ & _ & Hall).
  pose proof (proj1 (GM_Rel x c s g B Bb HG)) as (_ & Hti).
  destruct o as [t e | t es | t ck | t maxb ck [st0|] | t | ]; try contradiction; cbn [step env_of v_cfg v_mode v_backend api_ok] in *.
  - exact (proj1 (append_Nst x c s t e Hn (fun bid => TGM_CS c _ _ _ B Bb (Hall (t_id t)) Hn bid))).
  - exact (proj1 (batch_Nst x c be s t es Hn (fun bid => TGM_CS c _ _ _ B Bb (Hall (t_id t)) Hn bid))).
  - apply negb_true_iff in Hapi. subst x.
    destruct (read_next_spec_idxL c m (Nst false s) t ck _ Hc (Hti (t_id t))) as (ts' & res & E & _ & _ & _ & _ & Hh & _).
    rewrite read_next_from, get_Nst, rn_from_nrm in E |- *.
    pose proof (f_equal fst E) as E1. cbn [fst] in E1. apply set_ts_inj in E1.
    rewrite read_next_from. cbn [fst snd]. rewrite Nst_set_ts, E1, (nrm_reader_hydrated false ts' Hh). reflexivity.
  - subst x.
    destruct (batch_read_spec_idxL c m (Nst true s) t maxb ck _ Hc (Hti (t_id t))) as (ts' & k & E & _ & _ & _ & _ & Hh & _).
    rewrite (batch_read_nrm_gen c m (Nst true s) t maxb ck (get_ts s (t_id t)) (get_Nst true s (t_id t))) in E |- *.
    unfold batch_read.
    destruct (br_from_state c m s (Nst true s) t maxb ck (get_ts s (t_id t)) (br_position c (get_ts s (t_id t)) None)) as (A & Bq).
    destruct (br_from_state c m s s t maxb ck (get_ts s (t_id t)) (br_position c (get_ts s (t_id t)) None)) as (A' & _).
    rewrite E in A, Bq. cbn [fst snd] in A, Bq. apply set_ts_inj in A.
    rewrite E. f_equal; [|exact Bq].
    rewrite A'. rewrite <- A. rewrite Nst_set_ts, (nrm_reader_hydrated true ts' Hh). reflexivity.
  - rewrite get_Nst, nrm_count. reflexivity.
Qed.

Lemma ER_get x s s1 s' : s_alloc s1 = s_alloc s -> s_disk s1 = s_disk s -> s_files s1 = s_files s ->
  (forall t, get_ts s1 t = get_ts s t) -> ER x s s' -> ER x s1 s'.
Proof.
  intros Ha Hd Hf Hg (A & B0 & C & D). unfold ER, ssim. cbn [Nst s_alloc s_disk s_files] in *.
  rewrite Ha, Hd, Hf. split; [exact A|]. split; [exact B0|]. split; [exact C|].
  intros t. specialize (D t). rewrite !get_Nst in *. rewrite Hg. exact D.
Qed.

(* a kept operation other than a restart *)
Lemma ER_step_keep c m be x s s' g B Bb g' B' Bb' o : cfg_ok c ->
  GM c s g B Bb -> GM c s' g' B' Bb' -> ER x s s' -> api_ok x o = true -> EngineErase.keep o = true -> o <> OReopen ->
  snd (step (env_of c m be) s' o) = snd (step (env_of c m be) s o) /\
  ER x (fst (step (env_of c m be) s o)) (fst (step (env_of c m be) s' o)).
Proof.
  intros Hc HG HG' He Hapi Hk Hne.
  assert (Hsh : match o with OReopen | OBatchRead _ _ _ (Some _) => False | _ => True end).
  { destruct o as [| |t ck|t mb ck [st0|]| |]; try exact I; [|congruence].
    unfold EngineErase.keep in Hk. cbn in Hk. destruct ck; discriminate. }
  pose proof (step_Nst c m be x s g B Bb o Hc HG Hapi Hsh) as E1.
  pose proof (step_Nst c m be x s' g' B' Bb' o Hc HG' Hapi Hsh) as E2.
  pose proof (step_sim c m be (Nst x s) (Nst x s') o He (proj1 (GM_Rel x c s g B Bb HG)) (proj1 (GM_Rel x c s' g' B' Bb' HG')) Hne) as Hss.
  rewrite E1, E2 in Hss. exact Hss.
Qed.

(* an erased operation *)
Lemma ER_step_erased c m be x s s' g B Bb o : cfg_ok c ->
  GM c s g B Bb -> ER x s s' -> api_ok x o = true -> nonconsuming o = true ->
  ER x (fst (step (env_of c m be) s o)) s'.
Proof.
  intros Hc HG He Hapi Hnc.
  destruct o as [t e | t es | t ck | t maxb ck [st0|] | t | ]; try discriminate.
  - pose proof (step_Nst c m be x s g B Bb (ORead t ck) Hc HG Hapi I) as E1.
    pose proof (peek_ssim c m be (Nst x s) (ORead t ck) (proj1 (GM_Rel x c s g B Bb HG)) Hnc) as Hp.
    rewrite E1 in Hp. cbn [fst] in Hp. unfold ER. exact (ssim_trans _ _ _ (ssim_sym _ _ Hp) He).
  - cbn [step env_of v_cfg v_mode v_backend].
    destruct (batch_read_stateless c m s t maxb ck st0) as (os & E). rewrite E. cbn [fst].
    apply (ER_get x s); try reflexivity; [|exact He].
    intros u. destruct (N.eq_dec u (t_id t)) as [->|Hu]; [apply get_set_same|now apply get_set_other].
  - pose proof (step_Nst c m be x s g B Bb (OBatchRead t maxb ck None) Hc HG Hapi I) as E1.
    pose proof (peek_ssim c m be (Nst x s) (OBatchRead t maxb ck None) (proj1 (GM_Rel x c s g B Bb HG)) Hnc) as Hp.
    rewrite E1 in Hp. cbn [fst] in Hp. unfold ER. exact (ssim_trans _ _ _ (ssim_sym _ _ Hp) He).
Qed.

(* a restart on both sides *)
Lemma ER_reopen c x s s' g B Bb g' B' Bb' : cfg_ok c ->
  GM c s g B Bb -> GM c s' g' B' Bb' -> ER x s s' -> ER x (reopen c s) (reopen c s').
Proof.
  intros Hc (_ & Hd & Hb & _ & _) (_ & Hd' & Hb' & _ & _) (A & B0 & C & D). cbn [Nst s_alloc s_disk s_files] in *.
  assert (Hg : forall t, get_ts (reopen c s') t = get_ts (reopen c s) t).
  { apply (reopen_get_eq c s s' Hc Hd Hb Hd' Hb' B0 C). intros t. specialize (D t). rewrite !get_Nst in D.
    destruct D as [_ _ _ Hi Hu _]. rewrite !nrm_index in Hi. rewrite !nrm_unmodelled in Hu. auto. }
  destruct (reopen_fields c s) as (F1 & F2 & F3). destruct (reopen_fields c s') as (F1' & F2' & F3').
  unfold ER, ssim. cbn [Nst s_alloc s_disk s_files].
  split; [rewrite F3, F3'; unfold scan0; now rewrite B0, C|]. split; [now rewrite F1, F1'|]. split; [now rewrite F2, F2', C|].
  intros t. rewrite !get_Nst, Hg. apply tsim_refl.
Qed.

(* ------------------------------------------------------------------ the erasure theorem, with restarts *)
Theorem erase_with_restarts_gen x c m be : cfg_ok c -> forall ops s s' g B Bb g' B' Bb',
  GM c s g B Bb -> GM c s' g' B' Bb' -> ER x s s' -> forallb (api_ok x) ops = true ->
  outside_known (env_of c m be) s ops = true ->
  outside_known (env_of c m be) s' (filter EngineErase.keep ops) = true ->
  B + N.of_nat (length (offered_all ops)) <= u64_max -> Bb + sum_len (offered_all ops) <= u64_max ->
  B' + N.of_nat (length (offered_all ops)) <= u64_max -> Bb' + sum_len (offered_all ops) <= u64_max ->
  filter (fun p => EngineErase.keep (fst p)) (trace (env_of c m be) s ops) =
  trace (env_of c m be) s' (filter EngineErase.keep ops).
Proof.
  intros Hc. induction ops as [|o r IH]; intros s s' g B Bb g' B' Bb' HG HG' He Hapi Hout Hout' HB HBb HB' HBb'; [reflexivity|].
  cbn [forallb] in Hapi. apply andb_true_iff in Hapi. destruct Hapi as (Hao & Har).
  cbn [outside_known] in Hout. apply andb_true_iff in Hout. destruct Hout as (Ho & Hout).
  cbn [offered_all] in HB, HBb, HB', HBb'. rewrite app_length, Nat2N.inj_add in HB, HB'. rewrite sum_len_app in HBb, HBb'.
  cbn [trace filter] in *. unfold EngineErase.keep at 2. unfold EngineErase.keep at 1 in Hout'.
  destruct (nonconsuming o) eqn:En; cbn [negb] in *.
  - (* erased *)
    assert (Hok : op_ok c o) by (destruct o; try exact I; discriminate).
    pose proof (GM_step c m be s g B Bb o Hc HG Hok ltac:(lia) ltac:(lia)) as (_ & HG1).
    pose proof (ER_step_erased c m be x s s' g B Bb o Hc HG He Hao En) as He1.
    rewrite (offered_nonconsuming o En) in *. cbn [length sum_len fold_right N.of_nat] in *. rewrite ?N.add_0_r in *.
    destruct (step (env_of c m be) s o) as [s1 res]. cbn [fst snd] in *.
    cbn [filter fst]. unfold EngineErase.keep at 1. rewrite En. cbn [negb].
    apply (IH s1 s' _ _ _ _ _ _ HG1 HG' He1 Har Hout Hout'); lia.
  - (* kept *)
    cbn [outside_known] in Hout'. apply andb_true_iff in Hout'. destruct Hout' as (Ho' & Hout').
    cbn [trace].
    destruct o as [t e | t es | t ck | t maxb ck start | t | ].
    1-5: (match goal with |- context [step _ _ ?o] =>
      pose proof (GM_step c m be s g B Bb o Hc HG I ltac:(lia) ltac:(lia)) as (_ & HG1);
      pose proof (GM_step c m be s' g' B' Bb' o Hc HG' I ltac:(lia) ltac:(lia)) as (_ & HG1');
      pose proof (ER_step_keep c m be x s s' g B Bb g' B' Bb' o Hc HG HG' He Hao ltac:(unfold EngineErase.keep; now rewrite En) ltac:(discriminate)) as (Hr & He1);
      destruct (step (env_of c m be) s o) as [s1 res]; destruct (step (env_of c m be) s' o) as [s1' res'];
      cbn [fst snd] in *; subst res'; cbn [filter fst]; unfold EngineErase.keep at 1; rewrite En; cbn [negb]; f_equal;
      apply (IH s1 s1' _ _ _ _ _ _ HG1 HG1' He1 Har Hout Hout'); lia end).
    cbn [step env_of v_cfg fst offered length sum_len fold_right N.of_nat] in *. rewrite ?N.add_0_r in *.
    apply negb_true_iff in Ho. apply negb_true_iff in Ho'.
    pose proof (proj1 (GM_reopen c s g B Bb Hc HG Ho)) as HG1. pose proof (proj1 (GM_reopen c s' g' B' Bb' Hc HG' Ho')) as HG1'.
    cbn [filter fst]. change (EngineErase.keep OReopen) with true. cbn iota. f_equal.
    apply (IH _ _ _ _ _ _ _ _ HG1 HG1' (ER_reopen c x s s' g B Bb g' B' Bb' Hc HG HG' He) Har Hout Hout'); lia.
Qed.

Corollary erase_with_restarts_one_api x c m be ops : cfg_ok c ->
  forallb (api_ok x) ops = true ->
  outside_known (env_of c m be) init ops = true ->
  outside_known (env_of c m be) init (filter EngineErase.keep ops) = true ->
  N.of_nat (length (offered_all ops)) <= u64_max -> sum_len (offered_all ops) <= u64_max ->
  filter (fun p => EngineErase.keep (fst p)) (trace (env_of c m be) init ops) =
  trace (env_of c m be) init (filter EngineErase.keep ops).
Proof.
  intros Hc Hapi Ho Ho' HB HBb. pose proof Hc as (_ & Hb0 & _).
  apply (erase_with_restarts_gen x c m be Hc ops init init [] 0 0 [] 0 0 (GM_init c Hb0) (GM_init c Hb0) (ssim_refl _) Hapi Ho Ho'); lia.
Qed.
