(* StreamSpecP.v — the queue acceptor for histories without overlapping operations is sound
   for the positional C22 acceptor: seq_hist + c22_seq_scan imply c22_verdict_evs = 0.

   Structure: [acks]/[vals] are the payloads acknowledged (PUT answered OK) / returned (GET
   answered with a value), in trace order.  The scan gives, for every prefix, the FIFO
   equation  acks pre = vals pre ++ queue ; seq_hist gives that [acks] lists, per client,
   strictly increasing indices (hence no duplicates) and that every answer is preceded by its
   invocation.  Positions of [numbered evs] are turned into splits evs = pre ++ e :: post. *)
From W Require Import model.Base model.Map model.Bincode model.Meta model.Cluster spec.StreamSpec proofs.MapP.
From Coq Require Import ZArith ZifyBool ZifyN ZifyNat.

(* ---------- payload equality ---------- *)
Lemma pl_eqb_eq (a b : cpayload) : pl_eqb a b = true -> a = b.
Proof.
  destruct a as [a1 a2], b as [b1 b2]. unfold pl_eqb. cbn [fst snd]. intros H.
  apply andb_true_iff in H. destruct H as [H1 H2].
  apply N.eqb_eq in H1. apply N.eqb_eq in H2. now subst.
Qed.

Lemma pl_eqb_refl (a : cpayload) : pl_eqb a a = true.
Proof. unfold pl_eqb. now rewrite !N.eqb_refl. Qed.

(* ---------- acknowledged and returned payloads ---------- *)
Fixpoint acks (evs : list csub) : list cpayload :=
  match evs with
  | [] => []
  | EResp c k CROk :: r => (c, k) :: acks r
  | _ :: r => acks r
  end.

Fixpoint vals (evs : list csub) : list cpayload :=
  match evs with
  | [] => []
  | EResp _ _ (CRVal p) :: r => p :: vals r
  | _ :: r => vals r
  end.

Lemma acks_app a b : acks (a ++ b) = acks a ++ acks b.
Proof.
  induction a as [|e a IH]; [reflexivity|].
  destruct e as [c k ip n|c k res| | |]; cbn [app acks]; auto.
  destruct res; cbn [app]; now rewrite ?IH.
Qed.

Lemma vals_app a b : vals (a ++ b) = vals a ++ vals b.
Proof.
  induction a as [|e a IH]; [reflexivity|].
  destruct e as [c k ip n|c k res| | |]; cbn [app vals]; auto.
  destruct res; cbn [app]; now rewrite ?IH.
Qed.

Lemma in_acks_split l p : In p (acks l) ->
  exists pre c k post, l = pre ++ EResp c k CROk :: post /\ p = (c, k).
Proof.
  induction l as [|e l IH]; cbn [acks]; [intros []|].
  assert (K : In p (acks l) -> exists pre c k post, e :: l = pre ++ EResp c k CROk :: post /\ p = (c, k)).
  { intros H. destruct (IH H) as (pre & c & k & post & E & Ep).
    exists (e :: pre), c, k, post. split; [now rewrite E|auto]. }
  destruct e as [c k ip n|c k res| | |]; auto.
  destruct res; auto.
  intros [H|H]; auto. exists [], c, k, l. split; auto.
Qed.

Lemma in_vals_split l p : In p (vals l) ->
  exists pre c k post, l = pre ++ EResp c k (CRVal p) :: post.
Proof.
  induction l as [|e l IH]; cbn [vals]; [intros []|].
  assert (K : In p (vals l) -> exists pre c k post, e :: l = pre ++ EResp c k (CRVal p) :: post).
  { intros H. destruct (IH H) as (pre & c & k & post & E).
    exists (e :: pre), c, k, post. now rewrite E. }
  destruct e as [c k ip n|c k res| | |]; auto.
  destruct res; auto.
  intros [H|H]; auto. subst p0. exists [], c, k, l. auto.
Qed.

(* ---------- the scan: FIFO equation at every prefix ---------- *)
Lemma scan_split : forall pre post q, c22_seq_scan q (pre ++ post) = true ->
  exists q1, q ++ acks pre = vals pre ++ q1 /\ c22_seq_scan q1 post = true.
Proof.
  induction pre as [|e pre IH]; intros post q H.
  - exists q. cbn [acks vals app]. now rewrite app_nil_r.
  - cbn [app] in H. destruct e as [c k ip n|c k res| | |]; cbn [c22_seq_scan acks vals] in *;
      try (apply IH; assumption).
    destruct res.
    + destruct (IH _ _ H) as (q1 & E & Hs). exists q1. split; auto.
      rewrite <- E. rewrite <- app_assoc. reflexivity.
    + destruct q; [|discriminate]. apply IH; auto.
    + destruct q as [|a q0]; [discriminate|]. apply andb_true_iff in H. destruct H as [Ha H].
      apply pl_eqb_eq in Ha. subst a. destruct (IH _ _ H) as (q1 & E & Hs). exists q1. split; auto.
      cbn [app]. now rewrite E.
    + apply IH; auto.
Qed.

Lemma scan_val pre c k p post : c22_seq_scan [] (pre ++ EResp c k (CRVal p) :: post) = true ->
  exists q, acks pre = vals pre ++ p :: q.
Proof.
  intros H. destruct (scan_split _ _ _ H) as (q1 & E & Hs). cbn [app] in E.
  cbn [c22_seq_scan] in Hs. destruct q1 as [|a q0]; [discriminate|].
  apply andb_true_iff in Hs. destruct Hs as [Ha _]. apply pl_eqb_eq in Ha. subst a.
  now exists q0.
Qed.

Lemma scan_empty pre c k post : c22_seq_scan [] (pre ++ EResp c k CREmpty :: post) = true ->
  acks pre = vals pre.
Proof.
  intros H. destruct (scan_split _ _ _ H) as (q1 & E & Hs). cbn [app] in E.
  cbn [c22_seq_scan] in Hs. destruct q1; [|discriminate]. now rewrite app_nil_r in E.
Qed.

Lemma scan_all evs : c22_seq_scan [] evs = true -> exists q, acks evs = vals evs ++ q.
Proof.
  intros H. rewrite <- (app_nil_r evs) in H. destruct (scan_split _ _ _ H) as (q1 & E & _).
  now exists q1.
Qed.

(* ---------- per-client increasing lists of payloads ---------- *)
Fixpoint cinc (l : list cpayload) : Prop :=
  match l with
  | [] => True
  | a :: r => (forall b, In b r -> fst a = fst b -> snd a < snd b) /\ cinc r
  end.

Lemma cinc_app_l l1 l2 : cinc (l1 ++ l2) -> cinc l1.
Proof.
  induction l1 as [|a l1 IH]; cbn [app cinc]; auto.
  intros [H1 H2]. split; auto. intros b Hb. apply H1. apply in_or_app; auto.
Qed.

Lemma cinc_split l1 a l2 b l3 : cinc (l1 ++ a :: l2 ++ b :: l3) -> fst a = fst b -> snd a < snd b.
Proof.
  induction l1 as [|x l1 IH]; cbn [app cinc].
  - intros [H _]. apply H. apply in_or_app. right. left. reflexivity.
  - intros [_ H]. auto.
Qed.

Lemma cinc_nodup l : cinc l -> nodup_pl l = true.
Proof.
  induction l as [|a l IH]; cbn [cinc nodup_pl]; auto.
  intros [H1 H2]. rewrite (IH H2), andb_true_r.
  destruct (existsb (pl_eqb a) l) eqn:E; auto.
  apply existsb_exists in E. destruct E as (b & Hb & Hab). apply pl_eqb_eq in Hab. subst b.
  specialize (H1 a Hb eq_refl). lia.
Qed.

(* ---------- what seq_hist gives ---------- *)
Definition above (last : list (N * N)) (b : cpayload) : Prop :=
  forall k0, lookup N.compare (fst b) last = Some k0 -> k0 < snd b.

Lemma seq_acks : forall evs last cur, seq_hist last cur evs = true ->
  match cur with
  | None => cinc (acks evs) /\ Forall (above last) (acks evs)
  | Some (c0, k0, _) => lookup N.compare c0 last = Some k0 ->
      exists tl, (acks evs = tl \/ acks evs = (c0, k0) :: tl) /\ cinc tl /\ Forall (above last) tl
  end.
Proof.
  induction evs as [|e r IH]; intros last cur H.
  - destruct cur as [[[c0 k0] ip]|]; cbn [acks cinc].
    + intros _. exists []. cbn [cinc]. auto.
    + auto.
  - destruct e as [c k ip n|c k res| | |].
    + cbn [seq_hist] in H. destruct cur; [discriminate|].
      assert (Hlt : (forall k0, lookup N.compare c last = Some k0 -> k0 < k) /\
                    seq_hist (ins N.compare c k last) (Some (c, k, ip)) r = true).
      { destruct (lookup N.compare c last) as [k0|].
        - apply andb_true_iff in H. destruct H as [H1 H2]. split; auto.
          intros k1 E. inversion E; subst. now apply N.ltb_lt.
        - split; auto. discriminate. }
      destruct Hlt as [Hlt H2]. specialize (IH _ _ H2). cbn beta iota in IH.
      specialize (IH (lookup_ins_same N_cmp_ok c k last)).
      destruct IH as (tl & Htl & Hc & Hf). cbn [acks].
      rewrite Forall_forall in Hf.
      assert (Hf1 : Forall (above last) tl).
      { apply Forall_forall. intros b Hb k0 E. specialize (Hf b Hb). unfold above in Hf.
        destruct (N.eq_dec (fst b) c) as [e|e].
        - rewrite e in *. rewrite (lookup_ins_same N_cmp_ok) in Hf.
          specialize (Hf k eq_refl). specialize (Hlt k0 E). lia.
        - rewrite (lookup_ins_other N_cmp_ok) in Hf by auto. auto. }
      assert (Hf2 : forall b, In b tl -> c = fst b -> k < snd b).
      { intros b Hb E. apply (Hf b Hb). rewrite <- E. apply (lookup_ins_same N_cmp_ok). }
      destruct Htl as [E|E]; rewrite E.
      * split; auto.
      * split; [cbn [cinc fst snd]; split; auto|].
        constructor; auto.
    + cbn [seq_hist] in H. destruct cur as [[[c0 k0] ip]|]; [|discriminate].
      apply andb_true_iff in H. destruct H as [H H4].
      apply andb_true_iff in H. destruct H as [H H3].
      apply andb_true_iff in H. destruct H as [H1 H2].
      apply N.eqb_eq in H1. apply N.eqb_eq in H2. subst c0 k0.
      specialize (IH _ _ H4). cbn beta iota in IH. destruct IH as [Hc Hf].
      intros _. exists (acks r). destruct res; cbn [acks]; auto.
    + cbn [seq_hist acks] in *. apply (IH _ _ H).
    + cbn [seq_hist acks] in *. apply (IH _ _ H).
    + cbn [seq_hist acks] in *. apply (IH _ _ H).
Qed.

Lemma seq_cinc evs : seq_hist [] None evs = true -> cinc (acks evs).
Proof. intros H. apply (seq_acks _ _ _ H). Qed.

(* every answer is preceded by its invocation, of a fitting kind *)
Lemma seq_resp_inv c k res post : forall pre last cur,
  seq_hist last cur (pre ++ EResp c k res :: post) = true ->
  (exists ip, cur = Some (c, k, ip) /\ res_fits ip res = true) \/
  (exists pre1 ip n pre2, pre = pre1 ++ EInv c k ip n :: pre2 /\ res_fits ip res = true).
Proof.
  induction pre as [|e pre IH]; intros last cur H.
  - cbn [app seq_hist] in H. destruct cur as [[[c0 k0] ip]|]; [|discriminate].
    apply andb_true_iff in H. destruct H as [H H4].
    apply andb_true_iff in H. destruct H as [H H3].
    apply andb_true_iff in H. destruct H as [H1 H2].
    apply N.eqb_eq in H1. apply N.eqb_eq in H2. subst c0 k0. left. eauto.
  - assert (K : forall last' cur', seq_hist last' cur' (pre ++ EResp c k res :: post) = true ->
                cur' = None \/ cur' = cur ->
                (exists ip, cur = Some (c, k, ip) /\ res_fits ip res = true) \/
                (exists pre1 ip n pre2, e :: pre = pre1 ++ EInv c k ip n :: pre2 /\ res_fits ip res = true)).
    { intros last' cur' H' Hc. destruct (IH _ _ H') as [(ip & E & F)|(pre1 & ip & n & pre2 & E & F)].
      - destruct Hc as [Hc|Hc]; [congruence|]. subst cur'. left. eauto.
      - right. exists (e :: pre1), ip, n, pre2. split; auto. now rewrite E. }
    cbn [app] in H. destruct e as [c' k' ip' n'|c' k' res'| | |]; cbn [seq_hist] in H.
    + destruct cur; [discriminate|].
      assert (H2 : seq_hist (ins N.compare c' k' last) (Some (c', k', ip')) (pre ++ EResp c k res :: post) = true).
      { destruct (lookup N.compare c' last); auto. apply andb_true_iff in H. tauto. }
      destruct (IH _ _ H2) as [(ip & E & F)|(pre1 & ip & n & pre2 & E & F)].
      * inversion E; subst. right. exists [], ip, n', pre. auto.
      * right. exists (EInv c' k' ip' n' :: pre1), ip, n, pre2. split; auto. now rewrite E.
    + destruct cur as [[[c0 k0] ip0]|]; [|discriminate].
      apply andb_true_iff in H. destruct H as [_ H]. eapply K; eauto.
    + eapply K; eauto.
    + eapply K; eauto.
    + eapply K; eauto.
Qed.

Lemma seq_resp_inv0 evs pre c k res post : seq_hist [] None evs = true ->
  evs = pre ++ EResp c k res :: post ->
  exists pre1 ip n pre2, pre = pre1 ++ EInv c k ip n :: pre2 /\ res_fits ip res = true.
Proof.
  intros H E. subst evs. destruct (seq_resp_inv _ _ _ _ _ _ _ H) as [(ip & E & _)|K]; [discriminate|auto].
Qed.

(* ---------- positions of [number_from] as splits ---------- *)
Lemma in_nf_split {A : Type} (l : list A) : forall i j e, In (j, e) (number_from i l) ->
  exists pre post, l = pre ++ e :: post /\ j = (i + length pre)%nat.
Proof.
  induction l as [|a l IH]; intros i j e; cbn [number_from]; [intros []|].
  intros [H|H].
  - inversion H; subst. exists [], l. cbn [app length]. split; [reflexivity|lia].
  - destruct (IH _ _ _ H) as (pre & post & E & Ej). exists (a :: pre), post.
    cbn [app length]. split; [now rewrite E|lia].
Qed.

Lemma in_nf_intro {A : Type} (pre : list A) e post : forall i,
  In ((i + length pre)%nat, e) (number_from i (pre ++ e :: post)).
Proof.
  induction pre as [|a pre IH]; intros i; cbn [app length number_from].
  - left. f_equal. lia.
  - right. replace (i + S (length pre))%nat with (S i + length pre)%nat by lia. apply IH.
Qed.

Lemma in_numbered_split {A : Type} (l : list A) j e : In (j, e) (numbered l) ->
  exists pre post, l = pre ++ e :: post /\ j = length pre.
Proof.
  intros H. destruct (in_nf_split _ _ _ _ H) as (pre & post & E & Ej). exists pre, post. split; auto.
Qed.

Lemma in_numbered_intro {A : Type} (l pre : list A) e post : l = pre ++ e :: post ->
  In (length pre, e) (numbered l).
Proof. intros ->. apply (in_nf_intro pre e post 0%nat). Qed.

Lemma split_nest {A : Type} (pre1 pre2 post : list A) x y :
  (pre1 ++ x :: pre2) ++ y :: post = pre1 ++ x :: (pre2 ++ y :: post).
Proof. now rewrite <- app_assoc. Qed.

Lemma split_lt {A : Type} : forall (preA preB postA postB : list A) x y,
  preA ++ x :: postA = preB ++ y :: postB -> (length preA < length preB)%nat ->
  exists mid, preB = preA ++ x :: mid.
Proof.
  induction preA as [|a preA IH]; intros preB postA postB x y E L.
  - destruct preB as [|b preB]; cbn [length] in L; [lia|].
    cbn [app] in E. inversion E; subst. now exists preB.
  - destruct preB as [|b preB]; cbn [length] in L; [lia|].
    cbn [app] in E. inversion E; subst.
    destruct (IH preB postA postB x y H1) as (mid & Em); [lia|].
    exists mid. cbn [app]. now rewrite Em.
Qed.

(* ---------- deliveries, inv_pos, acked_before over numbered lists ---------- *)
Definition ipos (all : list (nat * csub)) (c k : N) (j : nat) : nat :=
  match inv_pos all c k with Some i => i | None => j end.

Lemma in_deliv_elim all : forall h d, In d (deliveries h all) ->
  exists j c k p, In (j, EResp c k (CRVal p)) h /\ d = (j, ipos all c k j, p).
Proof.
  induction h as [|[j e] h IH]; intros d; cbn [deliveries]; [intros []|].
  assert (K : In d (deliveries h all) ->
              exists j0 c k p, In (j0, EResp c k (CRVal p)) ((j, e) :: h) /\ d = (j0, ipos all c k j0, p)).
  { intros H. destruct (IH _ H) as (j0 & c & k & p & Hi & Ed). exists j0, c, k, p. split; [now right|auto]. }
  destruct e as [c k ip n|c k res| | |]; auto.
  destruct res; auto.
  intros [H|H]; auto. exists j, c, k, p. split; [now left|]. now rewrite <- H.
Qed.

Lemma in_deliv_intro all j c k p : forall h, In (j, EResp c k (CRVal p)) h ->
  In (j, ipos all c k j, p) (deliveries h all).
Proof.
  induction h as [|[j0 e] h IH]; [intros []|]. intros [H|H].
  - inversion H; subst. cbn [deliveries]. left. reflexivity.
  - specialize (IH H). cbn [deliveries].
    destruct e as [c' k' ip n|c' k' res| | |]; auto.
    destruct res; auto. now right.
Qed.

Lemma deliv_vals all : forall evs i, map snd (deliveries (number_from i evs) all) = vals evs.
Proof.
  induction evs as [|e evs IH]; intros i; [reflexivity|].
  cbn [number_from deliveries vals].
  destruct e as [c k ip n|c k res| | |]; auto.
  destruct res; auto. cbn [map snd]. now rewrite IH.
Qed.

Lemma inv_pos_le c k ip n post : forall pre s,
  exists i, inv_pos (number_from s (pre ++ EInv c k ip n :: post)) c k = Some i /\ (i <= s + length pre)%nat.
Proof.
  induction pre as [|e pre IH]; intros s; cbn [app number_from inv_pos length].
  - rewrite !N.eqb_refl. cbn [andb]. exists s. split; auto. lia.
  - destruct (IH (S s)) as (i & Ei & Li).
    assert (K : exists i0, inv_pos (number_from (S s) (pre ++ EInv c k ip n :: post)) c k = Some i0 /\
                           (i0 <= s + S (length pre))%nat) by (exists i; split; auto; lia).
    destruct e as [c' k' ip' n'|c' k' res'| | |]; auto.
    destruct ((c =? c') && (k =? k')); auto. exists s. split; auto. lia.
Qed.

Lemma ipos_le evs pre c k res post : seq_hist [] None evs = true ->
  evs = pre ++ EResp c k res :: post ->
  (ipos (numbered evs) c k (length pre) <= length pre)%nat.
Proof.
  intros H E. destruct (seq_resp_inv0 _ _ _ _ _ _ H E) as (pre1 & ip & n & pre2 & Ep & _).
  subst pre. rewrite split_nest in E. subst evs.
  destruct (inv_pos_le c k ip n (pre2 ++ EResp c k res :: post) pre1 0%nat) as (i & Ei & Li).
  unfold ipos, numbered. rewrite Ei. rewrite app_length. cbn [length]. lia.
Qed.

Lemma in_acked : forall l s b p, In p (acked_before (number_from s l) b) ->
  exists pre c k post, l = pre ++ EResp c k CROk :: post /\ p = (c, k) /\ (s + length pre < b)%nat.
Proof.
  induction l as [|e l IH]; intros s b p; cbn [number_from acked_before flat_map]; [intros []|].
  intros H. apply in_app_or in H. destruct H as [H|H].
  - destruct e as [c k ip n|c k res| | |]; try (destruct H; fail).
    destruct res; try (destruct H; fail).
    destruct (Nat.ltb s b) eqn:L; [|destruct H].
    destruct H as [H|[]]. exists [], c, k, l. cbn [app length]. split; auto. split; auto.
    apply Nat.ltb_lt in L. lia.
  - destruct (IH (S s) b p H) as (pre & c & k & post & E & Ep & L).
    exists (e :: pre), c, k, post. cbn [app length]. split; [now rewrite E|]. split; auto. lia.
Qed.

(* ---------- the four clauses ---------- *)
Lemma seq_dup_ok evs : seq_hist [] None evs = true -> c22_seq_scan [] evs = true ->
  c22_dup_ok (numbered evs) = true.
Proof.
  intros Hh Hs. unfold c22_dup_ok, numbered. rewrite deliv_vals.
  destruct (scan_all _ Hs) as (q & E). apply cinc_nodup.
  apply (cinc_app_l _ q). rewrite <- E. now apply seq_cinc.
Qed.

Lemma seq_src_ok evs : seq_hist [] None evs = true -> c22_seq_scan [] evs = true ->
  c22_src_ok (numbered evs) = true.
Proof.
  intros Hh Hs. unfold c22_src_ok. apply forallb_forall. intros d Hd.
  destruct (in_deliv_elim _ _ _ Hd) as (j & c & k & p & Hi & Ed). subst d. cbn [fst snd].
  destruct (in_numbered_split _ _ _ Hi) as (pre & post & E & Ej). subst j.
  assert (Hs' := Hs). rewrite E in Hs'. destruct (scan_val _ _ _ _ _ Hs') as (q & Eq).
  assert (Hp : In p (acks pre)). { rewrite Eq. apply in_or_app. right. now left. }
  destruct (in_acks_split _ _ Hp) as (pre1 & c' & k' & pre2 & Epre & Ep).
  subst pre. rewrite split_nest in E.
  destruct (seq_resp_inv0 _ _ _ _ _ _ Hh E) as (pre0 & ip & n & pre01 & Epre1 & Hfit).
  cbn [res_fits] in Hfit. subst ip. subst pre1. rewrite split_nest in E.
  unfold is_put_inv. apply existsb_exists.
  exists (length pre0, EInv c' k' true n). split.
  - eapply in_numbered_intro; eauto.
  - subst p. rewrite pl_eqb_refl. cbn [andb]. apply Nat.ltb_lt.
    rewrite !app_length. cbn [length]. lia.
Qed.

Lemma seq_order_ok evs : seq_hist [] None evs = true -> c22_seq_scan [] evs = true ->
  c22_order_ok (numbered evs) = true.
Proof.
  intros Hh Hs. unfold c22_order_ok. cbv zeta. apply forallb_forall. intros d1 Hd1.
  apply forallb_forall. intros d2 Hd2.
  destruct (in_deliv_elim _ _ _ Hd1) as (j1 & c1 & k1 & p1 & Hi1 & Ed1). subst d1.
  destruct (in_deliv_elim _ _ _ Hd2) as (j2 & c2 & k2 & p2 & Hi2 & Ed2). subst d2. cbn [fst snd].
  destruct (Nat.ltb j1 (ipos (numbered evs) c2 k2 j2) && (fst p1 =? fst p2)) eqn:C; auto.
  apply andb_true_iff in C. destruct C as [C1 C2]. apply Nat.ltb_lt in C1. apply N.eqb_eq in C2.
  destruct (in_numbered_split _ _ _ Hi1) as (preA & postA & EA & Ej1). subst j1.
  destruct (in_numbered_split _ _ _ Hi2) as (preB & postB & EB & Ej2). subst j2.
  assert (L := ipos_le _ _ _ _ _ _ Hh EB).
  assert (E : preA ++ EResp c1 k1 (CRVal p1) :: postA = preB ++ EResp c2 k2 (CRVal p2) :: postB) by congruence.
  destruct (split_lt _ _ _ _ _ _ E) as (mid & Em); [lia|].
  assert (Hs' := Hs). rewrite EB in Hs'. destruct (scan_val _ _ _ _ _ Hs') as (q & Eq).
  assert (Hc := seq_cinc _ Hh). rewrite EB, acks_app in Hc. apply cinc_app_l in Hc.
  rewrite Eq, Em, vals_app in Hc. cbn [vals] in Hc. rewrite <- app_assoc in Hc. cbn [app] in Hc.
  apply N.ltb_lt. eapply cinc_split; eauto.
Qed.

Lemma seq_empty_ok evs : seq_hist [] None evs = true -> c22_seq_scan [] evs = true ->
  c22_empty_ok (numbered evs) = true.
Proof.
  intros Hh Hs. unfold c22_empty_ok. cbv zeta. apply forallb_forall. intros [j e] He.
  destruct e as [c k ip n|c k res| | |]; auto. destruct res; auto.
  destruct (in_numbered_split _ _ _ He) as (pre & post & E & Ej). subst j.
  change (match inv_pos (numbered evs) c k with Some i => i | None => length pre end)
    with (ipos (numbered evs) c k (length pre)).
  assert (L := ipos_le _ _ _ _ _ _ Hh E).
  apply forallb_forall. intros p Hp.
  destruct (in_acked _ _ _ _ Hp) as (pre' & c' & k' & post' & E' & Ep & L').
  assert (E2 : pre' ++ EResp c' k' CROk :: post' = pre ++ EResp c k CREmpty :: post) by congruence.
  destruct (split_lt _ _ _ _ _ _ E2) as (mid & Em); [lia|].
  assert (Hs' := Hs). rewrite E in Hs'. assert (Eq := scan_empty _ _ _ _ Hs').
  assert (Hin : In p (vals pre)).
  { rewrite <- Eq, Em, acks_app. apply in_or_app. right. cbn [acks]. left. auto. }
  destruct (in_vals_split _ _ Hin) as (preV & cv & kv & postV & EV).
  assert (E3 : evs = preV ++ EResp cv kv (CRVal p) :: (postV ++ EResp c k CREmpty :: post)).
  { rewrite E, EV. apply split_nest. }
  apply existsb_exists.
  exists (length preV, ipos (numbered evs) cv kv (length preV), p). split.
  - apply in_deliv_intro. eapply in_numbered_intro; eauto.
  - cbn [fst snd]. rewrite pl_eqb_refl. cbn [andb]. apply Nat.ltb_lt.
    assert (L2 := ipos_le _ _ _ _ _ _ Hh E3).
    rewrite EV, app_length. cbn [length]. lia.
Qed.

Lemma c22_seq_sound : forall evs : list csub,
  seq_hist [] None evs = true -> c22_seq_scan [] evs = true -> c22_verdict_evs evs = 0.
Proof.
  intros evs Hh Hs. unfold c22_verdict_evs. cbv zeta.
  rewrite (seq_dup_ok _ Hh Hs), (seq_src_ok _ Hh Hs), (seq_order_ok _ Hh Hs), (seq_empty_ok _ Hh Hs).
  reflexivity.
Qed.

