(* EngineCrash.v — crash points INSIDE an operation.
   (1) inside a batch append: the image after the first j entry writes ([batch_crash], model/Engine.v)
       recovers, for the batch's topic, the acknowledged stream followed by exactly the first j
       entries of the batch, and every other topic's stream unchanged;
   (2) inside a consuming read_next (StrictlyAtOnce): the only durable effect of a read is the index
       persist, which is atomic (temp file + rename): the crash image is the restart of the state
       before the read or of the state after it. *)
From W Require Import model.Base model.Engine spec.Queue spec.Crash proofs.EngineBasic proofs.EngineWF proofs.EngineInv proofs.EngineBR proofs.EngineW
  proofs.EngineMain proofs.EngineRec proofs.EngineDisk proofs.EnginePos proofs.EngineBlk proofs.EngineNorm proofs.EngineRestart
  proofs.EngineReopen proofs.EngineC06 proofs.CrashP proofs.EngineNormW proofs.EngineRaw proofs.EngineP3L proofs.EngineIdxL proofs.EngineALO proofs.AloAccP
  proofs.EngineGen proofs.EngineGenR.
From Coq Require Import ZArith ZifyBool ZifyN ZifyNat.

(* ------------------------------------------------------------------ topics known to the instance *)
Definition has_key (s : st) (t : N) : bool := existsb (fun p : N * tstate => fst p =? t) (s_topics s).

Lemma has_key_set_ts s t v t' : has_key (set_ts s t v) t' = has_key s t' || (t =? t').
Proof.
  unfold has_key, set_ts. cbn [s_topics]. induction (s_topics s) as [|[k x] l IH]; cbn [set_assoc existsb fst].
  - now rewrite orb_false_r.
  - destruct (k =? t) eqn:E; cbn [existsb fst].
    + assert (k = t) by lia. subst k. destruct (t =? t'); cbn; [reflexivity|now rewrite orb_false_r].
    + rewrite IH. now rewrite orb_assoc.
Qed.

Lemma has_key_writer s t w : ts_writer (get_ts s t) = Some w -> has_key s t = true.
Proof.
  unfold get_ts, has_key. intros H. destruct (find (fun p => fst p =? t) (s_topics s)) as [p|] eqn:Ef; [|discriminate].
  apply existsb_exists. exists p. apply find_some in Ef. exact Ef.
Qed.

Lemma ensure_writer_key c s t : has_key (fst (ensure_writer c s t)) (t_id t) = true.
Proof.
  unfold ensure_writer. destruct (ts_writer (get_ts s (t_id t))) as [w|] eqn:Ew; [cbn [fst]; eapply has_key_writer; eauto|].
  destruct (alloc_first c s) as [s1 b]. cbn [fst]. rewrite has_key_set_ts, N.eqb_refl. apply orb_true_r.
Qed.

Lemma has_key_topics s s' t : s_topics s' = s_topics s -> has_key s' t = has_key s t.
Proof. unfold has_key. now intros ->. Qed.

Lemma batch_plan_key c t : forall es s cur rot,
  has_key s (t_id t) = true -> has_key (fst (fst (fst (batch_plan c s t cur rot es)))) (t_id t) = true.
Proof.
  induction es as [|e r IH]; intros s cur rot H; cbn [batch_plan]; [exact H|].
  destruct (need c e <=? b_limit cur - b_used cur).
  - apply IH. change (has_key (st_disk_write s cur t [e]) (t_id t)) with (has_key s (t_id t)). exact H.
  - destruct (alloc_sized c _ _) as [[s'' nb]|] eqn:Ea.
    + apply IH. destruct (EngineNormW.alloc_sized_facts _ _ _ _ _ Ea) as (_ & _ & Ht).
      change (has_key (st_disk_write s'' nb t [e]) (t_id t)) with (has_key s'' (t_id t)).
      rewrite (has_key_topics _ _ _ Ht), has_key_set_ts, H. reflexivity.
    + cbn [fst]. rewrite has_key_set_ts, H. reflexivity.
Qed.

(* ------------------------------------------------------------------ reopen does not look at stored writers *)
Lemma reopen_set_writer c s t w : has_key s t = true ->
  reopen c (set_ts s t (with_writer (get_ts s t) w)) = reopen c s.
Proof.
  intros Hk. unfold reopen. cbn [set_ts s_disk s_files s_topics].
  destruct (scan_files _ _ _ _ _ _) as [rc nid]. f_equal.
  unfold get_ts, has_key in *. induction (s_topics s) as [|[k x] l IH]; [discriminate|].
  cbn [set_assoc find existsb fst snd] in *. destruct (k =? t) eqn:E.
  - assert (k = t) by lia. subst k. cbn [map fst snd with_writer ts_index ts_unmodelled]. reflexivity.
  - cbn [map]. f_equal. cbn [orb] in Hk. apply IH. exact Hk.
Qed.

(* ------------------------------------------------------------------ (1) crash inside a batch *)
Theorem crash_inside_batch c s g B Bb t es j : cfg_ok c -> Rel c s g B Bb -> DIs c s -> batch_ok c t es ->
  forall t0, stream (get_ts (batch_crash c s t es j) t0) =
             if t0 =? t_id t then stream (get_ts s (t_id t)) ++ firstn j es else stream (get_ts s t0).
Proof.
  intros Hc (Hg & _) Hd (Hname & Hsz) t0. pose proof Hc as (Hh & Hb0 & _).
  unfold batch_crash.
  pose proof (ensure_DIs c s t Hc Hg Hd) as Hd1. pose proof (ensure_writer_key c s t) as Hk1.
  destruct (ensure_writer_spec c s t Hc Hg) as (s1 & w & He & Hle1 & Hn1 & Hoth1 & Hw1 & Hp1 & Hst1 & Hun1 & Hcnt1).
  rewrite He in *. cbn [fst] in Hd1, Hk1.
  set (ts := get_ts s1 (t_id t)) in *.
  assert (Hww : with_writer ts (Some w) = ts) by (apply with_writer_same; exact Hw1).
  assert (Hcur : DIcur c s1 t w).
  { unfold DIcur. fold ts. rewrite Hww. eapply DI_ext; [| |exact Hd1].
    - intros t1. unfold upd, wrs. destruct (t1 =? t_id t) eqn:Et; [|reflexivity]. assert (Ht1 : t1 = t_id t) by lia. rewrite Ht1. fold ts. now rewrite Hw1.
    - intros t1. unfold upd, sms. destruct (t1 =? t_id t) eqn:Et; [|reflexivity]. assert (Ht1 : t1 = t_id t) by lia. rewrite Ht1. reflexivity. }
  assert (Hinvw : TInvP c (a_next (s_alloc s1)) (with_writer ts (Some w))) by (rewrite Hww; exact Hp1).
  assert (Hszj : Forall (fun e => need c e <= c_max_alloc c) (firstn j es)).
  { clear - Hsz. revert j. induction Hsz as [|e l He Hl IH]; intros j; destruct j; cbn [firstn]; constructor; auto. }
  pose proof (batch_plan_DI c Hc t (firstn j es) s1 w false Hn1 Hinvw Hszj Hcur) as Hpl.
  pose proof (batch_plan_key c t (firstn j es) s1 w false Hk1) as Hk2.
  destruct (batch_plan_spec c Hc t (firstn j es) s1 w false Hn1 Hinvw Hszj) as (s2 & wfin & rot' & Hbp & Hle2 & Hoth2 & Hinv2 & Hst2 & _).
  rewrite Hbp in *. cbn [fst] in Hk2.
  (* the same image with the planning writer stored: there the disk invariant holds *)
  set (s2' := set_ts s2 (t_id t) (with_writer (get_ts s2 (t_id t)) (Some wfin))).
  rewrite <- (reopen_set_writer c s2 (t_id t) (Some wfin) Hk2). fold s2'.
  assert (Hd2 : DIs c s2').
  { unfold DIcur in Hpl. unfold DIs, s2'. cbn [set_ts s_disk s_alloc s_files].
    eapply DI_ext; [| |exact Hpl].
    - intros t1. unfold upd, wrs. destruct (t1 =? t_id t) eqn:Et.
      + assert (t1 = t_id t) by lia. subst. now rewrite get_set_same.
      + rewrite get_set_other by lia. reflexivity.
    - intros t1. unfold upd, sms. destruct (t1 =? t_id t) eqn:Et.
      + assert (t1 = t_id t) by lia. subst. now rewrite get_set_same.
      + rewrite get_set_other by lia. reflexivity. }
  rewrite (reopen_stream c s2' Hc Hd2 t0). unfold s2'.
  destruct (t0 =? t_id t) eqn:Et.
  - assert (t0 = t_id t) by lia. subst t0. rewrite get_set_same, Hst2.
    change (get_ts s1 (t_id t)) with ts. rewrite Hww. fold ts in Hst1. now rewrite Hst1.
  - rewrite get_set_other by lia. rewrite (Hoth2 t0 ltac:(lia)), (Hoth1 t0 ltac:(lia)). reflexivity.
Qed.

Lemma stream_of_stream s t : stream_of s t = stream (get_ts s t).
Proof. unfold stream_of, stream, chain_ents, chain_of, reader_of, w_ents. destruct (ts_reader (get_ts s t)); reflexivity. Qed.

(* the boolean form: what recovery hands out is accepted by the C07 acceptor with the topic's
   acknowledged stream as [acked] and the batch as [inflight] *)
Corollary crash_inside_batch_c07 c s g B Bb t es j : cfg_ok c -> Rel c s g B Bb -> DIs c s -> batch_ok c t es ->
  c07_ok (stream_of s (t_id t)) es (map out_of (stream_of (batch_crash c s t es j) (t_id t))) = true /\
  forall t0, t0 <> t_id t -> stream_of (batch_crash c s t es j) t0 = stream_of s t0.
Proof.
  intros Hc Hrel Hd Hok. split.
  - apply c07_ok_spec. exists (Nat.min j (length es)). split; [lia|].
    rewrite !stream_of_stream, (crash_inside_batch c s g B Bb t es j Hc Hrel Hd Hok (t_id t)), N.eqb_refl.
    replace (firstn (Nat.min j (length es)) es) with (firstn j es).
    + apply outs_are_map.
    + destruct (Nat.le_gt_cases j (length es)) as [H|H]; [now rewrite Nat.min_l by lia|].
      rewrite Nat.min_r by lia. rewrite !firstn_all2 by lia. reflexivity.
  - intros t0 Hne. rewrite !stream_of_stream, (crash_inside_batch c s g B Bb t es j Hc Hrel Hd Hok t0).
    now replace (t0 =? t_id t) with false by lia.
Qed.

(* C08: what is recovered of an interrupted batch is ALWAYS a prefix of it *)
Corollary crash_only_prefixes c s g B Bb t es j : cfg_ok c -> Rel c s g B Bb -> DIs c s -> batch_ok c t es ->
  exists k, (k <= length es)%nat /\ stream_of (batch_crash c s t es j) (t_id t) = stream_of s (t_id t) ++ firstn k es.
Proof.
  intros Hc Hrel Hd Hok. exists (Nat.min j (length es)). split; [lia|].
  rewrite !stream_of_stream, (crash_inside_batch c s g B Bb t es j Hc Hrel Hd Hok (t_id t)), N.eqb_refl. f_equal.
  destruct (Nat.le_gt_cases j (length es)) as [H|H]; [now rewrite Nat.min_l by lia|].
  rewrite Nat.min_r by lia. rewrite !firstn_all2 by lia. reflexivity.
Qed.

(* from init: any admissible restart-free history, any mode *)
Lemma Rel_reachable c m be : cfg_ok c -> forall ops s g B Bb,
  Rel c s g B Bb -> Forall (op_ok c) ops ->
  B + N.of_nat (length (offered_all ops)) <= u64_max -> Bb + sum_len (offered_all ops) <= u64_max ->
  exists g', Rel c (exec (env_of c m be) s ops) g' (B + N.of_nat (length (offered_all ops))) (Bb + sum_len (offered_all ops)).
Proof.
  intros Hc. induction ops as [|o r IH]; intros s g B Bb Hrel Hok HB HBb.
  { exists g. cbn [exec offered_all length sum_len fold_right]. eapply Rel_mono; [exact Hrel|lia|lia]. }
  inversion Hok as [|x l Ho Hr]; subst.
  cbn [offered_all] in *. rewrite app_length, Nat2N.inj_add in *. rewrite sum_len_app in *.
  pose proof (step_ok c m be s g B Bb o Hc Hrel Ho ltac:(lia) ltac:(lia)) as Hstep.
  cbn [exec]. destruct (step (env_of c m be) s o) as [s' res]. cbn [fst]. destruct Hstep as (_ & _ & _ & Hrel').
  destruct (IH s' _ _ _ Hrel' Hr ltac:(lia) ltac:(lia)) as (g' & Hg'). exists g'.
  eapply Rel_mono; [exact Hg'|lia|lia].
Qed.

Theorem crash_inside_batch_reachable c m be ops t es j : cfg_ok c -> Forall (op_ok c) ops ->
  N.of_nat (length (offered_all ops)) <= u64_max -> sum_len (offered_all ops) <= u64_max ->
  batch_ok c t es ->
  let s := exec (env_of c m be) init ops in
  forall t0, stream (get_ts (batch_crash c s t es j) t0) =
             if t0 =? t_id t then stream (get_ts s (t_id t)) ++ firstn j es else stream (get_ts s t0).
Proof.
  intros Hc Hok HB HBb Hbok. cbn zeta. pose proof Hc as (_ & Hb0 & _).
  destruct (DIs_reachable c m be Hc ops init [] 0 0 (Rel_init c) (DIs_init c Hb0) Hok ltac:(lia) ltac:(lia)) as (Hd & _).
  destruct (Rel_reachable c m be Hc ops init [] 0 0 (Rel_init c) Hok ltac:(lia) ltac:(lia)) as (g & Hrel).
  eapply crash_inside_batch; eauto.
Qed.

Corollary crash_only_prefixes_reachable c m be ops t es j : cfg_ok c -> Forall (op_ok c) ops ->
  N.of_nat (length (offered_all ops)) <= u64_max -> sum_len (offered_all ops) <= u64_max ->
  batch_ok c t es ->
  let s := exec (env_of c m be) init ops in
  exists k, (k <= length es)%nat /\ stream_of (batch_crash c s t es j) (t_id t) = stream_of s (t_id t) ++ firstn k es.
Proof.
  intros Hc Hok HB HBb Hbok. cbn zeta. pose proof Hc as (_ & Hb0 & _).
  destruct (DIs_reachable c m be Hc ops init [] 0 0 (Rel_init c) (DIs_init c Hb0) Hok ltac:(lia) ltac:(lia)) as (Hd & _).
  destruct (Rel_reachable c m be Hc ops init [] 0 0 (Rel_init c) Hok ltac:(lia) ltac:(lia)) as (g & Hrel).
  eapply crash_only_prefixes; eauto.
Qed.

Corollary crash_inside_batch_c07_reachable c m be ops t es j : cfg_ok c -> Forall (op_ok c) ops ->
  N.of_nat (length (offered_all ops)) <= u64_max -> sum_len (offered_all ops) <= u64_max ->
  batch_ok c t es ->
  let s := exec (env_of c m be) init ops in
  c07_ok (stream_of s (t_id t)) es (map out_of (stream_of (batch_crash c s t es j) (t_id t))) = true /\
  forall t0, t0 <> t_id t -> stream_of (batch_crash c s t es j) t0 = stream_of s t0.
Proof.
  intros Hc Hok HB HBb Hbok. cbn zeta. pose proof Hc as (_ & Hb0 & _).
  destruct (DIs_reachable c m be Hc ops init [] 0 0 (Rel_init c) (DIs_init c Hb0) Hok ltac:(lia) ltac:(lia)) as (Hd & _).
  destruct (Rel_reachable c m be Hc ops init [] 0 0 (Rel_init c) Hok ltac:(lia) ltac:(lia)) as (g & Hrel).
  eapply crash_inside_batch_c07; eauto.
Qed.

(* ------------------------------------------------------------------ crash inside a single append *)
(* A single append is ONE positional write (header + payload); what else it does before that write
   — sealing the full block (a flush of bytes already written), allocating the next block (extending
   the allocator / creating and sizing a fresh file: zero bytes, a never-written block for recovery) —
   changes nothing recovery reads (invariant DIs: never-written blocks contribute nothing).  So the
   crash images of an append are the restart of the state before it and of the state after it. *)
Theorem crash_inside_append c m be ops t e : cfg_ok c -> Forall (op_ok c) ops ->
  N.of_nat (length (offered_all ops)) + 1 <= u64_max -> sum_len (offered_all ops) + e_len e <= u64_max ->
  let s := exec (env_of c m be) init ops in
  let s' := fst (step (env_of c m be) s (OAppend t e)) in
  forall image, image = reopen c s \/ image = reopen c s' ->
    (exists k, (k <= 1)%nat /\ stream (get_ts image (t_id t)) = stream (get_ts s (t_id t)) ++ firstn k [e]) /\
    forall t0, t0 <> t_id t -> stream (get_ts image t0) = stream (get_ts s t0).
Proof.
  intros Hc Hok HB HBb. cbn zeta. pose proof Hc as (_ & Hb0 & _).
  destruct (DIs_reachable c m be Hc ops init [] 0 0 (Rel_init c) (DIs_init c Hb0) Hok ltac:(lia) ltac:(lia)) as (Hd & _).
  destruct (Rel_reachable c m be Hc ops init [] 0 0 (Rel_init c) Hok ltac:(lia) ltac:(lia)) as (g & Hrel).
  set (s := exec (env_of c m be) init ops) in *.
  pose proof (step_ok c m be s g _ _ (OAppend t e) Hc Hrel I ltac:(cbn [offered length]; lia) ltac:(cbn [offered sum_len fold_right]; lia)) as Hstep.
  pose proof (DIs_step c m be s g _ _ (OAppend t e) Hc Hrel Hd I ltac:(cbn [offered length]; lia)) as Hd'.
  destruct (step (env_of c m be) s (OAppend t e)) as [s' r]. cbn [fst] in *. destruct Hstep as (_ & _ & _ & (_ & Hall')).
  destruct Hrel as (_ & Hall).
  intros image [->| ->].
  - split; [exists 0%nat; split; [lia|]; rewrite (reopen_stream c s Hc Hd); cbn; now rewrite app_nil_r|].
    intros t0 _. apply (reopen_stream c s Hc Hd).
  - split.
    + rewrite (reopen_stream c s' Hc Hd'). destruct (Hall' (t_id t)) as (_ & Hs' & _). destruct (Hall (t_id t)) as (_ & Hs & _).
      rewrite Hs', Hs. destruct r; cbn [ledger_step]; try (exists 0%nat; split; [lia|]; cbn; now rewrite app_nil_r).
      exists 1%nat. split; [lia|]. rewrite lget_lset_same. reflexivity.
    + intros t0 Hne. rewrite (reopen_stream c s' Hc Hd'). destruct (Hall' t0) as (_ & Hs' & _). destruct (Hall t0) as (_ & Hs & _).
      rewrite Hs', Hs. destruct r; cbn [ledger_step]; try reflexivity. now rewrite lget_lset_other by exact Hne.
Qed.

(* ------------------------------------------------------------------ (2) crash inside a consuming read_next, StrictlyAtOnce *)
Lemma exec_app v : forall a b s, exec v s (a ++ b) = exec v (exec v s a) b.
Proof. induction a as [|o a IH]; intros b s; cbn [app exec]; [reflexivity|apply IH]. Qed.

Lemma trace_app v : forall a b s, trace v s (a ++ b) = trace v s a ++ trace v (exec v s a) b.
Proof.
  induction a as [|o a IH]; intros b s; cbn [app trace exec]; [reflexivity|].
  destruct (step v s o) as [s' r] eqn:E. cbn [fst app]. now rewrite IH.
Qed.

Lemma ledger_run_app : forall x y g, ledger_run g (x ++ y) = ledger_run (ledger_run g x) y.
Proof. induction x as [|[o r] x IH]; intros y g; cbn [app ledger_run]; [reflexivity|apply IH]. Qed.

Lemma outside_known_app v : forall a b s, outside_known v s (a ++ b) = outside_known v s a && outside_known v (exec v s a) b.
Proof.
  induction a as [|o a IH]; intros b s; cbn [app outside_known exec]; [reflexivity|]. rewrite IH. now rewrite andb_assoc.
Qed.

Lemma c01_ok_from_app : forall x y g, c01_ok_from g (x ++ y) = c01_ok_from g x && c01_ok_from (ledger_run g x) y.
Proof.
  induction x as [|[o r] x IH]; intros y g; cbn [app c01_ok_from ledger_run]; [reflexivity|]. rewrite IH. now rewrite andb_assoc.
Qed.

Lemma offered_all_app a b : offered_all (a ++ b) = offered_all a ++ offered_all b.
Proof. induction a as [|o a IH]; cbn [app offered_all]; [reflexivity|]. now rewrite IH, app_assoc. Qed.

(* ------------------------------------------------------------------ a read does not change block-id drift *)
Lemma scan_chain_ents c s t : cfg_ok c -> DIs c s -> BIs c s ->
  map b_ents (rc_get (rc_chains (fst (scan0 c s))) t) = mblocks (get_ts s t).
Proof.
  intros Hc Hd Hb. pose proof Hc as (Hh & Hb0 & _).
  unfold DIs in Hd. pose proof Hd as [Hnd He Hsl Hwf Hal Hso Hk].
  assert (Hlim' : Forall (fun x => (fun _ : N => True) (d_limit x)) (rev (s_disk s))) by (apply Forall_forall; intros; exact I).
  pose proof (scan_files_blk c Hh Hb0 (fun _ => True) (N.to_nat (s_files s + 1)) 0 (rev (s_disk s)) 1 {| rc_chains := []; rc_flag := false |}
                Hwf Hlim' ltac:(lia) (fun t0 => GoodCh_nil c (fun _ => True) 1)) as Hscan.
  unfold scan0.
  destruct (scan_files c (N.to_nat (s_files s + 1)) 0 (rev (s_disk s)) 1 {| rc_chains := []; rc_flag := false |}) as [rc nid].
  cbn [fst snd] in *. destruct Hscan as (A & B0 & C).
  rewrite C. cbn [rc_chains rc_get find map app].
  rewrite (files_blocks_sorted t _ 0 (rev (s_disk s)) Hso).
  - apply Hb.
  - destruct Hal as (A1 & A2). eapply Forall_impl; [|exact A2]. cbn. intros x (B1 & _). split; [lia|]. rewrite N2Nat.id. lia.
Qed.

Lemma id_drift_set_ts c s t ts' : cfg_ok c -> DIs c s -> BIs c s ->
  chain_of ts' = chain_of (get_ts s t) -> ts_writer ts' = ts_writer (get_ts s t) ->
  id_drift c (set_ts s t ts') = id_drift c s.
Proof.
  intros Hc Hd Hb Hch Hw. pose proof (scan_chain_ents c s t Hc Hd Hb) as Hsc.
  unfold id_drift, scan0 in *. cbn [set_ts s_disk s_files s_topics].
  destruct (scan_files _ _ _ _ _ _) as [rc nid]. cbn [fst] in Hsc.
  assert (Hmem : memne ts' = memne (get_ts s t)).
  { unfold memne, w_list. now rewrite Hch, Hw. }
  unfold get_ts in *. revert Hsc Hmem Hch Hw.
  induction (s_topics s) as [|[k x] l IH]; intros Hsc Hmem Hch Hw; cbn [set_assoc find existsb fst snd] in *.
  - rewrite orb_false_r. rewrite memne_raw, Hmem. unfold rc_get in Hsc.
    destruct (find (fun q => fst q =? t) (rc_chains rc)) as [[k2 [t2 ch]]|]; [|reflexivity].
    unfold mblocks in Hsc. cbn in Hsc. destruct ch; [reflexivity|discriminate].
  - destruct (k =? t) eqn:E; cbn [existsb fst snd].
    + assert (k = t) by lia. subst k. rewrite !memne_raw, Hmem. reflexivity.
    + f_equal. now apply IH.
Qed.

Lemma id_drift_read c m s t ck : cfg_ok c -> DIs c s -> BIs c s ->
  id_drift c (fst (read_next c m s t ck)) = id_drift c s.
Proof.
  intros Hc Hd Hb. destruct (read_next_SB c m s t ck) as (ts' & res & Hr & Hch & Hw). rewrite Hr. cbn [fst].
  now apply id_drift_set_ts.
Qed.

(* The only durable effect of a read is the index persist: temp-file write, fsync, rename, directory
   fsync.  The rename is atomic, so a crash at any of these points leaves the OLD or the NEW persisted
   position on disk and nothing else changed: the crash image is [reopen] of the state before the
   read or of the state after it.  Outside block-id drift: every other topic is exactly where it was,
   and the topic of the read in flight resumes at the in-flight entry (old position: the entry is
   delivered to a consumer that never saw the read return) or right behind it (new position). *)
Theorem crash_inside_read_strict c be ops t : cfg_ok c ->
  N.of_nat (length (offered_all ops)) <= u64_max -> sum_len (offered_all ops) <= u64_max ->
  outside_known (env_of c Strict be) init (ops ++ [OReopen]) = true ->
  let s := exec (env_of c Strict be) init ops in
  let s' := fst (step (env_of c Strict be) s (ORead t true)) in
  let g := ledger_run [] (trace (env_of c Strict be) init ops) in
  let d := l_del (lget g (t_id t)) in
  let A := l_app (lget g (t_id t)) in
  (forall t0 x, stream (get_ts (reopen c s) t0) = l_app (lget g t0) /\
                unread c (nrm x (get_ts (reopen c s) t0)) = skipn (l_del (lget g t0)) (l_app (lget g t0))) /\
  (forall t0 x, stream (get_ts (reopen c s') t0) = l_app (lget g t0) /\
                (t0 <> t_id t -> unread c (nrm x (get_ts (reopen c s') t0)) = skipn (l_del (lget g t0)) (l_app (lget g t0))) /\
                unread c (nrm x (get_ts (reopen c s') (t_id t))) = skipn (if (d <? length A)%nat then S d else d) A).
Proof.
  intros Hc HB HBb Hout. cbn zeta.
  assert (Hdrift : id_drift c (exec (env_of c Strict be) init (ops ++ [ORead t true])) = false).
  { destruct (outside_known_split _ ops init Hout) as (Ho1 & Hk). cbn [env_of v_cfg] in Hk.
    destruct (G_from_init c be ops Hc HB HBb Ho1) as (B' & Bb' & (_ & Hd & Hb & _) & _).
    rewrite exec_app. cbn [exec step env_of v_cfg v_mode]. rewrite id_drift_read by assumption. exact Hk. }
  set (v := env_of c Strict be) in *. set (s := exec v init ops) in *.
  split.
  { intros t0 x. destruct (crash_between_operations_strict c be ops Hc Hout HB HBb t0 x) as (_ & Hs & Hu & _). auto. }
  (* the history extended by the read *)
  destruct (outside_known_split _ ops init Hout) as (Hout1 & _).
  assert (Hout2 : outside_known v init ((ops ++ [ORead t true]) ++ [OReopen]) = true).
  { rewrite outside_known_app. apply andb_true_iff. split.
    - rewrite outside_known_app, Hout1. reflexivity.
    - cbn [outside_known]. unfold v at 1. cbn [env_of v_cfg]. fold v. rewrite Hdrift. reflexivity. }
  assert (Hoff : offered_all (ops ++ [ORead t true]) = offered_all ops) by (rewrite offered_all_app; cbn; apply app_nil_r).
  pose proof (crash_between_operations_strict c be (ops ++ [ORead t true]) Hc Hout2 ltac:(rewrite Hoff; exact HB) ltac:(rewrite Hoff; exact HBb)) as H2.
  cbn zeta in H2. fold v in H2. rewrite exec_app, trace_app, ledger_run_app in H2. fold s in H2. cbn [exec trace ledger_run] in H2.
  (* the read at [s]: judged by the ledger *)
  set (g := ledger_run [] (trace v init ops)) in *.
  assert (Hout3 : outside_known v init (ops ++ [ORead t true]) = true) by (rewrite outside_known_app, Hout1; reflexivity).
  destruct (restart_from_init c be (ops ++ [ORead t true]) Hc Hout3 ltac:(rewrite Hoff; exact HB) ltac:(rewrite Hoff; exact HBb)) as (Hc01 & _).
  fold v in Hc01. unfold c01_ok in Hc01. rewrite trace_app, c01_ok_from_app in Hc01. apply andb_true_iff in Hc01. destruct Hc01 as (_ & Hc01).
  fold s g in Hc01. cbn [trace] in Hc01.
  destruct (crash_between_operations_strict c be ops Hc Hout HB HBb (t_id t) false) as (Hdl & _). cbn zeta in Hdl. fold v g in Hdl.
  destruct (step v s (ORead t true)) as [s1 r] eqn:Es. cbn [fst snd c01_ok_from ledger_run trace] in *. rewrite andb_true_r in Hc01.
  unfold c01_step_ok, remaining in Hc01.
  intros t0 x. destruct (H2 t0 x) as (_ & Hs2 & Hu2 & _). destruct (H2 (t_id t) x) as (_ & _ & Hut & _).
  assert (Hlen : forall k (l : list entry), (k <= length l)%nat -> (skipn k l = [] <-> k = length l)).
  { intros k l Hk. split; [intros H; pose proof (f_equal (@length entry) H) as H'; rewrite skipn_length in H'; cbn in H'; lia|intros ->; apply skipn_all]. }
  destruct r; try discriminate.
  - (* RNone: nothing was unread, nothing persisted *)
    cbn [ledger_step] in *. destruct (skipn (l_del (lget g (t_id t))) (l_app (lget g (t_id t)))) eqn:Esk; [|discriminate].
    apply (Hlen _ _ Hdl) in Esk. split; [exact Hs2|]. split; [intros _; exact Hu2|].
    rewrite Hut. replace (l_del (lget g (t_id t)) <? length (l_app (lget g (t_id t))))%nat with false by (symmetry; apply Nat.ltb_ge; lia).
    symmetry. rewrite Esk. apply skipn_all.
  - (* REntry: the in-flight entry *)
    cbn [ledger_step] in *. destruct (skipn (l_del (lget g (t_id t))) (l_app (lget g (t_id t)))) eqn:Esk; [discriminate|].
    assert (Hlt : (l_del (lget g (t_id t)) < length (l_app (lget g (t_id t))))%nat).
    { destruct (Nat.eq_dec (l_del (lget g (t_id t))) (length (l_app (lget g (t_id t))))) as [E|E]; [|lia].
      apply (Hlen _ _ Hdl) in E. rewrite E in Esk. discriminate. }
    split.
    + destruct (N.eq_dec t0 (t_id t)) as [->|Hne]; [rewrite lget_lset_same in Hs2; exact Hs2|now rewrite lget_lset_other in Hs2 by exact Hne].
    + split.
      * intros Hne. now rewrite lget_lset_other in Hu2 by exact Hne.
      * rewrite lget_lset_same in Hut. cbn [l_app l_del] in Hut. rewrite Hut.
        replace (l_del (lget g (t_id t)) <? length (l_app (lget g (t_id t))))%nat with true by (symmetry; apply Nat.ltb_lt; exact Hlt). reflexivity.
Qed.


(* ------------------------------------------------------------------ the same for a consuming batch read *)
Lemma id_drift_batch_read c m s t maxb ck start : cfg_ok c -> DIs c s -> BIs c s ->
  id_drift c (fst (batch_read c m s t maxb ck start)) = id_drift c s.
Proof.
  intros Hc Hd Hb. destruct (batch_read_SB c m s t maxb ck start) as (ts' & res & Hr & Hch & Hw). rewrite Hr. cbn [fst].
  now apply id_drift_set_ts.
Qed.

(* a consuming batch read persists ONE position behind everything it returns: old or new *)
Theorem crash_inside_batch_read_strict c be ops t maxb : cfg_ok c ->
  N.of_nat (length (offered_all ops)) <= u64_max -> sum_len (offered_all ops) <= u64_max ->
  outside_known (env_of c Strict be) init (ops ++ [OReopen]) = true ->
  let s := exec (env_of c Strict be) init ops in
  let s' := fst (step (env_of c Strict be) s (OBatchRead t maxb true None)) in
  let g := ledger_run [] (trace (env_of c Strict be) init ops) in
  exists os, snd (step (env_of c Strict be) s (OBatchRead t maxb true None)) = REntries os /\
  (forall t0 x, stream (get_ts (reopen c s) t0) = l_app (lget g t0) /\
                unread c (nrm x (get_ts (reopen c s) t0)) = skipn (l_del (lget g t0)) (l_app (lget g t0))) /\
  (forall t0 x, stream (get_ts (reopen c s') t0) = l_app (lget g t0) /\
                (t0 <> t_id t -> unread c (nrm x (get_ts (reopen c s') t0)) = skipn (l_del (lget g t0)) (l_app (lget g t0))) /\
                unread c (nrm x (get_ts (reopen c s') (t_id t))) = skipn (l_del (lget g (t_id t)) + length os) (l_app (lget g (t_id t)))).
Proof.
  intros Hc HB HBb Hout. cbn zeta.
  set (o := OBatchRead t maxb true None).
  assert (Hdrift : id_drift c (exec (env_of c Strict be) init (ops ++ [o])) = false).
  { destruct (outside_known_split _ ops init Hout) as (Ho1 & Hk). cbn [env_of v_cfg] in Hk.
    destruct (G_from_init c be ops Hc HB HBb Ho1) as (B' & Bb' & (_ & Hd & Hb & _) & _).
    rewrite exec_app. cbn [exec step env_of v_cfg v_mode o]. rewrite id_drift_batch_read by assumption. exact Hk. }
  set (v := env_of c Strict be) in *. set (s := exec v init ops) in *.
  destruct (outside_known_split _ ops init Hout) as (Hout1 & _).
  assert (Hout2 : outside_known v init ((ops ++ [o]) ++ [OReopen]) = true).
  { rewrite outside_known_app. apply andb_true_iff. split.
    - rewrite outside_known_app, Hout1. reflexivity.
    - cbn [outside_known]. unfold v at 1. cbn [env_of v_cfg]. fold v. rewrite Hdrift. reflexivity. }
  assert (Hoff : offered_all (ops ++ [o]) = offered_all ops) by (rewrite offered_all_app; cbn; apply app_nil_r).
  pose proof (crash_between_operations_strict c be (ops ++ [o]) Hc Hout2 ltac:(rewrite Hoff; exact HB) ltac:(rewrite Hoff; exact HBb)) as H2.
  cbn zeta in H2. fold v in H2. rewrite exec_app, trace_app, ledger_run_app in H2. fold s in H2. cbn [exec trace ledger_run] in H2.
  set (g := ledger_run [] (trace v init ops)) in *.
  assert (Hout3 : outside_known v init (ops ++ [o]) = true) by (rewrite outside_known_app, Hout1; reflexivity).
  destruct (restart_from_init c be (ops ++ [o]) Hc Hout3 ltac:(rewrite Hoff; exact HB) ltac:(rewrite Hoff; exact HBb)) as (Hc01 & _).
  fold v in Hc01. unfold c01_ok in Hc01. rewrite trace_app, c01_ok_from_app in Hc01. apply andb_true_iff in Hc01. destruct Hc01 as (_ & Hc01).
  fold s g in Hc01. cbn [trace] in Hc01.
  destruct (step v s o) as [s1 r] eqn:Es. cbn [fst snd c01_ok_from ledger_run trace] in *. rewrite andb_true_r in Hc01.
  unfold o, c01_step_ok in Hc01. destruct r; try discriminate. exists os. split; [reflexivity|]. clear Hc01.
  split.
  { intros t0 x. destruct (crash_between_operations_strict c be ops Hc Hout HB HBb t0 x) as (_ & Hs & Hu & _). auto. }
  intros t0 x. destruct (H2 t0 x) as (_ & Hs2 & Hu2 & _). destruct (H2 (t_id t) x) as (_ & _ & Hut & _).
  unfold o in *. cbn [ledger_step] in *.
  split.
  - destruct (N.eq_dec t0 (t_id t)) as [->|Hne]; [rewrite lget_lset_same in Hs2; exact Hs2|now rewrite lget_lset_other in Hs2 by exact Hne].
  - split.
    + intros Hne. now rewrite lget_lset_other in Hu2 by exact Hne.
    + rewrite lget_lset_same in Hut. exact Hut.
Qed.

(* ------------------------------------------------------------------ crash inside a batch after a history WITH restarts *)
Lemma reopen_Nst x c s : reopen c (Nst x s) = reopen c s.
Proof.
  unfold reopen. cbn [Nst s_disk s_files s_topics]. destruct (scan_files _ _ _ _ _ _) as [rc nid]. f_equal.
  rewrite map_map. apply map_ext. intros [k ts]. cbn [fst snd]. now rewrite nrm_index, nrm_unmodelled.
Qed.

Lemma batch_crash_Nst x c s t es j :
  0 < a_next (s_alloc s) ->
  (forall bid, (forall w, ts_writer (get_ts s (t_id t)) = Some w -> bid = b_id w) ->
               (ts_writer (get_ts s (t_id t)) = None -> bid = a_next (s_alloc s)) ->
               CS (get_ts s (t_id t)) bid (a_next (s_alloc s))) ->
  batch_crash c (Nst x s) t es j = batch_crash c s t es j.
Proof.
  intros Hn Hcs. unfold batch_crash. rewrite ensure_writer_Nst.
  destruct (ensure_writer_keep c s t) as (K1 & Kc & Kw & Kn & Knone & Ksome).
  destruct (ensure_writer c s t) as [s1 w]. cbn [fst snd] in *.
  assert (Hcs1 : CS (get_ts s1 (t_id t)) (b_id w) (a_next (s_alloc s1))).
  { destruct (ts_writer (get_ts s (t_id t))) as [w0|] eqn:Ew0.
    - destruct (Ksome w0 eq_refl) as (-> & ->). apply Hcs; [intros w' Hw'; congruence|discriminate].
    - destruct (Knone eq_refl) as (Hid & Hnx).
      eapply CS_grow; [apply (Hcs (a_next (s_alloc s))); [discriminate|reflexivity]|exact K1|exists []; now rewrite app_nil_r, Kc|lia|lia|left; lia]. }
  pose proof (batch_plan_Nst x c t (firstn j es) s1 w false ltac:(lia) Hcs1) as Hbp.
  destruct (batch_plan c s1 t w false (firstn j es)) as [[[s2 wfin] okp] rot]. destruct Hbp as (B1 & _).
  rewrite B1. apply reopen_Nst.
Qed.

Theorem GM_reachable c m be : cfg_ok c -> forall ops s g B Bb,
  GM c s g B Bb -> outside_known (env_of c m be) s ops = true ->
  B + N.of_nat (length (offered_all ops)) <= u64_max -> Bb + sum_len (offered_all ops) <= u64_max ->
  exists g', GM c (exec (env_of c m be) s ops) g' (B + N.of_nat (length (offered_all ops))) (Bb + sum_len (offered_all ops)).
Proof.
  intros Hc. induction ops as [|o r IH]; intros s g B Bb HG Hout HB HBb.
  { exists g. cbn [exec offered_all length sum_len fold_right]. replace (B + N.of_nat 0) with B by lia. replace (Bb + 0) with Bb by lia. exact HG. }
  cbn [outside_known] in Hout. apply andb_true_iff in Hout. destruct Hout as (Ho & Hout).
  cbn [offered_all] in *. rewrite app_length, Nat2N.inj_add in *. rewrite sum_len_app in *. cbn [exec].
  assert (Hnext : exists g1, GM c (fst (step (env_of c m be) s o)) g1 (B + N.of_nat (length (offered o))) (Bb + sum_len (offered o))).
  { destruct o as [t e | t es | t ck | t maxb ck start | t | ].
    1-5: (match goal with |- context [step _ _ ?o] =>
            exists (ledger_step g o (snd (step (env_of c m be) s o)));
            apply (GM_step c m be s g B Bb o Hc HG I); lia end).
    cbn [step env_of v_cfg fst offered length sum_len fold_right] in *. apply negb_true_iff in Ho.
    exists (map (rbl c s) g). replace (B + N.of_nat 0) with B by lia. replace (Bb + 0) with Bb by lia.
    exact (proj1 (GM_reopen c s g B Bb Hc HG Ho)). }
  destruct Hnext as (g1 & HG1).
  destruct (IH _ g1 _ _ HG1 Hout ltac:(lia) ltac:(lia)) as (g' & HG'). exists g'.
  replace (B + (N.of_nat (length (offered o)) + N.of_nat (length (offered_all r)))) with (B + N.of_nat (length (offered o)) + N.of_nat (length (offered_all r))) by lia.
  replace (Bb + (sum_len (offered o) + sum_len (offered_all r))) with (Bb + sum_len (offered o) + sum_len (offered_all r)) by lia.
  exact HG'.
Qed.

(* any mode, any history WITH restarts outside block-id drift, then a crash inside a batch *)
Theorem crash_inside_batch_after_restarts c m be ops t es j : cfg_ok c ->
  outside_known (env_of c m be) init ops = true ->
  N.of_nat (length (offered_all ops)) <= u64_max -> sum_len (offered_all ops) <= u64_max ->
  batch_ok c t es ->
  let s := exec (env_of c m be) init ops in
  forall t0, stream (get_ts (batch_crash c s t es j) t0) =
             if t0 =? t_id t then stream (get_ts s (t_id t)) ++ firstn j es else stream (get_ts s t0).
Proof.
  intros Hc Hout HB HBb Hbok. cbn zeta. pose proof Hc as (_ & Hb0 & _).
  destruct (GM_reachable c m be Hc ops init [] 0 0 (GM_init c Hb0) Hout ltac:(lia) ltac:(lia)) as (g & HG).
  set (s := exec (env_of c m be) init ops) in *. pose proof HG as (Hn & Hd & _ & _ & Hall).
  intros t0.
  rewrite <- (batch_crash_Nst false c s t es j Hn (TGM_CS c _ _ _ _ _ (Hall (t_id t)) Hn)).
  rewrite (crash_inside_batch c (Nst false s) g _ _ t es j Hc (GM_Rel false c s g _ _ HG) (proj2 (DIs_Nst false c s) Hd) Hbok t0).
  rewrite !get_Nst, !nrm_stream. reflexivity.
Qed.
