(* DurableP.v — lemmas about the durability model (model/Durable.v): what every power-loss
   outcome keeps, how the replayed disk reads, and structural facts of the model that hold
   for every trace. *)
From W Require Import model.Base model.Durable.
From Coq Require Import ZArith ZifyBool ZifyN ZifyNat.

(* ---------- adm / pick / outcomes ---------- *)
Lemma adm_pick {A} (l : list (bool * A)) : forall bits, adm l (pick bits l).
Proof.
  induction l as [|[b x] l IH]; intros bits; cbn; [constructor|].
  destruct b; [constructor; apply IH|].
  destruct bits as [|[|] bs]; try (constructor; apply IH).
Qed.

Lemma adm_outcomes {A} (l : list (bool * A)) o : adm l o <-> In o (outcomes l).
Proof.
  split.
  - induction 1; cbn.
    + now left.
    + apply in_or_app. left. now apply in_map.
    + apply in_or_app. right. exact IHadm.
  - revert o. induction l as [|[b x] l IH]; intros o H; cbn in H.
    + destruct H as [<-|[]]. constructor.
    + apply in_app_or in H. destruct H as [H|H].
      * apply in_map_iff in H. destruct H as (o' & <- & H). constructor. now apply IH.
      * destruct b; [destruct H|]. constructor. now apply IH.
Qed.

(* every outcome is reached by some choice of bits *)
Lemma adm_is_pick {A} (l : list (bool * A)) o : adm l o -> exists bits, o = pick bits l.
Proof.
  induction 1 as [|b x l o H (bits & ->)|x l o H (bits & ->)].
  - now exists [].
  - destruct b; [exists bits; reflexivity|exists (true :: bits); reflexivity].
  - exists (false :: bits). reflexivity.
Qed.

Lemma adm_keeps {A} (l : list (bool * A)) o x : adm l o -> In (true, x) l -> In x o.
Proof.
  induction 1; intros Hin; cbn in *.
  - destruct Hin.
  - destruct Hin as [E|Hin]; [inversion E; now left|right; auto].
  - destruct Hin as [E|Hin]; [discriminate|auto].
Qed.

Lemma adm_sub {A} (l : list (bool * A)) o x : adm l o -> In x o -> exists b, In (b, x) l.
Proof.
  induction 1; intros Hin; cbn in *.
  - destruct Hin.
  - destruct Hin as [<-|Hin]; [exists b; now left|]. destruct (IHadm Hin) as (b' & ?). exists b'. now right.
  - destruct (IHadm Hin) as (b' & ?). exists b'. now right.
Qed.

Lemma adm_filter {A} (p : A -> bool) (l : list (bool * A)) o :
  adm l o -> adm (filter (fun y => p (snd y)) l) (filter p o).
Proof.
  induction 1; cbn.
  - constructor.
  - destruct (p x); [constructor|]; assumption.
  - destruct (p x); [constructor|]; assumption.
Qed.

Lemma adm_single_true {A} (x : A) o : adm [(true, x)] o -> o = [x].
Proof. intros H. inversion H; subst. match goal with H : adm [] _ |- _ => inversion H end. reflexivity. Qed.

Lemma adm_app_inv {A} (l1 l2 : list (bool * A)) o :
  adm (l1 ++ l2) o -> exists o1 o2, o = o1 ++ o2 /\ adm l1 o1 /\ adm l2 o2.
Proof.
  revert o. induction l1 as [|[b x] l1 IH]; intros o H; cbn in H.
  - exists [], o. repeat split; [constructor|assumption].
  - inversion H as [|b' x' l' o' Ha|x' l' o' Ha]; subst.
    + destruct (IH _ Ha) as (o1 & o2 & -> & H1 & H2). exists (x :: o1), o2. repeat split; [constructor|]; assumption.
    + destruct (IH _ Ha) as (o1 & o2 & -> & H1 & H2). exists o1, o2. repeat split; [constructor|]; assumption.
Qed.

Lemma admissible_outcomes_spec tr k o :
  In o (admissible_outcomes tr k) <-> admissible (drun (firstn k tr)) o.
Proof.
  unfold admissible_outcomes, admissible. destruct o as [fo dd]. cbn. rewrite in_flat_map. split.
  - intros (fo' & Hf & H). apply in_map_iff in H. destruct H as (dd' & E & Hd). inversion E; subst.
    split; now apply adm_outcomes.
  - intros (Hf & Hd). exists fo. split; [now apply adm_outcomes|]. apply in_map. now apply adm_outcomes.
Qed.

Lemma pick_outcome_admissible fb db s : admissible s (pick_outcome fb db s).
Proof. split; apply adm_pick. Qed.

(* ---------- flags ---------- *)
Lemma in_sync_ino i l b y : In (b, y) (sync_ino i l) -> exists b', In (b', y) l /\ (b' = true -> b = true).
Proof.
  unfold sync_ino. intros H. apply in_map_iff in H. destruct H as ([b' y'] & E & H). cbn in E. inversion E; subst.
  exists b'. split; [assumption|]. intros ->. reflexivity.
Qed.
Lemma sync_ino_in i l b y : In (b, y) l -> In (b || (fst y =? i), y) (sync_ino i l).
Proof. intros H. unfold sync_ino. apply in_map_iff. exists (b, y). split; [reflexivity|assumption]. Qed.
Lemma sync_ino_true i l y : In (true, y) l -> In (true, y) (sync_ino i l).
Proof. intros H. apply (sync_ino_in i) in H. exact H. Qed.
Lemma sync_ino_filter (p : N * fop -> bool) i l :
  filter (fun y => p (snd y)) (sync_ino i l) = sync_ino i (filter (fun y => p (snd y)) l).
Proof.
  unfold sync_ino in *. induction l as [|[b y] l IH]; [reflexivity|].
  cbn [map filter fst snd]. destruct (p y); cbn [map fst snd]; now rewrite IH.
Qed.
Lemma in_sync_all {A} (l : list (bool * A)) b y : In (b, y) (sync_all l) -> b = true /\ exists b', In (b', y) l.
Proof.
  unfold sync_all. intros H. apply in_map_iff in H. destruct H as ([b' y'] & E & H). inversion E; subst.
  split; [reflexivity|]. now exists b'.
Qed.
Lemma sync_all_in {A} (l : list (bool * A)) b y : In (b, y) l -> In (true, y) (sync_all l).
Proof. intros H. unfold sync_all. apply in_map_iff. exists (b, y). split; [reflexivity|assumption]. Qed.
Lemma sync_all_app {A} (l1 l2 : list (bool * A)) : sync_all (l1 ++ l2) = sync_all l1 ++ sync_all l2.
Proof. apply map_app. Qed.

(* ---------- volatile directory ---------- *)
Lemma vlook_vdel d f g : vlook (vdel d f) g = if f =? g then None else vlook d g.
Proof.
  unfold vdel. induction d as [|[h i] d IH]; cbn [filter vlook fst].
  - now destruct (f =? g).
  - destruct (N.eqb_spec h f) as [->|Hn]; cbn [negb vlook].
    + rewrite IH. destruct (N.eqb_spec f g); reflexivity.
    + rewrite IH. destruct (N.eqb_spec h g) as [->|]; [|reflexivity].
      destruct (N.eqb_spec f g); [congruence|reflexivity].
Qed.

(* ---------- structural invariant of the model (every trace) ---------- *)
Definition dino (d : dop) : option N := match d with DLink _ i => Some i | DRename _ _ i => Some i | DUnlink _ => None end.
Record GInv (s : dstate) : Prop := {
  g_lt : forall g i, vlook (d_vdir s) g = Some i -> i < d_next s;
  g_inj : forall g h i, vlook (d_vdir s) g = Some i -> vlook (d_vdir s) h = Some i -> g = h;
  g_flt : forall b j o, In (b, (j, o)) (d_fops s) -> j < d_next s;
  g_dlt : forall b d j, In (b, d) (d_dops s) -> dino d = Some j -> j < d_next s }.

Lemma ginv_init : GInv d_init.
Proof. constructor; cbn; intros; try discriminate; contradiction. Qed.

Lemma ginv_add_fop s b i o : GInv s -> i < d_next s -> GInv (add_fop s b i o).
Proof.
  intros [G1 G2 G3 G4] Hi. constructor; cbn; auto.
  intros b' j o' [E|H]; [inversion E; subst; assumption|eauto].
Qed.

Lemma ginv_create s f : GInv s -> GInv (do_create s f).
Proof.
  intros G. unfold do_create. destruct (vlook (d_vdir s) f) as [i|] eqn:E.
  - apply ginv_add_fop; [assumption|]. eapply g_lt; eauto.
  - destruct G as [G1 G2 G3 G4]. constructor; cbn.
    + intros g i. destruct (N.eqb_spec f g); intros H; [inversion H; lia|]. apply G1 in H. lia.
    + intros g h i. destruct (N.eqb_spec f g), (N.eqb_spec f h); intros H1 H2; try congruence.
      * inversion H1; subst. apply G1 in H2. lia.
      * inversion H2; subst. apply G1 in H1. lia.
      * eauto.
    + intros b j o H. apply G3 in H. lia.
    + intros b d j [H|H] Hd; [inversion H; subst; cbn in Hd; inversion Hd; lia|]. eapply G4 in H; eauto. lia.
Qed.

Lemma ginv_write s f off len id os : GInv s -> GInv (do_write s f off len id os).
Proof.
  intros G. unfold do_write. destruct (vlook (d_vdir s) f) eqn:E; [|assumption].
  apply ginv_add_fop; [assumption|]. eapply g_lt; eauto.
Qed.

Lemma ginv_step s e : GInv s -> GInv (dstep s e).
Proof.
  intros G. destruct e; cbn [dstep].
  - now apply ginv_create.
  - destruct (vlook (d_vdir s) f) eqn:E; [|assumption]. apply ginv_add_fop; [assumption|]. eapply g_lt; eauto.
  - now apply ginv_write.
  - destruct (vlook (d_vdir s) f) eqn:E; [|assumption]. destruct G as [G1 G2 G3 G4]. constructor; cbn; auto.
    intros b j o H. apply in_sync_ino in H. destruct H as (b' & H & _). eauto.
  - destruct G as [G1 G2 G3 G4]. constructor; cbn; auto.
    intros b d j H. apply in_sync_all in H. destruct H as (_ & b' & H). eauto.
  - apply ginv_write. now apply ginv_create.
  - destruct (vlook (d_vdir s) a) as [i|] eqn:E; [|assumption]. destruct G as [G1 G2 G3 G4]. constructor; cbn; auto.
    + intros g j. destruct (N.eqb_spec b g); intros H; [inversion H; subst; eauto|].
      rewrite !vlook_vdel in H. destruct (b =? g), (a =? g); try discriminate. eauto.
    + intros g h j. rewrite !vlook_vdel.
      destruct (N.eqb_spec b g), (N.eqb_spec b h); try congruence.
      * intros H1 H2. inversion H1; subst j. destruct (N.eqb_spec a h); [discriminate|]. exfalso. apply n0. eauto.
      * intros H1 H2. inversion H2; subst j. destruct (N.eqb_spec a g); [discriminate|]. exfalso. apply n0. eauto.
      * destruct (a =? g), (a =? h); try discriminate. eauto.
    + intros b' d j [H|H] Hd; [inversion H; subst; cbn in Hd; inversion Hd; subst; eauto|eauto].
  - destruct (vlook (d_vdir s) f) as [i|] eqn:E; [|assumption]. destruct G as [G1 G2 G3 G4]. constructor; cbn; auto.
    + intros g j. rewrite vlook_vdel. destruct (f =? g); [discriminate|eauto].
    + intros g h j. rewrite !vlook_vdel. destruct (f =? g), (f =? h); try discriminate. eauto.
    + intros b' d j [H|H] Hd; [inversion H; subst; discriminate|eauto].
  - assumption.
  - assumption.
Qed.

Lemma ginv_run_from s tr : GInv s -> GInv (drun_from s tr).
Proof. revert s. induction tr as [|e tr IH]; intros s G; cbn; [assumption|]. apply IH. now apply ginv_step. Qed.

(* ---------- how the replayed disk reads ---------- *)
Definition touches (d : dop) (f : N) : Prop :=
  match d with DLink g _ => g = f | DRename a b _ => a = f \/ b = f | DUnlink g => g = f end.

Lemma dlook_untouched l f : (forall d, In d l -> ~ touches d f) -> dlook l f = None.
Proof.
  induction l as [|d l IH]; intros H; cbn; [reflexivity|].
  assert (Hd := H d (or_introl eq_refl)).
  assert (Hl : forall d', In d' l -> ~ touches d' f) by (intros; apply H; now right).
  destruct d; cbn in Hd.
  - destruct (N.eqb_spec f0 f); [contradiction|auto].
  - destruct (N.eqb_spec b f); [exfalso; auto|]. destruct (N.eqb_spec a f); [exfalso; auto|auto].
  - destruct (N.eqb_spec f0 f); [contradiction|auto].
Qed.

(* a name only ever touched by one and the same link operation resolves to it, once kept *)
Lemma dlook_only_link l f i :
  (forall d, In d l -> touches d f -> d = DLink f i) -> In (DLink f i) l -> dlook l f = Some i.
Proof.
  induction l as [|d l IH]; intros H Hin; [destruct Hin|]. cbn.
  assert (Hd := H d (or_introl eq_refl)).
  assert (Hl : forall d', In d' l -> touches d' f -> d' = DLink f i) by (intros; apply H; [now right|assumption]).
  destruct d; cbn in Hd.
  - destruct (N.eqb_spec f0 f) as [->|Hn].
    + specialize (Hd eq_refl). inversion Hd. reflexivity.
    + destruct Hin as [E|Hin]; [inversion E; congruence|auto].
  - destruct (N.eqb_spec b f) as [->|Hn]; [specialize (Hd (or_intror eq_refl)); discriminate|].
    destruct (N.eqb_spec a f) as [->|Hn2]; [specialize (Hd (or_introl eq_refl)); discriminate|].
    destruct Hin as [E|Hin]; [discriminate|auto].
  - destruct (N.eqb_spec f0 f) as [->|Hn]; [specialize (Hd eq_refl); discriminate|].
    destruct Hin as [E|Hin]; [discriminate|auto].
Qed.

(* every operation on inode i is the sizing or a write of a pairwise disjoint family below the
   size: a kept write owns its bytes and the file is long enough *)
Lemma owner_kept l i n off len id (W : list (N * N * N)) :
  (forall o, In (i, o) l -> o = FSetLen n \/ exists off' len' id', o = FWrite off' len' id' /\ In (off', len', id') W) ->
  (forall off' len' id', In (off', len', id') W -> off' + len' <= n) ->
  (forall off' len' id', In (off', len', id') W -> overlaps off len off' len' = true -> (off', len', id') = (off, len, id)) ->
  In (off, len, id) W -> In (i, FWrite off len id) l ->
  forall pos, off <= pos -> pos < off + len -> owner l i pos = Some id.
Proof.
  intros Hops Hfit Hdis HW. induction l as [|[j o] l IH]; intros Hin pos H1 H2; [destruct Hin|]. cbn.
  assert (Hl : forall o', In (i, o') l -> o' = FSetLen n \/ exists off' len' id', o' = FWrite off' len' id' /\ In (off', len', id') W)
    by (intros; apply Hops; now right).
  destruct (N.eqb_spec j i) as [->|Hn].
  - destruct (Hops o (or_introl eq_refl)) as [->|(off' & len' & id' & -> & HW')].
    + pose proof (Hfit _ _ _ HW). replace (pos <? n) with true by lia.
      destruct Hin as [E|Hin]; [discriminate|]. now apply (IH Hl Hin).
    + destruct ((off' <=? pos) && (pos <? off' + len')) eqn:Ec.
      * assert (Ho : overlaps off len off' len' = true) by (unfold overlaps; lia).
        specialize (Hdis _ _ _ HW' Ho). inversion Hdis. reflexivity.
      * destruct Hin as [E|Hin]; [inversion E; subst; lia|]. now apply (IH Hl Hin).
  - destruct Hin as [E|Hin]; [inversion E; congruence|]. now apply (IH Hl Hin).
Qed.

Lemma flen_kept l i n off len id (W : list (N * N * N)) :
  (forall o, In (i, o) l -> o = FSetLen n \/ exists off' len' id', o = FWrite off' len' id' /\ In (off', len', id') W) ->
  (forall off' len' id', In (off', len', id') W -> off' + len' <= n) ->
  In (off, len, id) W -> In (i, FWrite off len id) l -> off + len <= flen l i.
Proof.
  intros Hops Hfit HW. induction l as [|[j o] l IH]; intros Hin; [destruct Hin|]. cbn.
  assert (Hl : forall o', In (i, o') l -> o' = FSetLen n \/ exists off' len' id', o' = FWrite off' len' id' /\ In (off', len', id') W)
    by (intros; apply Hops; now right).
  destruct (N.eqb_spec j i) as [->|Hn].
  - destruct (Hops o (or_introl eq_refl)) as [->|(off' & len' & id' & -> & HW')].
    + eapply Hfit; eauto.
    + destruct Hin as [E|Hin]; [inversion E; subst; lia|]. specialize (IH Hl Hin). lia.
  - destruct Hin as [E|Hin]; [inversion E; congruence|]. now apply (IH Hl Hin).
Qed.

Lemma run_from_app s t1 t2 : drun_from s (t1 ++ t2) = drun_from (drun_from s t1) t2.
Proof. apply fold_left_app. Qed.
