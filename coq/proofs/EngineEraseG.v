(* EngineEraseG.v — C02 (a) for histories with restarts, both read APIs mixed freely.
   After a restart a topic's persisted position is applied by its first stateful read, in one of
   two flavours: read_next leaves the reader's tail fields (0,0), batch_read sets them to the
   persisted (block id, offset).  Outside block-id drift a persisted tail position names a sealed
   block of the recovered chain, so either pair is DEAD: it names neither the writer block nor
   any block allocated later, and every test the engine makes on it fails the same way.  The
   simulation of EngineEraseD.v tolerates dead tails; the two runs are compared through ALL
   normalisations ([EG]: every flavour on either side). *)
From W Require Import model.Base model.Engine spec.Queue spec.Crash proofs.EngineBasic proofs.EngineWF proofs.EngineInv proofs.EngineBR proofs.EngineW
  proofs.EngineMain proofs.EngineRec proofs.EngineDisk proofs.EnginePos proofs.EngineBlk proofs.EngineNorm proofs.EngineRestart
  proofs.EngineReopen proofs.EngineC06 proofs.CrashP proofs.EngineNormW proofs.EngineRaw proofs.EngineP3L proofs.EngineIdxL proofs.EngineALO proofs.AloAccP
  proofs.EngineGen proofs.EngineGenR proofs.EngineCrash proofs.EngineC02 proofs.EngineErase proofs.EngineEraseD proofs.EngineEraseR.
From Coq Require Import ZArith ZifyBool ZifyN ZifyNat.

(* ------------------------------------------------------------------ the two flavours differ by dead tails *)
Lemma hyd_flavours nid wo r p :
  r_hydrated r = false -> r_tail_bid r = 0 -> 0 < nid ->
  (forall w, wo = Some w -> 0 < b_id w) ->
  (p_tail p = true -> (exists j, find_id (r_chain r) (p_a p) 0 = Some j) /\ p_a p < nid /\ forall w, wo = Some w -> b_id w <> p_a p) ->
  rsimD nid wo (hyd false r (Some p)) (hyd true r (Some p)).
Proof.
  intros Hh Htb Hn Hw Hp. destruct p as [tl a off]. cbn [p_tail p_a p_off] in *.
  unfold hyd, hydrate. rewrite Hh. cbn [p_tail p_a p_off]. destruct tl.
  - destruct (Hp eq_refl) as ((j & Hj) & Ha & Hwa).
    destruct r as [ch i o tb tof sn hy]. cbn [r_chain r_tail_bid] in *. subst tb.
    cbn [fold_tail set_hydrated set_cur set_tail r_chain]. rewrite Hj.
    constructor; cbn [set_cur set_hydrated set_tail r_chain r_idx r_off r_tail_bid r_tail_off r_since]; try reflexivity.
    right. split; (split; [lia|]); [intros w E H0; specialize (Hw w E); lia|exact Hwa].
  - cbn [fold_tail]. apply rsimD_refl.
Qed.

Lemma nrm_flavours c nid ts l B Bb x y : TGM c nid ts l B Bb -> 0 < nid -> tsimD nid (nrm x ts) (nrm y ts).
Proof.
  intros HT Hn.
  assert (Hmain : tsimD nid (nrm false ts) (nrm true ts)).
  { unfold nrm. destruct (r_hydrated (reader_of ts)) eqn:Eh; [apply tsimD_refl|].
    destruct (ts_index ts) as [p|] eqn:Ei; [|apply tsimD_refl].
    assert (Hcs : exists bid, CS ts bid nid /\ forall w, ts_writer ts = Some w -> bid = b_id w).
    { destruct (ts_writer ts) as [w|] eqn:Ew.
      - exists (b_id w). split; [|intros w0 E; congruence].
        apply (TGM_CS c nid ts l B Bb HT Hn); [intros w0 E; congruence|intros E; congruence].
      - exists nid. split; [|intros w0 E; congruence]. apply (TGM_CS c nid ts l B Bb HT Hn); [intros w0 E; congruence|reflexivity]. }
    destruct Hcs as (bid & Hcs & Hbid). destruct (Hcs Eh p Ei) as (Htb & Hb & Hp).
    destruct ts as [rd wr po cn ix um]. cbn [ts_index ts_writer reader_of ts_reader with_reader] in *.
    constructor; cbn [ts_writer ts_poisoned ts_count ts_index ts_unmodelled with_reader ts_reader]; try reflexivity.
    unfold reader_of at 1 2. cbn [ts_reader].
    apply hyd_flavours; auto.
    + intros w E. rewrite <- (Hbid w E). exact Hb.
    + intros Ht. rewrite Ht in Hp. destruct Hp as (Hj & Ha & Hne). split; [exact Hj|]. split; [exact Ha|].
      intros w E. rewrite <- (Hbid w E). exact Hne. }
  destruct x, y; [apply tsimD_refl|apply tsimD_sym; exact Hmain|exact Hmain|apply tsimD_refl].
Qed.

(* ------------------------------------------------------------------ the relation between the two runs *)
Definition EG (s s' : st) : Prop :=
  s_alloc s' = s_alloc s /\ s_disk s' = s_disk s /\ s_files s' = s_files s /\
  forall t x y, tsimD (a_next (s_alloc s)) (nrm x (get_ts s t)) (nrm y (get_ts s' t)).

Lemma EG_inst x y s s' : EG s s' -> ssimD (Nst x s) (Nst y s').
Proof.
  intros (A & B & C & D). unfold ssimD. cbn [Nst s_alloc s_disk s_files].
  split; [exact A|]. split; [exact B|]. split; [exact C|]. intros t. rewrite !get_Nst. apply D.
Qed.

Lemma EG_init : EG init init.
Proof. split; [reflexivity|]. split; [reflexivity|]. split; [reflexivity|]. intros t x y. apply tsimD_refl. Qed.

(* which API a stateful read uses, and on which topic *)
Definition rd (f : bool) (t : topic) (o : op) : Prop :=
  match o with
  | ORead t' _ => f = false /\ t' = t
  | OBatchRead t' _ _ None => f = true /\ t' = t
  | _ => False
  end.

Lemma rd_api f t o : rd f t o -> api_ok f o = true /\ match o with OReopen | OBatchRead _ _ _ (Some _) => False | _ => True end.
Proof. destruct o as [| |t' ck|t' mb ck [st0|]| |]; cbn; try contradiction; intros (-> & _); auto. Qed.

Lemma read_shape c m be f t s g B Bb o : cfg_ok c -> GM c s g B Bb -> rd f t o ->
  exists A, fst (step (env_of c m be) s o) = set_ts s (t_id t) A /\ r_hydrated (reader_of A) = true.
Proof.
  intros Hc HG Hrd. pose proof (proj1 (GM_Rel f c s g B Bb HG)) as (_ & Hti).
  destruct o as [| |t' ck|t' maxb ck [st0|]| |]; try contradiction; destruct Hrd as (-> & ->); cbn [step env_of v_cfg v_mode v_backend].
  - destruct (read_next_spec_idxL c m (Nst false s) t ck _ Hc (Hti (t_id t))) as (ts' & res & E & _ & _ & _ & _ & Hh & _).
    rewrite read_next_from, get_Nst, rn_from_nrm in E.
    pose proof (f_equal fst E) as E1. cbn [fst] in E1. apply set_ts_inj in E1.
    exists ts'. split; [|exact Hh]. rewrite read_next_from. cbn [fst]. now rewrite E1.
  - destruct (batch_read_spec_idxL c m (Nst true s) t maxb ck _ Hc (Hti (t_id t))) as (ts' & k & E & _ & _ & _ & _ & Hh & _).
    rewrite (batch_read_nrm_gen c m (Nst true s) t maxb ck (get_ts s (t_id t)) (get_Nst true s (t_id t))) in E.
    destruct (br_from_state c m s (Nst true s) t maxb ck (get_ts s (t_id t)) (br_position c (get_ts s (t_id t)) None)) as (A & _).
    destruct (br_from_state c m s s t maxb ck (get_ts s (t_id t)) (br_position c (get_ts s (t_id t)) None)) as (A' & _).
    rewrite E in A. cbn [fst] in A. apply set_ts_inj in A.
    exists ts'. split; [|exact Hh]. unfold batch_read. rewrite A'. now rewrite <- A.
Qed.

(* kept appends, batches and counts: they commute with every normalisation *)
Lemma EG_keep_w c m be s s' g B Bb g' B' Bb' o : cfg_ok c ->
  GM c s g B Bb -> GM c s' g' B' Bb' -> EG s s' -> o <> OReopen ->
  (forall x, step (env_of c m be) (Nst x s) o = (Nst x (fst (step (env_of c m be) s o)), snd (step (env_of c m be) s o))) ->
  (forall x, step (env_of c m be) (Nst x s') o = (Nst x (fst (step (env_of c m be) s' o)), snd (step (env_of c m be) s' o))) ->
  snd (step (env_of c m be) s' o) = snd (step (env_of c m be) s o) /\
  EG (fst (step (env_of c m be) s o)) (fst (step (env_of c m be) s' o)).
Proof.
  intros Hc HG HG' He Hne H1 H2.
  assert (Hxy : forall x y, snd (step (env_of c m be) s' o) = snd (step (env_of c m be) s o) /\
                            ssimD (Nst x (fst (step (env_of c m be) s o))) (Nst y (fst (step (env_of c m be) s' o)))).
  { intros x y.
    pose proof (step_simD_proj c m be (Nst x s) (Nst y s') o (EG_inst x y s s' He)
                  (proj1 (GM_Rel x c s g B Bb HG)) (proj1 (GM_Rel y c s' g' B' Bb' HG')) Hne) as Hss.
    rewrite H1, H2 in Hss. exact Hss. }
  split; [exact (proj1 (Hxy false false))|].
  destruct (proj2 (Hxy false false)) as (A & B0 & C & _). cbn [Nst s_alloc s_disk s_files] in A, B0, C.
  split; [exact A|]. split; [exact B0|]. split; [exact C|].
  intros t x y. destruct (proj2 (Hxy x y)) as (_ & _ & _ & D). specialize (D t). rewrite !get_Nst in D. exact D.
Qed.

(* a kept stateful read *)
Lemma EG_keep_r c m be f t s s' g B Bb g' B' Bb' o : cfg_ok c ->
  GM c s g B Bb -> GM c s' g' B' Bb' -> EG s s' -> rd f t o ->
  snd (step (env_of c m be) s' o) = snd (step (env_of c m be) s o) /\
  EG (fst (step (env_of c m be) s o)) (fst (step (env_of c m be) s' o)).
Proof.
  intros Hc HG HG' He Hrd. destruct (rd_api f t o Hrd) as (Hapi & Hsh).
  assert (Hne : o <> OReopen) by (intros ->; exact Hsh).
  pose proof (step_Nst c m be f s g B Bb o Hc HG Hapi Hsh) as E1.
  pose proof (step_Nst c m be f s' g' B' Bb' o Hc HG' Hapi Hsh) as E2.
  pose proof (step_simD_proj c m be (Nst f s) (Nst f s') o (EG_inst f f s s' He)
                (proj1 (GM_Rel f c s g B Bb HG)) (proj1 (GM_Rel f c s' g' B' Bb' HG')) Hne) as Hss.
  rewrite E1, E2 in Hss. cbn [fst snd] in Hss. destruct Hss as (Hr & Hs). split; [exact Hr|].
  destruct (read_shape c m be f t s g B Bb o Hc HG Hrd) as (A & EA & HA).
  destruct (read_shape c m be f t s' g' B' Bb' o Hc HG' Hrd) as (A' & EA' & HA').
  rewrite EA, EA' in *. destruct He as (a & d & fl & D). destruct Hs as (_ & _ & _ & Ds).
  cbn [Nst set_ts s_alloc s_disk s_files] in *.
  split; [exact a|]. split; [exact d|]. split; [exact fl|].
  intros u x y. destruct (N.eq_dec u (t_id t)) as [->|Hu].
  - specialize (Ds (t_id t)). rewrite !get_Nst, !get_set_same in Ds. rewrite !get_set_same.
    rewrite (nrm_reader_hydrated f A HA), (nrm_reader_hydrated f A' HA') in Ds.
    rewrite (nrm_reader_hydrated x A HA), (nrm_reader_hydrated y A' HA'). exact Ds.
  - rewrite !get_set_other by exact Hu. apply D.
Qed.

Lemma EG_step_keep c m be s s' g B Bb g' B' Bb' o : cfg_ok c ->
  GM c s g B Bb -> GM c s' g' B' Bb' -> EG s s' -> EngineErase.keep o = true -> o <> OReopen ->
  snd (step (env_of c m be) s' o) = snd (step (env_of c m be) s o) /\
  EG (fst (step (env_of c m be) s o)) (fst (step (env_of c m be) s' o)).
Proof.
  intros Hc HG HG' He Hk Hne.
  destruct o as [t e | t es | t ck | t maxb ck [st0|] | t | ]; try congruence.
  - apply (EG_keep_w c m be s s' g B Bb g' B' Bb'); auto; intros x; eapply step_Nst; eauto; exact I.
  - apply (EG_keep_w c m be s s' g B Bb g' B' Bb'); auto; intros x; eapply step_Nst; eauto; exact I.
  - apply (EG_keep_r c m be false t s s' g B Bb g' B' Bb'); auto. split; reflexivity.
  - unfold EngineErase.keep in Hk. cbn in Hk. destruct ck; discriminate.
  - apply (EG_keep_r c m be true t s s' g B Bb g' B' Bb'); auto. split; reflexivity.
  - apply (EG_keep_w c m be s s' g B Bb g' B' Bb'); auto; intros x; eapply step_Nst; eauto; exact I.
Qed.

(* an erased operation *)
Lemma EG_peek c m be f t s s' g B Bb o : cfg_ok c ->
  GM c s g B Bb -> EG s s' -> rd f t o -> nonconsuming o = true ->
  EG (fst (step (env_of c m be) s o)) s'.
Proof.
  intros Hc HG He Hrd Hnc. destruct (rd_api f t o Hrd) as (Hapi & Hsh).
  pose proof (step_Nst c m be f s g B Bb o Hc HG Hapi Hsh) as E1.
  pose proof (peek_ssim c m be (Nst f s) o (proj1 (GM_Rel f c s g B Bb HG)) Hnc) as Hp.
  rewrite E1 in Hp. cbn [fst] in Hp. apply ssim_ssimD in Hp.
  destruct (read_shape c m be f t s g B Bb o Hc HG Hrd) as (A & EA & HA).
  rewrite EA in *. destruct He as (a & d & fl & D). destruct Hp as (_ & _ & _ & Dp).
  cbn [Nst set_ts s_alloc s_disk s_files] in *.
  split; [exact a|]. split; [exact d|]. split; [exact fl|].
  intros u x y. destruct (N.eq_dec u (t_id t)) as [->|Hu].
  - specialize (Dp (t_id t)). rewrite !get_Nst, !get_set_same in Dp. rewrite !get_set_same.
    rewrite (nrm_reader_hydrated f A HA) in Dp. rewrite (nrm_reader_hydrated x A HA).
    exact (tsimD_trans _ _ _ _ (tsimD_sym _ _ _ Dp) (D (t_id t) f y)).
  - rewrite !get_set_other by exact Hu. apply D.
Qed.

Lemma EG_step_erased c m be s s' g B Bb o : cfg_ok c ->
  GM c s g B Bb -> EG s s' -> nonconsuming o = true -> EG (fst (step (env_of c m be) s o)) s'.
Proof.
  intros Hc HG He Hnc.
  destruct o as [t e | t es | t ck | t maxb ck [st0|] | t | ]; try discriminate.
  - apply (EG_peek c m be false t s s' g B Bb); auto. split; reflexivity.
  - cbn [step env_of v_cfg v_mode v_backend].
    destruct (batch_read_stateless c m s t maxb ck st0) as (os & E). rewrite E. cbn [fst].
    destruct He as (a & d & fl & D). cbn [set_ts s_alloc s_disk s_files].
    split; [exact a|]. split; [exact d|]. split; [exact fl|].
    intros u x y. replace (get_ts (set_ts s (t_id t) (get_ts s (t_id t))) u) with (get_ts s u); [apply D|].
    destruct (N.eq_dec u (t_id t)) as [->|Hu]; [now rewrite get_set_same|now rewrite get_set_other].
  - apply (EG_peek c m be true t s s' g B Bb); auto. split; reflexivity.
Qed.

(* a restart on both sides *)
Lemma EG_reopen c s s' g B Bb g' B' Bb' g1 B1 Bb1 : cfg_ok c ->
  GM c s g B Bb -> GM c s' g' B' Bb' -> GM c (reopen c s) g1 B1 Bb1 -> EG s s' -> EG (reopen c s) (reopen c s').
Proof.
  intros Hc (_ & Hd & Hb & _ & _) (_ & Hd' & Hb' & _ & _) (Hn1 & _ & _ & _ & Hall1) (A & B0 & C & D).
  assert (Hg : forall t, get_ts (reopen c s') t = get_ts (reopen c s) t).
  { apply (reopen_get_eq c s s' Hc Hd Hb Hd' Hb' B0 C). intros t. specialize (D t false false).
    destruct D as [_ _ _ Hi Hu _]. rewrite !nrm_index in Hi. rewrite !nrm_unmodelled in Hu. auto. }
  destruct (reopen_fields c s) as (F1 & F2 & F3). destruct (reopen_fields c s') as (F1' & F2' & F3').
  split; [rewrite F3, F3'; unfold scan0; now rewrite B0, C|]. split; [now rewrite F1, F1'|]. split; [now rewrite F2, F2', C|].
  intros t x y. rewrite Hg. exact (nrm_flavours c _ _ _ _ _ x y (Hall1 t) Hn1).
Qed.

(* ------------------------------------------------------------------ the erasure theorem, with restarts *)
Theorem erase_with_restarts_from c m be : cfg_ok c -> forall ops s s' g B Bb g' B' Bb',
  GM c s g B Bb -> GM c s' g' B' Bb' -> EG s s' ->
  outside_known (env_of c m be) s ops = true ->
  outside_known (env_of c m be) s' (filter EngineErase.keep ops) = true ->
  B + N.of_nat (length (offered_all ops)) <= u64_max -> Bb + sum_len (offered_all ops) <= u64_max ->
  B' + N.of_nat (length (offered_all ops)) <= u64_max -> Bb' + sum_len (offered_all ops) <= u64_max ->
  filter (fun p => EngineErase.keep (fst p)) (trace (env_of c m be) s ops) =
  trace (env_of c m be) s' (filter EngineErase.keep ops).
Proof.
  intros Hc. induction ops as [|o r IH]; intros s s' g B Bb g' B' Bb' HG HG' He Hout Hout' HB HBb HB' HBb'; [reflexivity|].
  cbn [outside_known] in Hout. apply andb_true_iff in Hout. destruct Hout as (Ho & Hout).
  cbn [offered_all] in HB, HBb, HB', HBb'. rewrite app_length, Nat2N.inj_add in HB, HB'. rewrite sum_len_app in HBb, HBb'.
  cbn [trace filter] in *. unfold EngineErase.keep at 2. unfold EngineErase.keep at 1 in Hout'.
  destruct (nonconsuming o) eqn:En; cbn [negb] in *.
  - (* erased *)
    assert (Hok : op_ok c o) by (destruct o; try exact I; discriminate).
    pose proof (GM_step c m be s g B Bb o Hc HG Hok ltac:(lia) ltac:(lia)) as (_ & HG1).
    pose proof (EG_step_erased c m be s s' g B Bb o Hc HG He En) as He1.
    rewrite (offered_nonconsuming o En) in *. cbn [length sum_len fold_right N.of_nat] in *. rewrite ?N.add_0_r in *.
    destruct (step (env_of c m be) s o) as [s1 res]. cbn [fst snd] in *.
    cbn [filter fst]. unfold EngineErase.keep at 1. rewrite En. cbn [negb].
    apply (IH s1 s' _ _ _ _ _ _ HG1 HG' He1 Hout Hout'); lia.
  - (* kept *)
    cbn [outside_known] in Hout'. apply andb_true_iff in Hout'. destruct Hout' as (Ho' & Hout').
    cbn [trace].
    destruct o as [t e | t es | t ck | t maxb ck start | t | ].
    1-5: (match goal with |- context [step _ _ ?o] =>
      pose proof (GM_step c m be s g B Bb o Hc HG I ltac:(lia) ltac:(lia)) as (_ & HG1);
      pose proof (GM_step c m be s' g' B' Bb' o Hc HG' I ltac:(lia) ltac:(lia)) as (_ & HG1');
      pose proof (EG_step_keep c m be s s' g B Bb g' B' Bb' o Hc HG HG' He ltac:(unfold EngineErase.keep; now rewrite En) ltac:(discriminate)) as (Hr & He1);
      destruct (step (env_of c m be) s o) as [s1 res]; destruct (step (env_of c m be) s' o) as [s1' res'];
      cbn [fst snd] in *; subst res'; cbn [filter fst]; unfold EngineErase.keep at 1; rewrite En; cbn [negb]; f_equal;
      apply (IH s1 s1' _ _ _ _ _ _ HG1 HG1' He1 Hout Hout'); lia end).
    cbn [step env_of v_cfg fst offered length sum_len fold_right N.of_nat] in *. rewrite ?N.add_0_r in *.
    apply negb_true_iff in Ho. apply negb_true_iff in Ho'.
    pose proof (proj1 (GM_reopen c s g B Bb Hc HG Ho)) as HG1. pose proof (proj1 (GM_reopen c s' g' B' Bb' Hc HG' Ho')) as HG1'.
    cbn [filter fst]. change (EngineErase.keep OReopen) with true. cbn iota. f_equal.
    apply (IH _ _ _ _ _ _ _ _ HG1 HG1' (EG_reopen c s s' g B Bb g' B' Bb' _ _ _ Hc HG HG' HG1 He) Hout Hout'); lia.
Qed.

(* from the empty instance: any mode, any backend, any number of restarts, both read APIs;
   the two booleans say that no restart of either run happens under block-id drift *)
Theorem erase_with_restarts c m be ops : cfg_ok c ->
  outside_known (env_of c m be) init ops = true ->
  outside_known (env_of c m be) init (filter EngineErase.keep ops) = true ->
  N.of_nat (length (offered_all ops)) <= u64_max -> sum_len (offered_all ops) <= u64_max ->
  filter (fun p => EngineErase.keep (fst p)) (trace (env_of c m be) init ops) =
  trace (env_of c m be) init (filter EngineErase.keep ops).
Proof.
  intros Hc Ho Ho' HB HBb. pose proof Hc as (_ & Hb0 & _).
  apply (erase_with_restarts_from c m be Hc ops init init [] 0 0 [] 0 0 (GM_init c Hb0) (GM_init c Hb0) EG_init Ho Ho'); lia.
Qed.

(* ------------------------------------------------------------------ C02 (b) with restarts *)
(* a peek returns what the immediately following consuming read with the same arguments returns,
   in every state a history with restarts (outside block-id drift) reaches — in particular when
   the peek is the first read after a restart and itself applies the persisted position *)
Lemma pair_ok_GM c m be s g B Bb o1 o2 : cfg_ok c -> GM c s g B Bb -> same_read_args o1 o2 = true ->
  B <= u64_max -> Bb <= u64_max ->
  result_eqb (snd (step (env_of c m be) s o1)) (snd (step (env_of c m be) (fst (step (env_of c m be) s o1)) o2)) = true.
Proof.
  intros Hc HG Hsame HB HBb.
  assert (Hf : exists f, api_ok f o1 = true /\ api_ok f o2 = true /\
               match o1 with OReopen | OBatchRead _ _ _ (Some _) => False | _ => True end /\
               match o2 with OReopen | OBatchRead _ _ _ (Some _) => False | _ => True end /\ offered o1 = [] /\ op_ok c o1).
  { destruct (same_read_args_inv _ _ Hsame) as [(t & t' & -> & -> & Ht)|(t & t' & maxb & -> & -> & Ht)];
      [exists false|exists true]; cbn; auto 10. }
  destruct Hf as (f & Ha1 & Ha2 & Hs1 & Hs2 & Hoff & Hok).
  pose proof (GM_step c m be s g B Bb o1 Hc HG Hok) as HG1. rewrite Hoff in HG1. cbn [length sum_len fold_right N.of_nat] in HG1.
  destruct (HG1 ltac:(lia) ltac:(lia)) as (_ & HG1').
  pose proof (pair_ok c m be (Nst f s) g B Bb o1 o2 Hc (GM_Rel f c s g B Bb HG) Hsame) as P.
  rewrite (step_Nst c m be f s g B Bb o1 Hc HG Ha1 Hs1) in P.
  rewrite (step_Nst c m be f _ _ _ _ o2 Hc HG1' Ha2 Hs2) in P. exact P.
Qed.

Lemma c02b_cons o1 r1 o2 r2 rest :
  c02b_ok ((o1, r1) :: (o2, r2) :: rest) = (if same_read_args o1 o2 then result_eqb r1 r2 else true) && c02b_ok ((o2, r2) :: rest).
Proof. reflexivity. Qed.

Theorem c02b_with_restarts_from c m be : cfg_ok c -> forall ops s g B Bb,
  GM c s g B Bb -> outside_known (env_of c m be) s ops = true ->
  B + N.of_nat (length (offered_all ops)) <= u64_max -> Bb + sum_len (offered_all ops) <= u64_max ->
  c02b_ok (trace (env_of c m be) s ops) = true.
Proof.
  intros Hc. induction ops as [|o r IH]; intros s g B Bb HG Hout HB HBb; [reflexivity|].
  cbn [outside_known] in Hout. apply andb_true_iff in Hout. destruct Hout as (Ho & Hout).
  cbn [offered_all] in *. rewrite app_length, Nat2N.inj_add in HB. rewrite sum_len_app in HBb.
  assert (Hnext : exists g1, GM c (fst (step (env_of c m be) s o)) g1 (B + N.of_nat (length (offered o))) (Bb + sum_len (offered o))).
  { destruct o as [t e | t es | t ck | t maxb ck start | t | ].
    1-5: (match goal with |- context [step _ _ ?o] =>
            exists (ledger_step g o (snd (step (env_of c m be) s o)));
            apply (GM_step c m be s g B Bb o Hc HG I); lia end).
    cbn [step env_of v_cfg fst offered length sum_len fold_right] in *. apply negb_true_iff in Ho.
    exists (map (rbl c s) g). replace (B + N.of_nat 0) with B by lia. replace (Bb + 0) with Bb by lia.
    exact (proj1 (GM_reopen c s g B Bb Hc HG Ho)). }
  destruct Hnext as (g1 & HG1).
  specialize (IH _ g1 _ _ HG1 Hout ltac:(lia) ltac:(lia)).
  assert (Hpair : forall o2, same_read_args o o2 = true ->
            result_eqb (snd (step (env_of c m be) s o)) (snd (step (env_of c m be) (fst (step (env_of c m be) s o)) o2)) = true)
    by (intros o2 Hs; apply (pair_ok_GM c m be s g B Bb o o2 Hc HG Hs); lia).
  cbn [trace]. destruct (step (env_of c m be) s o) as [s1 res]. cbn [fst snd] in *.
  destruct r as [|o2 r2]; [reflexivity|]. cbn [trace] in *. specialize (Hpair o2).
  destruct (step (env_of c m be) s1 o2) as [s2 res2]. cbn [snd] in Hpair.
  rewrite c02b_cons, IH, andb_true_r. destruct (same_read_args o o2); [exact (Hpair eq_refl)|reflexivity].
Qed.

Theorem c02b_with_restarts c m be ops : cfg_ok c ->
  outside_known (env_of c m be) init ops = true ->
  N.of_nat (length (offered_all ops)) <= u64_max -> sum_len (offered_all ops) <= u64_max ->
  c02b_ok (trace (env_of c m be) init ops) = true.
Proof.
  intros Hc Ho HB HBb. pose proof Hc as (_ & Hb0 & _).
  apply (c02b_with_restarts_from c m be Hc ops init [] 0 0 (GM_init c Hb0) Ho); lia.
Qed.
