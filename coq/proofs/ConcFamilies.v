(* ConcFamilies.v — concrete thread-program families with batch appends and batch reads, and the
   exhaustive exploration of all their schedules on the fixed model (fx = true) by [explore]
   (ConcExplore.v).  Kept out of props/C05.v because the evaluation takes about a minute. *)
From W Require Import gen.Consts model.Base model.Engine model.EngineCfg model.Conc spec.ConcSpec proofs.ConcExplore.

Definition ft1 : topic := {| t_id := 1; t_nlen := 2 |}.
Definition fe (p l : N) : entry := {| e_pid := p; e_len := l |}.
Definition fv0 : env := {| v_cfg := small_cfg; v_mode := Strict; v_backend := Fd |}.
Definition fsch (l : list N) : list nat := map N.to_nat l.
Definition fa4 := [CAppend ft1 (fe 0 1000); CAppend ft1 (fe 1 1000); CAppend ft1 (fe 2 1000); CAppend ft1 (fe 3 1000)].
Definition every_schedule_after (progs : list (list call)) (pre : list nat) : Prop :=
  forall sched, let ro := run_schedule fv0 true progs (pre ++ sched) in
    threads_done (ro_cs ro) = true -> c05_run_ok progs (cresults (ro_cs ro)) false = true.
Definition b3 := CBatch ft1 [fe 2 1000; fe 3 1000; fe 4 1000].
Definition brm := CBatchRead ft1 u64_max true.
Definition p2 := [CAppend ft1 (fe 0 1000); CAppend ft1 (fe 1 1000); b3].
(* a batch that crosses a block boundary (two entries already in the block) against a consumer *)
Definition bf1 := [p2; [CRead ft1 true; CRead ft1 true; CRead ft1 true]].
(* single appends, the fourth rotates the block, against consuming batch reads *)
Definition bf2 := [fa4; [brm; brm; CRead ft1 true]].
(* the rotating batch against consuming batch reads *)
Definition bf3 := [p2; [brm; brm; CRead ft1 true]].
(* two batch writers on one topic (the second to start gets WouldBlock) and a consumer *)
Definition bf4 := [[CBatch ft1 [fe 0 1000; fe 1 1000]]; [CBatch ft1 [fe 2 1000; fe 3 1000]]; [CRead ft1 true; CRead ft1 true]].
(* one batch over three blocks against a consumer *)
Definition bf6 := [[CBatch ft1 [fe 0 1000; fe 1 1000; fe 2 1000; fe 3 1000; fe 4 1000; fe 5 1000; fe 6 1000]];
                   [CRead ft1 true; CRead ft1 true; CRead ft1 true]].
(* the rotating batch against two consumers: a batch read and a read_next; two batch reads *)
Definition bf9 := [p2; [brm]; [CRead ft1 true]].
Definition bf10 := [p2; [brm]; [brm]].
Definition pre6 := fsch (repeat 0%N 6).   (* the two single appends of p2, serially *)
Definition pre9 := fsch (repeat 0%N 9).   (* the first three appends of fa4 *)

Lemma batches_every_schedule_bounded :
  every_schedule_after bf1 pre6 /\ every_schedule_after bf2 pre9 /\ every_schedule_after bf3 pre6 /\
  every_schedule_after bf4 [] /\ every_schedule_after bf6 [] /\
  every_schedule_after bf9 pre6 /\ every_schedule_after bf10 pre6.
Proof.
  repeat split; intro sched; apply (explore_after_prefix fv0 true _ false _ 100); vm_compute; reflexivity.
Qed.

