(* ConcBridgeF.v — from the final invariant of proofs/ConcInvF.v (ghost delivery log, any number
   of consumers) to the verdict of the C05 acceptor. *)
From W Require Import model.Base model.Engine model.Conc spec.ConcSpec proofs.EngineWF proofs.EngineInv proofs.EngineW proofs.EngineBR
  proofs.EngineMain proofs.ConcInv proofs.ConcStep proofs.ConcBridge proofs.ConcInvF.
From Coq Require Import ZArith ZifyBool ZifyN ZifyNat.

(* ------------------------------------------------------------------ subsequences *)
Inductive subseq {A} : list A -> list A -> Prop :=
| sub_nil l : subseq [] l
| sub_cons x a b : subseq a b -> subseq (x :: a) (x :: b)
| sub_skip x a b : subseq a b -> subseq a (x :: b).

Lemma subseq_refl {A} (l : list A) : subseq l l.
Proof. induction l; constructor; auto. Qed.
Lemma subseq_filter_self {A} (f : A -> bool) l : subseq (filter f l) l.
Proof. induction l as [|x l IH]; cbn; [constructor|]. destruct (f x); constructor; auto. Qed.
Lemma subseq_map {A B} (f : A -> B) a b : subseq a b -> subseq (map f a) (map f b).
Proof. induction 1; cbn; constructor; auto. Qed.
Lemma subseq_filter {A} (f : A -> bool) a b : subseq a b -> subseq (filter f a) (filter f b).
Proof. induction 1; cbn; [constructor| |]; destruct (f x); try constructor; auto. Qed.
Lemma subseq_firstn {A} k (l : list A) : subseq (firstn k l) l.
Proof. revert l; induction k as [|k IH]; intros l; [constructor|]. destruct l; cbn; constructor; auto. Qed.
Lemma subseq_tail {A} (x : A) a b : subseq (x :: a) b -> subseq a b.
Proof.
  remember (x :: a) as xa eqn:E. intros H. revert x a E. induction H; intros y a' E; try discriminate.
  - inversion E; subst. now constructor.
  - constructor. eapply IHsubseq; eauto.
Qed.
Lemma subseq_trans {A} (a b c : list A) : subseq a b -> subseq b c -> subseq a c.
Proof.
  intros H1 H2. revert a H1. induction H2; intros a' H1.
  - inversion H1. constructor.
  - inversion H1; subst; [constructor|constructor; auto|constructor; auto].
  - constructor. auto.
Qed.
Lemma subseq_In {A} (a b : list A) x : subseq a b -> In x a -> In x b.
Proof. induction 1 as [l|y a b Hs IH|y a b Hs IH]; cbn; intros Hin; [destruct Hin|destruct Hin; auto|auto]. Qed.
Lemma subseq_NoDup {A} (a b : list A) : subseq a b -> NoDup b -> NoDup a.
Proof.
  induction 1; intros Hn; [constructor| |]; inversion Hn; subst; auto.
  constructor; auto. intros Hin. apply H2. eapply subseq_In; eauto.
Qed.

(* the greedy test accepts every subsequence *)
Lemma drop_to_subseq x : forall xs ys, subseq (x :: xs) ys -> exists r, drop_to x ys = Some r /\ subseq xs r.
Proof.
  intros xs ys H. remember (x :: xs) as l eqn:E. revert x xs E. induction H; intros y ys' E; try discriminate.
  - inversion E; subst. exists b. split; [apply drop_to_head|assumption].
  - subst a. cbn [drop_to]. destruct (N.eqb_spec y x) as [->|Hne].
    + exists b. split; [reflexivity|]. eapply subseq_tail; eauto.
    + apply (IHsubseq y ys' eq_refl).
Qed.
Lemma c_is_subseq_complete : forall xs ys, subseq xs ys -> c_is_subseq xs ys = true.
Proof.
  induction xs as [|x xs IH]; intros ys H; [reflexivity|]. cbn [c_is_subseq].
  destruct (drop_to_subseq x xs ys H) as (r & -> & Hr). now apply IH.
Qed.

(* ------------------------------------------------------------------ the concatenation of all threads' deliveries *)
Lemma flat_map_map {A B C} (f : B -> list C) (g : A -> B) l : flat_map f (map g l) = flat_map (fun x => f (g x)) l.
Proof. induction l; cbn; [reflexivity|]. now rewrite IHl. Qed.

Lemma flat_map_ext_in' {A B} (f g : A -> list B) l : (forall x, In x l -> f x = g x) -> flat_map f l = flat_map g l.
Proof. induction l as [|x l IH]; intros H; cbn; [reflexivity|]. rewrite (H x (or_introl eq_refl)), IH; [reflexivity|]. intros y Hy. apply H. now right. Qed.

Lemma all_del_seq t : forall progs res, length progs = length res ->
  all_del t progs res = flat_map (fun i => del_hist t (nth i progs []) (nth i res [])) (seq 0 (length progs)).
Proof.
  induction progs as [|p ps IH]; intros res Hl; destruct res as [|r rs]; try discriminate; [reflexivity|].
  cbn [all_del length seq flat_map nth]. f_equal. rewrite (IH rs) by (cbn in Hl; lia).
  rewrite <- seq_shift, flat_map_map. reflexivity.
Qed.

Lemma NoDup_map_eq {A} (g : A -> N) l a b : NoDup (map g l) -> In a l -> In b l -> g a = g b -> a = b.
Proof.
  induction l as [|x l IH]; intros Hn Ha Hb E; [destruct Ha|]. cbn in Hn. inversion Hn; subst.
  destruct Ha as [->|Ha], Hb as [->|Hb]; auto.
  - exfalso. apply H1. rewrite E. now apply in_map.
  - exfalso. apply H1. rewrite <- E. now apply in_map.
Qed.

(* the per-thread parts of a log whose outs are pairwise distinct are pairwise disjoint *)
Lemma log_parts_nodup (l : list (nat * out)) : NoDup (map (fun x => o_pid (snd x)) l) ->
  forall qs, NoDup qs -> NoDup (map o_pid (flat_map (fun q => log_of q l) qs)).
Proof.
  intros Hn. induction qs as [|q qs IH]; intros Hq; [constructor|]. inversion Hq; subst.
  cbn [flat_map]. rewrite map_app.
  assert (Hpart : forall q', NoDup (map o_pid (log_of q' l))).
  { intros q'. unfold log_of. rewrite map_map. eapply subseq_NoDup; [|exact Hn]. apply subseq_map, subseq_filter_self. }
  assert (Happ : forall (a b : list N), NoDup a -> NoDup b -> (forall x, In x a -> In x b -> False) -> NoDup (a ++ b)).
  { induction a as [|x a IHa]; intros b Ha Hb Hd; [exact Hb|]. inversion Ha; subst. cbn. constructor.
    - intros Hin. apply in_app_or in Hin. destruct Hin as [Hin|Hin]; [contradiction|]. apply (Hd x); [now left|exact Hin].
    - apply IHa; auto. intros y Hy1 Hy2. apply (Hd y); [now right|exact Hy2]. }
  apply Happ; [apply Hpart|apply IH; assumption|].
  intros x Hx1 Hx2. apply in_map_iff in Hx1. destruct Hx1 as (o1 & E1 & Ho1). apply in_map_iff in Hx2. destruct Hx2 as (o2 & E2 & Ho2).
  unfold log_of in Ho1. apply in_map_iff in Ho1. destruct Ho1 as ((q1 & o1') & Eo1 & Hin1). cbn in Eo1. subst o1'.
  apply filter_In in Hin1. destruct Hin1 as (Hin1 & Hq1). cbn in Hq1. apply Nat.eqb_eq in Hq1. subst q1.
  apply in_flat_map in Ho2. destruct Ho2 as (q2 & Hq2 & Ho2). unfold log_of in Ho2. apply in_map_iff in Ho2. destruct Ho2 as ((q2' & o2') & Eo2 & Hin2).
  cbn in Eo2. subst o2'. apply filter_In in Hin2. destruct Hin2 as (Hin2 & Hq2'). cbn in Hq2'. apply Nat.eqb_eq in Hq2'. subst q2'.
  assert (Heq : (q, o1) = (q2, o2)) by (apply (NoDup_map_eq (fun x => o_pid (snd x)) l); auto; cbn; congruence).
  inversion Heq; subst. contradiction.
Qed.


(* ------------------------------------------------------------------ events of programs with peeks *)
Lemma events_of_simpleP tid : forall cls rs,
  Forall (fun cl => simple_callP cl = true) cls -> Forall2 res_ok cls rs ->
  events_of tid cls rs = (apps_of tid cls rs, dels_of tid cls rs, false).
Proof.
  induction cls as [|cl cls IH]; intros rs Hs Hr.
  - inversion Hr. reflexivity.
  - destruct rs as [|r rs]; [inversion Hr|].
    assert (Hr1 : res_ok cl r) by (inversion Hr; assumption).
    assert (Hr2 : Forall2 res_ok cls rs) by (inversion Hr; assumption).
    assert (Hs1 : simple_callP cl = true) by (inversion Hs; assumption).
    assert (Hs2 : Forall (fun cl => simple_callP cl = true) cls) by (inversion Hs; assumption).
    cbn [events_of apps_of dels_of]. rewrite (IH _ Hs2 Hr2).
    destruct cl as [t e|t es|t ck|t mb ck]; cbn in Hs1; try discriminate.
    + destruct r; cbn in Hr1; try contradiction; reflexivity.
    + destruct ck; destruct r; cbn in Hr1; try contradiction; reflexivity.
Qed.

Definition thread_okP (p : list call) (rs : list result) : Prop :=
  Forall (fun cl => simple_callP cl = true) p /\ Forall2 res_ok p rs.

Lemma events_all_simpleP : forall progs res n, Forall2 thread_okP progs res ->
  events_all n progs res = (all_apps n progs res, all_dels n progs res, false).
Proof.
  induction progs as [|p ps IH]; intros res n H; inversion H; subst; [reflexivity|].
  cbn [events_all all_apps all_dels]. destruct H2 as (A & B). rewrite (events_of_simpleP n p y A B), (IH _ (S n) H4). reflexivity.
Qed.

(* ------------------------------------------------------------------ the verdict *)
Theorem invF_accepts c progs cs L :
  Forall (Forall (fun cl => simple_callP cl = true)) progs -> NoDup (offered_pids progs) ->
  INVF c progs cs L -> threads_done cs = true ->
  c05_run_ok progs (cresults cs) false = true.
Proof.
  intros Hsp Hnd Hinv Hdone. pose proof Hinv as [Inext Its Ibf Ilock Ilen Ith Iwin Ilog Imine Iown Iowned].
  set (res := cresults cs). set (n := length progs).
  assert (Hlen : length res = n) by (unfold res, cresults; rewrite map_length; exact Ilen).
  assert (Hfin : forall i, (i < n)%nat -> exists th, nth_error (cs_threads cs) i = Some th /\ th_todo th = [] /\
                   nth i res [] = rev (th_done th) /\ Forall2 res_ok (nth i progs []) (rev (th_done th))).
  { intros i Hi. destruct (nth_error (cs_threads cs) i) as [th|] eqn:E.
    - exists th. split; [reflexivity|].
      assert (Htd : th_todo th = []).
      { unfold threads_done in Hdone. rewrite forallb_forall in Hdone. specialize (Hdone th (nth_error_In _ _ E)). now destruct (th_todo th). }
      split; [exact Htd|]. split.
      + unfold res, cresults. erewrite nth_indep by (rewrite map_length, Ilen; exact Hi).
        rewrite (map_nth (fun th => rev (th_done th)) (cs_threads cs) th i). f_equal. f_equal. now apply nth_error_nth.
      + destruct (Ith i th E) as (_ & _ & (d & H1 & H2)). rewrite Htd, app_nil_r in H1. now subst d.
    - apply nth_error_None in E. unfold n in Hi. lia. }
  assert (Hthok : Forall2 thread_okP progs res).
  { apply (Forall2_nth thread_okP [] []); [now rewrite Hlen|]. intros i Hi. fold n in Hi.
    destruct (Hfin i Hi) as (th & _ & _ & Hr & Hf). split.
    - eapply Forall_forall in Hsp; [exact Hsp|]. apply nth_In. exact Hi.
    - now rewrite Hr. }
  unfold c05_run_ok. fold res. rewrite (events_all_simpleP progs res 0 Hthok). cbn [negb andb].
  unfold c05_ok. apply forallb_forall. intros t _.
  set (S := stream (eff cs t)). set (U := unread c (eff cs t)). set (Lt := L t).
  set (W := fun i => wr_hist t (nth i progs []) (nth i res [])).
  set (D := fun i => del_hist t (nth i progs []) (nth i res [])).
  assert (Fown : forall i, (i < n)%nat -> filter (own (nth i progs [])) S = W i).
  { intros i Hi. destruct (Hfin i Hi) as (th & E & Htd & Hr & Hf). unfold W. rewrite Hr.
    unfold S. rewrite (Iown t i th E). unfold wr_seq, done_of, wr_pending. rewrite Htd. cbn [length]. rewrite Nat.sub_0_r, firstn_all. now rewrite app_nil_r. }
  assert (Fmine : forall i, (i < n)%nat -> D i = log_of i Lt).
  { intros i Hi. destruct (Hfin i Hi) as (th & E & Htd & Hr & Hf). unfold D, Lt. rewrite Hr, (Imine t i th E).
    unfold del_seq, done_of, del_pending. rewrite Htd. cbn [length]. rewrite Nat.sub_0_r, firstn_all. now rewrite app_nil_r. }
  (* the log is a prefix of the stream *)
  pose proof (prefix_of_map out_of (map snd Lt) U S (Ilog t)) as Hpre. set (k := length (map snd Lt)) in Hpre.
  assert (Hnds : NoDup (map e_pid S)).
  { apply (nodup_cover e_pid (fun i => own (nth i progs [])) (seq 0 n) S).
    - intros e He. destruct (Iowned t e He) as (i & Hi & Ho). exists i. split; [apply in_seq; fold n in Hi; lia|exact Ho].
    - intros i x y. apply own_resp.
    - intros i Hi. apply in_seq in Hi. cbn beta. rewrite (Fown i ltac:(lia)). unfold W. apply wr_hist_pids_nodup.
      destruct (offered_pids_nth progs i ltac:(fold n; lia)) as (x & y & E). rewrite E in Hnd.
      apply NoDup_app_r in Hnd. now apply NoDup_app_l in Hnd. }
  assert (Hndk : NoDup (map e_pid (firstn k S))) by (rewrite <- firstn_map; now apply NoDup_firstn).
  assert (Hlogpid : map (fun x => o_pid (snd x)) Lt = map e_pid (firstn k S)).
  { rewrite <- (map_map snd o_pid), Hpre, map_map. reflexivity. }
  (* everything delivered on t, over all threads *)
  assert (HR : all_del t progs res = flat_map (fun q => log_of q Lt) (seq 0 n)).
  { rewrite (all_del_seq t progs res) by (now rewrite Hlen). fold n.
    apply flat_map_ext_in'. intros q Hq. apply in_seq in Hq. fold (D q). apply Fmine. lia. }
  assert (Hsub : forall q, subseq (map o_pid (log_of q Lt)) (map e_pid S)).
  { intros q. unfold log_of. eapply subseq_trans; [apply subseq_map, subseq_map, subseq_filter_self|].
    rewrite Hpre, map_map. change (map (fun x => o_pid (out_of x)) (firstn k S)) with (map e_pid (firstn k S)).
    apply subseq_map, subseq_firstn. }
  assert (Hmem : forall p e, (p < n)%nat -> In e S -> c_memN (e_pid e) (map e_pid (W p)) = own (nth p progs []) e).
  { intros p e Hp He. rewrite <- (Fown p Hp). destruct (own (nth p progs []) e) eqn:Eo.
    - apply memN_In. apply in_map. apply filter_In. split; assumption.
    - destruct (c_memN _ _) eqn:Em; [|reflexivity]. apply memN_In in Em. apply in_map_iff in Em. destruct Em as (e' & Ee & Hin').
      apply filter_In in Hin'. destruct Hin' as (_ & Ho'). rewrite (own_resp _ _ _ Ee) in Ho'. congruence. }
  unfold c05_topic_ok.
  rewrite (acked_all t progs res 0), (delivered_all t progs res 0), HR.
  apply andb_true_intro. split; [apply andb_true_intro; split; [apply andb_true_intro; split|]|].
  - (* whole *)
    apply forallb_forall. intros o Ho. apply in_flat_map in Ho. destruct Ho as (q & _ & Ho).
    unfold log_of in Ho. apply in_map_iff in Ho. destruct Ho as (x & Ex & Hx). apply filter_In in Hx. destruct Hx as (Hx & _).
    assert (Ho : In o (map snd Lt)) by (apply in_map_iff; eauto).
    rewrite Hpre in Ho. apply in_map_iff in Ho. destruct Ho as (e & <- & He).
    assert (HeS : In e S) by (eapply firstn_In; eauto).
    destruct (Iowned t e HeS) as (p & Hp & Hop).
    unfold whole_of. cbn [out_of o_skip o_pid o_len]. apply andb_true_intro. split; [reflexivity|].
    apply existsb_exists. exists e. split; [|now rewrite !N.eqb_refl].
    apply in_all_wr. exists p. fold n. rewrite Hlen. repeat split; try exact Hp.
    fold (W p). rewrite <- (Fown p Hp). apply filter_In. split; assumption.
  - (* once, over all consumers *)
    apply nodupN_NoDup. apply log_parts_nodup; [now rewrite Hlogpid|apply seq_NoDup].
  - reflexivity.
  - (* order and batch contiguity, per consumer thread *)
    apply forallb_forall. intros q _.
    assert (HSq : exists Sq, map o_pid (got_by (all_dels 0 progs res) t q) = Sq /\ subseq Sq (map e_pid S)).
    { rewrite (got_by_all t q progs res 0). fold n. rewrite Hlen.
      destruct ((0 <=? q)%nat && (q <? 0 + n)%nat && (q <? 0 + n)%nat) eqn:Eq; [|eexists; split; [reflexivity|constructor]].
      rewrite Nat.sub_0_r. fold (D q). rewrite (Fmine q ltac:(lia)). eexists. split; [reflexivity|apply Hsub]. }
    destruct HSq as (Sq & -> & HSq).
    apply andb_true_intro. split.
    + apply forallb_forall. intros p _.
      rewrite (sent_by_all t p progs res 0). fold n. rewrite Hlen.
      destruct ((0 <=? p)%nat && (p <? 0 + n)%nat && (p <? 0 + n)%nat) eqn:Ep.
      * rewrite Nat.sub_0_r. fold (W p). assert (Hp : (p < n)%nat) by lia.
        apply c_is_subseq_complete.
        eapply subseq_trans; [apply subseq_filter; exact HSq|].
        rewrite filter_map_comm.
        rewrite (filter_filter_same (fun x => c_memN (e_pid x) (map e_pid (W p))) (own (nth p progs [])) S) by (intros x Hx; now apply Hmem).
        rewrite (Fown p Hp). apply subseq_refl.
      * cbn [map]. rewrite (filter_none (fun x => c_memN x [])); [reflexivity|]. apply Forall_forall. intros; reflexivity.
    + apply forallb_forall. intros ev Hev. unfold apps_on in Hev. apply filter_In in Hev. destruct Hev as (Hev & _).
      pose proof (all_apps_single 0 progs res) as Hs1. eapply Forall_forall in Hs1; [|exact Hev]. destruct Hs1 as (e & ->). cbn [map].
      apply contiguous_single. eapply subseq_NoDup; eauto.
Qed.
