(* CleanP.v — proofs about the clean-marker model (model/Clean.v): in-process behaviour,
   restart behaviour of the code as it is (outside the known class) and with the proposed
   flush on drop (everywhere). *)
From Coq Require Import ZArith ZifyBool ZifyN ZifyNat.
From W Require Import model.Base model.Clean.

(* ---------------------------------------------------------------- keys and maps *)
Lemma k_cmp_refl a : k_cmp a a = Eq.
Proof. induction a as [|x a IH]; cbn [k_cmp]; [reflexivity|]. now rewrite N.compare_refl. Qed.

Lemma k_cmp_eq a : forall b, k_cmp a b = Eq -> a = b.
Proof.
  induction a as [|x a IH]; intros [|y b]; cbn [k_cmp]; intros H; try reflexivity; try discriminate.
  destruct (N.compare x y) eqn:E; try discriminate.
  apply N.compare_eq_iff in E. subst. f_equal. now apply IH.
Qed.

Lemma k_cmp_eq_l a b c : k_cmp a b = Eq -> k_cmp c a = k_cmp c b.
Proof. intros H. apply k_cmp_eq in H. now subst. Qed.

Lemma k_find_upd k v m : forall k',
  k_find k' (k_upd k v m) = match k_cmp k' k with Eq => Some v | _ => k_find k' m end.
Proof.
  induction m as [|[k0 v0] r IH]; intros k'; cbn [k_upd k_find].
  - destruct (k_cmp k' k); reflexivity.
  - destruct (k_cmp k k0) eqn:E; cbn [k_find].
    + rewrite <- (k_cmp_eq_l _ _ k' E). destruct (k_cmp k' k); reflexivity.
    + destruct (k_cmp k' k); reflexivity.
    + rewrite IH. destruct (k_cmp k' k0) eqn:E0; try reflexivity.
      apply k_cmp_eq in E0. subst k0.
      destruct (k_cmp k' k) eqn:E1; try reflexivity.
      apply k_cmp_eq in E1. subst. rewrite k_cmp_refl in E. discriminate.
Qed.

Lemma k_clean_of_upd k v m t :
  k_clean_of (k_upd k v m) t = match k_cmp t k with Eq => cr_clean v | _ => k_clean_of m t end.
Proof. unfold k_clean_of. rewrite k_find_upd. destruct (k_cmp t k); reflexivity. Qed.

Lemma k_mem_add t q : forall t',
  k_mem t' (k_add t q) = match k_cmp t' t with Eq => true | _ => k_mem t' q end.
Proof.
  induction q as [|k0 r IH]; intros t'; cbn [k_add k_mem].
  - destruct (k_cmp t' t); reflexivity.
  - destruct (k_cmp t k0) eqn:E; cbn [k_mem].
    + rewrite (k_cmp_eq_l _ _ t' E). destruct (k_cmp t' k0); reflexivity.
    + destruct (k_cmp t' t); reflexivity.
    + rewrite IH. destruct (k_cmp t' k0) eqn:E0; try reflexivity.
      destruct (k_cmp t' t); reflexivity.
Qed.

Lemma k_find_apply ups : forall store t,
  k_find t (k_apply ups store) =
  match k_find t ups with Some r => Some r | None => k_find t store end.
Proof.
  induction ups as [|[k v] r IH]; intros store t; cbn [k_apply fold_right k_find fst snd]; [reflexivity|].
  rewrite k_find_upd. fold (k_apply r store). rewrite IH.
  destruct (k_cmp t k); reflexivity.
Qed.

Lemma k_find_updates p mem : forall t,
  k_find t (k_updates p mem) = if k_mem t p then k_find t mem else None.
Proof.
  induction p as [|k r IH]; intros t; cbn [k_updates k_mem k_find]; [reflexivity|].
  destruct (k_find k mem) eqn:F; cbn [k_find]; rewrite IH.
  - destruct (k_cmp t k) eqn:E; try reflexivity. apply k_cmp_eq in E. subst. now rewrite F.
  - destruct (k_cmp t k) eqn:E; try reflexivity. apply k_cmp_eq in E. subst. rewrite F.
    destruct (k_mem k r); reflexivity.
Qed.

(* ---------------------------------------------------------------- client calls, memory *)
Lemma k_mark_clean_of t d i t' :
  k_clean_of (ki_mem (k_mark t d i)) t' =
  match k_cmp t' t with Eq => d | _ => k_clean_of (ki_mem i) t' end.
Proof.
  unfold k_mark.
  set (r := match k_find t (ki_mem i) with Some r => r | None => crec_default end).
  assert (Hr : cr_clean r = k_clean_of (ki_mem i) t).
  { unfold r, k_clean_of. destruct (k_find t (ki_mem i)); reflexivity. }
  destruct (Bool.eqb (cr_clean r) d) eqn:E; cbn [ki_mem]; rewrite k_clean_of_upd; cbn [cr_clean].
  - apply Bool.eqb_prop in E. destruct (k_cmp t' t) eqn:C; try reflexivity. exact E.
  - reflexivity.
Qed.

Lemma k_recv_mem i : ki_mem (k_recv i) = ki_mem i.
Proof. unfold k_recv. destruct (ki_phase i); try reflexivity. destruct (ki_queue i); reflexivity. Qed.

Lemma k_snap_mem i : ki_mem (k_snap i) = ki_mem i.
Proof.
  unfold k_snap. destruct (ki_phase i); try reflexivity.
  destruct (k_updates p (ki_mem i)); reflexivity.
Qed.

Lemma k_land_mem s : ki_mem (ks_live (k_land s)) = ki_mem (ks_live s).
Proof. unfold k_land. destruct (ki_phase (ks_live s)); reflexivity. Qed.

Lemma k_oland_live k s : ks_live (k_oland k s) = ks_live s.
Proof. unfold k_oland. destruct (nth_error (ks_orphans s) k); reflexivity. Qed.

Lemma k_tick_mem s : ki_mem (ks_live (k_tick s)) = ki_mem (ks_live s).
Proof. unfold k_tick. rewrite k_land_mem. cbn [with_live ks_live]. now rewrite k_snap_mem, k_recv_mem. Qed.

(* the relation between the model's memory and the demanded state *)
Definition k_rel (s : kst) (f : kspec) : Prop :=
  forall t, k_clean_of (ki_mem (ks_live s)) t = f t.

Lemma k_rel_init : k_rel k_init kspec0.
Proof. intros t. reflexivity. Qed.

Lemma k_rel_mark s f t d :
  k_rel s f -> k_rel (with_live s (k_mark t d (ks_live s))) (kspec_set f t d).
Proof.
  intros R t'. cbn [with_live ks_live]. rewrite k_mark_clean_of. unfold kspec_set.
  destruct (k_cmp t' t); [reflexivity| apply R | apply R].
Qed.

(* steps that are not a shutdown keep the relation, whatever the variant *)
Lemma k_step_in_process v s f o :
  k_no_restart o = true -> k_rel s f ->
  k_rel (fst (k_step v s o)) (kspec_step f o) /\
  snd (k_step v s o) = match o with KIsClean t => Some (f t) | _ => None end.
Proof.
  intros NR R. destruct o; try discriminate NR; cbn [k_step fst snd kspec_step].
  - split; [now apply k_rel_mark|reflexivity].
  - split; [now apply k_rel_mark|reflexivity].
  - split; [now apply k_rel_mark|reflexivity].
  - split; [exact R|]. now rewrite R.
  - split; [|reflexivity]. intros t. cbn [with_live ks_live]. rewrite k_recv_mem. apply R.
  - split; [|reflexivity]. intros t. cbn [with_live ks_live]. rewrite k_snap_mem. apply R.
  - split; [|reflexivity]. intros t. rewrite k_land_mem. apply R.
  - split; [|reflexivity]. intros t. rewrite k_tick_mem. apply R.
  - split; [|reflexivity]. intros t. rewrite k_oland_live. apply R.
Qed.

Lemma kspec_outs_cons f o h :
  kspec_outs f (o :: h) =
  match o with KIsClean t => f t :: kspec_outs f h | _ => kspec_outs (kspec_step f o) h end.
Proof. destruct o; reflexivity. Qed.

Lemma k_run_in_process v : forall h s f,
  forallb k_no_restart h = true -> k_rel s f -> snd (k_run v s h) = kspec_outs f h.
Proof.
  induction h as [|o h IH]; intros s f NR R; [reflexivity|].
  cbn [forallb] in NR. apply andb_prop in NR. destruct NR as [NR1 NR2].
  destruct (k_step_in_process v s f o NR1 R) as [R' O].
  cbn [k_run]. destruct (k_step v s o) as [s1 r] eqn:E. cbn [fst snd] in R', O.
  specialize (IH s1 (kspec_step f o) NR2 R').
  destruct (k_run v s1 h) as [s2 rs] eqn:E2. cbn [snd] in IH |- *.
  rewrite kspec_outs_cons. subst r rs.
  destruct o; try reflexivity.
Qed.

Theorem clean_in_process : forall v h,
  forallb k_no_restart h = true -> k_outs v h = kspec_outs kspec0 h.
Proof. intros v h NR. unfold k_outs. now apply k_run_in_process; [|apply k_rel_init]. Qed.

(* ---------------------------------------------------------------- the disk invariant *)
Ltac kcbn := cbn [with_live ks_live ks_disk ks_orphans ki_mem ki_queue ki_phase ki_store] in *.
Definition k_pending (ph : kphase) (t : str) : bool :=
  match ph with KGot p => k_mem t p | _ => false end.

Record k_inv (s : kst) : Prop := {
  inv_orph : ks_orphans s = [];
  inv_disk : match ki_phase (ks_live s) with
             | KFlying img => img = ki_store (ks_live s)
             | _ => ks_disk s = ki_store (ks_live s)
             end;
  inv_sync : forall t, k_mem t (ki_queue (ks_live s)) = false -> k_pending (ki_phase (ks_live s)) t = false ->
             k_clean_of (ki_store (ks_live s)) t = k_clean_of (ki_mem (ks_live s)) t;
  inv_keys : forall t, k_find t (ki_mem (ks_live s)) = None -> k_find t (ki_store (ks_live s)) = None
}.

Lemma k_inv_open disk : k_inv {| ks_disk := disk; ks_live := k_open disk; ks_orphans := [] |}.
Proof. constructor; cbn; auto. Qed.

Lemma k_inv_init : k_inv k_init.
Proof. apply k_inv_open. Qed.

Lemma k_inv_mark s t d : k_inv s -> k_inv (with_live s (k_mark t d (ks_live s))).
Proof.
  intros [IO ID IS IK]. destruct s as [disk i orph]. kcbn.
  unfold k_mark.
  set (r := match k_find t (ki_mem i) with Some r => r | None => crec_default end).
  assert (Hr : cr_clean r = k_clean_of (ki_mem i) t).
  { unfold r, k_clean_of. destruct (k_find t (ki_mem i)); reflexivity. }
  destruct (Bool.eqb (cr_clean r) d) eqn:E; constructor; kcbn; auto.
  - intros t' Q P. rewrite k_clean_of_upd. rewrite (IS t' Q P).
    destruct (k_cmp t' t) eqn:C; try reflexivity. apply k_cmp_eq in C. now subst.
  - intros t' F. rewrite k_find_upd in F. destruct (k_cmp t' t); try discriminate; now apply IK.
  - intros t' Q P. rewrite k_mem_add in Q. rewrite k_clean_of_upd.
    destruct (k_cmp t' t); try discriminate; now apply IS.
  - intros t' F. rewrite k_find_upd in F. destruct (k_cmp t' t); try discriminate; now apply IK.
Qed.

Lemma k_inv_recv s : k_inv s -> k_inv (with_live s (k_recv (ks_live s))).
Proof.
  intros [IO ID IS IK]. destruct s as [disk i orph]. kcbn.
  unfold k_recv. destruct (ki_phase i) eqn:PH.
  - destruct (ki_queue i) eqn:Q.
    + constructor; kcbn; rewrite ?PH, ?Q; auto.
    + constructor; kcbn; cbn [k_pending]; auto.
  - constructor; kcbn; rewrite ?PH; auto.
  - constructor; kcbn; rewrite ?PH; auto.
Qed.

Lemma k_clean_of_snap p mem store t :
  (forall t, k_find t mem = None -> k_find t store = None) ->
  k_clean_of (k_apply (k_updates p mem) store) t =
  if k_mem t p then k_clean_of mem t else k_clean_of store t.
Proof.
  intros IK. unfold k_clean_of. rewrite k_find_apply, k_find_updates.
  destruct (k_mem t p); [|reflexivity].
  destruct (k_find t mem) eqn:F; [reflexivity|]. now rewrite (IK t F).
Qed.

Lemma k_inv_snap s : k_inv s -> k_inv (with_live s (k_snap (ks_live s))).
Proof.
  intros [IO ID IS IK]. destruct s as [disk i orph]. kcbn.
  unfold k_snap. destruct (ki_phase i) eqn:PH;
    try (constructor; kcbn; rewrite ?PH; auto; fail).
  cbn [k_pending] in IS.
  assert (SY : forall t, k_mem t (ki_queue i) = false ->
               k_clean_of (k_apply (k_updates p (ki_mem i)) (ki_store i)) t = k_clean_of (ki_mem i) t).
  { intros t Q. rewrite k_clean_of_snap by exact IK.
    destruct (k_mem t p) eqn:M; [reflexivity|]. now apply IS. }
  assert (KE : forall t, k_find t (ki_mem i) = None ->
               k_find t (k_apply (k_updates p (ki_mem i)) (ki_store i)) = None).
  { intros t F. rewrite k_find_apply, k_find_updates, F. destruct (k_mem t p); now apply IK. }
  destruct (k_updates p (ki_mem i)) as [|u ups] eqn:U.
  - cbn [k_apply fold_right] in SY. constructor; kcbn; cbn [k_pending]; auto.
  - constructor; kcbn; cbn [k_pending]; auto.
Qed.

Lemma k_inv_land s : k_inv s -> k_inv (k_land s).
Proof.
  intros [IO ID IS IK]. destruct s as [disk i orph]. kcbn.
  unfold k_land. cbn [ks_live]. destruct (ki_phase i) eqn:PH;
    try (constructor; kcbn; rewrite ?PH; auto; fail).
Qed.

Lemma k_inv_oland k s : k_inv s -> k_oland k s = s.
Proof.
  intros [IO _ _ _]. unfold k_oland. rewrite IO. destruct k; reflexivity.
Qed.

Lemma k_tick_unfold s :
  k_tick s = k_land (with_live (with_live s (k_recv (ks_live s)))
                               (k_snap (ks_live (with_live s (k_recv (ks_live s)))))).
Proof. reflexivity. Qed.

Lemma k_inv_tick s : k_inv s -> k_inv (k_tick s).
Proof. intros I. rewrite k_tick_unfold. now apply k_inv_land, k_inv_snap, k_inv_recv. Qed.

(* ---------------------------------------------------------------- shutdown + open *)
Lemma k_land_not_flying s : match ki_phase (ks_live (k_land s)) with KFlying _ => False | _ => True end.
Proof. unfold k_land. destruct (ki_phase (ks_live s)) eqn:PH; cbn [ks_live ki_phase]; rewrite ?PH; exact I. Qed.

Lemma k_reopen_ok v sp s f :
  k_inv s -> k_rel s f -> (v = KFlush \/ k_quiet s = true) ->
  k_inv (k_reopen v sp s) /\ k_rel (k_reopen v sp s) f.
Proof.
  intros I R H. destruct v.
  - destruct H as [H|Q]; [discriminate|].
    destruct I as [IO ID IS IK]. unfold k_quiet in Q. unfold k_reopen.
    destruct (ki_queue (ks_live s)) eqn:EQ; try discriminate.
    destruct (ki_phase (ks_live s)) eqn:EP; try discriminate.
    rewrite IO. replace (if sp then [] else []) with (@nil cmap) by (destruct sp; reflexivity).
    split; [apply k_inv_open|].
    intros t. cbn [ks_live k_open ki_mem]. rewrite ID. rewrite <- R. apply IS; reflexivity.
  - clear H. pose proof (k_inv_land s I) as I1.
    assert (R1 : k_rel (k_land s) f) by (intros t; rewrite k_land_mem; apply R).
    pose proof (k_land_not_flying s) as NF.
    unfold k_reopen. set (s1 := k_land s) in *. destruct I1 as [IO ID IS IK].
    assert (D : ks_disk s1 = ki_store (ks_live s1)).
    { destruct (ki_phase (ks_live s1)); [exact ID|exact ID|contradiction]. }
    set (disk' := match ki_mem (ks_live s1) with [] => ks_disk s1 | _ => k_flush_img (ki_store (ks_live s1)) (ki_mem (ks_live s1)) end).
    assert (C : forall t, k_clean_of disk' t = k_clean_of (ki_mem (ks_live s1)) t).
    { intros t. unfold disk'. destruct (ki_mem (ks_live s1)) as [|kv m] eqn:EM.
      - rewrite D. unfold k_clean_of. rewrite (IK t) by reflexivity. reflexivity.
      - unfold k_clean_of, k_flush_img. rewrite k_find_apply.
        destruct (k_find t (kv :: m)) eqn:F; [reflexivity|]. now rewrite (IK t F). }
    rewrite IO. replace (if sp then [] else []) with (@nil cmap) by (destruct sp; reflexivity).
    split; [apply k_inv_open|].
    intros t. cbn [ks_live k_open ki_mem]. rewrite C. apply R1.
Qed.

Lemma k_step_ok v s f o :
  k_inv s -> k_rel s f -> (k_no_restart o = true \/ v = KFlush \/ k_quiet s = true) ->
  k_inv (fst (k_step v s o)) /\ k_rel (fst (k_step v s o)) (kspec_step f o) /\
  snd (k_step v s o) = match o with KIsClean t => Some (f t) | _ => None end.
Proof.
  intros I R H.
  destruct (k_no_restart o) eqn:NR.
  - destruct (k_step_in_process v s f o NR R) as [R' O]. split; [|split; assumption].
    destruct o; try discriminate NR; cbn [k_step fst].
    + now apply k_inv_mark.
    + now apply k_inv_mark.
    + now apply k_inv_mark.
    + exact I.
    + now apply k_inv_recv.
    + now apply k_inv_snap.
    + now apply k_inv_land.
    + now apply k_inv_tick.
    + now rewrite k_inv_oland.
  - assert (H' : v = KFlush \/ k_quiet s = true) by (destruct H as [H|H]; [discriminate|exact H]).
    destruct o; try discriminate NR; cbn [k_step fst snd kspec_step].
    + destruct (k_reopen_ok v true s f I R H') as [I' R']. auto.
    + destruct (k_reopen_ok v false s f I R H') as [I' R']. auto.
Qed.

Lemma k_run_ok v : forall h s f,
  k_inv s -> k_rel s f -> (v = KFlush \/ k_settled v s h = true) ->
  snd (k_run v s h) = kspec_outs f h.
Proof.
  induction h as [|o h IH]; intros s f I R H; [reflexivity|].
  assert (H1 : k_no_restart o = true \/ v = KFlush \/ k_quiet s = true).
  { destruct H as [H|H]; [auto|]. cbn [k_settled] in H. apply andb_prop in H. destruct H as [H _].
    destruct (k_no_restart o); auto. }
  assert (H2 : v = KFlush \/ k_settled v (fst (k_step v s o)) h = true).
  { destruct H as [H|H]; [auto|]. cbn [k_settled] in H. apply andb_prop in H. destruct H as [_ H]. auto. }
  destruct (k_step_ok v s f o I R H1) as [I' [R' O]].
  cbn [k_run]. destruct (k_step v s o) as [s1 r] eqn:E. cbn [fst snd] in I', R', O, H2.
  specialize (IH s1 (kspec_step f o) I' R' H2).
  destruct (k_run v s1 h) as [s2 rs] eqn:E2. cbn [snd] in IH |- *.
  rewrite kspec_outs_cons. subst r rs.
  destruct o; try reflexivity.
Qed.

(* the code as it is: every history whose shutdowns all happen in a quiet state *)
Theorem clean_outside_known : forall h,
  k_settled KPinned k_init h = true -> k_outs KPinned h = kspec_outs kspec0 h.
Proof.
  intros h H. unfold k_outs. apply k_run_ok; [apply k_inv_init|apply k_rel_init|now right].
Qed.

(* with the proposed flush on drop: every history *)
Theorem clean_restart_flush : forall h, k_outs KFlush h = kspec_outs kspec0 h.
Proof.
  intros h. unfold k_outs. apply k_run_ok; [apply k_inv_init|apply k_rel_init|now left].
Qed.

(* ---------------------------------------------------------------- the syntactic class *)
Definition k_idle (s : kst) (pc : bool) : Prop :=
  ki_phase (ks_live s) = KIdle /\ ks_orphans s = [] /\ (pc = false -> ki_queue (ks_live s) = []).

Lemma k_mark_phase t d i : ki_phase (k_mark t d i) = ki_phase i.
Proof. unfold k_mark. destruct (Bool.eqb _ d); reflexivity. Qed.

Lemma k_tick_idle s : ki_phase (ks_live s) = KIdle ->
  ki_phase (ks_live (k_tick s)) = KIdle /\ ki_queue (ks_live (k_tick s)) = [] /\ ks_orphans (k_tick s) = ks_orphans s.
Proof.
  intros P. destruct s as [disk [mem q ph store] orph]. cbn [ks_live ki_phase] in P. subst ph.
  unfold k_tick, k_recv. cbn [ks_live with_live ks_disk ks_orphans ki_phase ki_queue ki_mem ki_store].
  destruct q as [|q0 q].
  - cbn. auto.
  - unfold k_snap. cbn [ki_phase ki_mem ki_queue ki_store].
    destruct (k_updates (q0 :: q) mem); cbn; auto.
Qed.

Lemma k_tick_separated_settled : forall h s pc,
  k_idle s pc -> k_tick_separated pc h = true -> k_settled KPinned s h = true.
Proof.
  induction h as [|o h IH]; intros s pc [P [O Q]] T; [reflexivity|].
  cbn [k_settled]. destruct o; cbn [k_tick_separated] in T; cbn [k_no_restart k_step fst]; try discriminate T.
  - apply (IH _ true); [|exact T]. repeat split; cbn [with_live ks_live ks_orphans]; rewrite ?k_mark_phase; auto. discriminate.
  - apply (IH _ true); [|exact T]. repeat split; cbn [with_live ks_live ks_orphans]; rewrite ?k_mark_phase; auto. discriminate.
  - apply (IH _ true); [|exact T]. repeat split; cbn [with_live ks_live ks_orphans]; rewrite ?k_mark_phase; auto. discriminate.
  - apply (IH _ pc); [|exact T]. repeat split; auto.
  - apply andb_prop in T. destruct T as [T1 T2]. apply Bool.negb_true_iff in T1. subst pc.
    unfold k_quiet. rewrite (Q eq_refl), P, O. cbn [andb].
    apply (IH _ false); [|exact T2]. unfold k_reopen. rewrite P, O. repeat split; reflexivity.
  - apply andb_prop in T. destruct T as [T1 T2]. apply Bool.negb_true_iff in T1. subst pc.
    unfold k_quiet. rewrite (Q eq_refl), P, O. cbn [andb].
    apply (IH _ false); [|exact T2]. unfold k_reopen. repeat split; reflexivity.
  - destruct (k_tick_idle s P) as [P' [Q' O']].
    apply (IH _ false); [|exact T]. repeat split; auto. now rewrite O'.
Qed.

Theorem clean_tick_separated : forall h,
  k_tick_separated false h = true -> k_outs KPinned h = kspec_outs kspec0 h.
Proof.
  intros h T. apply clean_outside_known. apply (k_tick_separated_settled h k_init false); [|exact T].
  repeat split; reflexivity.
Qed.

(* ---------------------------------------------------------------- the defect, for every topic *)
(* a change followed at once by a clean shutdown is forgotten *)
Theorem clean_lost_before_tick : forall t,
  k_outs KPinned [KAppend t; KReopen; KIsClean t] = [true] /\
  kspec_outs kspec0 [KAppend t; KReopen; KIsClean t] = [false] /\
  k_outs KPinned [KAppend t; KTick; KMarkClean t; KRestart; KIsClean t] = [false] /\
  kspec_outs kspec0 [KAppend t; KTick; KMarkClean t; KRestart; KIsClean t] = [true].
Proof.
  intros t. split; [reflexivity|]. split; [|split].
  - cbn [kspec_outs kspec_step]. unfold kspec_set. now rewrite k_cmp_refl.
  - unfold k_outs. cbn. rewrite ?k_cmp_refl. cbn.
    unfold k_tick, k_recv, k_snap, k_land, k_clean_of. cbn. rewrite ?k_cmp_refl. cbn. rewrite ?k_cmp_refl. reflexivity.
  - cbn [kspec_outs kspec_step]. unfold kspec_set. now rewrite k_cmp_refl.
Qed.

Theorem clean_pinned_not_full : ~ C17_full KPinned.
Proof.
  intros F. specialize (F [KAppend [116]; KReopen; KIsClean [116]]). vm_compute in F. discriminate.
Qed.

Theorem clean_outside_known' : forall h, ~ c17_known h -> k_outs KPinned h = kspec_outs kspec0 h.
Proof.
  intros h NK. apply clean_outside_known. unfold c17_known in NK.
  destruct (k_settled KPinned k_init h); [reflexivity|]. now elim NK.
Qed.

(* the second mechanism: a persister that had taken its snapshot when the instance was dropped
   writes its (old) image of the whole file later, over whatever a newer instance wrote *)
Theorem clean_late_write :
  let a := [97] in let b := [98] in
  k_outs KPinned [KMarkDirty a; KRecv; KSnap; KReopen; KIsClean a; KOLand 0; KIsClean a; KReopen; KIsClean a]
    = [true; true; false] /\
  k_outs KPinned [KMarkDirty a; KRecv; KSnap; KReopen; KMarkDirty b; KTick; KIsClean b; KOLand 0; KReopen; KIsClean b]
    = [false; true] /\
  kspec_outs kspec0 [KMarkDirty a; KRecv; KSnap; KReopen; KMarkDirty b; KTick; KIsClean b; KOLand 0; KReopen; KIsClean b]
    = [false; false] /\
  k_tick_separated false [KMarkDirty b; KTick; KIsClean b; KReopen; KIsClean b] = true.
Proof. vm_compute. repeat split; reflexivity. Qed.
