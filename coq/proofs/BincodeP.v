(* Proofs about model/Bincode.v: decode (encode x ++ rest) = (x, rest), for every listing
   order of the maps. *)
From W Require Import model.Base model.Utf8 model.Map model.Bincode proofs.MapP.
From Coq Require Import Permutation ZArith ZifyBool ZifyN ZifyNat.
Ltac Zify.zify_post_hook ::= Z.div_mod_to_equations.

(* ---------- little-endian integers ---------- *)
Fixpoint pow256 (k : nat) : N := match k with O => 1 | S k' => 256 * pow256 k' end.

Lemma le_bytes_length (k : nat) : forall n : N, length (le_bytes k n) = k.
Proof. induction k as [|k IH]; intros n; cbn [le_bytes length]; [reflexivity|]. now rewrite IH. Qed.

Lemma le_val_bytes (k : nat) : forall n : N, n < pow256 k -> le_val (le_bytes k n) = n.
Proof.
  induction k as [|k IH]; intros n H; cbn [le_bytes le_val pow256] in *.
  - lia.
  - rewrite IH by lia. lia.
Qed.

Lemma le_bytes_ok (k : nat) : forall n : N, Forall (fun b => b < 256) (le_bytes k n).
Proof. induction k as [|k IH]; intros n; cbn [le_bytes]; constructor; [lia|apply IH]. Qed.

Lemma le_val_bound bs : Forall (fun b => b < 256) bs -> le_val bs < pow256 (length bs).
Proof.
  induction 1 as [|b r Hb Hr IH]; cbn [le_val pow256 length]; [lia|]. lia.
Qed.

Lemma take_app a : forall r, take (length a) (a ++ r) = Some (a, r).
Proof. induction a as [|x a IH]; intros r; cbn [length take app]; [reflexivity|]. now rewrite IH. Qed.

Lemma take_spec (k : nat) : forall (bs a r : list N), take k bs = Some (a, r) -> bs = a ++ r /\ length a = k.
Proof.
  induction k as [|k IH]; intros bs a r H; cbn [take] in H.
  - inversion H; subst. auto.
  - destruct bs as [|b bs]; [discriminate|]. destruct (take k bs) as [[a' r']|] eqn:E; [|discriminate].
    inversion H; subst. destruct (IH _ _ _ E) as [-> <-]. auto.
Qed.

Lemma pow256_8 : pow256 8 = two64.
Proof. reflexivity. Qed.

Lemma dec_u64_enc n r : n < two64 -> dec_u64 (enc_u64 n ++ r) = Some (n, r).
Proof.
  intros H. unfold dec_u64, enc_u64.
  replace 8%nat with (length (le_bytes 8 n)) at 1 by apply le_bytes_length.
  rewrite take_app. rewrite le_val_bytes; [reflexivity|]. now rewrite pow256_8.
Qed.

Lemma dec_u32_enc n r : n < 4294967296 -> dec_u32 (enc_u32 n ++ r) = Some (n, r).
Proof.
  intros H. unfold dec_u32, enc_u32.
  replace 4%nat with (length (le_bytes 4 n)) at 1 by apply le_bytes_length.
  rewrite take_app. rewrite le_val_bytes; [reflexivity|]. exact H.
Qed.

Lemma dec_u64_bound bs n r : Forall (fun b => b < 256) bs -> dec_u64 bs = Some (n, r) ->
  n < two64 /\ Forall (fun b => b < 256) r /\ (length r <= length bs)%nat.
Proof.
  intros Hb H. unfold dec_u64 in H. destruct (take 8 bs) as [[a r']|] eqn:E; [|discriminate].
  inversion H; subst. destruct (take_spec _ _ _ _ E) as [-> L].
  apply Forall_app in Hb. destruct Hb as [Ha Hr]. repeat split; auto.
  - pose proof (le_val_bound a Ha) as B. rewrite L, pow256_8 in B. exact B.
  - rewrite app_length. lia.
Qed.

(* ---------- UTF-8 ---------- *)
Lemma utf8_dec1_enc1 c r : is_scalar c = true -> utf8_dec1 (utf8_enc1 c ++ r) = Some (c, r).
Proof.
  unfold is_scalar, utf8_enc1. intros H.
  destruct (c <? 128) eqn:E1; [cbn [app utf8_dec1]; now rewrite E1|].
  destruct (c <? 2048) eqn:E2.
  - cbn [app utf8_dec1]. unfold is_cont.
    replace (192 + c / 64 <? 128) with false by lia.
    replace (192 + c / 64 <? 194) with false by lia.
    replace (192 + c / 64 <? 224) with true by lia.
    replace ((128 <=? 128 + c mod 64) && (128 + c mod 64 <? 192)) with true by lia.
    f_equal. f_equal. lia.
  - destruct (c <? 65536) eqn:E3.
    + cbn [app utf8_dec1]. unfold is_cont.
      replace (224 + c / 4096 <? 128) with false by lia.
      replace (224 + c / 4096 <? 194) with false by lia.
      replace (224 + c / 4096 <? 224) with false by lia.
      replace (224 + c / 4096 <? 240) with true by lia.
      replace ((128 <=? 128 + (c / 64) mod 64) && (128 + (c / 64) mod 64 <? 192)) with true by lia.
      replace ((128 <=? 128 + c mod 64) && (128 + c mod 64 <? 192)) with true by lia.
      cbn [andb].
      assert (Ec : (224 + c / 4096 - 224) * 4096 + (128 + (c / 64) mod 64 - 128) * 64 + (128 + c mod 64 - 128) = c) by lia.
      rewrite Ec.
      replace ((c <? 2048) || (55295 <? c) && (c <? 57344)) with false by lia.
      reflexivity.
    + cbn [app utf8_dec1]. unfold is_cont.
      replace (240 + c / 262144 <? 128) with false by lia.
      replace (240 + c / 262144 <? 194) with false by lia.
      replace (240 + c / 262144 <? 224) with false by lia.
      replace (240 + c / 262144 <? 240) with false by lia.
      replace (240 + c / 262144 <? 245) with true by lia.
      replace ((128 <=? 128 + (c / 4096) mod 64) && (128 + (c / 4096) mod 64 <? 192)) with true by lia.
      replace ((128 <=? 128 + (c / 64) mod 64) && (128 + (c / 64) mod 64 <? 192)) with true by lia.
      replace ((128 <=? 128 + c mod 64) && (128 + c mod 64 <? 192)) with true by lia.
      cbn [andb].
      assert (Ec : (240 + c / 262144 - 240) * 262144 + (128 + (c / 4096) mod 64 - 128) * 4096
                   + (128 + (c / 64) mod 64 - 128) * 64 + (128 + c mod 64 - 128) = c) by lia.
      rewrite Ec.
      replace ((c <? 65536) || (1114111 <? c)) with false by lia.
      reflexivity.
Qed.

Lemma utf8_enc1_nonempty c : utf8_enc1 c <> [].
Proof. unfold utf8_enc1. destruct (c <? 128); [discriminate|]. destruct (c <? 2048); [discriminate|]. destruct (c <? 65536); discriminate. Qed.

Lemma utf8_enc1_len c : (1 <= length (utf8_enc1 c) <= 4)%nat.
Proof. unfold utf8_enc1. destruct (c <? 128); [cbn; lia|]. destruct (c <? 2048); [cbn; lia|]. destruct (c <? 65536); cbn; lia. Qed.

Lemma utf8_decode_fuel_encode s : Forall (fun c => is_scalar c = true) s ->
  forall f, (length (utf8_encode s) <= f)%nat -> utf8_decode_fuel f (utf8_encode s) = Some s.
Proof.
  induction 1 as [|c r Hc Hr IH]; intros f Hf; cbn [utf8_encode].
  - destruct f; reflexivity.
  - cbn [utf8_encode] in Hf. rewrite app_length in Hf. pose proof (utf8_enc1_len c) as L.
    destruct f as [|f]; [lia|].
    destruct (utf8_enc1 c ++ utf8_encode r) as [|b0 rest] eqn:E.
    { apply app_eq_nil in E. destruct E as [E _]. now apply utf8_enc1_nonempty in E. }
    cbn [utf8_decode_fuel]. rewrite <- E. rewrite (utf8_dec1_enc1 c _ Hc). rewrite IH by lia. reflexivity.
Qed.

Lemma utf8_decode_encode s : Forall (fun c => is_scalar c = true) s -> utf8_decode (utf8_encode s) = Some s.
Proof. intros H. unfold utf8_decode. now apply utf8_decode_fuel_encode. Qed.

(* ---------- strings ---------- *)
Lemma dec_str_enc s r : str_ok s -> dec_str (enc_str s ++ r) = Some (s, r).
Proof.
  intros [Hs Hl]. unfold dec_str, enc_str. cbn zeta. rewrite <- app_assoc. rewrite dec_u64_enc by exact Hl.
  replace (N.of_nat (length (utf8_encode s ++ r)) <? N.of_nat (length (utf8_encode s))) with false
    by (rewrite app_length; lia).
  rewrite Nat2N.id, take_app, utf8_decode_encode by exact Hs. reflexivity.
Qed.

Lemma enc_str_len s : (8 <= length (enc_str s))%nat.
Proof. unfold enc_str. cbn zeta. rewrite app_length. unfold enc_u64. rewrite le_bytes_length. lia. Qed.

(* ---------- maps ---------- *)
Lemma dec_entries_enc {K V : Type} (ek : K -> list N) (ev : V -> list N) dk dv cmp (cv : V -> V) (l : list (K * V)) :
  (forall kv, In kv l -> forall r, dk (ek (fst kv) ++ r) = Some (fst kv, r)) ->
  (forall kv, In kv l -> forall r, dv (ev (snd kv) ++ r) = Some (cv (snd kv), r)) ->
  forall rest acc,
  dec_entries dk dv cmp (length l) (flat_map (fun kv => ek (fst kv) ++ ev (snd kv)) l ++ rest) acc
  = Some (fold_left (fun m kv => ins cmp (fst kv) (snd kv) m) (map (fun kv => (fst kv, cv (snd kv))) l) acc, rest).
Proof.
  induction l as [|[k v] l IH]; intros Hk Hv rest acc; cbn [length flat_map dec_entries map fold_left app]; [reflexivity|].
  cbn [fst snd]. rewrite <- !app_assoc.
  rewrite (Hk (k, v) (or_introl eq_refl)). cbn [fst]. rewrite (Hv (k, v) (or_introl eq_refl)). cbn [snd].
  apply IH; intros kv Hin; [apply Hk|apply Hv]; now right.
Qed.

Lemma flat_map_len {A} (f : A -> list N) (l : list A) :
  (forall x, In x l -> (1 <= length (f x))%nat) -> (length l <= length (flat_map f l))%nat.
Proof.
  induction l as [|x l IH]; intros H; cbn [flat_map length]; [lia|].
  rewrite app_length. specialize (H x (or_introl eq_refl)) as Hx.
  assert (length l <= length (flat_map f l))%nat by (apply IH; intros y Hy; apply H; now right). lia.
Qed.

Lemma dec_map_enc {K V : Type} (ek : K -> list N) (ev : V -> list N) dk dv cmp (cv : V -> V) (l : list (K * V)) rest :
  N.of_nat (length l) < two64 ->
  (forall kv, In kv l -> (1 <= length (ek (fst kv)))%nat) ->
  (forall kv, In kv l -> forall r, dk (ek (fst kv) ++ r) = Some (fst kv, r)) ->
  (forall kv, In kv l -> forall r, dv (ev (snd kv) ++ r) = Some (cv (snd kv), r)) ->
  dec_map dk dv cmp (enc_map ek ev l ++ rest)
  = Some (of_list cmp (map (fun kv => (fst kv, cv (snd kv))) l), rest).
Proof.
  intros Hl H1 Hk Hv. unfold dec_map, enc_map. rewrite <- app_assoc. rewrite dec_u64_enc by exact Hl.
  assert (L : (length l <= length (flat_map (fun kv => ek (fst kv) ++ ev (snd kv)) l))%nat).
  { apply flat_map_len. intros kv Hin. rewrite app_length. specialize (H1 kv Hin). lia. }
  replace (N.of_nat (length (flat_map (fun kv => ek (fst kv) ++ ev (snd kv)) l ++ rest)) <? N.of_nat (length l))
    with false by (rewrite app_length; lia).
  rewrite Nat2N.id. unfold of_list. now apply dec_entries_enc.
Qed.

Lemma enc_u64_len n : length (enc_u64 n) = 8%nat.
Proof. apply le_bytes_length. Qed.

Lemma map_id_pair {K V} (l : list (K * V)) : map (fun kv => (fst kv, snd kv)) l = l.
Proof. induction l as [|[k v] l IH]; cbn; [reflexivity|]. now rewrite IH. Qed.

Lemma dec_nmap_enc l rest : nmap_ok l -> dec_nmap (enc_nmap l ++ rest) = Some (of_list N.compare l, rest).
Proof.
  intros [Hf Hl]. unfold dec_nmap, enc_nmap. rewrite Forall_forall in Hf.
  rewrite (dec_map_enc enc_u64 enc_u64 dec_u64 dec_u64 N.compare (fun v => v) l rest Hl).
  - now rewrite map_id_pair.
  - intros kv _. rewrite enc_u64_len. lia.
  - intros kv Hin r. apply dec_u64_enc. apply (Hf kv Hin).
  - intros kv Hin r. apply dec_u64_enc. apply (Hf kv Hin).
Qed.

(* ---------- TopicState / ClusterState ---------- *)
Lemma dec_topic_enc t rest : topic_wf t -> dec_topic (enc_topic t ++ rest) = Some (canon_topic t, rest).
Proof.
  intros (H1 & H2 & H3 & H4 & H5). unfold dec_topic, enc_topic. rewrite <- !app_assoc.
  rewrite dec_u64_enc by exact H1. rewrite dec_u64_enc by exact H2. rewrite dec_u64_enc by exact H3.
  rewrite dec_nmap_enc by exact H4. rewrite dec_nmap_enc by exact H5. reflexivity.
Qed.

Lemma dec_cluster_enc c rest : cluster_wf c -> dec_cluster (enc_cluster c ++ rest) = Some (canon_cluster c, rest).
Proof.
  intros (H1 & H2 & H3 & H4). unfold dec_cluster, enc_cluster. rewrite <- app_assoc.
  rewrite Forall_forall in H1, H3.
  rewrite (dec_map_enc enc_str enc_topic dec_str dec_topic str_cmp canon_topic (c_topics c) _ H2).
  - rewrite (dec_map_enc enc_u64 enc_str dec_u64 dec_str N.compare (fun v => v) (c_nodes c) rest H4).
    + rewrite map_id_pair. reflexivity.
    + intros kv _. rewrite enc_u64_len. lia.
    + intros kv Hin r. apply dec_u64_enc. apply (H3 kv Hin).
    + intros kv Hin r. apply dec_str_enc. apply (H3 kv Hin).
  - intros kv _. pose proof (enc_str_len (fst kv)). lia.
  - intros kv Hin r. apply dec_str_enc. apply (H1 kv Hin).
  - intros kv Hin r. apply dec_topic_enc. apply (H1 kv Hin).
Qed.

(* ---------- every listing of a sorted state denotes that state ---------- *)
Lemma canon_topic_listing l t : topic_sorted t -> topic_listing l t -> canon_topic l = t.
Proof.
  intros [S1 S2] (E1 & E2 & E3 & P1 & P2). unfold canon_topic. destruct t as [c ld la se le]. cbn in *.
  rewrite E1, E2, E3. rewrite (of_list_perm N_cmp_ok _ _ S1 P1), (of_list_perm N_cmp_ok _ _ S2 P2). reflexivity.
Qed.

Lemma canon_cluster_listing l c : cluster_sorted c -> cluster_listing l c -> canon_cluster l = c.
Proof.
  intros (S1 & S2 & S3) [[mid [P1 F]] P2]. unfold canon_cluster. destruct c as [ts ns]. cbn [c_topics c_nodes] in *.
  rewrite (of_list_perm N_cmp_ok _ _ S2 P2). f_equal.
  apply (of_list_perm str_cmp_ok _ _ S1).
  eapply perm_trans; [apply Permutation_map; exact P1|].
  assert (E : map (fun nt => (fst nt, canon_topic (snd nt))) mid = ts).
  { clear P1 S1. induction F as [|a b mid' ts' [Ea Ta] F IH]; [reflexivity|].
    cbn [map]. inversion S3 as [|? ? Sb S3']; subst. rewrite (IH S3'). f_equal.
    destruct a as [na ta], b as [nb tb]. cbn [fst snd] in *. subst nb. f_equal. now apply canon_topic_listing. }
  rewrite E. apply Permutation_refl.
Qed.

Lemma topic_listing_refl t : topic_listing t t.
Proof. unfold topic_listing. repeat split; apply Permutation_refl. Qed.

Lemma cluster_listing_refl c : cluster_listing c c.
Proof.
  split; [|apply Permutation_refl]. exists (c_topics c). split; [apply Permutation_refl|].
  induction (c_topics c) as [|x l IH]; constructor; auto. split; [reflexivity|apply topic_listing_refl].
Qed.

(* the main round trip *)
Lemma codec_roundtrip s l rest :
  cluster_sorted s -> cluster_wf l -> cluster_listing l s ->
  dec_cluster (enc_cluster l ++ rest) = Some (s, rest).
Proof. intros Hs Hw Hl. rewrite dec_cluster_enc by exact Hw. now rewrite (canon_cluster_listing l s Hs Hl). Qed.

(* commands *)
Definition cmd_wf (c : cmd) : Prop :=
  match c with
  | CreateTopic name l => str_ok name /\ l < two64
  | RolloverTopic name l n => str_ok name /\ l < two64 /\ n < two64
  | UpsertNode id addr => id < two64 /\ str_ok addr
  end.

Lemma dec_cmd_enc c rest : cmd_wf c -> dec_cmd (enc_cmd c ++ rest) = Some (c, rest).
Proof.
  destruct c as [name l|name l n|id addr]; cbn [cmd_wf enc_cmd]; intros H; unfold dec_cmd; rewrite <- !app_assoc.
  - destruct H as [H1 H2]. rewrite dec_u32_enc by lia. cbn [N.eqb].
    change (0 =? 0) with true. cbv iota. rewrite dec_str_enc by exact H1. now rewrite dec_u64_enc by exact H2.
  - destruct H as (H1 & H2 & H3). rewrite dec_u32_enc by lia.
    change (1 =? 0) with false. change (1 =? 1) with true. cbv iota.
    rewrite dec_str_enc by exact H1. rewrite dec_u64_enc by exact H2. now rewrite dec_u64_enc by exact H3.
  - destruct H as [H1 H2]. rewrite dec_u32_enc by lia.
    change (2 =? 0) with false. change (2 =? 1) with false. change (2 =? 2) with true. cbv iota.
    rewrite dec_u64_enc by exact H1. now rewrite dec_str_enc by exact H2.
Qed.

(* ---------- whatever decodes is in canonical form ---------- *)
Lemma dec_entries_sorted {K V : Type} dk dv (cmp : K -> K -> comparison) (ok : cmp_ok cmp) (P : V -> Prop) :
  (forall bs v r, dv bs = Some (v, r) -> P v) ->
  forall n bs (acc m : list (K * V)) r,
  sortedb cmp acc = true -> Forall (fun kv => P (snd kv)) acc ->
  dec_entries dk dv cmp n bs acc = Some (m, r) ->
  sortedb cmp m = true /\ Forall (fun kv => P (snd kv)) m.
Proof.
  intros HP. induction n as [|n IH]; intros bs acc m r Hs Hf H; cbn [dec_entries] in H.
  - inversion H; subst. auto.
  - destruct (dk bs) as [[k r1]|]; [|discriminate]. destruct (dv r1) as [[v r2]|] eqn:Ev; [|discriminate].
    apply (IH _ _ _ _ (sorted_ins ok k v acc Hs)) in H; [exact H|].
    apply Forall_ins; [cbn; eapply HP; eauto|exact Hf].
Qed.

Lemma dec_map_sorted {K V : Type} dk dv (cmp : K -> K -> comparison) (ok : cmp_ok cmp) (P : V -> Prop) bs (m : list (K * V)) r :
  (forall bs v r, dv bs = Some (v, r) -> P v) ->
  dec_map dk dv cmp bs = Some (m, r) -> sortedb cmp m = true /\ Forall (fun kv => P (snd kv)) m.
Proof.
  intros HP H. unfold dec_map in H. destruct (dec_u64 bs) as [[n r0]|]; [|discriminate].
  destruct (N.of_nat (length r0) <? n); [discriminate|].
  eapply (dec_entries_sorted dk dv cmp ok P HP); [| |exact H]; [reflexivity|constructor].
Qed.

Lemma dec_topic_sorted bs t r : dec_topic bs = Some (t, r) -> topic_sorted t.
Proof.
  unfold dec_topic. intros H.
  destruct (dec_u64 bs) as [[c r1]|]; [|discriminate]. destruct (dec_u64 r1) as [[l r2]|]; [|discriminate].
  destruct (dec_u64 r2) as [[la r3]|]; [|discriminate].
  destruct (dec_nmap r3) as [[se r4]|] eqn:E1; [|discriminate]. destruct (dec_nmap r4) as [[le r5]|] eqn:E2; [|discriminate].
  inversion H; subst. split; cbn.
  - eapply (dec_map_sorted dec_u64 dec_u64 N.compare N_cmp_ok (fun _ => True)); [auto|exact E1].
  - eapply (dec_map_sorted dec_u64 dec_u64 N.compare N_cmp_ok (fun _ => True)); [auto|exact E2].
Qed.

Lemma dec_cluster_sorted bs c r : dec_cluster bs = Some (c, r) -> cluster_sorted c.
Proof.
  unfold dec_cluster. intros H.
  destruct (dec_map dec_str dec_topic str_cmp bs) as [[ts r1]|] eqn:E1; [|discriminate].
  destruct (dec_map dec_u64 dec_str N.compare r1) as [[ns r2]|] eqn:E2; [|discriminate].
  inversion H; subst. unfold cluster_sorted. cbn.
  destruct (dec_map_sorted dec_str dec_topic str_cmp str_cmp_ok topic_sorted _ _ _ dec_topic_sorted E1) as [A B].
  destruct (dec_map_sorted dec_u64 dec_str N.compare N_cmp_ok (fun _ => True) _ _ _ (fun _ _ _ _ => I) E2) as [C _].
  auto.
Qed.

(* the count guard of dec_map changes nothing: with fewer input bytes than elements the
   element loop cannot finish, provided every key takes at least one byte *)
Lemma dec_entries_short {K V : Type} (dk : list N -> option (K * list N)) dv (cmp : K -> K -> comparison) :
  (forall bs k r, dk bs = Some (k, r) -> (length r < length bs)%nat) ->
  (forall bs (v : V) r, dv bs = Some (v, r) -> (length r <= length bs)%nat) ->
  forall n bs acc, (length bs < n)%nat -> dec_entries dk dv cmp n bs acc = None.
Proof.
  intros Hk Hv. induction n as [|n IH]; intros bs acc H; [lia|]. cbn [dec_entries].
  destruct (dk bs) as [[k r1]|] eqn:E1; [|reflexivity]. destruct (dv r1) as [[v r2]|] eqn:E2; [|reflexivity].
  apply IH. specialize (Hk _ _ _ E1). specialize (Hv _ _ _ E2). lia.
Qed.
