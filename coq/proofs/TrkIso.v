(* Isolation of the tracker between sides whose block ids and files are disjoint (C13):
   the restriction of the joint tracker state to one side's ids and files is that side trk_run
   alone, and so are the deletion requests for its files. *)
From W Require Import model.Base model.Trk proofs.TrkP.
From Coq Require Import ZArith ZifyBool ZifyN ZifyNat.


Lemma keyp_eq {A} (p : N -> bool) k (v : A) : keyp p (k, v) = p k.
Proof. reflexivity. Qed.

Lemma filter_lookup {A} (p : N -> bool) k (l : list (N * A)) :
  p k = true -> tlookup k (filter (keyp p) l) = tlookup k l.
Proof.
  intro Hk. induction l as [|[k' v] r IH]; cbn [filter tlookup]; [reflexivity|].
  rewrite !keyp_eq. destruct (k' =? k) eqn:E.
  - apply N.eqb_eq in E; subst k'. rewrite Hk. cbn [tlookup]. now rewrite N.eqb_refl.
  - destruct (p k'); cbn [tlookup]; [rewrite E|]; exact IH.
Qed.

Lemma filter_tset_in {A} (p : N -> bool) k (v : A) l :
  p k = true -> filter (keyp p) (tset k v l) = tset k v (filter (keyp p) l).
Proof.
  intro Hk. induction l as [|[k' v'] r IH]; cbn [filter tset]; [reflexivity|].
  destruct (k' =? k) eqn:E.
  - apply N.eqb_eq in E; subst k'. cbn [filter]. rewrite !keyp_eq. rewrite Hk.
    cbn [tset]. now rewrite N.eqb_refl.
  - cbn [filter]. rewrite !keyp_eq. destruct (p k'); cbn [tset]; [rewrite E|]; now rewrite IH.
Qed.

Lemma filter_tset_out {A} (p : N -> bool) k (v : A) l :
  p k = false -> filter (keyp p) (tset k v l) = filter (keyp p) l.
Proof.
  intro Hk. induction l as [|[k' v'] r IH]; cbn [filter tset]; [reflexivity|].
  destruct (k' =? k) eqn:E.
  - apply N.eqb_eq in E; subst k'. cbn [filter]. rewrite !keyp_eq. now rewrite Hk.
  - cbn [filter]. rewrite !keyp_eq. destruct (p k'); now rewrite IH.
Qed.

Definition coherent (pid pf : N -> bool) (t : trk) : Prop :=
  forall id b, In (id, b) (t_blocks t) -> pf (bs_file b) = pid id.

Lemma restrict_eq pid pf t :
  restrict pid pf t = {| t_blocks := filter (keyp pid) (t_blocks t); t_files := filter (keyp pf) (t_files t) |}.
Proof. reflexivity. Qed.

Lemma in_tset {A} k (v : A) l x : In x (tset k v l) -> In x l \/ x = (k, v).
Proof.
  induction l as [|[k' v'] r IH]; cbn [tset]; [tauto|].
  destruct (k' =? k) eqn:E.
  - apply N.eqb_eq in E; subst k'. intros [<-|H]; [now right|left; now right].
  - intros [<-|H]; [left; now left|]. destruct (IH H); [left; now right|now right].
Qed.

(* file-map operations commute with the restriction *)
Lemma restrict_reg_file_in pid pf t f : pf f = true ->
  restrict pid pf (reg_file t f) = reg_file (restrict pid pf t) f.
Proof.
  intro Hf. unfold reg_file, known.
  change (t_files (restrict pid pf t)) with (filter (keyp pf) (t_files t)).
  rewrite filter_lookup by exact Hf.
  destruct (tlookup f (t_files t)); [reflexivity|].
  unfold restrict. cbn [t_files t_blocks]. rewrite filter_app. cbn [filter]. rewrite !keyp_eq. now rewrite Hf.
Qed.

Lemma restrict_reg_file_out pid pf t f : pf f = false ->
  restrict pid pf (reg_file t f) = restrict pid pf t.
Proof.
  intro Hf. unfold reg_file. destruct (known t f); [reflexivity|].
  unfold restrict. cbn [t_files t_blocks]. rewrite filter_app. cbn [filter]. rewrite !keyp_eq.
  rewrite Hf. now rewrite app_nil_r.
Qed.

Lemma restrict_upd_file_in pid pf t f u : pf f = true ->
  restrict pid pf (upd_file t f u) = upd_file (restrict pid pf t) f u.
Proof.
  intro Hf. unfold upd_file.
  change (t_files (restrict pid pf t)) with (filter (keyp pf) (t_files t)).
  rewrite filter_lookup by exact Hf.
  destruct (tlookup f (t_files t)); [|reflexivity].
  unfold restrict. cbn [t_files t_blocks]. now rewrite filter_tset_in.
Qed.

Lemma restrict_upd_file_out pid pf t f u : pf f = false ->
  restrict pid pf (upd_file t f u) = restrict pid pf t.
Proof.
  intro Hf. unfold upd_file. destruct (tlookup f (t_files t)); [|reflexivity].
  unfold restrict. cbn [t_files t_blocks]. now rewrite filter_tset_out.
Qed.

Lemma flush_check_restrict pid pf t f : pf f = true ->
  flush_check (restrict pid pf t) f = flush_check t f.
Proof. intro Hf. unfold flush_check, restrict. cbn [t_files]. now rewrite filter_lookup. Qed.

Lemma flush_check_sub t f x : In x (flush_check t f) -> x = f.
Proof.
  unfold flush_check. destruct (tlookup f (t_files t)) as [fs|]; [|intros []].
  destruct (ready fs); [intros [<-|[]]; reflexivity|intros []].
Qed.

Lemma coherent_files pid pf t t' : t_blocks t' = t_blocks t -> coherent pid pf t -> coherent pid pf t'.
Proof. intros E H id b. rewrite E. apply H. Qed.

(* a call of this side: the joint step, restricted, is the step on the restricted state *)
Lemma step_in fixed pid pf t c :
  call_side pid pf c = true -> coherent pid pf t ->
  restrict pid pf (fst (trk_step fixed t c)) = fst (trk_step fixed (restrict pid pf t) c) /\
  snd (trk_step fixed t c) = snd (trk_step fixed (restrict pid pf t) c) /\
  coherent pid pf (fst (trk_step fixed t c)).
Proof.
  intros S Co.
  destruct c as [id f|f|f|id|id|id|f|f]; cbn [call_side] in S.
  - apply andb_true_iff in S. destruct S as [Si Sf]. cbn [trk_step fst snd].
    change (t_blocks (restrict pid pf t)) with (filter (keyp pid) (t_blocks t)).
    rewrite filter_lookup by exact Si.
    destruct (tlookup id (t_blocks t)); [auto|].
    split; [|split; [reflexivity|]].
    + unfold restrict. cbn [t_blocks t_files]. rewrite filter_app. cbn [filter]. rewrite !keyp_eq. now rewrite Si.
    + intros id' b Hin. cbn [t_blocks] in Hin. apply in_app_or in Hin. destruct Hin as [Hin|[E|[]]]; [now apply Co|].
      inversion E; subst. cbn [bs_file]. now rewrite Si, Sf.
  - cbn [trk_step fst snd]. split; [now apply restrict_reg_file_in|split; [reflexivity|]].
    eapply coherent_files; [apply blocks_reg_file|exact Co].
  - cbn [trk_step fst snd]. split; [|split; [reflexivity|]].
    + rewrite restrict_upd_file_in, restrict_reg_file_in by exact S. reflexivity.
    + eapply coherent_files; [rewrite blocks_upd_file; apply blocks_reg_file|exact Co].
  - cbn [trk_step]. change (t_blocks (restrict pid pf t)) with (filter (keyp pid) (t_blocks t)).
    rewrite filter_lookup by exact S.
    destruct (tlookup id (t_blocks t)) as [b|] eqn:L; cbn [fst snd]; [|auto].
    assert (Hf : pf (bs_file b) = true) by (rewrite (Co id b (tlookup_in _ _ _ L)); exact S).
    split; [now apply restrict_upd_file_in|split; [reflexivity|]].
    eapply coherent_files; [apply blocks_upd_file|exact Co].
  - cbn [trk_step]. change (t_blocks (restrict pid pf t)) with (filter (keyp pid) (t_blocks t)).
    rewrite filter_lookup by exact S.
    destruct (tlookup id (t_blocks t)) as [b|] eqn:L; cbn [fst snd]; [|auto].
    assert (Hf : pf (bs_file b) = true) by (rewrite (Co id b (tlookup_in _ _ _ L)); exact S).
    split; [now apply restrict_upd_file_in|split].
    + rewrite <- restrict_upd_file_in by exact Hf. now rewrite flush_check_restrict.
    + eapply coherent_files; [apply blocks_upd_file|exact Co].
  - cbn [trk_step]. change (t_blocks (restrict pid pf t)) with (filter (keyp pid) (t_blocks t)).
    rewrite filter_lookup by exact S.
    destruct (tlookup id (t_blocks t)) as [b|] eqn:L; cbn [fst snd]; [|auto].
    assert (Hf : pf (bs_file b) = true) by (rewrite (Co id b (tlookup_in _ _ _ L)); exact S).
    destruct (fixed && bs_flag b); cbn [fst snd]; [auto|].
    assert (Hsf : restrict pid pf (set_flag t id b) = set_flag (restrict pid pf t) id b).
    { unfold set_flag, restrict. cbn [t_blocks t_files]. now rewrite filter_tset_in. }
    split; [|split].
    + rewrite restrict_upd_file_in by exact Hf. now rewrite Hsf.
    + rewrite <- Hsf, <- restrict_upd_file_in by exact Hf. now rewrite flush_check_restrict.
    + intros id' b' Hin. rewrite blocks_upd_file in Hin. unfold set_flag in Hin. cbn [t_blocks] in Hin.
      apply in_tset in Hin. destruct Hin as [Hin|E]; [now apply Co|].
      inversion E; subst. cbn [bs_file]. rewrite Hf. now symmetry.
  - cbn [trk_step fst snd]. split; [|split].
    + rewrite restrict_upd_file_in, restrict_reg_file_in by exact S. reflexivity.
    + rewrite <- restrict_reg_file_in, <- restrict_upd_file_in by exact S. now rewrite flush_check_restrict.
    + eapply coherent_files; [rewrite blocks_upd_file; apply blocks_reg_file|exact Co].
  - cbn [trk_step fst snd]. split; [reflexivity|split; [now rewrite flush_check_restrict|exact Co]].
Qed.

(* a call of the other side leaves this side's restriction alone and requests only foreign files *)
Lemma step_out fixed pid pf t c :
  call_side (fun x => negb (pid x)) (fun x => negb (pf x)) c = true -> coherent pid pf t ->
  restrict pid pf (fst (trk_step fixed t c)) = restrict pid pf t /\
  (forall f, In f (snd (trk_step fixed t c)) -> pf f = false) /\
  coherent pid pf (fst (trk_step fixed t c)).
Proof.
  intros S Co.
  destruct c as [id f|f|f|id|id|id|f|f]; cbn [call_side] in S.
  - apply andb_true_iff in S. destruct S as [Si Sf]. apply negb_true_iff in Si, Sf. cbn [trk_step fst snd].
    destruct (tlookup id (t_blocks t)); [split; [reflexivity|split; [intros ? []|exact Co]]|].
    split; [|split; [intros ? []|]].
    + unfold restrict. cbn [t_blocks t_files]. rewrite filter_app. cbn [filter]. rewrite !keyp_eq.
      rewrite Si. now rewrite app_nil_r.
    + intros id' b Hin. cbn [t_blocks] in Hin. apply in_app_or in Hin. destruct Hin as [Hin|[E|[]]]; [now apply Co|].
      inversion E; subst. cbn [bs_file]. now rewrite Si, Sf.
  - apply negb_true_iff in S. cbn [trk_step fst snd].
    split; [now apply restrict_reg_file_out|split; [intros ? []|]].
    eapply coherent_files; [apply blocks_reg_file|exact Co].
  - apply negb_true_iff in S. cbn [trk_step fst snd]. split; [|split; [intros ? []|]].
    + rewrite restrict_upd_file_out, restrict_reg_file_out by exact S. reflexivity.
    + eapply coherent_files; [rewrite blocks_upd_file; apply blocks_reg_file|exact Co].
  - apply negb_true_iff in S. cbn [trk_step].
    destruct (tlookup id (t_blocks t)) as [b|] eqn:L; cbn [fst snd]; [|split; [reflexivity|split; [intros ? []|exact Co]]].
    assert (Hf : pf (bs_file b) = false) by (rewrite (Co id b (tlookup_in _ _ _ L)); exact S).
    split; [now apply restrict_upd_file_out|split; [intros ? []|]].
    eapply coherent_files; [apply blocks_upd_file|exact Co].
  - apply negb_true_iff in S. cbn [trk_step].
    destruct (tlookup id (t_blocks t)) as [b|] eqn:L; cbn [fst snd]; [|split; [reflexivity|split; [intros ? []|exact Co]]].
    assert (Hf : pf (bs_file b) = false) by (rewrite (Co id b (tlookup_in _ _ _ L)); exact S).
    split; [now apply restrict_upd_file_out|split].
    + intros x Hx. apply flush_check_sub in Hx. now subst x.
    + eapply coherent_files; [apply blocks_upd_file|exact Co].
  - apply negb_true_iff in S. cbn [trk_step].
    destruct (tlookup id (t_blocks t)) as [b|] eqn:L; cbn [fst snd]; [|split; [reflexivity|split; [intros ? []|exact Co]]].
    assert (Hf : pf (bs_file b) = false) by (rewrite (Co id b (tlookup_in _ _ _ L)); exact S).
    destruct (fixed && bs_flag b); cbn [fst snd]; [split; [reflexivity|split; [intros ? []|exact Co]]|].
    split; [|split].
    + rewrite restrict_upd_file_out by exact Hf. unfold set_flag, restrict. cbn [t_blocks t_files].
      now rewrite filter_tset_out.
    + intros x Hx. apply flush_check_sub in Hx. now subst x.
    + intros id' b' Hin. rewrite blocks_upd_file in Hin. unfold set_flag in Hin. cbn [t_blocks] in Hin.
      apply in_tset in Hin. destruct Hin as [Hin|E]; [now apply Co|].
      inversion E; subst. cbn [bs_file]. rewrite Hf. now symmetry.
  - apply negb_true_iff in S. cbn [trk_step fst snd]. split; [|split].
    + rewrite restrict_upd_file_out, restrict_reg_file_out by exact S. reflexivity.
    + intros x Hx. apply flush_check_sub in Hx. now subst x.
    + eapply coherent_files; [rewrite blocks_upd_file; apply blocks_reg_file|exact Co].
  - apply negb_true_iff in S. cbn [trk_step fst snd]. split; [reflexivity|split; [|exact Co]].
    intros x Hx. apply flush_check_sub in Hx. now subst x.
Qed.

(* requests of an own call concern own files *)
Lemma step_in_reqs fixed pid pf t c :
  call_side pid pf c = true -> coherent pid pf t ->
  forall f, In f (snd (trk_step fixed t c)) -> pf f = true.
Proof.
  intros S Co x Hx.
  destruct c as [id f|f|f|id|id|id|f|f]; cbn [call_side trk_step snd] in *; try (destruct Hx; fail).
  - destruct (tlookup id (t_blocks t)); destruct Hx.
  - destruct (tlookup id (t_blocks t)) as [b|] eqn:L; cbn [snd] in Hx; [|destruct Hx].
    apply flush_check_sub in Hx. subst x. rewrite (Co id b (tlookup_in _ _ _ L)). exact S.
  - destruct (tlookup id (t_blocks t)) as [b|] eqn:L; cbn [snd] in Hx; [|destruct Hx].
    destruct (fixed && bs_flag b); cbn [snd] in Hx; [destruct Hx|].
    apply flush_check_sub in Hx. subst x. rewrite (Co id b (tlookup_in _ _ _ L)). exact S.
  - apply flush_check_sub in Hx. now subst x.
  - apply flush_check_sub in Hx. now subst x.
Qed.

Lemma filter_all_true {A} (p : A -> bool) l : (forall x, In x l -> p x = true) -> filter p l = l.
Proof.
  induction l as [|y r IH]; intro H; cbn [filter]; [reflexivity|].
  rewrite (H y (or_introl eq_refl)), IH; [reflexivity|]. intros x Hx. apply H. now right.
Qed.

Lemma filter_all_false {A} (p : A -> bool) l : (forall x, In x l -> p x = false) -> filter p l = [].
Proof.
  induction l as [|y r IH]; intro H; cbn [filter]; [reflexivity|].
  rewrite (H y (or_introl eq_refl)). apply IH. intros x Hx. apply H. now right.
Qed.

Lemma isolated_from fixed a pid pf : forall cs t,
  sided a pid pf cs -> coherent pid pf t ->
  restrict pid pf (fst (trk_run_from fixed t (untag cs))) =
    fst (trk_run_from fixed (restrict pid pf t) (proj a cs)) /\
  filter pf (snd (trk_run_from fixed t (untag cs))) =
    snd (trk_run_from fixed (restrict pid pf t) (proj a cs)).
Proof.
  induction cs as [|[i c] cs IH]; intros t Sd Co.
  - cbn. split; reflexivity.
  - assert (Sd' : sided a pid pf cs) by (intros i' c' H; apply Sd; now right).
    pose proof (Sd i c (or_introl eq_refl)) as Sc.
    unfold untag, proj in *. cbn [map filter fst snd trk_run_from].
    destruct (i =? a) eqn:E; cbn [map snd trk_run_from].
    + destruct (step_in fixed pid pf t c Sc Co) as [A [B Co1]].
      pose proof (step_in_reqs fixed pid pf t c Sc Co) as Rq.
      destruct (trk_step fixed t c) as [t1 o1]. destruct (trk_step fixed (restrict pid pf t) c) as [r1 q1].
      cbn [fst snd] in *. subst q1 r1.
      destruct (IH t1 Sd' Co1) as [X Y].
      destruct (trk_run_from fixed t1 (map snd cs)) as [t2 o2].
      destruct (trk_run_from fixed (restrict pid pf t1) (map snd (filter (fun p => fst p =? a) cs))) as [r2 q2].
      cbn [fst snd] in *. split; [exact X|]. rewrite filter_app, Y. f_equal.
      now apply filter_all_true.
    + destruct (step_out fixed pid pf t c Sc Co) as [A [B Co1]].
      destruct (trk_step fixed t c) as [t1 o1]. cbn [fst snd] in *.
      destruct (IH t1 Sd' Co1) as [X Y]. rewrite A in X, Y.
      destruct (trk_run_from fixed t1 (map snd cs)) as [t2 o2].
      cbn [fst snd] in *. split; [exact X|]. rewrite filter_app, Y.
      now rewrite (filter_all_false pf o1 B).
Qed.

Lemma restrict_trk0 pid pf : restrict pid pf trk0 = trk0.
Proof. reflexivity. Qed.

Theorem tracker_isolated fixed a pid pf cs : sided a pid pf cs ->
  restrict pid pf (fst (trk_run fixed (untag cs))) = fst (trk_run fixed (proj a cs)) /\
  filter pf (trk_requests fixed (untag cs)) = trk_requests fixed (proj a cs).
Proof.
  intro Sd. unfold trk_run, trk_requests, trk_run.
  assert (Co : coherent pid pf trk0) by (intros id b []).
  destruct (isolated_from fixed a pid pf cs trk0 Sd Co) as [X Y].
  rewrite restrict_trk0 in X, Y. split; assumption.
Qed.

(* ---------- witness: two instances that both number their blocks from 1 ---------- *)
Lemma refuted_block_id_collision : exists (cs : list tcall) (f : N),
  tags_in cs 1 2 = true /\
  contract false (proj 1 cs) /\ contract false (proj 2 cs) /\
  reregistered (untag cs) = true /\
  file_registered_only_by cs f 1 = true /\ registers_in cs f 1 = true /\
  never_marks cs 1 = true /\
  In f (trk_requests false (untag cs)) /\ In f (trk_requests true (untag cs)) /\
  trk_requests false (proj 1 cs) = [].
Proof.
  exists c13_witness_collision, 10.
  repeat (split; [vm_compute; try reflexivity; try (now left)|]).
  vm_compute. reflexivity.
Qed.
