(* EngineWF.v — list-level lemmas about entry tiling: offsets that are entry boundaries,
   what the header view / the parser sees there, and how they move. *)
From W Require Import model.Base model.Engine.
From Coq Require Import ZArith ZifyBool ZifyN ZifyNat.

Definition cfg_ok (c : Cfg) : Prop :=
  0 < c_hdr c /\ 0 < c_block c /\ c_block c <= c_max_alloc c /\
  c_max_alloc c + c_block c <= u64_max /\ 1 <= c_max_entries c /\ c_hdr c <= c_block c.

Lemma need_pos c e : 0 < c_hdr c -> 0 < need c e.
Proof. unfold need. lia. Qed.

Lemma sum_need_app c a b : sum_need c (a ++ b) = sum_need c a + sum_need c b.
Proof. induction a as [|x a IH]; cbn [app sum_need]; [lia|]. rewrite IH. lia. Qed.

(* [off] is an entry boundary of the tiling [es] (the end counts as one) *)
Definition okoff (c : Cfg) (es : list entry) (off : N) : Prop :=
  off + sum_need c (ents_from c es off) = sum_need c es.

Lemma okoff_0 c es : okoff c es 0.
Proof. unfold okoff. destruct es; cbn [ents_from]; [reflexivity|]. rewrite N.eqb_refl. lia. Qed.

Lemma ents_from_0 c es : ents_from c es 0 = es.
Proof. destruct es; cbn [ents_from]; [reflexivity|]. now rewrite N.eqb_refl. Qed.

Lemma okoff_le c es off : okoff c es off -> off <= sum_need c es.
Proof. unfold okoff. lia. Qed.

(* the header view and the parser agree *)
Lemma ents_from_view c : forall es off e r,
  ents_from c es off = e :: r -> view_at c es off = HEntry e r.
Proof.
  induction es as [|x es IH]; intros off e r H; cbn [ents_from view_at] in *; [discriminate|].
  destruct (off =? 0); [now inversion H|].
  destruct (off <? need c x); [discriminate|]. now apply IH.
Qed.

Lemma ents_from_nil_view c : forall es off,
  ents_from c es off = [] -> forall e r, view_at c es off <> HEntry e r.
Proof.
  induction es as [|x es IH]; intros off H e r; cbn [ents_from view_at] in *; [discriminate|].
  destruct (off =? 0); [discriminate|].
  destruct (off <? need c x); [discriminate|]. now apply IH.
Qed.

(* stepping over the entry at a boundary *)
Lemma ents_from_step c : 0 < c_hdr c -> forall es off e r,
  ents_from c es off = e :: r -> ents_from c es (off + need c e) = r.
Proof.
  intros Hh. induction es as [|x es IH]; intros off e r H; cbn [ents_from] in *; [discriminate|].
  pose proof (need_pos c e Hh) as Hne. pose proof (need_pos c x Hh) as Hnx.
  destruct (off =? 0) eqn:E0.
  - inversion H; subst. assert (off = 0) by lia; subst off.
    replace (0 + need c e =? 0) with false by lia.
    replace (0 + need c e <? need c e) with false by lia.
    replace (0 + need c e - need c e) with 0 by lia. apply ents_from_0.
  - destruct (off <? need c x) eqn:E1; [discriminate|].
    replace (off + need c e =? 0) with false by lia.
    replace (off + need c e <? need c x) with false by lia.
    replace (off + need c e - need c x) with (off - need c x + need c e) by lia.
    now apply IH.
Qed.

Lemma okoff_step c : 0 < c_hdr c -> forall es off e r,
  okoff c es off -> ents_from c es off = e :: r -> okoff c es (off + need c e).
Proof.
  intros Hh es off e r Ho He. unfold okoff in *.
  rewrite (ents_from_step c Hh _ _ _ _ He). rewrite He in Ho. cbn [sum_need] in Ho. lia.
Qed.

(* past the end there is nothing *)
Lemma ents_from_end c : 0 < c_hdr c -> forall es off, sum_need c es <= off -> ents_from c es off = [].
Proof.
  intros Hh. induction es as [|x es IH]; intros off H; cbn [ents_from sum_need] in *; [reflexivity|].
  pose proof (need_pos c x Hh).
  replace (off =? 0) with false by lia. replace (off <? need c x) with false by lia.
  apply IH. lia.
Qed.

Lemma okoff_nonempty c es off : okoff c es off -> off < sum_need c es -> ents_from c es off <> [].
Proof. unfold okoff. intros Ho Hlt E. rewrite E in Ho. cbn in Ho. lia. Qed.

(* appending to the tiling keeps boundaries and extends what is seen from them *)
Lemma ents_from_app c : 0 < c_hdr c -> forall es es' off,
  okoff c es off -> ents_from c (es ++ es') off = ents_from c es off ++ es'.
Proof.
  intros Hh. induction es as [|x es IH]; intros es' off Ho.
  - unfold okoff in Ho. cbn in Ho. assert (off = 0) by lia. subst. cbn. apply ents_from_0.
  - cbn [app ents_from]. unfold okoff in Ho. cbn [ents_from sum_need] in Ho.
    destruct (off =? 0) eqn:E0; [reflexivity|].
    destruct (off <? need c x) eqn:E1.
    + cbn in Ho. pose proof (need_pos c x Hh). lia.
    + apply IH. unfold okoff. lia.
Qed.

Lemma okoff_app c : 0 < c_hdr c -> forall es es' off, okoff c es off -> okoff c (es ++ es') off.
Proof.
  intros Hh es es' off Ho. unfold okoff. rewrite (ents_from_app c Hh _ _ _ Ho).
  rewrite !sum_need_app. unfold okoff in Ho. lia.
Qed.

Lemma okoff_end c es : okoff c es (sum_need c es) -> True. Proof. trivial. Qed.

Lemma okoff_total c : 0 < c_hdr c -> forall es, okoff c es (sum_need c es).
Proof. intros Hh es. unfold okoff. rewrite (ents_from_end c Hh) by lia. cbn. lia. Qed.

(* a boundary at or past the used length is the end *)
Lemma okoff_ge_end c es off : okoff c es off -> sum_need c es <= off -> off = sum_need c es.
Proof. intros Ho H. pose proof (okoff_le _ _ _ Ho). lia. Qed.

(* lengths *)
Lemma sum_need_ge_len c : forall es, N.of_nat (length es) * c_hdr c <= sum_need c es.
Proof. induction es as [|x es IH]; cbn [length sum_need]; [lia|]. unfold need. lia. Qed.
