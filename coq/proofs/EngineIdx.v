(* EngineIdx.v — StrictlyAtOnce reads and the persisted position: every read either leaves
   [ts_index] and what is unread as they were, or persists exactly the cursor of the reader
   it leaves behind ([PosIs]).  The scripts follow read_next_spec (EngineInv.v) and
   batch_read_spec (EngineBR.v) with the mode specialised to Strict. *)
From W Require Import model.Base model.Engine proofs.EngineWF proofs.EngineInv proofs.EngineBR proofs.EnginePos.
From Coq Require Import ZArith ZifyBool ZifyN ZifyNat.

Lemma sp_strict r f : should_persist Strict r f = (r, true).
Proof. reflexivity. Qed.

Lemma chain_of_mk ts r' cnt' idx' : chain_of (mk_ts ts r' cnt' idx') = r_chain r'.
Proof. reflexivity. Qed.

Lemma reader_of_mk ts r' cnt' idx' : reader_of (mk_ts ts r' cnt' idx') = r'.
Proof. reflexivity. Qed.

Lemma tail_start_mk ts r' cnt' idx' w :
  tail_start (mk_ts ts r' cnt' idx') w = if r_tail_bid r' =? b_id w then r_tail_off r' else 0.
Proof. reflexivity. Qed.

(* a tail position recorded by the parser lies behind at least one entry *)
Lemma parse_range_tailpos c (Hh : 0 < c_hdr c) maxb pi : forall es pos p,
  (ps_saw_tail p = true -> 0 < ps_tail_off p) ->
  ps_saw_tail (parse_range c maxb pi es pos p) = true -> 0 < ps_tail_off (parse_range c maxb pi es pos p).
Proof.
  induction es as [|e r IH]; intros pos p Hp; cbn [parse_range]; [exact Hp|].
  destruct (c_max_entries c <=? ps_n p); [exact Hp|].
  destruct (pi_end pi <? pos + c_hdr c); [exact Hp|].
  destruct (pi_end pi <? pos + need c e); [exact Hp|].
  destruct ((maxb <? N.min usize_max (ps_total p + e_len e)) && negb (ps_n p =? 0)); [exact Hp|].
  apply IH. cbn [ps_saw_tail ps_tail_off]. pose proof (need_pos c e Hh). destruct (pi_tail pi).
  - intros _. lia.
  - rewrite orb_false_r. exact Hp.
Qed.

Lemma parse_plan_tailpos c (Hh : 0 < c_hdr c) maxb : forall plan p,
  (ps_saw_tail p = true -> 0 < ps_tail_off p) ->
  ps_saw_tail (parse_plan c maxb plan p) = true -> 0 < ps_tail_off (parse_plan c maxb plan p).
Proof.
  induction plan as [|it rest IH]; intros p Hp; cbn [parse_plan]; [exact Hp|].
  destruct ((c_max_entries c <=? ps_n p) || ps_stop p); [exact Hp|].
  apply IH. now apply parse_range_tailpos.
Qed.

Lemma okoff_pos_nonempty c es off : okoff c es off -> 0 < off -> es <> [].
Proof. intros Hok Hpos ->. unfold okoff in Hok. cbn in Hok. lia. Qed.

Lemma ents_from_cons_nonempty c es off e r : ents_from c es off = e :: r -> es <> [].
Proof. intros H ->. discriminate. Qed.

Lemma read_next_spec_idx c s t ck nid : cfg_ok c ->
  TInv c nid (get_ts s (t_id t)) ->
  let ts := get_ts s (t_id t) in
  exists ts' res, read_next c Strict s t ck = (set_ts s (t_id t) ts', res) /\
    TInv c nid ts' /\ stream ts' = stream ts /\ ts_writer ts' = ts_writer ts /\
    chain_of ts' = chain_of ts /\ r_hydrated (reader_of ts') = true /\
    match unread c ts with
    | [] => res = RNone /\ unread c ts' = []
    | e :: rest => res = REntry (out_of e) /\ unread c ts' = (if ck then rest else e :: rest)
    end /\
    ((ts_index ts' = ts_index ts /\ unread c ts' = unread c ts) \/
     (exists p, ts_index ts' = Some p /\ PosIs ts' p)).
Proof.
  intros (Hh & Hcfg) Hinv. cbv zeta. set (ts := get_ts s (t_id t)) in *.
  pose proof Hinv as [Hp Hu Hch Hw Hnd Hids Htl Hidx Hend Hcur Hst Htail Hhyd Hcnt].
  unfold read_next. fold ts.
  destruct (hydrate_fresh (reader_of ts) (ts_index ts) false Hhyd) as (r1 & Hhy & E1 & E2 & E3 & E4 & E5 & E6 & E7).
  rewrite Hhy. rewrite E1, E2, E3.
  pose proof (rn_walk_spec c Hh (skipn (r_idx (reader_of ts)) (r_chain (reader_of ts))) (r_idx (reader_of ts)) (r_off (reader_of ts))) as Hwalk.
  assert (A1 : Forall (bwf c) (skipn (r_idx (reader_of ts)) (r_chain (reader_of ts)))) by (apply Forall_skipn; exact Hch).
  assert (A2 : forall b r, skipn (r_idx (reader_of ts)) (r_chain (reader_of ts)) = b :: r -> okoff c (b_ents b) (r_off (reader_of ts))).
  { intros b r Hs. apply Hcur. unfold chain_of. eapply nth_error_skipn; eauto. }
  assert (A3 : skipn (r_idx (reader_of ts)) (r_chain (reader_of ts)) = [] -> r_off (reader_of ts) = 0).
  { intros Hs. apply Hend. apply skipn_nil_ge in Hs. unfold chain_of in *. lia. }
  specialize (Hwalk A1 A2 A3).
  destruct (rn_walk _ _ _) as [[i o] hit].
  (* the unread list in terms of the walk's input *)
  assert (Hun : unread c ts = (match skipn (r_idx (reader_of ts)) (r_chain (reader_of ts)) with
                               | b0 :: r0 => ents_from c (b_ents b0) (r_off (reader_of ts)) ++ chain_ents r0 ++ w_ents ts
                               | [] => match ts_writer ts with Some w => ents_from c (b_ents w) (tail_start ts w) | None => [] end
                               end)) by reflexivity.
  destruct hit as [b|].
  - (* an unread entry in the sealed chain *)
    destruct Hwalk as (pre & r' & Hrest & Hi & Hok & Hlt & Heq).
    assert (Hsk : skipn i (r_chain r1) = b :: r').
    { rewrite E1, Hi, skipn_add, Hrest. apply skipn_app_len. }
    assert (Hilt : (i < length (chain_of ts))%nat) by (unfold chain_of; rewrite <- E1; eapply skipn_len_lt; eauto).
    assert (Hbwf : bwf c b).
    { eapply Forall_forall; [exact Hch|]. unfold chain_of. rewrite <- E1. eapply nth_error_In, nth_error_skipn; eauto. }
    destruct Hbwf as (Hbu & _).
    assert (Hne : ents_from c (b_ents b) o <> []) by (apply okoff_nonempty; [exact Hok|lia]).
    destruct (ents_from c (b_ents b) o) as [|e re] eqn:Eef; [congruence|].
    assert (Hunread : unread c ts = e :: re ++ chain_ents r' ++ w_ents ts).
    { rewrite Hun. destruct (skipn (r_idx (reader_of ts)) (r_chain (reader_of ts))) as [|b0 r0] eqn:Es.
      - destruct pre; discriminate.
      - rewrite app_assoc, Heq, <- app_assoc. reflexivity. }
    rewrite Hunread.
    unfold block_read. rewrite (ents_from_view c _ _ _ _ Eef).
    destruct ck.
    + (* consuming *)
      assert (Hsp : exists r5, r5 = set_cur (set_cur r1 i o) i (o + need c e) /\
                r_chain r5 = r_chain r1 /\ r_idx r5 = i /\ r_off r5 = o + need c e /\ r_tail_bid r5 = r_tail_bid r1 /\
                r_tail_off r5 = r_tail_off r1 /\ r_hydrated r5 = r_hydrated r1) by (eexists; repeat split).
      destruct Hsp as (r5 & Er5 & F1 & F2 & F3 & F4 & F5 & F6).
      set (idx' := Some {| p_tail := false; p_a := N.of_nat i; p_off := o + need c e |}).
      exists (mk_ts ts r5 (Some (cnt ts - 1)) idx'), (REntry (out_of e)).
      assert (Hur : unread c (mk_ts ts r5 (Some (cnt ts - 1)) idx') = re ++ chain_ents r' ++ w_ents ts).
      { rewrite unread_mk, F1, F2, F3, Hsk. now rewrite (ents_from_step c Hh _ _ _ _ Eef). }
      split; [|split; [|split; [|split; [|split; [|split; [|split; [split|]]]]]]].
      * rewrite Er5. cbn [should_persist]. reflexivity.
      * apply TInv_reader; auto.
        -- now rewrite F1, E1.
        -- now rewrite F4, E4.
        -- rewrite F2. lia.
        -- rewrite F2. lia.
        -- rewrite F2, F3. intros b' Hb'. unfold chain_of in Hb'. rewrite <- E1 in Hb'.
           rewrite (nth_error_skipn _ _ _ _ Hsk) in Hb'. inversion Hb'; subst b'.
           eapply okoff_step; eauto.
        -- rewrite F4, E4. intros _. apply Hst.
           (* the cursor was already inside the sealed chain, or the walk found a block there *)
           destruct (Nat.lt_ge_cases (r_idx (reader_of ts)) (length (chain_of ts))) as [Hl|Hg]; [exact Hl|].
           exfalso. assert (skipn (r_idx (reader_of ts)) (r_chain (reader_of ts)) = []) as Hn by (apply skipn_all2; exact Hg).
           rewrite Hn in Hrest. destruct pre; discriminate.
        -- rewrite F4, F5, E4, E5. exact Htail.
        -- now rewrite F6, E7.
        -- rewrite Hur. rewrite Hcnt, Hunread. cbn [length]. lia.
      * apply stream_mk. now rewrite F1, E1.
      * reflexivity.
      * rewrite chain_of_mk, F1. exact E1.
      * rewrite reader_of_mk, F6. exact E7.
      * reflexivity.
      * exact Hur.
      * right. eexists. split; [reflexivity|]. unfold PosIs. cbn [p_tail p_a p_off].
        rewrite reader_of_mk, chain_of_mk, F1, F2, F3, E1. repeat split. exact Hilt.
    + (* peek: only the walk's advance is kept *)
      exists (mk_ts ts (set_cur r1 i o) (ts_count ts) (ts_index ts)), (REntry (out_of e)).
      assert (Hur : unread c (mk_ts ts (set_cur r1 i o) (ts_count ts) (ts_index ts)) = e :: re ++ chain_ents r' ++ w_ents ts).
      { rewrite unread_mk. cbn [set_cur r_chain r_idx r_off]. rewrite Hsk, Eef. reflexivity. }
      split; [|split; [|split; [|split; [|split; [|split; [|split; [split|]]]]]]].
      * reflexivity.
      * apply TInv_reader; auto; cbn [set_cur r_chain r_idx r_off r_tail_bid r_tail_off r_hydrated].
        -- now rewrite E4.
        -- lia.
        -- lia.
        -- intros b' Hb'. unfold chain_of in Hb'. rewrite <- E1 in Hb'.
           rewrite (nth_error_skipn _ _ _ _ Hsk) in Hb'. inversion Hb'; subst b'. exact Hok.
        -- rewrite E4. intros _. apply Hst.
           destruct (Nat.lt_ge_cases (r_idx (reader_of ts)) (length (chain_of ts))) as [Hl|Hg]; [exact Hl|].
           exfalso. assert (skipn (r_idx (reader_of ts)) (r_chain (reader_of ts)) = []) as Hn by (apply skipn_all2; exact Hg).
           rewrite Hn in Hrest. destruct pre; discriminate.
        -- rewrite E4, E5. exact Htail.
        -- rewrite Hur. fold (cnt ts). rewrite Hcnt, Hunread. reflexivity.
      * apply stream_mk. cbn. exact E1.
      * reflexivity.
      * rewrite chain_of_mk. exact E1.
      * rewrite reader_of_mk. exact E7.
      * reflexivity.
      * exact Hur.
      * left. split; [reflexivity|exact Hur].
  - (* the sealed chain is exhausted: tail path *)
    destruct Hwalk as (Hi & Ho & Heq). subst o.
    assert (Hilen : i = length (chain_of ts)).
    { unfold chain_of in *. rewrite Hi, skipn_length. lia. }
    assert (Hsk : skipn i (r_chain r1) = []) by (rewrite E1, Hilen; apply skipn_all).
    (* start offset in the writer block, and what is unread, in both sub-cases *)
    assert (Hstart : forall w, ts_writer ts = Some w ->
              unread c ts = ents_from c (b_ents w) (if r_tail_bid (reader_of ts) =? b_id w then r_tail_off (reader_of ts) else 0) /\
              okoff c (b_ents w) (if r_tail_bid (reader_of ts) =? b_id w then r_tail_off (reader_of ts) else 0)).
    { intros w Hw'. split; [|exact (Htail w Hw')].
      rewrite Hun. destruct (skipn (r_idx (reader_of ts)) (r_chain (reader_of ts))) as [|b0 r0] eqn:Es.
      - rewrite Hw'. reflexivity.
      - rewrite app_assoc, Heq. cbn [app]. unfold w_ents. rewrite Hw'.
        assert (Hl : (r_idx (reader_of ts) < length (chain_of ts))%nat) by (eapply skipn_len_lt; eauto).
        pose proof (Hst Hl w Hw') as Hneq.
        replace (r_tail_bid (reader_of ts) =? b_id w) with false by lia. now rewrite ents_from_0. }
    destruct (ts_writer ts) as [w|] eqn:Ew.
    + rewrite Hp. destruct (Hstart w eq_refl) as (Hunread & Hokw).
      cbn [set_cur r_tail_bid r_tail_off]. rewrite E4, E5.
      set (start := if r_tail_bid (reader_of ts) =? b_id w then r_tail_off (reader_of ts) else 0) in *.
      assert (Hwwf : bwf c w) by (unfold w_list in Hw; rewrite Ew in Hw; inversion Hw; assumption).
      destruct Hwwf as (Hwu & _).
      assert (Hwid : 0 < b_id w < nid).
      { eapply Forall_forall in Hids; [exact Hids|]. apply in_or_app. right. unfold w_list. rewrite Ew. left. reflexivity. }
      (* the provisional persist changes only the index and the ALO counter *)
      set (pr := if ck && (start =? 0) && (0 <? b_used w)
                 then let '(r', p) := should_persist Strict (set_cur r1 i 0) true in
                      (r', if p then persist ts true (b_id w) start else ts)
                 else (set_cur r1 i 0, ts)).
      assert (Hr4 : r_chain (fst pr) = r_chain r1 /\ r_idx (fst pr) = i /\ r_off (fst pr) = 0 /\
                    r_tail_bid (fst pr) = r_tail_bid r1 /\ r_tail_off (fst pr) = r_tail_off r1 /\ r_hydrated (fst pr) = true).
      { unfold pr. destruct (ck && (start =? 0) && (0 <? b_used w)).
        - pose proof (should_persist_fields Strict (set_cur r1 i 0) true) as Hsp.
          destruct (should_persist Strict (set_cur r1 i 0) true) as [r' p]. cbn [fst]. cbn in Hsp. destruct Hsp as (G1 & G2 & G3 & G4 & G5 & G6).
          repeat split; auto. now rewrite G6.
        - cbn. repeat split; auto. }
      assert (Hts1 : ts_writer (snd pr) = Some w /\ ts_poisoned (snd pr) = false /\ ts_unmodelled (snd pr) = false /\
                     ts_count (snd pr) = ts_count ts /\ (ts_reader (snd pr) = ts_reader ts) /\
                     ts_index (snd pr) = (if ck && (start =? 0) && (0 <? b_used w)
                                          then Some {| p_tail := true; p_a := b_id w; p_off := start |} else ts_index ts)).
      { unfold pr. cbn [should_persist]. destruct (ck && (start =? 0) && (0 <? b_used w)); cbn; repeat split; auto. }
      fold pr. destruct pr as [r4 ts1]. cbn [fst snd] in Hr4, Hts1.
      destruct Hr4 as (G1 & G2 & G3 & G4 & G5 & G6). destruct Hts1 as (T1 & T2 & T3 & T4 & T5 & T6).
      destruct (start <? b_used w) eqn:Elt.
      * assert (Hne : ents_from c (b_ents w) start <> []) by (apply okoff_nonempty; [exact Hokw|lia]).
        destruct (ents_from c (b_ents w) start) as [|e re] eqn:Eef; [congruence|].
        rewrite Hunread. unfold block_read. rewrite (ents_from_view c _ _ _ _ Eef).
        destruct ck.
        -- assert (Hsp : exists r6, r6 = set_tail r4 (b_id w) (start + need c e) /\
                     r_chain r6 = r_chain r4 /\ r_idx r6 = r_idx r4 /\ r_off r6 = r_off r4 /\ r_tail_bid r6 = b_id w /\
                     r_tail_off r6 = start + need c e /\ r_hydrated r6 = r_hydrated r4) by (eexists; repeat split).
           destruct Hsp as (r6 & Er6 & F1 & F2 & F3 & F4 & F5 & F6).
           set (idx' := Some {| p_tail := true; p_a := b_id w; p_off := start + need c e |}).
           exists (mk_ts ts r6 (Some (cnt ts - 1)) idx'), (REntry (out_of e)).
           assert (Hur : unread c (mk_ts ts r6 (Some (cnt ts - 1)) idx') = re).
           { rewrite unread_mk, F1, F2, G1, G2, Hsk, Ew, F4, F5, N.eqb_refl. now rewrite (ents_from_step c Hh _ _ _ _ Eef). }
           split; [|split; [|split; [|split; [|split; [|split; [|split; [split|]]]]]]].
           ++ rewrite Er6. cbn [should_persist]. f_equal. f_equal.
              unfold idx', mk_ts, count_sub, persist, with_index, with_reader, cnt, sat_sub.
              rewrite T1, T2, T3, T4. cbn; rewrite ?Ew, ?Hp, ?Hu; reflexivity.
           ++ apply TInv_reader; auto.
              ** now rewrite F1, G1, E1.
              ** rewrite F4. lia.
              ** rewrite F2, G2. lia.
              ** rewrite F3, G3. reflexivity.
              ** rewrite F2, G2, Hilen. intros b' Hb'. exfalso. eapply nth_error_len_none; eauto.
              ** rewrite F2, G2. lia.
              ** rewrite F4, F5, Ew. intros w' Hw'. inversion Hw'; subst w'. rewrite N.eqb_refl. eapply okoff_step; eauto.
              ** now rewrite F6.
              ** rewrite Hur, Hcnt, Hunread. cbn [length]. lia.
           ++ apply stream_mk. now rewrite F1, G1, E1.
           ++ cbn. now rewrite Ew.
           ++ rewrite chain_of_mk, F1, G1. exact E1.
           ++ rewrite reader_of_mk, F6. exact G6.
           ++ reflexivity.
           ++ exact Hur.
           ++ right. eexists. split; [reflexivity|]. unfold PosIs. cbn [p_tail p_a p_off]. exists w.
              rewrite reader_of_mk, chain_of_mk, tail_start_mk, F1, F2, F4, F5, G1, G2, E1, N.eqb_refl.
              split; [cbn; now rewrite Ew|]. split; [reflexivity|]. split; [exact Hilen|]. split; [reflexivity|].
              eapply ents_from_cons_nonempty; exact Eef.
        -- (* peek *)
           cbn [andb] in *.
           exists (mk_ts ts r4 (ts_count ts) (ts_index ts1)), (REntry (out_of e)).
           assert (Hur : unread c (mk_ts ts r4 (ts_count ts) (ts_index ts1)) = e :: re).
           { rewrite unread_mk, G1, G2, Hsk, Ew, G4, G5, E4, E5. fold start. exact Eef. }
           split; [|split; [|split; [|split; [|split; [|split; [|split; [split|]]]]]]].
           ++ f_equal. f_equal. unfold mk_ts, with_reader. rewrite T1, T2, T3, T4, Ew, Hp, Hu. reflexivity.
           ++ apply TInv_reader; auto.
              ** now rewrite G1, E1.
              ** now rewrite G4, E4.
              ** rewrite G2. lia.
              ** rewrite G2, Hilen. intros b' Hb'. exfalso. eapply nth_error_len_none; eauto.
              ** rewrite G2. lia.
              ** rewrite G4, G5, E4, E5, Ew. exact Htail.
              ** rewrite Hur. fold (cnt ts). rewrite Hcnt, Hunread. reflexivity.
           ++ apply stream_mk. now rewrite G1, E1.
           ++ cbn. now rewrite Ew.
           ++ rewrite chain_of_mk, G1. exact E1.
           ++ rewrite reader_of_mk. exact G6.
           ++ reflexivity.
           ++ exact Hur.
           ++ left. split; [cbn [mk_ts ts_index]; exact T6|congruence].
      * (* caught up *)
        assert (Hnil : ents_from c (b_ents w) start = []) by (apply ents_from_end; [exact Hh|lia]).
        rewrite Hunread, Hnil.
        exists (mk_ts ts r4 (ts_count ts) (ts_index ts1)), RNone.
        assert (Hur : unread c (mk_ts ts r4 (ts_count ts) (ts_index ts1)) = []).
        { rewrite unread_mk, G1, G2, Hsk, Ew, G4, G5, E4, E5. fold start. exact Hnil. }
        split; [|split; [|split; [|split; [|split; [|split; [|split; [split|]]]]]]].
        -- f_equal. f_equal. unfold mk_ts, with_reader. rewrite T1, T2, T3, T4, Ew, Hp, Hu. reflexivity.
        -- apply TInv_reader; auto.
           ++ now rewrite G1, E1.
           ++ now rewrite G4, E4.
           ++ rewrite G2. lia.
           ++ rewrite G2, Hilen. intros b' Hb'. exfalso. eapply nth_error_len_none; eauto.
           ++ rewrite G2. lia.
           ++ rewrite G4, G5, E4, E5, Ew. exact Htail.
           ++ rewrite Hur. fold (cnt ts). rewrite Hcnt, Hunread, Hnil. reflexivity.
        -- apply stream_mk. now rewrite G1, E1.
        -- cbn. now rewrite Ew.
        -- rewrite chain_of_mk, G1. exact E1.
        -- rewrite reader_of_mk. exact G6.
        -- reflexivity.
        -- exact Hur.
        -- destruct (ck && (start =? 0) && (0 <? b_used w)) eqn:Eck; rewrite ?Eck in T6.
           ++ right. eexists. split; [cbn [mk_ts ts_index]; exact T6|]. unfold PosIs. cbn [p_tail p_a p_off]. exists w.
              rewrite reader_of_mk, chain_of_mk, tail_start_mk, G1, G2, G4, G5, E1, E4, E5.
              split; [cbn; now rewrite Ew|]. split; [reflexivity|]. split; [exact Hilen|]. split; [reflexivity|].
              intros Hwnil. rewrite Hwnil in Hwu. cbn [sum_need] in Hwu. lia.
           ++ left. split; [cbn [mk_ts ts_index]; exact T6|exact Hur].
    + (* no writer yet *)
      assert (Hunread : unread c ts = []).
      { rewrite Hun. destruct (skipn (r_idx (reader_of ts)) (r_chain (reader_of ts))) as [|b0 r0] eqn:Es; [reflexivity|].
        rewrite app_assoc, Heq. unfold w_ents. now rewrite Ew. }
      rewrite Hunread.
      exists (mk_ts ts (set_cur r1 i 0) (ts_count ts) (ts_index ts)), RNone.
      assert (Hur : unread c (mk_ts ts (set_cur r1 i 0) (ts_count ts) (ts_index ts)) = []).
      { rewrite unread_mk. cbn [set_cur r_chain r_idx]. now rewrite Hsk, Ew. }
      split; [|split; [|split; [|split; [|split; [|split; [|split; [split|]]]]]]].
      * unfold mk_ts, with_reader; rewrite ?Ew; reflexivity.
      * apply TInv_reader; auto; cbn [set_cur r_chain r_idx r_off r_tail_bid r_tail_off r_hydrated].
        -- now rewrite E4.
        -- lia.
        -- rewrite Hilen. intros b' Hb'. exfalso. eapply nth_error_len_none; eauto.
        -- lia.
        -- rewrite Ew. intros; discriminate.
        -- rewrite Hur. fold (cnt ts). now rewrite Hcnt, Hunread.
      * apply stream_mk. exact E1.
      * cbn. now rewrite Ew.
      * rewrite chain_of_mk. exact E1.
      * rewrite reader_of_mk. exact E7.
      * reflexivity.
      * exact Hur.
      * left. split; [reflexivity|exact Hur].
Qed.

Lemma batch_read_spec_idx c s t maxb ck nid : cfg_ok c ->
  TInv c nid (get_ts s (t_id t)) ->
  let ts := get_ts s (t_id t) in
  let U := unread c ts in
  exists ts' k, batch_read c Strict s t maxb ck None = (set_ts s (t_id t) ts', REntries (map out_of (firstn k U))) /\
    TInv c nid ts' /\ stream ts' = stream ts /\ ts_writer ts' = ts_writer ts /\
    chain_of ts' = chain_of ts /\ r_hydrated (reader_of ts') = true /\
    (k <= length U)%nat /\ (U <> [] -> (1 <= k)%nat) /\
    unread c ts' = (if ck then skipn k U else U) /\
    ((ts_index ts' = ts_index ts /\ unread c ts' = unread c ts) \/
     (exists p, ts_index ts' = Some p /\ PosIs ts' p)).
Proof.
  intros (Hh & Hb0 & Hba & Hbm & Hme & Hhb) Hinv ts U.
  pose proof Hinv as [Hp Hu Hch Hw Hnd Hids Htl Hidx Hend Hcur Hst Htail Hhyd Hcnt].
  fold ts in Hp, Hu, Hch, Hw, Hnd, Hids, Htl, Hidx, Hend, Hcur, Hst, Htail, Hhyd, Hcnt.
  unfold batch_read, br_position, br_from. fold ts. rewrite Hp.
  destruct (hydrate_fresh (reader_of ts) (ts_index ts) true Hhyd) as (r1 & Hhy & E1 & E2 & E3 & E4 & E5 & E6 & E7).
  rewrite Hhy. cbn beta iota zeta.
  rewrite E1, E2, E3, E4, E5.
  set (chain := r_chain (reader_of ts)) in *.
  set (W := w_ents ts). set (WT := tail_unread c ts).
  assert (HWT : (r_idx (reader_of ts) < length chain)%nat -> WT = W).
  { intros Hl. unfold WT, W, tail_unread, w_ents, tail_start. destruct (ts_writer ts) as [w|] eqn:Ew; [|reflexivity].
    pose proof (Hst Hl w eq_refl). replace (r_tail_bid (reader_of ts) =? b_id w) with false by lia. apply ents_from_0. }
  pose proof (plan_sealed_spec c Hh maxb chain W WT (ts_writer ts) (skipn (r_idx (reader_of ts)) chain)
                (r_idx (reader_of ts)) (r_off (reader_of ts)) 0 0 [] eq_refl
                (Forall_skipn _ _ _ Hch)) as Hplan.
  assert (A2 : forall b r, skipn (r_idx (reader_of ts)) chain = b :: r -> okoff c (b_ents b) (r_off (reader_of ts))).
  { intros b r Hs. apply Hcur. unfold chain_of. eapply nth_error_skipn; eauto. }
  specialize (Hplan A2 (fun _ => or_intror I) (fun H => match H eq_refl with end) HWT).
  destruct (plan_sealed c maxb false (skipn (r_idx (reader_of ts)) chain) (r_idx (reader_of ts)) (r_off (reader_of ts)) 0 0 [])
    as [[[racc planned'] idx'] trunc].
  destruct Hplan as (items & Hracc & Hsealed & Hseg & Hfirst & Hnil0).
  rewrite app_nil_r in Hracc. subst racc.
  specialize (Hfirst eq_refl Hidx).
  assert (HU : U = UR c chain W WT (r_idx (reader_of ts)) (r_off (reader_of ts))) by reflexivity.
  (* the complete plan, in order, with what it covers *)
  assert (Hfull : exists L Uo, 
            (let '(racc2, trim1) :=
               (if negb trunc && (length chain <=? idx')%nat
                then match ts_writer ts with
                     | Some w =>
                       if (if r_tail_bid (reader_of ts) =? b_id w then r_tail_off (reader_of ts) else 0) <? b_used w
                       then ({| pi_blk := w; pi_start := if r_tail_bid (reader_of ts) =? b_id w then r_tail_off (reader_of ts) else 0;
                                pi_end := b_used w; pi_tail := true; pi_idx := 0 |} :: rev items, 0)
                       else (rev items, 0)
                     | None => (rev items, 0)
                     end
                else (rev items, 0)) in racc2 = rev L /\ trim1 = 0) /\
            Seg c chain W (ts_writer ts) L U Uo /\
            (L = [] -> U = []) /\ (L <> [] -> first_covered c L) /\
            (skipn (r_idx (reader_of ts)) chain = [] -> Forall (fun it => pi_tail it = true) L)).
  { destruct trunc.
    - exists items, None. cbn [negb andb]. split; [split; reflexivity|]. split; [rewrite HU; exact Hseg|].
      split; [intros HL; subst items; exfalso; destruct Hfirst as (Hf & _); discriminate|].
      split; [intros HL; destruct items; [congruence|exact Hfirst]|].
      intros Hs0. rewrite (Hnil0 Hs0). constructor.
    - destruct Hseg as (Hseg & Hle1 & Hle2). specialize (Hle2 Hidx). cbn [negb andb].
      destruct (length chain <=? idx')%nat eqn:Elen.
      + apply Nat.leb_le in Elen. assert (idx' = length chain) by lia. subst idx'.
        assert (HURend : UR c chain W WT (length chain) 0 = WT) by (unfold UR; now rewrite skipn_all).
        rewrite HURend in Hseg.
        destruct (ts_writer ts) as [w|] eqn:Ew.
        * set (tstart := if r_tail_bid (reader_of ts) =? b_id w then r_tail_off (reader_of ts) else 0) in *.
          assert (Hwt : WT = ents_from c (b_ents w) tstart) by (unfold WT, tail_unread; rewrite Ew; reflexivity).
          assert (Hokw : okoff c (b_ents w) tstart) by (apply (Htail w); reflexivity).
          assert (Hwwf : bwf c w) by (unfold w_list in Hw; try rewrite Ew in Hw; inversion Hw; assumption).
          destruct Hwwf as (Hwu & _).
          destruct (tstart <? b_used w) eqn:Ets.
          -- set (titem := {| pi_blk := w; pi_start := tstart; pi_end := b_used w; pi_tail := true; pi_idx := 0 |}).
             exists (items ++ [titem]), (Some []).
             split; [split; [now rewrite rev_app_distr|reflexivity]|].
             assert (Htok : item_ok c chain (Some w) titem) by (unfold item_ok, titem; cbn; repeat split; auto; lia).
             split.
             { rewrite HU. eapply Seg_app; [exact Hsealed|exact Hseg|].
               eapply SegFull; [exact Htok|reflexivity|reflexivity| |constructor].
               unfold item_ents, item_rest, titem; cbn. now rewrite app_nil_r. }
             split; [intros HL; destruct items; discriminate|].
             split.
             { intros _. destruct items as [|i0 items']; [|exact Hfirst].
               cbn. unfold item_ents, titem; cbn.
               assert (Hne : ents_from c (b_ents w) tstart <> []) by (apply okoff_nonempty; [exact Hokw|lia]).
               destruct (ents_from c (b_ents w) tstart) as [|e re] eqn:Eef; [congruence|].
               exists e, re. split; [reflexivity|]. unfold okoff in Hokw. rewrite Eef in Hokw. cbn [sum_need] in Hokw. lia. }
             intros Hs0. rewrite (Hnil0 Hs0). cbn. repeat constructor.
          -- exists items, (Some WT). split; [split; reflexivity|]. split; [rewrite HU; exact Hseg|].
             split.
             { intros HL; subst items. destruct Hfirst as (_ & _ & Hf). rewrite HU, Hf, Hwt. apply ents_from_end; [exact Hh|lia]. }
             split; [intros HL; destruct items; [congruence|exact Hfirst]|].
             intros Hs0. rewrite (Hnil0 Hs0). constructor.
        * exists items, (Some WT). split; [split; reflexivity|]. split; [rewrite HU; exact Hseg|].
          split.
          { intros HL; subst items. destruct Hfirst as (_ & _ & Hf). rewrite HU, Hf. unfold WT, tail_unread. now rewrite Ew. }
          split; [intros HL; destruct items; [congruence|exact Hfirst]|].
          intros Hs0. rewrite (Hnil0 Hs0). constructor.
      + exists items, (Some (UR c chain W WT idx' 0)). split; [split; reflexivity|]. split; [rewrite HU; exact Hseg|].
        split.
        { intros HL; subst items. destruct Hfirst as (_ & Hf & _). apply Nat.leb_gt in Elen. lia. }
        split; [intros HL; destruct items; [congruence|exact Hfirst]|].
        intros Hs0. rewrite (Hnil0 Hs0). constructor. }
  destruct Hfull as (L & Uo & Hshape & HsegL & HLnil & HLcov & HLtail).
  match goal with |- context [match ?X with (_, _) => _ end] => destruct X as [racc2 trim1] end.
  destruct Hshape as (Hr2 & Htr). subst trim1.
  assert (HrevL : rev racc2 = L) by (rewrite Hr2; apply rev_involutive).
  set (ts_h := with_reader ts r1).
  assert (Hts_h : ts_h = mk_ts ts r1 (ts_count ts) (ts_index ts)) by reflexivity.
  assert (Hinv_h : TInv c nid ts_h /\ unread c ts_h = U /\ stream ts_h = stream ts).
  { rewrite Hts_h. split; [|split].
    - apply TInv_reader; auto; rewrite ?E1, ?E2, ?E3, ?E4, ?E5; auto.
      rewrite unread_mk, E1, E2, E3, E4, E5. fold (cnt ts). exact Hcnt.
    - rewrite unread_mk, E1, E2, E3, E4, E5. reflexivity.
    - apply stream_mk. exact E1. }
  destruct Hinv_h as (Hinvh & Hunh & Hsth).
  assert (Hxh : chain_of ts_h = chain_of ts /\ r_hydrated (reader_of ts_h) = true /\ ts_index ts_h = ts_index ts).
  { unfold ts_h. split; [exact E1|]. split; [exact E7|reflexivity]. }
  destruct Hxh as (Hchh & Hhyh & Hixh).
  assert (Hkeep : ts_index ts_h = ts_index ts /\ unread c ts_h = unread c ts \/
                  (exists q, ts_index ts_h = Some q /\ PosIs ts_h q)).
  { left. split; [exact Hixh|exact Hunh]. }
  destruct racc2 as [|it0 racc2'].
  { (* nothing planned: nothing unread *)
    assert (L = []) by (rewrite <- HrevL; reflexivity). specialize (HLnil H).
    exists ts_h, 0%nat. rewrite HLnil. cbn [firstn map skipn]. 
    split; [reflexivity|]. split; [exact Hinvh|]. split; [exact Hsth|]. split; [reflexivity|].
    split; [exact Hchh|]. split; [exact Hhyh|].
    split; [cbn; lia|]. split; [congruence|]. split; [|exact Hkeep]. rewrite Hunh. fold U. rewrite HLnil. now destruct ck. }
  rewrite HrevL.
  match goal with |- context [parse_plan c maxb L ?q] => set (p0 := q) end.
  destruct (parse_plan_spec c Hh maxb chain W (ts_writer ts) L U Uo HsegL p0 eq_refl eq_refl) as (j & Hpr & Hz & Hpos & Hprog & Hsawt).
  cbn zeta in *. set (p := parse_plan c maxb L p0) in *.
  destruct Hpr as [Ho Hn Hpa Hj _]. cbn [ps_outs ps_n ps_parsed p0] in Ho, Hn, Hpa. rewrite app_nil_r in Ho.
  assert (HLne : L <> []) by (rewrite <- HrevL; cbn; intros X; apply app_eq_nil in X; destruct X; discriminate).
  assert (Hk1 : U <> [] -> (1 <= j)%nat).
  { intros _. apply Hprog; auto. }
  assert (Hres : rev (ps_outs p) = map out_of (firstn j U)) by (rewrite Ho; apply rev_involutive).
  rewrite Hres. rewrite Hpa. cbn [negb]. rewrite !andb_true_r.
  (* the two shapes of a committed state *)
  assert (Htail_case : forall r' ix', r_chain r' = chain -> r_hydrated r' = true -> (0 < j)%nat -> ps_saw_tail p = true ->
            let ts' := mk_ts ts (set_tail (set_cur r' (length chain) 0) (ps_tail_id p) (ps_tail_off p)) (Some (cnt ts - N.of_nat j)) ix' in
            TInv c nid ts' /\ stream ts' = stream ts /\ ts_writer ts' = ts_writer ts /\ unread c ts' = skipn j U /\
            chain_of ts' = chain_of ts /\ r_hydrated (reader_of ts') = true /\
            PosIs ts' {| p_tail := true; p_a := ps_tail_id p; p_off := ps_tail_off p |}).
  { intros r' ix' R1 R7 Hjp Esaw ts'. specialize (Hpos Hjp). unfold PosOk in Hpos. rewrite Esaw in Hpos.
    destruct Hpos as (wb & Hwb & Hid & Hokt & Hents).
    assert (Hwid : 0 < b_id wb < nid).
    { eapply Forall_forall in Hids; [exact Hids|]. apply in_or_app. right. unfold w_list. rewrite Hwb. left. reflexivity. }
    assert (Hur : unread c ts' = skipn j U).
    { unfold ts'. rewrite unread_mk. cbn [set_tail set_cur r_idx r_chain r_tail_bid r_tail_off]. rewrite R1.
      unfold chain. rewrite skipn_all. rewrite Hwb, Hid, N.eqb_refl. exact Hents. }
    split.
    { unfold ts'. apply TInv_reader; auto; cbn [set_tail set_cur r_idx r_off r_chain r_tail_bid r_tail_off r_hydrated].
      - rewrite Hid. lia.
      - intros b' Hb'. exfalso. unfold chain_of in Hb'. fold chain in Hb'. eapply nth_error_len_none; eauto.
      - unfold chain_of. fold chain. lia.
      - intros w' Hw'. rewrite Hwb in Hw'. inversion Hw'; subst w'. rewrite Hid, N.eqb_refl. exact Hokt.
      - fold ts'. rewrite Hur, Hcnt. fold U. rewrite skipn_length. lia. }
    split; [unfold ts'; apply stream_mk; exact R1|]. split; [reflexivity|]. split; [exact Hur|].
    split; [unfold ts'; rewrite chain_of_mk; cbn [set_tail set_cur r_chain]; exact R1|].
    split; [unfold ts'; rewrite reader_of_mk; cbn [set_tail set_cur r_hydrated]; exact R7|].
    unfold PosIs, ts'. cbn [p_tail p_a p_off]. exists wb.
    rewrite reader_of_mk, chain_of_mk, tail_start_mk. cbn [set_tail set_cur r_idx r_chain r_tail_bid r_tail_off].
    rewrite R1, Hid, N.eqb_refl.
    split; [exact Hwb|]. split; [reflexivity|]. split; [reflexivity|]. split; [reflexivity|].
    eapply okoff_pos_nonempty; [exact Hokt|]. unfold p. apply (parse_plan_tailpos c Hh); [intros Hf; discriminate Hf|exact Esaw]. }
  assert (Hsealed_case : forall r' ix', r_chain r' = chain -> r_tail_bid r' = r_tail_bid (reader_of ts) ->
            r_tail_off r' = r_tail_off (reader_of ts) -> r_hydrated r' = true -> (0 < j)%nat -> ps_saw_tail p = false ->
            let ts' := mk_ts ts (set_cur r' (ps_fin_idx p) (ps_fin_off p)) (Some (cnt ts - N.of_nat j)) ix' in
            TInv c nid ts' /\ stream ts' = stream ts /\ ts_writer ts' = ts_writer ts /\ unread c ts' = skipn j U /\
            chain_of ts' = chain_of ts /\ r_hydrated (reader_of ts') = true /\
            PosIs ts' {| p_tail := false; p_a := N.of_nat (ps_fin_idx p); p_off := ps_fin_off p |}).
  { intros r' ix' R1 R4 R5 R7 Hjp Esaw ts'. specialize (Hpos Hjp). unfold PosOk in Hpos. rewrite Esaw in Hpos.
    destruct Hpos as (b & Hnb & Hokb & Hents).
    assert (Hfl : (ps_fin_idx p < length chain)%nat) by (apply nth_error_Some; congruence).
    destruct (skipn_nth_error _ _ _ Hnb) as (rr & Hskb).
    assert (Hur : unread c ts' = skipn j U).
    { unfold ts'. rewrite unread_mk. cbn [set_cur r_idx r_off r_chain]. rewrite R1, Hskb.
      rewrite <- Hents. now rewrite (skipn_S_of _ _ _ _ Hskb). }
    assert (Hwas : (r_idx (reader_of ts) < length chain)%nat).
    { destruct (Nat.lt_ge_cases (r_idx (reader_of ts)) (length chain)) as [Hl|Hg]; [exact Hl|]. exfalso.
      assert (Hs0 : skipn (r_idx (reader_of ts)) chain = []) by (apply skipn_all2; exact Hg).
      pose proof (Hsawt Hjp (HLtail Hs0)). congruence. }
    split.
    { unfold ts'. apply TInv_reader; auto; cbn [set_cur r_idx r_off r_chain r_tail_bid r_tail_off r_hydrated].
      - now rewrite R4.
      - unfold chain_of. fold chain. lia.
      - unfold chain_of. fold chain. lia.
      - intros b' Hb'. unfold chain_of in Hb'. fold chain in Hb'. rewrite Hnb in Hb'. inversion Hb'; subst b'. exact Hokb.
      - rewrite R4. intros _. apply Hst. exact Hwas.
      - rewrite R4, R5. exact Htail.
      - fold ts'. rewrite Hur, Hcnt. fold U. rewrite skipn_length. lia. }
    split; [unfold ts'; apply stream_mk; exact R1|]. split; [reflexivity|]. split; [exact Hur|].
    split; [unfold ts'; rewrite chain_of_mk; cbn [set_cur r_chain]; exact R1|].
    split; [unfold ts'; rewrite reader_of_mk; cbn [set_cur r_hydrated]; exact R7|].
    unfold PosIs, ts'. cbn [p_tail p_a p_off].
    rewrite reader_of_mk, chain_of_mk. cbn [set_cur r_idx r_off r_chain]. rewrite R1.
    split; [reflexivity|]. split; [exact Hfl|reflexivity]. }
  destruct ck; cbn [andb].
  2:{ exists ts_h, j. rewrite ?andb_false_r. split; [reflexivity|]. split; [exact Hinvh|]. split; [exact Hsth|]. split; [reflexivity|].
      split; [exact Hchh|]. split; [exact Hhyh|].
      split; [exact Hj|]. split; [exact Hk1|]. split; [exact Hunh|exact Hkeep]. }
  destruct (0 <? 0 + N.of_nat j) eqn:Ej.
  2:{ assert (j = 0%nat) by lia. subst j. exists ts_h, 0%nat.
      split; [unfold count_sub; cbn; reflexivity|]. split; [exact Hinvh|]. split; [exact Hsth|]. split; [reflexivity|].
      split; [exact Hchh|]. split; [exact Hhyh|].
      split; [lia|]. split; [exact Hk1|]. split; [exact Hunh|exact Hkeep]. }
  assert (Hjp : (0 < j)%nat) by lia.
  unfold count_sub. replace (0 + N.of_nat j =? 0) with false by lia.
  assert (Hrh : r_chain (reader_of ts_h) = chain /\ r_tail_bid (reader_of ts_h) = r_tail_bid (reader_of ts) /\
                r_tail_off (reader_of ts_h) = r_tail_off (reader_of ts) /\ r_hydrated (reader_of ts_h) = true).
  { unfold ts_h; cbn. rewrite E1, E4, E5, E7. auto. }
  destruct Hrh as (R1 & R4 & R5 & R7).
  cbn zeta; destruct (ps_saw_tail p) eqn:Esaw.
  - eexists; exists j. split; [reflexivity|].
    destruct (Htail_case (reader_of ts_h) (Some {| p_tail := true; p_a := ps_tail_id p; p_off := ps_tail_off p |}) R1 R7 Hjp eq_refl)
      as (A & B & C & D & X2 & X3 & X4).
    split; [exact A|]. split; [exact B|]. split; [exact C|]. split; [exact X2|]. split; [exact X3|].
    split; [exact Hj|]. split; [exact Hk1|]. split; [exact D|].
    right. eexists. split; [reflexivity|exact X4].
  - eexists; exists j. split; [reflexivity|].
    destruct (Hsealed_case (reader_of ts_h) (Some {| p_tail := false; p_a := N.of_nat (ps_fin_idx p); p_off := ps_fin_off p |}) R1 R4 R5 R7 Hjp eq_refl)
      as (A & B & C & D & X2 & X3 & X4).
    split; [exact A|]. split; [exact B|]. split; [exact C|]. split; [exact X2|]. split; [exact X3|].
    split; [exact Hj|]. split; [exact Hk1|]. split; [exact D|].
    right. eexists. split; [reflexivity|exact X4].
Qed.
