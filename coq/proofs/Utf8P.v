(* Utf8P.v — the codec of model/Utf8.v: decode (encode s) = Some s for scalar values,
   encode (decode bs) = bs whenever decode succeeds, decoding yields scalar values only. *)
From W Require Import model.Base model.Utf8.
From Coq Require Import ZArith ZifyBool ZifyN ZifyNat.
Ltac Zify.zify_post_hook ::= Z.div_mod_to_equations.

Definition scalars (s : str) : Prop := Forall (fun c => is_scalar c = true) s.

(* decide every `if` in the goal; the impossible side of each test is closed by lia *)
Ltac split_ifs :=
  repeat match goal with
         | |- context [if ?b then _ else _] =>
           let E := fresh "E" in destruct b eqn:E; try (exfalso; lia)
         end.

Lemma utf8_enc1_nonempty c : utf8_enc1 c <> [].
Proof. unfold utf8_enc1. split_ifs; discriminate. Qed.

Lemma utf8_enc1_length c : (1 <= length (utf8_enc1 c) <= 4)%nat.
Proof. unfold utf8_enc1. split_ifs; cbn [length]; lia. Qed.

Lemma utf8_dec1_enc1 c r : is_scalar c = true -> utf8_dec1 (utf8_enc1 c ++ r) = Some (c, r).
Proof.
  intros Hs. unfold is_scalar in Hs. unfold utf8_enc1.
  destruct (c <? 128) eqn:E1; [|destruct (c <? 2048) eqn:E2; [|destruct (c <? 65536) eqn:E3]].
  - cbn [app utf8_dec1]. rewrite E1. reflexivity.
  - cbn [app utf8_dec1]. unfold is_cont. split_ifs. do 2 f_equal. lia.
  - cbn [app utf8_dec1]. unfold is_cont. split_ifs. do 2 f_equal. lia.
  - cbn [app utf8_dec1]. unfold is_cont. split_ifs. do 2 f_equal. lia.
Qed.

Lemma utf8_decode_fuel_encode s : forall fuel, scalars s -> (length (utf8_encode s) <= fuel)%nat ->
  utf8_decode_fuel fuel (utf8_encode s) = Some s.
Proof.
  induction s as [|c s IH]; intros fuel Hs Hf.
  - destruct fuel; reflexivity.
  - inversion Hs as [|x l Hc Hr]; subst.
    cbn [utf8_encode] in *. rewrite app_length in Hf.
    pose proof (utf8_enc1_length c) as Hl.
    destruct fuel as [|f]; [lia|].
    destruct (utf8_enc1 c ++ utf8_encode s) eqn:Eb.
    { apply app_eq_nil in Eb. destruct Eb as [Eb _]. now apply utf8_enc1_nonempty in Eb. }
    rewrite <- Eb. cbn [utf8_decode_fuel]. rewrite Eb at 1.
    rewrite utf8_dec1_enc1 by exact Hc. rewrite IH by (assumption || lia). reflexivity.
Qed.

Theorem utf8_decode_encode s : scalars s -> utf8_decode (utf8_encode s) = Some s.
Proof. intros Hs. apply utf8_decode_fuel_encode; [exact Hs|lia]. Qed.

Lemma utf8_encode_app a b : utf8_encode (a ++ b) = utf8_encode a ++ utf8_encode b.
Proof. induction a as [|c a IH]; cbn [utf8_encode app]; [reflexivity|]. now rewrite IH, app_assoc. Qed.

(* ---- the other direction ---- *)
Lemma utf8_dec1_sound bs c r : utf8_dec1 bs = Some (c, r) ->
  bs = utf8_enc1 c ++ r /\ is_scalar c = true.
Proof.
  unfold utf8_dec1, utf8_enc1, is_scalar, is_cont.
  destruct bs as [|b0 bs]; [discriminate|].
  destruct (b0 <? 128) eqn:E0.
  { intros H; inversion H; subst. rewrite E0. split; [reflexivity|lia]. }
  destruct (b0 <? 194) eqn:E1; [discriminate|].
  destruct (b0 <? 224) eqn:E2.
  { destruct bs as [|b1 bs]; [discriminate|].
    destruct ((128 <=? b1) && (b1 <? 192)) eqn:C1; [|discriminate].
    intros H; inversion H; subst. split_ifs. split; [|lia].
    cbn [app]. f_equal; [lia|]. f_equal. lia. }
  destruct (b0 <? 240) eqn:E3.
  { destruct bs as [|b1 [|b2 bs]]; try discriminate.
    destruct ((128 <=? b1) && (b1 <? 192) && ((128 <=? b2) && (b2 <? 192))) eqn:C1; [|discriminate].
    match goal with |- context [if ?b then None else _] => destruct b eqn:C2; [discriminate|] end.
    intros H; inversion H; subst. split_ifs. split; [|lia].
    cbn [app]. f_equal; [lia|]. f_equal; [lia|]. f_equal. lia. }
  destruct (b0 <? 245) eqn:E4; [|discriminate].
  destruct bs as [|b1 [|b2 [|b3 bs]]]; try discriminate.
  destruct ((128 <=? b1) && (b1 <? 192) && ((128 <=? b2) && (b2 <? 192)) && ((128 <=? b3) && (b3 <? 192))) eqn:C1; [|discriminate].
  match goal with |- context [if ?b then None else _] => destruct b eqn:C2; [discriminate|] end.
  intros H; inversion H; subst. split_ifs. split; [|lia].
  cbn [app]. f_equal; [lia|]. f_equal; [lia|]. f_equal; [lia|]. f_equal. lia.
Qed.

Lemma utf8_decode_fuel_sound fuel : forall bs s, utf8_decode_fuel fuel bs = Some s ->
  utf8_encode s = bs /\ scalars s.
Proof.
  induction fuel as [|f IH]; intros bs s H.
  - destruct bs; [|discriminate]. inversion H; subst. split; [reflexivity|constructor].
  - destruct bs as [|b bs'].
    { inversion H; subst. split; [reflexivity|constructor]. }
    cbn [utf8_decode_fuel] in H.
    destruct (utf8_dec1 (b :: bs')) as [[c r]|] eqn:E; [|discriminate].
    destruct (utf8_decode_fuel f r) as [s'|] eqn:E'; [|discriminate].
    inversion H; subst. apply utf8_dec1_sound in E. destruct E as [E Hc].
    apply IH in E'. destruct E' as [E' Hs].
    split; [cbn [utf8_encode]; now rewrite E', E | now constructor].
Qed.

Theorem utf8_encode_decode bs s : utf8_decode bs = Some s -> utf8_encode s = bs /\ scalars s.
Proof. apply utf8_decode_fuel_sound. Qed.
