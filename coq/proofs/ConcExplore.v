(* ConcExplore.v — exhaustive exploration of ALL schedules of a given set of thread programs inside
   Coq: [explore] walks the tree of schedule prefixes of the concurrent model (every thread that can
   move, at every state) and checks the C05 acceptor at every state in which all calls have
   returned; [explore_sound]: if it answers true, every schedule (any list of thread ids, of any
   length) that ends with all calls returned is accepted.  Used for call kinds the general theorems
   do not cover yet (batch appends, batch reads), on concrete program families, by vm_compute. *)
From W Require Import model.Base model.Engine model.Conc spec.ConcSpec.
From Coq Require Import Lia.

Fixpoint explore (v : env) (fx : bool) (progs : list (list call)) (drained : bool) (fuel : nat) (cs : cstate) : bool :=
  if threads_done cs then c05_run_ok progs (cresults cs) drained else
  match fuel with
  | O => false
  | S f =>
    forallb (fun tid => match cstep v fx tid cs with
                        | OStep cs' _ => explore v fx progs drained f cs'
                        | _ => true
                        end) (seq 0 (length (cs_threads cs)))
  end.

Lemma cstep_none_beyond v fx tid cs : (length (cs_threads cs) <= tid)%nat -> cstep v fx tid cs = OFinished.
Proof. intros H. unfold cstep. now rewrite (proj2 (nth_error_None _ _) H). Qed.

Lemma threads_done_cstep v fx tid cs : threads_done cs = true -> forall cs' l, cstep v fx tid cs <> OStep cs' l.
Proof.
  intros Hd cs' l. unfold cstep. destruct (nth_error (cs_threads cs) tid) as [th|] eqn:E; [|discriminate].
  unfold threads_done in Hd. rewrite forallb_forall in Hd. specialize (Hd th (nth_error_In _ _ E)).
  destruct (th_todo th); [discriminate|discriminate].
Qed.

Theorem explore_sound v fx progs drained : forall sched fuel cs acc k,
  explore v fx progs drained fuel cs = true ->
  let ro := crun_from v fx cs sched acc k in
  threads_done (ro_cs ro) = true -> c05_run_ok progs (cresults (ro_cs ro)) drained = true.
Proof.
  induction sched as [|tid rest IH]; intros fuel cs acc k He; cbn [crun_from ro_cs].
  - intros Hd. destruct fuel; cbn [explore] in He; rewrite Hd in He; exact He.
  - destruct (cstep v fx tid cs) as [cs' l| |] eqn:Es; cbn [ro_cs].
    + (* a real step: it is one of the branches explored *)
      destruct (threads_done cs) eqn:Hd; [exfalso; eapply threads_done_cstep; eauto|].
      destruct fuel as [|f]; cbn [explore] in He; rewrite Hd in He; [discriminate|].
      rewrite forallb_forall in He.
      destruct (Nat.lt_ge_cases tid (length (cs_threads cs))) as [Hlt|Hge];
        [|rewrite (cstep_none_beyond v fx tid cs Hge) in Es; discriminate].
      specialize (He tid ltac:(apply in_seq; lia)). rewrite Es in He.
      apply (IH f cs' _ _ He).
    + intros Hd. destruct fuel; cbn [explore] in He; rewrite Hd in He; exact He.
    + apply (IH fuel cs acc k He).
Qed.

(* a run from the start is a run of a prefix followed by a run from where the prefix ended *)
Lemma crun_from_app v fx : forall s1 s2 cs acc k,
  ro_blocked (crun_from v fx cs s1 acc k) = None ->
  ro_cs (crun_from v fx cs (s1 ++ s2) acc k) =
  ro_cs (crun_from v fx (ro_cs (crun_from v fx cs s1 acc k)) s2 (rev (ro_steps (crun_from v fx cs s1 acc k))) (ro_k (crun_from v fx cs s1 acc k))).
Proof.
  induction s1 as [|tid s1 IH]; intros s2 cs acc k Hb; cbn [app crun_from ro_cs ro_steps ro_k].
  - now rewrite rev_involutive.
  - cbn [crun_from] in Hb. destruct (cstep v fx tid cs) as [cs' l| |]; cbn [ro_cs ro_steps ro_k ro_blocked] in *;
      [apply IH; exact Hb|discriminate|apply IH; exact Hb].
Qed.

(* every schedule that starts with the (unblocked) prefix [pre] *)
Corollary explore_after_prefix v fx progs drained pre fuel :
  ro_blocked (run_schedule v fx progs pre) = None ->
  explore v fx progs drained fuel (ro_cs (run_schedule v fx progs pre)) = true ->
  forall sched, let ro := run_schedule v fx progs (pre ++ sched) in
  threads_done (ro_cs ro) = true -> c05_run_ok progs (cresults (ro_cs ro)) drained = true.
Proof.
  intros Hb He sched. unfold run_schedule in *. cbn zeta. rewrite (crun_from_app v fx pre sched _ _ _ Hb).
  apply (explore_sound v fx progs drained sched fuel _ _ _ He).
Qed.
