(* CrashP.v — the crash acceptors say what they are meant to say (reflection), and the model's
   verdict on batch atomicity under a crash. *)
From W Require Import model.Base model.Engine model.EngineCfg spec.Queue spec.Crash.
From Coq Require Import ZArith ZifyBool ZifyN ZifyNat.

Lemma outs_are_length os es : outs_are os es = true -> length os = length es.
Proof.
  revert es; induction os as [|o os IH]; intros [|e es] H; cbn in H; try discriminate; [reflexivity|].
  apply andb_prop in H. destruct H as (_ & H). cbn. f_equal. now apply IH.
Qed.

(* C07 acceptor <-> "recovered = acknowledged ++ some prefix of the in-flight entries" *)
Theorem c07_ok_spec acked inflight rec :
  c07_ok acked inflight rec = true <->
  exists k, (k <= length inflight)%nat /\ outs_are rec (acked ++ firstn k inflight) = true.
Proof.
  unfold c07_ok. split.
  - intros H. apply andb_prop in H. destruct H as (H & H3). apply andb_prop in H. destruct H as (H1 & H2).
    exists (length rec - length acked)%nat. split; [lia|exact H3].
  - intros (k & Hk & Ho). pose proof (outs_are_length _ _ Ho) as Hl.
    rewrite app_length, firstn_length in Hl.
    replace (length rec - length acked)%nat with k by lia.
    rewrite Ho. replace (length acked <=? length rec)%nat with true by lia.
    replace (k <=? length inflight)%nat with true by lia. reflexivity.
Qed.

(* C08 acceptor <-> nothing or all of the in-flight batch *)
Theorem c08_ok_spec acked batch rec :
  c08_ok acked batch rec = true <->
  (outs_are rec acked = true \/ outs_are rec (acked ++ batch) = true).
Proof.
  unfold c08_ok. rewrite andb_true_iff, c07_ok_spec. split.
  - intros ((k & Hk & Ho) & Hl). pose proof (outs_are_length _ _ Ho) as Hlen.
    rewrite app_length, firstn_length in Hlen. apply orb_prop in Hl. destruct Hl as [Hl|Hl].
    + left. assert (k = 0%nat) by lia. subst k. cbn in Ho. now rewrite app_nil_r in Ho.
    + right. assert (k = length batch) by lia. subst k. now rewrite firstn_all in Ho.
  - intros [Ho|Ho]; pose proof (outs_are_length _ _ Ho) as Hlen.
    + split; [exists 0%nat; split; [lia|]; cbn; now rewrite app_nil_r|]. apply orb_true_intro. left. lia.
    + split; [exists (length batch); split; [lia|]; now rewrite firstn_all|]. rewrite app_length in Hlen.
      apply orb_true_intro. right. lia.
Qed.

(* the model's verdict: a crash after the first entry's write of a three-entry batch leaves
   exactly that one entry recovered — a strict, non-empty subset *)
Definition tb : topic := {| t_id := 1; t_nlen := 2 |}.
Definition b3 : list entry := [{| e_pid := 1; e_len := 10 |}; {| e_pid := 2; e_len := 20 |}; {| e_pid := 3; e_len := 30 |}].
Lemma batch_crash_partial :
  stream_of (batch_crash small_cfg init tb b3 1) 1 = [{| e_pid := 1; e_len := 10 |}].
Proof. vm_compute. reflexivity. Qed.

Theorem batch_not_crash_atomic :
  exists c s t es j, (j <= length es)%nat /\
    stream_of (batch_crash c s t es j) (t_id t) <> stream_of (batch_crash c s t es 0) (t_id t) /\
    stream_of (batch_crash c s t es j) (t_id t) <> stream_of (batch_crash c s t es (length es)) (t_id t).
Proof.
  exists small_cfg, init, tb, b3, 1%nat. split; [cbn; lia|]. split; vm_compute; discriminate.
Qed.

(* a batch of one entry is all-or-nothing in the model (one write, checksum over the payload) *)
Lemma single_entry_batch_atomic c s t e j : (j <= 1)%nat ->
  batch_crash c s t [e] j = batch_crash c s t [e] 0 \/ batch_crash c s t [e] j = batch_crash c s t [e] 1.
Proof. intros Hj. destruct j as [|[|j]]; [now left|now right|lia]. Qed.

(* C09 acceptor, StrictlyAtOnce, no read in flight: accepted means that what was delivered
   before the crash followed by what the recovered instance delivers is exactly the appended
   stream — every entry once, in order *)
Lemma outs_are_app a b x y : outs_are a x = true -> outs_are b y = true -> outs_are (a ++ b) (x ++ y) = true.
Proof.
  revert x; induction a as [|o a IH]; intros [|e x] Ha Hb; cbn in *; try discriminate; [exact Hb|].
  apply andb_prop in Ha. destruct Ha as (H1 & H2). rewrite H1. cbn. now apply IH.
Qed.

Theorem c09_strict_exactly_once app deliv rec :
  c09_strict_one app deliv rec 0 = true -> outs_are (deliv ++ rec) app = true.
Proof.
  unfold c09_strict_one, suffix_from. intros H. apply andb_prop in H. destruct H as (Hd & H).
  destruct (length rec <=? length app)%nat eqn:El; [|discriminate].
  destruct (outs_are rec (skipn (length app - length rec) app)) eqn:Er; [|discriminate].
  apply andb_prop in H. destruct H as (H1 & H2).
  assert (Hp : (length app - length rec = length deliv)%nat) by lia.
  rewrite Hp in Er. rewrite <- (firstn_skipn (length deliv) app). now apply outs_are_app.
Qed.

(* AtLeastOnce: accepted means the recovered instance resumes at a position p that skips
   nothing (p <= delivered + what the read in flight may have taken) *)
Theorem c09_alo_never_skips app deliv rec gap bound :
  c09_alo_one app deliv rec gap bound = true ->
  exists p, (p <= length deliv + gap)%nat /\ outs_are rec (skipn p app) = true /\
            outs_are deliv (firstn (length deliv) app) = true /\
            match bound with Some n => (length deliv <= p + n)%nat | None => True end.
Proof.
  unfold c09_alo_one, suffix_from. intros H. apply andb_prop in H. destruct H as (Hd & H).
  destruct (length rec <=? length app)%nat; [|discriminate].
  destruct (outs_are rec (skipn (length app - length rec) app)) eqn:Er; [|discriminate].
  apply andb_prop in H. destruct H as (H1 & H2).
  exists (length app - length rec)%nat. repeat split; auto; [lia|]. destruct bound; [lia|exact I].
Qed.
