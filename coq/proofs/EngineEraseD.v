(* EngineEraseD.v — the simulation of EngineErase.v for a weaker relation: the reader's tail
   fields may DIFFER on the two sides when both are "dead", i.e. name a block id that is
   neither the current writer block's id nor an id the allocator can still hand out.  The tail
   fields are only ever compared against the current writer block (or the block being filled
   by a batch plan: the old writer or a freshly allocated one), so dead tails behave alike. *)
From W Require Import model.Base model.Engine spec.Queue proofs.EngineBasic proofs.EngineWF proofs.EngineInv
  proofs.EngineBR proofs.EngineW proofs.EngineMain proofs.EngineErase.
From Coq Require Import ZArith ZifyBool ZifyN ZifyNat.

(* ------------------------------------------------------------------ the relation *)
Definition dead (nid : N) (wo : option blk) (tb : N) : Prop :=
  tb < nid /\ forall w, wo = Some w -> b_id w <> tb.

Record rsimD (nid : N) (wo : option blk) (r r' : reader) : Prop := {
  rd_chain : r_chain r' = r_chain r;
  rd_tail  : (r_tail_bid r' = r_tail_bid r /\ r_tail_off r' = r_tail_off r) \/
             (dead nid wo (r_tail_bid r) /\ dead nid wo (r_tail_bid r'));
  rd_since : r_since r' = r_since r;
  rd_norm  : cur_norm (r_chain r') (r_idx r') (r_off r') = cur_norm (r_chain r) (r_idx r) (r_off r) }.

Record tsimD (nid : N) (ts ts' : tstate) : Prop := {
  td_writer : ts_writer ts' = ts_writer ts;
  td_poison : ts_poisoned ts' = ts_poisoned ts;
  td_count  : ts_count ts' = ts_count ts;
  td_index  : ts_index ts' = ts_index ts;
  td_unm    : ts_unmodelled ts' = ts_unmodelled ts;
  td_reader : rsimD nid (ts_writer ts) (reader_of ts) (reader_of ts') }.

Definition ssimD (s s' : st) : Prop :=
  s_alloc s' = s_alloc s /\ s_disk s' = s_disk s /\ s_files s' = s_files s /\
  forall t, tsimD (a_next (s_alloc s)) (get_ts s t) (get_ts s' t).

(* the same with the id bound as a parameter: inside an operation the allocator moves on while
   the relation is still the one of the operation's start *)
Definition ssimG (nid : N) (s s' : st) : Prop :=
  s_alloc s' = s_alloc s /\ s_disk s' = s_disk s /\ s_files s' = s_files s /\
  forall t, tsimD nid (get_ts s t) (get_ts s' t).

Lemma ssimD_G s s' : ssimD s s' -> ssimG (a_next (s_alloc s)) s s'. Proof. exact (fun H => H). Qed.
Lemma ssimG_D nid s s' : ssimG nid s s' -> a_next (s_alloc s) = nid -> ssimD s s'.
Proof. intros H <-. exact H. Qed.

Definition tailD (nid : N) (wo : option blk) (r r' : reader) : Prop :=
  (r_tail_bid r' = r_tail_bid r /\ r_tail_off r' = r_tail_off r) \/
  (dead nid wo (r_tail_bid r) /\ dead nid wo (r_tail_bid r')).

Lemma dead_neqb nid wo tb w : dead nid wo tb -> wo = Some w -> (tb =? b_id w) = false.
Proof. intros [_ H] E. apply N.eqb_neq. intros Heq. exact (H w E (eq_sym Heq)). Qed.

Lemma dead_change nid nid' wo wo' tb : dead nid wo tb -> nid <= nid' ->
  (forall w, wo' = Some w -> b_id w <> tb) -> dead nid' wo' tb.
Proof. intros [H1 H2] Hle H. split; [lia|exact H]. Qed.

Lemma tailD_change nid nid' wo wo' r r' : tailD nid wo r r' -> nid <= nid' ->
  (forall tb w, dead nid wo tb -> wo' = Some w -> b_id w <> tb) -> tailD nid' wo' r r'.
Proof.
  intros [H|[D1 D2]] Hle Hw; [left; exact H|right].
  split; (eapply dead_change; [eassumption|exact Hle|]); intros w E; eapply Hw; eauto.
Qed.

Lemma rsimD_change nid nid' wo wo' r r' : rsimD nid wo r r' -> nid <= nid' ->
  (forall tb w, dead nid wo tb -> wo' = Some w -> b_id w <> tb) -> rsimD nid' wo' r r'.
Proof.
  intros [A1 A2 A3 A4] Hle Hw. constructor; auto. exact (tailD_change _ _ _ _ _ _ A2 Hle Hw).
Qed.

Lemma rsimD_mono nid nid' wo r r' : rsimD nid wo r r' -> nid <= nid' -> rsimD nid' wo r r'.
Proof. intros H Hle. eapply rsimD_change; eauto. intros tb w [_ D] E. exact (D w E). Qed.

Lemma tsimD_mono nid nid' ts ts' : tsimD nid ts ts' -> nid <= nid' -> tsimD nid' ts ts'.
Proof. intros [A1 A2 A3 A4 A5 A6] Hle. constructor; auto. eapply rsimD_mono; eauto. Qed.

Lemma ssimG_mono nid nid' s s' : ssimG nid s s' -> nid <= nid' -> ssimG nid' s s'.
Proof.
  intros (A1 & A2 & A3 & A4) Hle. split; [exact A1|]. split; [exact A2|]. split; [exact A3|].
  intros t0. eapply tsimD_mono; eauto.
Qed.

(* ------------------------------------------------------------------ equivalence *)
Lemma rsim_rsimD nid wo r r' : rsim r r' -> rsimD nid wo r r'.
Proof. intros [A1 A2 A3 A4 A5]. constructor; auto. Qed.
Lemma tsim_tsimD nid ts ts' : tsim ts ts' -> tsimD nid ts ts'.
Proof. intros [A1 A2 A3 A4 A5 A6]. constructor; auto. now apply rsim_rsimD. Qed.
Lemma ssim_ssimD s s' : ssim s s' -> ssimD s s'.
Proof.
  intros (A1 & A2 & A3 & A4). split; [exact A1|]. split; [exact A2|]. split; [exact A3|].
  intros t0. apply tsim_tsimD, A4.
Qed.

Lemma rsimD_refl nid wo r : rsimD nid wo r r. Proof. constructor; auto. Qed.
Lemma tsimD_refl nid ts : tsimD nid ts ts. Proof. constructor; auto. apply rsimD_refl. Qed.
Lemma ssimD_refl s : ssimD s s. Proof. apply ssim_ssimD, ssim_refl. Qed.

Lemma rsimD_sym nid wo a b : rsimD nid wo a b -> rsimD nid wo b a.
Proof.
  intros [A1 A2 A3 A4]. constructor; try congruence.
  destruct A2 as [[E1 E2]|[D1 D2]]; [left; split; congruence|right; split; assumption].
Qed.
Lemma tsimD_sym nid a b : tsimD nid a b -> tsimD nid b a.
Proof. intros [A1 A2 A3 A4 A5 A6]. constructor; try congruence. rewrite A1. now apply rsimD_sym. Qed.
Lemma ssimG_sym nid a b : ssimG nid a b -> ssimG nid b a.
Proof.
  intros (A1 & A2 & A3 & A4). split; [congruence|]. split; [congruence|]. split; [congruence|].
  intros t0. apply tsimD_sym, A4.
Qed.
Lemma ssimD_sym s s' : ssimD s s' -> ssimD s' s.
Proof.
  intros H. pose proof H as (A1 & _). apply (ssimG_D (a_next (s_alloc s))); [|now rewrite A1].
  apply ssimG_sym. exact H.
Qed.

Lemma rsimD_trans nid wo a b c : rsimD nid wo a b -> rsimD nid wo b c -> rsimD nid wo a c.
Proof.
  intros [A1 A2 A3 A4] [B1 B2 B3 B4]. constructor; try congruence.
  destruct A2 as [[E1 E2]|[D1 D2]], B2 as [[F1 F2]|[G1 G2]].
  - left; split; congruence.
  - right. split; [now rewrite <- E1|exact G2].
  - right. split; [exact D1|now rewrite F1].
  - right. split; assumption.
Qed.
Lemma tsimD_trans nid a b c : tsimD nid a b -> tsimD nid b c -> tsimD nid a c.
Proof.
  intros [A1 A2 A3 A4 A5 A6] [B1 B2 B3 B4 B5 B6]. constructor; try congruence.
  rewrite A1 in B6. eapply rsimD_trans; eauto.
Qed.
Lemma ssimG_trans nid a b c : ssimG nid a b -> ssimG nid b c -> ssimG nid a c.
Proof.
  intros (A1 & A2 & A3 & A4) (B1 & B2 & B3 & B4). split; [congruence|]. split; [congruence|]. split; [congruence|].
  intros t0. eapply tsimD_trans; eauto.
Qed.
Lemma ssimD_trans s1 s2 s3 : ssimD s1 s2 -> ssimD s2 s3 -> ssimD s1 s3.
Proof.
  intros H1 H2. pose proof H1 as (A1 & _). apply ssimD_G in H2. rewrite A1 in H2.
  exact (ssimG_trans _ _ _ _ H1 H2).
Qed.

(* ------------------------------------------------------------------ building blocks *)
Lemma ssimG_set nid s s' t ts ts' : ssimG nid s s' -> tsimD nid ts ts' -> ssimG nid (set_ts s t ts) (set_ts s' t ts').
Proof.
  intros (A1 & A2 & A3 & A4) Ht. split; [exact A1|]. split; [exact A2|]. split; [exact A3|].
  intros t0. destruct (N.eq_dec t0 t) as [->|Hne]; [now rewrite !get_set_same|]. rewrite !get_set_other by exact Hne. apply A4.
Qed.
Lemma ssimD_set s s' t ts ts' : ssimD s s' -> tsimD (a_next (s_alloc s)) ts ts' -> ssimD (set_ts s t ts) (set_ts s' t ts').
Proof. intros H Ht. exact (ssimG_set _ _ _ _ _ _ H Ht). Qed.
Lemma ssimG_get nid s s' t : ssimG nid s s' -> tsimD nid (get_ts s t) (get_ts s' t).
Proof. intros (_ & _ & _ & H). apply H. Qed.

(* readers that agree on everything but (possibly) dead tails *)
Record reqD (nid : N) (wo : option blk) (r r' : reader) : Prop := {
  rq_chain : r_chain r' = r_chain r;
  rq_idx : r_idx r' = r_idx r;
  rq_off : r_off r' = r_off r;
  rq_tail : tailD nid wo r r';
  rq_since : r_since r' = r_since r;
  rq_hyd : r_hydrated r' = r_hydrated r }.

Lemma reqD_rsimD nid wo r r' : reqD nid wo r r' -> rsimD nid wo r r'.
Proof. intros [A1 A2 A3 A4 A5 A6]. constructor; auto. now rewrite A1, A2, A3. Qed.

Lemma set_cur_reqD nid wo r r' i o : reqD nid wo r r' -> reqD nid wo (set_cur r i o) (set_cur r' i o).
Proof. intros [A1 A2 A3 A4 A5 A6]. constructor; cbn; auto. Qed.
Lemma set_tail_reqD nid wo r r' b o : reqD nid wo r r' -> reqD nid wo (set_tail r b o) (set_tail r' b o).
Proof. intros [A1 A2 A3 A4 A5 A6]. constructor; cbn; auto. left. cbn. auto. Qed.
Lemma set_since_reqD nid wo r r' n : reqD nid wo r r' -> reqD nid wo (set_since r n) (set_since r' n).
Proof. intros [A1 A2 A3 A4 A5 A6]. constructor; cbn; auto. Qed.

Lemma sp_reqD nid wo m r r' force : reqD nid wo r r' ->
  snd (should_persist m r' force) = snd (should_persist m r force) /\
  reqD nid wo (fst (should_persist m r force)) (fst (should_persist m r' force)).
Proof.
  intros H. unfold should_persist. destruct m as [|n]; [split; [reflexivity|exact H]|].
  destruct force; [split; [reflexivity|now apply set_since_reqD]|].
  rewrite (rq_since _ _ _ _ H). destruct (N.max n 1 <=? N.min (r_since r + 1) u32_max); cbn [fst snd];
    (split; [reflexivity|now apply set_since_reqD]).
Qed.

Lemma with_reader_tsimD nid ts ts' r r' : tsimD nid ts ts' -> rsimD nid (ts_writer ts) r r' ->
  tsimD nid (with_reader ts r) (with_reader ts' r').
Proof. intros [A1 A2 A3 A4 A5 A6] Hr. constructor; cbn; auto. Qed.
Lemma count_sub_tsimD nid x y d : tsimD nid x y -> tsimD nid (count_sub x d) (count_sub y d).
Proof. intros [X1 X2 X3 X4 X5 X6]. unfold count_sub. destruct (d =? 0); [constructor; auto|]. constructor; cbn; auto. now rewrite X3. Qed.
Lemma persist_tsimD nid x y tl a off : tsimD nid x y -> tsimD nid (persist x tl a off) (persist y tl a off).
Proof. intros [X1 X2 X3 X4 X5 X6]. constructor; cbn; auto. Qed.

(* ------------------------------------------------------------------ read_next *)
Lemma read_next_simD c m s s' t ck :
  ssimD s s' ->
  (r_hydrated (reader_of (get_ts s (t_id t))) = false -> ts_index (get_ts s (t_id t)) = None) ->
  (r_hydrated (reader_of (get_ts s' (t_id t))) = false -> ts_index (get_ts s' (t_id t)) = None) ->
  let '(s1, r1) := read_next c m s t ck in
  let '(s1', r1') := read_next c m s' t ck in
  r1' = r1 /\ ssimD s1 s1'.
Proof.
  intros Hs Hh Hh'. pose proof Hs as (A1 & A2 & A3 & A4).
  pose proof (A4 (t_id t)) as Ht. pose proof Ht as [Tw Tp Tc Ti Tu [Rc Rt Rs Rn]].
  unfold read_next.
  set (nid := a_next (s_alloc s)) in *.
  set (ts := get_ts s (t_id t)) in *. set (ts' := get_ts s' (t_id t)) in *.
  rewrite (hydrate_trivial (reader_of ts) (ts_index ts) false Hh).
  rewrite (hydrate_trivial (reader_of ts') (ts_index ts') false Hh').
  destruct (hyd0_fields (reader_of ts)) as (F1 & F2 & F3 & F4 & F5 & F6 & F7).
  destruct (hyd0_fields (reader_of ts')) as (G1 & G2 & G3 & G4 & G5 & G6 & G7).
  rewrite F1, F2, F3, G1, G2, G3.
  unfold cur_norm in Rn.
  pose proof (rn_walk_hit (skipn (r_idx (reader_of ts)) (r_chain (reader_of ts))) (r_idx (reader_of ts)) (r_off (reader_of ts)) (r_chain (reader_of ts)) eq_refl) as H1.
  pose proof (rn_walk_hit (skipn (r_idx (reader_of ts')) (r_chain (reader_of ts'))) (r_idx (reader_of ts')) (r_off (reader_of ts')) (r_chain (reader_of ts')) eq_refl) as H2.
  destruct (rn_walk (skipn (r_idx (reader_of ts)) (r_chain (reader_of ts))) (r_idx (reader_of ts)) (r_off (reader_of ts))) as [[i o] hit].
  destruct (rn_walk (skipn (r_idx (reader_of ts')) (r_chain (reader_of ts'))) (r_idx (reader_of ts')) (r_off (reader_of ts'))) as [[i' o'] hit'].
  inversion Rn; subst i' o'. destruct H1 as (H1 & _). destruct H2 as (H2 & _). rewrite Rc in H2. rewrite <- H1 in H2. subst hit'.
  set (wo := ts_writer ts) in *.
  assert (Er : reqD nid wo (set_cur (hyd0 (reader_of ts)) i o) (set_cur (hyd0 (reader_of ts')) i o)).
  { constructor; cbn [set_cur r_chain r_idx r_off r_tail_bid r_tail_off r_since r_hydrated]; try congruence.
    unfold tailD. cbn [set_cur r_chain r_idx r_off r_tail_bid r_tail_off r_since r_hydrated]. rewrite F4, F5, G4, G5. exact Rt. }
  set (r3 := set_cur (hyd0 (reader_of ts)) i o) in *. set (r3' := set_cur (hyd0 (reader_of ts')) i o) in *.
  assert (Ewr : forall r r', reqD nid wo r r' -> tsimD nid (with_reader ts r) (with_reader ts' r')).
  { intros r r' Hr. apply with_reader_tsimD; [exact Ht|]. now apply reqD_rsimD. }
  destruct hit as [b|].
  - destruct (block_read c b o) as [[e consumed]|].
    + destruct ck.
      * pose proof (sp_reqD nid wo m _ _ false (set_cur_reqD nid wo r3 r3' i (o + consumed) Er)) as Hsp.
        destruct (should_persist m (set_cur r3 i (o + consumed)) false) as [r5 p].
        destruct (should_persist m (set_cur r3' i (o + consumed)) false) as [r5' p'].
        cbn [fst snd] in Hsp. destruct Hsp as (-> & Hr5).
        split; [reflexivity|]. apply ssimD_set; [exact Hs|]. apply count_sub_tsimD. destruct p; [apply persist_tsimD|]; now apply Ewr.
      * split; [reflexivity|]. apply ssimD_set; [exact Hs|now apply Ewr].
    + split; [reflexivity|]. apply ssimD_set; [exact Hs|now apply Ewr].
  - rewrite Tw, Tp. fold wo. destruct wo as [w|] eqn:Ewo; [|split; [reflexivity|apply ssimD_set; [exact Hs|now apply Ewr]]].
    destruct (ts_poisoned ts); [split; [reflexivity|apply ssimD_set; [exact Hs|now apply Ewr]]|].
    assert (Hst : (if r_tail_bid r3' =? b_id w then r_tail_off r3' else 0) = (if r_tail_bid r3 =? b_id w then r_tail_off r3 else 0)).
    { destruct (rq_tail _ _ _ _ Er) as [[E1 E2]|[D1 D2]]; [now rewrite E1, E2|].
      now rewrite (dead_neqb _ _ _ w D1 eq_refl), (dead_neqb _ _ _ w D2 eq_refl). }
    rewrite Hst. set (start := if r_tail_bid r3 =? b_id w then r_tail_off r3 else 0).
    assert (Hpair : exists r4 r4' (f : tstate -> tstate), (forall x y, tsimD nid x y -> tsimD nid (f x) (f y)) /\
              (forall x, ts_writer (f x) = ts_writer x) /\ reqD nid (Some w) r4 r4' /\
              (if ck && (start =? 0) && (0 <? b_used w) then let '(r', p) := should_persist m r3 true in (r', if p then persist ts true (b_id w) start else ts) else (r3, ts)) = (r4, f ts) /\
              (if ck && (start =? 0) && (0 <? b_used w) then let '(r', p) := should_persist m r3' true in (r', if p then persist ts' true (b_id w) start else ts') else (r3', ts')) = (r4', f ts')).
    { destruct (ck && (start =? 0) && (0 <? b_used w)).
      - pose proof (sp_reqD nid (Some w) m _ _ true Er) as Hsp.
        destruct (should_persist m r3 true) as [r4 p]. destruct (should_persist m r3' true) as [r4' p'].
        cbn [fst snd] in Hsp. destruct Hsp as (-> & Hr4). destruct p.
        + exists r4, r4', (fun x => persist x true (b_id w) start). split; [intros; now apply persist_tsimD|]. split; [reflexivity|]. split; [exact Hr4|]. split; reflexivity.
        + exists r4, r4', (fun x => x). split; [auto|]. split; [reflexivity|]. split; [exact Hr4|]. split; reflexivity.
      - exists r3, r3', (fun x => x). split; [auto|]. split; [reflexivity|]. split; [exact Er|]. split; reflexivity. }
    destruct Hpair as (r4 & r4' & f & Hf & Hfw & Hr4 & E1 & E2). rewrite E1, E2.
    assert (Hf1 : forall r r', reqD nid (Some w) r r' -> tsimD nid (with_reader (f ts) r) (with_reader (f ts') r')).
    { intros r r' Hr. apply with_reader_tsimD; [now apply Hf|]. rewrite Hfw. fold wo. rewrite Ewo. now apply reqD_rsimD. }
    destruct (start <? b_used w); [|split; [reflexivity|apply ssimD_set; [exact Hs|now apply Hf1]]].
    destruct (block_read c w start) as [[e consumed]|]; [|split; [reflexivity|apply ssimD_set; [exact Hs|now apply Hf1]]].
    destruct ck; [|split; [reflexivity|apply ssimD_set; [exact Hs|now apply Hf1]]].
    pose proof (sp_reqD nid (Some w) m _ _ false (set_tail_reqD nid (Some w) r4 r4' (b_id w) (start + consumed) Hr4)) as Hsp.
    destruct (should_persist m (set_tail r4 (b_id w) (start + consumed)) false) as [r6 p].
    destruct (should_persist m (set_tail r4' (b_id w) (start + consumed)) false) as [r6' p'].
    cbn [fst snd] in Hsp. destruct Hsp as (-> & Hr6).
    split; [reflexivity|]. apply ssimD_set; [exact Hs|]. apply count_sub_tsimD. destruct p; [apply persist_tsimD|]; now apply Hf1.
Qed.

(* ------------------------------------------------------------------ batch_read (stateful) *)
(* a dead tail id in the start position is as good as any other dead one *)
Lemma br_from_dead c m s t maxb ck ts r1 ch idx off tb tof tb2 tof2 tr h nid :
  dead nid (ts_writer ts) tb -> dead nid (ts_writer ts) tb2 ->
  br_from c m s t maxb ck ts (r1, ch, idx, off, tb, tof, tr, h, false) =
  br_from c m s t maxb ck ts (r1, ch, idx, off, tb2, tof2, tr, h, false).
Proof.
  intros D1 D2. unfold br_from. cbn zeta.
  destruct (plan_sealed c maxb false (skipn idx ch) idx off h 0 []) as [[[racc planned] idx_after] truncated].
  destruct (negb truncated && (length ch <=? idx_after)%nat); [|reflexivity].
  destruct (ts_poisoned ts); [reflexivity|].
  destruct (ts_writer ts) as [w|] eqn:Ew; [|reflexivity].
  now rewrite (dead_neqb _ _ _ w D1 eq_refl), (dead_neqb _ _ _ w D2 eq_refl).
Qed.

Lemma br_from_simD_aux c m s s' t maxb ck ts ts' r r' ch idx off idx' off' tb tof :
  ssimD s s' -> tsimD (a_next (s_alloc s)) ts ts' ->
  r_chain r = ch -> r_chain r' = ch -> tailD (a_next (s_alloc s)) (ts_writer ts) r r' ->
  r_since r' = r_since r -> r_hydrated r' = r_hydrated r ->
  r_idx r = idx -> r_off r = off -> r_idx r' = idx' -> r_off r' = off' ->
  cur_norm ch idx' off' = cur_norm ch idx off ->
  let '(s1, r1) := br_from c m s t maxb ck ts (Some r, ch, idx, off, tb, tof, 0, 0, false) in
  let '(s1', r1') := br_from c m s' t maxb ck ts' (Some r', ch, idx', off', tb, tof, 0, 0, false) in
  r1' = r1 /\ ssimD s1 s1'.
Proof.
  intros Hs Ht C1 C2 C3 C5 C6 I1 O1 I2 O2 Hn. pose proof Ht as [Tw Tp Tc Ti Tu Tr].
  set (nid := a_next (s_alloc s)) in *.
  unfold br_from. cbn zeta. rewrite Tw, Tp.
  rewrite (plan_sealed_cur_norm c maxb ch idx off idx' off' Hn).
  destruct (plan_sealed c maxb false (skipn idx ch) idx off 0 0 []) as [[[racc planned] idx_after] truncated].
  match goal with |- context [if negb truncated && ?b then ?x else ?y] => destruct (if negb truncated && b then x else y) as [racc2 trim1] end.
  assert (Hrr : rsimD nid (ts_writer ts) r r').
  { constructor; [congruence|exact C3|congruence|rewrite C1, C2, I1, O1, I2, O2; exact Hn]. }
  assert (Hh : tsimD nid (with_reader ts r) (with_reader ts' r')) by (now apply with_reader_tsimD).
  destruct racc2 as [|it racc2]; [split; [reflexivity|apply ssimD_set; assumption]|].
  set (p := parse_plan c maxb (rev (it :: racc2)) _).
  split; [reflexivity|]. apply ssimD_set; [exact Hs|]. fold nid.
  cbn [negb]. rewrite !andb_true_r.
  cbn [reader_of with_reader ts_reader].
  assert (Hwr : forall q q', rsimD nid (ts_writer ts) q q' -> tsimD nid (with_reader (with_reader ts r) q) (with_reader (with_reader ts' r') q')).
  { intros q q' Hq. apply with_reader_tsimD; [exact Hh|exact Hq]. }
  destruct ((0 <? ps_parsed p) && ck) eqn:Ecommit.
  - assert (Hck : ck = true) by (destruct ck; [reflexivity|now rewrite andb_false_r in Ecommit]). subst ck.
    apply count_sub_tsimD.
    destruct m as [|n].
    + destruct (ps_saw_tail p); apply persist_tsimD; apply Hwr; constructor; unfold set_tail, set_cur;
        cbn [r_chain r_idx r_off r_tail_bid r_tail_off r_since r_hydrated]; try congruence; try (left; split; reflexivity); try exact C3.
    + rewrite C5. destruct (ps_saw_tail p); apply Hwr; constructor; unfold set_tail, set_cur, set_since;
        cbn [r_chain r_idx r_off r_tail_bid r_tail_off r_since r_hydrated]; try congruence; try (left; split; reflexivity); try exact C3.
  - destruct ck; [apply count_sub_tsimD|]; exact Hh.
Qed.

Lemma br_from_simD c m s s' t maxb ck ts ts' r r' :
  ssimD s s' -> tsimD (a_next (s_alloc s)) ts ts' ->
  rsimD (a_next (s_alloc s)) (ts_writer ts) r r' -> r_hydrated r' = r_hydrated r ->
  let '(s1, r1) := br_from c m s t maxb ck ts (Some r, r_chain r, r_idx r, r_off r, r_tail_bid r, r_tail_off r, 0, 0, false) in
  let '(s1', r1') := br_from c m s' t maxb ck ts' (Some r', r_chain r', r_idx r', r_off r', r_tail_bid r', r_tail_off r', 0, 0, false) in
  r1' = r1 /\ ssimD s1 s1'.
Proof.
  intros Hs Ht [Rc Rt Rs Rn] Hy. rewrite Rc in *.
  assert (E : br_from c m s' t maxb ck ts' (Some r', r_chain r, r_idx r', r_off r', r_tail_bid r', r_tail_off r', 0, 0, false) =
              br_from c m s' t maxb ck ts' (Some r', r_chain r, r_idx r', r_off r', r_tail_bid r, r_tail_off r, 0, 0, false)).
  { destruct Rt as [[E1 E2]|[D1 D2]]; [now rewrite E1, E2|].
    apply (br_from_dead _ _ _ _ _ _ _ _ _ _ _ _ _ _ _ _ _ (a_next (s_alloc s))); rewrite (td_writer _ _ _ Ht); assumption. }
  rewrite E. apply br_from_simD_aux; auto.
Qed.

Lemma batch_read_simD c m s s' t maxb ck start :
  ssimD s s' ->
  (r_hydrated (reader_of (get_ts s (t_id t))) = false -> ts_index (get_ts s (t_id t)) = None) ->
  (r_hydrated (reader_of (get_ts s' (t_id t))) = false -> ts_index (get_ts s' (t_id t)) = None) ->
  let '(s1, r1) := batch_read c m s t maxb ck start in
  let '(s1', r1') := batch_read c m s' t maxb ck start in
  r1' = r1 /\ ssimD s1 s1'.
Proof.
  intros Hs Hh Hh'. pose proof Hs as (A1 & A2 & A3 & A4).
  pose proof (A4 (t_id t)) as Ht. pose proof Ht as [Tw Tp Tc Ti Tu [Rc Rt Rs Rn]].
  destruct start as [st0|].
  - (* offset-addressed: reads the chain and the writer only, stores nothing *)
    destruct (batch_read_stateless c m s t maxb ck st0) as (os & E1).
    destruct (batch_read_stateless c m s' t maxb ck st0) as (os' & E2).
    rewrite E1, E2.
    assert (os' = os).
    { unfold batch_read in E1, E2.
      assert (Hp : br_position c (get_ts s' (t_id t)) (Some st0) = br_position c (get_ts s (t_id t)) (Some st0)).
      { unfold br_position.
        assert (Hch : match ts_reader (get_ts s' (t_id t)) with Some r => r_chain r | None => [] end =
                      match ts_reader (get_ts s (t_id t)) with Some r => r_chain r | None => [] end).
        { unfold reader_of in Rc. destruct (ts_reader (get_ts s' (t_id t))), (ts_reader (get_ts s (t_id t))); cbn in Rc; auto. }
        now rewrite Hch. }
      rewrite Hp in E2.
      destruct (br_position_stateless c (get_ts s (t_id t)) st0) as (chain & idx0 & off0 & tb & tof & trim0 & hint0 & Ep).
      rewrite Ep in E1, E2.
      unfold br_from in E1, E2. cbn zeta in E1, E2. rewrite Tw, Tp in E2.
      destruct (plan_sealed _ _ _ _ _ _ _ _ _) as [[[racc planned] idx_after] truncated].
      match type of E1 with context [let '(_, _) := ?X in _] => destruct X as [racc2 trim1] end.
      destruct racc2; [inversion E1; inversion E2; congruence|].
      cbn [negb] in E1, E2. rewrite !andb_false_r in E1, E2. inversion E1; inversion E2; congruence. }
    subst os'. split; [reflexivity|]. apply ssimD_set; [exact Hs|exact Ht].
  - unfold batch_read, br_position.
    set (ts := get_ts s (t_id t)) in *. set (ts' := get_ts s' (t_id t)) in *.
    rewrite (hydrate_trivial (reader_of ts) (ts_index ts) true Hh).
    rewrite (hydrate_trivial (reader_of ts') (ts_index ts') true Hh').
    destruct (hyd0_fields (reader_of ts)) as (F1 & F2 & F3 & F4 & F5 & F6 & F7).
    destruct (hyd0_fields (reader_of ts')) as (G1 & G2 & G3 & G4 & G5 & G6 & G7).
    apply br_from_simD; [exact Hs|exact Ht| |congruence].
    constructor; [congruence| |congruence|].
    + rewrite F4, F5, G4, G5. exact Rt.
    + rewrite F1, F2, F3, G1, G2, G3. exact Rn.
Qed.

(* ------------------------------------------------------------------ the write path *)
Lemma chain_push_rsimD nid wo r r' b : rsimD nid wo r r' ->
  (r_idx r <= length (r_chain r))%nat -> (r_idx r' <= length (r_chain r'))%nat ->
  (forall tb, dead nid wo tb -> b_id b <> tb) ->
  rsimD nid wo (chain_push r b) (chain_push r' b).
Proof.
  intros [A1 A2 A4 A5] H1 H2 Hb. unfold chain_push. destruct (b_used b =? 0); [constructor; auto|].
  destruct A2 as [[E1 E2]|[D1 D2]].
  - rewrite E1. destruct (r_tail_bid r =? b_id b).
    + constructor; cbn; [congruence|left; auto|congruence|rewrite A1, E2; reflexivity].
    + constructor; cbn; [congruence|left; auto|congruence|rewrite A1 in *; apply cur_norm_app; auto].
  - replace (r_tail_bid r =? b_id b) with false by (symmetry; apply N.eqb_neq; intros E; exact (Hb _ D1 (eq_sym E))).
    replace (r_tail_bid r' =? b_id b) with false by (symmetry; apply N.eqb_neq; intros E; exact (Hb _ D2 (eq_sym E))).
    constructor; cbn; [congruence|right; auto|congruence|rewrite A1 in *; apply cur_norm_app; auto].
Qed.

Lemma seal_tsimD nid ts ts' b : tsimD nid ts ts' ->
  (r_idx (reader_of ts) <= length (r_chain (reader_of ts)))%nat -> (r_idx (reader_of ts') <= length (r_chain (reader_of ts')))%nat ->
  (forall tb, dead nid (ts_writer ts) tb -> b_id b <> tb) ->
  tsimD nid (seal ts b) (seal ts' b).
Proof.
  intros [A1 A2 A3 A4 A5 A6] H1 H2 Hb. constructor; cbn; auto. now apply chain_push_rsimD.
Qed.

(* switching the writer: the new one must avoid the dead ids *)
Lemma with_writer_tsimD nid nid' ts ts' wo' : tsimD nid ts ts' -> nid <= nid' ->
  (forall tb w, dead nid (ts_writer ts) tb -> wo' = Some w -> b_id w <> tb) ->
  tsimD nid' (with_writer ts wo') (with_writer ts' wo').
Proof.
  intros [A1 A2 A3 A4 A5 A6] Hle Hw. constructor; cbn; auto.
  change (rsimD nid' wo' (reader_of ts) (reader_of ts')). eapply rsimD_change; eauto.
Qed.
Lemma count_add_tsimD nid ts ts' d : tsimD nid ts ts' -> tsimD nid (count_add ts d) (count_add ts' d).
Proof. intros [A1 A2 A3 A4 A5 A6]. unfold count_add. destruct (d =? 0); constructor; cbn; auto. now rewrite A3. Qed.
Lemma with_poison_tsimD nid ts ts' : tsimD nid ts ts' -> tsimD nid (with_poison ts) (with_poison ts').
Proof. intros [A1 A2 A3 A4 A5 A6]. constructor; cbn; auto. Qed.

Lemma mark_unmodelled_ssimG nid s s' t : ssimG nid s s' -> ssimG nid (mark_unmodelled s t) (mark_unmodelled s' t).
Proof.
  intros Hs. unfold mark_unmodelled. apply ssimG_set; [exact Hs|].
  destruct (ssimG_get _ _ _ t Hs) as [A1 A2 A3 A5 A6 A7]. constructor; cbn; auto.
Qed.
Lemma mark_unmodelled_ssimD s s' t : ssimD s s' -> ssimD (mark_unmodelled s t) (mark_unmodelled s' t).
Proof. intros Hs. exact (mark_unmodelled_ssimG _ _ _ t Hs). Qed.

Lemma alloc_first_ssimG nid c s s' : ssimG nid s s' ->
  snd (alloc_first c s') = snd (alloc_first c s) /\ ssimG nid (fst (alloc_first c s)) (fst (alloc_first c s')) /\
  b_id (snd (alloc_first c s)) = a_next (s_alloc s) /\
  a_next (s_alloc (fst (alloc_first c s))) = a_next (s_alloc s) + 1.
Proof.
  intros (A1 & A2 & A3 & A4). unfold alloc_first, disk_add. rewrite A1, A2, A3.
  destruct (c_file c <=? a_off (s_alloc s)); cbn; (split; [reflexivity|]); (split; [|split; reflexivity]);
    (split; [reflexivity|]); (split; [reflexivity|]); (split; [reflexivity|]); intros t0; exact (A4 t0).
Qed.

Lemma alloc_sized_ssimG nid c s s' want : ssimG nid s s' ->
  match alloc_sized c s want, alloc_sized c s' want with
  | None, None => True
  | Some (s1, b), Some (s1', b') => b' = b /\ ssimG nid s1 s1' /\ (forall t, get_ts s1 t = get_ts s t) /\ (forall t, get_ts s1' t = get_ts s' t) /\
                                   b_id b = a_next (s_alloc s) /\ a_next (s_alloc s1) = a_next (s_alloc s) + 1
  | _, _ => False
  end.
Proof.
  intros (A1 & A2 & A3 & A4). unfold alloc_sized, disk_add. rewrite A1, A2, A3.
  destruct ((want =? 0) || (c_max_alloc c <? want)); [exact I|].
  destruct (c_file c <? _); cbn; (split; [reflexivity|]); (split; [|split; [intros t0; reflexivity|split; [intros t0; reflexivity|split; reflexivity]]]);
    (split; [reflexivity|]); (split; [reflexivity|]); (split; [reflexivity|]); intros t0; exact (A4 t0).
Qed.

Lemma st_disk_write_ssimG nid s s' b t es : ssimG nid s s' -> ssimG nid (st_disk_write s b t es) (st_disk_write s' b t es).
Proof.
  intros (A1 & A2 & A3 & A4). unfold st_disk_write. cbn. rewrite A2.
  split; [exact A1|]. split; [reflexivity|]. split; [exact A3|]. intros t0; exact (A4 t0).
Qed.

Lemma ensure_writer_ssimD c s s' t : ssimD s s' ->
  snd (ensure_writer c s' t) = snd (ensure_writer c s t) /\ ssimD (fst (ensure_writer c s t)) (fst (ensure_writer c s' t)) /\
  (forall t0, reader_of (get_ts (fst (ensure_writer c s t)) t0) = reader_of (get_ts s t0)) /\
  (forall t0, reader_of (get_ts (fst (ensure_writer c s' t)) t0) = reader_of (get_ts s' t0)) /\
  ts_writer (get_ts (fst (ensure_writer c s t)) (t_id t)) = Some (snd (ensure_writer c s t)).
Proof.
  intros Hs. pose proof Hs as (A1 & A2 & A3 & A4). unfold ensure_writer.
  destruct (A4 (t_id t)) as [Tw _ _ _ _ _]. rewrite Tw.
  destruct (ts_writer (get_ts s (t_id t))) as [w|] eqn:Ew;
    [cbn [fst snd]; split; [reflexivity|]; split; [exact Hs|]; split; [intros; reflexivity|]; split; [intros; reflexivity|exact Ew]|].
  destruct (alloc_first_ssimG _ c s s' (ssimD_G _ _ Hs)) as (Hb & Hs1 & Hid & Hnx).
  pose proof (get_ts_alloc_first c s) as G1. pose proof (get_ts_alloc_first c s') as G2.
  destruct (alloc_first c s) as [s1 b]. destruct (alloc_first c s') as [s1' b']. cbn [fst snd] in *. subst b'.
  split; [reflexivity|]. split; [|split; [|split]].
  - apply (ssimG_D (a_next (s_alloc s) + 1)); [|exact Hnx].
    apply ssimG_set; [apply (ssimG_mono (a_next (s_alloc s))); [exact Hs1|lia]|].
    apply (with_writer_tsimD (a_next (s_alloc s))); [now apply ssimG_get|lia|].
    intros tb w0 [D _] E. inversion E; subst w0. lia.
  - intros t0; (destruct (N.eq_dec t0 (t_id t)) as [->|Hne]; [rewrite get_set_same|rewrite get_set_other by exact Hne]);
      unfold reader_of, with_writer; cbn [ts_reader]; rewrite ?G1; reflexivity.
  - intros t0; (destruct (N.eq_dec t0 (t_id t)) as [->|Hne]; [rewrite get_set_same|rewrite get_set_other by exact Hne]);
      unfold reader_of, with_writer; cbn [ts_reader]; rewrite ?G2; reflexivity.
  - rewrite get_set_same. reflexivity.
Qed.

(* writing one entry into the writer block [w] and counting it *)
Lemma write_entry_ssimG nid c s s' t w e d : ssimG nid s s' -> ts_writer (get_ts s (t_id t)) = Some w ->
  ssimG nid (set_ts (st_disk_write s w t [e]) (t_id t) (count_add (with_writer (get_ts (st_disk_write s w t [e]) (t_id t)) (Some (blk_add w c [e]))) d))
            (set_ts (st_disk_write s' w t [e]) (t_id t) (count_add (with_writer (get_ts (st_disk_write s' w t [e]) (t_id t)) (Some (blk_add w c [e]))) d)).
Proof.
  intros Hs Hw. apply ssimG_set; [now apply st_disk_write_ssimG|]. apply count_add_tsimD.
  rewrite !get_ts_disk_write. apply (with_writer_tsimD nid); [now apply ssimG_get|lia|].
  intros tb w0 D E. inversion E; subst w0. rewrite Hw in D. destruct D as [_ D]. exact (D w eq_refl).
Qed.

Lemma append_simD c s s' t e : ssimD s s' -> idx_ok s -> idx_ok s' ->
  let '(s1, r1) := append c s t e in
  let '(s1', r1') := append c s' t e in
  r1' = r1 /\ ssimD s1 s1'.
Proof.
  intros Hs Hi Hi'. unfold append.
  destruct (ensure_writer_ssimD c s s' t Hs) as (Hw & Hs1 & Hr1 & Hr1' & Hww).
  destruct (ensure_writer c s t) as [s1 w]. destruct (ensure_writer c s' t) as [s1' w']. cbn [fst snd] in *. subst w'.
  destruct (appendable c t (e_len e)); [split; [reflexivity|exact Hs1]|].
  pose proof (ssimD_G _ _ Hs1) as Hg1. set (n1 := a_next (s_alloc s1)) in *.
  pose proof (ssimG_get _ _ _ (t_id t) Hg1) as Ht. pose proof Ht as [Tw Tp Tc Ti Tu Tr]. rewrite Tp.
  destruct (ts_poisoned (get_ts s1 (t_id t))); [split; [reflexivity|exact Hs1]|].
  destruct (b_limit w <? b_used w + need c e).
  - (* rotation *)
    assert (Hseal : ssimG n1 (set_ts s1 (t_id t) (seal (get_ts s1 (t_id t)) w)) (set_ts s1' (t_id t) (seal (get_ts s1' (t_id t)) w))).
    { apply ssimG_set; [exact Hg1|]. apply seal_tsimD; [exact Ht| | |].
      - rewrite Hr1. apply Hi.
      - rewrite Hr1'. apply Hi'.
      - intros tb D. rewrite Hww in D. destruct D as [_ D]. exact (D w eq_refl). }
    pose proof (alloc_sized_ssimG n1 c _ _ (need c e) Hseal) as Ha.
    destruct (alloc_sized c (set_ts s1 (t_id t) (seal (get_ts s1 (t_id t)) w)) (need c e)) as [[s2 nb]|];
      destruct (alloc_sized c (set_ts s1' (t_id t) (seal (get_ts s1' (t_id t)) w)) (need c e)) as [[s2' nb']|]; try contradiction.
    + destruct Ha as (-> & Hs2 & _ & _ & Hid & Hnx).
      change (b_id nb = n1) in Hid. change (a_next (s_alloc s2) = n1 + 1) in Hnx.
      assert (Hs2w : ssimG (n1 + 1) (set_ts s2 (t_id t) (with_writer (get_ts s2 (t_id t)) (Some nb))) (set_ts s2' (t_id t) (with_writer (get_ts s2' (t_id t)) (Some nb)))).
      { apply ssimG_set; [apply (ssimG_mono n1); [exact Hs2|lia]|].
        apply (with_writer_tsimD n1); [now apply ssimG_get|lia|].
        intros tb w0 [D _] E. inversion E; subst w0. lia. }
      destruct (negb (name_ok c t)); [split; [reflexivity|apply (ssimG_D (n1 + 1)); [exact Hs2w|exact Hnx]]|].
      split; [reflexivity|]. apply (ssimG_D (n1 + 1)); [|exact Hnx]. apply write_entry_ssimG; [exact Hs2w|].
      rewrite get_set_same. reflexivity.
    + split; [reflexivity|]. apply (ssimG_D n1); [exact Hseal|reflexivity].
  - destruct (negb (name_ok c t)); [split; [reflexivity|exact Hs1]|].
    split; [reflexivity|]. apply (ssimG_D n1); [|reflexivity]. now apply write_entry_ssimG.
Qed.

(* batch planning: the running block [cur] is local to the plan: it is the old writer [w] or a
   block allocated by the plan, whose id is at least the bound [nid0] of the plan's start *)
Lemma batch_plan_simG c t nid0 w : forall es s s' cur rot, ssimG nid0 s s' -> idx_ok s -> idx_ok s' ->
  ts_writer (get_ts s (t_id t)) = Some w -> (b_id cur = b_id w \/ nid0 <= b_id cur) -> nid0 <= a_next (s_alloc s) ->
  let '(s1, c1, ok1, rot1) := batch_plan c s t cur rot es in
  let '(s1', c1', ok1', rot1') := batch_plan c s' t cur rot es in
  c1' = c1 /\ ok1' = ok1 /\ rot1' = rot1 /\ ssimG nid0 s1 s1' /\
  ts_writer (get_ts s1 (t_id t)) = Some w /\ (b_id c1 = b_id w \/ nid0 <= b_id c1) /\ nid0 <= a_next (s_alloc s1).
Proof.
  induction es as [|e es IH]; intros s s' cur rot Hs Hi Hi' Hw Hc Hn; cbn [batch_plan]; [auto 10|].
  destruct (need c e <=? b_limit cur - b_used cur).
  - apply IH; [now apply st_disk_write_ssimG| | | | |].
    + intros t0; rewrite get_ts_disk_write; auto.
    + intros t0; rewrite get_ts_disk_write; auto.
    + rewrite get_ts_disk_write. exact Hw.
    + exact Hc.
    + exact Hn.
  - assert (Hseal : ssimG nid0 (set_ts s (t_id t) (seal (get_ts s (t_id t)) cur)) (set_ts s' (t_id t) (seal (get_ts s' (t_id t)) cur))).
    { apply ssimG_set; [exact Hs|]. apply seal_tsimD; [now apply ssimG_get|apply Hi|apply Hi'|].
      intros tb D. rewrite Hw in D. destruct D as [D1 D2]. destruct Hc as [Hc|Hc]; [rewrite Hc; exact (D2 w eq_refl)|lia]. }
    pose proof (alloc_sized_ssimG nid0 c _ _ (N.max (need c e) (c_block c)) Hseal) as Ha.
    destruct (alloc_sized c (set_ts s (t_id t) (seal (get_ts s (t_id t)) cur)) (N.max (need c e) (c_block c))) as [[s2 nb]|];
      destruct (alloc_sized c (set_ts s' (t_id t) (seal (get_ts s' (t_id t)) cur)) (N.max (need c e) (c_block c))) as [[s2' nb']|]; try contradiction.
    + destruct Ha as (-> & Hs2 & G & G' & Hid & Hnx).
      change (b_id nb = a_next (s_alloc s)) in Hid. change (a_next (s_alloc s2) = a_next (s_alloc s) + 1) in Hnx.
      apply IH; [now apply st_disk_write_ssimG| | | | |].
      * intros t0. rewrite get_ts_disk_write, G.
        destruct (N.eq_dec t0 (t_id t)) as [->|Hne]; [rewrite get_set_same|rewrite get_set_other by exact Hne; apply Hi].
        cbn [seal reader_of ts_reader]. specialize (Hi (t_id t)). unfold chain_push.
        destruct (b_used cur =? 0); [exact Hi|]. destruct (r_tail_bid _ =? b_id cur); cbn; rewrite app_length; cbn; lia.
      * intros t0. rewrite get_ts_disk_write, G'.
        destruct (N.eq_dec t0 (t_id t)) as [->|Hne]; [rewrite get_set_same|rewrite get_set_other by exact Hne; apply Hi'].
        cbn [seal reader_of ts_reader]. specialize (Hi' (t_id t)). unfold chain_push.
        destruct (b_used cur =? 0); [exact Hi'|]. destruct (r_tail_bid _ =? b_id cur); cbn; rewrite app_length; cbn; lia.
      * rewrite get_ts_disk_write, G, get_set_same. exact Hw.
      * right. cbn [blk_add b_id]. lia.
      * change (nid0 <= a_next (s_alloc s2)). lia.
    + split; [reflexivity|]. split; [reflexivity|]. split; [reflexivity|]. split; [exact Hseal|].
      split; [rewrite get_set_same; exact Hw|]. split; [exact Hc|exact Hn].
Qed.

Lemma batch_simD c be s s' t es : ssimD s s' -> idx_ok s -> idx_ok s' ->
  let '(s1, r1) := batch c be s t es in
  let '(s1', r1') := batch c be s' t es in
  r1' = r1 /\ ssimD s1 s1'.
Proof.
  intros Hs Hi Hi'. unfold batch.
  destruct (ensure_writer_ssimD c s s' t Hs) as (Hw & Hs1 & Hr1 & Hr1' & Hww).
  destruct (ensure_writer c s t) as [s1 w]. destruct (ensure_writer c s' t) as [s1' w']. cbn [fst snd] in *. subst w'.
  destruct (c_max_entries c <? N.of_nat (length es)); [split; [reflexivity|exact Hs1]|].
  destruct (c_max_bytes c <? sum_need c es); [split; [reflexivity|exact Hs1]|].
  destruct (appendable c t (max_len es)); [split; [reflexivity|exact Hs1]|].
  destruct es as [|e0 es0]; [split; [reflexivity|exact Hs1]|].
  pose proof (ssimD_G _ _ Hs1) as Hg1. set (n1 := a_next (s_alloc s1)) in *.
  pose proof (ssimG_get _ _ _ (t_id t) Hg1) as [Tw Tp Tc Ti Tu Tr]. rewrite Tp.
  destruct (ts_poisoned (get_ts s1 (t_id t))); [split; [reflexivity|exact Hs1]|].
  assert (Hi1 : idx_ok s1) by (intros t0; rewrite Hr1; apply Hi).
  assert (Hi1' : idx_ok s1') by (intros t0; rewrite Hr1'; apply Hi').
  pose proof (batch_plan_simG c t n1 w (e0 :: es0) s1 s1' w false Hg1 Hi1 Hi1' Hww (or_introl eq_refl) (N.le_refl _)) as Hp.
  destruct (batch_plan c s1 t w false (e0 :: es0)) as [[[s2 wfin] okp] rot].
  destruct (batch_plan c s1' t w false (e0 :: es0)) as [[[s2' wfin'] okp'] rot'].
  destruct Hp as (-> & -> & -> & Hs2 & Hw2 & Hc2 & Hn2).
  assert (Hs2D : ssimD s2 s2') by (apply (ssimG_D (a_next (s_alloc s2))); [apply (ssimG_mono n1); assumption|reflexivity]).
  pose proof (mark_unmodelled_ssimD _ _ (t_id t) Hs2D) as HmD.
  destruct okp; cbn [negb].
  - destruct (negb (name_ok c t)).
    + destruct be.
      * split; [reflexivity|]. destruct rot.
        -- apply ssimD_set; [exact HmD|]. apply with_poison_tsimD. exact (ssimG_get _ _ _ (t_id t) (ssimD_G _ _ HmD)).
        -- apply ssimD_set; [exact Hs1|]. apply with_poison_tsimD. exact (ssimG_get _ _ _ (t_id t) Hg1).
      * split; [reflexivity|]. destruct rot; [exact HmD|exact Hs1].
    + split; [reflexivity|]. apply (ssimG_D (a_next (s_alloc s2))); [|reflexivity].
      apply ssimG_set; [apply (ssimG_mono n1); assumption|]. apply count_add_tsimD.
      apply (with_writer_tsimD n1); [now apply ssimG_get|exact Hn2|].
      intros tb w0 D E. inversion E; subst w0. rewrite Hw2 in D. destruct D as [D1 D2].
      destruct Hc2 as [Hc|Hc]; [rewrite Hc; exact (D2 w eq_refl)|lia].
  - split; [reflexivity|]. exact HmD.
Qed.

(* ------------------------------------------------------------------ one step *)
Lemma step_simD c m be s s' o : ssimD s s' -> GInv c s -> GInv c s' -> o <> OReopen ->
  let '(s1, r1) := step (env_of c m be) s o in
  let '(s1', r1') := step (env_of c m be) s' o in
  r1' = r1 /\ ssimD s1 s1'.
Proof.
  intros Hs Hg Hg' Hne. destruct o as [t e | t es | t ck | t maxb ck start | t | ]; cbn [step env_of v_cfg v_mode v_backend].
  - apply append_simD; [exact Hs|eapply GInv_idx; eauto|eapply GInv_idx; eauto].
  - apply batch_simD; [exact Hs|eapply GInv_idx; eauto|eapply GInv_idx; eauto].
  - apply read_next_simD; auto; intros H; eapply GInv_hyd; eauto.
  - apply batch_read_simD; auto; intros H; eapply GInv_hyd; eauto.
  - split; [|exact Hs]. destruct (ssimG_get _ _ _ (t_id t) (ssimD_G _ _ Hs)) as [_ _ Tc _ _ _]. now rewrite Tc.
  - congruence.
Qed.

(* the same, by projections *)
Corollary step_simD_proj c m be s s' o : ssimD s s' -> GInv c s -> GInv c s' -> o <> OReopen ->
  snd (step (env_of c m be) s' o) = snd (step (env_of c m be) s o) /\
  ssimD (fst (step (env_of c m be) s o)) (fst (step (env_of c m be) s' o)).
Proof.
  intros Hs Hg Hg' Hne. pose proof (step_simD c m be s s' o Hs Hg Hg' Hne) as H.
  destruct (step (env_of c m be) s o) as [s1 r1]. destruct (step (env_of c m be) s' o) as [s1' r1']. exact H.
Qed.
