(* EngineIdxL.v — the mode-generic versions of EngineIdx.v: reads in ANY mode and the persisted
   position.  A read either leaves [ts_index] as it was, or persists exactly the cursor of the
   reader it leaves behind ([PosIs]); in AtLeastOnce mode read_next has one more outcome, the
   provisional tail position (see [Prov] below). *)
From W Require Import model.Base model.Engine proofs.EngineWF proofs.EngineInv proofs.EngineBR proofs.EnginePos proofs.EngineIdx.
From Coq Require Import ZArith ZifyBool ZifyN ZifyNat.

Lemma sp_force m r : snd (should_persist m r true) = true.
Proof. destruct m; reflexivity. Qed.

(* the provisional position of an AtLeastOnce tail read: the consuming read that enters the
   writer block [w] at offset 0 persists (tail, id of w, 0) before it reads, and the read itself
   is then not persisted (the ALO counter has just been reset); what was unread before the read
   is exactly the content of [w] *)
Definition Prov (c : Cfg) (ck : bool) (ts ts' : tstate) : Prop :=
  exists w, ck = true /\ ts_writer ts = Some w /\
    ts_index ts' = Some {| p_tail := true; p_a := b_id w; p_off := 0 |} /\
    r_idx (reader_of ts') = length (chain_of ts') /\ unread c ts = b_ents w /\ b_ents w <> [].

Lemma read_next_spec_idxL c m s t ck nid : cfg_ok c ->
  TInv c nid (get_ts s (t_id t)) ->
  let ts := get_ts s (t_id t) in
  exists ts' res, read_next c m s t ck = (set_ts s (t_id t) ts', res) /\
    TInv c nid ts' /\ stream ts' = stream ts /\ ts_writer ts' = ts_writer ts /\
    chain_of ts' = chain_of ts /\ r_hydrated (reader_of ts') = true /\
    match unread c ts with
    | [] => res = RNone /\ unread c ts' = []
    | e :: rest => res = REntry (out_of e) /\ unread c ts' = (if ck then rest else e :: rest)
    end /\
    (ts_index ts' = ts_index ts \/ (exists p, ts_index ts' = Some p /\ PosIs ts' p) \/ Prov c ck ts ts').
Proof.
  intros (Hh & Hcfg) Hinv. cbv zeta. set (ts := get_ts s (t_id t)) in *.
  pose proof Hinv as [Hp Hu Hch Hw Hnd Hids Htl Hidx Hend Hcur Hst Htail Hhyd Hcnt].
  unfold read_next. fold ts.
  destruct (hydrate_fresh (reader_of ts) (ts_index ts) false Hhyd) as (r1 & Hhy & E1 & E2 & E3 & E4 & E5 & E6 & E7).
  rewrite Hhy. rewrite E1, E2, E3.
  pose proof (rn_walk_spec c Hh (skipn (r_idx (reader_of ts)) (r_chain (reader_of ts))) (r_idx (reader_of ts)) (r_off (reader_of ts))) as Hwalk.
  assert (A1 : Forall (bwf c) (skipn (r_idx (reader_of ts)) (r_chain (reader_of ts)))) by (apply Forall_skipn; exact Hch).
  assert (A2 : forall b r, skipn (r_idx (reader_of ts)) (r_chain (reader_of ts)) = b :: r -> okoff c (b_ents b) (r_off (reader_of ts))).
  { intros b r Hs. apply Hcur. unfold chain_of. eapply nth_error_skipn; eauto. }
  assert (A3 : skipn (r_idx (reader_of ts)) (r_chain (reader_of ts)) = [] -> r_off (reader_of ts) = 0).
  { intros Hs. apply Hend. apply skipn_nil_ge in Hs. unfold chain_of in *. lia. }
  specialize (Hwalk A1 A2 A3).
  destruct (rn_walk _ _ _) as [[i o] hit].
  (* the unread list in terms of the walk's input *)
  assert (Hun : unread c ts = (match skipn (r_idx (reader_of ts)) (r_chain (reader_of ts)) with
                               | b0 :: r0 => ents_from c (b_ents b0) (r_off (reader_of ts)) ++ chain_ents r0 ++ w_ents ts
                               | [] => match ts_writer ts with Some w => ents_from c (b_ents w) (tail_start ts w) | None => [] end
                               end)) by reflexivity.
  destruct hit as [b|].
  - (* an unread entry in the sealed chain *)
    destruct Hwalk as (pre & r' & Hrest & Hi & Hok & Hlt & Heq).
    assert (Hsk : skipn i (r_chain r1) = b :: r').
    { rewrite E1, Hi, skipn_add, Hrest. apply skipn_app_len. }
    assert (Hilt : (i < length (chain_of ts))%nat) by (unfold chain_of; rewrite <- E1; eapply skipn_len_lt; eauto).
    assert (Hbwf : bwf c b).
    { eapply Forall_forall; [exact Hch|]. unfold chain_of. rewrite <- E1. eapply nth_error_In, nth_error_skipn; eauto. }
    destruct Hbwf as (Hbu & _).
    assert (Hne : ents_from c (b_ents b) o <> []) by (apply okoff_nonempty; [exact Hok|lia]).
    destruct (ents_from c (b_ents b) o) as [|e re] eqn:Eef; [congruence|].
    assert (Hunread : unread c ts = e :: re ++ chain_ents r' ++ w_ents ts).
    { rewrite Hun. destruct (skipn (r_idx (reader_of ts)) (r_chain (reader_of ts))) as [|b0 r0] eqn:Es.
      - destruct pre; discriminate.
      - rewrite app_assoc, Heq, <- app_assoc. reflexivity. }
    rewrite Hunread.
    unfold block_read. rewrite (ents_from_view c _ _ _ _ Eef).
    destruct ck.
    + (* consuming *)
      pose proof (should_persist_fields m (set_cur (set_cur r1 i o) i (o + need c e)) false) as Hsp.
      destruct (should_persist m _ false) as [r5 p]. cbn [set_cur r_chain r_idx r_off r_tail_bid r_tail_off r_hydrated] in Hsp.
      destruct Hsp as (F1 & F2 & F3 & F4 & F5 & F6).
      set (idx' := if p then Some {| p_tail := false; p_a := N.of_nat i; p_off := o + need c e |} else ts_index ts).
      exists (mk_ts ts r5 (Some (cnt ts - 1)) idx'), (REntry (out_of e)).
      assert (Hur : unread c (mk_ts ts r5 (Some (cnt ts - 1)) idx') = re ++ chain_ents r' ++ w_ents ts).
      { rewrite unread_mk, F1, F2, F3, Hsk. now rewrite (ents_from_step c Hh _ _ _ _ Eef). }
      split; [|split; [|split; [|split; [|split; [|split; [|split; [split|]]]]]]].
      * f_equal. f_equal. unfold idx', mk_ts, count_sub, persist, with_index, with_reader, cnt, sat_sub. destruct p; cbn; reflexivity.
      * apply TInv_reader; auto.
        -- now rewrite F1, E1.
        -- now rewrite F4, E4.
        -- rewrite F2. lia.
        -- rewrite F2. lia.
        -- rewrite F2, F3. intros b' Hb'. unfold chain_of in Hb'. rewrite <- E1 in Hb'.
           rewrite (nth_error_skipn _ _ _ _ Hsk) in Hb'. inversion Hb'; subst b'.
           eapply okoff_step; eauto.
        -- rewrite F4, E4. intros _. apply Hst.
           (* the cursor was already inside the sealed chain, or the walk found a block there *)
           destruct (Nat.lt_ge_cases (r_idx (reader_of ts)) (length (chain_of ts))) as [Hl|Hg]; [exact Hl|].
           exfalso. assert (skipn (r_idx (reader_of ts)) (r_chain (reader_of ts)) = []) as Hn by (apply skipn_all2; exact Hg).
           rewrite Hn in Hrest. destruct pre; discriminate.
        -- rewrite F4, F5, E4, E5. exact Htail.
        -- now rewrite F6, E7.
        -- rewrite Hur. rewrite Hcnt, Hunread. cbn [length]. lia.
      * apply stream_mk. now rewrite F1, E1.
      * reflexivity.
      * rewrite chain_of_mk, F1. exact E1.
      * rewrite reader_of_mk, F6. exact E7.
      * reflexivity.
      * exact Hur.
      * unfold idx'. destruct p; [|left; reflexivity].
        right. left. eexists. split; [reflexivity|]. unfold PosIs. cbn [p_tail p_a p_off].
        rewrite reader_of_mk, chain_of_mk, F1, F2, F3, E1. repeat split. exact Hilt.
    + (* peek: only the walk's advance is kept *)
      exists (mk_ts ts (set_cur r1 i o) (ts_count ts) (ts_index ts)), (REntry (out_of e)).
      assert (Hur : unread c (mk_ts ts (set_cur r1 i o) (ts_count ts) (ts_index ts)) = e :: re ++ chain_ents r' ++ w_ents ts).
      { rewrite unread_mk. cbn [set_cur r_chain r_idx r_off]. rewrite Hsk, Eef. reflexivity. }
      split; [|split; [|split; [|split; [|split; [|split; [|split; [split|]]]]]]].
      * reflexivity.
      * apply TInv_reader; auto; cbn [set_cur r_chain r_idx r_off r_tail_bid r_tail_off r_hydrated].
        -- now rewrite E4.
        -- lia.
        -- lia.
        -- intros b' Hb'. unfold chain_of in Hb'. rewrite <- E1 in Hb'.
           rewrite (nth_error_skipn _ _ _ _ Hsk) in Hb'. inversion Hb'; subst b'. exact Hok.
        -- rewrite E4. intros _. apply Hst.
           destruct (Nat.lt_ge_cases (r_idx (reader_of ts)) (length (chain_of ts))) as [Hl|Hg]; [exact Hl|].
           exfalso. assert (skipn (r_idx (reader_of ts)) (r_chain (reader_of ts)) = []) as Hn by (apply skipn_all2; exact Hg).
           rewrite Hn in Hrest. destruct pre; discriminate.
        -- rewrite E4, E5. exact Htail.
        -- rewrite Hur. fold (cnt ts). rewrite Hcnt, Hunread. reflexivity.
      * apply stream_mk. cbn. exact E1.
      * reflexivity.
      * rewrite chain_of_mk. exact E1.
      * rewrite reader_of_mk. exact E7.
      * reflexivity.
      * exact Hur.
      * left. reflexivity.
  - (* the sealed chain is exhausted: tail path *)
    destruct Hwalk as (Hi & Ho & Heq). subst o.
    assert (Hilen : i = length (chain_of ts)).
    { unfold chain_of in *. rewrite Hi, skipn_length. lia. }
    assert (Hsk : skipn i (r_chain r1) = []) by (rewrite E1, Hilen; apply skipn_all).
    (* start offset in the writer block, and what is unread, in both sub-cases *)
    assert (Hstart : forall w, ts_writer ts = Some w ->
              unread c ts = ents_from c (b_ents w) (if r_tail_bid (reader_of ts) =? b_id w then r_tail_off (reader_of ts) else 0) /\
              okoff c (b_ents w) (if r_tail_bid (reader_of ts) =? b_id w then r_tail_off (reader_of ts) else 0)).
    { intros w Hw'. split; [|exact (Htail w Hw')].
      rewrite Hun. destruct (skipn (r_idx (reader_of ts)) (r_chain (reader_of ts))) as [|b0 r0] eqn:Es.
      - rewrite Hw'. reflexivity.
      - rewrite app_assoc, Heq. cbn [app]. unfold w_ents. rewrite Hw'.
        assert (Hl : (r_idx (reader_of ts) < length (chain_of ts))%nat) by (eapply skipn_len_lt; eauto).
        pose proof (Hst Hl w Hw') as Hneq.
        replace (r_tail_bid (reader_of ts) =? b_id w) with false by lia. now rewrite ents_from_0. }
    destruct (ts_writer ts) as [w|] eqn:Ew.
    + rewrite Hp. destruct (Hstart w eq_refl) as (Hunread & Hokw).
      cbn [set_cur r_tail_bid r_tail_off]. rewrite E4, E5.
      set (start := if r_tail_bid (reader_of ts) =? b_id w then r_tail_off (reader_of ts) else 0) in *.
      assert (Hwwf : bwf c w) by (unfold w_list in Hw; rewrite Ew in Hw; inversion Hw; assumption).
      destruct Hwwf as (Hwu & _).
      assert (Hwid : 0 < b_id w < nid).
      { eapply Forall_forall in Hids; [exact Hids|]. apply in_or_app. right. unfold w_list. rewrite Ew. left. reflexivity. }
      (* the provisional persist changes only the index and the ALO counter *)
      set (pr := if ck && (start =? 0) && (0 <? b_used w)
                 then let '(r', p) := should_persist m (set_cur r1 i 0) true in
                      (r', if p then persist ts true (b_id w) start else ts)
                 else (set_cur r1 i 0, ts)).
      assert (Hr4 : r_chain (fst pr) = r_chain r1 /\ r_idx (fst pr) = i /\ r_off (fst pr) = 0 /\
                    r_tail_bid (fst pr) = r_tail_bid r1 /\ r_tail_off (fst pr) = r_tail_off r1 /\ r_hydrated (fst pr) = true).
      { unfold pr. destruct (ck && (start =? 0) && (0 <? b_used w)).
        - pose proof (should_persist_fields m (set_cur r1 i 0) true) as Hsp.
          destruct (should_persist m (set_cur r1 i 0) true) as [r' p]. cbn [fst]. cbn in Hsp. destruct Hsp as (G1 & G2 & G3 & G4 & G5 & G6).
          repeat split; auto. now rewrite G6.
        - cbn. repeat split; auto. }
      assert (Hts1 : ts_writer (snd pr) = Some w /\ ts_poisoned (snd pr) = false /\ ts_unmodelled (snd pr) = false /\
                     ts_count (snd pr) = ts_count ts /\ (ts_reader (snd pr) = ts_reader ts) /\
                     ts_index (snd pr) = (if ck && (start =? 0) && (0 <? b_used w)
                                          then Some {| p_tail := true; p_a := b_id w; p_off := start |} else ts_index ts)).
      { unfold pr. destruct (ck && (start =? 0) && (0 <? b_used w));
          [pose proof (sp_force m (set_cur r1 i 0)) as Hf; destruct (should_persist m (set_cur r1 i 0) true) as [r' p];
           cbn [snd] in Hf; subst p|]; cbn; repeat split; auto. }
      fold pr. destruct pr as [r4 ts1]. cbn [fst snd] in Hr4, Hts1.
      destruct Hr4 as (G1 & G2 & G3 & G4 & G5 & G6). destruct Hts1 as (T1 & T2 & T3 & T4 & T5 & T6).
      destruct (start <? b_used w) eqn:Elt.
      * assert (Hne : ents_from c (b_ents w) start <> []) by (apply okoff_nonempty; [exact Hokw|lia]).
        destruct (ents_from c (b_ents w) start) as [|e re] eqn:Eef; [congruence|].
        rewrite Hunread. unfold block_read. rewrite (ents_from_view c _ _ _ _ Eef).
        destruct ck.
        -- pose proof (should_persist_fields m (set_tail r4 (b_id w) (start + need c e)) false) as Hsp.
           destruct (should_persist m _ false) as [r6 p]. cbn [set_tail r_chain r_idx r_off r_tail_bid r_tail_off r_hydrated] in Hsp.
           destruct Hsp as (F1 & F2 & F3 & F4 & F5 & F6).
           set (idx' := if p then Some {| p_tail := true; p_a := b_id w; p_off := start + need c e |} else ts_index ts1).
           exists (mk_ts ts r6 (Some (cnt ts - 1)) idx'), (REntry (out_of e)).
           assert (Hur : unread c (mk_ts ts r6 (Some (cnt ts - 1)) idx') = re).
           { rewrite unread_mk, F1, F2, G1, G2, Hsk, Ew, F4, F5, N.eqb_refl. now rewrite (ents_from_step c Hh _ _ _ _ Eef). }
           split; [|split; [|split; [|split; [|split; [|split; [|split; [split|]]]]]]].
           ++ f_equal. f_equal. unfold idx', mk_ts, count_sub, persist, with_index, with_reader, cnt, sat_sub.
              rewrite T1, T2, T3, T4. destruct p; cbn; rewrite ?Ew, ?Hp, ?Hu; reflexivity.
           ++ apply TInv_reader; auto.
              ** now rewrite F1, G1, E1.
              ** rewrite F4. lia.
              ** rewrite F2, G2. lia.
              ** rewrite F3, G3. reflexivity.
              ** rewrite F2, G2, Hilen. intros b' Hb'. exfalso. eapply nth_error_len_none; eauto.
              ** rewrite F2, G2. lia.
              ** rewrite F4, F5, Ew. intros w' Hw'. inversion Hw'; subst w'. rewrite N.eqb_refl. eapply okoff_step; eauto.
              ** now rewrite F6.
              ** rewrite Hur, Hcnt, Hunread. cbn [length]. lia.
           ++ apply stream_mk. now rewrite F1, G1, E1.
           ++ cbn. now rewrite Ew.
           ++ rewrite chain_of_mk, F1, G1. exact E1.
           ++ rewrite reader_of_mk, F6. exact G6.
           ++ reflexivity.
           ++ exact Hur.
           ++ unfold idx'. destruct p.
              { right. left. eexists. split; [reflexivity|]. unfold PosIs. cbn [p_tail p_a p_off]. exists w.
                rewrite reader_of_mk, chain_of_mk, tail_start_mk, F1, F2, F4, F5, G1, G2, E1, N.eqb_refl.
                split; [cbn; now rewrite Ew|]. split; [reflexivity|]. split; [exact Hilen|]. split; [reflexivity|].
                eapply ents_from_cons_nonempty; exact Eef. }
              cbn [andb] in T6. destruct (start =? 0) eqn:Es0; cbn [andb] in T6; [|left; cbn [mk_ts ts_index]; exact T6].
              assert (Hs0 : start = 0) by lia. replace (0 <? b_used w) with true in T6 by lia.
              right. right. exists w.
              split; [reflexivity|]. split; [exact Ew|]. split; [cbn [mk_ts ts_index]; rewrite T6, Hs0; reflexivity|].
              split; [rewrite reader_of_mk, chain_of_mk, F1, F2, G1, G2, E1; exact Hilen|].
              rewrite Hs0, ents_from_0 in Eef. rewrite Eef. split; [exact Hunread|discriminate].
        -- (* peek *)
           cbn [andb] in *.
           exists (mk_ts ts r4 (ts_count ts) (ts_index ts1)), (REntry (out_of e)).
           assert (Hur : unread c (mk_ts ts r4 (ts_count ts) (ts_index ts1)) = e :: re).
           { rewrite unread_mk, G1, G2, Hsk, Ew, G4, G5, E4, E5. fold start. exact Eef. }
           split; [|split; [|split; [|split; [|split; [|split; [|split; [split|]]]]]]].
           ++ f_equal. f_equal. unfold mk_ts, with_reader. rewrite T1, T2, T3, T4, Ew, Hp, Hu. reflexivity.
           ++ apply TInv_reader; auto.
              ** now rewrite G1, E1.
              ** now rewrite G4, E4.
              ** rewrite G2. lia.
              ** rewrite G2, Hilen. intros b' Hb'. exfalso. eapply nth_error_len_none; eauto.
              ** rewrite G2. lia.
              ** rewrite G4, G5, E4, E5, Ew. exact Htail.
              ** rewrite Hur. fold (cnt ts). rewrite Hcnt, Hunread. reflexivity.
           ++ apply stream_mk. now rewrite G1, E1.
           ++ cbn. now rewrite Ew.
           ++ rewrite chain_of_mk, G1. exact E1.
           ++ rewrite reader_of_mk. exact G6.
           ++ reflexivity.
           ++ exact Hur.
           ++ left. cbn [mk_ts ts_index]. exact T6.
      * (* caught up *)
        assert (Hnil : ents_from c (b_ents w) start = []) by (apply ents_from_end; [exact Hh|lia]).
        rewrite Hunread, Hnil.
        exists (mk_ts ts r4 (ts_count ts) (ts_index ts1)), RNone.
        assert (Hur : unread c (mk_ts ts r4 (ts_count ts) (ts_index ts1)) = []).
        { rewrite unread_mk, G1, G2, Hsk, Ew, G4, G5, E4, E5. fold start. exact Hnil. }
        split; [|split; [|split; [|split; [|split; [|split; [|split; [split|]]]]]]].
        -- f_equal. f_equal. unfold mk_ts, with_reader. rewrite T1, T2, T3, T4, Ew, Hp, Hu. reflexivity.
        -- apply TInv_reader; auto.
           ++ now rewrite G1, E1.
           ++ now rewrite G4, E4.
           ++ rewrite G2. lia.
           ++ rewrite G2, Hilen. intros b' Hb'. exfalso. eapply nth_error_len_none; eauto.
           ++ rewrite G2. lia.
           ++ rewrite G4, G5, E4, E5, Ew. exact Htail.
           ++ rewrite Hur. fold (cnt ts). rewrite Hcnt, Hunread, Hnil. reflexivity.
        -- apply stream_mk. now rewrite G1, E1.
        -- cbn. now rewrite Ew.
        -- rewrite chain_of_mk, G1. exact E1.
        -- rewrite reader_of_mk. exact G6.
        -- reflexivity.
        -- exact Hur.
        -- destruct (ck && (start =? 0) && (0 <? b_used w)) eqn:Eck; rewrite ?Eck in T6.
           ++ right. left. eexists. split; [cbn [mk_ts ts_index]; exact T6|]. unfold PosIs. cbn [p_tail p_a p_off]. exists w.
              rewrite reader_of_mk, chain_of_mk, tail_start_mk, G1, G2, G4, G5, E1, E4, E5.
              split; [cbn; now rewrite Ew|]. split; [reflexivity|]. split; [exact Hilen|]. split; [reflexivity|].
              intros Hwnil. rewrite Hwnil in Hwu. cbn [sum_need] in Hwu. lia.
           ++ left. cbn [mk_ts ts_index]. exact T6.
    + (* no writer yet *)
      assert (Hunread : unread c ts = []).
      { rewrite Hun. destruct (skipn (r_idx (reader_of ts)) (r_chain (reader_of ts))) as [|b0 r0] eqn:Es; [reflexivity|].
        rewrite app_assoc, Heq. unfold w_ents. now rewrite Ew. }
      rewrite Hunread.
      exists (mk_ts ts (set_cur r1 i 0) (ts_count ts) (ts_index ts)), RNone.
      assert (Hur : unread c (mk_ts ts (set_cur r1 i 0) (ts_count ts) (ts_index ts)) = []).
      { rewrite unread_mk. cbn [set_cur r_chain r_idx]. now rewrite Hsk, Ew. }
      split; [|split; [|split; [|split; [|split; [|split; [|split; [split|]]]]]]].
      * unfold mk_ts, with_reader; rewrite ?Ew; reflexivity.
      * apply TInv_reader; auto; cbn [set_cur r_chain r_idx r_off r_tail_bid r_tail_off r_hydrated].
        -- now rewrite E4.
        -- lia.
        -- rewrite Hilen. intros b' Hb'. exfalso. eapply nth_error_len_none; eauto.
        -- lia.
        -- rewrite Ew. intros; discriminate.
        -- rewrite Hur. fold (cnt ts). now rewrite Hcnt, Hunread.
      * apply stream_mk. exact E1.
      * cbn. now rewrite Ew.
      * rewrite chain_of_mk. exact E1.
      * rewrite reader_of_mk. exact E7.
      * reflexivity.
      * exact Hur.
      * left. reflexivity.
Qed.

Lemma batch_read_spec_idxL c m s t maxb ck nid : cfg_ok c ->
  TInv c nid (get_ts s (t_id t)) ->
  let ts := get_ts s (t_id t) in
  let U := unread c ts in
  exists ts' k, batch_read c m s t maxb ck None = (set_ts s (t_id t) ts', REntries (map out_of (firstn k U))) /\
    TInv c nid ts' /\ stream ts' = stream ts /\ ts_writer ts' = ts_writer ts /\
    chain_of ts' = chain_of ts /\ r_hydrated (reader_of ts') = true /\
    (k <= length U)%nat /\ (U <> [] -> (1 <= k)%nat) /\
    unread c ts' = (if ck then skipn k U else U) /\
    (ts_index ts' = ts_index ts \/ (exists p, ts_index ts' = Some p /\ PosIs ts' p)).
Proof.
  intros (Hh & Hb0 & Hba & Hbm & Hme & Hhb) Hinv ts U.
  pose proof Hinv as [Hp Hu Hch Hw Hnd Hids Htl Hidx Hend Hcur Hst Htail Hhyd Hcnt].
  fold ts in Hp, Hu, Hch, Hw, Hnd, Hids, Htl, Hidx, Hend, Hcur, Hst, Htail, Hhyd, Hcnt.
  unfold batch_read, br_position, br_from. fold ts. rewrite Hp.
  destruct (hydrate_fresh (reader_of ts) (ts_index ts) true Hhyd) as (r1 & Hhy & E1 & E2 & E3 & E4 & E5 & E6 & E7).
  rewrite Hhy. cbn beta iota zeta.
  rewrite E1, E2, E3, E4, E5.
  set (chain := r_chain (reader_of ts)) in *.
  set (W := w_ents ts). set (WT := tail_unread c ts).
  assert (HWT : (r_idx (reader_of ts) < length chain)%nat -> WT = W).
  { intros Hl. unfold WT, W, tail_unread, w_ents, tail_start. destruct (ts_writer ts) as [w|] eqn:Ew; [|reflexivity].
    pose proof (Hst Hl w eq_refl). replace (r_tail_bid (reader_of ts) =? b_id w) with false by lia. apply ents_from_0. }
  pose proof (plan_sealed_spec c Hh maxb chain W WT (ts_writer ts) (skipn (r_idx (reader_of ts)) chain)
                (r_idx (reader_of ts)) (r_off (reader_of ts)) 0 0 [] eq_refl
                (Forall_skipn _ _ _ Hch)) as Hplan.
  assert (A2 : forall b r, skipn (r_idx (reader_of ts)) chain = b :: r -> okoff c (b_ents b) (r_off (reader_of ts))).
  { intros b r Hs. apply Hcur. unfold chain_of. eapply nth_error_skipn; eauto. }
  specialize (Hplan A2 (fun _ => or_intror I) (fun H => match H eq_refl with end) HWT).
  destruct (plan_sealed c maxb false (skipn (r_idx (reader_of ts)) chain) (r_idx (reader_of ts)) (r_off (reader_of ts)) 0 0 [])
    as [[[racc planned'] idx'] trunc].
  destruct Hplan as (items & Hracc & Hsealed & Hseg & Hfirst & Hnil0).
  rewrite app_nil_r in Hracc. subst racc.
  specialize (Hfirst eq_refl Hidx).
  assert (HU : U = UR c chain W WT (r_idx (reader_of ts)) (r_off (reader_of ts))) by reflexivity.
  (* the complete plan, in order, with what it covers *)
  assert (Hfull : exists L Uo, 
            (let '(racc2, trim1) :=
               (if negb trunc && (length chain <=? idx')%nat
                then match ts_writer ts with
                     | Some w =>
                       if (if r_tail_bid (reader_of ts) =? b_id w then r_tail_off (reader_of ts) else 0) <? b_used w
                       then ({| pi_blk := w; pi_start := if r_tail_bid (reader_of ts) =? b_id w then r_tail_off (reader_of ts) else 0;
                                pi_end := b_used w; pi_tail := true; pi_idx := 0 |} :: rev items, 0)
                       else (rev items, 0)
                     | None => (rev items, 0)
                     end
                else (rev items, 0)) in racc2 = rev L /\ trim1 = 0) /\
            Seg c chain W (ts_writer ts) L U Uo /\
            (L = [] -> U = []) /\ (L <> [] -> first_covered c L) /\
            (skipn (r_idx (reader_of ts)) chain = [] -> Forall (fun it => pi_tail it = true) L)).
  { destruct trunc.
    - exists items, None. cbn [negb andb]. split; [split; reflexivity|]. split; [rewrite HU; exact Hseg|].
      split; [intros HL; subst items; exfalso; destruct Hfirst as (Hf & _); discriminate|].
      split; [intros HL; destruct items; [congruence|exact Hfirst]|].
      intros Hs0. rewrite (Hnil0 Hs0). constructor.
    - destruct Hseg as (Hseg & Hle1 & Hle2). specialize (Hle2 Hidx). cbn [negb andb].
      destruct (length chain <=? idx')%nat eqn:Elen.
      + apply Nat.leb_le in Elen. assert (idx' = length chain) by lia. subst idx'.
        assert (HURend : UR c chain W WT (length chain) 0 = WT) by (unfold UR; now rewrite skipn_all).
        rewrite HURend in Hseg.
        destruct (ts_writer ts) as [w|] eqn:Ew.
        * set (tstart := if r_tail_bid (reader_of ts) =? b_id w then r_tail_off (reader_of ts) else 0) in *.
          assert (Hwt : WT = ents_from c (b_ents w) tstart) by (unfold WT, tail_unread; rewrite Ew; reflexivity).
          assert (Hokw : okoff c (b_ents w) tstart) by (apply (Htail w); reflexivity).
          assert (Hwwf : bwf c w) by (unfold w_list in Hw; try rewrite Ew in Hw; inversion Hw; assumption).
          destruct Hwwf as (Hwu & _).
          destruct (tstart <? b_used w) eqn:Ets.
          -- set (titem := {| pi_blk := w; pi_start := tstart; pi_end := b_used w; pi_tail := true; pi_idx := 0 |}).
             exists (items ++ [titem]), (Some []).
             split; [split; [now rewrite rev_app_distr|reflexivity]|].
             assert (Htok : item_ok c chain (Some w) titem) by (unfold item_ok, titem; cbn; repeat split; auto; lia).
             split.
             { rewrite HU. eapply Seg_app; [exact Hsealed|exact Hseg|].
               eapply SegFull; [exact Htok|reflexivity|reflexivity| |constructor].
               unfold item_ents, item_rest, titem; cbn. now rewrite app_nil_r. }
             split; [intros HL; destruct items; discriminate|].
             split.
             { intros _. destruct items as [|i0 items']; [|exact Hfirst].
               cbn. unfold item_ents, titem; cbn.
               assert (Hne : ents_from c (b_ents w) tstart <> []) by (apply okoff_nonempty; [exact Hokw|lia]).
               destruct (ents_from c (b_ents w) tstart) as [|e re] eqn:Eef; [congruence|].
               exists e, re. split; [reflexivity|]. unfold okoff in Hokw. rewrite Eef in Hokw. cbn [sum_need] in Hokw. lia. }
             intros Hs0. rewrite (Hnil0 Hs0). cbn. repeat constructor.
          -- exists items, (Some WT). split; [split; reflexivity|]. split; [rewrite HU; exact Hseg|].
             split.
             { intros HL; subst items. destruct Hfirst as (_ & _ & Hf). rewrite HU, Hf, Hwt. apply ents_from_end; [exact Hh|lia]. }
             split; [intros HL; destruct items; [congruence|exact Hfirst]|].
             intros Hs0. rewrite (Hnil0 Hs0). constructor.
        * exists items, (Some WT). split; [split; reflexivity|]. split; [rewrite HU; exact Hseg|].
          split.
          { intros HL; subst items. destruct Hfirst as (_ & _ & Hf). rewrite HU, Hf. unfold WT, tail_unread. now rewrite Ew. }
          split; [intros HL; destruct items; [congruence|exact Hfirst]|].
          intros Hs0. rewrite (Hnil0 Hs0). constructor.
      + exists items, (Some (UR c chain W WT idx' 0)). split; [split; reflexivity|]. split; [rewrite HU; exact Hseg|].
        split.
        { intros HL; subst items. destruct Hfirst as (_ & Hf & _). apply Nat.leb_gt in Elen. lia. }
        split; [intros HL; destruct items; [congruence|exact Hfirst]|].
        intros Hs0. rewrite (Hnil0 Hs0). constructor. }
  destruct Hfull as (L & Uo & Hshape & HsegL & HLnil & HLcov & HLtail).
  match goal with |- context [match ?X with (_, _) => _ end] => destruct X as [racc2 trim1] end.
  destruct Hshape as (Hr2 & Htr). subst trim1.
  assert (HrevL : rev racc2 = L) by (rewrite Hr2; apply rev_involutive).
  set (ts_h := with_reader ts r1).
  assert (Hts_h : ts_h = mk_ts ts r1 (ts_count ts) (ts_index ts)) by reflexivity.
  assert (Hinv_h : TInv c nid ts_h /\ unread c ts_h = U /\ stream ts_h = stream ts).
  { rewrite Hts_h. split; [|split].
    - apply TInv_reader; auto; rewrite ?E1, ?E2, ?E3, ?E4, ?E5; auto.
      rewrite unread_mk, E1, E2, E3, E4, E5. fold (cnt ts). exact Hcnt.
    - rewrite unread_mk, E1, E2, E3, E4, E5. reflexivity.
    - apply stream_mk. exact E1. }
  destruct Hinv_h as (Hinvh & Hunh & Hsth).
  assert (Hxh : chain_of ts_h = chain_of ts /\ r_hydrated (reader_of ts_h) = true /\ ts_index ts_h = ts_index ts).
  { unfold ts_h. split; [exact E1|]. split; [exact E7|reflexivity]. }
  destruct Hxh as (Hchh & Hhyh & Hixh).
  assert (Hkeep : ts_index ts_h = ts_index ts \/ (exists q, ts_index ts_h = Some q /\ PosIs ts_h q)).
  { left. exact Hixh. }
  destruct racc2 as [|it0 racc2'].
  { (* nothing planned: nothing unread *)
    assert (L = []) by (rewrite <- HrevL; reflexivity). specialize (HLnil H).
    exists ts_h, 0%nat. rewrite HLnil. cbn [firstn map skipn]. 
    split; [reflexivity|]. split; [exact Hinvh|]. split; [exact Hsth|]. split; [reflexivity|].
    split; [exact Hchh|]. split; [exact Hhyh|].
    split; [cbn; lia|]. split; [congruence|]. split; [|exact Hkeep]. rewrite Hunh. fold U. rewrite HLnil. now destruct ck. }
  rewrite HrevL.
  match goal with |- context [parse_plan c maxb L ?q] => set (p0 := q) end.
  destruct (parse_plan_spec c Hh maxb chain W (ts_writer ts) L U Uo HsegL p0 eq_refl eq_refl) as (j & Hpr & Hz & Hpos & Hprog & Hsawt).
  cbn zeta in *. set (p := parse_plan c maxb L p0) in *.
  destruct Hpr as [Ho Hn Hpa Hj _]. cbn [ps_outs ps_n ps_parsed p0] in Ho, Hn, Hpa. rewrite app_nil_r in Ho.
  assert (HLne : L <> []) by (rewrite <- HrevL; cbn; intros X; apply app_eq_nil in X; destruct X; discriminate).
  assert (Hk1 : U <> [] -> (1 <= j)%nat).
  { intros _. apply Hprog; auto. }
  assert (Hres : rev (ps_outs p) = map out_of (firstn j U)) by (rewrite Ho; apply rev_involutive).
  rewrite Hres. rewrite Hpa. cbn [negb]. rewrite !andb_true_r.
  (* the two shapes of a committed state *)
  assert (Htail_case : forall r' ix', r_chain r' = chain -> r_hydrated r' = true -> (0 < j)%nat -> ps_saw_tail p = true ->
            let ts' := mk_ts ts (set_tail (set_cur r' (length chain) 0) (ps_tail_id p) (ps_tail_off p)) (Some (cnt ts - N.of_nat j)) ix' in
            TInv c nid ts' /\ stream ts' = stream ts /\ ts_writer ts' = ts_writer ts /\ unread c ts' = skipn j U /\
            chain_of ts' = chain_of ts /\ r_hydrated (reader_of ts') = true /\
            PosIs ts' {| p_tail := true; p_a := ps_tail_id p; p_off := ps_tail_off p |}).
  { intros r' ix' R1 R7 Hjp Esaw ts'. specialize (Hpos Hjp). unfold PosOk in Hpos. rewrite Esaw in Hpos.
    destruct Hpos as (wb & Hwb & Hid & Hokt & Hents).
    assert (Hwid : 0 < b_id wb < nid).
    { eapply Forall_forall in Hids; [exact Hids|]. apply in_or_app. right. unfold w_list. rewrite Hwb. left. reflexivity. }
    assert (Hur : unread c ts' = skipn j U).
    { unfold ts'. rewrite unread_mk. cbn [set_tail set_cur r_idx r_chain r_tail_bid r_tail_off]. rewrite R1.
      unfold chain. rewrite skipn_all. rewrite Hwb, Hid, N.eqb_refl. exact Hents. }
    split.
    { unfold ts'. apply TInv_reader; auto; cbn [set_tail set_cur r_idx r_off r_chain r_tail_bid r_tail_off r_hydrated].
      - rewrite Hid. lia.
      - intros b' Hb'. exfalso. unfold chain_of in Hb'. fold chain in Hb'. eapply nth_error_len_none; eauto.
      - unfold chain_of. fold chain. lia.
      - intros w' Hw'. rewrite Hwb in Hw'. inversion Hw'; subst w'. rewrite Hid, N.eqb_refl. exact Hokt.
      - fold ts'. rewrite Hur, Hcnt. fold U. rewrite skipn_length. lia. }
    split; [unfold ts'; apply stream_mk; exact R1|]. split; [reflexivity|]. split; [exact Hur|].
    split; [unfold ts'; rewrite chain_of_mk; cbn [set_tail set_cur r_chain]; exact R1|].
    split; [unfold ts'; rewrite reader_of_mk; cbn [set_tail set_cur r_hydrated]; exact R7|].
    unfold PosIs, ts'. cbn [p_tail p_a p_off]. exists wb.
    rewrite reader_of_mk, chain_of_mk, tail_start_mk. cbn [set_tail set_cur r_idx r_chain r_tail_bid r_tail_off].
    rewrite R1, Hid, N.eqb_refl.
    split; [exact Hwb|]. split; [reflexivity|]. split; [reflexivity|]. split; [reflexivity|].
    eapply okoff_pos_nonempty; [exact Hokt|]. unfold p. apply (parse_plan_tailpos c Hh); [intros Hf; discriminate Hf|exact Esaw]. }
  assert (Hsealed_case : forall r' ix', r_chain r' = chain -> r_tail_bid r' = r_tail_bid (reader_of ts) ->
            r_tail_off r' = r_tail_off (reader_of ts) -> r_hydrated r' = true -> (0 < j)%nat -> ps_saw_tail p = false ->
            let ts' := mk_ts ts (set_cur r' (ps_fin_idx p) (ps_fin_off p)) (Some (cnt ts - N.of_nat j)) ix' in
            TInv c nid ts' /\ stream ts' = stream ts /\ ts_writer ts' = ts_writer ts /\ unread c ts' = skipn j U /\
            chain_of ts' = chain_of ts /\ r_hydrated (reader_of ts') = true /\
            PosIs ts' {| p_tail := false; p_a := N.of_nat (ps_fin_idx p); p_off := ps_fin_off p |}).
  { intros r' ix' R1 R4 R5 R7 Hjp Esaw ts'. specialize (Hpos Hjp). unfold PosOk in Hpos. rewrite Esaw in Hpos.
    destruct Hpos as (b & Hnb & Hokb & Hents).
    assert (Hfl : (ps_fin_idx p < length chain)%nat) by (apply nth_error_Some; congruence).
    destruct (skipn_nth_error _ _ _ Hnb) as (rr & Hskb).
    assert (Hur : unread c ts' = skipn j U).
    { unfold ts'. rewrite unread_mk. cbn [set_cur r_idx r_off r_chain]. rewrite R1, Hskb.
      rewrite <- Hents. now rewrite (skipn_S_of _ _ _ _ Hskb). }
    assert (Hwas : (r_idx (reader_of ts) < length chain)%nat).
    { destruct (Nat.lt_ge_cases (r_idx (reader_of ts)) (length chain)) as [Hl|Hg]; [exact Hl|]. exfalso.
      assert (Hs0 : skipn (r_idx (reader_of ts)) chain = []) by (apply skipn_all2; exact Hg).
      pose proof (Hsawt Hjp (HLtail Hs0)). congruence. }
    split.
    { unfold ts'. apply TInv_reader; auto; cbn [set_cur r_idx r_off r_chain r_tail_bid r_tail_off r_hydrated].
      - now rewrite R4.
      - unfold chain_of. fold chain. lia.
      - unfold chain_of. fold chain. lia.
      - intros b' Hb'. unfold chain_of in Hb'. fold chain in Hb'. rewrite Hnb in Hb'. inversion Hb'; subst b'. exact Hokb.
      - rewrite R4. intros _. apply Hst. exact Hwas.
      - rewrite R4, R5. exact Htail.
      - fold ts'. rewrite Hur, Hcnt. fold U. rewrite skipn_length. lia. }
    split; [unfold ts'; apply stream_mk; exact R1|]. split; [reflexivity|]. split; [exact Hur|].
    split; [unfold ts'; rewrite chain_of_mk; cbn [set_cur r_chain]; exact R1|].
    split; [unfold ts'; rewrite reader_of_mk; cbn [set_cur r_hydrated]; exact R7|].
    unfold PosIs, ts'. cbn [p_tail p_a p_off].
    rewrite reader_of_mk, chain_of_mk. cbn [set_cur r_idx r_off r_chain]. rewrite R1.
    split; [reflexivity|]. split; [exact Hfl|reflexivity]. }
  destruct ck; cbn [andb].
  2:{ exists ts_h, j. rewrite ?andb_false_r. split; [reflexivity|]. split; [exact Hinvh|]. split; [exact Hsth|]. split; [reflexivity|].
      split; [exact Hchh|]. split; [exact Hhyh|].
      split; [exact Hj|]. split; [exact Hk1|]. split; [exact Hunh|exact Hkeep]. }
  destruct (0 <? 0 + N.of_nat j) eqn:Ej.
  2:{ assert (j = 0%nat) by lia. subst j. exists ts_h, 0%nat.
      split; [unfold count_sub; cbn; reflexivity|]. split; [exact Hinvh|]. split; [exact Hsth|]. split; [reflexivity|].
      split; [exact Hchh|]. split; [exact Hhyh|].
      split; [lia|]. split; [exact Hk1|]. split; [exact Hunh|exact Hkeep]. }
  assert (Hjp : (0 < j)%nat) by lia.
  unfold count_sub. replace (0 + N.of_nat j =? 0) with false by lia.
  assert (Hrh : r_chain (reader_of ts_h) = chain /\ r_tail_bid (reader_of ts_h) = r_tail_bid (reader_of ts) /\
                r_tail_off (reader_of ts_h) = r_tail_off (reader_of ts) /\ r_hydrated (reader_of ts_h) = true).
  { unfold ts_h; cbn. rewrite E1, E4, E5, E7. auto. }
  destruct Hrh as (R1 & R4 & R5 & R7).
  destruct m as [|n]; cbn zeta; destruct (ps_saw_tail p) eqn:Esaw.
  - eexists; exists j. split; [reflexivity|].
    destruct (Htail_case (reader_of ts_h) (Some {| p_tail := true; p_a := ps_tail_id p; p_off := ps_tail_off p |}) R1 R7 Hjp eq_refl)
      as (A & B & C & D & X2 & X3 & X4).
    split; [exact A|]. split; [exact B|]. split; [exact C|]. split; [exact X2|]. split; [exact X3|].
    split; [exact Hj|]. split; [exact Hk1|]. split; [exact D|].
    right. eexists. split; [reflexivity|exact X4].
  - eexists; exists j. split; [reflexivity|].
    destruct (Hsealed_case (reader_of ts_h) (Some {| p_tail := false; p_a := N.of_nat (ps_fin_idx p); p_off := ps_fin_off p |}) R1 R4 R5 R7 Hjp eq_refl)
      as (A & B & C & D & X2 & X3 & X4).
    split; [exact A|]. split; [exact B|]. split; [exact C|]. split; [exact X2|]. split; [exact X3|].
    split; [exact Hj|]. split; [exact Hk1|]. split; [exact D|].
    right. eexists. split; [reflexivity|exact X4].
- eexists; exists j. split; [reflexivity|].
    match goal with |- context [set_cur ?rr (length chain) 0] =>
      destruct (Htail_case rr (ts_index ts) R1 R7 Hjp eq_refl) as (A & B & C & D & X2 & X3 & X4) end.
    split; [exact A|]. split; [exact B|]. split; [exact C|]. split; [exact X2|]. split; [exact X3|].
    split; [exact Hj|]. split; [exact Hk1|]. split; [exact D|]. left. reflexivity.
  - eexists; exists j. split; [reflexivity|].
    match goal with |- context [set_cur ?rr (ps_fin_idx p) (ps_fin_off p)] =>
      destruct (Hsealed_case rr (ts_index ts) R1 R4 R5 R7 Hjp eq_refl) as (A & B & C & D & X2 & X3 & X4) end.
    split; [exact A|]. split; [exact B|]. split; [exact C|]. split; [exact X2|]. split; [exact X3|].
    split; [exact Hj|]. split; [exact Hk1|]. split; [exact D|]. left. reflexivity.
Qed.

(* ------------------------------------------------------------------ why [Prov] cannot be dropped
   The two-way conclusion "the persisted position is unchanged or is the cursor" is FALSE for
   read_next in mode ALO n with 2 <= n: a fresh topic whose writer block holds one entry, consuming
   read.  The provisional persist writes (tail, 1, 0); the read then moves the tail cursor to
   [need] without persisting. *)
Definition cx_cfg : Cfg :=
  {| c_block := 64; c_bpf := 4; c_max_alloc := 1024; c_hdr := 8; c_max_entries := 10; c_max_bytes := 1000;
     c_small := 128; c_overflow_checks := true |}.
Definition cx_e : entry := {| e_pid := 0; e_len := 1 |}.
Definition cx_w : blk := {| b_id := 1; b_file := 0; b_off := 0; b_limit := 64; b_used := 9; b_ents := [cx_e] |}.
Definition cx_ts : tstate :=
  {| ts_reader := None; ts_writer := Some cx_w; ts_poisoned := false; ts_count := Some 1; ts_index := None;
     ts_unmodelled := false |}.
Definition cx_s : st :=
  {| s_topics := [(1, cx_ts)]; s_alloc := {| a_next := 2; a_file := 0; a_off := 0 |}; s_disk := []; s_files := 0 |}.
Definition cx_t : topic := {| t_id := 1; t_nlen := 1 |}.

Lemma cx_cfg_ok : cfg_ok cx_cfg.
Proof. unfold cfg_ok. repeat split; try reflexivity; vm_compute; discriminate. Qed.

Lemma cx_inv : TInv cx_cfg 2 (get_ts cx_s (t_id cx_t)).
Proof.
  change (get_ts cx_s (t_id cx_t)) with cx_ts.
  constructor.
  - reflexivity.
  - reflexivity.
  - constructor.
  - constructor; [|constructor]. unfold bwf. repeat split; vm_compute; try reflexivity; discriminate.
  - cbn. repeat constructor. intros [].
  - repeat constructor.
  - vm_compute. reflexivity.
  - vm_compute. lia.
  - reflexivity.
  - intros b Hb. vm_compute in Hb. discriminate.
  - vm_compute. lia.
  - intros w Hw. inversion Hw; subst w. reflexivity.
  - reflexivity.
  - reflexivity.
Qed.

Lemma read_next_two_way_false :
  ~ (forall c m s t ck nid, cfg_ok c -> TInv c nid (get_ts s (t_id t)) ->
       let ts := get_ts s (t_id t) in
       exists ts' res, read_next c m s t ck = (set_ts s (t_id t) ts', res) /\
         (ts_index ts' = ts_index ts \/ (exists p, ts_index ts' = Some p /\ PosIs ts' p))).
Proof.
  intros H. destruct (H cx_cfg (ALO 2) cx_s cx_t true 2 cx_cfg_ok cx_inv) as (ts' & res & Heq & Hidx).
  vm_compute in Heq. injection Heq as Hts _. subst ts'.
  destruct Hidx as [Hi|(p & Hp & Hpos)]; [discriminate|].
  injection Hp as <-. destruct Hpos as (w & Hw & _ & _ & Hoff & _).
  injection Hw as <-. vm_compute in Hoff. discriminate.
Qed.
