(* ConcBridge.v — from the final invariant to the verdict of the C05 acceptor (spec/ConcSpec.v):
   what the programs' results say is what the invariant's ledgers say. *)
From W Require Import model.Base model.Engine model.Conc spec.ConcSpec proofs.EngineWF proofs.EngineInv proofs.EngineW proofs.EngineBR
  proofs.EngineMain proofs.ConcInv proofs.ConcStep.
From Coq Require Import ZArith ZifyBool ZifyN ZifyNat.

(* ------------------------------------------------------------------ lists of payload ids *)
Lemma memN_In x l : c_memN x l = true <-> In x l.
Proof.
  unfold c_memN. rewrite existsb_exists. split.
  - intros (y & Hy & E). apply N.eqb_eq in E. now subst.
  - intros H. exists x. split; [exact H|apply N.eqb_refl].
Qed.
Lemma nodupN_NoDup l : NoDup l -> nodupN l = true.
Proof.
  induction 1 as [|x l Hx Hn IH]; cbn; [reflexivity|]. rewrite IH, andb_true_r.
  destruct (c_memN x l) eqn:E; [|reflexivity]. apply memN_In in E. contradiction.
Qed.

Lemma drop_to_head x ys : drop_to x (x :: ys) = Some ys.
Proof. cbn. now rewrite N.eqb_refl. Qed.
Lemma is_subseq_prefix xs ys : c_is_subseq xs (xs ++ ys) = true.
Proof. induction xs as [|x xs IH]; cbn [c_is_subseq app]; [reflexivity|]. now rewrite drop_to_head. Qed.

Lemma drop_while_none {A} (f : A -> bool) l : existsb f l = false -> existsb f (drop_while f l) = false.
Proof. induction l as [|x l IH]; cbn; [auto|]. intros H. apply orb_false_iff in H. destruct H as (H1 & H2). rewrite H1. cbn. now rewrite H1, H2. Qed.

(* one payload id in a duplicate-free list is trivially contiguous *)
Lemma contiguous_single (z : N) l : NoDup l -> contiguous (fun x => c_memN x [z]) l = true.
Proof.
  intros Hn. unfold contiguous.
  assert (Hf : forall x, c_memN x [z] = (x =? z)) by (intros x; cbn; now rewrite orb_false_r).
  induction l as [|x l IH]; cbn [drop_until]; [reflexivity|].
  inversion Hn; subst. rewrite Hf. destruct (x =? z) eqn:E.
  - cbn [drop_while]. rewrite Hf, E. apply N.eqb_eq in E. subst x.
    assert (Hno : existsb (fun x => c_memN x [z]) l = false).
    { destruct (existsb _ l) eqn:Ex; [|reflexivity]. apply existsb_exists in Ex. destruct Ex as (y & Hy & Ey).
      rewrite Hf in Ey. apply N.eqb_eq in Ey. subst y. contradiction. }
    now rewrite (drop_while_none _ _ Hno).
  - apply IH. assumption.
Qed.

(* a family of filters that covers a list and respects the key: duplicate-free parts give a duplicate-free whole *)
Lemma nodup_cover {A P} (f : A -> N) (g : P -> A -> bool) (ps : list P) (l : list A) :
  (forall x, In x l -> exists p, In p ps /\ g p x = true) ->
  (forall p x y, f x = f y -> g p x = g p y) ->
  (forall p, In p ps -> NoDup (map f (filter (g p) l))) ->
  NoDup (map f l).
Proof.
  intros Hcov Hresp. induction l as [|x l IH]; intros Hnd; cbn; [constructor|].
  constructor.
  - intros Hin. apply in_map_iff in Hin. destruct Hin as (y & Ey & Hy).
    destruct (Hcov x (or_introl eq_refl)) as (p & Hp & Hg).
    specialize (Hnd p Hp). cbn [filter] in Hnd. rewrite Hg in Hnd. cbn [map] in Hnd. inversion Hnd; subst.
    apply H1. apply in_map_iff. exists y. split; [exact Ey|]. apply filter_In. split; [exact Hy|].
    rewrite <- Hg. apply Hresp. exact Ey.
  - apply IH.
    + intros y Hy. apply Hcov. now right.
    + intros p Hp. specialize (Hnd p Hp). cbn [filter] in Hnd. destruct (g p x); [cbn in Hnd; now inversion Hnd|exact Hnd].
Qed.

Lemma filter_filter_same {A} (f g : A -> bool) l : (forall x, In x l -> f x = g x) -> filter f l = filter g l.
Proof. induction l as [|x l IH]; intros H; cbn; [reflexivity|]. rewrite (H x (or_introl eq_refl)), IH; [reflexivity|]. intros y Hy. apply H. now right. Qed.

(* ------------------------------------------------------------------ events of one thread *)
Fixpoint apps_of (tid : nat) (cls : list call) (rs : list result) : list aev :=
  match cls, rs with
  | cl :: cls', r :: rs' =>
    match cl, r with
    | CAppend t e, ROk => [{| av_tid := tid; av_topic := t_id t; av_ents := [e] |}]
    | _, _ => []
    end ++ apps_of tid cls' rs'
  | _, _ => []
  end.
Fixpoint dels_of (tid : nat) (cls : list call) (rs : list result) : list dev :=
  match cls, rs with
  | cl :: cls', r :: rs' =>
    match cl, r with
    | CRead t true, REntry o => [{| dv_tid := tid; dv_topic := t_id t; dv_outs := [o] |}]
    | _, _ => []
    end ++ dels_of tid cls' rs'
  | _, _ => []
  end.

Lemma events_of_simple tid : forall cls rs,
  Forall (fun cl => simple_call cl = true) cls -> Forall2 res_ok cls rs ->
  events_of tid cls rs = (apps_of tid cls rs, dels_of tid cls rs, false).
Proof.
  induction cls as [|cl cls IH]; intros rs Hs Hr.
  - inversion Hr. reflexivity.
  - destruct rs as [|r rs]; [inversion Hr|].
    assert (Hr1 : res_ok cl r) by (inversion Hr; assumption).
    assert (Hr2 : Forall2 res_ok cls rs) by (inversion Hr; assumption).
    assert (Hs1 : simple_call cl = true) by (inversion Hs; assumption).
    assert (Hs2 : Forall (fun cl => simple_call cl = true) cls) by (inversion Hs; assumption).
    cbn [events_of apps_of dels_of]. rewrite (IH _ Hs2 Hr2).
    destruct cl as [t e|t es|t ck|t mb ck]; cbn in Hs1; try discriminate.
    + destruct r; cbn in Hr1; try contradiction; reflexivity.
    + destruct ck; [|discriminate]. destruct r; cbn in Hr1; try contradiction; reflexivity.
Qed.

Lemma apps_of_topic tid t : forall cls rs,
  flat_map av_ents (filter (fun a => av_topic a =? t) (apps_of tid cls rs)) = wr_hist t cls rs.
Proof.
  induction cls as [|cl cls IH]; intros rs; destruct rs as [|r rs]; try reflexivity.
  cbn [apps_of wr_hist]. rewrite filter_app, flat_map_app, IH. f_equal.
  destruct cl; try reflexivity. destruct r; try reflexivity. cbn. destruct (t_id t0 =? t); reflexivity.
Qed.
Lemma dels_of_topic tid t : forall cls rs,
  flat_map dv_outs (filter (fun d => dv_topic d =? t) (dels_of tid cls rs)) = del_hist t cls rs.
Proof.
  induction cls as [|cl cls IH]; intros rs; destruct rs as [|r rs]; try reflexivity.
  cbn [dels_of del_hist]. rewrite filter_app, flat_map_app, IH. f_equal.
  destruct cl; try reflexivity. destruct ck; try reflexivity. destruct r; try reflexivity. cbn. destruct (t_id t0 =? t); reflexivity.
Qed.
Lemma apps_of_tid tid cls rs : Forall (fun a => av_tid a = tid /\ exists e, av_ents a = [e]) (apps_of tid cls rs).
Proof.
  revert rs; induction cls as [|cl cls IH]; intros rs; destruct rs as [|r rs]; try constructor.
  cbn [apps_of]. apply Forall_app. split; [|apply IH].
  destruct cl; try constructor. destruct r; try constructor; [cbn; eauto|constructor].
Qed.
Lemma dels_of_tid tid cls rs : Forall (fun d => dv_tid d = tid) (dels_of tid cls rs).
Proof.
  revert rs; induction cls as [|cl cls IH]; intros rs; destruct rs as [|r rs]; try constructor.
  cbn [dels_of]. apply Forall_app. split; [|apply IH].
  destruct cl; try constructor. destruct ck; try constructor. destruct r; try constructor; [reflexivity|constructor].
Qed.

(* ------------------------------------------------------------------ events of all threads *)
Fixpoint all_apps (n : nat) (progs : list (list call)) (res : list (list result)) : list aev :=
  match progs, res with
  | p :: ps, r :: rs => apps_of n p r ++ all_apps (S n) ps rs
  | _, _ => []
  end.
Fixpoint all_dels (n : nat) (progs : list (list call)) (res : list (list result)) : list dev :=
  match progs, res with
  | p :: ps, r :: rs => dels_of n p r ++ all_dels (S n) ps rs
  | _, _ => []
  end.
Fixpoint all_wr (t : N) (progs : list (list call)) (res : list (list result)) : list entry :=
  match progs, res with
  | p :: ps, r :: rs => wr_hist t p r ++ all_wr t ps rs
  | _, _ => []
  end.
Fixpoint all_del (t : N) (progs : list (list call)) (res : list (list result)) : list out :=
  match progs, res with
  | p :: ps, r :: rs => del_hist t p r ++ all_del t ps rs
  | _, _ => []
  end.

Definition thread_ok (p : list call) (rs : list result) : Prop :=
  Forall (fun cl => simple_call cl = true) p /\ Forall2 res_ok p rs.

Lemma events_all_simple : forall progs res n, Forall2 thread_ok progs res ->
  events_all n progs res = (all_apps n progs res, all_dels n progs res, false).
Proof.
  induction progs as [|p ps IH]; intros res n H; inversion H; subst; [reflexivity|].
  cbn [events_all all_apps all_dels]. destruct H2 as (A & B). rewrite (events_of_simple n p y A B), (IH _ (S n) H4). reflexivity.
Qed.

Lemma acked_all t : forall progs res n, acked (all_apps n progs res) t = all_wr t progs res.
Proof.
  induction progs as [|p ps IH]; intros res n; destruct res as [|r rs]; try reflexivity.
  cbn [all_apps all_wr]. unfold acked, apps_on in *. rewrite filter_app, flat_map_app, IH. now rewrite apps_of_topic.
Qed.
Lemma delivered_all t : forall progs res n, delivered (all_dels n progs res) t = all_del t progs res.
Proof.
  induction progs as [|p ps IH]; intros res n; destruct res as [|r rs]; try reflexivity.
  cbn [all_dels all_del]. unfold delivered, dels_on in *. rewrite filter_app, flat_map_app, IH. now rewrite dels_of_topic.
Qed.

Lemma filter_none {A} (f : A -> bool) l : Forall (fun x => f x = false) l -> filter f l = [].
Proof. induction 1; cbn; [reflexivity|]. now rewrite H. Qed.
Lemma filter_all {A} (f : A -> bool) l : Forall (fun x => f x = true) l -> filter f l = l.
Proof. induction 1; cbn; [reflexivity|]. rewrite H. now f_equal. Qed.

Lemma sent_by_all t q : forall progs res n,
  sent_by (all_apps n progs res) t q =
  if (n <=? q)%nat && (q <? n + length progs)%nat && (q <? n + length res)%nat
  then wr_hist t (nth (q - n) progs []) (nth (q - n) res []) else [].
Proof.
  induction progs as [|p ps IH]; intros res n.
  - cbn [all_apps length]. destruct ((n <=? q)%nat && (q <? n + 0)%nat) eqn:E; [exfalso; lia|reflexivity].
  - destruct res as [|r rs].
    + cbn [all_apps length]. destruct (_ && _ && (q <? n + 0)%nat) eqn:E; [exfalso; lia|reflexivity].
    + cbn [all_apps length]. unfold sent_by, apps_on in *. rewrite !filter_app, flat_map_app.
      specialize (IH rs (S n)). rewrite IH.
      pose proof (apps_of_tid n p r) as Ht.
      destruct (Nat.eq_dec q n) as [->|Hne].
      * replace ((n <=? n)%nat && (n <? n + S (length ps))%nat && (n <? n + S (length rs))%nat) with true by lia.
        replace ((S n <=? n)%nat && (n <? S n + length ps)%nat && (n <? S n + length rs)%nat) with false by lia.
        rewrite Nat.sub_diag. cbn [nth]. rewrite app_nil_r.
        rewrite (filter_all (fun a => Nat.eqb (av_tid a) n)).
        -- apply apps_of_topic.
        -- apply Forall_forall. intros a Ha. apply filter_In in Ha. destruct Ha as (Ha & _).
           eapply Forall_forall in Ht; [|exact Ha]. destruct Ht as (-> & _). apply Nat.eqb_refl.
      * rewrite (filter_none (fun a => Nat.eqb (av_tid a) q)).
        -- cbn [flat_map app].
           destruct ((S n <=? q)%nat && (q <? S n + length ps)%nat && (q <? S n + length rs)%nat) eqn:E1.
           ++ replace ((n <=? q)%nat && (q <? n + S (length ps))%nat && (q <? n + S (length rs))%nat) with true by lia.
              replace (q - n)%nat with (S (q - S n)) by lia. reflexivity.
           ++ replace ((n <=? q)%nat && (q <? n + S (length ps))%nat && (q <? n + S (length rs))%nat) with false by lia. reflexivity.
        -- apply Forall_forall. intros a Ha. apply filter_In in Ha. destruct Ha as (Ha & _).
           eapply Forall_forall in Ht; [|exact Ha]. destruct Ht as (-> & _). apply Nat.eqb_neq. congruence.
Qed.

Lemma got_by_all t q : forall progs res n,
  got_by (all_dels n progs res) t q =
  if (n <=? q)%nat && (q <? n + length progs)%nat && (q <? n + length res)%nat
  then del_hist t (nth (q - n) progs []) (nth (q - n) res []) else [].
Proof.
  induction progs as [|p ps IH]; intros res n.
  - cbn [all_dels length]. destruct ((n <=? q)%nat && (q <? n + 0)%nat) eqn:E; [exfalso; lia|reflexivity].
  - destruct res as [|r rs].
    + cbn [all_dels length]. destruct (_ && _ && (q <? n + 0)%nat) eqn:E; [exfalso; lia|reflexivity].
    + cbn [all_dels length]. unfold got_by, dels_on in *. rewrite !filter_app, flat_map_app.
      specialize (IH rs (S n)). rewrite IH.
      pose proof (dels_of_tid n p r) as Ht.
      destruct (Nat.eq_dec q n) as [->|Hne].
      * replace ((n <=? n)%nat && (n <? n + S (length ps))%nat && (n <? n + S (length rs))%nat) with true by lia.
        replace ((S n <=? n)%nat && (n <? S n + length ps)%nat && (n <? S n + length rs)%nat) with false by lia.
        rewrite Nat.sub_diag. cbn [nth]. rewrite app_nil_r.
        rewrite (filter_all (fun d => Nat.eqb (dv_tid d) n)).
        -- apply dels_of_topic.
        -- apply Forall_forall. intros a Ha. apply filter_In in Ha. destruct Ha as (Ha & _).
           eapply Forall_forall in Ht; [|exact Ha]. rewrite Ht. apply Nat.eqb_refl.
      * rewrite (filter_none (fun d => Nat.eqb (dv_tid d) q)).
        -- cbn [flat_map app].
           destruct ((S n <=? q)%nat && (q <? S n + length ps)%nat && (q <? S n + length rs)%nat) eqn:E1.
           ++ replace ((n <=? q)%nat && (q <? n + S (length ps))%nat && (q <? n + S (length rs))%nat) with true by lia.
              replace (q - n)%nat with (S (q - S n)) by lia. reflexivity.
           ++ replace ((n <=? q)%nat && (q <? n + S (length ps))%nat && (q <? n + S (length rs))%nat) with false by lia. reflexivity.
        -- apply Forall_forall. intros a Ha. apply filter_In in Ha. destruct Ha as (Ha & _).
           eapply Forall_forall in Ht; [|exact Ha]. rewrite Ht. apply Nat.eqb_neq. congruence.
Qed.

Lemma all_apps_single n : forall progs res, Forall (fun a => exists e, av_ents a = [e]) (all_apps n progs res).
Proof.
  intros progs; revert n; induction progs as [|p ps IH]; intros n res; destruct res as [|r rs]; try constructor.
  cbn [all_apps]. apply Forall_app. split; [|apply IH].
  eapply Forall_impl; [|apply apps_of_tid]. cbn. intros a (_ & H). exact H.
Qed.

(* membership in the concatenations *)
Lemma in_all_wr t e : forall progs res, In e (all_wr t progs res) <->
  exists i, (i < length progs)%nat /\ (i < length res)%nat /\ In e (wr_hist t (nth i progs []) (nth i res [])).
Proof.
  induction progs as [|p ps IH]; intros res.
  - cbn. split; [contradiction|]. intros (i & H & _). lia.
  - destruct res as [|r rs].
    + cbn. split; [contradiction|]. intros (i & _ & H & _). lia.
    + cbn [all_wr length]. rewrite in_app_iff, IH. split.
      * intros [H|(i & A & B & C)]; [exists 0%nat; repeat split; try lia; exact H|exists (S i); repeat split; try lia; exact C].
      * intros (i & A & B & C). destruct i as [|i]; [now left|right; exists i; repeat split; try lia; exact C].
Qed.
Lemma in_all_del t o : forall progs res, In o (all_del t progs res) ->
  exists i, (i < length progs)%nat /\ (i < length res)%nat /\ In o (del_hist t (nth i progs []) (nth i res [])).
Proof.
  induction progs as [|p ps IH]; intros res H; [destruct H|]. destruct res as [|r rs]; [destruct H|].
  cbn [all_del] in H. apply in_app_or in H. destruct H as [H|H].
  - exists 0%nat. cbn. repeat split; try lia. exact H.
  - destruct (IH rs H) as (i & A & B & C). exists (S i). cbn. repeat split; try lia. exact C.
Qed.

(* when only thread i can contribute, the concatenation is thread i's list *)
Lemma all_del_nil t : forall progs res,
  (forall j, del_hist t (nth j progs []) (nth j res []) = []) -> all_del t progs res = [].
Proof.
  induction progs as [|p ps IH]; intros res H; [reflexivity|]. destruct res as [|r rs]; [reflexivity|].
  cbn [all_del]. pose proof (H 0%nat) as H0. cbn [nth] in H0. rewrite H0. cbn [app].
  apply IH. intros j. pose proof (H (S j)) as Hj. cbn [nth] in Hj. exact Hj.
Qed.

Lemma all_del_single t : forall progs res i,
  (forall j, j <> i -> del_hist t (nth j progs []) (nth j res []) = []) ->
  all_del t progs res = if (i <? length progs)%nat && (i <? length res)%nat then del_hist t (nth i progs []) (nth i res []) else [].
Proof.
  induction progs as [|p ps IH]; intros res i H; [reflexivity|].
  destruct res as [|r rs]; [cbn; now rewrite andb_false_r|].
  cbn [all_del length]. destruct i as [|i].
  - cbn [nth]. replace ((0 <? S (length ps))%nat && (0 <? S (length rs))%nat) with true by lia.
    rewrite (all_del_nil t ps rs); [now rewrite app_nil_r|].
    intros j. pose proof (H (S j) ltac:(lia)) as Hj. cbn [nth] in Hj. exact Hj.
  - pose proof (H 0%nat ltac:(lia)) as H0. cbn [nth] in H0. rewrite H0. cbn [app nth]. rewrite (IH rs i).
    + replace ((S i <? S (length ps))%nat && (S i <? S (length rs))%nat) with ((i <? length ps)%nat && (i <? length rs)%nat) by lia. reflexivity.
    + intros j Hj. pose proof (H (S j) ltac:(lia)) as Hj2. cbn [nth] in Hj2. exact Hj2.
Qed.

(* ------------------------------------------------------------------ more list facts *)
Lemma NoDup_app_l {A} (a b : list A) : NoDup (a ++ b) -> NoDup a.
Proof.
  induction a as [|x a IH]; cbn; intros H; [constructor|]. inversion H; subst. constructor; [|auto].
  intros Hin. apply H2. apply in_or_app. now left.
Qed.
Lemma NoDup_firstn {A} k (l : list A) : NoDup l -> NoDup (firstn k l).
Proof. intros H. rewrite <- (firstn_skipn k l) in H. now apply NoDup_app_l in H. Qed.

Lemma firstn_In {A} k (l : list A) x : In x (firstn k l) -> In x l.
Proof. intros H. rewrite <- (firstn_skipn k l). apply in_or_app. now left. Qed.

Lemma filter_firstn {A} (f : A -> bool) : forall k l, exists k', filter f (firstn k l) = firstn k' (filter f l).
Proof.
  induction k as [|k IH]; intros l; [exists 0%nat; reflexivity|]. destruct l as [|x l]; [exists 0%nat; reflexivity|].
  destruct (IH l) as (k' & E). cbn [firstn filter]. destruct (f x); [exists (S k'); cbn; now rewrite E|exists k'; exact E].
Qed.
Lemma filter_map_comm {A B} (g : B -> bool) (f : A -> B) l : filter g (map f l) = map f (filter (fun x => g (f x)) l).
Proof. induction l as [|x l IH]; cbn; [reflexivity|]. destruct (g (f x)); cbn; now rewrite IH. Qed.

Lemma prefix_of_map {A B} (f : A -> B) (d : list B) (u s : list A) :
  d ++ map f u = map f s -> d = map f (firstn (length d) s).
Proof.
  intros H. rewrite <- firstn_map, <- H. rewrite firstn_app, Nat.sub_diag, firstn_all. cbn. now rewrite app_nil_r.
Qed.

(* ------------------------------------------------------------------ histories *)
Lemma del_hist_consumes t o : forall p rs, In o (del_hist t p rs) -> consumes p t.
Proof.
  induction p as [|cl p IH]; intros rs H; [destruct H|]. destruct rs as [|r rs]; [destruct H|].
  cbn [del_hist] in H. apply in_app_or in H. destruct H as [H|H].
  - destruct cl as [| |t' ck|]; try destruct H. destruct ck; [|destruct H]. destruct r; try destruct H.
    destruct (N.eqb_spec (t_id t') t) as [E|]; [|destruct H]. exists t', true. split; [now left|exact E].
  - destruct (IH rs H) as (t' & ck & A & B). exists t', ck. split; [now right|exact B].
Qed.

Lemma wr_hist_pids_in t x : forall p rs, In x (map e_pid (wr_hist t p rs)) -> In x (prog_pids p).
Proof.
  induction p as [|cl p IH]; intros rs H; [destruct H|]. destruct rs as [|r rs]; [destruct H|].
  cbn [wr_hist] in H. rewrite map_app in H. apply in_app_or in H. unfold prog_pids. cbn [flat_map]. apply in_or_app.
  destruct H as [H|H]; [left|right; apply (IH rs H)].
  destruct cl; try destruct H. destruct r; try destruct H. destruct (t_id t0 =? t); [exact H|destruct H].
Qed.
Lemma wr_hist_pids_nodup t : forall p rs, NoDup (prog_pids p) -> NoDup (map e_pid (wr_hist t p rs)).
Proof.
  induction p as [|cl p IH]; intros rs H; [constructor|]. destruct rs as [|r rs]; [constructor|].
  unfold prog_pids in H. cbn [flat_map] in H. fold (prog_pids p) in H.
  cbn [wr_hist]. rewrite map_app.
  assert (Hp : NoDup (map e_pid (wr_hist t p rs))) by (apply IH; eapply NoDup_app_r; eauto).
  destruct cl as [t' e| | |]; cbn [app map]; try exact Hp. destruct r; cbn [app map]; try exact Hp.
  destruct (t_id t' =? t); cbn [app map]; [|exact Hp].
  constructor; [|exact Hp]. intros Hin. apply wr_hist_pids_in in Hin.
  cbn [app] in H. inversion H; subst. contradiction.
Qed.

Lemma own_resp p x y : e_pid x = e_pid y -> own p x = own p y.
Proof. unfold own. now intros ->. Qed.
Lemma own_iff p e : own p e = true <-> In (e_pid e) (prog_pids p).
Proof.
  unfold own. rewrite existsb_exists. split.
  - intros (x & Hx & E). apply N.eqb_eq in E. now subst.
  - intros H. exists (e_pid e). split; [exact H|apply N.eqb_refl].
Qed.

Lemma Forall2_nth {A B} (R : A -> B -> Prop) da db : forall l1 l2, length l1 = length l2 ->
  (forall i, (i < length l1)%nat -> R (nth i l1 da) (nth i l2 db)) -> Forall2 R l1 l2.
Proof.
  induction l1 as [|x l1 IH]; intros l2 Hl H; destruct l2 as [|y l2]; try discriminate; constructor.
  - apply (H 0%nat). cbn. lia.
  - apply IH; [cbn in Hl; lia|]. intros i Hi. apply (H (S i)). cbn. lia.
Qed.

(* ------------------------------------------------------------------ the verdict *)
Theorem inv_accepts c progs cs :
  Forall (Forall (fun cl => simple_call cl = true)) progs -> single_consumer progs -> NoDup (offered_pids progs) ->
  INV c progs cs -> threads_done cs = true ->
  c05_run_ok progs (cresults cs) false = true.
Proof.
  intros Hsp SC Hnd Hinv Hdone. pose proof Hinv as [Inext Its Ibf Ilock Ilen Ith Iwin Idel Iown Iowned].
  set (res := cresults cs). set (n := length progs).
  assert (Hlen : length res = n) by (unfold res, cresults; rewrite map_length; exact Ilen).
  (* every thread is finished: its history is its whole program *)
  assert (Hfin : forall i, (i < n)%nat -> exists th, nth_error (cs_threads cs) i = Some th /\ th_todo th = [] /\
                   nth i res [] = rev (th_done th) /\ Forall2 res_ok (nth i progs []) (rev (th_done th))).
  { intros i Hi. destruct (nth_error (cs_threads cs) i) as [th|] eqn:E.
    - exists th. split; [reflexivity|].
      assert (Htd : th_todo th = []).
      { unfold threads_done in Hdone. rewrite forallb_forall in Hdone. specialize (Hdone th (nth_error_In _ _ E)). now destruct (th_todo th). }
      split; [exact Htd|]. split.
      + unfold res, cresults. erewrite nth_indep by (rewrite map_length, Ilen; exact Hi).
        rewrite (map_nth (fun th => rev (th_done th)) (cs_threads cs) th i). f_equal. f_equal. now apply nth_error_nth.
      + destruct (Ith i th E) as (_ & _ & (d & H1 & H2)). rewrite Htd, app_nil_r in H1. now subst d.
    - apply nth_error_None in E. unfold n in Hi. lia. }
  assert (Hthok : Forall2 thread_ok progs res).
  { apply (Forall2_nth thread_ok [] []); [now rewrite Hlen|]. intros i Hi. fold n in Hi.
    destruct (Hfin i Hi) as (th & _ & _ & Hr & Hf). split.
    - eapply Forall_forall in Hsp; [exact Hsp|]. apply nth_In. exact Hi.
    - now rewrite Hr. }
  unfold c05_run_ok. fold res. rewrite (events_all_simple progs res 0 Hthok). cbn [negb andb].
  set (a := all_apps 0 progs res). set (d := all_dels 0 progs res).
  unfold c05_ok. apply forallb_forall. intros t _.
  (* the ledgers of topic t *)
  set (S := stream (eff cs t)). set (U := unread c (eff cs t)).
  set (W := fun i => wr_hist t (nth i progs []) (nth i res [])).
  set (D := fun i => del_hist t (nth i progs []) (nth i res [])).
  assert (Fown : forall i, (i < n)%nat -> filter (own (nth i progs [])) S = W i).
  { intros i Hi. destruct (Hfin i Hi) as (th & E & Htd & Hr & Hf). unfold W. rewrite Hr.
    unfold S. rewrite (Iown t i th E). unfold wr_seq, done_of, wr_pending. rewrite Htd. cbn [length]. rewrite Nat.sub_0_r, firstn_all. now rewrite app_nil_r. }
  assert (Fdel : forall i, (i < n)%nat -> consumes (nth i progs []) t -> D i ++ map out_of U = map out_of S).
  { intros i Hi Hcons. destruct (Hfin i Hi) as (th & E & Htd & Hr & Hf). unfold D. rewrite Hr.
    unfold S, U. rewrite <- (Idel t i th E Hcons). unfold del_seq, done_of, del_pending. rewrite Htd. cbn [length]. rewrite Nat.sub_0_r, firstn_all. now rewrite app_nil_r. }
  assert (Dout : forall i, (n <= i)%nat -> D i = []).
  { intros i Hi. unfold D. rewrite (nth_overflow progs) by (fold n; lia). reflexivity. }
  assert (Wout : forall i, (n <= i)%nat -> W i = []).
  { intros i Hi. unfold W. rewrite (nth_overflow progs) by (fold n; lia). reflexivity. }
  (* payload ids in the stream are distinct *)
  assert (Hnds : NoDup (map e_pid S)).
  { apply (nodup_cover e_pid (fun i => own (nth i progs [])) (seq 0 n) S).
    - intros e He. destruct (Iowned t e He) as (i & Hi & Ho). exists i. split; [apply in_seq; fold n in Hi; lia|exact Ho].
    - intros i x y. apply own_resp.
    - intros i Hi. apply in_seq in Hi. cbn beta. rewrite (Fown i ltac:(lia)). unfold W. apply wr_hist_pids_nodup.
      destruct (offered_pids_nth progs i ltac:(fold n; lia)) as (x & y & E). rewrite E in Hnd.
      apply NoDup_app_r in Hnd. now apply NoDup_app_l in Hnd. }
  (* what was delivered on t: a prefix of the stream, all of it by one thread *)
  assert (HR : exists k i0, all_del t progs res = map out_of (firstn k S) /\
                 (forall q, D q = [] \/ (q = i0 /\ D q = map out_of (firstn k S)))).
  { destruct (find (fun i => match D i with [] => false | _ => true end) (seq 0 n)) as [i0|] eqn:Ef.
    - apply find_some in Ef. destruct Ef as (Hin & Hne). apply in_seq in Hin.
      assert (Hc0 : consumes (nth i0 progs []) t).
      { destruct (D i0) as [|o l] eqn:E; [discriminate|]. apply (del_hist_consumes t o _ (nth i0 res [])). fold (D i0). rewrite E. now left. }
      assert (Hothers : forall j, j <> i0 -> D j = []).
      { intros j Hj. destruct (D j) as [|o l] eqn:E; [reflexivity|]. exfalso. apply Hj. apply (SC t); [|exact Hc0].
        apply (del_hist_consumes t o _ (nth j res [])). fold (D j). rewrite E. now left. }
      pose proof (prefix_of_map out_of (D i0) U S (Fdel i0 ltac:(lia) Hc0)) as Hpre.
      exists (length (D i0)), i0. split.
      + rewrite (all_del_single t progs res i0 Hothers). fold n. rewrite Hlen.
        replace ((i0 <? n)%nat && (i0 <? n)%nat) with true by lia. exact Hpre.
      + intros q. destruct (Nat.eq_dec q i0) as [->|Hq]; [right; split; [reflexivity|exact Hpre]|left; now apply Hothers].
    - assert (Hall : forall j, D j = []).
      { intros j. destruct (Nat.lt_ge_cases j n) as [Hj|Hj]; [|now apply Dout].
        pose proof (find_none _ _ Ef j ltac:(apply in_seq; lia)) as Hf. cbn beta in Hf. now destruct (D j). }
      exists 0%nat, 0%nat. split; [cbn; now apply all_del_nil|]. intros q. left. apply Hall. }
  destruct HR as (k & i0 & HR & HD).
  (* membership of a payload id in a producer's list, for entries of the stream *)
  assert (Hmem : forall p e, (p < n)%nat -> In e S -> c_memN (e_pid e) (map e_pid (W p)) = own (nth p progs []) e).
  { intros p e Hp He. rewrite <- (Fown p Hp). destruct (own (nth p progs []) e) eqn:Eo.
    - apply memN_In. apply in_map. apply filter_In. split; assumption.
    - destruct (c_memN _ _) eqn:Em; [|reflexivity]. apply memN_In in Em. apply in_map_iff in Em. destruct Em as (e' & Ee & Hin').
      apply filter_In in Hin'. destruct Hin' as (_ & Ho'). rewrite (own_resp _ _ _ Ee) in Ho'. congruence. }
  unfold c05_topic_ok. unfold a, d.
  rewrite (acked_all t progs res 0), (delivered_all t progs res 0), HR.
  assert (Hpid : map o_pid (map out_of (firstn k S)) = map e_pid (firstn k S)) by (rewrite map_map; reflexivity).
  assert (Hndk : NoDup (map e_pid (firstn k S))) by (rewrite <- firstn_map; now apply NoDup_firstn).
  apply andb_true_intro. split; [apply andb_true_intro; split; [apply andb_true_intro; split|]|].
  - (* whole *)
    apply forallb_forall. intros o Ho. apply in_map_iff in Ho. destruct Ho as (e & <- & He).
    assert (HeS : In e S) by (eapply firstn_In; eauto).
    destruct (Iowned t e HeS) as (p & Hp & Hop).
    unfold whole_of. cbn [out_of o_skip o_pid o_len]. apply andb_true_intro. split; [reflexivity|].
    apply existsb_exists. exists e. split; [|now rewrite !N.eqb_refl].
    apply in_all_wr. exists p. fold n. rewrite Hlen. repeat split; try exact Hp.
    fold (W p). rewrite <- (Fown p Hp). apply filter_In. split; assumption.
  - (* once *)
    rewrite Hpid. now apply nodupN_NoDup.
  - reflexivity.
  - (* order and batch contiguity, per consumer thread *)
    apply forallb_forall. intros q _.
    assert (HSq : got_by (all_dels 0 progs res) t q = [] \/ got_by (all_dels 0 progs res) t q = map out_of (firstn k S)).
    { rewrite (got_by_all t q progs res 0). fold n. rewrite Hlen.
      destruct ((0 <=? q)%nat && (q <? 0 + n)%nat && (q <? 0 + n)%nat); [|now left].
      rewrite Nat.sub_0_r. fold (D q). destruct (HD q) as [-> | (_ & ->)]; [now left|now right]. }
    apply andb_true_intro. split.
    + apply forallb_forall. intros p _.
      destruct HSq as [-> | ->]; [reflexivity|]. rewrite Hpid.
      rewrite (sent_by_all t p progs res 0). fold n. rewrite Hlen.
      destruct ((0 <=? p)%nat && (p <? 0 + n)%nat && (p <? 0 + n)%nat) eqn:Ep.
      * rewrite Nat.sub_0_r. fold (W p). assert (Hp : (p < n)%nat) by lia.
        rewrite filter_map_comm.
        rewrite (filter_filter_same (fun x => c_memN (e_pid x) (map e_pid (W p))) (own (nth p progs [])) (firstn k S)).
        -- destruct (filter_firstn (own (nth p progs [])) k S) as (k' & Ek). rewrite Ek, (Fown p Hp).
           rewrite <- (firstn_skipn k' (W p)) at 2. rewrite map_app. apply is_subseq_prefix.
        -- intros x Hx. apply Hmem; [exact Hp|eapply firstn_In; eauto].
      * cbn [map]. rewrite (filter_none (fun x => c_memN x [])); [reflexivity|]. apply Forall_forall. intros; reflexivity.
    + apply forallb_forall. intros ev Hev. unfold apps_on in Hev. apply filter_In in Hev. destruct Hev as (Hev & _).
      pose proof (all_apps_single 0 progs res) as Hs1. eapply Forall_forall in Hs1; [|exact Hev]. destruct Hs1 as (e & ->). cbn [map].
      apply contiguous_single. destruct HSq as [-> | ->]; [constructor|]. now rewrite Hpid.
Qed.

(* ------------------------------------------------------------------ what the acceptor's verdict means *)
Lemma nodupN_true l : nodupN l = true -> NoDup l.
Proof.
  induction l as [|x l IH]; cbn; intros H; [constructor|]. apply andb_true_iff in H. destruct H as (A & B).
  constructor; [|now apply IH]. intros Hin. apply memN_In in Hin. rewrite Hin in A. discriminate.
Qed.

Theorem c05_topic_ok_means apps dels drained t : c05_topic_ok apps dels drained t = true ->
  (forall o, In o (delivered dels t) ->
     o_skip o = 0 /\ exists e, In e (acked apps t) /\ e_pid e = o_pid o /\ e_len e = o_len o) /\
  NoDup (map o_pid (delivered dels t)) /\
  (drained = true -> forall e, In e (acked apps t) -> In (e_pid e) (map o_pid (delivered dels t))).
Proof.
  unfold c05_topic_ok. intros H.
  apply andb_true_iff in H. destruct H as (H & _).
  apply andb_true_iff in H. destruct H as (H & H3).
  apply andb_true_iff in H. destruct H as (H1 & H2).
  split; [|split].
  - intros o Ho. rewrite forallb_forall in H1. specialize (H1 o Ho). unfold whole_of in H1.
    apply andb_true_iff in H1. destruct H1 as (A & B). split; [now apply N.eqb_eq|].
    apply existsb_exists in B. destruct B as (e & He & E). apply andb_true_iff in E. destruct E as (E1 & E2).
    exists e. split; [exact He|]. split; now apply N.eqb_eq.
  - now apply nodupN_true.
  - intros -> e He. cbn [negb orb] in H3. rewrite forallb_forall in H3. apply memN_In. now apply H3.
Qed.
