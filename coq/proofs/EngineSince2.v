(* EngineSince2.v — the numbered lag invariant LNs along every restart-free AtLeastOnce history whose
   consuming reads are read_next calls, and the re-delivery bound after a crash between two operations. *)
From W Require Import model.Base model.Engine spec.Queue proofs.EngineBasic proofs.EngineWF proofs.EngineInv proofs.EngineBR proofs.EngineW
  proofs.EngineMain proofs.EngineRec proofs.EngineDisk proofs.EnginePos proofs.EngineGrow proofs.EngineP3 proofs.EngineIdx proofs.EngineBlk
  proofs.EngineNorm proofs.EngineNormW proofs.EngineRaw proofs.EngineRestart proofs.EngineReopen proofs.EngineC06 proofs.EngineP3L
  proofs.EngineIdxL proofs.EnginePWL proofs.EngineALO proofs.EngineALO2 proofs.EngineIdxS proofs.EngineSince.
From Coq Require Import ZArith ZifyBool ZifyN ZifyNat.

Lemma LNs_set c n s t ts' : LNs c n s -> LN c ts' -> r_since (reader_of ts') < N.max n 1 -> LNs c n (set_ts s t ts').
Proof.
  intros H H1 H2 t0. destruct (N.eq_dec t0 t) as [->|Hne]; [rewrite get_set_same; auto|].
  rewrite get_set_other by exact Hne. apply H.
Qed.

Lemma LNs_write c n s s' g g' B Bb B' Bb' t :
  cfg_ok c -> Rel c s g B Bb -> Rel c s' g' B' Bb' -> LNs c n s ->
  Grow (get_ts s t) (get_ts s' t) -> keep (get_ts s t) (get_ts s' t) ->
  (forall t', t' <> t -> get_ts s' t' = get_ts s t') ->
  l_del (lget g' t) = l_del (lget g t) ->
  LNs c n s'.
Proof.
  intros Hc (_ & Hall) (_ & Hall') Hln Hg (_ & _ & K3 & K4) Hoth Hdel t0. pose proof Hc as (Hh & _).
  destruct (N.eq_dec t0 t) as [->|Hne]; [|rewrite (Hoth t0 Hne); apply Hln].
  destruct (Hln t) as (L1 & L2). split; [|now rewrite K4].
  destruct (Hall t) as (Hdl & Hs & Hu & _). destruct (Hall' t) as (Hdl' & Hs' & Hu' & _).
  pose proof Hg as (_ & (es & Hes & _)).
  apply (LN_grow c Hh _ _ es Hg Hes); [|exact K3|exact K4|exact L1].
  rewrite Hu', Hu, Hdel, <- Hs', Hes, Hs. now rewrite skipn_app_le by exact Hdl.
Qed.

Lemma LNs_step c n be s g B Bb o : cfg_ok c -> n <= u32_max -> GL c s g B Bb -> LNs c n s -> op_ok c o -> rn_only o = true ->
  B + N.of_nat (length (offered o)) <= u64_max -> Bb + sum_len (offered o) <= u64_max ->
  LNs c n (fst (step (env_of c (ALO n) be) s o)).
Proof.
  intros Hc Hn32 HGL Hln Hok Hrn HB HBb. pose proof Hc as (Hh & Hb0 & _).
  pose proof (GL_step c (ALO n) be s g B Bb o Hc HGL Hok HB HBb) as (Hrel' & _).
  destruct HGL as (Hrel & Hd & Hb & Hl & Hp). pose proof Hrel as ((Hn & Hti) & _).
  destruct o as [t e | t es | t ck | t maxb ck start | t | ]; cbn [step env_of v_cfg v_mode v_backend] in *.
  - assert (Hcs : forall bid, (forall w, ts_writer (get_ts s (t_id t)) = Some w -> bid = b_id w) ->
                    (ts_writer (get_ts s (t_id t)) = None -> bid = a_next (s_alloc s)) -> CS (get_ts s (t_id t)) bid (a_next (s_alloc s))).
    { intros bid _ _. apply (CS_hydrated_world c). apply Hti. }
    eapply (LNs_write c n s _ g _ B Bb _ _ (t_id t) Hc Hrel Hrel' Hln).
    + apply append_grow_nc; [exact Hc|split; assumption].
    + exact (proj2 (append_Nst false c s t e Hn Hcs)).
    + intros t' Hne. now apply append_others.
    + now apply ledger_step_write_del.
  - assert (Hcs : forall bid, (forall w, ts_writer (get_ts s (t_id t)) = Some w -> bid = b_id w) ->
                    (ts_writer (get_ts s (t_id t)) = None -> bid = a_next (s_alloc s)) -> CS (get_ts s (t_id t)) bid (a_next (s_alloc s))).
    { intros bid _ _. apply (CS_hydrated_world c). apply Hti. }
    eapply (LNs_write c n s _ g _ B Bb _ _ (t_id t) Hc Hrel Hrel' Hln).
    + apply batch_grow_nc; [exact Hc|split; assumption].
    + exact (proj2 (batch_Nst false c be s t es Hn Hcs)).
    + intros t' Hne. now apply batch_others.
    + now apply ledger_step_write_del.
  - destruct (Hln (t_id t)) as (L1 & L2).
    destruct (read_next_spec_alo c n s t ck (a_next (s_alloc s)) Hc Hn32 (Hti (t_id t)) L2)
      as (ts' & res & Hr & Hinv' & Hst' & Hw' & Hch' & Hhy' & Hcase & Hidx).
    rewrite Hr. cbn [fst].
    assert (Hcne : CNE ts') by (unfold CNE; rewrite Hch'; exact (proj1 (Hp (t_id t)))).
    destruct Hidx as [(Hi & Hun & Hs)|[(Hi & (e0 & Hun) & Hs & Hlt)|[(p & Hi & Hpos & Hs)|((w & Hck & Hw0 & Hi & Hri & Hun0 & Hne) & Hs & Hlt)]]].
    + apply LNs_set; [exact Hln| |rewrite Hs; exact L2]. eapply LN_ext; eauto.
    + apply LNs_set; [exact Hln| |exact Hlt]. eapply LN_consume; eauto.
    + apply LNs_set; [exact Hln| |rewrite Hs; lia]. eapply LN_good; eauto. eapply posis_PGood; eauto.
    + apply LNs_set; [exact Hln| |rewrite Hs; exact Hlt].
      assert (Hm : memne ts' = chain_of ts' ++ [w]).
      { rewrite (memne_cne ts' Hcne). unfold w_list. rewrite Hw', Hw0. cbn [filter].
        apply nonempty_b_true in Hne. now rewrite Hne. }
      destruct (unread c (get_ts s (t_id t))) as [|e0 rest] eqn:Eu; [congruence|].
      destruct Hcase as (_ & Hun'). rewrite Hck in Hun'.
      unfold LN. rewrite Hi. exists (length (chain_of ts')), w, [e0]. rewrite Hm. cbn [p_tail p_a p_off].
      split; [rewrite nth_error_app2 by lia; now rewrite Nat.sub_diag|]. split; [reflexivity|]. split; [apply okoff_0|].
      split; [|rewrite Hs; reflexivity].
      unfold from. rewrite skipn_app, skipn_all, Nat.sub_diag. cbn [app skipn chain_ents flat_map].
      rewrite app_nil_r, ents_from_0, <- Hun0, Hun'. reflexivity.
  - destruct start as [st0|].
    + destruct (batch_read_stateless c (ALO n) s t maxb ck st0) as (os & Hr). rewrite Hr. cbn [fst].
      destruct (Hln (t_id t)) as (L1 & L2). apply LNs_set; assumption.
    + destruct ck; [discriminate|].
      destruct (batch_read_peek c (ALO n) s t maxb _ (Hti (t_id t))) as (r1 & res & Hr & E1 & E2 & E3 & E4 & E5 & E6).
      rewrite Hr. cbn [fst]. destruct (Hln (t_id t)) as (L1 & L2).
      apply LNs_set; [exact Hln| |cbn [reader_of with_reader ts_reader]; now rewrite E6].
      apply (LN_ext c (get_ts s (t_id t))); [| | | | |exact L1].
      * unfold chain_of. cbn [reader_of with_reader ts_reader]. exact E1.
      * reflexivity.
      * reflexivity.
      * now apply unread_with_reader.
      * cbn [reader_of with_reader ts_reader]. exact E6.
  - exact Hln.
  - contradiction.
Qed.

Theorem LNs_reachable c n be : cfg_ok c -> n <= u32_max -> forall ops s g B Bb,
  GL c s g B Bb -> LNs c n s -> Forall (op_ok c) ops -> forallb rn_only ops = true ->
  B + N.of_nat (length (offered_all ops)) <= u64_max -> Bb + sum_len (offered_all ops) <= u64_max ->
  LNs c n (exec (env_of c (ALO n) be) s ops).
Proof.
  intros Hc Hn32. induction ops as [|o r IH]; intros s g B Bb HG Hln Hok Hrn HB HBb; [exact Hln|].
  inversion Hok as [|x l Ho Hr]; subst. cbn [forallb] in Hrn. apply andb_true_iff in Hrn. destruct Hrn as (Hrn1 & Hrn2).
  cbn [offered_all] in HB, HBb. rewrite app_length, Nat2N.inj_add in HB. rewrite sum_len_app in HBb.
  pose proof (GL_step c (ALO n) be s g B Bb o Hc HG Ho ltac:(lia) ltac:(lia)) as Hstep.
  pose proof (LNs_step c n be s g B Bb o Hc Hn32 HG Hln Ho Hrn1 ltac:(lia) ltac:(lia)) as Hln'.
  cbn [exec]. destruct (step (env_of c (ALO n) be) s o) as [s' res]. cbn [fst snd] in *.
  apply (IH s' _ _ _ Hstep Hln' Hr Hrn2); lia.
Qed.

(* AtLeastOnce{persist_every = n}, restart-free history whose consuming reads are read_next calls, crash
   between two operations (= reopen), no block-id drift: the consumer resumes at position k with
   k <= l_del (nothing skipped) and l_del - k <= n (at most persist_every entries delivered again) *)
Theorem crash_between_operations_alo_bound c n be ops : cfg_ok c -> n <= u32_max ->
  Forall (op_ok c) ops -> forallb rn_only ops = true ->
  N.of_nat (length (offered_all ops)) <= u64_max -> sum_len (offered_all ops) <= u64_max ->
  id_drift c (exec (env_of c (ALO n) be) init ops) = false ->
  let s := exec (env_of c (ALO n) be) init ops in
  let g := ledger_run [] (trace (env_of c (ALO n) be) init ops) in
  forall t x,
    stream (get_ts (reopen c s) t) = l_app (lget g t) /\
    exists k, (k <= l_del (lget g t))%nat /\ N.of_nat (l_del (lget g t) - k) <= n /\
              N.of_nat (l_del (lget g t) - k) < N.max n 1 /\
              unread c (nrm x (get_ts (reopen c s) t)) = skipn k (l_app (lget g t)).
Proof.
  intros Hc Hn32 Hok Hrn HB HBb Hdrift. cbn zeta. pose proof Hc as (_ & Hb0 & _).
  destruct (GL_reachable c (ALO n) be Hc ops init [] 0 0 (GL_init c Hb0) Hok ltac:(lia) ltac:(lia)) as (B' & Bb' & HG).
  pose proof (LNs_reachable c n be Hc Hn32 ops init [] 0 0 (GL_init c Hb0) (LNs_init c n) Hok Hrn ltac:(lia) ltac:(lia)) as Hln.
  destruct HG as (((Hn & Hti) & Hled) & Hd & Hb & Hl & Hp). intros t x.
  destruct (Hled t) as (Hdl & Hs & Hu & _). destruct (Hln t) as (L1 & L2).
  destruct (reopen_unread_LN c _ t x _ Hc Hd Hb Hl (Hti t) L1 Hdrift) as (Hst & pre & Hlen & Hpre & (k & Hsk)).
  split; [now rewrite Hst|].
  rewrite Hs in Hsk. rewrite Hu in Hpre.
  destruct (skipn_back2 (l_app (lget _ t)) pre k (l_del (lget _ t)) Hdl ltac:(rewrite <- Hsk; exact Hpre)) as (k' & Hk' & Hdk & Heq).
  exists k'. split; [exact Hk'|]. split; [lia|]. split; [lia|]. now rewrite Hsk, Heq.
Qed.
