(* EngineReopen.v — a clean restart re-establishes the invariant G of EngineRestart.v with the SAME
   ledger, provided the state is outside the two known classes at that moment: block-id drift
   ([id_drift]) and a persisted tail position naming a block that holds no entries ([stale_tail]).
   Consequence: unread entries, stream and count of every topic are what they were. *)
From W Require Import model.Base model.Engine spec.Queue proofs.EngineBasic proofs.EngineWF proofs.EngineInv proofs.EngineBR proofs.EngineW
  proofs.EngineMain proofs.EngineRec proofs.EngineDisk proofs.EnginePos proofs.EngineGrow proofs.EngineP3 proofs.EngineIdx proofs.EngineBlk
  proofs.EngineNorm proofs.EngineNormW proofs.EngineRaw proofs.EngineRestart.
From Coq Require Import ZArith ZifyBool ZifyN ZifyNat.

(* ------------------------------------------------------------------ counting *)
Lemma sum_counts_app a b : sum_counts (a ++ b) = sum_counts a + sum_counts b.
Proof. unfold sum_counts. induction a as [|x a IH]; cbn [app fold_right]; [lia|]. rewrite IH. lia. Qed.

Lemma sum_counts_len l : sum_counts l = N.of_nat (length (chain_ents l)).
Proof.
  induction l as [|b l IH]; [reflexivity|]. unfold sum_counts in *. cbn [fold_right]. rewrite IH.
  unfold chain_ents. cbn [flat_map]. rewrite app_length. unfold blk_count. lia.
Qed.

Lemma count_upto_okoff c (Hh : 0 < c_hdr c) : forall es pos n off, okoff c es off ->
  count_upto c es pos (pos + off) n + N.of_nat (length (ents_from c es off)) = n + N.of_nat (length es).
Proof.
  induction es as [|e r IH]; intros pos n off Hok; cbn [count_upto ents_from length].
  - lia.
  - pose proof (need_pos c e Hh) as Hne. unfold okoff in Hok. cbn [ents_from sum_need] in Hok.
    destruct (off =? 0) eqn:E0.
    + replace (pos + off <=? pos) with true by lia. cbn [length]. lia.
    + destruct (off <? need c e) eqn:E1; [cbn [sum_need] in Hok; lia|].
      replace (pos + off <=? pos) with false by lia.
      replace (pos + off <? pos + need c e) with false by lia.
      assert (Hok' : okoff c r (off - need c e)) by (unfold okoff; lia).
      specialize (IH (pos + need c e) (n + 1) (off - need c e) Hok').
      replace (pos + need c e + (off - need c e)) with (pos + off) in IH by lia. lia.
Qed.

Lemma from_len c (Hh : 0 < c_hdr c) ch j b off : nth_error ch j = Some b -> bwf c b -> okoff c (b_ents b) off ->
  consumed_at c ch j off + N.of_nat (length (from c ch j off)) = sum_counts ch.
Proof.
  intros Hb (Hu & _) Hok. unfold consumed_at, from. rewrite Hb, (nth_error_split_skipn _ _ _ Hb).
  rewrite <- (firstn_skipn j ch) at 3. rewrite (nth_error_split_skipn _ _ _ Hb), sum_counts_app.
  change (sum_counts (b :: skipn (S j) ch)) with (blk_count b + sum_counts (skipn (S j) ch)).
  rewrite app_length, (sum_counts_len (skipn (S j) ch)). unfold blk_count.
  pose proof (okoff_le _ _ _ Hok) as Hle.
  destruct (b_used b <=? off) eqn:E.
  - rewrite (ents_from_end c Hh) by lia. cbn [length]. lia.
  - replace (N.min off (b_used b)) with off by lia.
    pose proof (count_upto_okoff c Hh (b_ents b) 0 0 off Hok) as H. rewrite N.add_0_l in H. lia.
Qed.

(* ------------------------------------------------------------------ block lists that agree on ids and contents *)
Lemma nth_error_map_eq {A B} (f : A -> B) l l' j x : map f l = map f l' -> nth_error l j = Some x ->
  exists x', nth_error l' j = Some x' /\ f x' = f x.
Proof.
  intros H Hx. assert (Hm : nth_error (map f l') j = Some (f x)) by (rewrite <- H; now apply map_nth_error).
  destruct (nth_error l' j) as [x'|] eqn:E.
  - exists x'. split; [reflexivity|]. rewrite (map_nth_error f _ _ E) in Hm. now inversion Hm.
  - apply nth_error_None in E. assert (nth_error (map f l') j = None) by (apply nth_error_None; now rewrite map_length). congruence.
Qed.

Lemma from_ents_eq c l l' j o : map b_ents l = map b_ents l' -> from c l j o = from c l' j o.
Proof.
  revert l l'. induction j as [|j IH]; intros l l' H.
  - unfold from. cbn [skipn]. destruct l as [|b l], l' as [|b' l']; cbn in H; try discriminate; [reflexivity|].
    inversion H. rewrite H1. f_equal. now apply chain_ents_map_eq.
  - destruct l as [|b l], l' as [|b' l']; cbn in H; try discriminate; [reflexivity|]. inversion H.
    unfold from in *. cbn [skipn]. now apply IH.
Qed.

Lemma find_id_nodup l : NoDup (map b_id l) -> forall j b i, nth_error l j = Some b -> find_id l (b_id b) i = Some (i + j)%nat.
Proof.
  induction l as [|x l IH]; intros Hnd j b i Hb; [destruct j; discriminate|].
  cbn [map] in Hnd. inversion Hnd as [|y ys Hnin Hnd']; subst. cbn [find_id].
  destruct j as [|j]; cbn in Hb.
  - inversion Hb; subst. rewrite N.eqb_refl. f_equal. lia.
  - destruct (b_id x =? b_id b) eqn:E.
    + exfalso. apply Hnin. replace (b_id x) with (b_id b) by lia. apply in_map. eapply nth_error_In; eauto.
    + rewrite (IH Hnd' j b (S i) Hb). f_equal. lia.
Qed.

Lemma existsb_id_false l a : existsb (fun b => b_id b =? a) l = false <-> Forall (fun b => b_id b <> a) l.
Proof.
  induction l as [|b l IH]; cbn [existsb]; [split; [constructor|reflexivity]|].
  rewrite orb_false_iff, IH. split.
  - intros (A & B). constructor; [lia|exact B].
  - intros H. inversion H; subst. split; [lia|assumption].
Qed.

Lemma startup_cursor_nil idx : startup_cursor [] idx = (0%nat, 0).
Proof.
  unfold startup_cursor. destruct idx as [p|]; [|reflexivity].
  unfold clamp_idx, used_at. cbn [length]. destruct (p_tail p).
  - destruct (nth_error [] 0) eqn:E; [discriminate|reflexivity].
  - destruct (N.of_nat 0 <? p_a p) eqn:E; cbn.
    + reflexivity.
    + replace (p_a p) with 0 by lia. reflexivity.
Qed.

(* ------------------------------------------------------------------ the state a restart produces, per topic *)
Definition mk_reader (ch : list blk) (io : nat * N) : reader :=
  {| r_chain := ch; r_idx := fst io; r_off := snd io; r_tail_bid := 0; r_tail_off := 0; r_since := 0; r_hydrated := false |}.

Lemma reopen_shape c s t : 0 < c_hdr c -> 0 < c_block c -> Forall (dwf c) (rev (s_disk s)) ->
  let ts := get_ts s t in
  let ts' := get_ts (reopen c s) t in
  let rch := chain_of ts' in
  reader_of ts' = mk_reader rch (startup_cursor rch (ts_index ts)) /\
  ts_index ts' = ts_index ts /\ ts_writer ts' = None /\ ts_poisoned ts' = false /\
  ts_unmodelled ts' = ts_unmodelled ts /\
  cnt ts' = rebuilt_count c rch (ts_index ts) /\
  ((exists old, In (t, old) (s_topics s) /\ ts = old /\ rch = rc_get (rc_chains (fst (scan0 c s))) t) \/
   (ts = tstate0 /\ ts' = tstate0)).
Proof.
  intros Hh Hb Hwf. cbn zeta.
  pose proof (scan_files_complete c Hh Hb (N.to_nat (s_files s + 1)) 0 (rev (s_disk s)) 1 {| rc_chains := []; rc_flag := false |} Hwf) as Hscan.
  unfold reopen, scan0. destruct (scan_files _ _ _ _ _ _) as [rc nid]. destruct Hscan as (Hflag & _). cbn [rc_flag] in Hflag. cbn [fst].
  unfold get_ts. cbn [s_topics].
  rewrite find_map_key.
  2:{ intros [k v]. cbn. destruct (find _ (rc_chains rc)) as [[? [? ?]]|]; [destruct (startup_cursor _ _)|]; reflexivity. }
  destruct (find (fun p => fst p =? t) (s_topics s)) as [[k old]|] eqn:Ef; cbn [option_map snd].
  - pose proof (find_some _ _ Ef) as (Hin & Hk). cbn in Hk. assert (k = t) by lia. subst k.
    cbn [fst snd]. unfold rc_get.
    destruct (find (fun q => fst q =? t) (rc_chains rc)) as [[k2 [t2 ch]]|].
    + destruct (startup_cursor ch (ts_index old)) as [i o] eqn:Esc. cbn [snd].
      unfold chain_of, reader_of, cnt, mk_reader. cbn [ts_reader ts_index ts_writer ts_poisoned ts_unmodelled ts_count r_chain].
      rewrite Esc, Hflag, orb_false_r. cbn [fst snd].
      split; [reflexivity|]. split; [reflexivity|]. split; [reflexivity|]. split; [reflexivity|]. split; [reflexivity|].
      split; [reflexivity|]. left. exists old. auto.
    + cbn [snd]. unfold chain_of, reader_of, cnt, mk_reader. cbn [ts_reader ts_index ts_writer ts_poisoned ts_unmodelled ts_count r_chain reader0].
      rewrite startup_cursor_nil, Hflag, orb_false_r. cbn [fst snd].
      split; [reflexivity|]. split; [reflexivity|]. split; [reflexivity|]. split; [reflexivity|]. split; [reflexivity|].
      split; [|left; exists old; auto].
      unfold rebuilt_count, consumed_at. cbn [sum_counts fold_right length find_id].
      destruct (ts_index old) as [p|]; [|reflexivity]. destruct (p_tail p); [reflexivity|].
      rewrite firstn_nil. destruct (nth_error [] _) eqn:E; [destruct (clamp_idx _ _); discriminate|]. reflexivity.
  - unfold chain_of, reader_of, cnt, mk_reader. cbn.
    repeat split; auto.
Qed.

(* ------------------------------------------------------------------ what the two known-class booleans say *)
Lemma nlist_eqb_eq a b : nlist_eqb a b = true -> a = b.
Proof.
  revert b; induction a as [|x a IH]; intros b H; destruct b as [|y b]; cbn in H; try discriminate; [reflexivity|].
  apply andb_true_iff in H. destruct H as (H1 & H2). f_equal; [lia|now apply IH].
Qed.

Lemma memne_raw ts :
  filter (fun b => match b_ents b with [] => false | _ => true end)
         ((match ts_reader ts with Some r => r_chain r | None => [] end) ++
          (match ts_writer ts with Some w => [w] | None => [] end)) = memne ts.
Proof. unfold memne, chain_of, reader_of, w_list. destruct (ts_reader ts); reflexivity. Qed.

Lemma existsb_false_in {A} (f : A -> bool) l x : existsb f l = false -> In x l -> f x = false.
Proof.
  intros H Hin. destruct (f x) eqn:E; [|reflexivity]. exfalso.
  assert (existsb f l = true) by (apply existsb_exists; exists x; auto). congruence.
Qed.

Lemma nodrift_ids c s t old : id_drift c s = false -> In (t, old) (s_topics s) ->
  map b_id (rc_get (rc_chains (fst (scan0 c s))) t) = map b_id (memne old).
Proof.
  unfold id_drift, scan0. destruct (scan_files _ _ _ _ _ _) as [rc nid]. cbn [fst]. intros H Hin.
  pose proof (existsb_false_in _ _ (t, old) H Hin) as Hall. cbn [fst snd] in Hall.
  apply negb_false_iff, nlist_eqb_eq in Hall. rewrite memne_raw in Hall. exact Hall.
Qed.

Lemma nostale s t old p : stale_tail s = false -> In (t, old) (s_topics s) -> ts_index old = Some p ->
  stale_p (memne old) p = false.
Proof.
  unfold stale_tail. intros H Hin Hp.
  pose proof (existsb_false_in _ _ (t, old) H Hin) as Hall. cbn [snd] in Hall. now rewrite Hp in Hall.
Qed.

(* ------------------------------------------------------------------ hydration of the reader a restart leaves *)
Lemma hyd_mk c x rch sc p j b' :
  nth_error rch j = Some b' -> okoff c (b_ents b') (p_off p) -> b_used b' = sum_need c (b_ents b') ->
  NoDup (map b_id rch) ->
  (if p_tail p then b_id b' = p_a p else p_a p = N.of_nat j) ->
  r_chain (hyd x (mk_reader rch sc) (Some p)) = rch /\ r_idx (hyd x (mk_reader rch sc) (Some p)) = j /\
  r_off (hyd x (mk_reader rch sc) (Some p)) = p_off p /\ r_hydrated (hyd x (mk_reader rch sc) (Some p)) = true /\
  (r_tail_bid (hyd x (mk_reader rch sc) (Some p)) = 0 \/
   (r_tail_bid (hyd x (mk_reader rch sc) (Some p)) = p_a p /\ p_tail p = true)).
Proof.
  intros Hb Hok Hu Hnd Hpos.
  assert (Hj : (j < length rch)%nat) by (apply nth_error_Some; congruence).
  assert (Hmin : N.min (p_off p) (b_used b') = p_off p) by (pose proof (okoff_le _ _ _ Hok); lia).
  split; [apply hyd_chain|]. split; [|split; [|split; [apply hyd_hydrated|]]];
    unfold hyd, hydrate, mk_reader; cbn [r_hydrated r_chain]; destruct (p_tail p) eqn:Et.
  - pose proof (find_id_nodup rch Hnd j b' 0%nat Hb) as Hf. rewrite Hpos in Hf. cbn [Nat.add] in Hf.
    destruct x; unfold fold_tail, set_hydrated, set_cur, set_tail; cbn [r_chain r_idx r_off r_tail_bid r_tail_off r_since r_hydrated];
      rewrite Hf; reflexivity.
  - unfold fold_tail, set_hydrated, set_cur; cbn [r_chain r_idx r_off r_tail_bid r_tail_off r_since r_hydrated].
    unfold clamp_idx. rewrite Hpos. replace (N.of_nat (length rch) <? N.of_nat j) with false by lia. apply Nat2N.id.
  - pose proof (find_id_nodup rch Hnd j b' 0%nat Hb) as Hf. rewrite Hpos in Hf. cbn [Nat.add] in Hf.
    destruct x; unfold fold_tail, set_hydrated, set_cur, set_tail; cbn [r_chain r_idx r_off r_tail_bid r_tail_off r_since r_hydrated];
      rewrite Hf; unfold used_at; rewrite Hb; cbn [r_off]; exact Hmin.
  - unfold fold_tail, set_hydrated, set_cur; cbn [r_chain r_idx r_off r_tail_bid r_tail_off r_since r_hydrated].
    unfold clamp_idx. rewrite Hpos. replace (N.of_nat (length rch) <? N.of_nat j) with false by lia. rewrite Nat2N.id.
    unfold used_at. rewrite Hb. exact Hmin.
  - pose proof (find_id_nodup rch Hnd j b' 0%nat Hb) as Hf. rewrite Hpos in Hf. cbn [Nat.add] in Hf.
    destruct x; unfold fold_tail, set_hydrated, set_cur, set_tail; cbn [r_chain r_idx r_off r_tail_bid r_tail_off r_since r_hydrated];
      rewrite Hf; cbn [r_tail_bid]; [right; split; reflexivity|left; reflexivity].
  - left. reflexivity.
Qed.

(* outside the stale class a persisted position is a good one *)
Lemma P3_good c nid T p : TInv c nid T -> P3 c nid T -> ts_index T = Some p -> stale_p (memne T) p = false -> PGood c T p.
Proof.
  intros Hinv (_ & H) Hi Hst. rewrite Hi in H. destruct H as [H|[(A1 & w & Hw & Hid & He & _)|(A1 & _ & A3)]]; [exact H| |]; exfalso.
  - unfold stale_p in Hst. rewrite A1 in Hst. cbn [andb] in Hst. apply negb_false_iff in Hst.
    apply existsb_exists in Hst. destruct Hst as (b & Hin & Hb). unfold memne in Hin. apply filter_In in Hin. destruct Hin as (Hin & Hne).
    pose proof (ti_nodup _ _ _ Hinv) as Hnd. unfold w_list in Hin, Hnd. rewrite Hw in Hin, Hnd.
    apply in_app_or in Hin. destruct Hin as [Hin|[Hin|[]]].
    + rewrite map_app in Hnd. cbn [map] in Hnd. apply NoDup_remove_2 in Hnd. apply Hnd. rewrite app_nil_r.
      replace (b_id w) with (b_id b) by lia. now apply in_map.
    + subst b. apply nonempty_b_true in Hne. congruence.
  - unfold stale_p in Hst. rewrite A1 in Hst. cbn [andb] in Hst. apply negb_false_iff in Hst.
    apply existsb_exists in Hst. destruct Hst as (b & Hin & Hb). unfold memne in Hin. apply filter_In in Hin. destruct Hin as (Hin & _).
    eapply Forall_forall in A3; [|exact Hin]. lia.
Qed.

(* ------------------------------------------------------------------ one topic across a restart *)
Lemma unread_reopened c ts' R rch j b' o :
  ts_writer ts' = None -> r_chain R = rch -> r_idx R = j -> r_off R = o -> nth_error rch j = Some b' ->
  unread c (with_reader ts' R) = from c rch j o.
Proof.
  intros Hw Hc Hi Ho Hb. unfold unread, from, w_ents. cbn [reader_of with_reader ts_reader ts_writer].
  rewrite Hc, Hi, Ho, (nth_error_split_skipn _ _ _ Hb), Hw. now rewrite app_nil_r.
Qed.

Lemma TG_reopen c nid nid' ts ts' l B Bb rch :
  cfg_ok c -> 0 < nid' ->
  TG c nid ts l B Bb ->
  chain_of ts' = rch ->
  reader_of ts' = mk_reader rch (startup_cursor rch (ts_index ts)) ->
  ts_index ts' = ts_index ts -> ts_writer ts' = None -> ts_poisoned ts' = false -> ts_unmodelled ts' = ts_unmodelled ts ->
  cnt ts' = rebuilt_count c rch (ts_index ts) ->
  map b_ents rch = map b_ents (memne ts) -> map b_id rch = map b_id (memne ts) ->
  Forall (bwf c) rch -> Forall (fun b => 0 < b_id b < nid') rch -> NoDup (map b_id rch) ->
  (forall p, ts_index ts = Some p -> stale_p (memne ts) p = false) ->
  TG c nid' ts' l B Bb /\ (forall x p, ts_index ts' = Some p -> PGood c (nrm x ts') p).
Proof.
  intros Hc Hn' (Hsc & Hx) Hch Hrd Hix Hwr Hpo Hum Hcnt Hents Hids Hbwf Hrange Hnd Hstale.
  pose proof Hc as (Hh & _).
  assert (Hcne : Forall (fun b => b_ents b <> []) rch).
  { apply Forall_forall. intros b Hin.
    assert (Hi2 : In (b_ents b) (map b_ents (memne ts))) by (rewrite <- Hents; now apply in_map).
    apply in_map_iff in Hi2. destruct Hi2 as (b0 & He0 & Hin0). unfold memne in Hin0. apply filter_In in Hin0.
    destruct Hin0 as (_ & Hne). apply nonempty_b_true in Hne. congruence. }
  assert (Hstream : chain_ents rch = stream ts) by (rewrite (chain_ents_map_eq _ _ Hents); apply chain_ents_memne).
  assert (Hwl : w_list ts' = []) by (unfold w_list; now rewrite Hwr).
  assert (Hwe : w_ents ts' = []) by (unfold w_ents; now rewrite Hwr).
  assert (Hst' : stream ts' = stream ts) by (unfold stream; rewrite Hch, Hwe, app_nil_r; exact Hstream).
  assert (Hmem' : memne ts' = rch).
  { unfold memne. rewrite Hch, Hwl, app_nil_r. apply filter_all. eapply Forall_impl; [|exact Hcne]. intros b Hb. now apply nonempty_b_true. }
  assert (Hhy' : r_hydrated (reader_of ts') = false) by (rewrite Hrd; reflexivity).
  assert (Hum' : ts_unmodelled ts' = false).
  { rewrite Hum. pose proof (ti_unm _ _ _ (proj1 (Hx false))) as H. now rewrite nrm_unmodelled in H. }
  destruct (ts_index ts) as [p|] eqn:Eidx.
  2:{ (* nothing was ever persisted: the cursor is at the very beginning *)
    assert (Hnrm : forall x, nrm x ts' = ts') by (intros x; unfold nrm; now rewrite Hhy', Hix).
    assert (Hold : forall x, nrm x ts = ts) by (intros x; unfold nrm; destruct (r_hydrated (reader_of ts)); [reflexivity|now rewrite Eidx]).
    assert (Hun' : unread c ts' = chain_ents rch).
    { unfold unread. rewrite Hrd. cbn [mk_reader r_idx r_off r_chain startup_cursor fst snd skipn]. rewrite Hwr.
      destruct rch as [|b0 r0]; [reflexivity|]. rewrite Hwe, app_nil_r, ents_from_0. reflexivity. }
    split; [|intros x p0 Hp0; rewrite Hix in Hp0; discriminate].
    split; [intros _ p0 Hp0; rewrite Hix in Hp0; discriminate|].
    intros x. rewrite Hnrm. destruct (Hx x) as (Hti & Hp3 & Hdl & Hs & Hu & Hb1 & Hb2). rewrite Hold in *.
    destruct Hp3 as (_ & Hp3). rewrite Eidx in Hp3.
    split.
    { constructor.
      - exact Hpo.
      - exact Hum'.
      - rewrite Hch. exact Hbwf.
      - rewrite Hwl. constructor.
      - rewrite Hch, Hwl, app_nil_r. exact Hnd.
      - rewrite Hch, Hwl, app_nil_r. exact Hrange.
      - rewrite Hrd. exact Hn'.
      - rewrite Hrd. cbn [mk_reader r_idx startup_cursor fst]. lia.
      - intros _. rewrite Hrd. reflexivity.
      - intros b Hb. rewrite Hrd. cbn [mk_reader r_off startup_cursor snd]. apply okoff_0.
      - intros _ w Hw. rewrite Hwr in Hw. discriminate.
      - intros w Hw. rewrite Hwr in Hw. discriminate.
      - intros _. exact Hix.
      - rewrite Hcnt, Hun'. unfold rebuilt_count. rewrite sum_counts_len. lia. }
    split.
    { split; [unfold CNE; now rewrite Hch|]. rewrite Hix. now rewrite Hun', Hst', Hstream. }
    split; [exact Hdl|]. split; [now rewrite Hst'|]. split; [|split; assumption].
    now rewrite Hun', Hstream, <- Hp3. }
  (* a persisted position: outside the stale class it is a good one, and it resolves in the rebuilt chain *)
  specialize (Hstale p eq_refl).
  assert (Hgood : forall x, exists j b', nth_error rch j = Some b' /\
             (if p_tail p then b_id b' = p_a p else p_a p = N.of_nat j) /\ okoff c (b_ents b') (p_off p) /\
             unread c (nrm x ts) = from c rch j (p_off p)).
  { intros x. destruct (Hx x) as (Hti & Hp3 & _).
    assert (Hi : ts_index (nrm x ts) = Some p) by (rewrite nrm_index; exact Eidx).
    assert (Hs2 : stale_p (memne (nrm x ts)) p = false) by (rewrite nrm_memne; exact Hstale).
    destruct (P3_good c nid _ p Hti Hp3 Hi Hs2) as (j & b & Hb & Hpos & Hok & Hun). rewrite nrm_memne in Hb, Hun.
    destruct (nth_error_map_eq b_ents _ _ j b (eq_sym Hents) Hb) as (b' & Hb' & He').
    destruct (nth_error_map_eq b_id _ _ j b (eq_sym Hids) Hb) as (b'' & Hb'' & Hi').
    rewrite Hb' in Hb''. inversion Hb''; subst b''.
    exists j, b'. split; [exact Hb'|]. split; [destruct (p_tail p); [congruence|exact (proj1 Hpos)]|].
    split; [now rewrite He'|]. rewrite Hun. symmetry. now apply from_ents_eq. }
  assert (HPG : forall x, PGood c (nrm x ts') p).
  { intros x. destruct (Hgood x) as (j & b' & Hb' & Hpos & Hok & Hun).
    assert (Hj : (j < length rch)%nat) by (apply nth_error_Some; congruence).
    assert (Hbw : bwf c b') by (eapply Forall_forall in Hbwf; [exact Hbwf|eapply nth_error_In; eauto]).
    destruct (hyd_mk c x rch (startup_cursor rch (Some p)) p j b' Hb' Hok (proj1 Hbw) Hnd Hpos) as (R1 & R2 & R3 & R4 & R5).
    set (R := hyd x (mk_reader rch (startup_cursor rch (Some p))) (Some p)) in *.
    assert (Hnrm : nrm x ts' = with_reader ts' R) by (unfold nrm; rewrite Hhy', Hix, Hrd; reflexivity).
    rewrite Hnrm. exists j, b'.
    assert (Hm2 : memne (with_reader ts' R) = rch).
    { unfold memne, chain_of, w_list. cbn [reader_of with_reader ts_reader ts_writer]. rewrite R1, Hwr, app_nil_r.
      apply filter_all. eapply Forall_impl; [|exact Hcne]. intros b Hb. now apply nonempty_b_true. }
    rewrite Hm2. split; [exact Hb'|]. split.
    - destruct (p_tail p); [exact Hpos|]. split; [exact Hpos|]. unfold chain_of. cbn [reader_of with_reader ts_reader]. now rewrite R1.
    - split; [exact Hok|]. eapply unread_reopened; eauto. }
  split; [|intros x p0 Hp0; rewrite Hix in Hp0; inversion Hp0; subst p0; apply HPG].
  split.
  { (* SC *)
    intros _ p0 Hp0. rewrite Hix in Hp0. inversion Hp0; subst p0. rewrite Hrd. split; [reflexivity|].
    destruct (Hgood false) as (j & b' & Hb' & Hpos & _). rewrite Hch.
    assert (Hj : (j < length rch)%nat) by (apply nth_error_Some; congruence).
    destruct (p_tail p).
    - exists j. rewrite <- Hpos. exact (find_id_nodup rch Hnd j b' 0%nat Hb').
    - rewrite Hpos. lia. }
  intros x. destruct (Hx x) as (Hti & Hp3 & Hdl & Hs & Hu & Hb1 & Hb2).
  destruct (Hgood x) as (j & b' & Hb' & Hpos & Hok & Hun).
  assert (Hj : (j < length rch)%nat) by (apply nth_error_Some; congruence).
  assert (Hbw : bwf c b') by (eapply Forall_forall in Hbwf; [exact Hbwf|eapply nth_error_In; eauto]).
  set (sc := startup_cursor rch (Some p)) in *.
  destruct (hyd_mk c x rch sc p j b' Hb' Hok (proj1 Hbw) Hnd Hpos) as (R1 & R2 & R3 & R4 & R5).
  set (R := hyd x (mk_reader rch sc) (Some p)) in *.
  assert (Hnrm : nrm x ts' = with_reader ts' R) by (unfold nrm; rewrite Hhy', Hix, Hrd; reflexivity).
  rewrite Hnrm.
  assert (Hun' : unread c (with_reader ts' R) = from c rch j (p_off p)) by (eapply unread_reopened; eauto).
  assert (Hfind : p_tail p = true -> find_id rch (p_a p) 0 = Some j).
  { intros Et. rewrite Et in Hpos. rewrite <- Hpos. exact (find_id_nodup rch Hnd j b' 0%nat Hb'). }
  assert (Hclamp : p_tail p = false -> clamp_idx (p_a p) (length rch) = j).
  { intros Et. rewrite Et in Hpos. unfold clamp_idx. rewrite Hpos. replace (N.of_nat (length rch) <? N.of_nat j) with false by lia. apply Nat2N.id. }
  assert (Hch2 : chain_of (with_reader ts' R) = rch) by (unfold chain_of; cbn [reader_of with_reader ts_reader]; exact R1).
  assert (Hwl2 : w_list (with_reader ts' R) = []) by (unfold w_list; cbn [with_reader ts_writer]; now rewrite Hwr).
  assert (Hrd2 : reader_of (with_reader ts' R) = R) by reflexivity.
  split.
  { constructor.
    - exact Hpo.
    - exact Hum'.
    - rewrite Hch2. exact Hbwf.
    - rewrite Hwl2. constructor.
    - rewrite Hch2, Hwl2, app_nil_r. exact Hnd.
    - rewrite Hch2, Hwl2, app_nil_r. exact Hrange.
    - rewrite Hrd2. destruct R5 as [->|(-> & Et)]; [lia|]. rewrite Et in Hpos. eapply Forall_forall in Hrange; [|eapply nth_error_In; exact Hb']. lia.
    - rewrite Hrd2, Hch2, R2. lia.
    - rewrite Hrd2, Hch2, R2. lia.
    - rewrite Hrd2, Hch2, R2, R3. intros b Hb. rewrite Hb' in Hb. inversion Hb; subst b. exact Hok.
    - intros _ w Hw. cbn [with_reader ts_writer] in Hw. rewrite Hwr in Hw. discriminate.
    - intros w Hw. cbn [with_reader ts_writer] in Hw. rewrite Hwr in Hw. discriminate.
    - rewrite Hrd2, R4. discriminate.
    - change (cnt (with_reader ts' R)) with (cnt ts'). rewrite Hcnt, Hun'. unfold rebuilt_count.
      pose proof (from_len c Hh rch j b' (p_off p) Hb' Hbw Hok) as Hfl.
      destruct (p_tail p) eqn:Et.
      + rewrite (Hfind eq_refl). lia.
      + rewrite (Hclamp eq_refl). lia. }
  split.
  { split; [unfold CNE, chain_of; cbn [reader_of with_reader ts_reader]; now rewrite R1|].
    cbn [ts_index with_reader]. rewrite Hix. left. exists j, b'.
    assert (Hm2 : memne (with_reader ts' R) = rch).
    { unfold memne, chain_of, w_list. cbn [reader_of with_reader ts_reader ts_writer]. rewrite R1, Hwr, app_nil_r.
      apply filter_all. eapply Forall_impl; [|exact Hcne]. intros b Hb. now apply nonempty_b_true. }
    rewrite Hm2. split; [exact Hb'|]. split.
    - destruct (p_tail p); [exact Hpos|]. split; [exact Hpos|]. unfold chain_of. cbn [reader_of with_reader ts_reader]. now rewrite R1.
    - split; [exact Hok|exact Hun']. }
  split; [exact Hdl|]. split.
  { unfold stream, chain_of, w_ents. cbn [reader_of with_reader ts_reader ts_writer]. rewrite R1, Hwr, app_nil_r, Hstream, <- Hs. apply (eq_sym (nrm_stream x ts)). }
  split; [|split; assumption]. now rewrite Hun', <- Hun.
Qed.

(* ------------------------------------------------------------------ the whole state across a restart *)
Definition restart_known (c : Cfg) (s : st) : bool := id_drift c s || stale_tail s.

Lemma TG_tstate0 c nid nid' l B Bb : 0 < nid' -> TG c nid tstate0 l B Bb -> TG c nid' tstate0 l B Bb.
Proof.
  intros Hn (Hsc & Hx). split; [exact Hsc|]. intros x. destruct (Hx x) as (_ & _ & A). rewrite nrm_tstate0 in *.
  split; [now apply TInv0|]. split; [apply P3_tstate0|exact A].
Qed.

(* the core: no block-id drift, and no topic's persisted position is stale *)
Theorem G_reopen_ns c s g B Bb : cfg_ok c -> G c s g B Bb -> id_drift c s = false ->
  (forall t p, ts_index (get_ts s t) = Some p -> stale_p (memne (get_ts s t)) p = false) ->
  G c (reopen c s) g B Bb /\ PG c (reopen c s).
Proof.
  intros Hc (Hn & Hd & Hb & Hl & Hall) Hdrift Hstale. pose proof Hc as (Hh & Hb0 & _).
  pose proof (reopen_stream c s Hc Hd) as Hst.
  assert (Hn' : 0 < a_next (s_alloc (reopen c s))).
  { destruct (reopen_fields c s) as (_ & _ & F3). rewrite F3. cbn [a_next]. lia. }
  assert (Htopic : forall t, TG c (a_next (s_alloc (reopen c s))) (get_ts (reopen c s) t) (lget g t) B Bb /\
                             (forall x p, ts_index (get_ts (reopen c s) t) = Some p -> PGood c (nrm x (get_ts (reopen c s) t)) p)).
  { intros t. pose proof (di_wf _ _ _ _ _ _ Hd) as Hwf.
    destruct (reopen_shape c s t Hh Hb0 Hwf) as (S1 & S2 & S3 & S4 & S5 & S6 & Hcase). cbn zeta in *.
    destruct Hcase as [(old & Hin & Hold & Hrch)|(H0 & H0')].
    - destruct (reopen_chain c s t Hc Hd Hb Hl) as (C1 & C2 & C3 & C4 & _). cbn zeta in *.
      eapply TG_reopen with (rch := chain_of (get_ts (reopen c s) t)); eauto.
      + rewrite C1. apply mblocks_memne.
      + rewrite Hrch, Hold. now apply nodrift_ids.
    - rewrite H0'. specialize (Hall t). rewrite H0 in Hall. split; [eapply TG_tstate0; eauto|].
      intros x p Hp. discriminate. }
  split.
  - split; [exact Hn'|]. split; [now apply reopen_DIs|]. split; [now apply reopen_BIs|]. split; [now apply reopen_DLim|].
    intros t. exact (proj1 (Htopic t)).
  - intros t x p. exact (proj2 (Htopic t) x p).
Qed.

Theorem G_reopen c s g B Bb : cfg_ok c -> G c s g B Bb -> restart_known c s = false -> G c (reopen c s) g B Bb.
Proof.
  intros Hc HG Hk. apply orb_false_iff in Hk. destruct Hk as (Hdrift & Hstale).
  apply (G_reopen_ns c s g B Bb Hc HG Hdrift). intros t p Hp.
  unfold get_ts in *. destruct (find (fun q => fst q =? t) (s_topics s)) as [[k old]|] eqn:Ef; [|discriminate].
  pose proof (find_some _ _ Ef) as (Hin & Hk). cbn in Hk. assert (k = t) by lia. subst k. cbn [snd] in *.
  eapply nostale; eauto.
Qed.

(* with every persisted position good (invariant PG, which the repaired provisional persist gives),
   block-id drift is the only known class left *)
Corollary G_reopen_pg c s g B Bb : cfg_ok c -> G c s g B Bb -> PG c s -> id_drift c s = false ->
  G c (reopen c s) g B Bb /\ PG c (reopen c s).
Proof. intros Hc HG Hpg Hd. apply G_reopen_ns; auto. now apply (PG_nonstale c). Qed.

(* goal (2): after a restart outside the known classes, every topic's stream, unread entries and
   count are what they were (whichever read path hydrates the reader first) *)
Lemma reopen_cursor_gen c s g B Bb : G c s g B Bb -> G c (reopen c s) g B Bb ->
  forall t x y,
    stream (get_ts (reopen c s) t) = stream (get_ts s t) /\
    unread c (nrm x (get_ts (reopen c s) t)) = unread c (nrm y (get_ts s t)) /\
    cnt (get_ts (reopen c s) t) = cnt (get_ts s t) /\
    cnt (get_ts (reopen c s) t) = N.of_nat (length (unread c (nrm x (get_ts (reopen c s) t)))).
Proof.
  intros HG HG' t x y.
  destruct HG as (_ & _ & _ & _ & Hall). destruct HG' as (_ & _ & _ & _ & Hall').
  destruct (Hall t) as (_ & Hx). destruct (Hall' t) as (_ & Hx').
  destruct (Hx y) as (Hti & _ & _ & Hs & Hu & _). destruct (Hx' x) as (Hti' & _ & _ & Hs' & Hu' & _).
  rewrite nrm_stream in Hs, Hs'.
  pose proof (ti_cnt _ _ _ Hti) as C1. pose proof (ti_cnt _ _ _ Hti') as C2. unfold cnt in C1, C2. rewrite nrm_count in C1, C2.
  fold (cnt (get_ts s t)) in C1. fold (cnt (get_ts (reopen c s) t)) in C2.
  split; [congruence|]. split; [congruence|]. split; [|exact C2]. rewrite C1, C2, Hu, Hu'. reflexivity.
Qed.

Corollary reopen_cursor c s g B Bb : cfg_ok c -> G c s g B Bb -> restart_known c s = false ->
  forall t x y,
    stream (get_ts (reopen c s) t) = stream (get_ts s t) /\
    unread c (nrm x (get_ts (reopen c s) t)) = unread c (nrm y (get_ts s t)) /\
    cnt (get_ts (reopen c s) t) = cnt (get_ts s t) /\
    cnt (get_ts (reopen c s) t) = N.of_nat (length (unread c (nrm x (get_ts (reopen c s) t)))).
Proof. intros Hc HG Hk. apply (reopen_cursor_gen c s g B Bb HG). now apply G_reopen. Qed.

Corollary reopen_cursor_pg c s g B Bb : cfg_ok c -> G c s g B Bb -> PG c s -> id_drift c s = false ->
  forall t x y,
    stream (get_ts (reopen c s) t) = stream (get_ts s t) /\
    unread c (nrm x (get_ts (reopen c s) t)) = unread c (nrm y (get_ts s t)) /\
    cnt (get_ts (reopen c s) t) = cnt (get_ts s t) /\
    cnt (get_ts (reopen c s) t) = N.of_nat (length (unread c (nrm x (get_ts (reopen c s) t)))).
Proof. intros Hc HG Hpg Hk. apply (reopen_cursor_gen c s g B Bb HG). now apply G_reopen_pg. Qed.
