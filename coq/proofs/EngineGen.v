(* EngineGen.v — histories WITH restarts in ANY consistency mode (AtLeastOnce in particular): the
   invariant GM of raw states — for both hydration flavours the per-topic invariant TInv, the
   (possibly lagging) position invariant LG and agreement with a ledger whose l_del is the
   consumer's TRUE position — is kept by every restart-free operation, and every such operation
   satisfies the exactly-once step condition w.r.t. that ledger. *)
From W Require Import model.Base model.Engine spec.Queue proofs.EngineBasic proofs.EngineWF proofs.EngineInv proofs.EngineBR proofs.EngineW
  proofs.EngineMain proofs.EngineRec proofs.EngineDisk proofs.EnginePos proofs.EngineGrow proofs.EngineP3 proofs.EngineIdx proofs.EngineBlk
  proofs.EngineNorm proofs.EngineNormW proofs.EngineRaw proofs.EngineRestart proofs.EngineRestartR proofs.EngineP3L proofs.EngineIdxL proofs.EngineALO.
From Coq Require Import ZArith ZifyBool ZifyN ZifyNat.

(* the persisted position is a good one that may lag: behind it lie delivered entries, then what is unread *)
Definition LG (c : Cfg) (T : tstate) : Prop :=
  CNE T /\ match ts_index T with
           | None => exists pre, stream T = pre ++ unread c T
           | Some p => PLag c T p
           end.

Definition TGM (c : Cfg) (nid : N) (ts : tstate) (l : ledger) (B Bb : N) : Prop :=
  SC ts /\ forall x,
    TInv c nid (nrm x ts) /\ LG c (nrm x ts) /\
    (l_del l <= length (l_app l))%nat /\ stream (nrm x ts) = l_app l /\
    unread c (nrm x ts) = skipn (l_del l) (l_app l) /\
    N.of_nat (length (l_app l)) <= B /\ sum_len (l_app l) <= Bb.

Definition GM (c : Cfg) (s : st) (g : lg) (B Bb : N) : Prop :=
  0 < a_next (s_alloc s) /\ DIs c s /\ BIs c s /\ DLim c s /\
  forall t, TGM c (a_next (s_alloc s)) (get_ts s t) (lget g t) B Bb.

Lemma GM_Rel x c s g B Bb : GM c s g B Bb -> Rel c (Nst x s) g B Bb.
Proof.
  intros (Hn & _ & _ & _ & Hall). split.
  - split; [exact Hn|]. intros t. rewrite get_Nst. exact (proj1 (proj2 (Hall t) x)).
  - intros t. rewrite get_Nst. destruct (proj2 (Hall t) x) as (_ & _ & A & B0 & C & D & E). auto.
Qed.

Lemma LG_tstate0 c : LG c tstate0.
Proof. split; [constructor|exists []; reflexivity]. Qed.

Lemma GM_init c : 0 < c_block c -> GM c init [] 0 0.
Proof.
  intros Hb. split; [cbn; lia|]. split; [now apply DIs_init|]. split; [apply BIs_init|]. split; [apply DLim_init|].
  intros t. change (get_ts init t) with tstate0. split; [intros _ p Hp; discriminate|].
  intros x. rewrite nrm_tstate0. split; [apply TInv0; cbn; lia|]. split; [apply LG_tstate0|].
  cbn. repeat split; lia.
Qed.

Lemma TGM_CS c nid ts l B Bb : TGM c nid ts l B Bb -> 0 < nid ->
  forall bid, (forall w, ts_writer ts = Some w -> bid = b_id w) -> (ts_writer ts = None -> bid = nid) -> CS ts bid nid.
Proof. intros (Hsc & Hall) Hn. apply (SC_CS c nid ts Hsc (proj1 (Hall false)) Hn). Qed.

(* ------------------------------------------------------------------ LG under reads, growth, a fresh persist *)
Lemma LG_suffix c T T' d : chain_of T' = chain_of T -> ts_writer T' = ts_writer T -> ts_index T' = ts_index T ->
  unread c T = d ++ unread c T' -> LG c T -> LG c T'.
Proof.
  intros Hc Hw Hi Hu (Hcne & H).
  assert (Hs : stream T' = stream T) by (unfold stream, w_ents; now rewrite Hc, Hw).
  split; [unfold CNE; now rewrite Hc|]. rewrite Hi. destruct (ts_index T) as [p|].
  - eapply PLag_suffix; eauto.
  - destruct H as (pre & H). exists (pre ++ d). now rewrite Hs, H, Hu, app_assoc.
Qed.

Lemma LG_good c T p : CNE T -> ts_index T = Some p -> PGood c T p -> LG c T.
Proof. intros Hc Hi Hg. split; [exact Hc|]. rewrite Hi. now apply PGood_PLag. Qed.

Lemma LG_grow c (Hh : 0 < c_hdr c) T T' es :
  Grow T T' -> stream T' = stream T ++ es -> unread c T' = unread c T ++ es -> ts_index T' = ts_index T ->
  LG c T -> LG c T'.
Proof.
  intros Hg Hs Hu Hi (Hcne & H). pose proof Hg as ((q & Hq & Hqne) & _).
  split; [unfold CNE; rewrite Hq; apply Forall_app; split; assumption|].
  rewrite Hi. destruct (ts_index T) as [p|].
  - eapply PLag_grow; eauto.
  - destruct H as (pre & H). exists pre. rewrite Hs, H, Hu. now rewrite app_assoc.
Qed.

(* ------------------------------------------------------------------ the write side *)
Lemma GM_write c s s' g g' B Bb B' Bb' t :
  cfg_ok c -> GM c s g B Bb ->
  (forall x, Rel c (Nst x s') g' B' Bb') ->
  (forall x, Grow (nrm x (get_ts s (t_id t))) (nrm x (get_ts s' (t_id t)))) ->
  keep (get_ts s (t_id t)) (get_ts s' (t_id t)) ->
  (forall t', t' <> t_id t -> get_ts s' t' = get_ts s t') ->
  a_next (s_alloc s) <= a_next (s_alloc s') ->
  l_del (lget g' (t_id t)) = l_del (lget g (t_id t)) ->
  DIs c s' -> BIs c s' -> DLim c s' ->
  GM c s' g' B' Bb'.
Proof.
  intros Hc (Hn & _ & _ & _ & Hall) Hrel Hgrow (K1 & K2 & K3 & _) Hoth Hmono Hdel Hd Hb Hl. pose proof Hc as (Hh & _).
  split; [lia|]. split; [exact Hd|]. split; [exact Hb|]. split; [exact Hl|].
  intros t0. split.
  - destruct (N.eq_dec t0 (t_id t)) as [->|Hne]; [|rewrite (Hoth t0 Hne); exact (proj1 (Hall t0))].
    intros Hhy p Hp. rewrite K1 in Hhy. rewrite K3 in Hp.
    destruct (proj1 (Hall (t_id t)) Hhy p Hp) as (A & R). rewrite K2. split; [exact A|].
    destruct (Hgrow false) as ((q & Hq & _) & _). rewrite !nrm_chain in Hq. rewrite Hq. destruct (p_tail p).
    + destruct R as (j & Hj). exists j. now apply find_id_app_some.
    + rewrite app_length. lia.
  - intros x. destruct (Hrel x) as ((_ & Hti) & Hled).
    specialize (Hti t0). specialize (Hled t0). rewrite get_Nst in Hti, Hled. cbn [Nst s_alloc] in Hti.
    split; [exact Hti|]. split; [|destruct Hled as (A & B0 & C0 & D & E); auto].
    destruct (N.eq_dec t0 (t_id t)) as [->|Hne]; [|rewrite (Hoth t0 Hne); exact (proj1 (proj2 (proj2 (Hall t0) x)))].
    destruct (proj2 (Hall (t_id t)) x) as (_ & Hlg & Hdl & Hs & Hu & _).
    destruct Hled as (Hdl' & Hs' & Hu' & _).
    pose proof (Hgrow x) as Hg. pose proof Hg as (_ & (es & Hes & _)).
    apply (LG_grow c Hh _ _ es Hg Hes); [|now rewrite !nrm_index|exact Hlg].
    rewrite Hu', Hu, Hdel, <- Hs', Hes, Hs. now rewrite skipn_app_le by exact Hdl.
Qed.

Lemma GM_wop c m be s g B Bb o t :
  cfg_ok c -> GM c s g B Bb -> op_ok c o -> (match o with OAppend _ _ | OBatch _ _ => True | _ => False end) ->
  B + N.of_nat (length (offered o)) <= u64_max -> Bb + sum_len (offered o) <= u64_max ->
  (forall x, step (env_of c m be) (Nst x s) o = (Nst x (fst (step (env_of c m be) s o)), snd (step (env_of c m be) s o))) ->
  keep (get_ts s (t_id t)) (get_ts (fst (step (env_of c m be) s o)) (t_id t)) ->
  (forall x, Grow (get_ts (Nst x s) (t_id t)) (get_ts (fst (step (env_of c m be) (Nst x s) o)) (t_id t))) ->
  (forall t', t' <> t_id t -> get_ts (fst (step (env_of c m be) s o)) t' = get_ts s t') ->
  a_next (s_alloc s) <= a_next (s_alloc (fst (step (env_of c m be) s o))) ->
  c01_step_ok g o (snd (step (env_of c m be) s o)) = true /\
  GM c (fst (step (env_of c m be) s o)) (ledger_step g o (snd (step (env_of c m be) s o)))
     (B + N.of_nat (length (offered o))) (Bb + sum_len (offered o)).
Proof.
  intros Hc HG Hok Hwr HB HBb Hcomm Hkeep Hgrow Hoth Hmono.
  pose proof HG as (Hn & Hd & Hb & Hl & Hall). pose proof Hc as (Hh & Hb0 & _).
  assert (Hst : forall x, c01_step_ok g o (snd (step (env_of c m be) s o)) = true /\
                          Rel c (Nst x (fst (step (env_of c m be) s o))) (ledger_step g o (snd (step (env_of c m be) s o)))
                              (B + N.of_nat (length (offered o))) (Bb + sum_len (offered o))).
  { intros x. pose proof (step_ok c m be (Nst x s) g B Bb o Hc (GM_Rel x c s g B Bb HG) Hok HB HBb) as H.
    rewrite (Hcomm x) in H. destruct H as (A & _ & _ & D). auto. }
  assert (Hd' : DIs c (fst (step (env_of c m be) s o))).
  { pose proof (DIs_step c m be (Nst false s) g B Bb o Hc (GM_Rel false c s g B Bb HG) (proj2 (DIs_Nst false c s) Hd) Hok HB) as H.
    rewrite (Hcomm false) in H. cbn [fst] in H. now apply (DIs_Nst false). }
  assert (Hb' : BIs c (fst (step (env_of c m be) s o))).
  { pose proof (BIs_step c m be (Nst false s) g B Bb o Hc (GM_Rel false c s g B Bb HG) (proj2 (DIs_Nst false c s) Hd)
                  (proj2 (BIs_Nst false c s) Hb) Hok HB) as H.
    rewrite (Hcomm false) in H. cbn [fst] in H. now apply (BIs_Nst false). }
  pose proof (DLim_step c m be s o Hb0 Hl) as Hl'.
  assert (Hgrow' : forall x, Grow (nrm x (get_ts s (t_id t))) (nrm x (get_ts (fst (step (env_of c m be) s o)) (t_id t)))).
  { intros x. pose proof (Hgrow x) as H. rewrite (Hcomm x) in H. cbn [fst] in H. now rewrite !get_Nst in H. }
  split; [exact (proj1 (Hst false))|].
  eapply GM_write with (t := t); eauto.
  - intros x. exact (proj2 (Hst x)).
  - now apply ledger_step_write_del.
Qed.

Lemma GM_append c m be s g B Bb t e : cfg_ok c -> GM c s g B Bb ->
  B + 1 <= u64_max -> Bb + (e_len e + 0) <= u64_max ->
  c01_step_ok g (OAppend t e) (snd (step (env_of c m be) s (OAppend t e))) = true /\
  GM c (fst (step (env_of c m be) s (OAppend t e))) (ledger_step g (OAppend t e) (snd (step (env_of c m be) s (OAppend t e)))) (B + 1) (Bb + (e_len e + 0)).
Proof.
  intros Hc HG HB HBb. pose proof HG as (Hn & Hd & Hb & Hl & Hall).
  assert (Hcs : forall bid, (forall w, ts_writer (get_ts s (t_id t)) = Some w -> bid = b_id w) ->
                  (ts_writer (get_ts s (t_id t)) = None -> bid = a_next (s_alloc s)) -> CS (get_ts s (t_id t)) bid (a_next (s_alloc s))).
  { exact (TGM_CS c _ _ _ _ _ (Hall (t_id t)) Hn). }
  apply (GM_wop c m be s g B Bb (OAppend t e) t Hc HG I I HB HBb); cbn [step env_of v_cfg v_mode v_backend].
  - intros x. exact (proj1 (append_Nst x c s t e Hn Hcs)).
  - exact (proj2 (append_Nst false c s t e Hn Hcs)).
  - intros x. apply append_grow_nc; [exact Hc|exact (proj1 (GM_Rel x c s g B Bb HG))].
  - intros t' Hne. now apply append_others.
  - apply append_next_mono.
Qed.

Lemma GM_batch c m be s g B Bb t es : cfg_ok c -> GM c s g B Bb ->
  B + N.of_nat (length es) <= u64_max -> Bb + sum_len es <= u64_max ->
  c01_step_ok g (OBatch t es) (snd (step (env_of c m be) s (OBatch t es))) = true /\
  GM c (fst (step (env_of c m be) s (OBatch t es))) (ledger_step g (OBatch t es) (snd (step (env_of c m be) s (OBatch t es))))
     (B + N.of_nat (length es)) (Bb + sum_len es).
Proof.
  intros Hc HG HB HBb. pose proof HG as (Hn & Hd & Hb & Hl & Hall).
  assert (Hcs : forall bid, (forall w, ts_writer (get_ts s (t_id t)) = Some w -> bid = b_id w) ->
                  (ts_writer (get_ts s (t_id t)) = None -> bid = a_next (s_alloc s)) -> CS (get_ts s (t_id t)) bid (a_next (s_alloc s))).
  { exact (TGM_CS c _ _ _ _ _ (Hall (t_id t)) Hn). }
  apply (GM_wop c m be s g B Bb (OBatch t es) t Hc HG I I HB HBb); cbn [step env_of v_cfg v_mode v_backend].
  - intros x. exact (proj1 (batch_Nst x c be s t es Hn Hcs)).
  - exact (proj2 (batch_Nst false c be s t es Hn Hcs)).
  - intros x. apply batch_grow_nc; [exact Hc|exact (proj1 (GM_Rel x c s g B Bb HG))].
  - intros t' Hne. now apply batch_others.
  - apply batch_next_mono.
Qed.

(* ------------------------------------------------------------------ the read side *)
Lemma GM_set_hyd c s g g' B Bb t ts' :
  GM c s g B Bb ->
  r_hydrated (reader_of ts') = true ->
  TInv c (a_next (s_alloc s)) ts' -> LG c ts' ->
  chain_of ts' = chain_of (get_ts s t) -> ts_writer ts' = ts_writer (get_ts s t) ->
  (forall t', t' <> t -> lget g' t' = lget g t') ->
  ((l_del (lget g' t) <= length (l_app (lget g' t)))%nat /\ stream ts' = l_app (lget g' t) /\
   unread c ts' = skipn (l_del (lget g' t)) (l_app (lget g' t)) /\
   N.of_nat (length (l_app (lget g' t))) <= B /\ sum_len (l_app (lget g' t)) <= Bb) ->
  GM c (set_ts s t ts') g' B Bb.
Proof.
  intros (Hn & Hd & Hb & Hl & Hall) Hh Hti Hlg Hch Hw Hlgt Hled.
  split; [exact Hn|]. split.
  { apply DIs_set_ts; [exact Hd|exact Hw|]. now apply stream_of_parts. }
  split; [apply BIs_set_ts; [exact Hb|now apply mblocks_of_parts]|]. split; [now apply DLim_set_ts|].
  intros t0. cbn [set_ts s_alloc]. destruct (N.eq_dec t0 t) as [->|Hne].
  - rewrite get_set_same. split; [now apply SC_hydrated|]. intros x. rewrite (nrm_reader_hydrated x ts' Hh).
    split; [exact Hti|]. split; [exact Hlg|exact Hled].
  - rewrite get_set_other by exact Hne. rewrite (Hlgt t0 Hne). apply Hall.
Qed.

Lemma GM_same c s s' g B Bb : s_alloc s' = s_alloc s -> s_disk s' = s_disk s -> s_files s' = s_files s ->
  (forall t, get_ts s' t = get_ts s t) -> GM c s g B Bb -> GM c s' g B Bb.
Proof.
  intros Ha Hdk Hf Hg (Hn & Hd & Hb & Hl & Hall). split; [now rewrite Ha|]. split.
  { unfold DIs in *. rewrite Ha, Hdk, Hf. eapply DI_ext; [| |exact Hd]; intros t; unfold wrs, sms; now rewrite Hg. }
  split; [intros t; rewrite Hdk, Hg; apply Hb|]. split; [eapply DLim_disk; eauto|].
  intros t. rewrite Ha, Hg. apply Hall.
Qed.

(* the three outcomes of a read_next w.r.t. the persisted position give LG of the result *)
Lemma LG_after_read_next c (ck : bool) T ts' nid : 0 < c_hdr c -> TInv c nid ts' -> LG c T ->
  chain_of ts' = chain_of T -> ts_writer ts' = ts_writer T ->
  (exists d, unread c T = d ++ unread c ts') ->
  match unread c T with [] => True | e :: rest => unread c ts' = (if ck then rest else e :: rest) end ->
  (ts_index ts' = ts_index T \/ (exists p, ts_index ts' = Some p /\ PosIs ts' p) \/ Prov c ck T ts') ->
  LG c ts'.
Proof.
  intros Hh Hinv' Hlg Hch' Hw' (d & Hd) Hcase Hidx.
  assert (Hcne : CNE ts') by (unfold CNE; rewrite Hch'; exact (proj1 Hlg)).
  destruct Hidx as [Hi|[(p & Hi & Hpos)|(w & Hck & Hw0 & Hi & Hri & Hun0 & Hne)]].
  - apply (LG_suffix c T ts' d Hch' Hw' Hi Hd Hlg).
  - eapply LG_good; eauto. eapply posis_PGood; eauto.
  - split; [exact Hcne|]. rewrite Hi.
    assert (Hm : memne ts' = chain_of ts' ++ [w]).
    { rewrite (memne_cne ts' Hcne). unfold w_list. rewrite Hw', Hw0. cbn [filter].
      apply nonempty_b_true in Hne. now rewrite Hne. }
    destruct (unread c T) as [|e0 rest] eqn:Eu; [congruence|]. rewrite Hck in Hcase.
    exists (length (chain_of ts')), w, [e0]. rewrite Hm. cbn [p_tail p_a p_off].
    split; [rewrite nth_error_app2 by lia; now rewrite Nat.sub_diag|]. split; [reflexivity|]. split; [apply okoff_0|].
    unfold from. rewrite skipn_app, skipn_all, Nat.sub_diag. cbn [app skipn chain_ents flat_map].
    rewrite app_nil_r, ents_from_0, <- Hun0, Hcase. reflexivity.
Qed.

Lemma GM_read c m be s g B Bb t ck : cfg_ok c -> GM c s g B Bb ->
  c01_step_ok g (ORead t ck) (snd (step (env_of c m be) s (ORead t ck))) = true /\
  GM c (fst (step (env_of c m be) s (ORead t ck))) (ledger_step g (ORead t ck) (snd (step (env_of c m be) s (ORead t ck)))) B Bb.
Proof.
  intros Hc HG. pose proof HG as (Hn & Hd & Hb & Hl & Hall). pose proof Hc as (Hh & _).
  cbn [step env_of v_cfg v_mode].
  destruct (Hall (t_id t)) as (Hsc & Hx). destruct (Hx false) as (Hti & Hlg & Hdl & Hs & Hu & Hb1 & Hb2).
  set (ts := get_ts s (t_id t)) in *. set (T := nrm false ts) in *.
  set (sn := set_ts s (t_id t) T).
  assert (Hgn : get_ts sn (t_id t) = T) by apply get_set_same.
  pose proof (read_next_spec_idxL c m sn t ck (a_next (s_alloc s)) Hc) as Hspec. rewrite Hgn in Hspec. specialize (Hspec Hti).
  cbn zeta in Hspec. destruct Hspec as (ts' & res & Hr & Hinv' & Hst' & Hw' & Hch' & Hhy' & Hcase & Hidx).
  apply read_next_nrm in Hr. rewrite Hr. cbn [fst snd].
  assert (Hlg' : LG c ts').
  { eapply (LG_after_read_next c ck T ts'); eauto.
    - destruct (unread c T) as [|e0 rest]; [exists []; now rewrite (proj2 Hcase)|].
      destruct ck; [exists [e0]|exists []]; now rewrite (proj2 Hcase).
    - destruct (unread c T); [exact I|exact (proj2 Hcase)]. }
  assert (HchT : chain_of ts' = chain_of ts) by (rewrite Hch'; apply nrm_chain).
  assert (HwT : ts_writer ts' = ts_writer ts) by (rewrite Hw'; apply nrm_writer).
  rewrite Hu in Hcase.
  destruct (skipn (l_del (lget g (t_id t))) (l_app (lget g (t_id t)))) as [|e rest] eqn:Esk.
  - destruct Hcase as (-> & Hun'). unfold c01_step_ok, remaining. rewrite Esk.
    split; [now destruct ck|].
    assert (Hls : ledger_step g (ORead t ck) RNone = g) by (now destruct ck). rewrite Hls.
    eapply GM_set_hyd; eauto. rewrite Hst', Hun', Hs, Esk. repeat split; auto.
  - destruct Hcase as (-> & Hun'). unfold c01_step_ok, remaining. rewrite Esk.
    split; [destruct ck; [apply out_is_out_of|reflexivity]|].
    destruct (skipn_cons_S _ _ _ _ Esk) as (Hsk' & Hlen').
    destruct ck; cbn [ledger_step].
    + eapply GM_set_hyd; eauto.
      * intros t' Hne. now apply lget_lset_other.
      * rewrite lget_lset_same. cbn [l_app l_del]. rewrite Hst', Hun', Hs, Hsk'. repeat split; auto.
    + eapply GM_set_hyd; eauto. rewrite Hst', Hun', Hs, Esk. repeat split; auto.
Qed.

Lemma GM_batch_read c m be s g B Bb t maxb ck start : cfg_ok c -> GM c s g B Bb ->
  c01_step_ok g (OBatchRead t maxb ck start) (snd (step (env_of c m be) s (OBatchRead t maxb ck start))) = true /\
  GM c (fst (step (env_of c m be) s (OBatchRead t maxb ck start)))
     (ledger_step g (OBatchRead t maxb ck start) (snd (step (env_of c m be) s (OBatchRead t maxb ck start)))) B Bb.
Proof.
  intros Hc HG. pose proof HG as (Hn & Hd & Hb & Hl & Hall). pose proof Hc as (Hh & _).
  cbn [step env_of v_cfg v_mode].
  destruct start as [st0|].
  { destruct (batch_read_stateless c m s t maxb ck st0) as (os & Hr). rewrite Hr. cbn [fst snd].
    unfold c01_step_ok. split; [now destruct ck|].
    assert (Hls : ledger_step g (OBatchRead t maxb ck (Some st0)) (REntries os) = g) by (now destruct ck). rewrite Hls.
    eapply GM_same; [| | | |exact HG]; try reflexivity.
    intros t0. destruct (N.eq_dec t0 (t_id t)) as [->|Hne]; [apply get_set_same|now apply get_set_other]. }
  destruct (Hall (t_id t)) as (Hsc & Hx). destruct (Hx true) as (Hti & Hlg & Hdl & Hs & Hu & Hb1 & Hb2).
  set (ts := get_ts s (t_id t)) in *. set (T := nrm true ts) in *.
  set (sn := set_ts s (t_id t) T).
  assert (Hgn : get_ts sn (t_id t) = T) by apply get_set_same.
  pose proof (batch_read_spec_idxL c m sn t maxb ck (a_next (s_alloc s)) Hc) as Hspec. rewrite Hgn in Hspec. specialize (Hspec Hti).
  cbn zeta in Hspec. destruct Hspec as (ts' & k & Hr & Hinv' & Hst' & Hw' & Hch' & Hhy' & Hk & Hk1 & Hun' & Hidx).
  apply batch_read_nrm in Hr. rewrite Hr. cbn [fst snd].
  assert (Hcne : CNE ts') by (unfold CNE; rewrite Hch'; exact (proj1 Hlg)).
  assert (Hlg' : LG c ts').
  { destruct Hidx as [Hi|(p & Hi & Hpos)].
    - destruct ck.
      + apply (LG_suffix c T ts' (firstn k (unread c T)) Hch' Hw' Hi); [rewrite Hun'; symmetry; apply firstn_skipn|exact Hlg].
      + apply (LG_suffix c T ts' [] Hch' Hw' Hi); [now rewrite Hun'|exact Hlg].
    - eapply LG_good; eauto. eapply posis_PGood; eauto. }
  assert (HchT : chain_of ts' = chain_of ts) by (rewrite Hch'; apply nrm_chain).
  assert (HwT : ts_writer ts' = ts_writer ts) by (rewrite Hw'; apply nrm_writer).
  set (U := unread c T) in *.
  assert (Hlenk : length (map out_of (firstn k U)) = k) by (rewrite map_length, firstn_length; lia).
  unfold c01_step_ok, remaining. rewrite <- Hu.
  split.
  { destruct ck; [|reflexivity].
    destruct (map out_of (firstn k U)) as [|o0 os0] eqn:Eo.
    - destruct U; [reflexivity|]. exfalso. assert (1 <= k)%nat by (apply Hk1; discriminate). cbn in Hlenk. lia.
    - rewrite <- Eo. rewrite map_length, firstn_length. replace (Nat.min k (length U)) with k by lia. apply outs_are_map. }
  destruct ck; cbn [ledger_step].
  - eapply GM_set_hyd; eauto.
    + intros t' Hne. now apply lget_lset_other.
    + rewrite lget_lset_same. cbn [l_app l_del]. rewrite Hst', Hun', Hs, Hlenk.
      rewrite Hu, skipn_skipn. rewrite Hu, skipn_length in Hk. repeat split; auto; lia.
  - eapply GM_set_hyd; eauto. rewrite Hst', Hun', Hs. rewrite Hu. repeat split; auto.
Qed.

(* every admissible restart-free operation, any mode *)
Lemma GM_step c m be s g B Bb o : cfg_ok c -> GM c s g B Bb -> op_ok c o ->
  B + N.of_nat (length (offered o)) <= u64_max -> Bb + sum_len (offered o) <= u64_max ->
  c01_step_ok g o (snd (step (env_of c m be) s o)) = true /\
  GM c (fst (step (env_of c m be) s o)) (ledger_step g o (snd (step (env_of c m be) s o)))
     (B + N.of_nat (length (offered o))) (Bb + sum_len (offered o)).
Proof.
  intros Hc HG Hok HB HBb.
  destruct o as [t e | t es | t ck | t maxb ck start | t | ]; cbn [offered length sum_len fold_right] in *.
  - apply GM_append; auto.
  - apply GM_batch; auto.
  - replace (B + N.of_nat 0) with B by lia. replace (Bb + 0) with Bb by lia. now apply GM_read.
  - replace (B + N.of_nat 0) with B by lia. replace (Bb + 0) with Bb by lia. now apply GM_batch_read.
  - replace (B + N.of_nat 0) with B by lia. replace (Bb + 0) with Bb by lia. cbn [step fst snd ledger_step]. split; [reflexivity|exact HG].
  - contradiction.
Qed.
