(* EngineIdxS.v — the AtLeastOnce-specialised version of [read_next_spec_idxL] (EngineIdxL.v):
   read_next in mode [ALO n], the persisted position AND the reader's counter [r_since]
   (reads since the last persist). *)
From W Require Import model.Base model.Engine proofs.EngineWF proofs.EngineInv proofs.EngineBR proofs.EnginePos proofs.EngineIdx proofs.EngineIdxL.
From Coq Require Import ZArith ZifyBool ZifyN ZifyNat.

Lemma sp_alo_true n r : should_persist (ALO n) r true = (set_since r 0, true).
Proof. reflexivity. Qed.

Lemma sp_alo_false n r : r_since r < N.max n 1 -> n <= u32_max ->
  should_persist (ALO n) r false =
  if N.max n 1 <=? r_since r + 1 then (set_since r 0, true) else (set_since r (r_since r + 1), false).
Proof.
  intros H Hn. unfold should_persist. cbv zeta.
  replace (N.min (r_since r + 1) u32_max) with (r_since r + 1); [reflexivity|].
  unfold u32_max in *. lia.
Qed.

(* the outcome of an unforced [should_persist] in AtLeastOnce mode, by cases *)
Lemma sp_alo_false_cases n r : r_since r < N.max n 1 -> n <= u32_max ->
  let '(r', p) := should_persist (ALO n) r false in
  (p = true /\ r_since r' = 0 /\ N.max n 1 <= r_since r + 1) \/
  (p = false /\ r_since r' = r_since r + 1 /\ r_since r + 1 < N.max n 1).
Proof.
  intros H Hn. rewrite (sp_alo_false n r H Hn).
  destruct (N.max n 1 <=? r_since r + 1) eqn:E; [left|right]; cbn [set_since r_since]; repeat split; lia.
Qed.

Lemma read_next_spec_alo c n s t ck nid : cfg_ok c -> n <= u32_max ->
  TInv c nid (get_ts s (t_id t)) ->
  r_since (reader_of (get_ts s (t_id t))) < N.max n 1 ->
  let ts := get_ts s (t_id t) in
  exists ts' res, read_next c (ALO n) s t ck = (set_ts s (t_id t) ts', res) /\
    TInv c nid ts' /\ stream ts' = stream ts /\ ts_writer ts' = ts_writer ts /\
    chain_of ts' = chain_of ts /\ r_hydrated (reader_of ts') = true /\
    match unread c ts with
    | [] => res = RNone /\ unread c ts' = []
    | e :: rest => res = REntry (out_of e) /\ unread c ts' = (if ck then rest else e :: rest)
    end /\
    ( (* nothing consumed, nothing persisted *)
      (ts_index ts' = ts_index ts /\ unread c ts' = unread c ts /\ r_since (reader_of ts') = r_since (reader_of ts))
      \/ (* one entry consumed, not persisted: the counter advances and stays below the period *)
      (ts_index ts' = ts_index ts /\ (exists e, unread c ts = e :: unread c ts') /\
       r_since (reader_of ts') = r_since (reader_of ts) + 1 /\ r_since (reader_of ts') < N.max n 1)
      \/ (* the cursor was persisted *)
      (exists p, ts_index ts' = Some p /\ PosIs ts' p /\ r_since (reader_of ts') = 0)
      \/ (* provisional tail position, then an unpersisted read *)
      (Prov c ck ts ts' /\ r_since (reader_of ts') = 1 /\ 1 < N.max n 1) ).
Proof.
  intros (Hh & Hcfg) Hnle Hinv Hsince. cbv zeta. set (ts := get_ts s (t_id t)) in *.
  pose proof Hinv as [Hp Hu Hch Hw Hnd Hids Htl Hidx Hend Hcur Hst Htail Hhyd Hcnt].
  unfold read_next. fold ts.
  destruct (hydrate_fresh (reader_of ts) (ts_index ts) false Hhyd) as (r1 & Hhy & E1 & E2 & E3 & E4 & E5 & E6 & E7).
  rewrite Hhy. rewrite E1, E2, E3.
  pose proof (rn_walk_spec c Hh (skipn (r_idx (reader_of ts)) (r_chain (reader_of ts))) (r_idx (reader_of ts)) (r_off (reader_of ts))) as Hwalk.
  assert (A1 : Forall (bwf c) (skipn (r_idx (reader_of ts)) (r_chain (reader_of ts)))) by (apply Forall_skipn; exact Hch).
  assert (A2 : forall b r, skipn (r_idx (reader_of ts)) (r_chain (reader_of ts)) = b :: r -> okoff c (b_ents b) (r_off (reader_of ts))).
  { intros b r Hs. apply Hcur. unfold chain_of. eapply nth_error_skipn; eauto. }
  assert (A3 : skipn (r_idx (reader_of ts)) (r_chain (reader_of ts)) = [] -> r_off (reader_of ts) = 0).
  { intros Hs. apply Hend. apply skipn_nil_ge in Hs. unfold chain_of in *. lia. }
  specialize (Hwalk A1 A2 A3).
  destruct (rn_walk _ _ _) as [[i o] hit].
  (* the unread list in terms of the walk's input *)
  assert (Hun : unread c ts = (match skipn (r_idx (reader_of ts)) (r_chain (reader_of ts)) with
                               | b0 :: r0 => ents_from c (b_ents b0) (r_off (reader_of ts)) ++ chain_ents r0 ++ w_ents ts
                               | [] => match ts_writer ts with Some w => ents_from c (b_ents w) (tail_start ts w) | None => [] end
                               end)) by reflexivity.
  destruct hit as [b|].
  - (* an unread entry in the sealed chain *)
    destruct Hwalk as (pre & r' & Hrest & Hi & Hok & Hlt & Heq).
    assert (Hsk : skipn i (r_chain r1) = b :: r').
    { rewrite E1, Hi, skipn_add, Hrest. apply skipn_app_len. }
    assert (Hilt : (i < length (chain_of ts))%nat) by (unfold chain_of; rewrite <- E1; eapply skipn_len_lt; eauto).
    assert (Hbwf : bwf c b).
    { eapply Forall_forall; [exact Hch|]. unfold chain_of. rewrite <- E1. eapply nth_error_In, nth_error_skipn; eauto. }
    destruct Hbwf as (Hbu & _).
    assert (Hne : ents_from c (b_ents b) o <> []) by (apply okoff_nonempty; [exact Hok|lia]).
    destruct (ents_from c (b_ents b) o) as [|e re] eqn:Eef; [congruence|].
    assert (Hunread : unread c ts = e :: re ++ chain_ents r' ++ w_ents ts).
    { rewrite Hun. destruct (skipn (r_idx (reader_of ts)) (r_chain (reader_of ts))) as [|b0 r0] eqn:Es.
      - destruct pre; discriminate.
      - rewrite app_assoc, Heq, <- app_assoc. reflexivity. }
    rewrite Hunread.
    unfold block_read. rewrite (ents_from_view c _ _ _ _ Eef).
    destruct ck.
    + (* consuming *)
      pose proof (should_persist_fields (ALO n) (set_cur (set_cur r1 i o) i (o + need c e)) false) as Hsp.
      assert (Hs4 : r_since (set_cur (set_cur r1 i o) i (o + need c e)) < N.max n 1) by (cbn [set_cur r_since]; rewrite E6; exact Hsince).
      pose proof (sp_alo_false_cases n _ Hs4 Hnle) as Hc. cbn [set_cur r_since] in Hc. rewrite E6 in Hc.
      destruct (should_persist (ALO n) _ false) as [r5 p]. cbn [set_cur r_chain r_idx r_off r_tail_bid r_tail_off r_hydrated] in Hsp.
      destruct Hsp as (F1 & F2 & F3 & F4 & F5 & F6).
      set (idx' := if p then Some {| p_tail := false; p_a := N.of_nat i; p_off := o + need c e |} else ts_index ts).
      exists (mk_ts ts r5 (Some (cnt ts - 1)) idx'), (REntry (out_of e)).
      assert (Hur : unread c (mk_ts ts r5 (Some (cnt ts - 1)) idx') = re ++ chain_ents r' ++ w_ents ts).
      { rewrite unread_mk, F1, F2, F3, Hsk. now rewrite (ents_from_step c Hh _ _ _ _ Eef). }
      split; [|split; [|split; [|split; [|split; [|split; [|split; [split|]]]]]]].
      * f_equal. f_equal. unfold idx', mk_ts, count_sub, persist, with_index, with_reader, cnt, sat_sub. destruct p; cbn; reflexivity.
      * apply TInv_reader; auto.
        -- now rewrite F1, E1.
        -- now rewrite F4, E4.
        -- rewrite F2. lia.
        -- rewrite F2. lia.
        -- rewrite F2, F3. intros b' Hb'. unfold chain_of in Hb'. rewrite <- E1 in Hb'.
           rewrite (nth_error_skipn _ _ _ _ Hsk) in Hb'. inversion Hb'; subst b'.
           eapply okoff_step; eauto.
        -- rewrite F4, E4. intros _. apply Hst.
           (* the cursor was already inside the sealed chain, or the walk found a block there *)
           destruct (Nat.lt_ge_cases (r_idx (reader_of ts)) (length (chain_of ts))) as [Hl|Hg]; [exact Hl|].
           exfalso. assert (skipn (r_idx (reader_of ts)) (r_chain (reader_of ts)) = []) as Hn by (apply skipn_all2; exact Hg).
           rewrite Hn in Hrest. destruct pre; discriminate.
        -- rewrite F4, F5, E4, E5. exact Htail.
        -- now rewrite F6, E7.
        -- rewrite Hur. rewrite Hcnt, Hunread. cbn [length]. lia.
      * apply stream_mk. now rewrite F1, E1.
      * reflexivity.
      * rewrite chain_of_mk, F1. exact E1.
      * rewrite reader_of_mk, F6. exact E7.
      * reflexivity.
      * exact Hur.
      * destruct Hc as [(Hpt & Hc0 & _)|(Hpf & Hc1 & Hc2)]; subst p.
        -- unfold idx'. right. right. left. eexists. split; [reflexivity|]. split; [|rewrite reader_of_mk; exact Hc0].
           unfold PosIs. cbn [p_tail p_a p_off].
           rewrite reader_of_mk, chain_of_mk, F1, F2, F3, E1. repeat split. exact Hilt.
        -- right. left. split; [reflexivity|]. split; [exists e; rewrite Hur; reflexivity|].
           rewrite reader_of_mk. split; [exact Hc1|]. rewrite Hc1. exact Hc2.
    + (* peek: only the walk's advance is kept *)
      exists (mk_ts ts (set_cur r1 i o) (ts_count ts) (ts_index ts)), (REntry (out_of e)).
      assert (Hur : unread c (mk_ts ts (set_cur r1 i o) (ts_count ts) (ts_index ts)) = e :: re ++ chain_ents r' ++ w_ents ts).
      { rewrite unread_mk. cbn [set_cur r_chain r_idx r_off]. rewrite Hsk, Eef. reflexivity. }
      split; [|split; [|split; [|split; [|split; [|split; [|split; [split|]]]]]]].
      * reflexivity.
      * apply TInv_reader; auto; cbn [set_cur r_chain r_idx r_off r_tail_bid r_tail_off r_hydrated].
        -- now rewrite E4.
        -- lia.
        -- lia.
        -- intros b' Hb'. unfold chain_of in Hb'. rewrite <- E1 in Hb'.
           rewrite (nth_error_skipn _ _ _ _ Hsk) in Hb'. inversion Hb'; subst b'. exact Hok.
        -- rewrite E4. intros _. apply Hst.
           destruct (Nat.lt_ge_cases (r_idx (reader_of ts)) (length (chain_of ts))) as [Hl|Hg]; [exact Hl|].
           exfalso. assert (skipn (r_idx (reader_of ts)) (r_chain (reader_of ts)) = []) as Hn by (apply skipn_all2; exact Hg).
           rewrite Hn in Hrest. destruct pre; discriminate.
        -- rewrite E4, E5. exact Htail.
        -- rewrite Hur. fold (cnt ts). rewrite Hcnt, Hunread. reflexivity.
      * apply stream_mk. cbn. exact E1.
      * reflexivity.
      * rewrite chain_of_mk. exact E1.
      * rewrite reader_of_mk. exact E7.
      * reflexivity.
      * exact Hur.
      * left. split; [reflexivity|]. split; [exact Hur|]. rewrite reader_of_mk. cbn [set_cur r_since]. exact E6.
  - (* the sealed chain is exhausted: tail path *)
    destruct Hwalk as (Hi & Ho & Heq). subst o.
    assert (Hilen : i = length (chain_of ts)).
    { unfold chain_of in *. rewrite Hi, skipn_length. lia. }
    assert (Hsk : skipn i (r_chain r1) = []) by (rewrite E1, Hilen; apply skipn_all).
    (* start offset in the writer block, and what is unread, in both sub-cases *)
    assert (Hstart : forall w, ts_writer ts = Some w ->
              unread c ts = ents_from c (b_ents w) (if r_tail_bid (reader_of ts) =? b_id w then r_tail_off (reader_of ts) else 0) /\
              okoff c (b_ents w) (if r_tail_bid (reader_of ts) =? b_id w then r_tail_off (reader_of ts) else 0)).
    { intros w Hw'. split; [|exact (Htail w Hw')].
      rewrite Hun. destruct (skipn (r_idx (reader_of ts)) (r_chain (reader_of ts))) as [|b0 r0] eqn:Es.
      - rewrite Hw'. reflexivity.
      - rewrite app_assoc, Heq. cbn [app]. unfold w_ents. rewrite Hw'.
        assert (Hl : (r_idx (reader_of ts) < length (chain_of ts))%nat) by (eapply skipn_len_lt; eauto).
        pose proof (Hst Hl w Hw') as Hneq.
        replace (r_tail_bid (reader_of ts) =? b_id w) with false by lia. now rewrite ents_from_0. }
    destruct (ts_writer ts) as [w|] eqn:Ew.
    + rewrite Hp. destruct (Hstart w eq_refl) as (Hunread & Hokw).
      cbn [set_cur r_tail_bid r_tail_off]. rewrite E4, E5.
      set (start := if r_tail_bid (reader_of ts) =? b_id w then r_tail_off (reader_of ts) else 0) in *.
      assert (Hwwf : bwf c w) by (unfold w_list in Hw; rewrite Ew in Hw; inversion Hw; assumption).
      destruct Hwwf as (Hwu & _).
      assert (Hwid : 0 < b_id w < nid).
      { eapply Forall_forall in Hids; [exact Hids|]. apply in_or_app. right. unfold w_list. rewrite Ew. left. reflexivity. }
      (* the provisional persist changes only the index and the ALO counter *)
      set (pr := if ck && (start =? 0) && (0 <? b_used w)
                 then let '(r', p) := should_persist (ALO n) (set_cur r1 i 0) true in
                      (r', if p then persist ts true (b_id w) start else ts)
                 else (set_cur r1 i 0, ts)).
      assert (Hr4 : r_chain (fst pr) = r_chain r1 /\ r_idx (fst pr) = i /\ r_off (fst pr) = 0 /\
                    r_tail_bid (fst pr) = r_tail_bid r1 /\ r_tail_off (fst pr) = r_tail_off r1 /\ r_hydrated (fst pr) = true).
      { unfold pr. destruct (ck && (start =? 0) && (0 <? b_used w)).
        - pose proof (should_persist_fields (ALO n) (set_cur r1 i 0) true) as Hsp.
          destruct (should_persist (ALO n) (set_cur r1 i 0) true) as [r' p]. cbn [fst]. cbn in Hsp. destruct Hsp as (G1 & G2 & G3 & G4 & G5 & G6).
          repeat split; auto. now rewrite G6.
        - cbn. repeat split; auto. }
      assert (Hts1 : ts_writer (snd pr) = Some w /\ ts_poisoned (snd pr) = false /\ ts_unmodelled (snd pr) = false /\
                     ts_count (snd pr) = ts_count ts /\ (ts_reader (snd pr) = ts_reader ts) /\
                     ts_index (snd pr) = (if ck && (start =? 0) && (0 <? b_used w)
                                          then Some {| p_tail := true; p_a := b_id w; p_off := start |} else ts_index ts)).
      { unfold pr. destruct (ck && (start =? 0) && (0 <? b_used w));
          [pose proof (sp_force (ALO n) (set_cur r1 i 0)) as Hf; destruct (should_persist (ALO n) (set_cur r1 i 0) true) as [r' p];
           cbn [snd] in Hf; subst p|]; cbn; repeat split; auto. }
      assert (Hr4s : r_since (fst pr) = if ck && (start =? 0) && (0 <? b_used w) then 0 else r_since (reader_of ts)).
      { unfold pr. destruct (ck && (start =? 0) && (0 <? b_used w)).
        - rewrite sp_alo_true. reflexivity.
        - cbn [fst set_cur r_since]. exact E6. }
      fold pr. destruct pr as [r4 ts1]. cbn [fst snd] in Hr4, Hts1, Hr4s. rename Hr4s into G7.
      destruct Hr4 as (G1 & G2 & G3 & G4 & G5 & G6). destruct Hts1 as (T1 & T2 & T3 & T4 & T5 & T6).
      destruct (start <? b_used w) eqn:Elt.
      * assert (Hne : ents_from c (b_ents w) start <> []) by (apply okoff_nonempty; [exact Hokw|lia]).
        destruct (ents_from c (b_ents w) start) as [|e re] eqn:Eef; [congruence|].
        rewrite Hunread. unfold block_read. rewrite (ents_from_view c _ _ _ _ Eef).
        destruct ck.
        -- pose proof (should_persist_fields (ALO n) (set_tail r4 (b_id w) (start + need c e)) false) as Hsp.
           assert (Hs5 : r_since (set_tail r4 (b_id w) (start + need c e)) < N.max n 1).
           { cbn [set_tail r_since]. rewrite G7. destruct (true && (start =? 0) && (0 <? b_used w)); [lia|exact Hsince]. }
           pose proof (sp_alo_false_cases n _ Hs5 Hnle) as Hc. cbn [set_tail r_since] in Hc.
           destruct (should_persist (ALO n) _ false) as [r6 p]. cbn [set_tail r_chain r_idx r_off r_tail_bid r_tail_off r_hydrated] in Hsp.
           destruct Hsp as (F1 & F2 & F3 & F4 & F5 & F6).
           set (idx' := if p then Some {| p_tail := true; p_a := b_id w; p_off := start + need c e |} else ts_index ts1).
           exists (mk_ts ts r6 (Some (cnt ts - 1)) idx'), (REntry (out_of e)).
           assert (Hur : unread c (mk_ts ts r6 (Some (cnt ts - 1)) idx') = re).
           { rewrite unread_mk, F1, F2, G1, G2, Hsk, Ew, F4, F5, N.eqb_refl. now rewrite (ents_from_step c Hh _ _ _ _ Eef). }
           split; [|split; [|split; [|split; [|split; [|split; [|split; [split|]]]]]]].
           ++ f_equal. f_equal. unfold idx', mk_ts, count_sub, persist, with_index, with_reader, cnt, sat_sub.
              rewrite T1, T2, T3, T4. destruct p; cbn; rewrite ?Ew, ?Hp, ?Hu; reflexivity.
           ++ apply TInv_reader; auto.
              ** now rewrite F1, G1, E1.
              ** rewrite F4. lia.
              ** rewrite F2, G2. lia.
              ** rewrite F3, G3. reflexivity.
              ** rewrite F2, G2, Hilen. intros b' Hb'. exfalso. eapply nth_error_len_none; eauto.
              ** rewrite F2, G2. lia.
              ** rewrite F4, F5, Ew. intros w' Hw'. inversion Hw'; subst w'. rewrite N.eqb_refl. eapply okoff_step; eauto.
              ** now rewrite F6.
              ** rewrite Hur, Hcnt, Hunread. cbn [length]. lia.
           ++ apply stream_mk. now rewrite F1, G1, E1.
           ++ cbn. now rewrite Ew.
           ++ rewrite chain_of_mk, F1, G1. exact E1.
           ++ rewrite reader_of_mk, F6. exact G6.
           ++ reflexivity.
           ++ exact Hur.
           ++ destruct Hc as [(Hpt & Hc0 & _)|(Hpf & Hc1 & Hc2)]; subst p.
              { unfold idx'. right. right. left. eexists. split; [reflexivity|]. split; [|rewrite reader_of_mk; exact Hc0].
                unfold PosIs. cbn [p_tail p_a p_off]. exists w.
                rewrite reader_of_mk, chain_of_mk, tail_start_mk, F1, F2, F4, F5, G1, G2, E1, N.eqb_refl.
                split; [cbn; now rewrite Ew|]. split; [reflexivity|]. split; [exact Hilen|]. split; [reflexivity|].
                eapply ents_from_cons_nonempty; exact Eef. }
              cbn [andb] in T6, G7. destruct (start =? 0) eqn:Es0; cbn [andb] in T6, G7.
              2:{ right. left. split; [cbn [mk_ts ts_index]; exact T6|]. split; [exists e; rewrite Hur; reflexivity|].
                  rewrite reader_of_mk. rewrite G7 in Hc1, Hc2. split; [exact Hc1|]. rewrite Hc1. exact Hc2. }
              assert (Hs0 : start = 0) by lia. replace (0 <? b_used w) with true in T6, G7 by lia.
              rewrite G7 in Hc1, Hc2.
              right. right. right. split; [|rewrite reader_of_mk; split; [exact Hc1|exact Hc2]]. exists w.
              split; [reflexivity|]. split; [exact Ew|]. split; [cbn [mk_ts ts_index]; unfold idx'; rewrite T6, Hs0; reflexivity|].
              split; [rewrite reader_of_mk, chain_of_mk, F1, F2, G1, G2, E1; exact Hilen|].
              rewrite Hs0, ents_from_0 in Eef. rewrite Eef. split; [exact Hunread|discriminate].
        -- (* peek *)
           cbn [andb] in *.
           exists (mk_ts ts r4 (ts_count ts) (ts_index ts1)), (REntry (out_of e)).
           assert (Hur : unread c (mk_ts ts r4 (ts_count ts) (ts_index ts1)) = e :: re).
           { rewrite unread_mk, G1, G2, Hsk, Ew, G4, G5, E4, E5. fold start. exact Eef. }
           split; [|split; [|split; [|split; [|split; [|split; [|split; [split|]]]]]]].
           ++ f_equal. f_equal. unfold mk_ts, with_reader. rewrite T1, T2, T3, T4, Ew, Hp, Hu. reflexivity.
           ++ apply TInv_reader; auto.
              ** now rewrite G1, E1.
              ** now rewrite G4, E4.
              ** rewrite G2. lia.
              ** rewrite G2, Hilen. intros b' Hb'. exfalso. eapply nth_error_len_none; eauto.
              ** rewrite G2. lia.
              ** rewrite G4, G5, E4, E5, Ew. exact Htail.
              ** rewrite Hur. fold (cnt ts). rewrite Hcnt, Hunread. reflexivity.
           ++ apply stream_mk. now rewrite G1, E1.
           ++ cbn. now rewrite Ew.
           ++ rewrite chain_of_mk, G1. exact E1.
           ++ rewrite reader_of_mk. exact G6.
           ++ reflexivity.
           ++ exact Hur.
           ++ left. split; [cbn [mk_ts ts_index]; exact T6|]. split; [exact Hur|]. rewrite reader_of_mk. exact G7.
      * (* caught up *)
        assert (Hnil : ents_from c (b_ents w) start = []) by (apply ents_from_end; [exact Hh|lia]).
        rewrite Hunread, Hnil.
        exists (mk_ts ts r4 (ts_count ts) (ts_index ts1)), RNone.
        assert (Hur : unread c (mk_ts ts r4 (ts_count ts) (ts_index ts1)) = []).
        { rewrite unread_mk, G1, G2, Hsk, Ew, G4, G5, E4, E5. fold start. exact Hnil. }
        split; [|split; [|split; [|split; [|split; [|split; [|split; [split|]]]]]]].
        -- f_equal. f_equal. unfold mk_ts, with_reader. rewrite T1, T2, T3, T4, Ew, Hp, Hu. reflexivity.
        -- apply TInv_reader; auto.
           ++ now rewrite G1, E1.
           ++ now rewrite G4, E4.
           ++ rewrite G2. lia.
           ++ rewrite G2, Hilen. intros b' Hb'. exfalso. eapply nth_error_len_none; eauto.
           ++ rewrite G2. lia.
           ++ rewrite G4, G5, E4, E5, Ew. exact Htail.
           ++ rewrite Hur. fold (cnt ts). rewrite Hcnt, Hunread, Hnil. reflexivity.
        -- apply stream_mk. now rewrite G1, E1.
        -- cbn. now rewrite Ew.
        -- rewrite chain_of_mk, G1. exact E1.
        -- rewrite reader_of_mk. exact G6.
        -- reflexivity.
        -- exact Hur.
        -- assert (Eck : ck && (start =? 0) && (0 <? b_used w) = false) by lia.
           rewrite Eck in T6, G7.
           left. split; [cbn [mk_ts ts_index]; exact T6|]. split; [rewrite Hur; reflexivity|]. rewrite reader_of_mk. exact G7.
    + (* no writer yet *)
      assert (Hunread : unread c ts = []).
      { rewrite Hun. destruct (skipn (r_idx (reader_of ts)) (r_chain (reader_of ts))) as [|b0 r0] eqn:Es; [reflexivity|].
        rewrite app_assoc, Heq. unfold w_ents. now rewrite Ew. }
      rewrite Hunread.
      exists (mk_ts ts (set_cur r1 i 0) (ts_count ts) (ts_index ts)), RNone.
      assert (Hur : unread c (mk_ts ts (set_cur r1 i 0) (ts_count ts) (ts_index ts)) = []).
      { rewrite unread_mk. cbn [set_cur r_chain r_idx]. now rewrite Hsk, Ew. }
      split; [|split; [|split; [|split; [|split; [|split; [|split; [split|]]]]]]].
      * unfold mk_ts, with_reader; rewrite ?Ew; reflexivity.
      * apply TInv_reader; auto; cbn [set_cur r_chain r_idx r_off r_tail_bid r_tail_off r_hydrated].
        -- now rewrite E4.
        -- lia.
        -- rewrite Hilen. intros b' Hb'. exfalso. eapply nth_error_len_none; eauto.
        -- lia.
        -- rewrite Ew. intros; discriminate.
        -- rewrite Hur. fold (cnt ts). now rewrite Hcnt, Hunread.
      * apply stream_mk. exact E1.
      * cbn. now rewrite Ew.
      * rewrite chain_of_mk. exact E1.
      * rewrite reader_of_mk. exact E7.
      * reflexivity.
      * exact Hur.
      * left. split; [reflexivity|]. split; [exact Hur|]. rewrite reader_of_mk. cbn [set_cur r_since]. exact E6.
Qed.
