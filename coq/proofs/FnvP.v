(* FnvP.v — FNV-1a (model/Fnv.v): every round is injective in the state and in the byte,
   hence changing exactly one byte of the input always changes the checksum. *)
From W Require Import model.Base model.Fnv.

Definition fnv_prime_inv : N := 14886173955864302971.

Lemma fnv_prime_inv_ok : (fnv_prime * fnv_prime_inv) mod two64 = 1.
Proof. vm_compute. reflexivity. Qed.

Lemma two64_nz : two64 <> 0. Proof. discriminate. Qed.

Lemma mulP_inj x y : x < two64 -> y < two64 ->
  (x * fnv_prime) mod two64 = (y * fnv_prime) mod two64 -> x = y.
Proof.
  intros Hx Hy E.
  assert (K : forall z, z < two64 -> ((z * fnv_prime) mod two64 * fnv_prime_inv) mod two64 = z).
  { intros z Hz. rewrite N.mul_mod_idemp_l by exact two64_nz.
    rewrite <- N.mul_assoc. rewrite <- N.mul_mod_idemp_r by exact two64_nz.
    rewrite fnv_prime_inv_ok. rewrite N.mul_1_r. now apply N.mod_small. }
  rewrite <- (K x Hx), <- (K y Hy). now rewrite E.
Qed.

Lemma lxor_lt64 h b : h < two64 -> b < 256 -> N.lxor h b < two64.
Proof.
  intros Hh Hb. change two64 with (2 ^ 64) in *.
  destruct (N.eq_dec (N.lxor h b) 0) as [->|Hnz]; [reflexivity|].
  apply N.log2_lt_pow2; [lia|].
  eapply N.le_lt_trans; [apply N.log2_lxor|].
  apply N.max_lub_lt.
  - destruct (N.eq_dec h 0) as [->|]; [reflexivity|]. apply N.log2_lt_pow2; lia.
  - destruct (N.eq_dec b 0) as [->|]; [reflexivity|]. apply N.log2_lt_pow2; [lia|].
    eapply N.lt_trans; [exact Hb|reflexivity].
Qed.

Lemma fnv_step_lt h b : fnv_step h b < two64.
Proof. unfold fnv_step. apply N.mod_lt. exact two64_nz. Qed.

Lemma fnv_step_inj_state h1 h2 b : h1 < two64 -> h2 < two64 -> b < 256 ->
  fnv_step h1 b = fnv_step h2 b -> h1 = h2.
Proof.
  intros H1 H2 Hb E. unfold fnv_step in E.
  apply mulP_inj in E; try (apply lxor_lt64; assumption).
  apply (f_equal (fun z => N.lxor z b)) in E.
  now rewrite !N.lxor_assoc, N.lxor_nilpotent, !N.lxor_0_r in E.
Qed.

Lemma fnv_step_inj_byte h b1 b2 : h < two64 -> b1 < 256 -> b2 < 256 ->
  fnv_step h b1 = fnv_step h b2 -> b1 = b2.
Proof.
  intros Hh H1 H2 E. unfold fnv_step in E.
  apply mulP_inj in E; try (apply lxor_lt64; assumption).
  apply (f_equal (N.lxor h)) in E.
  now rewrite <- !N.lxor_assoc, N.lxor_nilpotent, !N.lxor_0_l in E.
Qed.

Lemma fnv_from_inj_state bs : forall h1 h2, h1 < two64 -> h2 < two64 ->
  Forall (fun b => b < 256) bs -> fnv_from h1 bs = fnv_from h2 bs -> h1 = h2.
Proof.
  induction bs as [|b r IH]; intros h1 h2 H1 H2 Hb E; cbn [fnv_from] in E; [exact E|].
  inversion Hb; subst. apply IH in E; auto using fnv_step_lt. eapply fnv_step_inj_state; eauto.
Qed.

Lemma fnv_from_single_byte pre : forall b b' post h0,
  h0 < two64 -> Forall (fun x => x < 256) (pre ++ b :: post) -> b' < 256 -> b <> b' ->
  fnv_from h0 (pre ++ b :: post) <> fnv_from h0 (pre ++ b' :: post).
Proof.
  induction pre as [|p pr IH]; intros b b' post h0 Hh Hall Hb' Hne E; cbn [app fnv_from] in *.
  - inversion Hall as [|x l Hb Hpost]; subst.
    apply fnv_from_inj_state in E; [|apply fnv_step_lt|apply fnv_step_lt|exact Hpost].
    apply fnv_step_inj_byte in E; [contradiction|exact Hh|exact Hb|exact Hb'].
  - inversion Hall as [|x l Hp Hrest]; subst.
    exact (IH b b' post (fnv_step h0 p) (fnv_step_lt _ _) Hrest Hb' Hne E).
Qed.

Lemma fnv_offset_lt : fnv_offset < two64. Proof. reflexivity. Qed.

(* every single-byte change of a payload changes its checksum *)
Theorem checksum64_single_byte pre b b' post :
  Forall (fun x => x < 256) (pre ++ b :: post) -> b' < 256 -> b <> b' ->
  checksum64 (pre ++ b :: post) <> checksum64 (pre ++ b' :: post).
Proof. intros. unfold checksum64. apply fnv_from_single_byte; auto using fnv_offset_lt. Qed.

Lemma checksum64_lt bs : checksum64 bs < two64.
Proof.
  unfold checksum64. generalize fnv_offset_lt. generalize fnv_offset.
  induction bs as [|b r IH]; intros h Hh; cbn [fnv_from]; [exact Hh|].
  apply IH. apply fnv_step_lt.
Qed.
