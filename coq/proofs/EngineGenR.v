(* EngineGenR.v — a clean restart in ANY mode re-establishes the invariant GM of EngineGen.v with a
   ledger whose consumer positions moved BACK to the persisted positions (never forward), outside
   block-id drift; hence every history with restarts is explained by a ledger run (AloAccP.v) and its
   trace is accepted by the AtLeastOnce acceptor c06alo_ok: no loss, no reordering, only re-delivery. *)
From W Require Import model.Base model.Engine spec.Queue proofs.EngineBasic proofs.EngineWF proofs.EngineInv proofs.EngineBR proofs.EngineW
  proofs.EngineMain proofs.AloAccP proofs.EngineRec proofs.EngineDisk proofs.EnginePos proofs.EngineGrow proofs.EngineP3 proofs.EngineIdx proofs.EngineBlk
  proofs.EngineNorm proofs.EngineNormW proofs.EngineRaw proofs.EngineRestart proofs.EngineReopen proofs.EngineC06 proofs.EngineP3L proofs.EngineIdxL
  proofs.EngineALO proofs.EngineGen.
From Coq Require Import ZArith ZifyBool ZifyN ZifyNat.

Lemma TGM_reopen c nid nid' ts ts' l l' B Bb rch :
  cfg_ok c -> 0 < nid' ->
  TGM c nid ts l B Bb ->
  chain_of ts' = rch ->
  reader_of ts' = mk_reader rch (startup_cursor rch (ts_index ts)) ->
  ts_index ts' = ts_index ts -> ts_writer ts' = None -> ts_poisoned ts' = false -> ts_unmodelled ts' = ts_unmodelled ts ->
  cnt ts' = rebuilt_count c rch (ts_index ts) ->
  map b_ents rch = map b_ents (memne ts) -> map b_id rch = map b_id (memne ts) ->
  Forall (bwf c) rch -> Forall (fun b => 0 < b_id b < nid') rch -> NoDup (map b_id rch) ->
  l_app l' = l_app l -> l_del l' = (length (l_app l) - length (unread c (nrm false ts')))%nat ->
  TGM c nid' ts' l' B Bb /\ (l_del l' <= l_del l)%nat.
Proof.
  intros Hc Hn' (Hsc & Hx) Hch Hrd Hix Hwr Hpo Hum Hcnt Hents Hids Hbwf Hrange Hnd Hla Hld.
  pose proof Hc as (Hh & _).
  assert (Hcne : Forall (fun b => b_ents b <> []) rch).
  { apply Forall_forall. intros b Hin.
    assert (Hi2 : In (b_ents b) (map b_ents (memne ts))) by (rewrite <- Hents; now apply in_map).
    apply in_map_iff in Hi2. destruct Hi2 as (b0 & He0 & Hin0). unfold memne in Hin0. apply filter_In in Hin0.
    destruct Hin0 as (_ & Hne). apply nonempty_b_true in Hne. congruence. }
  assert (Hstream : chain_ents rch = stream ts) by (rewrite (chain_ents_map_eq _ _ Hents); apply chain_ents_memne).
  assert (Hwl : w_list ts' = []) by (unfold w_list; now rewrite Hwr).
  assert (Hwe : w_ents ts' = []) by (unfold w_ents; now rewrite Hwr).
  assert (Hst' : stream ts' = stream ts) by (unfold stream; rewrite Hch, Hwe, app_nil_r; exact Hstream).
  assert (Hmem' : memne ts' = rch).
  { unfold memne. rewrite Hch, Hwl, app_nil_r. apply filter_all. eapply Forall_impl; [|exact Hcne]. intros b Hb. now apply nonempty_b_true. }
  assert (Hhy' : r_hydrated (reader_of ts') = false) by (rewrite Hrd; reflexivity).
  assert (Hum' : ts_unmodelled ts' = false).
  { rewrite Hum. pose proof (ti_unm _ _ _ (proj1 (Hx false))) as H. now rewrite nrm_unmodelled in H. }
  destruct (ts_index ts) as [p|] eqn:Eidx.
  2:{ (* nothing was ever persisted: the cursor is at the very beginning *)
    assert (Hnrm : forall x, nrm x ts' = ts') by (intros x; unfold nrm; now rewrite Hhy', Hix).
    assert (Hold : forall x, nrm x ts = ts) by (intros x; unfold nrm; destruct (r_hydrated (reader_of ts)); [reflexivity|now rewrite Eidx]).
    assert (Hun' : unread c ts' = chain_ents rch).
    { unfold unread. rewrite Hrd. cbn [mk_reader r_idx r_off r_chain startup_cursor fst snd skipn]. rewrite Hwr.
      destruct rch as [|b0 r0]; [reflexivity|]. rewrite Hwe, app_nil_r, ents_from_0. reflexivity. }
    destruct (Hx false) as (_ & _ & Hdl & Hs & Hu & Hb1 & Hb2). rewrite Hold in *.
    assert (Hd0 : l_del l' = 0%nat) by (rewrite Hld, (Hnrm false), Hun', Hstream, Hs; lia).
    split; [|lia].
    split; [intros _ p0 Hp0; rewrite Hix in Hp0; discriminate|].
    intros x. rewrite Hnrm.
    split.
    { constructor.
      - exact Hpo.
      - exact Hum'.
      - rewrite Hch. exact Hbwf.
      - rewrite Hwl. constructor.
      - rewrite Hch, Hwl, app_nil_r. exact Hnd.
      - rewrite Hch, Hwl, app_nil_r. exact Hrange.
      - rewrite Hrd. exact Hn'.
      - rewrite Hrd. cbn [mk_reader r_idx startup_cursor fst]. lia.
      - intros _. rewrite Hrd. reflexivity.
      - intros b Hb. rewrite Hrd. cbn [mk_reader r_off startup_cursor snd]. apply okoff_0.
      - intros _ w Hw. rewrite Hwr in Hw. discriminate.
      - intros w Hw. rewrite Hwr in Hw. discriminate.
      - intros _. exact Hix.
      - rewrite Hcnt, Hun'. unfold rebuilt_count. rewrite sum_counts_len. lia. }
    split.
    { split; [unfold CNE; now rewrite Hch|]. rewrite Hix. exists []. now rewrite Hun', Hst', Hstream. }
    rewrite Hla, Hd0. split; [lia|]. split; [now rewrite Hst'|]. split; [|split; assumption].
    now rewrite Hun', Hstream, Hs. }
  (* a persisted position: outside the stale class it is a good one, and it resolves in the rebuilt chain *)
  destruct (Hx false) as (_ & (_ & Hlag) & Hdl & Hs & Hu & Hb1 & Hb2).
  rewrite nrm_index, Eidx in Hlag. destruct Hlag as (j & bq & pre & Hbq & Hpos0 & Hok0 & Hfrom0). rewrite nrm_memne in Hbq, Hfrom0.
  destruct (nth_error_map_eq b_ents _ _ j bq (eq_sym Hents) Hbq) as (b' & Hb' & He').
  destruct (nth_error_map_eq b_id _ _ j bq (eq_sym Hids) Hbq) as (b'' & Hb'' & Hi').
  rewrite Hb' in Hb''. inversion Hb''; subst b''.
  assert (Hpos : if p_tail p then b_id b' = p_a p else p_a p = N.of_nat j) by (destruct (p_tail p); [congruence|exact (proj1 Hpos0)]).
  assert (Hok : okoff c (b_ents b') (p_off p)) by (now rewrite He').
  assert (Hfrom : from c rch j (p_off p) = pre ++ skipn (l_del l) (l_app l)).
  { rewrite <- Hu, <- Hfrom0. now apply from_ents_eq. }
  assert (Hgood : forall x : bool, exists j b', nth_error rch j = Some b' /\
             (if p_tail p then b_id b' = p_a p else p_a p = N.of_nat j) /\ okoff c (b_ents b') (p_off p) /\ True).
  { intros x. exists j, b'. auto. }
  assert (HA : chain_ents rch = l_app l) by (rewrite Hstream, <- Hs; apply (eq_sym (nrm_stream false ts))).
  destruct (from_suffix c Hh rch j b' (p_off p) Hb' Hok) as (k & Hk). rewrite HA in Hk.
  assert (HPG : forall x, PGood c (nrm x ts') p).
  { intros x.
    assert (Hj : (j < length rch)%nat) by (apply nth_error_Some; congruence).
    assert (Hbw : bwf c b') by (eapply Forall_forall in Hbwf; [exact Hbwf|eapply nth_error_In; eauto]).
    destruct (hyd_mk c x rch (startup_cursor rch (Some p)) p j b' Hb' Hok (proj1 Hbw) Hnd Hpos) as (R1 & R2 & R3 & R4 & R5).
    set (R := hyd x (mk_reader rch (startup_cursor rch (Some p))) (Some p)) in *.
    assert (Hnrm : nrm x ts' = with_reader ts' R) by (unfold nrm; rewrite Hhy', Hix, Hrd; reflexivity).
    rewrite Hnrm. exists j, b'.
    assert (Hm2 : memne (with_reader ts' R) = rch).
    { unfold memne, chain_of, w_list. cbn [reader_of with_reader ts_reader ts_writer]. rewrite R1, Hwr, app_nil_r.
      apply filter_all. eapply Forall_impl; [|exact Hcne]. intros b Hb. now apply nonempty_b_true. }
    rewrite Hm2. split; [exact Hb'|]. split.
    - destruct (p_tail p); [exact Hpos|]. split; [exact Hpos|]. unfold chain_of. cbn [reader_of with_reader ts_reader]. now rewrite R1.
    - split; [exact Hok|]. eapply unread_reopened; eauto. }
  assert (HU' : forall x, unread c (nrm x ts') = from c rch j (p_off p)).
  { intros x. assert (Hbw : bwf c b') by (eapply Forall_forall in Hbwf; [exact Hbwf|eapply nth_error_In; eauto]).
    destruct (hyd_mk c x rch (startup_cursor rch (Some p)) p j b' Hb' Hok (proj1 Hbw) Hnd Hpos) as (R1 & R2 & R3 & R4 & R5).
    assert (Hnrm : nrm x ts' = with_reader ts' (hyd x (mk_reader rch (startup_cursor rch (Some p))) (Some p))) by (unfold nrm; rewrite Hhy', Hix, Hrd; reflexivity).
    rewrite Hnrm. eapply unread_reopened; eauto. }
  assert (Hd' : skipn (l_del l') (l_app l) = from c rch j (p_off p) /\ (l_del l' <= l_del l)%nat).
  { rewrite Hld, (HU' false). pose proof (f_equal (@length entry) Hfrom) as Hlen. rewrite app_length, skipn_length in Hlen.
    split; [|lia]. rewrite Hk, skipn_length.
    destruct (Nat.le_gt_cases k (length (l_app l))) as [Hle|Hgt].
    - f_equal. lia.
    - replace (length (l_app l) - (length (l_app l) - k))%nat with (length (l_app l)) by lia.
      rewrite skipn_all. symmetry. apply skipn_all2. lia. }
  destruct Hd' as (Hsk' & Hrb).
  split; [|exact Hrb].
  split.
  { (* SC *)
    intros _ p0 Hp0. rewrite Hix in Hp0. inversion Hp0; subst p0. rewrite Hrd. split; [reflexivity|].
    rewrite Hch.
    assert (Hj : (j < length rch)%nat) by (apply nth_error_Some; congruence).
    destruct (p_tail p).
    - exists j. rewrite <- Hpos. exact (find_id_nodup rch Hnd j b' 0%nat Hb').
    - rewrite Hpos. lia. }
  intros x.
  assert (Hj : (j < length rch)%nat) by (apply nth_error_Some; congruence).
  assert (Hbw : bwf c b') by (eapply Forall_forall in Hbwf; [exact Hbwf|eapply nth_error_In; eauto]).
  set (sc := startup_cursor rch (Some p)) in *.
  destruct (hyd_mk c x rch sc p j b' Hb' Hok (proj1 Hbw) Hnd Hpos) as (R1 & R2 & R3 & R4 & R5).
  set (R := hyd x (mk_reader rch sc) (Some p)) in *.
  assert (Hnrm : nrm x ts' = with_reader ts' R) by (unfold nrm; rewrite Hhy', Hix, Hrd; reflexivity).
  rewrite Hnrm.
  assert (Hun' : unread c (with_reader ts' R) = from c rch j (p_off p)) by (eapply unread_reopened; eauto).
  assert (Hfind : p_tail p = true -> find_id rch (p_a p) 0 = Some j).
  { intros Et. rewrite Et in Hpos. rewrite <- Hpos. exact (find_id_nodup rch Hnd j b' 0%nat Hb'). }
  assert (Hclamp : p_tail p = false -> clamp_idx (p_a p) (length rch) = j).
  { intros Et. rewrite Et in Hpos. unfold clamp_idx. rewrite Hpos. replace (N.of_nat (length rch) <? N.of_nat j) with false by lia. apply Nat2N.id. }
  assert (Hch2 : chain_of (with_reader ts' R) = rch) by (unfold chain_of; cbn [reader_of with_reader ts_reader]; exact R1).
  assert (Hwl2 : w_list (with_reader ts' R) = []) by (unfold w_list; cbn [with_reader ts_writer]; now rewrite Hwr).
  assert (Hrd2 : reader_of (with_reader ts' R) = R) by reflexivity.
  split.
  { constructor.
    - exact Hpo.
    - exact Hum'.
    - rewrite Hch2. exact Hbwf.
    - rewrite Hwl2. constructor.
    - rewrite Hch2, Hwl2, app_nil_r. exact Hnd.
    - rewrite Hch2, Hwl2, app_nil_r. exact Hrange.
    - rewrite Hrd2. destruct R5 as [->|(-> & Et)]; [lia|]. rewrite Et in Hpos. eapply Forall_forall in Hrange; [|eapply nth_error_In; exact Hb']. lia.
    - rewrite Hrd2, Hch2, R2. lia.
    - rewrite Hrd2, Hch2, R2. lia.
    - rewrite Hrd2, Hch2, R2, R3. intros b Hb. rewrite Hb' in Hb. inversion Hb; subst b. exact Hok.
    - intros _ w Hw. cbn [with_reader ts_writer] in Hw. rewrite Hwr in Hw. discriminate.
    - intros w Hw. cbn [with_reader ts_writer] in Hw. rewrite Hwr in Hw. discriminate.
    - rewrite Hrd2, R4. discriminate.
    - change (cnt (with_reader ts' R)) with (cnt ts'). rewrite Hcnt, Hun'. unfold rebuilt_count.
      pose proof (from_len c Hh rch j b' (p_off p) Hb' Hbw Hok) as Hfl.
      destruct (p_tail p) eqn:Et.
      + rewrite (Hfind eq_refl). lia.
      + rewrite (Hclamp eq_refl). lia. }
  split.
  { split; [unfold CNE, chain_of; cbn [reader_of with_reader ts_reader]; now rewrite R1|].
    cbn [ts_index with_reader]. rewrite Hix. apply PGood_PLag. rewrite <- Hnrm. apply HPG. }
  rewrite Hla. split; [rewrite Hld; lia|]. split.
  { unfold stream, chain_of, w_ents. cbn [reader_of with_reader ts_reader ts_writer]. rewrite R1, Hwr, app_nil_r. exact HA. }
  split; [|split; assumption]. now rewrite Hun', Hsk'.
Qed.

(* ------------------------------------------------------------------ the rolled-back ledger *)
Definition rbl (c : Cfg) (s : st) (q : N * ledger) : N * ledger :=
  (fst q, {| l_app := l_app (snd q);
             l_del := length (l_app (snd q)) - length (unread c (nrm false (get_ts (reopen c s) (fst q)))) |}).

Lemma lget_rbl c s g t :
  lget (map (rbl c s) g) t =
  {| l_app := l_app (lget g t);
     l_del := length (l_app (lget g t)) - length (unread c (nrm false (get_ts (reopen c s) t))) |}.
Proof.
  unfold lget. rewrite (find_map_key (rbl c s) t (fun p => eq_refl)).
  destruct (find (fun p => fst p =? t) g) as [[k l]|] eqn:Ef; cbn [option_map snd].
  - pose proof (find_some _ _ Ef) as (_ & Hk). cbn in Hk. assert (k = t) by lia. subst k. reflexivity.
  - reflexivity.
Qed.

Theorem GM_reopen c s g B Bb : cfg_ok c -> GM c s g B Bb -> id_drift c s = false ->
  GM c (reopen c s) (map (rbl c s) g) B Bb /\ RB g (map (rbl c s) g).
Proof.
  intros Hc (Hn & Hd & Hb & Hl & Hall) Hdrift. pose proof Hc as (Hh & Hb0 & _).
  pose proof (reopen_stream c s Hc Hd) as Hst.
  assert (Hn' : 0 < a_next (s_alloc (reopen c s))).
  { destruct (reopen_fields c s) as (_ & _ & F3). rewrite F3. cbn [a_next]. lia. }
  assert (Htopic : forall t, TGM c (a_next (s_alloc (reopen c s))) (get_ts (reopen c s) t) (lget (map (rbl c s) g) t) B Bb /\
                             (l_del (lget (map (rbl c s) g) t) <= l_del (lget g t))%nat).
  { intros t. pose proof (di_wf _ _ _ _ _ _ Hd) as Hwf.
    destruct (reopen_shape c s t Hh Hb0 Hwf) as (S1 & S2 & S3 & S4 & S5 & S6 & Hcase). cbn zeta in *.
    destruct Hcase as [(old & Hin & Hold & Hrch)|(H0 & H0')].
    - destruct (reopen_chain c s t Hc Hd Hb Hl) as (C1 & C2 & C3 & C4 & _). cbn zeta in *.
      eapply TGM_reopen with (rch := chain_of (get_ts (reopen c s) t)) (l := lget g t); eauto.
      + rewrite C1. apply mblocks_memne.
      + rewrite Hrch, Hold. now apply nodrift_ids.
      + now rewrite lget_rbl.
      + now rewrite lget_rbl.
    - rewrite lget_rbl, H0'. specialize (Hall t). rewrite H0 in Hall. destruct Hall as (Hsc & Hx).
      destruct (Hx false) as (_ & _ & Hdl & Hs & Hu & Hb1 & Hb2). rewrite nrm_tstate0 in *.
      assert (Ha : l_app (lget g t) = []) by (now rewrite <- Hs).
      rewrite Ha. cbn [length Nat.sub]. split; [|cbn [l_del]; lia].
      split; [exact Hsc|]. intros x. rewrite nrm_tstate0. split; [now apply TInv0|]. split; [apply LG_tstate0|].
      cbn [l_app l_del length]. rewrite Ha in Hb1, Hb2. repeat split; auto. }
  split.
  - split; [exact Hn'|]. split; [now apply reopen_DIs|]. split; [now apply reopen_BIs|]. split; [now apply reopen_DLim|].
    intros t. exact (proj1 (Htopic t)).
  - intros t. split; [now rewrite lget_rbl|exact (proj2 (Htopic t))].
Qed.

Lemma GM_WFg c s g B Bb : GM c s g B Bb -> WFg g.
Proof. intros (_ & _ & _ & _ & Hall) t. destruct (proj2 (Hall t) false) as (_ & _ & H & _). exact H. Qed.

(* every history with restarts outside block-id drift, ANY mode, is explained by a ledger run *)
Theorem GM_ledger_run c m be : cfg_ok c -> forall ops s g B Bb,
  GM c s g B Bb -> outside_known (env_of c m be) s ops = true ->
  B + N.of_nat (length (offered_all ops)) <= u64_max -> Bb + sum_len (offered_all ops) <= u64_max ->
  LedgerRun g (trace (env_of c m be) s ops).
Proof.
  intros Hc. induction ops as [|o r IH]; intros s g B Bb HG Hout HB HBb; [exact I|].
  cbn [outside_known] in Hout. apply andb_true_iff in Hout. destruct Hout as (Ho & Hout).
  cbn [offered_all] in HB, HBb. rewrite app_length, Nat2N.inj_add in HB. rewrite sum_len_app in HBb.
  cbn [trace].
  destruct o as [t e | t es | t ck | t maxb ck start | t | ].
  1-5: (match goal with |- context [step _ _ ?o] =>
          pose proof (GM_step c m be s g B Bb o Hc HG I ltac:(lia) ltac:(lia)) as (H1 & HG') end;
        destruct (step (env_of c m be) s _) as [s' res]; cbn [fst snd] in *;
        cbn [LedgerRun]; split; [exact H1|]; split; [exact (GM_WFg _ _ _ _ _ HG')|];
        apply (IH s' _ _ _ HG' Hout); lia).
  cbn [step env_of v_cfg fst snd LedgerRun] in *. apply negb_true_iff in Ho.
  destruct (GM_reopen c s g B Bb Hc HG Ho) as (HG' & Hrb).
  exists (map (rbl c s) g). split; [exact Hrb|]. split; [exact (GM_WFg _ _ _ _ _ HG')|].
  cbn [offered length sum_len fold_right] in *. apply (IH _ _ B Bb HG' Hout); lia.
Qed.

(* goal (b)+(c): in ANY consistency mode, every history of appends, batches, reads, counts and restarts
   outside block-id drift is accepted by the AtLeastOnce acceptor: nothing is lost, nothing is reordered,
   after a restart a suffix of what was already delivered may be delivered again *)
Corollary restart_alo_from_init c m be ops : cfg_ok c ->
  outside_known (env_of c m be) init ops = true ->
  N.of_nat (length (offered_all ops)) <= u64_max -> sum_len (offered_all ops) <= u64_max ->
  c06alo_ok (trace (env_of c m be) init ops) = true.
Proof.
  intros Hc Hout HB HBb. apply alo_accepts_init. pose proof Hc as (_ & Hb0 & _).
  apply (GM_ledger_run c m be Hc ops init [] 0 0 (GM_init c Hb0) Hout); lia.
Qed.
