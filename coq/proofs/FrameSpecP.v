(* FrameSpecP.v — the model's output is accepted by the spec acceptor c24_ok, for EVERY byte
   stream a client can send (fixed code), resp. every byte stream outside the class of
   finding D12 (code as it stands).  Ingredients: every byte stream splits uniquely into
   complete frames and an incomplete tail; responses never reach 2^32 bytes (so the response
   framing parses back); a step-by-step simulation between the mock controller and the
   acceptor's abstract queues. *)
From W Require Import gen.Consts model.Base model.Utf8 model.Frame spec.FrameSpec
  proofs.WalKeyP proofs.Utf8P proofs.FrameP.
From Coq Require Import ZArith ZifyBool ZifyN ZifyNat.
Ltac Zify.zify_post_hook ::= Z.div_mod_to_equations.

Definition bytes (l : list N) : Prop := Forall (fun b => b < 256) l.

Lemma le32_un_le32 b0 b1 b2 b3 : b0 < 256 -> b1 < 256 -> b2 < 256 -> b3 < 256 ->
  le32 (un_le32 b0 b1 b2 b3) = [b0; b1; b2; b3] /\ un_le32 b0 b1 b2 b3 < two32.
Proof.
  unfold le32, un_le32, two32. intros. split; [|lia].
  f_equal; [lia|]. f_equal; [lia|]. f_equal; [lia|]. f_equal. lia.
Qed.

Lemma enc_frames_cons f fs : enc_frames (f :: fs) = enc_frame f ++ enc_frames fs.
Proof. reflexivity. Qed.

Lemma enc_frames_app a b : enc_frames (a ++ b) = enc_frames a ++ enc_frames b.
Proof. unfold enc_frames. now rewrite map_app, concat_app. Qed.

(* ------------------------------------------------------------------ framing is a bijection *)
Lemma split_frames_fuel_spec : forall fuel inp fs tl,
  bytes inp -> (length inp < fuel)%nat -> split_frames_fuel fuel inp = (fs, tl) ->
  inp = enc_frames fs ++ tl /\ Forall wf fs /\ incomplete tl.
Proof.
  induction fuel as [|f IH]; intros inp fs tl Hb Hl H; [lia|].
  destruct inp as [|b0 [|b1 [|b2 [|b3 rest]]]]; cbn [split_frames_fuel] in H;
    try (inversion H; subst; split; [reflexivity|split; [constructor|exact I]]).
  destruct (read_exact (un_le32 b0 b1 b2 b3) rest) as [[body rest']|] eqn:E.
  - destruct (split_frames_fuel f rest') as [fs' tl'] eqn:E'. inversion H; subst. clear H.
    apply read_exact_sound in E. destruct E as [-> Hn].
    inversion Hb as [|? ? H0 Hb0]; subst. inversion Hb0 as [|? ? H1 Hb1]; subst.
    inversion Hb1 as [|? ? H2 Hb2]; subst. inversion Hb2 as [|? ? H3 Hb3]; subst.
    apply Forall_app in Hb3. destruct Hb3 as [_ Hbr].
    cbn [length] in Hl. rewrite app_length in Hl.
    apply IH in E'; [|exact Hbr|lia]. destruct E' as (-> & Hwf & Hinc).
    destruct (le32_un_le32 b0 b1 b2 b3 H0 H1 H2 H3) as [Ele Hlt].
    split; [|split; [|exact Hinc]].
    + rewrite enc_frames_cons. unfold enc_frame. cbn [f_len f_body]. rewrite Ele.
      cbn [app]. now rewrite <- app_assoc.
    + constructor; [|exact Hwf]. split; cbn [f_len f_body]; [exact Hlt|exact Hn].
  - inversion H; subst. split; [reflexivity|split; [constructor|exact E]].
Qed.

Lemma split_frames_fuel_enc fs : forall fuel tl,
  (length (enc_frames fs ++ tl) < fuel)%nat -> Forall wf fs -> incomplete tl ->
  split_frames_fuel fuel (enc_frames fs ++ tl) = (fs, tl).
Proof.
  induction fs as [|[n body] fs IH]; intros fuel tl Hl Hwf Hinc.
  - change (enc_frames [] ++ tl) with tl. destruct fuel as [|f]; [reflexivity|].
    destruct tl as [|b0 [|b1 [|b2 [|b3 rest]]]]; try reflexivity.
    cbn [split_frames_fuel]. cbn [incomplete] in Hinc. now rewrite Hinc.
  - inversion Hwf as [|? ? [Hlt Hlen] Hfs]; subst. cbn [f_len f_body] in *. subst n.
    assert (E : enc_frames ({| f_len := blen body; f_body := body |} :: fs) ++ tl =
                (blen body mod 256) :: ((blen body / 256) mod 256) :: ((blen body / 65536) mod 256)
                :: ((blen body / 16777216) mod 256) :: body ++ enc_frames fs ++ tl).
    { rewrite enc_frames_cons. unfold enc_frame, le32. cbn [f_len f_body app].
      now rewrite <- !app_assoc. }
    rewrite E in *. clear E. cbn [length] in Hl.
    destruct fuel as [|f]; [lia|]. cbn [split_frames_fuel].
    rewrite un_le32_le32 by exact Hlt. rewrite read_exact_app.
    rewrite IH; [reflexivity| |exact Hfs|exact Hinc].
    rewrite app_length in Hl. lia.
Qed.

Lemma split_frames_enc fs tl : Forall wf fs -> incomplete tl ->
  split_frames (enc_frames fs ++ tl) = (fs, tl).
Proof. intros. apply split_frames_fuel_enc; [lia|assumption|assumption]. Qed.

Lemma split_frames_spec inp fs tl : bytes inp -> split_frames inp = (fs, tl) ->
  inp = enc_frames fs ++ tl /\ Forall wf fs /\ incomplete tl.
Proof. intros Hb H. apply (split_frames_fuel_spec (S (length inp))); [exact Hb|lia|exact H]. Qed.

(* ------------------------------------------------------------------ response bytes *)
Definition resp_bytes (r : fresp) : list N := utf8_encode (resp_text r).
Definition resp_frame (r : fresp) : frame := text_frame (resp_text r).

Lemma enc_resps_frames rs : enc_resps rs = enc_frames (map resp_frame rs).
Proof. unfold enc_resps, enc_frames. rewrite map_map. reflexivity. Qed.

Lemma map_body_resp_frame rs : map f_body (map resp_frame rs) = map resp_bytes rs.
Proof. rewrite map_map. reflexivity. Qed.

Lemma resp_frame_wf r : blen (resp_bytes r) < two32 -> wf (resp_frame r).
Proof. intros H. split; [exact H|reflexivity]. Qed.

Lemma resp_bytes_err m : resp_bytes (FErr m) = s_ERR_sp ++ utf8_encode m.
Proof. unfold resp_bytes. cbn [resp_text]. now rewrite utf8_encode_app. Qed.

Lemma is_err_err m : is_err (resp_bytes (FErr m)) = true.
Proof. rewrite resp_bytes_err. unfold is_err. now rewrite strip_prefix_app. Qed.

Lemma resp_bytes_data p : resp_bytes (FData p) = s_OK_sp ++ utf8_encode p.
Proof. unfold resp_bytes. cbn [resp_text]. now rewrite utf8_encode_app. Qed.

Lemma resp_bytes_state t : resp_bytes (FText (s_STATE_sp ++ t)) = s_STATE_sp ++ utf8_encode t.
Proof. unfold resp_bytes. cbn [resp_text]. now rewrite utf8_encode_app. Qed.

(* ------------------------------------------------------------------ pieces of a line *)
Definition good (B : N) (x : str) : Prop := scalars x /\ blen (utf8_encode x) <= B.

Lemma good_app B a b : good B (a ++ b) -> good B a /\ good B b.
Proof.
  unfold good. rewrite utf8_encode_app, blen_app. intros [Hs Hl].
  apply scalars_app in Hs. destruct Hs. repeat split; (assumption || lia).
Qed.

Lemma good_cons B x b : good B (x :: b) -> good B b.
Proof. intros H. change (x :: b) with ([x] ++ b) in H. now apply good_app in H. Qed.

Lemma good_first B r : good B r -> good B (fst (split_sp r)).
Proof.
  intros H. destruct (split_sp r) as [a o] eqn:E. apply split_sp_sound in E.
  destruct o; subst; cbn [fst]; [now apply good_app in H|exact H].
Qed.

Lemma good_trim B s : good B s -> good B (trim_end s).
Proof. intros H. destruct (trim_end_prefix s) as [w Hw]. rewrite Hw in H. now apply good_app in H. Qed.

Lemma parse_cmd_good B line : good B line ->
  match parse_cmd line with
  | FRegister t | FGet t | FState t => good B t
  | FPut t p => good B t /\ good B p
  | FMetrics => True
  | FBad m => blen (utf8_encode m) <= 32
  end.
Proof.
  intros G. unfold parse_cmd. destruct (split_sp line) as [verb r1] eqn:E.
  apply split_sp_sound in E.
  assert (G1 : match r1 with Some r => good B r | None => True end).
  { destruct r1; [|exact I]. subst. apply good_app in G. destruct G as [_ G]. now apply good_cons in G. }
  destruct (str_eqb verb s_REGISTER).
  { destruct r1; [now apply good_first|now vm_compute]. }
  destruct (str_eqb verb s_PUT).
  { destruct r1 as [r|]; [|now vm_compute].
    destruct (split_sp r) as [t r2] eqn:E2. apply split_sp_sound in E2.
    destruct r2; [|now vm_compute]. subst r. apply good_app in G1. destruct G1 as [Ga Gb].
    apply good_cons in Gb. now split. }
  destruct (str_eqb verb s_GET).
  { destruct r1; [now apply good_first|now vm_compute]. }
  destruct (str_eqb verb s_STATE).
  { destruct r1; [now apply good_first|now vm_compute]. }
  destruct (str_eqb verb s_METRICS); [exact I|now vm_compute].
Qed.

(* ------------------------------------------------------------------ simulation *)
Lemma max_frame_big : 32 <= max_frame_len.
Proof. now vm_compute. Qed.

Definition pay_ok (x : list N) : Prop :=
  exists p, scalars p /\ x = utf8_encode p /\ blen x <= max_frame_len.
Definition ctl_ok (c : ctl) : Prop := forall t x, In x (ctl_queue c t) -> pay_ok x.
Definition sim (c q : ctl) : Prop := forall t, ctl_queue c t = ctl_queue q t.

Lemma ctl_ok0 : ctl_ok ctl0.
Proof. intros t x H. destruct H. Qed.

Lemma exec_get_queue c t : is_fail t = false ->
  exec c (FGet t) = match ctl_queue c t with
                    | x :: q => (ctl_set c t q, FData (lossy x))
                    | [] => (c, FEmpty)
                    end.
Proof. intros H. unfold ctl_queue. cbn [exec]. rewrite H. destruct (ctl_get c t) as [[|x q]|]; reflexivity. Qed.

Ltac fin4 := split; [reflexivity|split; [assumption|split; [assumption|]]].

Lemma step_sim c q f : sim c q -> ctl_ok c -> wf f ->
  exists q', check1 q f (resp_bytes (snd (respond c f))) = Some q' /\
             sim (fst (respond c f)) q' /\ ctl_ok (fst (respond c f)) /\
             blen (resp_bytes (snd (respond c f))) <= max_frame_len + 8.
Proof.
  intros HR Hok [Hlt Hlen]. pose proof max_frame_big as Hbig. unfold respond, check1, classify_frame.
  destruct (bad_len (f_len f)) eqn:Eb.
  { exists q. cbn [fst snd]. change (str_eqb (resp_bytes (FErr m_len)) err_len_bytes) with true.
    fin4. change (blen (resp_bytes (FErr m_len))) with 24. lia. }
  unfold handle_body. destruct (utf8_decode (f_body f)) as [text|] eqn:Ed.
  2:{ exists q. cbn [fst snd]. change (str_eqb (resp_bytes (FErr m_utf8)) err_utf8_bytes) with true.
      fin4. change (blen (resp_bytes (FErr m_utf8))) with 17. lia. }
  apply utf8_encode_decode in Ed. destruct Ed as [Eenc Hsc].
  assert (G : good max_frame_len (trim_end text)).
  { apply good_trim. split; [exact Hsc|]. rewrite Eenc, Hlen. unfold bad_len in Eb. lia. }
  pose proof (parse_cmd_good _ _ G) as Gc.
  destruct (parse_cmd (trim_end text)) as [t|t p|t|t| |m]; cbn [exec].
  - (* REGISTER *)
    destruct (is_fail t).
    + exists q. cbn [fst snd]. rewrite is_err_err, orb_true_r.
      fin4. change (blen (resp_bytes (FErr m_boom))) with 8. lia.
    + exists q. cbn [fst snd]. change (str_eqb (resp_bytes FOk) s_OK) with true. cbn [orb].
      change (blen (resp_bytes FOk)) with 2.
      destruct (ctl_get c t) eqn:Eg; (split; [reflexivity|split; [|split; [|lia]]]); try assumption.
      * intros t'. rewrite ctl_queue_set. destruct (str_eqb t t') eqn:Et; [|apply HR].
        apply str_eqb_eq in Et. subst t'. rewrite <- HR. unfold ctl_queue. now rewrite Eg.
      * intros t' x Hin. rewrite ctl_queue_set in Hin. destruct (str_eqb t t'); [destruct Hin|].
        now apply (Hok t').
  - (* PUT *)
    destruct Gc as [Gt Gp]. destruct (is_fail t).
    + exists q. cbn [fst snd]. change (str_eqb (resp_bytes (FErr m_boom)) s_OK) with false.
      rewrite is_err_err. fin4.
      change (blen (resp_bytes (FErr m_boom))) with 8. lia.
    + exists (ctl_set q t (ctl_queue q t ++ [utf8_encode p])). cbn [fst snd].
      change (str_eqb (resp_bytes FOk) s_OK) with true. change (blen (resp_bytes FOk)) with 2.
      split; [reflexivity|split; [|split; [|lia]]].
      * intros t'. rewrite !ctl_queue_set. now rewrite HR, (HR t').
      * intros t' x Hin. rewrite ctl_queue_set in Hin. destruct (str_eqb t t'); [|now apply (Hok t')].
        apply in_app_or in Hin. destruct Hin as [Hin|[<-|[]]]; [now apply (Hok t)|].
        exists p. destruct Gp. repeat split; assumption.
  - (* GET *)
    destruct (is_fail t) eqn:Ef.
    + exists q. cbn [fst snd]. rewrite is_err_err. fin4.
      change (blen (resp_bytes (FErr m_boom))) with 8. lia.
    + pose proof (exec_get_queue c t Ef) as Ex. cbn [exec] in Ex. rewrite Ef in Ex. rewrite Ex. clear Ex.
      destruct (ctl_queue c t) as [|x rest] eqn:Eq.
      * exists q. cbn [fst snd]. change (is_err (resp_bytes FEmpty)) with false.
        rewrite <- HR, Eq. change (str_eqb (resp_bytes FEmpty) s_EMPTY) with true.
        fin4. change (blen (resp_bytes FEmpty)) with 5. lia.
      * destruct (Hok t x) as (p0 & Hp0 & Ex & Hbx); [rewrite Eq; now left|].
        assert (El : lossy x = p0) by (unfold lossy; now rewrite Ex, utf8_decode_encode).
        exists (ctl_set q t rest). cbn [fst snd]. rewrite El, resp_bytes_data, <- Ex.
        change (is_err (s_OK_sp ++ x)) with false. rewrite <- HR, Eq, str_eqb_refl.
        split; [reflexivity|split; [|split]].
        -- intros t'. rewrite !ctl_queue_set. now rewrite (HR t').
        -- intros t' y Hin. rewrite ctl_queue_set in Hin. destruct (str_eqb t t') eqn:Et; [|now apply (Hok t')].
           apply (Hok t). rewrite Eq. now right.
        -- rewrite blen_app. change (blen s_OK_sp) with 3. lia.
  - (* STATE *)
    exists q. destruct (is_fail t); cbn [fst snd]; fin4.
    + change (blen (resp_bytes (FErr m_boom))) with 8. lia.
    + rewrite resp_bytes_state, blen_app. change (blen s_STATE_sp) with 6. destruct Gc. lia.
  - (* METRICS *)
    exists q. cbn [fst snd]. fin4.
    change (blen (resp_bytes (FText s_METRICS))) with 7. lia.
  - (* command errors *)
    exists q. cbn [fst snd]. rewrite is_err_err. fin4.
    rewrite resp_bytes_err, blen_app. change (blen s_ERR_sp) with 4.
    lia.
Qed.

Lemma check_sim fs : forall c q tl extra, sim c q -> ctl_ok c -> Forall wf fs ->
  check q tl fs (map resp_bytes (responses_from c fs) ++ extra) = tail_ok tl extra /\
  Forall (fun r => blen (resp_bytes r) < two32) (responses_from c fs).
Proof.
  induction fs as [|f fs IH]; intros c q tl extra HR Hok Hwf.
  - split; [reflexivity|constructor].
  - inversion Hwf as [|? ? Hf Hfs]; subst. rewrite responses_from_cons. cbn [map app check].
    destruct (step_sim c q f HR Hok Hf) as (q' & E1 & HR' & Hok' & Hb). rewrite E1.
    destruct (IH _ q' tl extra HR' Hok' Hfs) as [E2 F2].
    split; [exact E2|]. constructor; [|exact F2]. pose proof max_frame_small. lia.
Qed.

(* ------------------------------------------------------------------ acceptance *)
Lemma c24_ok_core fs tl (extra : list fresp) :
  Forall wf fs -> incomplete tl ->
  Forall (fun r => blen (resp_bytes r) < two32) extra ->
  tail_ok tl (map resp_bytes extra) = true ->
  c24_ok (enc_frames fs ++ tl) (enc_resps (responses fs) ++ enc_resps extra) = true.
Proof.
  intros Hwf Hinc Hex Htail. unfold c24_ok. rewrite split_frames_enc by assumption.
  destruct (check_sim fs ctl0 ctl0 tl (map resp_bytes extra) (fun _ => eq_refl) ctl_ok0 Hwf) as [Hc Hsm].
  fold (responses fs) in Hc, Hsm.
  rewrite !enc_resps_frames, <- enc_frames_app, <- map_app.
  rewrite <- (app_nil_r (enc_frames _)).
  rewrite split_frames_enc.
  - rewrite map_body_resp_frame, map_app. now rewrite Hc.
  - apply Forall_map. apply Forall_app. split.
    + eapply Forall_impl; [|exact Hsm]. intros r. apply resp_frame_wf.
    + eapply Forall_impl; [|exact Hex]. intros r. apply resp_frame_wf.
  - exact I.
Qed.

Lemma existsb_over_false fs : existsb (fun f => max_frame_len <? f_len f) fs = false ->
  Forall (fun f => f_len f <= max_frame_len) fs.
Proof.
  induction fs as [|f fs IH]; intros H; [constructor|].
  cbn [existsb] in H. apply orb_false_iff in H. destruct H as [H1 H2].
  constructor; [lia|now apply IH].
Qed.

(* the code with the refused body discarded: accepted on every byte stream *)
Theorem accepted_fixed inp : bytes inp -> c24_ok inp (serve_fixed inp) = true.
Proof.
  intros Hb. destruct (split_frames inp) as [fs tl] eqn:E.
  apply split_frames_spec in E; [|exact Hb]. destruct E as (-> & Hwf & Hinc).
  unfold serve_fixed, serve_gen. rewrite serve_from_frames; [|exact Hwf|discriminate].
  rewrite serve_from_incomplete_fixed by exact Hinc. fold (responses fs).
  destruct (tail_oversize tl) eqn:Eo.
  - change (enc_resp (FErr m_len)) with (enc_resps [FErr m_len]).
    apply c24_ok_core; try assumption.
    + constructor; [now vm_compute|constructor].
    + cbn [map tail_ok]. now rewrite Eo.
  - change (@nil N) with (enc_resps []). apply c24_ok_core; try assumption; [constructor|reflexivity].
Qed.

(* the code as it stands: accepted on every byte stream in which no header announces more
   than MAX_FRAME_LEN bytes *)
Theorem accepted_v0_outside_known inp : bytes inp -> c24_known inp = false ->
  c24_ok inp (serve_v0 inp) = true.
Proof.
  intros Hb Hk. unfold c24_known in Hk. destruct (split_frames inp) as [fs tl] eqn:E.
  apply orb_false_iff in Hk. destruct Hk as [Hk1 Hk2].
  apply split_frames_spec in E; [|exact Hb]. destruct E as (-> & Hwf & Hinc).
  unfold serve_v0, serve_gen. rewrite serve_from_frames; [|exact Hwf|intros _; now apply existsb_over_false].
  rewrite serve_from_incomplete_v0 by assumption. fold (responses fs).
  change (@nil N) with (enc_resps []). apply c24_ok_core; try assumption; [constructor|reflexivity].
Qed.

(* ------------------------------------------------------------------ invariant of the mock's queues *)
Lemma ctl_ok_after fs : forall c, ctl_ok c -> Forall wf fs -> ctl_ok (ctl_after c fs).
Proof.
  induction fs as [|f fs IH]; intros c Hok Hwf; [exact Hok|].
  inversion Hwf as [|? ? Hf Hfs]; subst. cbn [ctl_after]. apply IH; [|exact Hfs].
  destruct (step_sim c c f (fun _ => eq_refl) Hok Hf) as (_ & _ & _ & H & _). exact H.
Qed.

(* every payload the controller ever holds is the UTF-8 encoding of a string: the
   replacement branch of from_utf8_lossy (model: [lossy]) is never taken *)
Theorem queued_payloads_valid fs t x : forallb frame_wfb fs = true ->
  In x (ctl_queue (ctl_after ctl0 fs) t) ->
  exists p, scalars p /\ x = utf8_encode p /\ lossy x = p /\ blen x <= max_frame_len.
Proof.
  intros Hwf Hin. apply forallb_wf in Hwf.
  destruct (ctl_ok_after fs ctl0 ctl_ok0 Hwf t x Hin) as (p & Hp & -> & Hb).
  exists p. repeat split; try assumption. unfold lossy. now rewrite utf8_decode_encode.
Qed.

(* ------------------------------------------------------------------ round trip on the wire *)
Lemma responses_from_app a : forall c b,
  responses_from c (a ++ b) = responses_from c a ++ responses_from (ctl_after c a) b.
Proof.
  induction a as [|f a IH]; intros c b; [reflexivity|].
  cbn [app]. rewrite !responses_from_cons. cbn [ctl_after app]. now rewrite IH.
Qed.

Theorem roundtrip_stream d pre t p :
  forallb frame_wfb pre = true -> (d = false -> forallb in_range pre = true) ->
  c24_rt_ok t p = true -> ctl_queue (ctl_after ctl0 pre) t = [] ->
  serve_gen d (enc_frames (pre ++ [text_frame (put_line t p); text_frame (get_line t)])) =
  enc_resps (responses pre ++ [FOk; FData (trim_end p)]).
Proof.
  intros Hwf Hin Hok Hq.
  destruct (roundtrip_state (ctl_after ctl0 pre) t p Hok Hq) as (R1 & R2 & _ & W1 & W2 & I1 & I2).
  cbv zeta in *. unfold serve_gen. rewrite <- (app_nil_r (enc_frames _)).
  rewrite serve_from_frames.
  - rewrite serve_from_nil, app_nil_r. f_equal. unfold responses. rewrite responses_from_app. f_equal.
    rewrite !responses_from_cons. cbn [responses_from]. now rewrite R1, R2.
  - apply Forall_app. split; [now apply forallb_wf|]. constructor; [exact W1|constructor; [exact W2|constructor]].
  - intros E. apply Forall_app. split; [now apply forallb_in_range, Hin|].
    unfold in_range in I1, I2. constructor; [lia|constructor; [lia|constructor]].
Qed.

Corollary roundtrip_stream_identical d pre t p :
  forallb frame_wfb pre = true -> (d = false -> forallb in_range pre = true) ->
  c24_rt_ok t p = true -> str_eqb (trim_end p) p = true -> ctl_queue (ctl_after ctl0 pre) t = [] ->
  serve_gen d (enc_frames (pre ++ [text_frame (put_line t p); text_frame (get_line t)])) =
  enc_resps (responses pre ++ [FOk; FData p]).
Proof.
  intros Hwf Hin Hok Ht Hq. apply str_eqb_eq in Ht. rewrite <- Ht at 2. now apply roundtrip_stream.
Qed.

(* ------------------------------------------------------------------ finding D12 *)
(* a refused frame (announces MAX_FRAME_LEN+1 bytes and carries exactly that many) whose body
   starts with the frames "PUT t smug" and "GET t"; the rest of the body is a header
   announcing MAX_FRAME_LEN bytes followed by fewer zero bytes (so that the loop of the
   unfixed code stops there) *)
Definition d12_topic : str := [116].
Definition d12_payload : str := [115; 109; 117; 103].
Definition d12_inner : list N :=
  enc_frame (text_frame (put_line d12_topic d12_payload)) ++ enc_frame (text_frame (get_line d12_topic)).
Definition d12_frame : frame :=
  let n := max_frame_len + 1 in
  {| f_len := n;
     f_body := d12_inner ++ le32 max_frame_len ++ repeat 0 (N.to_nat (n - blen d12_inner - 4)) |}.

Theorem d12_witness :
  frame_wfb d12_frame = true /\
  responses [d12_frame] = [FErr m_len] /\
  serve_fixed (enc_frames [d12_frame]) = enc_resps [FErr m_len] /\
  serve_v0 (enc_frames [d12_frame]) = enc_resps [FErr m_len; FOk; FData d12_payload] /\
  c24_known (enc_frames [d12_frame]) = true /\
  c24_ok (enc_frames [d12_frame]) (serve_v0 (enc_frames [d12_frame])) = false.
Proof. repeat split; vm_compute; reflexivity. Qed.

Theorem refuted_oversize : exists fs, forallb frame_wfb fs = true /\
  serve_v0 (enc_frames fs) <> enc_resps (responses fs) /\
  c24_ok (enc_frames fs) (serve_v0 (enc_frames fs)) = false.
Proof.
  exists [d12_frame]. destruct d12_witness as (H1 & H2 & _ & H4 & _ & H6).
  split; [cbn [forallb]; now rewrite H1|]. split; [|exact H6].
  rewrite H4, H2. intros E. apply (f_equal (@length N)) in E. vm_compute in E. discriminate E.
Qed.

Lemma bytes_of_forallb l : forallb (fun b => b <? 256) l = true -> bytes l.
Proof.
  intros H. apply Forall_forall. intros x Hx. rewrite forallb_forall in H. specialize (H x Hx). lia.
Qed.

(* the acceptor's statement over all byte streams is false for the code as it stands *)
Theorem full_refuted : ~ (forall inp : list N, bytes inp -> c24_ok inp (serve_v0 inp) = true).
Proof.
  intros H. destruct d12_witness as (_ & _ & _ & _ & _ & H6).
  assert (Hb : bytes (enc_frames [d12_frame])) by (apply bytes_of_forallb; vm_compute; reflexivity).
  specialize (H _ Hb). rewrite H6 in H. discriminate H.
Qed.
