(* EngineInv.v — the per-topic invariant of model/Engine.v and the abstraction to the
   queue spec: [stream] (everything appended) and [unread] (what the cursor has not passed). *)
From W Require Import model.Base model.Engine proofs.EngineWF.
From Coq Require Import ZArith ZifyBool ZifyN ZifyNat.

Definition chain_ents (ch : list blk) : list entry := flat_map b_ents ch.
Definition w_ents (ts : tstate) : list entry := match ts_writer ts with Some w => b_ents w | None => [] end.
Definition w_list (ts : tstate) : list blk := match ts_writer ts with Some w => [w] | None => [] end.
Definition chain_of (ts : tstate) : list blk := r_chain (reader_of ts).

Definition stream (ts : tstate) : list entry := chain_ents (chain_of ts) ++ w_ents ts.

Definition tail_start (ts : tstate) (w : blk) : N :=
  if r_tail_bid (reader_of ts) =? b_id w then r_tail_off (reader_of ts) else 0.

(* what the consumer has not been handed yet *)
Definition unread (c : Cfg) (ts : tstate) : list entry :=
  let r := reader_of ts in
  match skipn (r_idx r) (r_chain r) with
  | b :: rest => ents_from c (b_ents b) (r_off r) ++ chain_ents rest ++ w_ents ts
  | [] => match ts_writer ts with
          | Some w => ents_from c (b_ents w) (tail_start ts w)
          | None => []
          end
  end.

Definition bwf (c : Cfg) (b : blk) : Prop :=
  b_used b = sum_need c (b_ents b) /\ b_used b <= b_limit b /\ b_limit b <= u64_max.

Definition cnt (ts : tstate) : N := match ts_count ts with Some n => n | None => 0 end.

Record TInv (c : Cfg) (nid : N) (ts : tstate) : Prop := {
  ti_poison : ts_poisoned ts = false;
  ti_unm : ts_unmodelled ts = false;
  ti_chain : Forall (bwf c) (chain_of ts);
  ti_writer : Forall (bwf c) (w_list ts);
  ti_nodup : NoDup (map b_id (chain_of ts ++ w_list ts));
  ti_ids : Forall (fun b => 0 < b_id b < nid) (chain_of ts ++ w_list ts);
  ti_tail_lt : r_tail_bid (reader_of ts) < nid;
  ti_idx : (r_idx (reader_of ts) <= length (chain_of ts))%nat;
  ti_end : r_idx (reader_of ts) = length (chain_of ts) -> r_off (reader_of ts) = 0;
  ti_cur : forall b, nth_error (chain_of ts) (r_idx (reader_of ts)) = Some b ->
           okoff c (b_ents b) (r_off (reader_of ts));
  ti_sealed_tail : (r_idx (reader_of ts) < length (chain_of ts))%nat ->
                   forall w, ts_writer ts = Some w -> r_tail_bid (reader_of ts) <> b_id w;
  ti_tail : forall w, ts_writer ts = Some w -> okoff c (b_ents w) (tail_start ts w);
  ti_hyd : r_hydrated (reader_of ts) = false -> ts_index ts = None;
  ti_cnt : cnt ts = N.of_nat (length (unread c ts))
}.

Lemma TInv_mono c n n' ts : n <= n' -> TInv c n ts -> TInv c n' ts.
Proof.
  intros Hn [? ? ? ? ? Hi Ht ? ? ? ? ? ? ?]. constructor; auto; [|lia].
  eapply Forall_impl; [|exact Hi]. cbn. intros; lia.
Qed.

Lemma TInv0 c n : 0 < n -> TInv c n tstate0.
Proof.
  intros Hn.
  constructor; unfold chain_of, w_list, reader_of, unread, cnt, tail_start; cbn;
    try reflexivity; try (constructor; fail); try lia; try (intros; discriminate).
Qed.

(* ------------------------------------------------------------------ assoc-list state *)
Lemma get_set_same s t ts : get_ts (set_ts s t ts) t = ts.
Proof.
  unfold get_ts, set_ts. cbn [s_topics]. induction (s_topics s) as [|[k v] l IH]; cbn.
  - now rewrite N.eqb_refl.
  - destruct (k =? t) eqn:E; cbn; [now rewrite N.eqb_refl|]. rewrite E. exact IH.
Qed.

Lemma get_set_other s t t' ts : t' <> t -> get_ts (set_ts s t ts) t' = get_ts s t'.
Proof.
  intros Hne. unfold get_ts, set_ts. cbn [s_topics]. induction (s_topics s) as [|[k v] l IH]; cbn.
  - replace (t =? t') with false by lia. reflexivity.
  - destruct (k =? t) eqn:E; cbn.
    + replace (t =? t') with false by lia. replace (k =? t') with false by lia. reflexivity.
    + destruct (k =? t'); [reflexivity|exact IH].
Qed.

(* ------------------------------------------------------------------ the sealed walk *)
Lemma chain_ents_app a b : chain_ents (a ++ b) = chain_ents a ++ chain_ents b.
Proof. unfold chain_ents. apply flat_map_app. Qed.

(* rn_walk only passes exhausted blocks: what is unread from the cursor does not change *)
Lemma rn_walk_spec c (Hh : 0 < c_hdr c) : forall rest idx off,
  Forall (bwf c) rest ->
  (forall b r, rest = b :: r -> okoff c (b_ents b) off) ->
  (rest = [] -> off = 0) ->
  let '(i, o, hit) := rn_walk rest idx off in
  match hit with
  | Some b => exists pre r', rest = pre ++ b :: r' /\ i = (idx + length pre)%nat /\
                             okoff c (b_ents b) o /\ o < b_used b /\
                             (match rest with
                              | b0 :: r0 => ents_from c (b_ents b0) off ++ chain_ents r0
                              | [] => [] end) = ents_from c (b_ents b) o ++ chain_ents r'
  | None => i = (idx + length rest)%nat /\ o = 0 /\
            (match rest with
             | b0 :: r0 => ents_from c (b_ents b0) off ++ chain_ents r0
             | [] => [] end) = []
  end.
Proof.
  induction rest as [|b rest IH]; intros idx off Hwf Hcur Hnil; cbn [rn_walk].
  - repeat split; [cbn; lia | now apply Hnil].
  - inversion Hwf as [|x l Hb Hrest]; subst.
    pose proof (Hcur b rest eq_refl) as Hok.
    destruct Hb as (Hu & _ & _).
    destruct (b_used b <=? off) eqn:E.
    + (* exhausted: this block contributes nothing *)
      assert (He : ents_from c (b_ents b) off = []) by (apply ents_from_end; [exact Hh|lia]).
      specialize (IH (S idx) 0 Hrest).
      assert (H1 : forall b0 r, rest = b0 :: r -> okoff c (b_ents b0) 0) by (intros; apply okoff_0).
      specialize (IH H1 (fun _ => eq_refl)).
      destruct (rn_walk rest (S idx) 0) as [[i o] hit].
      destruct hit as [bh|].
      * destruct IH as (pre & r' & Hr & Hi & Hoo & Hlt & Heq).
        exists (b :: pre), r'. repeat split; auto.
        -- now rewrite Hr.
        -- cbn [length]. lia.
        -- rewrite He. cbn [app]. rewrite <- Heq. destruct rest as [|b1 r1]; cbn.
           ++ reflexivity.
           ++ now rewrite ents_from_0.
      * destruct IH as (Hi & Ho & Heq). repeat split; [cbn [length]; lia|exact Ho|].
        rewrite He. cbn [app]. destruct rest as [|b1 r1]; cbn in *; [reflexivity|].
        now rewrite ents_from_0 in Heq.
    + exists [], rest. repeat split; cbn; auto; lia.
Qed.

(* ------------------------------------------------------------------ rebuilding TInv after a read *)
Definition mk_ts (ts : tstate) (r' : reader) (cnt' : option N) (idx' : option ppos) : tstate :=
  {| ts_reader := Some r'; ts_writer := ts_writer ts; ts_poisoned := ts_poisoned ts; ts_count := cnt';
     ts_index := idx'; ts_unmodelled := ts_unmodelled ts |}.

Lemma TInv_reader c nid ts r' cnt' idx' :
  TInv c nid ts ->
  r_chain r' = chain_of ts ->
  r_tail_bid r' < nid ->
  (r_idx r' <= length (chain_of ts))%nat ->
  (r_idx r' = length (chain_of ts) -> r_off r' = 0) ->
  (forall b, nth_error (chain_of ts) (r_idx r') = Some b -> okoff c (b_ents b) (r_off r')) ->
  ((r_idx r' < length (chain_of ts))%nat -> forall w, ts_writer ts = Some w -> r_tail_bid r' <> b_id w) ->
  (forall w, ts_writer ts = Some w ->
             okoff c (b_ents w) (if r_tail_bid r' =? b_id w then r_tail_off r' else 0)) ->
  r_hydrated r' = true ->
  (match cnt' with Some n => n | None => 0 end) = N.of_nat (length (unread c (mk_ts ts r' cnt' idx'))) ->
  TInv c nid (mk_ts ts r' cnt' idx').
Proof.
  intros [Hp Hu Hch Hw Hnd Hids Htl Hidx Hend Hcur Hst Htail Hhyd Hcnt] Hc1 Hc2 Hc3 Hc4 Hc5 Hc6 Hc7 Hc8 Hc9.
  constructor; unfold chain_of, w_list, tail_start, cnt, mk_ts in *; cbn [reader_of ts_reader ts_writer ts_poisoned ts_unmodelled ts_count ts_index] in *;
    try rewrite Hc1; auto.
  intros Hf. rewrite Hc8 in Hf. discriminate.
Qed.

Lemma skipn_add {A} (l : list A) a b : skipn (a + b) l = skipn b (skipn a l).
Proof. revert l; induction a as [|a IH]; intros l; cbn; [reflexivity|]. destruct l; [now rewrite skipn_nil|apply IH]. Qed.

Lemma skipn_app_len {A} (pre : list A) x r : skipn (length pre) (pre ++ x :: r) = x :: r.
Proof. induction pre; cbn; auto. Qed.

Lemma nth_error_skipn {A} (l : list A) i x r : skipn i l = x :: r -> nth_error l i = Some x.
Proof. revert l; induction i as [|i IH]; intros l H; destruct l; cbn in *; try discriminate; [now inversion H|now apply IH]. Qed.

Lemma skipn_nth_error {A} (l : list A) i x : nth_error l i = Some x -> exists r, skipn i l = x :: r.
Proof. revert l; induction i as [|i IH]; intros l H; destruct l; cbn in *; try discriminate; [inversion H; eauto|now apply IH]. Qed.

Lemma skipn_len_lt {A} (l : list A) i x r : skipn i l = x :: r -> (i < length l)%nat.
Proof. intros H. apply nth_error_skipn in H. apply nth_error_Some. congruence. Qed.

Lemma skipn_nil_ge {A} (l : list A) i : skipn i l = [] -> (length l <= i)%nat.
Proof. revert l; induction i as [|i IH]; intros l H; destruct l; cbn in *; try discriminate; try lia. apply IH in H. lia. Qed.

(* hydration in a process whose index was only written by already hydrated readers *)
Lemma hydrate_fresh r idx b : (r_hydrated r = false -> idx = None) ->
  exists r', hydrate r idx b = (r', None) /\ r_chain r' = r_chain r /\ r_idx r' = r_idx r /\ r_off r' = r_off r /\
             r_tail_bid r' = r_tail_bid r /\ r_tail_off r' = r_tail_off r /\ r_since r' = r_since r /\ r_hydrated r' = true.
Proof.
  intros H. unfold hydrate. destruct (r_hydrated r) eqn:E.
  - exists r. repeat split; auto.
  - rewrite (H eq_refl). exists (set_hydrated r). repeat split.
Qed.

Lemma nth_error_len_none {A} (l : list A) x : nth_error l (length l) = Some x -> False.
Proof. intros H. assert (nth_error l (length l) = None) by (apply nth_error_None; lia). congruence. Qed.

Lemma should_persist_fields m r f :
  let '(r', p) := should_persist m r f in
  r_chain r' = r_chain r /\ r_idx r' = r_idx r /\ r_off r' = r_off r /\ r_tail_bid r' = r_tail_bid r /\
  r_tail_off r' = r_tail_off r /\ r_hydrated r' = r_hydrated r.
Proof.
  unfold should_persist. destruct m as [|n]; [repeat split|].
  destruct f; [repeat split|]. destruct (N.max n 1 <=? _); repeat split.
Qed.

Lemma Forall_skipn {A} (P : A -> Prop) l n : Forall P l -> Forall P (skipn n l).
Proof. revert l; induction n as [|n IH]; intros l H; cbn; [exact H|]. destruct l; [constructor|]. inversion H; auto. Qed.

(* unread, computed from an updated reader *)
Lemma unread_mk c ts r' cnt' idx' :
  unread c (mk_ts ts r' cnt' idx') =
  match skipn (r_idx r') (r_chain r') with
  | b :: rest => ents_from c (b_ents b) (r_off r') ++ chain_ents rest ++ w_ents ts
  | [] => match ts_writer ts with
          | Some w => ents_from c (b_ents w) (if r_tail_bid r' =? b_id w then r_tail_off r' else 0)
          | None => []
          end
  end.
Proof. reflexivity. Qed.

Lemma stream_mk ts r' cnt' idx' : r_chain r' = chain_of ts -> stream (mk_ts ts r' cnt' idx') = stream ts.
Proof. intros H. unfold stream, chain_of, mk_ts, w_ents in *. cbn. now rewrite H. Qed.

Lemma read_next_spec c m s t ck nid : cfg_ok c ->
  TInv c nid (get_ts s (t_id t)) ->
  exists ts' res, read_next c m s t ck = (set_ts s (t_id t) ts', res) /\
    TInv c nid ts' /\ stream ts' = stream (get_ts s (t_id t)) /\ ts_writer ts' = ts_writer (get_ts s (t_id t)) /\
    match unread c (get_ts s (t_id t)) with
    | [] => res = RNone /\ unread c ts' = []
    | e :: rest => res = REntry (out_of e) /\ unread c ts' = (if ck then rest else e :: rest)
    end.
Proof.
  intros (Hh & Hcfg) Hinv. set (ts := get_ts s (t_id t)) in *.
  pose proof Hinv as [Hp Hu Hch Hw Hnd Hids Htl Hidx Hend Hcur Hst Htail Hhyd Hcnt].
  unfold read_next. fold ts.
  destruct (hydrate_fresh (reader_of ts) (ts_index ts) false Hhyd) as (r1 & Hhy & E1 & E2 & E3 & E4 & E5 & E6 & E7).
  rewrite Hhy. rewrite E1, E2, E3.
  pose proof (rn_walk_spec c Hh (skipn (r_idx (reader_of ts)) (r_chain (reader_of ts))) (r_idx (reader_of ts)) (r_off (reader_of ts))) as Hwalk.
  assert (A1 : Forall (bwf c) (skipn (r_idx (reader_of ts)) (r_chain (reader_of ts)))) by (apply Forall_skipn; exact Hch).
  assert (A2 : forall b r, skipn (r_idx (reader_of ts)) (r_chain (reader_of ts)) = b :: r -> okoff c (b_ents b) (r_off (reader_of ts))).
  { intros b r Hs. apply Hcur. unfold chain_of. eapply nth_error_skipn; eauto. }
  assert (A3 : skipn (r_idx (reader_of ts)) (r_chain (reader_of ts)) = [] -> r_off (reader_of ts) = 0).
  { intros Hs. apply Hend. apply skipn_nil_ge in Hs. unfold chain_of in *. lia. }
  specialize (Hwalk A1 A2 A3).
  destruct (rn_walk _ _ _) as [[i o] hit].
  (* the unread list in terms of the walk's input *)
  assert (Hun : unread c ts = (match skipn (r_idx (reader_of ts)) (r_chain (reader_of ts)) with
                               | b0 :: r0 => ents_from c (b_ents b0) (r_off (reader_of ts)) ++ chain_ents r0 ++ w_ents ts
                               | [] => match ts_writer ts with Some w => ents_from c (b_ents w) (tail_start ts w) | None => [] end
                               end)) by reflexivity.
  destruct hit as [b|].
  - (* an unread entry in the sealed chain *)
    destruct Hwalk as (pre & r' & Hrest & Hi & Hok & Hlt & Heq).
    assert (Hsk : skipn i (r_chain r1) = b :: r').
    { rewrite E1, Hi, skipn_add, Hrest. apply skipn_app_len. }
    assert (Hilt : (i < length (chain_of ts))%nat) by (unfold chain_of; rewrite <- E1; eapply skipn_len_lt; eauto).
    assert (Hbwf : bwf c b).
    { eapply Forall_forall; [exact Hch|]. unfold chain_of. rewrite <- E1. eapply nth_error_In, nth_error_skipn; eauto. }
    destruct Hbwf as (Hbu & _).
    assert (Hne : ents_from c (b_ents b) o <> []) by (apply okoff_nonempty; [exact Hok|lia]).
    destruct (ents_from c (b_ents b) o) as [|e re] eqn:Eef; [congruence|].
    assert (Hunread : unread c ts = e :: re ++ chain_ents r' ++ w_ents ts).
    { rewrite Hun. destruct (skipn (r_idx (reader_of ts)) (r_chain (reader_of ts))) as [|b0 r0] eqn:Es.
      - destruct pre; discriminate.
      - rewrite app_assoc, Heq, <- app_assoc. reflexivity. }
    rewrite Hunread.
    unfold block_read. rewrite (ents_from_view c _ _ _ _ Eef).
    destruct ck.
    + (* consuming *)
      pose proof (should_persist_fields m (set_cur (set_cur r1 i o) i (o + need c e)) false) as Hsp.
      destruct (should_persist m _ false) as [r5 p]. cbn [set_cur r_chain r_idx r_off r_tail_bid r_tail_off r_hydrated] in Hsp.
      destruct Hsp as (F1 & F2 & F3 & F4 & F5 & F6).
      set (idx' := if p then Some {| p_tail := false; p_a := N.of_nat i; p_off := o + need c e |} else ts_index ts).
      exists (mk_ts ts r5 (Some (cnt ts - 1)) idx'), (REntry (out_of e)).
      assert (Hur : unread c (mk_ts ts r5 (Some (cnt ts - 1)) idx') = re ++ chain_ents r' ++ w_ents ts).
      { rewrite unread_mk, F1, F2, F3, Hsk. now rewrite (ents_from_step c Hh _ _ _ _ Eef). }
      split; [|split; [|split; [|split; [|split]]]].
      * f_equal. f_equal. unfold idx', mk_ts, count_sub, persist, with_index, with_reader, cnt, sat_sub. destruct p; cbn; reflexivity.
      * apply TInv_reader; auto.
        -- now rewrite F1, E1.
        -- now rewrite F4, E4.
        -- rewrite F2. lia.
        -- rewrite F2. lia.
        -- rewrite F2, F3. intros b' Hb'. unfold chain_of in Hb'. rewrite <- E1 in Hb'.
           rewrite (nth_error_skipn _ _ _ _ Hsk) in Hb'. inversion Hb'; subst b'.
           eapply okoff_step; eauto.
        -- rewrite F4, E4. intros _. apply Hst.
           (* the cursor was already inside the sealed chain, or the walk found a block there *)
           destruct (Nat.lt_ge_cases (r_idx (reader_of ts)) (length (chain_of ts))) as [Hl|Hg]; [exact Hl|].
           exfalso. assert (skipn (r_idx (reader_of ts)) (r_chain (reader_of ts)) = []) as Hn by (apply skipn_all2; exact Hg).
           rewrite Hn in Hrest. destruct pre; discriminate.
        -- rewrite F4, F5, E4, E5. exact Htail.
        -- now rewrite F6, E7.
        -- rewrite Hur. rewrite Hcnt, Hunread. cbn [length]. lia.
      * apply stream_mk. now rewrite F1, E1.
      * reflexivity.
      * reflexivity.
      * exact Hur.
    + (* peek: only the walk's advance is kept *)
      exists (mk_ts ts (set_cur r1 i o) (ts_count ts) (ts_index ts)), (REntry (out_of e)).
      assert (Hur : unread c (mk_ts ts (set_cur r1 i o) (ts_count ts) (ts_index ts)) = e :: re ++ chain_ents r' ++ w_ents ts).
      { rewrite unread_mk. cbn [set_cur r_chain r_idx r_off]. rewrite Hsk, Eef. reflexivity. }
      split; [|split; [|split; [|split; [|split]]]].
      * reflexivity.
      * apply TInv_reader; auto; cbn [set_cur r_chain r_idx r_off r_tail_bid r_tail_off r_hydrated].
        -- now rewrite E4.
        -- lia.
        -- lia.
        -- intros b' Hb'. unfold chain_of in Hb'. rewrite <- E1 in Hb'.
           rewrite (nth_error_skipn _ _ _ _ Hsk) in Hb'. inversion Hb'; subst b'. exact Hok.
        -- rewrite E4. intros _. apply Hst.
           destruct (Nat.lt_ge_cases (r_idx (reader_of ts)) (length (chain_of ts))) as [Hl|Hg]; [exact Hl|].
           exfalso. assert (skipn (r_idx (reader_of ts)) (r_chain (reader_of ts)) = []) as Hn by (apply skipn_all2; exact Hg).
           rewrite Hn in Hrest. destruct pre; discriminate.
        -- rewrite E4, E5. exact Htail.
        -- rewrite Hur. fold (cnt ts). rewrite Hcnt, Hunread. reflexivity.
      * apply stream_mk. cbn. exact E1.
      * reflexivity.
      * reflexivity.
      * exact Hur.
  - (* the sealed chain is exhausted: tail path *)
    destruct Hwalk as (Hi & Ho & Heq). subst o.
    assert (Hilen : i = length (chain_of ts)).
    { unfold chain_of in *. rewrite Hi, skipn_length. lia. }
    assert (Hsk : skipn i (r_chain r1) = []) by (rewrite E1, Hilen; apply skipn_all).
    (* start offset in the writer block, and what is unread, in both sub-cases *)
    assert (Hstart : forall w, ts_writer ts = Some w ->
              unread c ts = ents_from c (b_ents w) (if r_tail_bid (reader_of ts) =? b_id w then r_tail_off (reader_of ts) else 0) /\
              okoff c (b_ents w) (if r_tail_bid (reader_of ts) =? b_id w then r_tail_off (reader_of ts) else 0)).
    { intros w Hw'. split; [|exact (Htail w Hw')].
      rewrite Hun. destruct (skipn (r_idx (reader_of ts)) (r_chain (reader_of ts))) as [|b0 r0] eqn:Es.
      - rewrite Hw'. reflexivity.
      - rewrite app_assoc, Heq. cbn [app]. unfold w_ents. rewrite Hw'.
        assert (Hl : (r_idx (reader_of ts) < length (chain_of ts))%nat) by (eapply skipn_len_lt; eauto).
        pose proof (Hst Hl w Hw') as Hneq.
        replace (r_tail_bid (reader_of ts) =? b_id w) with false by lia. now rewrite ents_from_0. }
    destruct (ts_writer ts) as [w|] eqn:Ew.
    + rewrite Hp. destruct (Hstart w eq_refl) as (Hunread & Hokw).
      cbn [set_cur r_tail_bid r_tail_off]. rewrite E4, E5.
      set (start := if r_tail_bid (reader_of ts) =? b_id w then r_tail_off (reader_of ts) else 0) in *.
      assert (Hwwf : bwf c w) by (unfold w_list in Hw; rewrite Ew in Hw; inversion Hw; assumption).
      destruct Hwwf as (Hwu & _).
      assert (Hwid : 0 < b_id w < nid).
      { eapply Forall_forall in Hids; [exact Hids|]. apply in_or_app. right. unfold w_list. rewrite Ew. left. reflexivity. }
      (* the provisional persist changes only the index and the ALO counter *)
      set (pr := if ck && (start =? 0) && (0 <? b_used w)
                 then let '(r', p) := should_persist m (set_cur r1 i 0) true in
                      (r', if p then persist ts true (b_id w) start else ts)
                 else (set_cur r1 i 0, ts)).
      assert (Hr4 : r_chain (fst pr) = r_chain r1 /\ r_idx (fst pr) = i /\ r_off (fst pr) = 0 /\
                    r_tail_bid (fst pr) = r_tail_bid r1 /\ r_tail_off (fst pr) = r_tail_off r1 /\ r_hydrated (fst pr) = true).
      { unfold pr. destruct (ck && (start =? 0) && (0 <? b_used w)).
        - pose proof (should_persist_fields m (set_cur r1 i 0) true) as Hsp.
          destruct (should_persist m (set_cur r1 i 0) true) as [r' p]. cbn [fst]. cbn in Hsp. destruct Hsp as (G1 & G2 & G3 & G4 & G5 & G6).
          repeat split; auto. now rewrite G6.
        - cbn. repeat split; auto. }
      assert (Hts1 : ts_writer (snd pr) = Some w /\ ts_poisoned (snd pr) = false /\ ts_unmodelled (snd pr) = false /\
                     ts_count (snd pr) = ts_count ts /\ (ts_reader (snd pr) = ts_reader ts)).
      { unfold pr. destruct (ck && (start =? 0) && (0 <? b_used w));
          [destruct (should_persist m (set_cur r1 i 0) true) as [r' p]; destruct p|]; cbn; repeat split; auto. }
      fold pr. destruct pr as [r4 ts1]. cbn [fst snd] in Hr4, Hts1.
      destruct Hr4 as (G1 & G2 & G3 & G4 & G5 & G6). destruct Hts1 as (T1 & T2 & T3 & T4 & T5).
      destruct (start <? b_used w) eqn:Elt.
      * assert (Hne : ents_from c (b_ents w) start <> []) by (apply okoff_nonempty; [exact Hokw|lia]).
        destruct (ents_from c (b_ents w) start) as [|e re] eqn:Eef; [congruence|].
        rewrite Hunread. unfold block_read. rewrite (ents_from_view c _ _ _ _ Eef).
        destruct ck.
        -- pose proof (should_persist_fields m (set_tail r4 (b_id w) (start + need c e)) false) as Hsp.
           destruct (should_persist m _ false) as [r6 p]. cbn [set_tail r_chain r_idx r_off r_tail_bid r_tail_off r_hydrated] in Hsp.
           destruct Hsp as (F1 & F2 & F3 & F4 & F5 & F6).
           set (idx' := if p then Some {| p_tail := true; p_a := b_id w; p_off := start + need c e |} else ts_index ts1).
           exists (mk_ts ts r6 (Some (cnt ts - 1)) idx'), (REntry (out_of e)).
           assert (Hur : unread c (mk_ts ts r6 (Some (cnt ts - 1)) idx') = re).
           { rewrite unread_mk, F1, F2, G1, G2, Hsk, Ew, F4, F5, N.eqb_refl. now rewrite (ents_from_step c Hh _ _ _ _ Eef). }
           split; [|split; [|split; [|split; [|split]]]].
           ++ f_equal. f_equal. unfold idx', mk_ts, count_sub, persist, with_index, with_reader, cnt, sat_sub.
              rewrite T1, T2, T3, T4. destruct p; cbn; rewrite ?Ew, ?Hp, ?Hu; reflexivity.
           ++ apply TInv_reader; auto.
              ** now rewrite F1, G1, E1.
              ** rewrite F4. lia.
              ** rewrite F2, G2. lia.
              ** rewrite F3, G3. reflexivity.
              ** rewrite F2, G2, Hilen. intros b' Hb'. exfalso. eapply nth_error_len_none; eauto.
              ** rewrite F2, G2. lia.
              ** rewrite F4, F5, Ew. intros w' Hw'. inversion Hw'; subst w'. rewrite N.eqb_refl. eapply okoff_step; eauto.
              ** now rewrite F6.
              ** rewrite Hur, Hcnt, Hunread. cbn [length]. lia.
           ++ apply stream_mk. now rewrite F1, G1, E1.
           ++ cbn. now rewrite Ew.
           ++ reflexivity.
           ++ exact Hur.
        -- (* peek *)
           cbn [andb] in *.
           exists (mk_ts ts r4 (ts_count ts) (ts_index ts1)), (REntry (out_of e)).
           assert (Hur : unread c (mk_ts ts r4 (ts_count ts) (ts_index ts1)) = e :: re).
           { rewrite unread_mk, G1, G2, Hsk, Ew, G4, G5, E4, E5. fold start. exact Eef. }
           split; [|split; [|split; [|split; [|split]]]].
           ++ f_equal. f_equal. unfold mk_ts, with_reader. rewrite T1, T2, T3, T4, Ew, Hp, Hu. reflexivity.
           ++ apply TInv_reader; auto.
              ** now rewrite G1, E1.
              ** now rewrite G4, E4.
              ** rewrite G2. lia.
              ** rewrite G2, Hilen. intros b' Hb'. exfalso. eapply nth_error_len_none; eauto.
              ** rewrite G2. lia.
              ** rewrite G4, G5, E4, E5, Ew. exact Htail.
              ** rewrite Hur. fold (cnt ts). rewrite Hcnt, Hunread. reflexivity.
           ++ apply stream_mk. now rewrite G1, E1.
           ++ cbn. now rewrite Ew.
           ++ reflexivity.
           ++ exact Hur.
      * (* caught up *)
        assert (Hnil : ents_from c (b_ents w) start = []) by (apply ents_from_end; [exact Hh|lia]).
        rewrite Hunread, Hnil.
        exists (mk_ts ts r4 (ts_count ts) (ts_index ts1)), RNone.
        assert (Hur : unread c (mk_ts ts r4 (ts_count ts) (ts_index ts1)) = []).
        { rewrite unread_mk, G1, G2, Hsk, Ew, G4, G5, E4, E5. fold start. exact Hnil. }
        split; [|split; [|split; [|split; [|split]]]].
        -- f_equal. f_equal. unfold mk_ts, with_reader. rewrite T1, T2, T3, T4, Ew, Hp, Hu. reflexivity.
        -- apply TInv_reader; auto.
           ++ now rewrite G1, E1.
           ++ now rewrite G4, E4.
           ++ rewrite G2. lia.
           ++ rewrite G2, Hilen. intros b' Hb'. exfalso. eapply nth_error_len_none; eauto.
           ++ rewrite G2. lia.
           ++ rewrite G4, G5, E4, E5, Ew. exact Htail.
           ++ rewrite Hur. fold (cnt ts). rewrite Hcnt, Hunread, Hnil. reflexivity.
        -- apply stream_mk. now rewrite G1, E1.
        -- cbn. now rewrite Ew.
        -- reflexivity.
        -- exact Hur.
    + (* no writer yet *)
      assert (Hunread : unread c ts = []).
      { rewrite Hun. destruct (skipn (r_idx (reader_of ts)) (r_chain (reader_of ts))) as [|b0 r0] eqn:Es; [reflexivity|].
        rewrite app_assoc, Heq. unfold w_ents. now rewrite Ew. }
      rewrite Hunread.
      exists (mk_ts ts (set_cur r1 i 0) (ts_count ts) (ts_index ts)), RNone.
      assert (Hur : unread c (mk_ts ts (set_cur r1 i 0) (ts_count ts) (ts_index ts)) = []).
      { rewrite unread_mk. cbn [set_cur r_chain r_idx]. now rewrite Hsk, Ew. }
      split; [|split; [|split; [|split; [|split]]]].
      * unfold mk_ts, with_reader; rewrite ?Ew; reflexivity.
      * apply TInv_reader; auto; cbn [set_cur r_chain r_idx r_off r_tail_bid r_tail_off r_hydrated].
        -- now rewrite E4.
        -- lia.
        -- rewrite Hilen. intros b' Hb'. exfalso. eapply nth_error_len_none; eauto.
        -- lia.
        -- rewrite Ew. intros; discriminate.
        -- rewrite Hur. fold (cnt ts). now rewrite Hcnt, Hunread.
      * apply stream_mk. exact E1.
      * cbn. now rewrite Ew.
      * reflexivity.
      * exact Hur.
Qed.
