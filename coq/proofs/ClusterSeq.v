(* ClusterSeq.v — C22, positive theorem for the sequential system of ClusterSys.v:
   one node, operations that never overlap, every proposed command applied at once.
   For EVERY schedule the client-visible history is accepted by the FIFO-queue acceptor
   [c22_seq_ok] and is a well-formed sequential history [seq_hist].

   The proof is an invariant over the reachable states of [seq_step], generalised over the
   acceptor's queue and [seq_hist]'s (last, cur) state; see [Inv] below. *)
From Coq Require Import ZArith ZifyBool ZifyN ZifyNat.
From W Require Import model.Base model.Map model.Bincode model.Meta model.Cluster model.ClusterSys
  spec.StreamSpec proofs.MapP proofs.MetaP.
Open Scope N_scope.

(* ---------- lists ---------- *)
Fixpoint nrange (lo : N) (n : nat) : list N :=
  match n with O => [] | S k => lo :: nrange (lo + 1) k end.
Definition segs (c : N) : list N := nrange 1 (N.to_nat c).

Lemma in_nrange n : forall lo s, In s (nrange lo n) <-> lo <= s /\ s < lo + N.of_nat n.
Proof.
  induction n as [|n IH]; intros lo s; cbn [nrange In].
  - split; [tauto|lia].
  - rewrite IH. lia.
Qed.

Lemma nrange_app a : forall lo b, nrange lo (a + b) = nrange lo a ++ nrange (lo + N.of_nat a) b.
Proof.
  induction a as [|a IH]; intros lo b; cbn [nrange Nat.add app].
  - f_equal. lia.
  - rewrite IH. do 3 f_equal. lia.
Qed.

Lemma in_segs c s : In s (segs c) <-> 1 <= s /\ s <= c.
Proof. unfold segs. rewrite in_nrange. lia. Qed.

Lemma segs_succ c : segs (c + 1) = segs c ++ [c + 1].
Proof.
  unfold segs. replace (N.to_nat (c + 1)) with (N.to_nat c + 1)%nat by lia.
  rewrite nrange_app. cbn [nrange]. do 2 f_equal. lia.
Qed.

Lemma segs_split c k : 1 <= k -> k <= c ->
  segs c = segs (k - 1) ++ k :: nrange (k + 1) (N.to_nat (c - k)).
Proof.
  intros H1 H2. unfold segs.
  replace (N.to_nat c) with (N.to_nat (k - 1) + S (N.to_nat (c - k)))%nat by lia.
  rewrite nrange_app. cbn [nrange]. f_equal. f_equal; [lia|]. f_equal. lia.
Qed.

Lemma flat_map_ext_in {A B} (f g : A -> list B) l :
  (forall s, In s l -> f s = g s) -> flat_map f l = flat_map g l.
Proof.
  induction l as [|a l IH]; intros H; cbn [flat_map]; [reflexivity|].
  rewrite (H a) by (left; reflexivity). rewrite IH; [reflexivity|]. intros s Hs. apply H. now right.
Qed.

Lemma flat_map_nil {A B} (f : A -> list B) l :
  (forall s, In s l -> f s = []) -> flat_map f l = [].
Proof.
  induction l as [|a l IH]; intros H; cbn [flat_map]; [reflexivity|].
  rewrite (H a) by (left; reflexivity). rewrite IH; [reflexivity|]. intros s Hs. apply H. now right.
Qed.

Lemma nth_set_nth_same {A} (a : A) : forall l i c, nth_error l i = Some c -> nth_error (set_nth i a l) i = Some a.
Proof.
  induction l as [|y l IH]; intros [|i] c H; cbn in *; try discriminate; [reflexivity|]. eapply IH; eauto.
Qed.

Lemma nth_set_nth_other {A} (a : A) : forall l i j, j <> i -> nth_error (set_nth i a l) j = nth_error l j.
Proof.
  induction l as [|y l IH]; intros [|i] [|j] H; cbn; try reflexivity; try congruence.
  apply IH. congruence.
Qed.

(* ---------- node accessors under the with_* updates ---------- *)
Definition nlen {A} (l : list A) : N := N.of_nat (length l).
Lemma nlen_nil {A} : nlen (@nil A) = 0. Proof. reflexivity. Qed.
Lemma nlen_cons {A} (a : A) l : nlen (a :: l) = nlen l + 1. Proof. unfold nlen. cbn [length]. lia. Qed.
Lemma nlen_app {A} (a b : list A) : nlen (a ++ b) = nlen a + nlen b.
Proof. unfold nlen. rewrite app_length. lia. Qed.
Lemma nlen_0 {A} (l : list A) : nlen l = 0 -> l = [].
Proof. destruct l; [reflexivity|]. rewrite nlen_cons. lia. Qed.

Lemma count_ins o seg v s :
  match lookup N.compare s (ins N.compare seg v o) with Some c => c | None => 0 end =
  if s =? seg then v else match lookup N.compare s o with Some c => c | None => 0 end.
Proof.
  destruct (N.eqb_spec s seg) as [->|Hne].
  - now rewrite (lookup_ins_same N_cmp_ok).
  - now rewrite (lookup_ins_other N_cmp_ok) by exact Hne.
Qed.

Lemma queue_ins (qs : list (N * list cpayload)) seg v s :
  match lookup N.compare s (ins N.compare seg v qs) with Some q => q | None => [] end =
  if s =? seg then v else match lookup N.compare s qs with Some q => q | None => [] end.
Proof.
  destruct (N.eqb_spec s seg) as [->|Hne].
  - now rewrite (lookup_ins_same N_cmp_ok).
  - now rewrite (lookup_ins_other N_cmp_ok) by exact Hne.
Qed.

(* ---------- the data invariant ---------- *)
Definition sealed_of (t : tstate) (s : N) : N :=
  match lookup N.compare s (t_sealed t) with Some c => c | None => 0 end.
Definition cur_of (x : node) : N * N := match nd_cursor x with Some c => c | None => (0, 0) end.

(* the read cursor (seg, del) against the engine's queues and the offsets map; [c] = current segment *)
Record CV (x : node) (c seg del : N) : Prop := {
  cv_le : seg <= c;
  cv_lo : forall s, s < seg -> queue_of x s = [];
  cv_hi : forall s, seg < s -> count_of x s = nlen (queue_of x s);
  cv_at : 1 <= seg -> del + nlen (queue_of x seg) = count_of x seg;
  cv_0 : seg = 0 -> del = 0
}.

Record Dc (x : node) (t : tstate) (Q : list cpayload) : Prop := {
  d_lead : t_leader t = 1;
  d_cur : 1 <= t_cur t;
  d_leaders : forall s l, lookup N.compare s (t_leaders t) = Some l -> l = 1;
  d_sealed : forall s, 1 <= s -> s < t_cur t -> sealed_of t s = count_of x s;
  d_out : forall s, s = 0 \/ t_cur t < s -> queue_of x s = [] /\ count_of x s = 0;
  d_q : Q = flat_map (queue_of x) (segs (t_cur t))
}.

Definition D (x : node) (t : tstate) (Q : list cpayload) : Prop :=
  Dc x t Q /\ CV x (t_cur t) (fst (cur_of x)) (snd (cur_of x)).

(* record_append's effect *)
Definition recorded (x : node) (seg : N) : node :=
  with_offsets x (ins N.compare seg (count_of x seg + 1) (nd_offsets x)).
(* the engine append's effect (the key mutex is released in the same step) *)
Definition appended (x : node) (seg : N) (p : cpayload) : node :=
  let x1 := with_q x (ins N.compare seg (queue_of x seg ++ [p]) (nd_q x)) in
  with_kl x1 (remove1 seg (nd_kl x1)).

Lemma count_recorded x seg s : count_of (recorded x seg) s = if s =? seg then count_of x seg + 1 else count_of x s.
Proof. unfold recorded, count_of. cbn [with_offsets nd_offsets]. apply count_ins. Qed.
Lemma queue_recorded x seg s : queue_of (recorded x seg) s = queue_of x s.
Proof. reflexivity. Qed.
Lemma count_appended x seg p s : count_of (appended x seg p) s = count_of x s.
Proof. reflexivity. Qed.
Lemma queue_appended x seg p s : queue_of (appended x seg p) s = if s =? seg then queue_of x seg ++ [p] else queue_of x s.
Proof. unfold appended, queue_of. cbn [with_q with_kl nd_q]. apply queue_ins. Qed.

(* PSpawn then PRecord *)
Lemma D_append x t Q p : D x t Q -> D (recorded (appended x (t_cur t) p) (t_cur t)) t (Q ++ [p]).
Proof.
  intros [[H1 H2 H3 H4 H5 H6] [C1 C2 C3 C4 C5]].
  assert (Hq : forall s, queue_of (recorded (appended x (t_cur t) p) (t_cur t)) s = if s =? t_cur t then queue_of x (t_cur t) ++ [p] else queue_of x s).
  { intros s. rewrite queue_recorded. apply queue_appended. }
  assert (Hc : forall s, count_of (recorded (appended x (t_cur t) p) (t_cur t)) s = if s =? t_cur t then count_of x (t_cur t) + 1 else count_of x s).
  { intros s. rewrite count_recorded. reflexivity. }
  split; [split; auto|].
  - intros s Hs1 Hs2. rewrite Hc. destruct (N.eqb_spec s (t_cur t)); [lia|]. auto.
  - intros s Hs. rewrite Hc, Hq. destruct (N.eqb_spec s (t_cur t)); [lia|]. auto.
  - rewrite H6. rewrite (segs_split (t_cur t) (t_cur t)) by lia. replace (N.to_nat (t_cur t - t_cur t)) with 0%nat by lia. cbn [nrange].
    rewrite !flat_map_app. cbn [flat_map]. rewrite !app_nil_r, Hq, N.eqb_refl, app_assoc. f_equal. f_equal.
    apply flat_map_ext_in. intros s Hs. apply in_segs in Hs. rewrite Hq. destruct (N.eqb_spec s (t_cur t)); [lia|reflexivity].
  - change (cur_of (recorded (appended x (t_cur t) p) (t_cur t))) with (cur_of x).
    destruct (cur_of x) as [cs cd]. cbn [fst snd] in *. split; auto.
    + intros s Hs. rewrite Hq. destruct (N.eqb_spec s (t_cur t)); [lia|]. auto.
    + intros s Hs. rewrite Hq, Hc. destruct (N.eqb_spec s (t_cur t)) as [->|]; [|auto]. rewrite nlen_app, (C3 _ Hs).
      unfold nlen; cbn [length]; lia.
    + intros Hs. rewrite Hq, Hc. destruct (N.eqb_spec cs (t_cur t)) as [->|]; [|auto]. rewrite nlen_app, <- (C4 Hs).
      unfold nlen; cbn [length]; lia.
Qed.

(* only the offsets, the queues and the cursor matter *)
Lemma Dc_ext x x' t Q :
  (forall s, queue_of x' s = queue_of x s) -> (forall s, count_of x' s = count_of x s) -> Dc x t Q -> Dc x' t Q.
Proof.
  intros Eq Ec [H1 H2 H3 H4 H5 H6]. split; auto.
  - intros s Hs1 Hs2. rewrite Ec. auto.
  - intros s Hs. rewrite Ec, Eq. auto.
  - rewrite H6. apply flat_map_ext_in. intros s _. now rewrite Eq.
Qed.
Lemma CV_ext x x' c seg del :
  (forall s, queue_of x' s = queue_of x s) -> (forall s, count_of x' s = count_of x s) -> CV x c seg del -> CV x' c seg del.
Proof.
  intros Eq Ec [C1 C2 C3 C4 C5]. split; auto.
  - intros s Hs. rewrite Eq. auto.
  - intros s Hs. rewrite Ec, Eq. auto.
  - intros Hs. rewrite Ec, Eq. auto.
Qed.
Lemma D_ext x x' t Q :
  (forall s, queue_of x' s = queue_of x s) -> (forall s, count_of x' s = count_of x s) -> cur_of x' = cur_of x ->
  D x t Q -> D x' t Q.
Proof. intros Eq Ec E [H1 H2]. split; [eapply Dc_ext; eauto|]. rewrite E. eapply CV_ext; eauto. Qed.

(* a cursor move *)
Lemma D_cursor x t Q seg del b :
  Dc x t Q -> CV x (t_cur t) seg del -> D (with_cursor x (Some (seg, del)) b) t Q.
Proof. intros H1 H2. split; [eapply Dc_ext; [| |exact H1]; reflexivity|eapply CV_ext; [| |exact H2]; reflexivity]. Qed.

(* the consuming read of the head of the cursor's segment, then the cursor's advance *)
Lemma D_deq x t Q a q :
  D x t Q -> 1 <= fst (cur_of x) -> queue_of x (fst (cur_of x)) = a :: q ->
  exists Q', Q = a :: Q' /\
    D (with_cursor (with_q x (ins N.compare (fst (cur_of x)) q (nd_q x))) (Some (fst (cur_of x), snd (cur_of x) + 1)) false) t Q'.
Proof.
  intros [[H1 H2 H3 H4 H5 H6] [C1 C2 C3 C4 C5]] Hcs Hq.
  destruct (cur_of x) as [cs cd]. cbn [fst snd] in *.
  set (x' := with_cursor (with_q x (ins N.compare cs q (nd_q x))) (Some (cs, cd + 1)) false).
  assert (Hq' : forall s, queue_of x' s = if s =? cs then q else queue_of x s).
  { intros s. unfold x', queue_of. cbn [with_cursor with_q nd_q]. apply queue_ins. }
  assert (Hc' : forall s, count_of x' s = count_of x s) by reflexivity.
  exists (flat_map (queue_of x') (segs (t_cur t))). split.
  - rewrite H6. rewrite (segs_split (t_cur t) cs) by lia. rewrite !flat_map_app. cbn [flat_map].
    rewrite !(flat_map_nil _ (segs (cs - 1))).
    + cbn [app]. rewrite Hq, Hq', N.eqb_refl. cbn [app]. do 2 f_equal.
      apply flat_map_ext_in. intros s Hs. apply in_nrange in Hs. rewrite Hq'. destruct (N.eqb_spec s cs); [lia|reflexivity].
    + intros s Hs. apply in_segs in Hs. rewrite Hq'. destruct (N.eqb_spec s cs); [lia|]. apply C2. lia.
    + intros s Hs. apply in_segs in Hs. apply C2. lia.
  - split; [split; auto|].
    + intros s Hs. rewrite Hq', Hc'. destruct (N.eqb_spec s cs); [lia|]. auto.
    + change (cur_of x') with (cs, cd + 1). cbn [fst snd]. split; auto.
      * intros s Hs. rewrite Hq'. destruct (N.eqb_spec s cs); [lia|]. auto.
      * intros s Hs. rewrite Hq', Hc'. destruct (N.eqb_spec s cs); [lia|]. auto.
      * intros Hs. rewrite Hq', Hc', N.eqb_refl. rewrite <- (C4 Hs), Hq, nlen_cons. lia.
      * lia.
Qed.

(* the cursor loop *)
Lemma skip_ok x t Q : Dc x t Q -> forall fuel seg del, 1 <= seg -> CV x (t_cur t) seg del ->
  CV x (t_cur t) (fst (skip_sealed fuel t seg del)) (snd (skip_sealed fuel t seg del)) /\
  1 <= fst (skip_sealed fuel t seg del).
Proof.
  intros [H1 H2 H3 H4 H5 H6]. induction fuel as [|f IH]; intros seg del Hs Hcv; cbn [skip_sealed].
  - auto.
  - destruct (N.ltb_spec seg (t_cur t)) as [Hlt|Hge]; [|auto].
    fold (sealed_of t seg). destruct (N.leb_spec (sealed_of t seg) del) as [Hle|Hgt]; [|auto].
    apply IH; [lia|]. destruct Hcv as [C1 C2 C3 C4 C5].
    assert (E : queue_of x seg = []).
    { apply nlen_0. rewrite (H4 seg Hs Hlt) in Hle. specialize (C4 Hs). lia. }
    split.
    + lia.
    + intros s Hs'. destruct (N.eq_dec s seg) as [->|]; [exact E|]. apply C2. lia.
    + intros s Hs'. apply C3. lia.
    + intros _. rewrite N.add_0_l. symmetry. apply C3. lia.
    + lia.
Qed.

Lemma CV_first x t Q seg del : Dc x t Q -> CV x (t_cur t) seg del ->
  CV x (t_cur t) (if seg =? 0 then 1 else seg) del /\ 1 <= (if seg =? 0 then 1 else seg).
Proof.
  intros [H1 H2 H3 H4 H5 H6] [C1 C2 C3 C4 C5]. destruct (N.eqb_spec seg 0) as [->|Hne].
  - split; [|lia]. rewrite (C5 eq_refl). split.
    + exact H2.
    + intros s Hs. apply H5. lia.
    + intros s Hs. apply C3. lia.
    + intros _. rewrite N.add_0_l. symmetry. apply C3. lia.
    + lia.
  - split; [|lia]. split; auto.
Qed.

Lemma CV_next x t Q seg del : Dc x t Q -> CV x (t_cur t) seg del -> 1 <= seg ->
  queue_of x seg = [] -> seg < t_cur t -> CV x (t_cur t) (seg + 1) 0.
Proof.
  intros [H1 H2 H3 H4 H5 H6] [C1 C2 C3 C4 C5] Hs E Hlt. split.
  - lia.
  - intros s Hs'. destruct (N.eq_dec s seg) as [->|]; [exact E|]. apply C2. lia.
  - intros s Hs'. apply C3. lia.
  - intros _. rewrite N.add_0_l. symmetry. apply C3. lia.
  - lia.
Qed.

Lemma get_loop_ok x t Q seg del x' o :
  topic_of (nd_meta x) = Some t -> Dc x t Q -> CV x (t_cur t) seg del ->
  get_loop x 1 seg del = (x', o) ->
  exists seg2 del2, x' = with_cursor x (Some (seg2, del2)) true /\ CV x (t_cur t) seg2 del2 /\ 1 <= seg2 /\
    o = OYield (PGRead 1 1 (t_cur t)) SSB [].
Proof.
  intros Ht Hd Hcv. unfold get_loop. rewrite Ht.
  destruct (CV_first x t Q seg del Hd Hcv) as [Hcv1 Hs1].
  set (seg1 := if seg =? 0 then 1 else seg) in *.
  pose proof (skip_ok x t Q Hd (S (N.to_nat (t_cur t - seg1))) seg1 del Hs1 Hcv1) as [Hcv2 Hs2].
  destruct (skip_sealed (S (N.to_nat (t_cur t - seg1))) t seg1 del) as [seg2 del2]. cbn [fst snd] in *.
  assert (El : (if seg2 =? t_cur t then t_leader t else seg_leader t seg2) = 1).
  { destruct Hd as [H1 H2 H3 H4 H5 H6]. destruct (seg2 =? t_cur t); [exact H1|].
    unfold seg_leader. destruct (lookup N.compare seg2 (t_leaders t)) as [l|] eqn:E; [eapply H3; eauto|exact H1]. }
  rewrite El. change (1 =? 1) with true. cbn iota.
  intros E. inversion E; subst. exists seg2, del2. auto.
Qed.

(* ---------- the metadata under RolloverTopic ---------- *)
Lemma D_rolled x t t' Q :
  D x t Q -> rollover_fx t 1 (count_of x (t_cur t)) = Some t' -> D x t' Q.
Proof.
  intros [[H1 H2 H3 H4 H5 H6] [C1 C2 C3 C4 C5]]. unfold rollover_fx.
  destruct (two64 <=? t_last t + count_of x (t_cur t)); [discriminate|].
  destruct (two64 <=? t_cur t + 1); [discriminate|]. intros E. inversion E; subst t'; clear E.
  split; [split|]; cbn [t_cur t_leader t_leaders t_sealed].
  - reflexivity.
  - lia.
  - intros s l. destruct (N.eq_dec s (t_cur t + 1)) as [->|Hne].
    + rewrite (lookup_ins_same N_cmp_ok). congruence.
    + rewrite (lookup_ins_other N_cmp_ok) by exact Hne.
      destruct (N.eq_dec s (t_cur t)) as [->|Hne2].
      * rewrite (lookup_ins_same N_cmp_ok). congruence.
      * rewrite (lookup_ins_other N_cmp_ok) by exact Hne2. apply H3.
  - intros s Hs1 Hs2. unfold sealed_of. cbn [t_sealed]. destruct (N.eq_dec s (t_cur t)) as [->|Hne].
    + now rewrite (lookup_ins_same N_cmp_ok).
    + rewrite (lookup_ins_other N_cmp_ok) by exact Hne. apply H4; lia.
  - intros s Hs. apply H5. lia.
  - rewrite segs_succ, flat_map_app. cbn [flat_map]. assert (E0 : queue_of x (t_cur t + 1) = []) by (apply H5; lia). rewrite E0.
    rewrite !app_nil_r. exact H6.
  - split; auto. lia.
Qed.

Lemma apply_roll m t cnt :
  topic_of m = Some t ->
  (rollover_fx t 1 cnt = None /\ fst (apply_cmd_fx m (RolloverTopic tname 1 cnt)) = m) \/
  (exists t', rollover_fx t 1 cnt = Some t' /\ topic_of (fst (apply_cmd_fx m (RolloverTopic tname 1 cnt))) = Some t').
Proof.
  unfold topic_of, get_topic_state. destruct (m_poisoned m) eqn:Ep; [discriminate|]. intros El.
  cbn [apply_cmd_fx]. rewrite El. destruct (rollover_fx t 1 cnt) as [t'|]; [right|left; auto].
  exists t'. split; [reflexivity|]. cbn [fst m_poisoned m_cl set_topics c_topics].
  apply (lookup_ins_same str_cmp_ok).
Qed.

(* ---------- the single node ---------- *)
Lemma node_ids_1 cfg : cf_nodes cfg = 1 -> node_ids cfg = [1].
Proof. intros H. unfold node_ids. rewrite H. reflexivity. Qed.

Lemma next_leader_1 cfg : cf_nodes cfg = 1 -> next_leader cfg 1 = 1.
Proof. intros H. unfold next_leader. rewrite H. reflexivity. Qed.

Lemma get_node_1 x log cs ls ms : get_node (mkSt [(1, x)] log cs ls ms) 1 = Some x.
Proof. reflexivity. Qed.
Lemma set_node_1 x log cs ls ms x' : set_node (mkSt [(1, x)] log cs ls ms) 1 x' = mkSt [(1, x')] log cs ls ms.
Proof. reflexivity. Qed.

Lemma apply_pending_id fuel x log cs ls ms :
  nd_applied x = length log -> apply_pending fuel (mkSt [(1, x)] log cs ls ms) 1 = mkSt [(1, x)] log cs ls ms.
Proof.
  intros H. destruct fuel as [|f]; [reflexivity|]. cbn [apply_pending]. unfold Cluster.step_apply.
  rewrite get_node_1. cbn [s_log]. rewrite H.
  replace (nth_error log (length log)) with (@None cmd); [reflexivity|].
  symmetry. apply nth_error_None. lia.
Qed.

Lemma ae_id cfg x log cs ls ms :
  cf_nodes cfg = 1 -> nd_applied x = length log ->
  apply_everywhere cfg (mkSt [(1, x)] log cs ls ms) = mkSt [(1, x)] log cs ls ms.
Proof.
  intros H1 H. unfold apply_everywhere. rewrite (node_ids_1 cfg H1). cbn [fold_left s_log].
  now apply apply_pending_id.
Qed.

Lemma ae_one cfg x log c cs ls ms :
  cf_nodes cfg = 1 -> nd_applied x = length log ->
  apply_everywhere cfg (mkSt [(1, x)] (log ++ [c]) cs ls ms) =
  mkSt [(1, with_meta x (fst (apply_cmd_fx (nd_meta x) c)) (S (length log)))] (log ++ [c]) cs ls ms.
Proof.
  intros H1 H. unfold apply_everywhere. rewrite (node_ids_1 cfg H1). cbn [fold_left s_log].
  rewrite app_length. cbn [length]. replace (length log + 1)%nat with (S (length log)) by lia.
  cbn [apply_pending]. unfold Cluster.step_apply at 1. rewrite get_node_1. cbn [s_log]. rewrite H.
  rewrite nth_error_app2 by lia. rewrite Nat.sub_diag. cbn [nth_error]. rewrite set_node_1.
  apply apply_pending_id. cbn [with_meta nd_applied]. rewrite app_length. cbn [length]. lia.
Qed.

(* ---------- the state of the one task that is not at rest ---------- *)
Inductive kind := KPut (p : cpayload) | KGet | KLease | KMon.
Definition isputk (kd : kind) : Prop := match kd with KPut _ => True | _ => False end.
(* the acceptor's queue once the task's pending answer is given *)
Definition Qk (kd : kind) (Q : list cpayload) : list cpayload := match kd with KPut p => Q ++ [p] | _ => Q end.
Definition kp (kd : kind) (p : cpayload) : Prop := match kd with KPut p' => p' = p | _ => True end.
Definition ppk_ok (kd : kind) (k : ppk) : Prop :=
  match k with PKPut => isputk kd | PKMon n => n = 1 /\ kd = KMon end.

Definition St (kd : kind) (pc : cpc) (x : node) (t : tstate) (Q : list cpayload) : Prop :=
  match pc with
  | PUlRead e ex k | PUlWrite e ex k =>
    e = 1 /\ D x t Q /\ match k with KAppend seg att => isputk kd /\ seg = t_cur t | KTick => kd = KLease end
  | PEnsure e seg att | PWlRead e seg att | PWlWrite e seg att | PKeyLock e seg att | PSpawn e seg att =>
    e = 1 /\ D x t Q /\ isputk kd /\ seg = t_cur t
  | PRecord e seg => e = 1 /\ seg = t_cur t /\ isputk kd /\ D (recorded x seg) t (Qk kd Q)
  | PCount e seg => e = 1 /\ seg = t_cur t /\ isputk kd /\ D x t (Qk kd Q)
  | PPropose c k => c = RolloverTopic tname 1 (count_of x (t_cur t)) /\ D x t (Qk kd Q) /\ ppk_ok kd k
  | PWaitApplied idx k => D x t (Qk kd Q) /\ ppk_ok kd k
  | PGLock h => h = 1 /\ kd = KGet /\ D x t Q
  | PGRead h e cur => h = 1 /\ e = 1 /\ cur = t_cur t /\ kd = KGet /\ D x t Q /\ 1 <= fst (cur_of x)
  | PGHw h e cur r =>
    h = 1 /\ e = 1 /\ cur = t_cur t /\ kd = KGet /\ 1 <= fst (cur_of x) /\
    match r with
    | Some a => exists Q', Q = a :: Q' /\
                  D (with_cursor x (Some (fst (cur_of x), snd (cur_of x) + 1)) false) t Q'
    | None => D x t Q /\ queue_of x (fst (cur_of x)) = []
    end
  | PLTick n => n = 1 /\ kd = KLease /\ D x t Q
  | PMTick n => n = 1 /\ kd = KMon /\ D x t Q
  | PMCount n seg => n = 1 /\ seg = t_cur t /\ kd = KMon /\ D x t Q
  | PPutRpc _ _ | PMetaRpc _ _ | PGRpc _ _ _ => False
  end.

(* an answer [r] against the acceptor's queue: Q before, Q' after *)
Definition fin_ok (kd : kind) (r : cres) (x : node) (t : tstate) (Q Q' : list cpayload) : Prop :=
  D x t Q' /\
  match kd, r with
  | KPut p, CROk => Q' = Q ++ [p]
  | KPut _, CRErr _ => Q' = Q
  | KGet, CRVal a => Q = a :: Q'
  | KGet, CREmpty => Q = [] /\ Q' = []
  | KGet, CRErr _ => Q' = Q
  | _, _ => False
  end.

Definition quiet_ev (e : csub) : bool := match e with EInv _ _ _ _ | EResp _ _ _ => false | _ => true end.
Definition quiet (l : list csub) : bool := forallb quiet_ev l.

Definition out_ok (kd : kind) (out : outcome) (x : node) (t : tstate) (Q : list cpayload) : Prop :=
  match out with
  | OYield pc' _ subs | OBlocked subs pc' => quiet subs = true /\ St kd pc' x t Q
  | OFinish r subs => quiet subs = true /\ exists Q', fin_ok kd r x t Q Q'
  end.

Ltac splits := repeat match goal with |- _ /\ _ => split end.
Ltac same_state x t :=
  exists x, t; split; [intros; apply ae_id; assumption|split; [assumption|split; [assumption|]]].

Lemma exec_spec cfg x t Q kd p pc log cs ls ms s1 out :
  cf_nodes cfg = 1 ->
  nd_applied x = length log -> topic_of (nd_meta x) = Some t -> St kd pc x t Q -> kp kd p ->
  exec_pc cfg (mkSt [(1, x)] log cs ls ms) p pc = (s1, out) ->
  s_clients s1 = cs /\ s_lease s1 = ls /\ s_mon s1 = ms /\
  exists x1 t1,
    (forall cs' ls' ms', apply_everywhere cfg (mkSt (s_nodes s1) (s_log s1) cs' ls' ms') = mkSt [(1, x1)] (s_log s1) cs' ls' ms') /\
    nd_applied x1 = length (s_log s1) /\ topic_of (nd_meta x1) = Some t1 /\ out_ok kd out x1 t1 Q.
Proof.
  intros Hn Ha Ht HSt Hp.
  destruct pc; cbn [St] in HSt; unfold exec_pc.
  - (* PUlRead *)
    destruct HSt as (-> & HD & Hk). rewrite get_node_1.
    destruct (opt_eqb (nd_lease x) ex); intros E; inversion E; subst; clear E; (split; [reflexivity|split; [reflexivity|split; [reflexivity|]]]); cbn [s_nodes s_log].
    + same_state x t. destruct k; cbn [after_ul out_ok St quiet forallb]; tauto.
    + same_state x t. cbn [out_ok St quiet forallb]. tauto.
  - (* PUlWrite *)
    destruct HSt as (-> & HD & Hk). rewrite get_node_1, set_node_1.
    intros E; inversion E; subst; clear E; (split; [reflexivity|split; [reflexivity|split; [reflexivity|]]]); cbn [s_nodes s_log].
    same_state (with_lease x ex) t.
    assert (HD' : D (with_lease x ex) t Q) by (eapply D_ext; [| | |exact HD]; reflexivity).
    destruct k; cbn [after_ul out_ok St quiet forallb]; tauto.
  - (* PPutRpc *) contradiction.
  - (* PEnsure *)
    destruct HSt as (-> & HD & Hk & ->). rewrite get_node_1.
    destruct (opt_eqb (nd_lease x) (Some (t_cur t))); [|destruct att]; intros E; inversion E; subst; clear E; (split; [reflexivity|split; [reflexivity|split; [reflexivity|]]]); cbn [s_nodes s_log].
    + same_state x t. cbn [out_ok St quiet forallb]. tauto.
    + same_state x t. cbn [out_ok quiet forallb]. split; [reflexivity|]. exists Q. split; [exact HD|].
      destruct kd; try contradiction. reflexivity.
    + same_state x t. cbn [enter_ul out_ok St quiet forallb]. tauto.
  - (* PWlRead *)
    destruct HSt as (-> & HD & Hk & ->). rewrite get_node_1.
    destruct (mem (t_cur t) (nd_wl x)); intros E; inversion E; subst; clear E; (split; [reflexivity|split; [reflexivity|split; [reflexivity|]]]); cbn [s_nodes s_log];
      same_state x t; cbn [out_ok St quiet forallb]; tauto.
  - (* PWlWrite *)
    destruct HSt as (-> & HD & Hk & ->). rewrite get_node_1, set_node_1.
    intros E; inversion E; subst; clear E; (split; [reflexivity|split; [reflexivity|split; [reflexivity|]]]); cbn [s_nodes s_log].
    match goal with |- context [with_wl x ?w] => set (x' := with_wl x w) end.
    same_state x' t.
    assert (HD' : D x' t Q) by (eapply D_ext; [| | |exact HD]; reflexivity).
    cbn [out_ok St quiet forallb]; tauto.
  - (* PKeyLock *)
    destruct HSt as (-> & HD & Hk & ->). rewrite get_node_1.
    destruct (mem (t_cur t) (nd_kl x)); [|rewrite set_node_1]; intros E; inversion E; subst; clear E; (split; [reflexivity|split; [reflexivity|split; [reflexivity|]]]); cbn [s_nodes s_log].
    + same_state x t. cbn [out_ok St quiet forallb]; tauto.
    + same_state (with_kl x (t_cur t :: nd_kl x)) t.
      assert (HD' : D (with_kl x (t_cur t :: nd_kl x)) t Q) by (eapply D_ext; [| | |exact HD]; reflexivity).
      cbn [out_ok St quiet forallb]; tauto.
  - (* PSpawn *)
    destruct HSt as (-> & HD & Hk & ->). rewrite get_node_1. cbv zeta. rewrite set_node_1.
    intros E; inversion E; subst; clear E; (split; [reflexivity|split; [reflexivity|split; [reflexivity|]]]); cbn [s_nodes s_log].
    change (with_kl (with_q x (ins N.compare (t_cur t) (queue_of x (t_cur t) ++ [p]) (nd_q x)))
              (remove1 (t_cur t) (nd_kl (with_q x (ins N.compare (t_cur t) (queue_of x (t_cur t) ++ [p]) (nd_q x))))))
      with (appended x (t_cur t) p).
    same_state (appended x (t_cur t) p) t.
    cbn [out_ok St quiet forallb quiet_ev andb]. destruct kd; try contradiction. cbn [kp] in Hp. subst p0.
    cbn [Qk]. splits; auto. now apply D_append.
  - (* PRecord *)
    destruct HSt as (-> & -> & Hk & HD). rewrite get_node_1, set_node_1.
    intros E; inversion E; subst; clear E; (split; [reflexivity|split; [reflexivity|split; [reflexivity|]]]); cbn [s_nodes s_log].
    same_state (recorded x (t_cur t)) t.
    cbn [out_ok St quiet forallb]. tauto.
  - (* PCount *)
    destruct HSt as (-> & -> & Hk & HD). rewrite get_node_1. cbv zeta.
    destruct (count_of x (t_cur t) <? cf_thr cfg); intros E; inversion E; subst; clear E; (split; [reflexivity|split; [reflexivity|split; [reflexivity|]]]); cbn [s_nodes s_log].
    + same_state x t. cbn [out_ok quiet forallb]. split; [reflexivity|]. exists (Qk kd Q). split; [exact HD|].
      destruct kd; try contradiction. reflexivity.
    + same_state x t. rewrite (next_leader_1 cfg Hn). unfold enter_propose. change (1 =? raft_leader) with true. cbn iota.
      cbn [out_ok St quiet forallb ppk_ok]. tauto.
  - (* PMetaRpc *) contradiction.
  - (* PPropose *)
    destruct HSt as (-> & HD & Hk).
    intros E; inversion E; subst; clear E; (split; [reflexivity|split; [reflexivity|split; [reflexivity|]]]); cbn [s_nodes s_log].
    destruct (apply_roll (nd_meta x) t (count_of x (t_cur t)) Ht) as [[Er Em]|[t' [Er Em]]].
    + exists (with_meta x (fst (apply_cmd_fx (nd_meta x) (RolloverTopic tname 1 (count_of x (t_cur t))))) (S (length log))), t.
      split; [intros; apply ae_one; assumption|]. split; [cbn [with_meta nd_applied]; rewrite app_length; cbn [length]; lia|].
      split; [cbn [with_meta nd_meta]; rewrite Em; exact Ht|].
      cbn [out_ok St quiet forallb quiet_ev andb]. splits; auto.
      eapply D_ext; [| | |exact HD]; reflexivity.
    + exists (with_meta x (fst (apply_cmd_fx (nd_meta x) (RolloverTopic tname 1 (count_of x (t_cur t))))) (S (length log))), t'.
      split; [intros; apply ae_one; assumption|]. split; [cbn [with_meta nd_applied]; rewrite app_length; cbn [length]; lia|].
      split; [cbn [with_meta nd_meta]; exact Em|].
      cbn [out_ok St quiet forallb quiet_ev andb]. splits; auto.
      eapply D_ext; [| | |eapply D_rolled; [exact HD|exact Er]]; reflexivity.
  - (* PWaitApplied *)
    destruct HSt as (HD & Hk). unfold raft_leader. rewrite get_node_1.
    destruct (Nat.ltb idx (nd_applied x)); intros E; inversion E; subst; clear E; (split; [reflexivity|split; [reflexivity|split; [reflexivity|]]]); cbn [s_nodes s_log].
    + same_state x t. destruct k as [|n]; cbn [after_propose out_ok St quiet forallb ppk_ok] in *.
      * split; [reflexivity|]. exists (Qk kd Q). split; [exact HD|]. destruct kd; try contradiction. reflexivity.
      * destruct Hk as [-> ->]. cbn [Qk] in HD. tauto.
    + same_state x t. cbn [out_ok St quiet forallb]. tauto.
  - (* PGLock *)
    destruct HSt as (-> & -> & HD). rewrite get_node_1.
    destruct (nd_rc x).
    { intros E; inversion E; subst; clear E; (split; [reflexivity|split; [reflexivity|split; [reflexivity|]]]); cbn [s_nodes s_log].
      same_state x t. cbn [out_ok St quiet forallb]. tauto. }
    fold (cur_of x). destruct HD as [HDc HCV]. destruct (cur_of x) as [seg del] eqn:Ec. cbn [fst snd] in HCV.
    destruct (get_loop x 1 seg del) as [x' o] eqn:G.
    destruct (get_loop_ok x t Q seg del x' o Ht HDc HCV G) as (seg2 & del2 & -> & HCV2 & Hs2 & ->).
    rewrite set_node_1.
    intros E; inversion E; subst; clear E; (split; [reflexivity|split; [reflexivity|split; [reflexivity|]]]); cbn [s_nodes s_log].
    same_state (with_cursor x (Some (seg2, del2)) true) t.
    cbn [out_ok St quiet forallb]. splits; auto; try (apply D_cursor; assumption); try exact Hs2.
  - (* PGRpc *) contradiction.
  - (* PGRead *)
    destruct HSt as (-> & -> & -> & -> & HD & Hcs). rewrite !get_node_1.
    assert (Es : match nd_cursor x with Some c => fst c | None => 0 end = fst (cur_of x)).
    { unfold cur_of. destruct (nd_cursor x); reflexivity. }
    rewrite Es. destruct (queue_of x (fst (cur_of x))) as [|a q] eqn:Eq.
    + intros E; inversion E; subst; clear E; (split; [reflexivity|split; [reflexivity|split; [reflexivity|]]]); cbn [s_nodes s_log].
      same_state x t. cbn [out_ok St quiet forallb quiet_ev andb]. tauto.
    + rewrite set_node_1.
      intros E; inversion E; subst; clear E; (split; [reflexivity|split; [reflexivity|split; [reflexivity|]]]); cbn [s_nodes s_log].
      same_state (with_q x (ins N.compare (fst (cur_of x)) q (nd_q x))) t.
      cbn [out_ok St quiet forallb quiet_ev andb].
      destruct (D_deq x t Q a q HD Hcs Eq) as (Q' & EQ & HD').
      splits; auto. exists Q'. split; [exact EQ|]. exact HD'.
  - (* PGHw *)
    destruct HSt as (-> & -> & -> & -> & Hcs & Hr). rewrite get_node_1.
    fold (cur_of x). destruct (cur_of x) as [seg del] eqn:Ec. cbn [fst snd] in *.
    destruct r as [a|].
    + destruct Hr as (Q' & EQ & HD'). rewrite set_node_1.
      intros E; inversion E; subst; clear E; (split; [reflexivity|split; [reflexivity|split; [reflexivity|]]]); cbn [s_nodes s_log].
      same_state (with_cursor x (Some (seg, del + 1)) false) t.
      cbn [out_ok quiet forallb]. split; [reflexivity|]. exists Q'. split; [exact HD'|reflexivity].
    + destruct Hr as (HD & Eq). destruct HD as [HDc HCV]. rewrite Ec in HCV. cbn [fst snd] in HCV.
      destruct (N.ltb_spec seg (t_cur t)) as [Hlt|Hge].
      * destruct (get_loop x 1 (seg + 1) 0) as [x' o] eqn:G.
        pose proof (CV_next x t Q seg del HDc HCV Hcs Eq Hlt) as HCV1.
        destruct (get_loop_ok x t Q (seg + 1) 0 x' o Ht HDc HCV1 G) as (seg2 & del2 & -> & HCV2 & Hs2 & ->).
        rewrite set_node_1.
        intros E; inversion E; subst; clear E; (split; [reflexivity|split; [reflexivity|split; [reflexivity|]]]); cbn [s_nodes s_log].
        same_state (with_cursor x (Some (seg2, del2)) true) t.
        cbn [out_ok St quiet forallb]. splits; auto; try (apply D_cursor; assumption); try exact Hs2.
      * rewrite set_node_1.
        intros E; inversion E; subst; clear E; (split; [reflexivity|split; [reflexivity|split; [reflexivity|]]]); cbn [s_nodes s_log].
        same_state (with_cursor x (Some (seg, del)) false) t.
        cbn [out_ok quiet forallb]. split; [reflexivity|].
        assert (EQ : Q = []).
        { destruct HDc as [H1 H2 H3 H4 H5 H6]. destruct HCV as [C1 C2 C3 C4 C5]. rewrite H6.
          apply flat_map_nil. intros s Hs. apply in_segs in Hs.
          destruct (N.eq_dec s seg) as [->|Hne]; [exact Eq|]. apply C2. lia. }
        exists []. split; [|split; [exact EQ|reflexivity]]. subst Q.
        apply D_cursor; assumption.
  - (* PLTick *)
    destruct HSt as (-> & -> & HD). rewrite get_node_1.
    intros E; inversion E; subst; clear E; (split; [reflexivity|split; [reflexivity|split; [reflexivity|]]]); cbn [s_nodes s_log].
    same_state x t. cbn [enter_ul out_ok St quiet forallb]. tauto.
  - (* PMTick *)
    destruct HSt as (-> & -> & HD). rewrite get_node_1. unfold owned. rewrite Ht.
    rewrite (d_lead _ _ _ (proj1 HD)). change (1 =? 1) with true. cbn iota.
    intros E; inversion E; subst; clear E; (split; [reflexivity|split; [reflexivity|split; [reflexivity|]]]); cbn [s_nodes s_log].
    same_state x t. cbn [out_ok St quiet forallb]. tauto.
  - (* PMCount *)
    destruct HSt as (-> & -> & -> & HD). rewrite get_node_1. cbv zeta.
    destruct (count_of x (t_cur t) <? cf_thr cfg); intros E; inversion E; subst; clear E; (split; [reflexivity|split; [reflexivity|split; [reflexivity|]]]); cbn [s_nodes s_log].
    + same_state x t. cbn [out_ok St quiet forallb]. tauto.
    + same_state x t. rewrite (next_leader_1 cfg Hn). unfold enter_propose. change (1 =? raft_leader) with true. cbn iota.
      cbn [out_ok St quiet forallb ppk_ok Qk]. tauto.
Qed.

(* ---------- invocation ---------- *)
Definition kind_of (p : cpayload) (o : cop) : kind := match o with OPut _ => KPut p | OGet _ => KGet end.

Lemma kp_kind_of p o : kp (kind_of p o) p.
Proof. destruct o; cbn; auto. Qed.

Lemma get_node_ne x log cs ls ms h : h <> 1 -> get_node (mkSt [(1, x)] log cs ls ms) h = None.
Proof.
  intros H. unfold get_node. cbn [s_nodes lookup]. destruct (N.compare h 1) eqn:E; auto.
  apply N.compare_eq in E. contradiction.
Qed.

Lemma invoke_spec x t Q log cs ls ms o p :
  topic_of (nd_meta x) = Some t -> D x t Q ->
  match invoke (mkSt [(1, x)] log cs ls ms) o with
  | OYield pc' _ subs => subs = [] /\ St (kind_of p o) pc' x t Q
  | OFinish r subs => subs = [] /\ fin_ok (kind_of p o) r x t Q Q
  | OBlocked _ _ => False
  end.
Proof.
  intros Ht HD. destruct o as [h|h]; unfold invoke; destruct (N.eq_dec h 1) as [->|Hne].
  - rewrite get_node_1, Ht, (d_lead _ _ _ (proj1 HD)). change (1 =? 1) with true. cbn iota.
    cbn [enter_ul St kind_of isputk]. splits; auto.
  - rewrite (get_node_ne _ _ _ _ _ _ Hne). cbn [kind_of]. unfold fin_ok. splits; auto.
  - rewrite get_node_1. cbn [St kind_of]. splits; auto.
  - rewrite (get_node_ne _ _ _ _ _ _ Hne). cbn [kind_of]. unfold fin_ok. splits; auto.
Qed.

(* ---------- the two acceptors along one token ---------- *)
Definition hst := option (N * N * bool).
Definition Acc (Q : list cpayload) (hl : list (N * N)) (hc : hst) (subs : list csub)
               (Q' : list cpayload) (hl' : list (N * N)) (hc' : hst) : Prop :=
  (forall rest, c22_seq_scan Q' rest = true -> c22_seq_scan Q (subs ++ rest) = true) /\
  (forall rest, seq_hist hl' hc' rest = true -> seq_hist hl hc (subs ++ rest) = true).

Lemma Acc_nil Q hl hc : Acc Q hl hc [] Q hl hc.
Proof. split; intros rest H; exact H. Qed.

Lemma Acc_trans Q0 hl0 hc0 s1 Q1 hl1 hc1 s2 Q2 hl2 hc2 :
  Acc Q0 hl0 hc0 s1 Q1 hl1 hc1 -> Acc Q1 hl1 hc1 s2 Q2 hl2 hc2 -> Acc Q0 hl0 hc0 (s1 ++ s2) Q2 hl2 hc2.
Proof. intros [A1 A2] [B1 B2]. split; intros rest H; rewrite <- app_assoc; auto. Qed.

Lemma Acc_quiet Q hl hc subs : quiet subs = true -> Acc Q hl hc subs Q hl hc.
Proof.
  induction subs as [|e subs IH]; intros H; [apply Acc_nil|].
  cbn [quiet forallb] in H. apply andb_prop in H. destruct H as [He Hs]. specialize (IH Hs). destruct IH as [A1 A2].
  split; intros rest H; cbn [app]; destruct e; try discriminate; cbn [c22_seq_scan seq_hist]; auto.
Qed.

Lemma Acc_inv Q hl c k b n :
  (forall k0, lookup N.compare c hl = Some k0 -> k0 < k) ->
  Acc Q hl None [EInv c k b n] Q (ins N.compare c k hl) (Some (c, k, b)).
Proof.
  intros H. split; intros rest Hr; cbn [app c22_seq_scan seq_hist]; [exact Hr|].
  destruct (lookup N.compare c hl) as [k0|] eqn:E; [|exact Hr].
  rewrite Hr, andb_true_r. apply N.ltb_lt. auto.
Qed.

Lemma pl_eqb_refl a : pl_eqb a a = true.
Proof. unfold pl_eqb. now rewrite !N.eqb_refl. Qed.

Lemma Acc_resp kd r x t Q Q' hl c k b :
  fin_ok kd r x t Q Q' -> kp kd (c, k) -> res_fits b r = true -> Acc Q hl (Some (c, k, b)) [EResp c k r] Q' hl None.
Proof.
  intros [_ Hf] Hk Hb. split; intros rest Hr; cbn [app seq_hist].
  - destruct kd, r; try contradiction; cbn [c22_seq_scan kp] in *; subst; auto.
    + destruct Hf; subst. exact Hr.
    + now rewrite pl_eqb_refl.
  - now rewrite !N.eqb_refl, Hb, Hr.
Qed.

Lemma fin_fits p o r x t Q Q' : fin_ok (kind_of p o) r x t Q Q' -> res_fits (is_put o) r = true.
Proof. intros [_ H]. destruct o, r; cbn in *; auto. Qed.

(* ---------- the invariant ---------- *)
Definition idle (cs : list client) : Prop := forall j cj, nth_error cs j = Some cj -> cl_pc cj = None.

Definition hist_ok (cs : list client) (hl : list (N * N)) : Prop :=
  forall j cj k0, nth_error cs j = Some cj -> lookup N.compare (N.of_nat j) hl = Some k0 ->
    match cl_pc cj with None => k0 < cl_k cj | Some _ => k0 <= cl_k cj end.

Inductive Active (cs : list client) (x : node) (t : tstate) (Q : list cpayload) : hst -> cpc -> cpc -> Prop :=
| ARest : idle cs -> D x t Q -> Active cs x t Q None (PLTick 1) (PMTick 1)
| AClient i ci o rest pc :
    nth_error cs i = Some ci -> cl_ops ci = o :: rest -> cl_pc ci = Some pc ->
    (forall j cj, j <> i -> nth_error cs j = Some cj -> cl_pc cj = None) ->
    St (kind_of (N.of_nat i, cl_k ci) o) pc x t Q ->
    Active cs x t Q (Some (N.of_nat i, cl_k ci, is_put o)) (PLTick 1) (PMTick 1)
| ALease lpc : idle cs -> pc_at_rest (Some lpc) = false -> St KLease lpc x t Q -> Active cs x t Q None lpc (PMTick 1)
| AMon mpc : idle cs -> pc_at_rest (Some mpc) = false -> St KMon mpc x t Q -> Active cs x t Q None (PLTick 1) mpc.

Inductive Inv : cst -> list cpayload -> list (N * N) -> hst -> Prop :=
| Inv_intro x t lpc mpc log cs Q hl hc :
    nd_applied x = length log -> topic_of (nd_meta x) = Some t -> hist_ok cs hl ->
    Active cs x t Q hc lpc mpc ->
    Inv (mkSt [(1, x)] log cs [(1, lpc)] [(1, mpc)]) Q hl hc.

Lemma St_client_busy p o pc x t Q : St (kind_of p o) pc x t Q -> pc_at_rest (Some pc) = false.
Proof. destruct pc; cbn; try reflexivity; intros (_ & E & _); destruct o; discriminate. Qed.

Lemma St_lease_cases pc x t Q : St KLease pc x t Q -> (pc = PLTick 1 /\ D x t Q) \/ pc_at_rest (Some pc) = false.
Proof. destruct pc; cbn; auto. - intros (-> & _ & H). auto. - intros (_ & E & _). discriminate. Qed.

Lemma St_mon_cases pc x t Q : St KMon pc x t Q -> (pc = PMTick 1 /\ D x t Q) \/ pc_at_rest (Some pc) = false.
Proof. destruct pc; cbn; auto. - intros (_ & E & _). discriminate. - intros (-> & _ & H). auto. Qed.

Lemma Active_lease cs x t Q pc : idle cs -> St KLease pc x t Q -> Active cs x t Q None pc (PMTick 1).
Proof. intros Hi H. destruct (St_lease_cases _ _ _ _ H) as [[-> HD]|Hr]; [now apply ARest|now apply ALease]. Qed.

Lemma Active_mon cs x t Q pc : idle cs -> St KMon pc x t Q -> Active cs x t Q None (PLTick 1) pc.
Proof. intros Hi H. destruct (St_mon_cases _ _ _ _ H) as [[-> HD]|Hr]; [now apply ARest|now apply AMon]. Qed.

(* ---------- others_at_rest ---------- *)
Lemma forallb_combine_seq {A} (f : A -> bool) i : forall (l : list A) a,
  forallb (fun ic => Nat.eqb (fst ic) i || f (snd ic)) (combine (seq a (length l)) l) = true ->
  forall j y, nth_error l j = Some y -> (a + j)%nat <> i -> f y = true.
Proof.
  induction l as [|z l IH]; intros a H j y Hj Hne; [destruct j; discriminate|].
  cbn [length seq combine forallb fst snd] in H. apply andb_prop in H. destruct H as [H0 H1].
  destruct j as [|j]; cbn [nth_error] in Hj.
  - inversion Hj; subst. destruct (Nat.eqb_spec a i); [lia|]. exact H0.
  - apply (IH (S a) H1 j y Hj). lia.
Qed.

Lemma oar_C n l cs lpc mpc i :
  others_at_rest (mkSt n l cs [(1, lpc)] [(1, mpc)]) (EvC i) = true ->
  (forall j cj, j <> i -> nth_error cs j = Some cj -> pc_at_rest (cl_pc cj) = true) /\
  pc_at_rest (Some lpc) = true /\ pc_at_rest (Some mpc) = true.
Proof.
  unfold others_at_rest, rest_all. cbn [s_clients s_lease s_mon map forallb fst snd].
  rewrite !andb_true_r. intros H. apply andb_prop in H. destruct H as [H H3]. apply andb_prop in H. destruct H as [H1 H2].
  split; [|auto]. intros j cj Hne Hj.
  apply (forallb_combine_seq pc_at_rest i (map cl_pc cs) 0%nat H1 j (cl_pc cj)); [now apply map_nth_error|lia].
Qed.

Lemma forallb_nth {A} (f : A -> bool) l : forallb f l = true -> forall j y, nth_error l j = Some y -> f y = true.
Proof. intros H j y Hj. rewrite forallb_forall in H. apply H. eapply nth_error_In; eauto. Qed.

Lemma oar_L n l cs lpc mpc k :
  others_at_rest (mkSt n l cs [(1, lpc)] [(1, mpc)]) (EvL k) = true ->
  (forall j cj, nth_error cs j = Some cj -> pc_at_rest (cl_pc cj) = true) /\ pc_at_rest (Some mpc) = true.
Proof.
  unfold others_at_rest, rest_all. cbn [s_clients s_lease s_mon map forallb fst snd].
  rewrite !andb_true_r. intros H. apply andb_prop in H. destruct H as [H H3]. apply andb_prop in H. destruct H as [H1 H2].
  split; [|auto]. intros j cj Hj. apply (forallb_nth _ _ H1 j). now apply map_nth_error.
Qed.

Lemma oar_M n l cs lpc mpc k :
  others_at_rest (mkSt n l cs [(1, lpc)] [(1, mpc)]) (EvM k) = true ->
  (forall j cj, nth_error cs j = Some cj -> pc_at_rest (cl_pc cj) = true) /\ pc_at_rest (Some lpc) = true.
Proof.
  unfold others_at_rest, rest_all. cbn [s_clients s_lease s_mon map forallb fst snd].
  rewrite !andb_true_r. intros H. apply andb_prop in H. destruct H as [H H3]. apply andb_prop in H. destruct H as [H1 H2].
  split; [|auto]. intros j cj Hj. apply (forallb_nth _ _ H1 j). now apply map_nth_error.
Qed.

Lemma rest_none (c : client) p o pc x t Q : cl_pc c = Some pc -> St (kind_of p o) pc x t Q -> pc_at_rest (cl_pc c) = true -> False.
Proof. intros E H R. rewrite E, (St_client_busy _ _ _ _ _ _ H) in R. discriminate. Qed.

(* ---------- a client's step, from the outcome to the next state ---------- *)
Definition hist_mid (cs : list client) (i : nat) (ci : client) (hl : list (N * N)) : Prop :=
  forall j cj k0, nth_error cs j = Some cj -> lookup N.compare (N.of_nat j) hl = Some k0 ->
    if Nat.eqb j i then k0 <= cl_k ci else k0 < cl_k cj.

Lemma client_yield cs i ci o rest x1 t1 log1 Q pc' subs pre hl hc hl0 :
  nth_error cs i = Some ci -> cl_ops ci = o :: rest ->
  (forall j cj, j <> i -> nth_error cs j = Some cj -> cl_pc cj = None) ->
  nd_applied x1 = length log1 -> topic_of (nd_meta x1) = Some t1 ->
  quiet subs = true -> St (kind_of (N.of_nat i, cl_k ci) o) pc' x1 t1 Q ->
  Acc Q hl hc pre Q hl0 (Some (N.of_nat i, cl_k ci, is_put o)) -> hist_mid cs i ci hl0 ->
  exists Q' hl' hc',
    Inv (mkSt [(1, x1)] log1 (set_nth i (mkClient (o :: rest) (cl_k ci) (Some pc')) cs) [(1, PLTick 1)] [(1, PMTick 1)]) Q' hl' hc' /\
    Acc Q hl hc (pre ++ subs) Q' hl' hc'.
Proof.
  intros Hi Hops Hoth Ha Ht Hq HSt HAcc Hmid.
  exists Q, hl0, (Some (N.of_nat i, cl_k ci, is_put o)). split.
  - apply Inv_intro with (t := t1); auto.
    + intros j cj k0 Hj Hl. destruct (Nat.eq_dec j i) as [->|Hne].
      * rewrite (nth_set_nth_same _ _ _ _ Hi) in Hj. inversion Hj; subst cj. cbn [cl_pc cl_k].
        specialize (Hmid i ci k0 Hi Hl). now rewrite Nat.eqb_refl in Hmid.
      * rewrite nth_set_nth_other in Hj by exact Hne. specialize (Hmid j cj k0 Hj Hl).
        destruct (Nat.eqb_spec j i); [contradiction|]. now rewrite (Hoth j cj Hne Hj).
    + apply (AClient _ _ _ _ i (mkClient (o :: rest) (cl_k ci) (Some pc')) o rest pc'); auto.
      * eapply nth_set_nth_same; eauto.
      * intros j cj Hne Hj. rewrite nth_set_nth_other in Hj by exact Hne. eauto.
  - eapply Acc_trans; [exact HAcc|]. now apply Acc_quiet.
Qed.

Lemma client_finish cs i ci o rest x1 t1 log1 Q r subs pre hl hc hl0 Q' :
  nth_error cs i = Some ci -> cl_ops ci = o :: rest ->
  (forall j cj, j <> i -> nth_error cs j = Some cj -> cl_pc cj = None) ->
  nd_applied x1 = length log1 -> topic_of (nd_meta x1) = Some t1 ->
  quiet subs = true -> fin_ok (kind_of (N.of_nat i, cl_k ci) o) r x1 t1 Q Q' ->
  Acc Q hl hc pre Q hl0 (Some (N.of_nat i, cl_k ci, is_put o)) -> hist_mid cs i ci hl0 ->
  exists Q' hl' hc',
    Inv (mkSt [(1, x1)] log1 (set_nth i (mkClient rest (cl_k ci + 1) None) cs) [(1, PLTick 1)] [(1, PMTick 1)]) Q' hl' hc' /\
    Acc Q hl hc (pre ++ subs ++ [EResp (N.of_nat i) (cl_k ci) r]) Q' hl' hc'.
Proof.
  intros Hi Hops Hoth Ha Ht Hq Hfin HAcc Hmid.
  exists Q', hl0, None. split.
  - apply Inv_intro with (t := t1); auto.
    + intros j cj k0 Hj Hl. destruct (Nat.eq_dec j i) as [->|Hne].
      * rewrite (nth_set_nth_same _ _ _ _ Hi) in Hj. inversion Hj; subst cj. cbn [cl_pc cl_k].
        specialize (Hmid i ci k0 Hi Hl). rewrite Nat.eqb_refl in Hmid. lia.
      * rewrite nth_set_nth_other in Hj by exact Hne. specialize (Hmid j cj k0 Hj Hl).
        destruct (Nat.eqb_spec j i); [contradiction|]. now rewrite (Hoth j cj Hne Hj).
    + apply ARest; [|exact (proj1 Hfin)].
      intros j cj Hj. destruct (Nat.eq_dec j i) as [->|Hne].
      * rewrite (nth_set_nth_same _ _ _ _ Hi) in Hj. inversion Hj; subst cj. reflexivity.
      * rewrite nth_set_nth_other in Hj by exact Hne. eauto.
  - eapply Acc_trans; [exact HAcc|]. eapply Acc_trans; [now apply Acc_quiet|].
    eapply Acc_resp; [exact Hfin|apply kp_kind_of|eapply fin_fits; exact Hfin].
Qed.

Lemma unchanged cfg x lpc mpc log cs Q hl hc :
  cf_nodes cfg = 1 -> Inv (mkSt [(1, x)] log cs [(1, lpc)] [(1, mpc)]) Q hl hc ->
  exists Q' hl' hc', Inv (apply_everywhere cfg (mkSt [(1, x)] log cs [(1, lpc)] [(1, mpc)])) Q' hl' hc' /\ Acc Q hl hc [] Q' hl' hc'.
Proof.
  intros Hn H. inversion H; subst. rewrite ae_id by assumption. exists Q, hl, hc. split; [exact H|apply Acc_nil].
Qed.

Lemma lookup_single_ne {V} (v : V) n : n <> 1 -> lookup N.compare n [(1, v)] = None.
Proof. intros H. cbn [lookup]. destruct (N.compare n 1) eqn:E; auto. apply N.compare_eq in E. contradiction. Qed.

(* ---------- one step of the sequential system ---------- *)
Lemma seq_step_inv cfg s ev s' tok Q hl hc :
  cf_nodes cfg = 1 -> Inv s Q hl hc -> seq_step cfg s ev = (s', tok) ->
  exists Q' hl' hc', Inv s' Q' hl' hc' /\ Acc Q hl hc (snd tok) Q' hl' hc'.
Proof.
  intros Hn HInv. pose proof HInv as HInv0. destruct HInv as [x t lpc mpc log cs Q hl hc Ha Ht Hh HAct].
  assert (Hstay : forall s' tok, (mkSt [(1, x)] log cs [(1, lpc)] [(1, mpc)], (SBlocked, @nil csub)) = (s', tok) ->
                  exists Q' hl' hc', Inv s' Q' hl' hc' /\ Acc Q hl hc (snd tok) Q' hl' hc').
  { intros s0 tok0 E. inversion E; subst. exists Q, hl, hc. split; [exact HInv0|apply Acc_nil]. }
  destruct ev as [i|n|n|n|n]; unfold seq_step.
  - (* a client *)
    destruct (others_at_rest _ (EvC i)) eqn:Hoar; [|apply Hstay].
    apply oar_C in Hoar. destruct Hoar as (Hoc & Hol & Hom).
    cbn [cl_step]. unfold step_client. cbn [s_clients].
    destruct (nth_error cs i) as [ci|] eqn:Eci.
    2:{ intros E; inversion E; subst. cbn [snd]. now apply (unchanged cfg x). }
    destruct (cl_ops ci) as [|o rest] eqn:Eops.
    { intros E; inversion E; subst. cbn [snd]. now apply (unchanged cfg x). }
    destruct (cl_pc ci) as [pc|] eqn:Epc.
    + (* in flight *)
      assert (HA : (forall j cj, j <> i -> nth_error cs j = Some cj -> cl_pc cj = None) /\
                   St (kind_of (N.of_nat i, cl_k ci) o) pc x t Q /\ hc = Some (N.of_nat i, cl_k ci, is_put o) /\
                   lpc = PLTick 1 /\ mpc = PMTick 1).
      { inversion HAct; subst.
        - rewrite (H _ _ Eci) in Epc. discriminate.
        - destruct (Nat.eq_dec i0 i) as [->|Hne].
          + rewrite Eci in H. inversion H; subst ci0. rewrite Eops in H0. inversion H0; subst.
            rewrite Epc in H1. inversion H1; subst. auto.
          + exfalso. eapply (rest_none ci0); eauto.
        - rewrite (H _ _ Eci) in Epc. discriminate.
        - rewrite (H _ _ Eci) in Epc. discriminate. }
      destruct HA as (Hoth & HSt & -> & -> & ->).
      destruct (exec_pc cfg _ (N.of_nat i, cl_k ci) pc) as [s1 out] eqn:Ex.
      apply (exec_spec cfg x t Q _ _ _ _ _ _ _ _ _ Hn Ha Ht HSt (kp_kind_of _ _)) in Ex.
      destruct Ex as (Ec & El & Em & x1 & t1 & Hae & Ha1 & Ht1 & Hout).
      destruct s1 as [n1 log1 cs1 ls1 ms1]. cbn [s_clients s_lease s_mon s_nodes s_log] in *. subst cs1 ls1 ms1.
      assert (Hmid : hist_mid cs i ci hl).
      { intros j cj k0 Hj Hl. specialize (Hh j cj k0 Hj Hl). destruct (Nat.eqb_spec j i) as [->|Hne].
        - rewrite Eci in Hj. inversion Hj; subst cj. now rewrite Epc in Hh.
        - now rewrite (Hoth j cj Hne Hj) in Hh. }
      destruct out as [pc' st subs|r subs|subs pc']; cbn [out_ok] in Hout; unfold set_clients; cbn [s_clients s_lease s_mon s_nodes s_log];
        rewrite Hae; intros E; inversion E; subst; clear E; cbn [snd].
      * destruct Hout as [Hq HSt']. change subs with ([] ++ subs). eapply client_yield; eauto. apply Acc_nil.
      * destruct Hout as [Hq [Q' Hfin]]. change (subs ++ [EResp (N.of_nat i) (cl_k ci) r]) with ([] ++ subs ++ [EResp (N.of_nat i) (cl_k ci) r]).
        eapply client_finish; eauto. apply Acc_nil.
      * destruct Hout as [Hq HSt']. change subs with ([] ++ subs). eapply client_yield; eauto. apply Acc_nil.
    + (* invocation *)
      assert (HA : idle cs /\ D x t Q /\ hc = None /\ lpc = PLTick 1 /\ mpc = PMTick 1).
      { inversion HAct; subst.
        - auto.
        - destruct (Nat.eq_dec i0 i) as [->|Hne].
          + rewrite Eci in H. inversion H; subst ci0. rewrite Epc in H1. discriminate.
          + exfalso. eapply (rest_none ci0); eauto.
        - rewrite H0 in Hol. discriminate.
        - rewrite H0 in Hom. discriminate. }
      destruct HA as (Hidle & HD & -> & -> & ->).
      pose proof (invoke_spec x t Q log cs [(1, PLTick 1)] [(1, PMTick 1)] o (N.of_nat i, cl_k ci) Ht HD) as Hinv.
      assert (Hoth : forall j cj, j <> i -> nth_error cs j = Some cj -> cl_pc cj = None) by (intros; eauto).
      assert (HAcc : Acc Q hl None [EInv (N.of_nat i) (cl_k ci) (is_put o) (op_node o)] Q
                       (ins N.compare (N.of_nat i) (cl_k ci) hl) (Some (N.of_nat i, cl_k ci, is_put o))).
      { apply Acc_inv. intros k0 Hl. specialize (Hh i ci k0 Eci Hl). now rewrite Epc in Hh. }
      assert (Hmid : hist_mid cs i ci (ins N.compare (N.of_nat i) (cl_k ci) hl)).
      { intros j cj k0 Hj Hl. destruct (Nat.eqb_spec j i) as [->|Hne].
        - rewrite (lookup_ins_same N_cmp_ok) in Hl. inversion Hl; subst. lia.
        - rewrite (lookup_ins_other N_cmp_ok) in Hl by lia. specialize (Hh j cj k0 Hj Hl).
          now rewrite (Hidle j cj Hj) in Hh. }
      assert (Hae : forall cs' ls' ms', apply_everywhere cfg (mkSt [(1, x)] log cs' ls' ms') = mkSt [(1, x)] log cs' ls' ms')
        by (intros; now apply ae_id).
      destruct (invoke _ o) as [pc' st subs|r subs|subs pc']; unfold set_clients; cbn [s_clients s_lease s_mon s_nodes s_log];
        try rewrite Hae; intros E; inversion E; subst; clear E; cbn [snd].
      * destruct Hinv as [-> HSt'].
        match goal with |- context [Acc Q hl None ?l] =>
          change l with ([EInv (N.of_nat i) (cl_k ci) (is_put o) (op_node o)] ++ []) end.
        eapply client_yield; eauto.
      * destruct Hinv as [-> Hfin].
        match goal with |- context [Acc Q hl None ?l] =>
          change l with ([EInv (N.of_nat i) (cl_k ci) (is_put o) (op_node o)] ++ [] ++ [EResp (N.of_nat i) (cl_k ci) r]) end.
        eapply client_finish; eauto.
      * contradiction.
  - (* EvA *) intros E; inversion E; subst. exists Q, hl, hc. split; [exact HInv0|apply Acc_nil].
  - (* the lease loop *)
    destruct (others_at_rest _ (EvL n)) eqn:Hoar; [|apply Hstay].
    apply oar_L in Hoar. destruct Hoar as (Hoc & Hom).
    cbn [cl_step]. unfold step_bg. cbn [s_lease].
    destruct (N.eq_dec n 1) as [->|Hne].
    2:{ rewrite (lookup_single_ne lpc n Hne). intros E; inversion E; subst. cbn [snd]. now apply (unchanged cfg x). }
    change (lookup N.compare 1 [(1, lpc)]) with (Some lpc). cbv iota.
    assert (HA : idle cs /\ St KLease lpc x t Q /\ hc = None /\ mpc = PMTick 1).
    { inversion HAct; subst.
      - cbn [St]. auto.
      - exfalso. eapply (rest_none ci); eauto.
      - auto.
      - rewrite H0 in Hom. discriminate. }
    destruct HA as (Hidle & HSt & -> & ->).
    destruct (exec_pc cfg _ (0, 0) lpc) as [s1 out] eqn:Ex.
    apply (exec_spec cfg x t Q _ _ _ _ _ _ _ _ _ Hn Ha Ht HSt I) in Ex.
    destruct Ex as (Ec & El & Em & x1 & t1 & Hae & Ha1 & Ht1 & Hout).
    destruct s1 as [n1 log1 cs1 ls1 ms1]. cbn [s_clients s_lease s_mon s_nodes s_log] in *. subst cs1 ls1 ms1.
    destruct out as [pc' st subs|r subs|subs pc']; cbn [out_ok] in Hout; unfold set_lease_pc; cbn [s_clients s_lease s_mon s_nodes s_log ins];
      change (N.compare 1 1) with Eq; cbv iota; rewrite Hae; intros E; inversion E; subst; clear E; cbn [snd].
    + destruct Hout as [Hq HSt']. exists Q, hl, None. split; [|now apply Acc_quiet].
      apply Inv_intro with (t := t1); auto. now apply Active_lease.
    + destruct Hout as [_ [Q' [_ []]]].
    + destruct Hout as [Hq HSt']. exists Q, hl, None. split; [|now apply Acc_quiet].
      apply Inv_intro with (t := t1); auto. now apply Active_lease.
  - (* the monitor *)
    destruct (others_at_rest _ (EvM n)) eqn:Hoar; [|apply Hstay].
    apply oar_M in Hoar. destruct Hoar as (Hoc & Hol).
    cbn [cl_step]. unfold step_bg. cbn [s_mon].
    destruct (N.eq_dec n 1) as [->|Hne].
    2:{ rewrite (lookup_single_ne mpc n Hne). intros E; inversion E; subst. cbn [snd]. now apply (unchanged cfg x). }
    change (lookup N.compare 1 [(1, mpc)]) with (Some mpc). cbv iota.
    assert (HA : idle cs /\ St KMon mpc x t Q /\ hc = None /\ lpc = PLTick 1).
    { inversion HAct; subst.
      - cbn [St]. auto.
      - exfalso. eapply (rest_none ci); eauto.
      - rewrite H0 in Hol. discriminate.
      - auto. }
    destruct HA as (Hidle & HSt & -> & ->).
    destruct (exec_pc cfg _ (0, 0) mpc) as [s1 out] eqn:Ex.
    apply (exec_spec cfg x t Q _ _ _ _ _ _ _ _ _ Hn Ha Ht HSt I) in Ex.
    destruct Ex as (Ec & El & Em & x1 & t1 & Hae & Ha1 & Ht1 & Hout).
    destruct s1 as [n1 log1 cs1 ls1 ms1]. cbn [s_clients s_lease s_mon s_nodes s_log] in *. subst cs1 ls1 ms1.
    destruct out as [pc' st subs|r subs|subs pc']; cbn [out_ok] in Hout; unfold set_mon_pc; cbn [s_clients s_lease s_mon s_nodes s_log ins];
      change (N.compare 1 1) with Eq; cbv iota; rewrite Hae; intros E; inversion E; subst; clear E; cbn [snd].
    + destruct Hout as [Hq HSt']. exists Q, hl, None. split; [|now apply Acc_quiet].
      apply Inv_intro with (t := t1); auto. now apply Active_mon.
    + destruct Hout as [_ [Q' [_ []]]].
    + destruct Hout as [Hq HSt']. exists Q, hl, None. split; [|now apply Acc_quiet].
      apply Inv_intro with (t := t1); auto. now apply Active_mon.
  - (* EvR *) intros E; inversion E; subst. exists Q, hl, hc. split; [exact HInv0|apply Acc_nil].
Qed.

(* ---------- the initial state ---------- *)
Lemma init_inv thr clients : Inv (cl_init (mkCfg 1 thr 1 clients)) [] [] None.
Proof.
  set (cfg := mkCfg 1 thr 1 clients).
  assert (E : cl_init cfg = mkSt [(1, init_node cfg 1)] (boot_log cfg) (map (fun ops => mkClient ops 0 None) clients)
                              [(1, PLTick 1)] [(1, PMTick 1)]) by reflexivity.
  rewrite E. apply Inv_intro with (t := new_topic 1).
  - reflexivity.
  - vm_compute. reflexivity.
  - intros j cj k0 _ Hl. discriminate.
  - apply ARest.
    + intros j cj Hj. apply nth_error_In in Hj. apply in_map_iff in Hj. destruct Hj as (ops & <- & _). reflexivity.
    + split; [split|split]; cbn [new_topic t_cur t_leader t_leaders t_sealed fst snd].
      * reflexivity.
      * lia.
      * intros s l. cbn [ins lookup]. destruct (N.compare s 1); congruence.
      * intros s H1 H2. lia.
      * intros s _. split; reflexivity.
      * reflexivity.
      * change (fst (cur_of (init_node cfg 1))) with 0. lia.
      * change (fst (cur_of (init_node cfg 1))) with 0. intros s Hs. lia.
      * intros s _. reflexivity.
      * change (fst (cur_of (init_node cfg 1))) with 0. lia.
      * intros _. reflexivity.
Qed.

(* ---------- every schedule ---------- *)
Lemma seq_run_inv cfg : cf_nodes cfg = 1 -> forall sched s Q hl hc, Inv s Q hl hc ->
  c22_seq_scan Q (events (fst (seq_run cfg s sched))) = true /\
  seq_hist hl hc (events (fst (seq_run cfg s sched))) = true.
Proof.
  intros Hn. induction sched as [|e r IH]; intros s Q hl hc HInv.
  - cbn. destruct hc; auto.
  - cbn [seq_run]. destruct (seq_step cfg s e) as [s1 tk] eqn:E.
    destruct (seq_step_inv cfg s e s1 tk Q hl hc Hn HInv E) as (Q' & hl' & hc' & HInv' & [A1 A2]).
    specialize (IH s1 Q' hl' hc' HInv'). destruct (seq_run cfg s1 r) as [ts s2]. cbn [fst] in *.
    unfold events in *. cbn [flat_map]. destruct IH as [I1 I2]. auto.
Qed.

Theorem seq_model_ok : forall (cfg : ccfg) (sched : list cev),
  cf_nodes cfg = 1 -> cf_lead cfg = 1 -> 1 <= cf_thr cfg ->
  c22_seq_ok (seq_trace cfg sched) = true /\ seq_hist [] None (events (seq_trace cfg sched)) = true.
Proof.
  intros [n thr lead clients] sched Hn Hl _. cbn [cf_nodes cf_lead] in Hn, Hl. subst n lead.
  unfold c22_seq_ok, seq_trace. apply seq_run_inv; [reflexivity|]. apply init_inv.
Qed.

