(* Proofs about model/RaftStore.v against spec/RaftSpec.v (C21, C19). *)
From W Require Import model.Base model.RaftStore spec.RaftSpec.
From Coq Require Import ZArith ZifyBool ZifyN ZifyNat.

(* ====================================================================================== *)
(* A. small facts                                                                          *)
(* ====================================================================================== *)

Lemma replay_from_app : forall a b m, replay_from m (a ++ b) = replay_from (replay_from m a) b.
Proof. induction a as [|r a IH]; intros b m; cbn; [reflexivity|apply IH]. Qed.

Lemma replay_app a b : replay (a ++ b) = replay_from (replay a) b.
Proof. apply replay_from_app. Qed.

Lemma live_append_replay : forall es m, live_append m es = replay_from m (map RLog es).
Proof.
  induction es as [|e es IH]; intros m; cbn.
  - destruct m; reflexivity.
  - rewrite <- IH. unfold live_append. cbn. reflexivity.
Qed.

Lemma live_truncate_apply m l : live_truncate m l = apply_record m (RTruncated l).
Proof. reflexivity. Qed.
Lemma live_vote_apply m v : live_vote m v = apply_record m (RVote v).
Proof. reflexivity. Qed.
Lemma live_committed_apply m c : live_committed m c = apply_record m (RCommitted c).
Proof. reflexivity. Qed.
Lemma live_purge_apply m l m' : live_purge m l = Some m' -> m' = apply_record m (RPurged l).
Proof. unfold live_purge. destruct (opt_logid_le _ _); intros H; inversion H; reflexivity. Qed.

Lemma wal_append_all_log {A} : forall (ps : list A) w, w_log (wal_append_all w ps) = w_log w ++ ps.
Proof.
  induction ps as [|p ps IH]; intros w; cbn; [now rewrite app_nil_r|].
  rewrite IH. cbn. now rewrite <- app_assoc.
Qed.
Lemma wal_append_all_cur {A} : forall (ps : list A) w, w_cur (wal_append_all w ps) = w_cur w.
Proof. induction ps as [|p ps IH]; intros w; cbn; [reflexivity|]. now rewrite IH. Qed.

Lemma filter_keep_all {A} (l : list A) : filter keep_all l = l.
Proof. induction l as [|x l IH]; cbn; [reflexivity|now rewrite IH]. Qed.

Lemma skipn_app_length {A} (a b : list A) : skipn (length a) (a ++ b) = b.
Proof. induction a as [|x a IH]; cbn; [reflexivity|exact IH]. Qed.

Lemma opt_n_eqb_eq x y : opt_n_eqb x y = true <-> x = y.
Proof.
  destruct x as [a|], y as [b|]; cbn; split; intros H; try discriminate; try reflexivity.
  - apply N.eqb_eq in H. now subst.
  - inversion H. apply N.eqb_refl.
Qed.
Lemma opt_n_eqb_refl x : opt_n_eqb x x = true.
Proof. now apply opt_n_eqb_eq. Qed.

(* ---- the address book as a map ---- *)
Lemma pb_get_set k k' a b : pb_get k (pb_set k' a b) = if k =? k' then Some a else pb_get k b.
Proof.
  induction b as [|[k0 a0] b IH]; cbn [pb_set pb_get].
  - reflexivity.
  - destruct (k' <? k0) eqn:E1; cbn [pb_get].
    + reflexivity.
    + destruct (k' =? k0) eqn:E2; cbn [pb_get].
      * apply N.eqb_eq in E2; subst k0. destruct (k =? k'); reflexivity.
      * rewrite IH. destruct (k =? k0) eqn:E3; [|reflexivity].
        apply N.eqb_eq in E3; subst k0. destruct (k =? k') eqn:E4; [|reflexivity].
        apply N.eqb_eq in E4; subst k'. rewrite N.eqb_refl in E2. discriminate.
Qed.

Lemma book_same_refl b : book_same b b.
Proof. intros k; reflexivity. Qed.
Lemma book_same_sym a b : book_same a b -> book_same b a.
Proof. intros H k; symmetry; apply H. Qed.
Lemma book_same_trans a b c : book_same a b -> book_same b c -> book_same a c.
Proof. intros H1 H2 k; now rewrite H1. Qed.
Lemma book_same_set k a b b' : book_same b b' -> book_same (pb_set k a b) (pb_set k a b').
Proof. intros H k0. rewrite !pb_get_set. destruct (k0 =? k); [reflexivity|apply H]. Qed.

Lemma forallb_app_true {A} (f : A -> bool) (l1 l2 : list A) :
  forallb f (l1 ++ l2) = true <-> forallb f l1 = true /\ forallb f l2 = true.
Proof. rewrite forallb_app. apply andb_true_iff. Qed.

Lemma pb_get_not_in k b : ~ In k (map fst b) -> pb_get k b = None.
Proof.
  induction b as [|[k0 a0] b IH]; cbn; intros H; [reflexivity|].
  destruct (k =? k0) eqn:E.
  - apply N.eqb_eq in E. subst. exfalso. apply H. now left.
  - apply IH. intros HI. apply H. now right.
Qed.

Lemma book_eqb_same a b : book_eqb a b = true <-> book_same a b.
Proof.
  unfold book_eqb. split.
  - intros H k. rewrite forallb_forall in H.
    destruct (in_dec N.eq_dec k (map fst a ++ map fst b)) as [HI|HN].
    + apply opt_n_eqb_eq. apply H. exact HI.
    + rewrite pb_get_not_in, pb_get_not_in; [reflexivity| |];
        intros HI; apply HN; apply in_or_app; [now right|now left].
  - intros H. apply forallb_forall. intros k _. apply opt_n_eqb_eq. apply H.
Qed.

Lemma replay_peers_from_app : forall a b m,
  replay_peers_from m (a ++ b) = replay_peers_from (replay_peers_from m a) b.
Proof. induction a as [|[k x] a IH]; intros b m; cbn; [reflexivity|apply IH]. Qed.

(* replaying the same records over two books that agree away from key n keeps them agreeing there *)
Lemma replay_peers_from_away n : forall rs m m',
  (forall k, k <> n -> pb_get k m = pb_get k m') ->
  forall k, k <> n -> pb_get k (replay_peers_from m rs) = pb_get k (replay_peers_from m' rs).
Proof.
  induction rs as [|[k0 a0] rs IH]; intros m m' H k Hk; cbn; [now apply H|].
  apply IH; [|exact Hk]. intros k1 Hk1. rewrite !pb_get_set.
  destruct (k1 =? k0); [reflexivity|now apply H].
Qed.

Lemma replay_peers_from_same : forall rs m m', book_same m m' ->
  book_same (replay_peers_from m rs) (replay_peers_from m' rs).
Proof.
  induction rs as [|[k0 a0] rs IH]; intros m m' H; cbn; [exact H|].
  apply IH. now apply book_same_set.
Qed.

(* ---- the start-up loop over config.peers ---- *)
Lemma peer_assert_emits node : forall ps b w,
  peer_assert node ps b w =
  (replay_peers_from b (assert_emits node ps b), wal_append_all w (assert_emits node ps b)).
Proof.
  induction ps as [|p ps IH]; intros b w; cbn [peer_assert assert_emits]; [reflexivity|].
  destruct (negb (peer_id_of p =? node) && (0 <? peer_id_of p)); [|apply IH].
  unfold peer_upsert. destruct (opt_n_eqb (pb_get (peer_id_of p) b) (Some p)); rewrite IH; reflexivity.
Qed.

Lemma ideal_assert_emits node : forall ps b,
  ideal_assert node ps b = replay_peers_from b (assert_emits node ps b).
Proof.
  induction ps as [|p ps IH]; intros b; cbn [ideal_assert assert_emits]; [reflexivity|].
  destruct (negb (peer_id_of p =? node) && (0 <? peer_id_of p)); [|apply IH].
  destruct (opt_n_eqb (pb_get (peer_id_of p) b) (Some p)); rewrite IH; reflexivity.
Qed.

Lemma assert_emits_same node : forall ps b b', book_same b b' ->
  assert_emits node ps b = assert_emits node ps b'.
Proof.
  induction ps as [|p ps IH]; intros b b' H; cbn [assert_emits]; [reflexivity|].
  destruct (negb (peer_id_of p =? node) && (0 <? peer_id_of p)); [|now apply IH].
  rewrite (H (peer_id_of p)).
  destruct (opt_n_eqb (pb_get (peer_id_of p) b') (Some p)); [now apply IH|].
  f_equal. apply IH. now apply book_same_set.
Qed.

(* ====================================================================================== *)
(* B. the invariant that ties the node to the ghost accounting                              *)
(* ====================================================================================== *)

Definition book_of (c : ncfg) (vis cur : list prec) : book :=
  replay_peers_from (pb_set (c_node c) (c_bind c) (replay_peers vis)) cur.

Record Inv (c : ncfg) (n : node) (g : ghost) : Prop := mkInv {
  i_llog : w_log (n_lw n) = g_lost g ++ g_vis g ++ g_cur g;
  i_lcur : c_mode c = Consuming -> w_cur (n_lw n) = length (g_lost g ++ g_vis g);
  i_llost : c_mode c = Replaying -> g_lost g = [];
  i_mem : n_mem n = replay (g_vis g ++ g_cur g);
  i_plog : w_log (n_pw n) = p_lost g ++ p_vis g ++ p_cur g;
  i_pcur : c_mode c = Consuming -> w_cur (n_pw n) = length (p_lost g ++ p_vis g);
  i_plost : c_mode c = Replaying -> p_lost g = [];
  i_book : n_book n = book_of c (p_vis g) (p_cur g)
}.

Lemma node_open_spec c lw pw :
  let rs := skipn (w_cur lw) (w_log lw) in
  let prs := skipn (w_cur pw) (w_log pw) in
  let em := start_emits c prs in
  node_open c lw pw =
  mkNode (mkWal (w_log lw) (length (w_log lw)) (w_off lw)) (replay rs)
         (wal_append_all (mkWal (w_log pw) (length (w_log pw)) (w_off pw)) em)
         (book_of c prs em).
Proof.
  cbn zeta. unfold node_open, wal_read_all. rewrite !filter_keep_all.
  rewrite peer_assert_emits. unfold book_of, start_emits. reflexivity.
Qed.

Lemma inv_init c : Inv c (node_init c) (ghost_init c).
Proof.
  unfold node_init. rewrite node_open_spec. cbn.
  constructor; cbn; try reflexivity; try (intros _; reflexivity).
  - now rewrite wal_append_all_log.
  - intros _. now rewrite wal_append_all_cur.
Qed.

Lemma inv_step c n g o :
  Inv c n g -> Inv c (fst (node_step c n o)) (ghost_step c g o (snd (node_step c n o))).
Proof.
  intros I. destruct I as [Hl Hlc Hll Hm Hp Hpc Hpl Hb].
  destruct o as [es|l|l|v|cm|k a| | |]; cbn [node_step].
  - (* append *)
    cbn [fst snd ghost_step acks packs]. constructor; cbn [n_lw n_mem n_pw n_book g_lost g_vis g_cur p_lost p_vis p_cur].
    + rewrite wal_append_all_log, Hl. now rewrite <- !app_assoc.
    + intros E. rewrite wal_append_all_cur. now apply Hlc.
    + exact Hll.
    + rewrite live_append_replay, Hm, app_assoc. symmetry. apply replay_app.
    + now rewrite app_nil_r.
    + exact Hpc.
    + exact Hpl.
    + now rewrite app_nil_r.
  - (* truncate *)
    cbn [fst snd ghost_step acks packs]. constructor; cbn [n_lw n_mem n_pw n_book g_lost g_vis g_cur p_lost p_vis p_cur wal_append w_log w_cur fst].
    + rewrite Hl. now rewrite <- !app_assoc.
    + exact Hlc.
    + exact Hll.
    + rewrite live_truncate_apply, Hm, app_assoc. symmetry. apply replay_app.
    + now rewrite app_nil_r.
    + exact Hpc.
    + exact Hpl.
    + now rewrite app_nil_r.
  - (* purge *)
    destruct (live_purge (n_mem n) l) as [m'|] eqn:E.
    + cbn [fst snd ghost_step acks packs]. apply live_purge_apply in E.
      constructor; cbn [n_lw n_mem n_pw n_book g_lost g_vis g_cur p_lost p_vis p_cur wal_append w_log w_cur fst].
      * rewrite Hl. now rewrite <- !app_assoc.
      * exact Hlc.
      * exact Hll.
      * rewrite E, Hm, app_assoc. symmetry. apply replay_app.
      * now rewrite app_nil_r.
      * exact Hpc.
      * exact Hpl.
      * now rewrite app_nil_r.
    + cbn [fst snd ghost_step acks packs].
      constructor; cbn [g_lost g_vis g_cur p_lost p_vis p_cur]; rewrite ?app_nil_r; assumption.
  - (* vote *)
    cbn [fst snd ghost_step acks packs]. constructor; cbn [n_lw n_mem n_pw n_book g_lost g_vis g_cur p_lost p_vis p_cur wal_append w_log w_cur fst].
    + rewrite Hl. now rewrite <- !app_assoc.
    + exact Hlc.
    + exact Hll.
    + rewrite live_vote_apply, Hm, app_assoc. symmetry. apply replay_app.
    + now rewrite app_nil_r.
    + exact Hpc.
    + exact Hpl.
    + now rewrite app_nil_r.
  - (* committed *)
    cbn [fst snd ghost_step acks packs]. constructor; cbn [n_lw n_mem n_pw n_book g_lost g_vis g_cur p_lost p_vis p_cur wal_append w_log w_cur fst].
    + rewrite Hl. now rewrite <- !app_assoc.
    + exact Hlc.
    + exact Hll.
    + rewrite live_committed_apply, Hm, app_assoc. symmetry. apply replay_app.
    + now rewrite app_nil_r.
    + exact Hpc.
    + exact Hpl.
    + now rewrite app_nil_r.
  - (* peer *)
    unfold peer_upsert. destruct (opt_n_eqb (pb_get k (n_book n)) (Some a)) eqn:E;
      cbn [fst snd ghost_step acks packs];
      constructor; cbn [n_lw n_mem n_pw n_book g_lost g_vis g_cur p_lost p_vis p_cur wal_append w_log w_cur fst];
      rewrite ?app_nil_r; try assumption.
    + rewrite Hp. now rewrite <- !app_assoc.
    + rewrite Hb. unfold book_of. rewrite replay_peers_from_app. reflexivity.
  - (* reopen *)
    cbn [fst snd]. rewrite node_open_spec. cbn [wal_reopen w_log w_cur w_off].
    unfold ghost_step. destruct (c_mode c) eqn:EM.
    + (* Consuming *)
      rewrite (Hlc eq_refl), (Hpc eq_refl). rewrite Hl, Hp.
      rewrite !app_assoc, !skipn_app_length.
      constructor; cbn [n_lw n_mem n_pw n_book g_lost g_vis g_cur p_lost p_vis p_cur w_log w_cur];
        rewrite ?wal_append_all_log, ?wal_append_all_cur; cbn [w_log w_cur];
        rewrite ?app_nil_r, <- ?app_assoc; try reflexivity; try (intros; congruence); intros _; reflexivity.
    + (* Replaying *)
      rewrite (Hll eq_refl) in *. rewrite (Hpl eq_refl) in *. cbn [app] in *. cbn [skipn].
      rewrite Hl, Hp.
      constructor; cbn [n_lw n_mem n_pw n_book g_lost g_vis g_cur p_lost p_vis p_cur w_log w_cur app];
        rewrite ?wal_append_all_log, ?wal_append_all_cur; cbn [w_log w_cur];
        rewrite ?app_nil_r, <- ?app_assoc; try reflexivity; try (intros; congruence); intros _; reflexivity.
  - (* state *)
    cbn [fst snd ghost_step acks packs]. constructor; cbn [g_lost g_vis g_cur p_lost p_vis p_cur]; rewrite ?app_nil_r; assumption.
  - (* peers *)
    cbn [fst snd ghost_step acks packs]. constructor; cbn [g_lost g_vis g_cur p_lost p_vis p_cur]; rewrite ?app_nil_r; assumption.
Qed.

Lemma run_from_cons c n o r :
  run_from c n (o :: r) =
  (fst (run_from c (fst (node_step c n o)) r), (o, snd (node_step c n o)) :: snd (run_from c (fst (node_step c n o)) r)).
Proof.
  cbn [run_from]. destruct (node_step c n o) as [n' x]. cbn [fst snd].
  destruct (run_from c n' r) as [n'' tr]. reflexivity.
Qed.

Lemma inv_run c : forall h n g, Inv c n g ->
  Inv c (fst (run_from c n h)) (ghost_run c g (snd (run_from c n h))).
Proof.
  induction h as [|o r IH]; intros n g I; [exact I|].
  rewrite run_from_cons. cbn [fst snd ghost_run]. apply IH. now apply inv_step.
Qed.

Lemma inv_final c h : Inv c (final c h) (ghost_of c h).
Proof. unfold final, ghost_of, trace, node_run. apply inv_run. apply inv_init. Qed.

Lemma run_from_ops c : forall h n, map fst (snd (run_from c n h)) = h.
Proof.
  induction h as [|o r IH]; intros n; [reflexivity|].
  rewrite run_from_cons. cbn [snd map fst]. now rewrite IH.
Qed.

(* ====================================================================================== *)
(* C. ghost facts                                                                          *)
(* ====================================================================================== *)

Lemma is_nil_true {A} (l : list A) : is_nil l = true <-> l = [].
Proof. destruct l; cbn; split; intros H; try reflexivity; discriminate. Qed.

Lemma ghost_step_lost c g o x :
  exists t1 t2, g_lost (ghost_step c g o x) = g_lost g ++ t1 /\ p_lost (ghost_step c g o x) = p_lost g ++ t2.
Proof.
  destruct o; cbn [ghost_step g_lost p_lost]; try (exists [], []; now rewrite !app_nil_r).
  destruct (c_mode c); cbn [g_lost p_lost].
  - exists (g_vis g), (p_vis g). split; reflexivity.
  - exists [], []. now rewrite !app_nil_r.
Qed.

Lemma ghost_run_lost c : forall tr g,
  exists t1 t2, g_lost (ghost_run c g tr) = g_lost g ++ t1 /\ p_lost (ghost_run c g tr) = p_lost g ++ t2.
Proof.
  induction tr as [|[o x] tr IH]; intros g; cbn [ghost_run].
  - exists [], []. now rewrite !app_nil_r.
  - destruct (IH (ghost_step c g o x)) as (a1 & a2 & H1 & H2).
    destruct (ghost_step_lost c g o x) as (b1 & b2 & H3 & H4).
    exists (b1 ++ a1), (b2 ++ a2). rewrite H1, H2, H3, H4. now rewrite <- !app_assoc.
Qed.

Lemma ghost_run_lost_nil c tr g :
  g_lost (ghost_run c g tr) = [] -> p_lost (ghost_run c g tr) = [] -> g_lost g = [] /\ p_lost g = [].
Proof.
  intros H1 H2. destruct (ghost_run_lost c tr g) as (a1 & a2 & E1 & E2).
  rewrite E1 in H1. rewrite E2 in H2.
  apply app_eq_nil in H1. apply app_eq_nil in H2. tauto.
Qed.

Lemma ackl_app a b : ackl (a ++ b) = ackl a ++ ackl b.
Proof. unfold ackl. apply flat_map_app. Qed.

Lemma acks_reopen x : acks SReopen x = [].
Proof. reflexivity. Qed.

Lemma ghost_total c : forall tr g,
  g_lost (ghost_run c g tr) ++ g_vis (ghost_run c g tr) ++ g_cur (ghost_run c g tr)
  = (g_lost g ++ g_vis g ++ g_cur g) ++ ackl tr.
Proof.
  induction tr as [|[o x] tr IH]; intros g; cbn [ghost_run].
  - unfold ackl. cbn. now rewrite app_nil_r.
  - rewrite IH. change (ackl ((o, x) :: tr)) with (acks o x ++ ackl tr).
    destruct o; cbn [ghost_step g_lost g_vis g_cur]; rewrite <- ?app_assoc; try reflexivity.
    destruct (c_mode c); cbn [g_lost g_vis g_cur]; rewrite acks_reopen; cbn [app];
      rewrite ?app_nil_r, <- ?app_assoc; reflexivity.
Qed.

(* the ghost lists are the acknowledged records of the lifetimes of the trace *)
Lemma ghost_split_consuming c : c_mode c = Consuming -> forall tr g e p cu,
  g_lost g = ackl e -> g_vis g = ackl p -> g_cur g = ackl cu ->
  let '(e', p', cu') := split3 e p cu tr in
  g_lost (ghost_run c g tr) = ackl e' /\ g_vis (ghost_run c g tr) = ackl p' /\ g_cur (ghost_run c g tr) = ackl cu'.
Proof.
  intros EM. induction tr as [|[o x] tr IH]; intros g e p cu H1 H2 H3; cbn [split3 ghost_run].
  - tauto.
  - destruct (is_reopen o) eqn:ER.
    + destruct o; try discriminate. apply IH; cbn [ghost_step]; rewrite EM; cbn [g_lost g_vis g_cur].
      * now rewrite ackl_app, H1, H2.
      * exact H3.
      * reflexivity.
    + apply IH.
      * destruct o; try discriminate; exact H1.
      * destruct o; try discriminate; exact H2.
      * rewrite ackl_app. unfold ackl at 2. cbn [flat_map fst snd]. rewrite app_nil_r.
        destruct o; try discriminate; cbn [ghost_step g_cur]; now rewrite H3.
Qed.

Lemma ghost_split_replaying c : c_mode c = Replaying -> forall tr g e p cu,
  g_lost g = [] -> g_vis g = ackl (e ++ p) -> g_cur g = ackl cu ->
  let '(e', p', cu') := split3 e p cu tr in
  g_lost (ghost_run c g tr) = [] /\ g_vis (ghost_run c g tr) = ackl (e' ++ p') /\ g_cur (ghost_run c g tr) = ackl cu'.
Proof.
  intros EM. induction tr as [|[o x] tr IH]; intros g e p cu H1 H2 H3; cbn [split3 ghost_run].
  - tauto.
  - destruct (is_reopen o) eqn:ER.
    + destruct o; try discriminate. apply IH; cbn [ghost_step]; rewrite EM; cbn [g_lost g_vis g_cur].
      * exact H1.
      * now rewrite ackl_app, H2, H3.
      * reflexivity.
    + apply IH.
      * destruct o; try discriminate; exact H1.
      * destruct o; try discriminate; exact H2.
      * rewrite ackl_app. unfold ackl at 2. cbn [flat_map fst snd]. rewrite app_nil_r.
        destruct o; try discriminate; cbn [ghost_step g_cur]; now rewrite H3.
Qed.

(* with at most one reopen nothing has been lost *)
Lemma ghost_lost_le1 c : forall tr g,
  g_lost g = [] -> p_lost g = [] ->
  (g_vis g = [] /\ p_vis g = [] /\ (length (filter is_reopen (map fst tr)) <= 1)%nat)
  \/ length (filter is_reopen (map fst tr)) = 0%nat ->
  g_lost (ghost_run c g tr) = [] /\ p_lost (ghost_run c g tr) = [].
Proof.
  induction tr as [|[o x] tr IH]; intros g H1 H2 H; cbn [ghost_run]; [tauto|].
  cbn [map fst filter] in H.
  destruct (is_reopen o) eqn:ER.
  - destruct o; try discriminate. cbn [length] in H.
    destruct H as [(V1 & V2 & HL)|HL]; [|discriminate].
    apply IH.
    + cbn [ghost_step]. destruct (c_mode c); cbn [g_lost]; [now rewrite H1, V1|exact H1].
    + cbn [ghost_step]. destruct (c_mode c); cbn [p_lost]; [now rewrite H2, V2|exact H2].
    + right. lia.
  - apply IH.
    + destruct o; try discriminate; exact H1.
    + destruct o; try discriminate; exact H2.
    + destruct H as [(V1 & V2 & HL)|HL]; [left|right; exact HL].
      repeat split; try exact HL; destruct o; try discriminate; assumption.
Qed.

(* ====================================================================================== *)
(* D. the model against the ideal store                                                    *)
(* ====================================================================================== *)

Lemma logid_eqb_refl a : logid_eqb a a = true.
Proof. unfold logid_eqb. now rewrite !N.eqb_refl. Qed.
Lemma opt_logid_eqb_refl a : opt_logid_eqb a a = true.
Proof. destruct a; cbn; [apply logid_eqb_refl|reflexivity]. Qed.
Lemma str_eqb_refl : forall a, str_eqb a a = true.
Proof. induction a as [|x a IH]; cbn; [reflexivity|]. now rewrite N.eqb_refl, IH. Qed.
Lemma payload_eqb_refl a : payload_eqb a a = true.
Proof. destruct a; cbn; [reflexivity|apply str_eqb_refl|apply N.eqb_refl]. Qed.
Lemma entries_eqb_refl : forall a, entries_eqb a a = true.
Proof.
  induction a as [|x a IH]; cbn; [reflexivity|].
  unfold lentry_eqb. now rewrite logid_eqb_refl, payload_eqb_refl, IH.
Qed.
Lemma opt_vote_eqb_refl a : opt_vote_eqb a a = true.
Proof. destruct a as [v|]; cbn; [|reflexivity]. unfold vote_eqb. rewrite !N.eqb_refl. now destruct (v_committed v). Qed.
Lemma mem_eqb_refl m : mem_eqb m m = true.
Proof. unfold mem_eqb. now rewrite !opt_logid_eqb_refl, entries_eqb_refl, opt_vote_eqb_refl. Qed.

Lemma logid_eqb_eq a b : logid_eqb a b = true -> a = b.
Proof.
  destruct a, b. unfold logid_eqb. cbn. intros H.
  apply andb_true_iff in H. destruct H as [H H3]. apply andb_true_iff in H. destruct H as [H1 H2].
  apply N.eqb_eq in H1, H2, H3. now subst.
Qed.
Lemma opt_logid_eqb_eq a b : opt_logid_eqb a b = true -> a = b.
Proof. destruct a, b; cbn; intros H; try discriminate; [|reflexivity]. f_equal. now apply logid_eqb_eq. Qed.
Lemma str_eqb_eq : forall a b, str_eqb a b = true -> a = b.
Proof.
  induction a as [|x a IH]; intros [|y b] H; cbn in H; try discriminate; [reflexivity|].
  apply andb_true_iff in H. destruct H as [H1 H2]. apply N.eqb_eq in H1. subst. f_equal. now apply IH.
Qed.
Lemma payload_eqb_eq a b : payload_eqb a b = true -> a = b.
Proof.
  destruct a, b; cbn; intros H; try discriminate; [reflexivity| |].
  - f_equal. now apply str_eqb_eq.
  - apply N.eqb_eq in H. now subst.
Qed.
Lemma entries_eqb_eq : forall a b, entries_eqb a b = true -> a = b.
Proof.
  induction a as [|x a IH]; intros [|y b] H; cbn in H; try discriminate; [reflexivity|].
  apply andb_true_iff in H. destruct H as [H1 H2]. unfold lentry_eqb in H1.
  apply andb_true_iff in H1. destruct H1 as [H0 H1].
  apply logid_eqb_eq in H0. apply payload_eqb_eq in H1. destruct x, y. cbn in *. subst.
  f_equal. now apply IH.
Qed.
Lemma opt_vote_eqb_eq a b : opt_vote_eqb a b = true -> a = b.
Proof.
  destruct a as [x|], b as [y|]; cbn; intros H; try discriminate; [|reflexivity].
  unfold vote_eqb in H. apply andb_true_iff in H. destruct H as [H H3].
  apply andb_true_iff in H. destruct H as [H1 H2].
  apply N.eqb_eq in H1, H2. apply Bool.eqb_prop in H3. destruct x, y. cbn in *. now subst.
Qed.
Lemma mem_eqb_eq a b : mem_eqb a b = true <-> a = b.
Proof.
  split; [|intros ->; apply mem_eqb_refl].
  unfold mem_eqb. intros H.
  apply andb_true_iff in H. destruct H as [H H4]. apply andb_true_iff in H. destruct H as [H H3].
  apply andb_true_iff in H. destruct H as [H1 H2].
  apply opt_logid_eqb_eq in H1, H3. apply entries_eqb_eq in H2. apply opt_vote_eqb_eq in H4.
  destruct a, b. cbn in *. now subst.
Qed.

Definition Sim (n : node) (i : ideal) : Prop := n_mem n = fst i /\ book_same (n_book n) (snd i).

Lemma book_of_reload c vis cur b :
  book_same (book_of c vis cur) b ->
  book_same (pb_set (c_node c) (c_bind c) (replay_peers (vis ++ cur))) (pb_set (c_node c) (c_bind c) b).
Proof.
  intros H k. rewrite !pb_get_set. destruct (k =? c_node c) eqn:E; [reflexivity|].
  rewrite <- H. unfold book_of, replay_peers. rewrite replay_peers_from_app.
  apply replay_peers_from_away with (n := c_node c).
  - intros k1 Hk1. rewrite pb_get_set. apply N.eqb_neq in Hk1. now rewrite Hk1.
  - now apply N.eqb_neq.
Qed.

Lemma start_same c prs b :
  book_same (pb_set (c_node c) (c_bind c) (replay_peers prs)) (pb_set (c_node c) (c_bind c) b) ->
  book_same (book_of c prs (start_emits c prs)) (ideal_start c b).
Proof.
  intros H. unfold book_of, start_emits, ideal_start. rewrite ideal_assert_emits.
  rewrite (assert_emits_same _ _ _ _ H). now apply replay_peers_from_same.
Qed.

Lemma sim_init c : Sim (node_init c) (ideal_init c).
Proof.
  unfold node_init. rewrite node_open_spec. cbn. split; [reflexivity|].
  apply start_same. apply book_same_refl.
Qed.

Lemma sim_step c n g i o :
  Inv c n g -> Sim n i ->
  g_lost (ghost_step c g o (snd (node_step c n o))) = [] ->
  p_lost (ghost_step c g o (snd (node_step c n o))) = [] ->
  sres_eqb (snd (node_step c n o)) (snd (ideal_step c i o)) = true
  /\ Sim (fst (node_step c n o)) (fst (ideal_step c i o))
  /\ snd (node_step c n o) <> XErr.
Proof.
  intros I [SM SB] L1 L2. destruct i as [im ib]. cbn [fst snd] in SM, SB.
  destruct o as [es|l|l|v|cm|k a| | |]; cbn [node_step ideal_step].
  - cbn. rewrite SM. repeat split; try exact SB; discriminate.
  - cbn. rewrite SM. repeat split; try exact SB; discriminate.
  - rewrite SM. destruct (live_purge im l) as [m'|]; cbn; repeat split; try exact SB; try exact SM; discriminate.
  - cbn. rewrite SM. repeat split; try exact SB; discriminate.
  - cbn. rewrite SM. repeat split; try exact SB; discriminate.
  - unfold peer_upsert. rewrite (SB k).
    destruct (opt_n_eqb (pb_get k ib) (Some a)); cbn; repeat split; try exact SB; try exact SM; try discriminate.
    now apply book_same_set.
  - (* reopen *)
    destruct I as [Hl Hlc Hll Hm Hp Hpc Hpl Hb].
    cbn [fst snd] in *. rewrite node_open_spec. cbn [wal_reopen w_log w_cur w_off].
    unfold ghost_step in L1, L2.
    destruct (c_mode c) eqn:EM; cbn [g_lost p_lost] in L1, L2.
    + apply app_eq_nil in L1. apply app_eq_nil in L2. destruct L1 as [A1 A2], L2 as [B1 B2].
      rewrite (Hlc eq_refl), (Hpc eq_refl), Hl, Hp, A1, A2, B1, B2. cbn [app length skipn].
      repeat split; try discriminate; cbn [n_mem n_book fst snd].
      * rewrite <- SM, Hm, A2. reflexivity.
      * apply start_same. rewrite Hb, B2 in SB. apply (book_of_reload c [] (p_cur g) ib). exact SB.
    + rewrite (Hll eq_refl) in Hl. rewrite (Hpl eq_refl) in Hp. cbn [app] in Hl, Hp.
      rewrite Hl, Hp. cbn [skipn].
      repeat split; try discriminate; cbn [n_mem n_book fst snd].
      * rewrite <- SM, Hm. reflexivity.
      * apply start_same. rewrite Hb in SB. apply book_of_reload. exact SB.
  - cbn. repeat split; try exact SB; try exact SM; try discriminate. rewrite SM. apply mem_eqb_refl.
  - cbn. repeat split; try exact SB; try exact SM; try discriminate. now apply book_eqb_same.
Qed.

Lemma accept_cons c s o x rest : x <> XErr ->
  c21_accept_from c s ((o, x) :: rest)
  = sres_eqb x (snd (ideal_step c s o)) && c21_accept_from c (fst (ideal_step c s o)) rest.
Proof.
  intros H. cbn [c21_accept_from]. destruct (ideal_step c s o) as [s' y]. cbn [fst snd].
  destruct x; try reflexivity. now elim H.
Qed.

Lemma ideal_run_from_cons c s o r :
  ideal_run_from c s (o :: r) =
  (fst (ideal_run_from c (fst (ideal_step c s o)) r),
   (o, snd (ideal_step c s o)) :: snd (ideal_run_from c (fst (ideal_step c s o)) r)).
Proof.
  cbn [ideal_run_from]. destruct (ideal_step c s o) as [s' x]. cbn [fst snd].
  destruct (ideal_run_from c s' r) as [s'' tr]. reflexivity.
Qed.

Lemma sim_run c : forall h n g i,
  Inv c n g -> Sim n i ->
  g_lost (ghost_run c g (snd (run_from c n h))) = [] ->
  p_lost (ghost_run c g (snd (run_from c n h))) = [] ->
  c21_accept_from c i (snd (run_from c n h)) = true
  /\ Sim (fst (run_from c n h)) (fst (ideal_run_from c i h)).
Proof.
  induction h as [|o r IH]; intros n g i I S L1 L2.
  - cbn. split; [reflexivity|exact S].
  - rewrite run_from_cons in *. cbn [fst snd ghost_run] in *.
    destruct (ghost_run_lost_nil _ _ _ L1 L2) as [M1 M2].
    destruct (sim_step c n g i o I S M1 M2) as (R & S' & NE).
    destruct (IH _ _ _ (inv_step c n g o I) S' L1 L2) as [A S''].
    rewrite accept_cons by exact NE. rewrite R, A. split; [reflexivity|].
    rewrite ideal_run_from_cons. exact S''.
Qed.

(* ---- the acceptor as a relation ---- *)
Lemma accept_reflect c : forall tr s, c21_accept_from c s tr = true <-> Accepts c s tr.
Proof.
  induction tr as [|[o x] tr IH]; intros s.
  - split; [constructor|reflexivity].
  - split.
    + intros H. destruct (sres_eqb x XErr) eqn:EX.
      * destruct x; try discriminate. cbn [c21_accept_from] in H.
        apply andb_true_iff in H. destruct H as [H1 H2]. apply negb_true_iff in H1.
        constructor; [exact H1|now apply IH].
      * assert (NE : x <> XErr) by (intros ->; discriminate).
        rewrite accept_cons in H by exact NE. apply andb_true_iff in H. destruct H as [H1 H2].
        apply Acc_step; [exact NE|exact H1|now apply IH].
    + intros H. inversion H; subst.
      * cbn [c21_accept_from]. apply andb_true_iff. split; [now apply negb_true_iff|now apply IH].
      * rewrite accept_cons by assumption. apply andb_true_iff. split; [assumption|now apply IH].
Qed.

(* ====================================================================================== *)
(* E. C21                                                                                  *)
(* ====================================================================================== *)

Lemma known_false c h : c21_known c h = false -> g_lost (ghost_of c h) = [] /\ p_lost (ghost_of c h) = [].
Proof.
  unfold c21_known. intros H. apply orb_false_iff in H. destruct H as [H1 H2].
  apply negb_false_iff in H1, H2. split; now apply is_nil_true.
Qed.

(* nothing acknowledged lies before the previous reopen: the restarted store is the ideal store *)
Theorem raft_outside_known c h : c21_known c h = false ->
  c21_ok c (trace c h) = true
  /\ n_mem (final c h) = fst (ideal_final c h)
  /\ book_same (n_book (final c h)) (snd (ideal_final c h))
  /\ n_mem (final c h) = replay (ackl (trace c h)).
Proof.
  intros K. destruct (known_false c h K) as [L1 L2].
  unfold ghost_of, trace, node_run in L1, L2.
  destruct (sim_run c h (node_init c) (ghost_init c) (ideal_init c) (inv_init c) (sim_init c) L1 L2) as [A [S1 S2]].
  unfold c21_ok, trace, final, ideal_final, node_run. repeat split; try assumption.
  pose proof (inv_final c h) as I. destruct I as [_ _ _ Hm _ _ _ _].
  unfold final, node_run in Hm. rewrite Hm.
  pose proof (ghost_total c (snd (run_from c (node_init c) h)) (ghost_init c)) as T.
  cbn [ghost_init g_lost g_vis g_cur app] in T.
  unfold ghost_of, trace, node_run in *. rewrite L1 in T. cbn [app] in T. now rewrite T.
Qed.

Theorem raft_one_reopen c h : (reopens h <= 1)%nat -> c21_known c h = false.
Proof.
  intros H. unfold c21_known.
  destruct (ghost_lost_le1 c (trace c h) (ghost_init c)) as [L1 L2]; try reflexivity.
  - left. repeat split; try reflexivity. unfold trace, node_run. rewrite run_from_ops. exact H.
  - unfold ghost_of. now rewrite L1, L2.
Qed.

Theorem raft_replaying_never_known c h : c_mode c = Replaying -> c21_known c h = false.
Proof.
  intros EM. destruct (inv_final c h) as [_ _ Hll _ _ _ Hpl _].
  unfold c21_known. now rewrite (Hll EM), (Hpl EM).
Qed.

(* the general law of the code as it is: a restarted store is the replay of what was acknowledged
   since the previous reopen, and of nothing older *)
Theorem raft_law c h :
  let n := final c h in let g := ghost_of c h in
  n_mem n = replay (g_vis g ++ g_cur g)
  /\ n_book n = book_of c (p_vis g) (p_cur g)
  /\ w_log (n_lw n) = ackl (trace c h)
  /\ g_lost g ++ g_vis g ++ g_cur g = ackl (trace c h).
Proof.
  cbn zeta. destruct (inv_final c h) as [Hl _ _ Hm _ _ _ Hb].
  pose proof (ghost_total c (trace c h) (ghost_init c)) as T. cbn [ghost_init g_lost g_vis g_cur app] in T.
  fold (ghost_of c h) in T. repeat split; try assumption. now rewrite Hl.
Qed.

Theorem raft_law_consuming c h : c_mode c = Consuming ->
  let '(e, p, cu) := lifetimes3 (trace c h) in
  n_mem (final c h) = replay (ackl p ++ ackl cu)
  /\ ackl (trace c h) = ackl e ++ ackl p ++ ackl cu.
Proof.
  intros EM. unfold lifetimes3.
  pose proof (ghost_split_consuming c EM (trace c h) (ghost_init c) [] [] [] eq_refl eq_refl eq_refl) as G.
  destruct (split3 [] [] [] (trace c h)) as [[e p] cu].
  fold (ghost_of c h) in G. destruct G as (G1 & G2 & G3).
  destruct (raft_law c h) as (Hm & _ & _ & T). cbn zeta in *.
  rewrite G1, G2, G3 in T. rewrite G2, G3 in Hm. split; [exact Hm|now rewrite T].
Qed.

Theorem raft_law_replaying c h : c_mode c = Replaying ->
  n_mem (final c h) = replay (ackl (trace c h)).
Proof.
  intros EM. apply raft_outside_known. now apply raft_replaying_never_known.
Qed.

(* the wrapper alone, in the shape of the first observation (D11) *)
Lemma wal_run_appends {A} m keep : forall (ps : list A) w rest,
  wal_run m keep w (map WAppend ps ++ rest) =
  map (fun k => WOff (w_off w + N.of_nat k)) (seq 0 (length ps))
  ++ wal_run m keep (mkWal (w_log w ++ ps) (w_cur w) (w_off w + N.of_nat (length ps))) rest.
Proof.
  induction ps as [|p ps IH]; intros w rest.
  - cbn. rewrite app_nil_r, N.add_0_r. now destruct w.
  - cbn [map app wal_run wal_step wal_append length seq]. rewrite IH. cbn [w_log w_cur w_off].
    rewrite N.add_0_r. f_equal.
    rewrite <- seq_shift, map_map. f_equal.
    + apply map_ext. intros k. f_equal. lia.
    + f_equal. f_equal; [now rewrite <- app_assoc|lia].
Qed.

Theorem wal_d11_shape {A} (keep : A -> bool) (ps : list A) :
  wal_run Consuming keep wal_empty (map WAppend ps ++ [WReopen; WReadAll; WReopen; WReadAll])
  = map (fun k => WOff (N.of_nat k)) (seq 0 (length ps))
    ++ [WOpened; WEntries (filter keep ps); WOpened; WEntries []].
Proof.
  rewrite wal_run_appends. cbn. f_equal. rewrite skipn_all. reflexivity.
Qed.

Theorem wal_fixed_shape {A} (keep : A -> bool) (ps : list A) :
  wal_run Replaying keep wal_empty (map WAppend ps ++ [WReopen; WReadAll; WReopen; WReadAll])
  = map (fun k => WOff (N.of_nat k)) (seq 0 (length ps))
    ++ [WOpened; WEntries (filter keep ps); WOpened; WEntries (filter keep ps)].
Proof.
  rewrite wal_run_appends. cbn. reflexivity.
Qed.

(* ====================================================================================== *)
(* F. C19: the state-machine adapter                                                        *)
(* ====================================================================================== *)

Lemma normals_app : forall a b, normals (a ++ b) = normals a ++ normals b.
Proof.
  induction a as [|e a IH]; intros b; cbn [app normals]; [reflexivity|].
  destruct (e_pl e); rewrite IH; reflexivity.
Qed.

Lemma prefix_normals a b : Prefix a b -> Prefix (normals a) (normals b).
Proof. intros [t ->]. exists (normals t). apply normals_app. Qed.

Lemma prefix_common {A} : forall (a b c : list A), Prefix a c -> Prefix b c -> Comparable a b.
Proof.
  induction a as [|x a IH]; intros b c Ha Hb.
  - left. now exists b.
  - destruct b as [|y b]; [right; now exists (x :: a)|].
    destruct Ha as [t1 E1], Hb as [t2 E2]. subst c. cbn in E2. inversion E2; subst y.
    destruct (IH b (a ++ t1)) as [[t E]|[t E]].
    + now exists t1.
    + exists t2. assumption.
    + left. exists t. cbn. now rewrite E.
    + right. exists t. cbn. now rewrite E.
Qed.

Definition last_ids (es : list (lentry * bool)) (l0 : option logid) : option logid :=
  fold_left (fun _ e => Some (e_id (fst e))) es l0.

Lemma sm_apply_meets_spec {St} (app : St -> list N -> St * option (list N)) (app_ok : list N -> option (list N)) :
  (forall s d, snd (app s d) = app_ok d) ->
  forall es (st : smdata St),
    sm_cmds (fst (sm_apply app st es)) = sm_cmds st ++ fst (fst (fst (apply_spec app_ok es)))
    /\ sm_resp (fst (sm_apply app st es)) = sm_resp st ++ snd (fst (fst (apply_spec app_ok es)))
    /\ sm_last (fst (sm_apply app st es))
       = match snd (fst (apply_spec app_ok es)) with Some l => Some l | None => sm_last st end
    /\ snd (sm_apply app st es) = snd (apply_spec app_ok es).
Proof.
  intros Happ. induction es as [|[e w] r IH]; intros st.
  - cbn. now rewrite !app_nil_r.
  - cbn [sm_apply apply_spec]. cbn [sm_app sm_last sm_memb sm_cmds sm_resp].
    destruct (e_pl e) as [|d|k] eqn:EP.
    + (* blank *)
      match goal with |- context [sm_apply app ?st2 r] => pose proof (IH st2) as J end.
      cbn [sm_app sm_last sm_memb sm_cmds sm_resp] in J.
      destruct (apply_spec app_ok r) as [[[cs rs] last] ok]. cbn [fst snd] in *.
      destruct J as (I1 & I2 & I3 & I4). rewrite I1, I2, I3, I4.
      repeat split.
      * destruct w; cbn [List.app]; now rewrite <- ?app_assoc, ?app_nil_r.
      * now destruct last.
    + (* normal *)
      rewrite <- (Happ (sm_app st) d).
      destruct (app (sm_app st) d) as [s' [resp|]] eqn:EA; cbn [snd].
      * match goal with |- context [sm_apply app ?st2 r] => pose proof (IH st2) as J end.
        cbn [sm_app sm_last sm_memb sm_cmds sm_resp] in J.
        destruct (apply_spec app_ok r) as [[[cs rs] last] ok]. cbn [fst snd] in *.
        destruct J as (I1 & I2 & I3 & I4). rewrite I1, I2, I3, I4.
        repeat split.
        -- now rewrite <- app_assoc.
        -- destruct w; cbn [List.app]; now rewrite <- ?app_assoc, ?app_nil_r.
        -- now destruct last.
      * cbn. now rewrite !app_nil_r.
    + (* membership *)
      match goal with |- context [sm_apply app ?st2 r] => pose proof (IH st2) as J end.
      cbn [sm_app sm_last sm_memb sm_cmds sm_resp] in J.
      destruct (apply_spec app_ok r) as [[[cs rs] last] ok]. cbn [fst snd] in *.
      destruct J as (I1 & I2 & I3 & I4). rewrite I1, I2, I3, I4.
      repeat split.
      * destruct w; cbn [List.app]; now rewrite <- ?app_assoc, ?app_nil_r.
      * now destruct last.
Qed.

(* no application error: exactly the Normal payloads, in the order given, each once *)
Lemma sm_apply_ok {St} (app : St -> list N -> St * option (list N)) : forall es (st : smdata St),
  snd (sm_apply app st es) = true ->
  sm_cmds (fst (sm_apply app st es)) = sm_cmds st ++ normals (map fst es)
  /\ sm_last (fst (sm_apply app st es)) = last_ids es (sm_last st).
Proof.
  induction es as [|[e w] r IH]; intros st H.
  - cbn. now rewrite app_nil_r.
  - cbn [sm_apply map fst normals last_ids fold_left] in *. cbn [sm_app sm_last sm_memb sm_cmds sm_resp] in *.
    destruct (e_pl e) as [|d|k] eqn:EP.
    + match goal with |- context [sm_apply app ?st2 r] => destruct (IH st2 H) as [I1 I2] end.
      cbn [sm_cmds sm_last] in *. split; [exact I1|exact I2].
    + destruct (app (sm_app st) d) as [s' [resp|]] eqn:EA; [|discriminate].
      match goal with |- context [sm_apply app ?st2 r] => destruct (IH st2 H) as [I1 I2] end.
      cbn [sm_cmds sm_last] in *. split; [|exact I2]. rewrite I1. now rewrite <- app_assoc.
    + match goal with |- context [sm_apply app ?st2 r] => destruct (IH st2 H) as [I1 I2] end.
      cbn [sm_cmds sm_last] in *. split; [exact I1|exact I2].
Qed.

(* in every case: the Normal payloads of a prefix of what was given *)
Lemma sm_apply_prefix {St} (app : St -> list N -> St * option (list N)) : forall es (st : smdata St),
  exists k, (k <= length es)%nat
    /\ sm_cmds (fst (sm_apply app st es)) = sm_cmds st ++ normals (map fst (firstn k es)).
Proof.
  induction es as [|[e w] r IH]; intros st.
  - exists 0%nat. cbn. now rewrite app_nil_r.
  - cbn [sm_apply]. cbn [sm_app sm_last sm_memb sm_cmds sm_resp]. destruct (e_pl e) as [|d|k0] eqn:EP.
    + match goal with |- context [sm_apply app ?st2 r] => destruct (IH st2) as (k & Hk & I1) end.
      exists (S k). cbn [length firstn map fst normals sm_cmds] in *. rewrite EP. split; [lia|exact I1].
    + destruct (app (sm_app st) d) as [s' [resp|]] eqn:EA.
      * match goal with |- context [sm_apply app ?st2 r] => destruct (IH st2) as (k & Hk & I1) end.
        exists (S k). cbn [length firstn map fst normals sm_cmds] in *. rewrite EP. split; [lia|].
        rewrite I1. now rewrite <- app_assoc.
      * exists 0%nat. cbn. split; [lia|now rewrite app_nil_r].
    + match goal with |- context [sm_apply app ?st2 r] => destruct (IH st2) as (k & Hk & I1) end.
      exists (S k). cbn [length firstn map fst normals sm_cmds] in *. rewrite EP. split; [lia|exact I1].
Qed.

(* ====================================================================================== *)
(* G. packaged statements and the witness                                                  *)
(* ====================================================================================== *)

Definition Restarts_invisible (c : ncfg) (h : list sop) : Prop :=
  c21_ok c (trace c h) = true
  /\ n_mem (final c h) = fst (ideal_final c h)
  /\ book_same (n_book (final c h)) (snd (ideal_final c h))
  /\ n_mem (final c h) = replay (ackl (trace c h)).

Theorem raft_one_reopen_full c h : (reopens h <= 1)%nat -> Restarts_invisible c h.
Proof. intros H. apply raft_outside_known. now apply raft_one_reopen. Qed.

Theorem raft_fixed c h : c_mode c = Replaying -> Restarts_invisible c h.
Proof. intros H. apply raft_outside_known. now apply raft_replaying_never_known. Qed.

Theorem raft_known_two c h : c21_known c h = true -> (2 <= reopens h)%nat.
Proof.
  intros K. destruct (Nat.le_gt_cases (reopens h) 1) as [L|L]; [|lia].
  rewrite (raft_one_reopen c h L) in K. discriminate.
Qed.

(* D11 at store level: one vote, one lentry, one learned peer; two reopens *)
Definition d11_cfg : ncfg := mkCfg Consuming 1 (2130706433 * 65536 + 9321) [2130706433 * 65536 + 9322].
Definition d11_hist : list sop :=
  [SVote (mkVote 1 1 false);
   SAppend [mkEntry (mkLogId 1 1 1) (PNormal [97; 98])];
   SPeer 3 (167772163 * 65536 + 9323);
   SReopen; SState; SPeers;
   SReopen; SState; SPeers].

Theorem raft_refuted :
  exists c h, c_mode c = Consuming /\ reopens h = 2%nat /\ c21_known c h = true
    /\ c21_ok c (trace c h) = false
    /\ c21_ok c (trace c (firstn 6 h)) = true
    /\ n_mem (final c h) = mem_empty
    /\ mem_eqb (n_mem (final c h)) (replay (ackl (trace c h))) = false
    /\ pb_get 3 (n_book (final c h)) = None
    /\ pb_get 3 (snd (ideal_final c h)) = Some (167772163 * 65536 + 9323).
Proof. exists d11_cfg, d11_hist. vm_compute. repeat split; reflexivity. Qed.

Theorem raft_full_refuted : ~ (forall c h, Restarts_invisible c h).
Proof.
  intros H. destruct (H d11_cfg d11_hist) as [A _]. vm_compute in A. discriminate.
Qed.

(* the same history on the repaired wrapper *)
Example raft_fixed_witness :
  let c := mkCfg Replaying 1 (2130706433 * 65536 + 9321) [2130706433 * 65536 + 9322] in
  c21_ok c (trace c d11_hist) = true
  /\ m_vote (n_mem (final c d11_hist)) = Some (mkVote 1 1 false)
  /\ pb_get 3 (n_book (final c d11_hist)) = Some (167772163 * 65536 + 9323).
Proof. vm_compute. repeat split; reflexivity. Qed.

(* ---- C19 packaged ---- *)
(* what openraft requires of a RaftLogStorage, for the store of this repository as it is *)
Definition store_contract : Prop :=
  forall c h, c_mode c = Consuming -> n_mem (final c h) = replay (ackl (trace c h)).

Theorem raft_contract_refuted : ~ store_contract.
Proof.
  intros H. specialize (H d11_cfg d11_hist eq_refl). vm_compute in H. discriminate.
Qed.

Definition fed (es : list lentry) : list (lentry * bool) := map (fun e => (e, false)) es.

Lemma fed_fst es : map fst (fed es) = es.
Proof. unfold fed. rewrite map_map. cbn. apply map_id. Qed.

Lemma prefix_trans {A} (a b c : list A) : Prefix a b -> Prefix b c -> Prefix a c.
Proof. intros [t1 ->] [t2 ->]. exists (t1 ++ t2). now rewrite app_assoc. Qed.

Lemma prefix_firstn {A} k (l : list A) : Prefix (firstn k l) l.
Proof. exists (skipn k l). symmetry. apply firstn_skipn. Qed.

Theorem adapter_prefix_of_common_log {St} (app : St -> list N -> St * option (list N)) (s1 s2 : St)
        (committed es1 es2 : list lentry) :
  Prefix es1 committed -> Prefix es2 committed ->
  Comparable (sm_cmds (fst (sm_apply app (sm_init s1) (fed es1))))
             (sm_cmds (fst (sm_apply app (sm_init s2) (fed es2)))).
Proof.
  intros P1 P2.
  destruct (sm_apply_prefix app (fed es1) (sm_init s1)) as (k1 & _ & E1).
  destruct (sm_apply_prefix app (fed es2) (sm_init s2)) as (k2 & _ & E2).
  rewrite E1, E2. cbn [sm_init sm_cmds List.app].
  rewrite <- !firstn_map, !fed_fst.
  apply prefix_common with (c := normals committed); apply prefix_normals;
    (eapply prefix_trans; [apply prefix_firstn|assumption]).
Qed.

Theorem adapter_prefix_given_contract {St} (app : St -> list N -> St * option (list N)) (s1 s2 : St)
        (committed es1 es2 : list lentry) :
  store_contract ->
  (store_contract -> Prefix es1 committed /\ Prefix es2 committed) ->
  Comparable (sm_cmds (fst (sm_apply app (sm_init s1) (fed es1))))
             (sm_cmds (fst (sm_apply app (sm_init s2) (fed es2)))).
Proof.
  intros SC H. destruct (H SC) as [P1 P2]. now apply adapter_prefix_of_common_log with (committed := committed).
Qed.
