(* EngineW.v — the write side: appends and batches extend [stream] and [unread] by exactly
   the written entries and keep the per-topic invariant. *)
From W Require Import model.Base model.Engine proofs.EngineWF proofs.EngineInv.
From Coq Require Import ZArith ZifyBool ZifyN ZifyNat.

(* the invariant without the entry-count clause (counts are settled once per operation) *)
Record TInvP (c : Cfg) (nid : N) (ts : tstate) : Prop := {
  tp_poison : ts_poisoned ts = false;
  tp_unm : ts_unmodelled ts = false;
  tp_chain : Forall (bwf c) (chain_of ts);
  tp_writer : Forall (bwf c) (w_list ts);
  tp_nodup : NoDup (map b_id (chain_of ts ++ w_list ts));
  tp_ids : Forall (fun b => 0 < b_id b < nid) (chain_of ts ++ w_list ts);
  tp_tail_lt : r_tail_bid (reader_of ts) < nid;
  tp_idx : (r_idx (reader_of ts) <= length (chain_of ts))%nat;
  tp_end : r_idx (reader_of ts) = length (chain_of ts) -> r_off (reader_of ts) = 0;
  tp_cur : forall b, nth_error (chain_of ts) (r_idx (reader_of ts)) = Some b ->
           okoff c (b_ents b) (r_off (reader_of ts));
  tp_sealed_tail : (r_idx (reader_of ts) < length (chain_of ts))%nat ->
                   forall w, ts_writer ts = Some w -> r_tail_bid (reader_of ts) <> b_id w;
  tp_tail : forall w, ts_writer ts = Some w -> okoff c (b_ents w) (tail_start ts w);
  tp_hyd : r_hydrated (reader_of ts) = false -> ts_index ts = None
}.

Lemma TInv_P c nid ts : TInv c nid ts -> TInvP c nid ts.
Proof. intros [? ? ? ? ? ? ? ? ? ? ? ? ? ?]. constructor; auto. Qed.

Lemma TInvP_cnt c nid ts : TInvP c nid ts -> cnt ts = N.of_nat (length (unread c ts)) -> TInv c nid ts.
Proof. intros [? ? ? ? ? ? ? ? ? ? ? ? ?] Hc. constructor; auto. Qed.

Lemma TInvP_mono c n n' ts : n <= n' -> TInvP c n ts -> TInvP c n' ts.
Proof.
  intros Hn [? ? ? ? ? Hi Ht ? ? ? ? ? ?]. constructor; auto; [|lia].
  eapply Forall_impl; [|exact Hi]. cbn. intros; lia.
Qed.

Ltac nww :=
  repeat match goal with
  | |- context [reader_of (with_writer ?t ?w)] => change (reader_of (with_writer t w)) with (reader_of t)
  end;
  cbn [with_writer ts_writer ts_poisoned ts_unmodelled ts_index].

Definition fresh_blk (nid : N) (nb : blk) : Prop :=
  b_id nb = nid /\ b_used nb = 0 /\ b_ents nb = [] /\ b_limit nb <= u64_max.

Lemma NoDup_snoc {A} (l : list A) x : NoDup l -> ~ In x l -> NoDup (l ++ [x]).
Proof.
  intros Hl Hx. induction l as [|a l IH]; cbn; [constructor; [auto|constructor]|].
  inversion Hl; subst. constructor.
  - intros Hin. apply in_app_or in Hin. destruct Hin as [Hin|[Hin|[]]]; [contradiction|]. subst. apply Hx. now left.
  - apply IH; [assumption|]. intros Hin. apply Hx. now right.
Qed.

(* the topic's first writer block *)
Lemma first_writer c nid ts nb : 0 < nid ->
  TInvP c nid ts -> ts_writer ts = None -> fresh_blk nid nb ->
  TInvP c (nid + 1) (with_writer ts (Some nb)) /\
  stream (with_writer ts (Some nb)) = stream ts /\ unread c (with_writer ts (Some nb)) = unread c ts.
Proof.
  intros Hn0 [Hp Hu Hch Hw Hnd Hids Htl Hidx Hend Hcur Hst Htail Hhyd] Hnone (Fi & Fu & Fe & Fl).
  unfold chain_of, w_list, tail_start in *. rewrite Hnone in *. rewrite app_nil_r in *.
  split; [|split].
  - constructor; unfold chain_of, w_list, tail_start; nww; auto.
    + constructor; [|constructor]. unfold bwf. rewrite Fu, Fe. cbn. lia.
    + rewrite map_app. cbn. apply NoDup_snoc; [exact Hnd|].
      intros Hin. apply in_map_iff in Hin. destruct Hin as (b & Hb & Hin).
      eapply Forall_forall in Hids; [|exact Hin]. lia.
    + apply Forall_app. split; [eapply Forall_impl; [|exact Hids]; cbn; intros; lia|].
      constructor; [lia|constructor].
    + lia.
    + intros Hl w' Hw'. inversion Hw'; subst w'. lia.
    + intros w' Hw'. inversion Hw'; subst w'. rewrite Fe.
      destruct (r_tail_bid (reader_of ts) =? b_id nb) eqn:E; [exfalso; lia|apply okoff_0].
  - unfold stream, w_ents, chain_of; nww. now rewrite Hnone, Fe.
  - unfold unread, w_ents, tail_start; nww. rewrite Hnone, Fe.
    destruct (skipn _ _); [|now rewrite !app_nil_r].
    now destruct (_ =? _).
Qed.

Definition blk_with (b : blk) (c : Cfg) (es : list entry) : blk := blk_add b c es.

(* one more entry in the writer block *)
Lemma add_entry c (Hh : 0 < c_hdr c) nid ts w e :
  TInvP c nid ts -> ts_writer ts = Some w -> b_used w + need c e <= b_limit w ->
  TInvP c nid (with_writer ts (Some (blk_add w c [e]))) /\
  stream (with_writer ts (Some (blk_add w c [e]))) = stream ts ++ [e] /\
  unread c (with_writer ts (Some (blk_add w c [e]))) = unread c ts ++ [e].
Proof.
  intros [Hp Hu Hch Hw Hnd Hids Htl Hidx Hend Hcur Hst Htail Hhyd] Hsome Hfit.
  unfold chain_of, w_list, tail_start in *. rewrite Hsome in *.
  pose proof (Forall_inv Hw) as (Hwu & Hwl & Hwm).
  pose proof (Htail w eq_refl) as Hokw.
  split; [|split].
  - constructor; unfold chain_of, w_list, tail_start; nww; auto.
    + constructor; [|constructor]. unfold bwf, blk_add; cbn. rewrite sum_need_app. cbn [sum_need]. lia.
    + rewrite map_app in *. exact Hnd.
    + apply Forall_app in Hids. destruct Hids as (I1 & I2). apply Forall_app. split; [exact I1|]. inversion I2; subst. constructor; [exact H1|constructor].
    + intros Hl w' Hw'. inversion Hw'; subst w'. cbn [blk_add b_id]. now apply (Hst Hl w).
    + intros w' Hw'. inversion Hw'; subst w'. cbn [blk_add b_id b_ents]. now apply okoff_app.
  - unfold stream, w_ents, chain_of; nww. rewrite Hsome. cbn [blk_add b_ents]. now rewrite app_assoc.
  - unfold unread, w_ents, tail_start; nww. cbn [blk_add b_id b_ents]. rewrite Hsome.
    destruct (skipn _ _) as [|b0 r0].
    + now apply ents_from_app.
    + now rewrite !app_assoc.
Qed.

(* sealing the writer block and switching to a fresh one *)
Lemma rotate c (Hh : 0 < c_hdr c) nid ts w nb : 0 < nid ->
  TInvP c nid ts -> ts_writer ts = Some w -> fresh_blk nid nb ->
  TInvP c (nid + 1) (with_writer (seal ts w) (Some nb)) /\
  stream (with_writer (seal ts w) (Some nb)) = stream ts /\
  unread c (with_writer (seal ts w) (Some nb)) = unread c ts.
Proof.
  intros Hn0 [Hp Hu Hch Hw Hnd Hids Htl Hidx Hend Hcur Hst Htail Hhyd] Hsome (Fi & Fu & Fe & Fl).
  unfold chain_of, w_list, tail_start in *. rewrite Hsome in *.
  pose proof (Forall_inv Hw) as Hwwf. pose proof Hwwf as (Hwu & Hwl & Hwm).
  pose proof (Htail w eq_refl) as Hokw.
  set (r := reader_of ts) in *.
  assert (Hwid : 0 < b_id w < nid).
  { eapply Forall_forall in Hids; [exact Hids|]. apply in_or_app. right. now left. }
  destruct (b_used w =? 0) eqn:Ez.
  { (* the block was sealed empty: it is retired, the chain and the cursor stay as they are *)
    assert (Hwe : b_ents w = []).
    { destruct (b_ents w) as [|e0 r0] eqn:Ee; [reflexivity|]. exfalso. cbn [sum_need] in Hwu. pose proof (need_pos c e0 Hh). lia. }
    assert (Hro : reader_of (seal ts w) = r).
    { unfold seal, chain_push. cbn [reader_of ts_reader]. fold r. now rewrite Ez. }
    assert (Hts' : forall X, X = with_writer (seal ts w) (Some nb) -> reader_of X = r /\ ts_writer X = Some nb /\
                   ts_poisoned X = false /\ ts_unmodelled X = false /\ ts_index X = ts_index ts).
    { intros X ->. unfold with_writer in *. cbn [reader_of ts_reader] in *. unfold seal in *; cbn in *. repeat split; auto. }
    destruct (Hts' _ eq_refl) as (X1 & X2 & X3 & X4 & X5).
    assert (Hnbt : (r_tail_bid r =? b_id nb) = false) by lia.
    split; [|split].
    - constructor; unfold chain_of, w_list, tail_start; rewrite ?X1, ?X2, ?X3, ?X4, ?X5; auto.
      + constructor; [|constructor]. unfold bwf. rewrite Fu, Fe. cbn. lia.
      + rewrite map_app in *. cbn [map] in *. apply NoDup_remove_1 in Hnd. rewrite app_nil_r in Hnd.
        apply NoDup_snoc; [exact Hnd|].
        intros Hin. apply in_map_iff in Hin. destruct Hin as (b & Hb & Hin).
        apply Forall_app in Hids. destruct Hids as (Hids1 & _).
        eapply Forall_forall in Hids1; [|exact Hin]. lia.
      + apply Forall_app in Hids. destruct Hids as (Hids1 & _).
        apply Forall_app. split; [eapply Forall_impl; [|exact Hids1]; cbn; intros; lia|].
        constructor; [lia|constructor].
      + lia.
      + intros _ w' Hw'. inversion Hw'; subst w'. lia.
      + intros w' Hw'. inversion Hw'; subst w'. rewrite Fe, Hnbt. apply okoff_0.
    - unfold stream, chain_of, w_ents. rewrite X1, X2, Fe, Hsome, Hwe. reflexivity.
    - unfold unread, w_ents, tail_start. rewrite X1, X2, Fe, Hsome, Hwe. fold r. rewrite Hnbt.
      destruct (skipn (r_idx r) (r_chain r)); [|reflexivity].
      cbn. destruct (r_tail_bid r =? b_id w); reflexivity. }
  (* the reader after the push *)
  assert (Hcp : exists r', reader_of (seal ts w) = r' /\ r_chain r' = r_chain r ++ [w] /\ r_tail_bid r' = r_tail_bid r /\
                r_tail_off r' = r_tail_off r /\ r_hydrated r' = r_hydrated r /\
                ((r_tail_bid r =? b_id w) = true -> r_idx r' = length (r_chain r) /\ r_off r' = r_tail_off r) /\
                ((r_tail_bid r =? b_id w) = false -> r_idx r' = r_idx r /\ r_off r' = r_off r)).
  { unfold seal, chain_push. cbn [reader_of ts_reader]. fold r. rewrite Ez.
    destruct (r_tail_bid r =? b_id w) eqn:E; eexists; (split; [reflexivity|]); cbn; repeat split; try discriminate; auto.
    - rewrite app_length. cbn. lia.
    - (* min tail_off used = tail_off *)
      rewrite ?E in Hokw. pose proof (okoff_le _ _ _ Hokw). lia. }
  destruct Hcp as (r' & Hr' & C1 & C4 & C5 & C7 & Ctail & Cnot).
  assert (Hts' : forall X, X = with_writer (seal ts w) (Some nb) -> reader_of X = r' /\ ts_writer X = Some nb /\
                 ts_poisoned X = false /\ ts_unmodelled X = false /\ ts_index X = ts_index ts).
  { intros X ->. unfold with_writer, seal in *; cbn in *. repeat split; auto. }
  destruct (Hts' _ eq_refl) as (X1 & X2 & X3 & X4 & X5).
  split; [|split].
  - constructor; unfold chain_of, w_list, tail_start; rewrite ?X1, ?X2, ?X3, ?X4, ?X5, ?C1, ?C4, ?C5, ?C7; auto.
    + apply Forall_app. split; [exact Hch|]. constructor; [exact Hwwf|constructor].
    + constructor; [|constructor]. unfold bwf. rewrite Fu, Fe. cbn. lia.
    + rewrite map_app. cbn [map]. apply NoDup_snoc; [exact Hnd|].
      intros Hin. apply in_map_iff in Hin. destruct Hin as (b & Hb & Hin).
      eapply Forall_forall in Hids; [|exact Hin]. lia.
    + apply Forall_app. split; [eapply Forall_impl; [|exact Hids]; cbn; intros; lia|].
      constructor; [lia|constructor].
    + lia.
    + rewrite app_length. cbn. destruct (r_tail_bid r =? b_id w) eqn:E.
      * destruct (Ctail eq_refl) as (A & _). rewrite A. lia.
      * destruct (Cnot eq_refl) as (A & _). rewrite A. lia.
    + rewrite app_length. cbn. destruct (r_tail_bid r =? b_id w) eqn:E.
      * destruct (Ctail eq_refl) as (A & _). rewrite A. lia.
      * destruct (Cnot eq_refl) as (A & B). rewrite A, B. intros Hx. lia.
    + intros b Hb. destruct (r_tail_bid r =? b_id w) eqn:E.
      * destruct (Ctail eq_refl) as (A & B). rewrite A in Hb. rewrite B.
        rewrite nth_error_app2 in Hb by lia. rewrite Nat.sub_diag in Hb. cbn in Hb. inversion Hb; subst b. exact Hokw.
      * destruct (Cnot eq_refl) as (A & B). rewrite A in Hb. rewrite B.
        destruct (Nat.lt_ge_cases (r_idx r) (length (r_chain r))) as [Hl|Hg].
        -- rewrite nth_error_app1 in Hb by exact Hl. now apply Hcur.
        -- assert (r_idx r = length (r_chain r)) by lia. rewrite H in Hb.
           rewrite nth_error_app2 in Hb by lia. rewrite Nat.sub_diag in Hb. cbn in Hb. inversion Hb; subst b.
           rewrite (Hend H). apply okoff_0.
    + intros _ w' Hw'. inversion Hw'; subst w'. lia.
    + intros w' Hw'. inversion Hw'; subst w'. rewrite Fe.
      destruct (r_tail_bid r =? b_id nb) eqn:E; [exfalso; lia|apply okoff_0].
  - unfold stream, chain_of, w_ents. rewrite X1, X2, C1, Fe, Hsome. rewrite chain_ents_app. cbn. now rewrite !app_nil_r.
  - unfold unread, w_ents, tail_start. rewrite X1, X2, C1, Fe, Hsome. fold r.
    destruct (r_tail_bid r =? b_id w) eqn:E.
    + (* the reader was in this block: it stays where it was, now in the chain *)
      destruct (Ctail eq_refl) as (A & B). rewrite A, B.
      assert (Hidl : r_idx r = length (r_chain r)).
      { destruct (Nat.lt_ge_cases (r_idx r) (length (r_chain r))) as [Hl|Hg]; [|lia].
        exfalso. apply (Hst Hl w eq_refl). lia. }
      rewrite Hidl, skipn_all. rewrite skipn_app_len. cbn. now rewrite !app_nil_r.
    + destruct (Cnot eq_refl) as (A & B). rewrite A, B.
      destruct (Nat.lt_ge_cases (r_idx r) (length (r_chain r))) as [Hl|Hg].
      * rewrite skipn_app by idtac. replace (r_idx r - length (r_chain r))%nat with 0%nat by lia. cbn [skipn].
        destruct (skipn (r_idx r) (r_chain r)) as [|b0 r0] eqn:Es.
        -- apply skipn_nil_ge in Es. lia.
        -- cbn [app]. rewrite chain_ents_app. cbn. now rewrite !app_nil_r.
      * assert (Hidl : r_idx r = length (r_chain r)) by lia.
        rewrite Hidl, skipn_all, skipn_app_len. rewrite (Hend Hidl). cbn. now rewrite ents_from_0, !app_nil_r.
Qed.

(* ------------------------------------------------------------------ whole-state level *)
Definition GInv (c : Cfg) (s : st) : Prop :=
  0 < a_next (s_alloc s) /\ forall t, TInv c (a_next (s_alloc s)) (get_ts s t).

Lemma GInv_init c : GInv c init.
Proof. split; [cbn; lia|]. intros t. apply TInv0. cbn. lia. Qed.

Lemma get_ts_disk_write s b t es t' : get_ts (st_disk_write s b t es) t' = get_ts s t'.
Proof. reflexivity. Qed.

Lemma alloc_first_spec c s : c_block c <= u64_max ->
  exists s1 b, alloc_first c s = (s1, b) /\ (forall t, get_ts s1 t = get_ts s t) /\
    a_next (s_alloc s1) = a_next (s_alloc s) + 1 /\ fresh_blk (a_next (s_alloc s)) b /\ b_limit b = c_block c.
Proof.
  intros Hb. unfold alloc_first. destruct (c_file c <=? a_off (s_alloc s));
    eexists; eexists; (split; [reflexivity|]); cbn; repeat split; auto; try lia.
Qed.

Lemma alloc_sized_spec c s want : 0 < c_block c -> c_max_alloc c + c_block c <= u64_max ->
  0 < want -> want <= c_max_alloc c ->
  exists s1 b, alloc_sized c s want = Some (s1, b) /\ (forall t, get_ts s1 t = get_ts s t) /\
    a_next (s_alloc s1) = a_next (s_alloc s) + 1 /\ fresh_blk (a_next (s_alloc s)) b /\ want <= b_limit b.
Proof.
  intros Hb Hm H0 H1. unfold alloc_sized.
  replace ((want =? 0) || (c_max_alloc c <? want)) with false by lia.
  assert (Hsz : want <= div_up want (c_block c) * c_block c /\ div_up want (c_block c) * c_block c <= want + c_block c).
  { unfold div_up. set (B := c_block c) in *. 
    pose proof (N.div_mod (want + B - 1) B ltac:(lia)). pose proof (N.mod_lt (want + B - 1) B ltac:(lia)). nia. }
  destruct (c_file c <? a_off (s_alloc s) + _);
    eexists; eexists; (split; [reflexivity|]); unfold fresh_blk; cbn [b_limit b_id b_used b_ents s_alloc a_next];
      repeat split; auto; try lia.
Qed.

(* all other topics are untouched by an operation on [t] *)
Definition others_same (s s' : st) (t : N) : Prop := forall t', t' <> t -> get_ts s' t' = get_ts s t'.

Lemma GInv_update c s s' t ts' :
  GInv c s -> a_next (s_alloc s) <= a_next (s_alloc s') ->
  (forall t', t' <> t -> get_ts s' t' = get_ts s t') -> get_ts s' t = ts' -> TInv c (a_next (s_alloc s')) ts' ->
  GInv c s'.
Proof.
  intros (Hn & Hall) Hle Hoth Hget Hinv. split; [lia|]. intros t'.
  destruct (N.eq_dec t' t) as [->|Hne]; [now rewrite Hget|]. rewrite (Hoth t' Hne). eapply TInv_mono; eauto.
Qed.

Lemma cnt_count_add ts d : cnt ts + d <= u64_max -> cnt (count_add ts d) = cnt ts + d.
Proof. intros H. unfold count_add, cnt in *. destruct (d =? 0) eqn:E; cbn; lia. Qed.

Lemma unread_count_add c ts d : unread c (count_add ts d) = unread c ts.
Proof. unfold count_add. now destruct (d =? 0). Qed.
Lemma stream_count_add ts d : stream (count_add ts d) = stream ts.
Proof. unfold count_add. now destruct (d =? 0). Qed.
Lemma TInvP_count_add c nid ts d : TInvP c nid ts -> TInvP c nid (count_add ts d).
Proof. unfold count_add. destruct (d =? 0); [auto|]. intros [? ? ? ? ? ? ? ? ? ? ? ? ?]. constructor; auto. Qed.

(* get_or_create_writer *)
Lemma ensure_writer_spec c s t : cfg_ok c -> GInv c s ->
  exists s1 w, ensure_writer c s t = (s1, w) /\
    a_next (s_alloc s) <= a_next (s_alloc s1) /\ 0 < a_next (s_alloc s1) /\
    others_same s s1 (t_id t) /\
    ts_writer (get_ts s1 (t_id t)) = Some w /\
    TInvP c (a_next (s_alloc s1)) (get_ts s1 (t_id t)) /\
    stream (get_ts s1 (t_id t)) = stream (get_ts s (t_id t)) /\
    unread c (get_ts s1 (t_id t)) = unread c (get_ts s (t_id t)) /\
    cnt (get_ts s1 (t_id t)) = cnt (get_ts s (t_id t)).
Proof.
  intros (Hh & Hb0 & Hba & Hbm & Hme & Hhb) (Hn & Hall). unfold ensure_writer.
  destruct (ts_writer (get_ts s (t_id t))) as [w|] eqn:Ew.
  - exists s, w. split; [reflexivity|]. split; [lia|]. split; [exact Hn|]. split; [intros t' _; reflexivity|].
    split; [exact Ew|]. split; [apply TInv_P, Hall|]. auto.
  - destruct (alloc_first_spec c s ltac:(lia)) as (s1 & b & Ha & Hsame & Hnext & Hfresh & Hlim). rewrite Ha.
    rewrite (Hsame (t_id t)).
    destruct (first_writer c (a_next (s_alloc s)) (get_ts s (t_id t)) b Hn (TInv_P _ _ _ (Hall (t_id t))) Ew Hfresh) as (I1 & I2 & I3).
    eexists; eexists. split; [reflexivity|]. cbn [s_alloc set_ts]. rewrite Hnext.
    split; [lia|]. split; [lia|].
    split; [intros t' Hne; rewrite get_set_other by exact Hne; apply Hsame|].
    rewrite get_set_same. split; [reflexivity|]. split; [exact I1|]. split; [exact I2|]. split; [exact I3|reflexivity].
Qed.

Lemma appendable_ok c t l : cfg_ok c -> name_ok c t = true -> c_hdr c + l <= c_max_alloc c -> appendable c t l = None.
Proof.
  intros (Hh & Hb0 & Hba & Hbm & Hme & Hhb) Hn Hl. unfold appendable. rewrite Hn. cbn [negb].
  replace (c_max_alloc c <? N.min u64_max (c_hdr c + l)) with false by lia. reflexivity.
Qed.

Lemma max_len_le c es : Forall (fun e => need c e <= c_max_alloc c) es -> 0 < c_hdr c -> c_hdr c <= c_max_alloc c ->
  c_hdr c + max_len es <= c_max_alloc c.
Proof.
  intros H Hh Hm. induction H as [|e es He Hes IH]; cbn [max_len fold_right]; [lia|].
  fold (max_len es). unfold need in He. lia.
Qed.

Lemma append_spec c s t e : cfg_ok c -> GInv c s -> name_ok c t = true -> need c e <= c_max_alloc c ->
  cnt (get_ts s (t_id t)) + 1 <= u64_max ->
  exists s', append c s t e = (s', ROk) /\ GInv c s' /\ others_same s s' (t_id t) /\
    stream (get_ts s' (t_id t)) = stream (get_ts s (t_id t)) ++ [e] /\
    unread c (get_ts s' (t_id t)) = unread c (get_ts s (t_id t)) ++ [e].
Proof.
  intros Hc Hg Hname Hsize Hcntb. pose proof Hc as (Hh & Hb0 & Hba & Hbm & Hme & Hhb).
  unfold append. rewrite (appendable_ok c t (e_len e) Hc Hname Hsize).
  destruct (ensure_writer_spec c s t Hc Hg) as (s1 & w & He & Hle1 & Hn1 & Hoth1 & Hw1 & Hp1 & Hst1 & Hun1 & Hcnt1).
  rewrite He. set (ts := get_ts s1 (t_id t)) in *.
  rewrite (tp_poison _ _ _ Hp1).
  pose proof (need_pos c e Hh) as Hnp.
  (* after the optional rotation: state s2 whose topic state has writer w2 with room for e *)
  assert (Hrot : exists s2 w2,
            (if b_limit w <? b_used w + need c e
             then match alloc_sized c (set_ts s1 (t_id t) (seal ts w)) (need c e) with
                  | None => (set_ts s1 (t_id t) (seal ts w), w, true)
                  | Some (s1'', nb) => (set_ts s1'' (t_id t) (with_writer (get_ts s1'' (t_id t)) (Some nb)), nb, false)
                  end
             else (s1, w, false)) = (s2, w2, false) /\
            a_next (s_alloc s1) <= a_next (s_alloc s2) /\ others_same s1 s2 (t_id t) /\
            ts_writer (get_ts s2 (t_id t)) = Some w2 /\ TInvP c (a_next (s_alloc s2)) (get_ts s2 (t_id t)) /\
            stream (get_ts s2 (t_id t)) = stream ts /\ unread c (get_ts s2 (t_id t)) = unread c ts /\
            cnt (get_ts s2 (t_id t)) = cnt ts /\ b_used w2 + need c e <= b_limit w2).
  { destruct (b_limit w <? b_used w + need c e) eqn:Erot.
    - destruct (alloc_sized_spec c (set_ts s1 (t_id t) (seal ts w)) (need c e) Hb0 Hbm Hnp Hsize) as (s1'' & nb & Ha & Hsame & Hnext & Hfresh & Hlim).
      rewrite Ha. cbn [s_alloc set_ts] in Hnext.
      rewrite (Hsame (t_id t)), get_set_same.
      destruct (rotate c Hh (a_next (s_alloc s1)) ts w nb Hn1 Hp1 Hw1 Hfresh) as (R1 & R2 & R3).
      eexists; eexists. split; [reflexivity|]. cbn [s_alloc set_ts]. rewrite Hnext.
      split; [lia|].
      split; [intros t' Hne; rewrite get_set_other by exact Hne; rewrite Hsame; now rewrite get_set_other by exact Hne|].
      rewrite get_set_same. split; [reflexivity|]. split; [exact R1|]. split; [exact R2|]. split; [exact R3|].
      split; [reflexivity|]. destruct Hfresh as (_ & Fu & _ & _). lia.
    - exists s1, w. split; [reflexivity|]. split; [lia|]. split; [intros t' _; reflexivity|].
      split; [exact Hw1|]. split; [exact Hp1|]. split; [reflexivity|]. split; [reflexivity|]. split; [reflexivity|lia]. }
  destruct Hrot as (s2 & w2 & Hrot & Hle2 & Hoth2 & Hw2 & Hp2 & Hst2 & Hun2 & Hcnt2 & Hfit).
  rewrite Hrot. rewrite Hname. cbn [negb].
  rewrite get_ts_disk_write.
  destruct (add_entry c Hh (a_next (s_alloc s2)) (get_ts s2 (t_id t)) w2 e Hp2 Hw2 Hfit) as (A1 & A2 & A3).
  eexists. split; [reflexivity|].
  set (tsf := count_add (with_writer (get_ts s2 (t_id t)) (Some (blk_add w2 c [e]))) 1).
  assert (Htsf : TInv c (a_next (s_alloc s2)) tsf).
  { apply TInvP_cnt; [apply TInvP_count_add; exact A1|].
    unfold tsf. rewrite unread_count_add, A3, app_length. cbn [length].
    rewrite cnt_count_add.
    - change (cnt (with_writer (get_ts s2 (t_id t)) (Some (blk_add w2 c [e])))) with (cnt (get_ts s2 (t_id t))).
      rewrite Hcnt2, Hun2. fold ts in Hcnt1, Hun1. rewrite Hcnt1, Hun1.
      destruct Hg as (_ & Hall). rewrite (ti_cnt _ _ _ (Hall (t_id t))). lia.
    - change (cnt (with_writer (get_ts s2 (t_id t)) (Some (blk_add w2 c [e])))) with (cnt (get_ts s2 (t_id t))).
      rewrite Hcnt2. fold ts in Hcnt1. rewrite Hcnt1. exact Hcntb. }
  split.
  { eapply GInv_update with (t := t_id t) (ts' := tsf); [exact Hg| | | |].
    - cbn [s_alloc set_ts st_disk_write]. lia.
    - intros t' Hne. rewrite get_set_other by exact Hne. rewrite get_ts_disk_write. rewrite (Hoth2 t' Hne). apply (Hoth1 t' Hne).
    - apply get_set_same.
    - exact Htsf. }
  split.
  { intros t' Hne. rewrite get_set_other by exact Hne. rewrite get_ts_disk_write. rewrite (Hoth2 t' Hne). apply (Hoth1 t' Hne). }
  rewrite get_set_same. fold tsf. unfold tsf. rewrite stream_count_add, unread_count_add, A2, A3, Hst2, Hun2.
  fold ts in Hst1, Hun1. now rewrite Hst1, Hun1.
Qed.

(* ------------------------------------------------------------------ batches *)
Lemma with_writer_same ts w : ts_writer ts = Some w -> with_writer ts (Some w) = ts.
Proof. intros H. destruct ts; cbn in *. now subst. Qed.

Lemma batch_plan_spec c (Hc : cfg_ok c) t : forall es s cur rot,
  0 < a_next (s_alloc s) ->
  TInvP c (a_next (s_alloc s)) (with_writer (get_ts s (t_id t)) (Some cur)) ->
  Forall (fun e => need c e <= c_max_alloc c) es ->
  exists s' cur' rot', batch_plan c s t cur rot es = (s', cur', true, rot') /\
    a_next (s_alloc s) <= a_next (s_alloc s') /\ others_same s s' (t_id t) /\
    TInvP c (a_next (s_alloc s')) (with_writer (get_ts s' (t_id t)) (Some cur')) /\
    stream (with_writer (get_ts s' (t_id t)) (Some cur')) = stream (with_writer (get_ts s (t_id t)) (Some cur)) ++ es /\
    unread c (with_writer (get_ts s' (t_id t)) (Some cur')) = unread c (with_writer (get_ts s (t_id t)) (Some cur)) ++ es /\
    cnt (get_ts s' (t_id t)) = cnt (get_ts s (t_id t)).
Proof.
  pose proof Hc as (Hh & Hb0 & Hba & Hbm & Hme & Hhb).
  induction es as [|e r IH]; intros s cur rot Hn Hinv Hsz; cbn [batch_plan].
  - exists s, cur, rot. split; [reflexivity|]. split; [lia|]. split; [intros t' _; reflexivity|].
    split; [exact Hinv|]. now rewrite !app_nil_r.
  - inversion Hsz as [|x l Hse Hsr]; subst.
    pose proof (need_pos c e Hh) as Hnp.
    set (X := with_writer (get_ts s (t_id t)) (Some cur)) in *.
    assert (HXw : ts_writer X = Some cur) by reflexivity.
    assert (Hcur : bwf c cur).
    { pose proof (tp_writer _ _ _ Hinv) as Hw. unfold w_list in Hw. rewrite HXw in Hw. now inversion Hw. }
    destruct Hcur as (Hcu & Hcl & Hcm).
    destruct (need c e <=? b_limit cur - b_used cur) eqn:Efit.
    + destruct (add_entry c Hh _ X cur e Hinv HXw ltac:(lia)) as (A1 & A2 & A3).
      destruct (IH (st_disk_write s cur t [e]) (blk_add cur c [e]) rot Hn A1 Hsr)
        as (s' & cur' & rot' & Hbp & Hle & Hoth & Hinv' & Hst' & Hun' & Hcnt').
      exists s', cur', rot'. split; [exact Hbp|]. split; [exact Hle|]. split; [exact Hoth|]. split; [exact Hinv'|].
      split; [|split; [|exact Hcnt']].
      * rewrite Hst'. change (with_writer (get_ts (st_disk_write s cur t [e]) (t_id t)) (Some (blk_add cur c [e])))
          with (with_writer X (Some (blk_add cur c [e]))). rewrite A2. now rewrite <- app_assoc.
      * rewrite Hun'. change (with_writer (get_ts (st_disk_write s cur t [e]) (t_id t)) (Some (blk_add cur c [e])))
          with (with_writer X (Some (blk_add cur c [e]))). rewrite A3. now rewrite <- app_assoc.
    + destruct (alloc_sized_spec c (set_ts s (t_id t) (seal (get_ts s (t_id t)) cur)) (N.max (need c e) (c_block c)) Hb0 Hbm ltac:(lia) ltac:(lia))
        as (s'' & nb & Ha & Hsame & Hnext & Hfresh & Hlim).
      rewrite Ha. cbn [s_alloc set_ts] in Hnext.
      destruct (rotate c Hh (a_next (s_alloc s)) X cur nb Hn Hinv HXw Hfresh) as (R1 & R2 & R3).
      assert (Hg'' : get_ts s'' (t_id t) = seal (get_ts s (t_id t)) cur) by (rewrite Hsame; apply get_set_same).
      assert (Hconv : with_writer (get_ts s'' (t_id t)) (Some nb) = with_writer (seal X cur) (Some nb)) by (rewrite Hg''; reflexivity).
      set (Y := with_writer (get_ts s'' (t_id t)) (Some nb)) in *.
      assert (HYw : ts_writer Y = Some nb) by reflexivity.
      assert (HYinv : TInvP c (a_next (s_alloc s'')) Y) by (rewrite Hnext, Hconv; exact R1).
      destruct Hfresh as (Fi & Fu & Fe & Fl).
      destruct (add_entry c Hh _ Y nb e HYinv HYw ltac:(lia)) as (A1 & A2 & A3).
      destruct (IH (st_disk_write s'' nb t [e]) (blk_add nb c [e]) true ltac:(cbn [st_disk_write s_alloc]; lia) A1 Hsr)
        as (s' & cur' & rot' & Hbp & Hle & Hoth & Hinv' & Hst' & Hun' & Hcnt').
      exists s', cur', rot'. split; [exact Hbp|]. cbn [st_disk_write s_alloc] in Hle.
      split; [lia|].
      split.
      { intros t' Hne. rewrite (Hoth t' Hne). rewrite get_ts_disk_write, Hsame. now rewrite get_set_other by exact Hne. }
      split; [exact Hinv'|].
      split; [|split].
      * rewrite Hst'. change (with_writer (get_ts (st_disk_write s'' nb t [e]) (t_id t)) (Some (blk_add nb c [e])))
          with (with_writer Y (Some (blk_add nb c [e]))). rewrite A2. rewrite Hconv, R2. now rewrite <- app_assoc.
      * rewrite Hun'. change (with_writer (get_ts (st_disk_write s'' nb t [e]) (t_id t)) (Some (blk_add nb c [e])))
          with (with_writer Y (Some (blk_add nb c [e]))). rewrite A3. rewrite Hconv, R3. now rewrite <- app_assoc.
      * rewrite Hcnt'. rewrite get_ts_disk_write, Hg''. reflexivity.
Qed.

Definition batch_ok (c : Cfg) (t : topic) (es : list entry) : Prop :=
  name_ok c t = true /\ Forall (fun e => need c e <= c_max_alloc c) es.

Lemma batch_spec c be s t es : cfg_ok c -> GInv c s -> batch_ok c t es ->
  cnt (get_ts s (t_id t)) + N.of_nat (length es) <= u64_max ->
  exists s' r, batch c be s t es = (s', r) /\ GInv c s' /\ others_same s s' (t_id t) /\
    ((r = ROk /\ stream (get_ts s' (t_id t)) = stream (get_ts s (t_id t)) ++ es /\
      unread c (get_ts s' (t_id t)) = unread c (get_ts s (t_id t)) ++ es) \/
     (r = RErr EInvalidInput /\ stream (get_ts s' (t_id t)) = stream (get_ts s (t_id t)) /\
      unread c (get_ts s' (t_id t)) = unread c (get_ts s (t_id t)))).
Proof.
  intros Hc Hg (Hname & Hsz) Hcntb. pose proof Hc as (Hh & Hb0 & Hba & Hbm & Hme & Hhb).
  unfold batch. rewrite (appendable_ok c t (max_len es) Hc Hname (max_len_le c es Hsz Hh ltac:(lia))).
  destruct (ensure_writer_spec c s t Hc Hg) as (s1 & w & He & Hle1 & Hn1 & Hoth1 & Hw1 & Hp1 & Hst1 & Hun1 & Hcnt1).
  rewrite He.
  assert (Hg1 : GInv c s1).
  { eapply GInv_update with (t := t_id t); [exact Hg|exact Hle1|exact Hoth1|reflexivity|].
    apply TInvP_cnt; [exact Hp1|]. rewrite Hcnt1, Hun1. destruct Hg as (_ & Hall). apply (ti_cnt _ _ _ (Hall (t_id t))). }
  assert (Hrej : exists s' r, (s1, RErr EInvalidInput) = (s', r) /\ GInv c s' /\ others_same s s' (t_id t) /\
    ((r = ROk /\ stream (get_ts s' (t_id t)) = stream (get_ts s (t_id t)) ++ es /\
      unread c (get_ts s' (t_id t)) = unread c (get_ts s (t_id t)) ++ es) \/
     (r = RErr EInvalidInput /\ stream (get_ts s' (t_id t)) = stream (get_ts s (t_id t)) /\
      unread c (get_ts s' (t_id t)) = unread c (get_ts s (t_id t))))).
  { exists s1, (RErr EInvalidInput). split; [reflexivity|]. split; [exact Hg1|]. split; [exact Hoth1|]. right. auto. }
  destruct (c_max_entries c <? N.of_nat (length es)); [exact Hrej|].
  destruct (c_max_bytes c <? sum_need c es); [exact Hrej|].
  destruct es as [|e0 es'].
  { exists s1, ROk. split; [reflexivity|]. split; [exact Hg1|]. split; [exact Hoth1|]. left. rewrite !app_nil_r. auto. }
  rewrite (tp_poison _ _ _ Hp1).
  assert (Hv : with_writer (get_ts s1 (t_id t)) (Some w) = get_ts s1 (t_id t)) by (apply with_writer_same; exact Hw1).
  assert (Hinv0 : TInvP c (a_next (s_alloc s1)) (with_writer (get_ts s1 (t_id t)) (Some w))) by (rewrite Hv; exact Hp1).
  destruct (batch_plan_spec c Hc t (e0 :: es') s1 w false Hn1 Hinv0 Hsz)
    as (s2 & wfin & rot' & Hbp & Hle2 & Hoth2 & Hinv2 & Hst2 & Hun2 & Hcnt2).
  rewrite Hbp. cbn [negb]. rewrite Hname. cbn [negb].
  set (n := N.of_nat (length (e0 :: es'))) in *.
  set (tsf := count_add (with_writer (get_ts s2 (t_id t)) (Some wfin)) n).
  rewrite Hv in Hst2, Hun2.
  assert (Htsf : TInv c (a_next (s_alloc s2)) tsf).
  { apply TInvP_cnt; [apply TInvP_count_add; exact Hinv2|].
    unfold tsf. rewrite unread_count_add, Hun2, app_length.
    change (cnt (count_add (with_writer (get_ts s2 (t_id t)) (Some wfin)) n)) with (cnt (count_add (with_writer (get_ts s2 (t_id t)) (Some wfin)) n)).
    rewrite cnt_count_add.
    - change (cnt (with_writer (get_ts s2 (t_id t)) (Some wfin))) with (cnt (get_ts s2 (t_id t))).
      rewrite Hcnt2, Hcnt1, Hun1. destruct Hg as (_ & Hall). rewrite (ti_cnt _ _ _ (Hall (t_id t))). unfold n. lia.
    - change (cnt (with_writer (get_ts s2 (t_id t)) (Some wfin))) with (cnt (get_ts s2 (t_id t))).
      rewrite Hcnt2, Hcnt1. exact Hcntb. }
  eexists; eexists. split; [reflexivity|].
  split.
  { eapply GInv_update with (t := t_id t) (ts' := tsf); [exact Hg| | | |].
    - cbn [s_alloc set_ts]. lia.
    - intros t' Hne. rewrite get_set_other by exact Hne. rewrite (Hoth2 t' Hne). apply (Hoth1 t' Hne).
    - apply get_set_same.
    - exact Htsf. }
  split.
  { intros t' Hne. rewrite get_set_other by exact Hne. rewrite (Hoth2 t' Hne). apply (Hoth1 t' Hne). }
  left. split; [reflexivity|]. rewrite get_set_same. fold tsf. unfold tsf.
  rewrite stream_count_add, unread_count_add, Hst2, Hun2, Hst1, Hun1. auto.
Qed.
