(* EngineErase.v — C02 (a) in full: erasing the non-consuming reads (peeks and offset-addressed
   reads) from any admissible restart-free history leaves the result of every remaining
   operation unchanged.  Proof: a simulation.  A peek changes a topic's state only in the
   reader's hydration flag and by stepping the in-memory cursor over exhausted blocks; every
   operation's result is insensitive to exactly that ([tsim]). *)
From W Require Import model.Base model.Engine spec.Queue proofs.EngineBasic proofs.EngineWF proofs.EngineInv
  proofs.EngineBR proofs.EngineW proofs.EngineMain.
From Coq Require Import ZArith ZifyBool ZifyN ZifyNat.

(* ------------------------------------------------------------------ the cursor up to exhausted blocks *)
Definition cur_norm (ch : list blk) (idx : nat) (off : N) : nat * N :=
  let '(i, o, _) := rn_walk (skipn idx ch) idx off in (i, o).

Lemma rn_walk_hit : forall rest idx off ch, skipn idx ch = rest ->
  let '(i, o, hit) := rn_walk rest idx off in hit = nth_error ch i /\ skipn i ch = skipn (i - idx) rest /\ (idx <= i)%nat.
Proof.
  induction rest as [|b rest IH]; intros idx off ch Hs; cbn [rn_walk].
  - split; [|split; [now rewrite Nat.sub_diag, Hs|lia]].
    symmetry. apply nth_error_None. apply skipn_nil_ge in Hs. exact Hs.
  - destruct (b_used b <=? off).
    + specialize (IH (S idx) 0 ch (skipn_S_of _ _ _ _ Hs)).
      destruct (rn_walk rest (S idx) 0) as [[i o] hit]. destruct IH as (A & B & C). split; [exact A|]. split; [|lia].
      rewrite B. replace (i - idx)%nat with (S (i - S idx)) by lia. reflexivity.
    + split; [symmetry; eapply nth_error_skipn; eauto|]. split; [now rewrite Nat.sub_diag, Hs|lia].
Qed.

Lemma rn_walk_ge : forall rest idx off, let '(i, _, _) := rn_walk rest idx off in (idx <= i)%nat.
Proof.
  induction rest as [|b rest IH]; intros idx off; cbn [rn_walk]; [lia|].
  destruct (b_used b <=? off); [|lia]. specialize (IH (S idx) 0). destruct (rn_walk rest (S idx) 0) as [[i o] h]. lia.
Qed.

(* walking is idempotent: from where the walk stopped it stops at once *)
Lemma rn_walk_idem : forall rest idx off,
  let '(i, o, hit) := rn_walk rest idx off in rn_walk (skipn (i - idx) rest) i o = (i, o, hit).
Proof.
  induction rest as [|b rest IH]; intros idx off; cbn [rn_walk].
  - rewrite Nat.sub_diag. reflexivity.
  - destruct (b_used b <=? off) eqn:E.
    + specialize (IH (S idx) 0). destruct (rn_walk rest (S idx) 0) as [[i o] hit] eqn:Ew.
      pose proof (rn_walk_ge rest (S idx) 0) as Hle. rewrite Ew in Hle.
      replace (i - idx)%nat with (S (i - S idx)) by lia. cbn [skipn]. exact IH.
    + rewrite Nat.sub_diag. cbn [skipn rn_walk]. now rewrite E.
Qed.

(* ------------------------------------------------------------------ the simulation relation *)
Record rsim (r r' : reader) : Prop := {
  rs_chain : r_chain r' = r_chain r;
  rs_tb : r_tail_bid r' = r_tail_bid r;
  rs_to : r_tail_off r' = r_tail_off r;
  rs_since : r_since r' = r_since r;
  rs_norm : cur_norm (r_chain r') (r_idx r') (r_off r') = cur_norm (r_chain r) (r_idx r) (r_off r)
}.

Record tsim (ts ts' : tstate) : Prop := {
  tm_writer : ts_writer ts' = ts_writer ts;
  tm_poison : ts_poisoned ts' = ts_poisoned ts;
  tm_count : ts_count ts' = ts_count ts;
  tm_index : ts_index ts' = ts_index ts;
  tm_unm : ts_unmodelled ts' = ts_unmodelled ts;
  tm_reader : rsim (reader_of ts) (reader_of ts')
}.

Definition ssim (s s' : st) : Prop :=
  s_alloc s' = s_alloc s /\ s_disk s' = s_disk s /\ s_files s' = s_files s /\ forall t, tsim (get_ts s t) (get_ts s' t).

Lemma rsim_refl r : rsim r r. Proof. constructor; reflexivity. Qed.
Lemma tsim_refl ts : tsim ts ts. Proof. constructor; try reflexivity. apply rsim_refl. Qed.
Lemma ssim_refl s : ssim s s. Proof. split; [reflexivity|]. split; [reflexivity|]. split; [reflexivity|]. intros; apply tsim_refl. Qed.

Lemma rsim_trans a b c : rsim a b -> rsim b c -> rsim a c.
Proof. intros [A1 A2 A3 A4 A5] [B1 B2 B3 B4 B5]. constructor; congruence. Qed.
Lemma tsim_trans a b c : tsim a b -> tsim b c -> tsim a c.
Proof. intros [A1 A2 A3 A4 A5 A6] [B1 B2 B3 B4 B5 B6]. constructor; try congruence. eapply rsim_trans; eauto. Qed.
Lemma ssim_trans a b c : ssim a b -> ssim b c -> ssim a c.
Proof.
  intros (A1 & A2 & A3 & A4) (B1 & B2 & B3 & B4). split; [congruence|]. split; [congruence|]. split; [congruence|].
  intros t0. eapply tsim_trans; eauto.
Qed.
Lemma rsim_sym a b : rsim a b -> rsim b a.
Proof. intros [A1 A2 A3 A4 A5]. constructor; congruence. Qed.
Lemma tsim_sym a b : tsim a b -> tsim b a.
Proof. intros [A1 A2 A3 A4 A5 A6]. constructor; try congruence. now apply rsim_sym. Qed.
Lemma ssim_sym a b : ssim a b -> ssim b a.
Proof. intros (A1 & A2 & A3 & A4). split; [congruence|]. split; [congruence|]. split; [congruence|]. intros t0. apply tsim_sym, A4. Qed.

(* building blocks: equal updates on both sides keep the relation *)
Lemma ssim_set s s' t ts ts' : ssim s s' -> tsim ts ts' -> ssim (set_ts s t ts) (set_ts s' t ts').
Proof.
  intros (A1 & A2 & A3 & A4) Ht. split; [exact A1|]. split; [exact A2|]. split; [exact A3|].
  intros t0. destruct (N.eq_dec t0 t) as [->|Hne]; [now rewrite !get_set_same|]. rewrite !get_set_other by exact Hne. apply A4.
Qed.

(* ------------------------------------------------------------------ read_next *)
(* the part of read_next behind the hydration, as a function of the hydrated reader *)
Lemma hydrate_none r b : (r_hydrated r = false -> True) ->
  hydrate r None b = ((if r_hydrated r then r else set_hydrated r), None).
Proof. intros _. unfold hydrate. destruct (r_hydrated r); reflexivity. Qed.

Definition hyd0 (r : reader) : reader := if r_hydrated r then r else set_hydrated r.
Lemma hyd0_fields r : r_chain (hyd0 r) = r_chain r /\ r_idx (hyd0 r) = r_idx r /\ r_off (hyd0 r) = r_off r /\
  r_tail_bid (hyd0 r) = r_tail_bid r /\ r_tail_off (hyd0 r) = r_tail_off r /\ r_since (hyd0 r) = r_since r /\ r_hydrated (hyd0 r) = true.
Proof. unfold hyd0. destruct (r_hydrated r) eqn:E; repeat split; auto. Qed.

(* under the engine invariant hydration is trivial: either already done or nothing persisted *)
Lemma hydrate_trivial r idx b : (r_hydrated r = false -> idx = None) -> hydrate r idx b = (hyd0 r, None).
Proof.
  intros H. unfold hydrate, hyd0. destruct (r_hydrated r) eqn:E; [reflexivity|]. now rewrite (H eq_refl).
Qed.

Lemma read_next_sim c m s s' t ck :
  ssim s s' ->
  (r_hydrated (reader_of (get_ts s (t_id t))) = false -> ts_index (get_ts s (t_id t)) = None) ->
  (r_hydrated (reader_of (get_ts s' (t_id t))) = false -> ts_index (get_ts s' (t_id t)) = None) ->
  let '(s1, r1) := read_next c m s t ck in
  let '(s1', r1') := read_next c m s' t ck in
  r1' = r1 /\ ssim s1 s1'.
Proof.
  intros Hs Hh Hh'. pose proof Hs as (A1 & A2 & A3 & A4).
  pose proof (A4 (t_id t)) as [Tw Tp Tc Ti Tu [Rc Rtb Rto Rs Rn]].
  unfold read_next.
  set (ts := get_ts s (t_id t)) in *. set (ts' := get_ts s' (t_id t)) in *.
  rewrite (hydrate_trivial (reader_of ts) (ts_index ts) false Hh).
  rewrite (hydrate_trivial (reader_of ts') (ts_index ts') false Hh').
  destruct (hyd0_fields (reader_of ts)) as (F1 & F2 & F3 & F4 & F5 & F6 & F7).
  destruct (hyd0_fields (reader_of ts')) as (G1 & G2 & G3 & G4 & G5 & G6 & G7).
  rewrite F1, F2, F3, G1, G2, G3.
  unfold cur_norm in Rn.
  pose proof (rn_walk_hit (skipn (r_idx (reader_of ts)) (r_chain (reader_of ts))) (r_idx (reader_of ts)) (r_off (reader_of ts)) (r_chain (reader_of ts)) eq_refl) as H1.
  pose proof (rn_walk_hit (skipn (r_idx (reader_of ts')) (r_chain (reader_of ts'))) (r_idx (reader_of ts')) (r_off (reader_of ts')) (r_chain (reader_of ts')) eq_refl) as H2.
  destruct (rn_walk (skipn (r_idx (reader_of ts)) (r_chain (reader_of ts))) (r_idx (reader_of ts)) (r_off (reader_of ts))) as [[i o] hit].
  destruct (rn_walk (skipn (r_idx (reader_of ts')) (r_chain (reader_of ts'))) (r_idx (reader_of ts')) (r_off (reader_of ts'))) as [[i' o'] hit'].
  inversion Rn; subst i' o'. destruct H1 as (H1 & _). destruct H2 as (H2 & _). rewrite Rc in H2. rewrite <- H1 in H2. subst hit'.
  (* from here on both sides compute with readers that agree on every field that is read *)
  assert (Er : set_cur (hyd0 (reader_of ts')) i o = set_cur (hyd0 (reader_of ts)) i o).
  { destruct (hyd0 (reader_of ts')) as [c1 i1 o1 tb1 to1 sn1 h1], (hyd0 (reader_of ts)) as [c2 i2 o2 tb2 to2 sn2 h2].
    cbn in *. unfold set_cur; cbn. f_equal; congruence. }
  rewrite Er. set (r3 := set_cur (hyd0 (reader_of ts)) i o) in *.
  assert (Ew : forall r, with_reader ts' r = with_reader ts r \/ True) by (intros; now right).
  assert (Ewr : forall r, tsim (with_reader ts r) (with_reader ts' r)).
  { intros r. constructor; cbn; auto. apply rsim_refl. }
  assert (Ewr2 : forall r f, (forall x y, tsim x y -> tsim (f x) (f y)) -> tsim (f (with_reader ts r)) (f (with_reader ts' r))) by (intros; auto).
  assert (Hcs : forall x y d, tsim x y -> tsim (count_sub x d) (count_sub y d)).
  { intros x y d [X1 X2 X3 X4 X5 X6]. unfold count_sub. destruct (d =? 0); [constructor; auto|]. constructor; cbn; auto. now rewrite X3. }
  assert (Hpe : forall x y tl a off, tsim x y -> tsim (persist x tl a off) (persist y tl a off)).
  { intros x y tl a off [X1 X2 X3 X4 X5 X6]. constructor; cbn; auto. }
  destruct hit as [b|].
  - destruct (block_read c b o) as [[e consumed]|].
    + destruct ck.
      * destruct (should_persist m (set_cur r3 i (o + consumed)) false) as [r5 p].
        split; [reflexivity|]. apply ssim_set; [exact Hs|]. apply Hcs. destruct p; [apply Hpe|]; apply Ewr.
      * split; [reflexivity|]. apply ssim_set; [exact Hs|apply Ewr].
    + split; [reflexivity|]. apply ssim_set; [exact Hs|apply Ewr].
  - rewrite Tw, Tp. destruct (ts_writer ts) as [w|]; [|split; [reflexivity|apply ssim_set; [exact Hs|apply Ewr]]].
    destruct (ts_poisoned ts); [split; [reflexivity|apply ssim_set; [exact Hs|apply Ewr]]|].
    set (start := if r_tail_bid r3 =? b_id w then r_tail_off r3 else 0).
    assert (Hpair : exists r4 (f : tstate -> tstate), (forall x y, tsim x y -> tsim (f x) (f y)) /\
              (if ck && (start =? 0) && (0 <? b_used w) then let '(r', p) := should_persist m r3 true in (r', if p then persist ts true (b_id w) start else ts) else (r3, ts)) = (r4, f ts) /\
              (if ck && (start =? 0) && (0 <? b_used w) then let '(r', p) := should_persist m r3 true in (r', if p then persist ts' true (b_id w) start else ts') else (r3, ts')) = (r4, f ts')).
    { destruct (ck && (start =? 0) && (0 <? b_used w)).
      - destruct (should_persist m r3 true) as [r' p]. destruct p.
        + exists r', (fun x => persist x true (b_id w) start). split; [intros; now apply Hpe|]. split; reflexivity.
        + exists r', (fun x => x). split; [auto|]. split; reflexivity.
      - exists r3, (fun x => x). split; [auto|]. split; reflexivity. }
    destruct Hpair as (r4 & f & Hf & E1 & E2). rewrite E1, E2.
    assert (Hf1 : forall r, tsim (with_reader (f ts) r) (with_reader (f ts') r)).
    { intros r. pose proof (Hf ts ts' (A4 (t_id t))) as [X1 X2 X3 X4 X5 X6]. constructor; cbn; auto. apply rsim_refl. }
    destruct (start <? b_used w); [|split; [reflexivity|apply ssim_set; [exact Hs|apply Hf1]]].
    destruct (block_read c w start) as [[e consumed]|]; [|split; [reflexivity|apply ssim_set; [exact Hs|apply Hf1]]].
    destruct ck; [|split; [reflexivity|apply ssim_set; [exact Hs|apply Hf1]]].
    destruct (should_persist m (set_tail r4 (b_id w) (start + consumed)) false) as [r6 p].
    split; [reflexivity|]. apply ssim_set; [exact Hs|]. apply Hcs. destruct p; [apply Hpe|]; apply Hf1.
Qed.

(* ------------------------------------------------------------------ batch_read (stateful) *)
Lemma plan_sealed_hint c maxb : forall rest idx off h h' planned acc,
  plan_sealed c maxb false rest idx off h planned acc = plan_sealed c maxb false rest idx off h' planned acc.
Proof.
  induction rest as [|b rest IH]; intros idx off h h' planned acc; cbn [plan_sealed]; [reflexivity|].
  destruct (negb _); [reflexivity|]. destruct (b_used b <=? off); [apply IH|].
  cbn [andb]. destruct acc as [|a acc'].
  - destruct (_ <? b_used b); [reflexivity|apply IH].
  - destruct (_ <? b_used b); [reflexivity|apply IH].
Qed.

(* planning starts by stepping over exhausted blocks, exactly like the read_next walk *)
Lemma plan_sealed_norm c maxb : forall rest idx off,
  let '(i, o, _) := rn_walk rest idx off in
  plan_sealed c maxb false rest idx off 0 0 [] = plan_sealed c maxb false (skipn (i - idx) rest) i o 0 0 [].
Proof.
  induction rest as [|b rest IH]; intros idx off; cbn [rn_walk].
  - rewrite Nat.sub_diag. reflexivity.
  - destruct (b_used b <=? off) eqn:E.
    + specialize (IH (S idx) 0). pose proof (rn_walk_ge rest (S idx) 0) as Hge.
      destruct (rn_walk rest (S idx) 0) as [[i o] hit].
      replace (i - idx)%nat with (S (i - S idx)) by lia. cbn [skipn].
      rewrite <- IH. cbn [plan_sealed]. rewrite E.
      replace (negb ((0 <? maxb) || true)) with false by (now rewrite orb_true_r). reflexivity.
    + rewrite Nat.sub_diag. reflexivity.
Qed.

Lemma skipn_skipn_le {A} (l : list A) a b : (a <= b)%nat -> skipn (b - a) (skipn a l) = skipn b l.
Proof. intros H. rewrite <- skipn_add. f_equal. lia. Qed.

Lemma plan_sealed_cur_norm c maxb ch idx off idx' off' :
  cur_norm ch idx' off' = cur_norm ch idx off ->
  plan_sealed c maxb false (skipn idx' ch) idx' off' 0 0 [] = plan_sealed c maxb false (skipn idx ch) idx off 0 0 [].
Proof.
  unfold cur_norm. intros H.
  pose proof (plan_sealed_norm c maxb (skipn idx ch) idx off) as P1.
  pose proof (plan_sealed_norm c maxb (skipn idx' ch) idx' off') as P2.
  pose proof (rn_walk_ge (skipn idx ch) idx off) as G1. pose proof (rn_walk_ge (skipn idx' ch) idx' off') as G2.
  destruct (rn_walk (skipn idx ch) idx off) as [[i o] h]. destruct (rn_walk (skipn idx' ch) idx' off') as [[i' o'] h'].
  inversion H; subst i' o'. rewrite P1, P2. rewrite !skipn_skipn_le by assumption. reflexivity.
Qed.

Lemma br_from_sim c m s s' t maxb ck ts ts' r r' ch idx off idx' off' tb tof :
  ssim s s' -> tsim ts ts' ->
  r_chain r = ch -> r_chain r' = ch -> r_tail_bid r' = r_tail_bid r -> r_tail_off r' = r_tail_off r ->
  r_since r' = r_since r -> r_hydrated r' = r_hydrated r ->
  r_idx r = idx -> r_off r = off -> r_idx r' = idx' -> r_off r' = off' ->
  cur_norm ch idx' off' = cur_norm ch idx off ->
  let '(s1, r1) := br_from c m s t maxb ck ts (Some r, ch, idx, off, tb, tof, 0, 0, false) in
  let '(s1', r1') := br_from c m s' t maxb ck ts' (Some r', ch, idx', off', tb, tof, 0, 0, false) in
  r1' = r1 /\ ssim s1 s1'.
Proof.
  intros Hs [Tw Tp Tc Ti Tu Tr] C1 C2 C3 C4 C5 C6 I1 O1 I2 O2 Hn.
  unfold br_from. cbn zeta. rewrite Tw, Tp.
  rewrite (plan_sealed_cur_norm c maxb ch idx off idx' off' Hn).
  destruct (plan_sealed c maxb false (skipn idx ch) idx off 0 0 []) as [[[racc planned] idx_after] truncated].
  match goal with |- context [if negb truncated && ?b then ?x else ?y] => destruct (if negb truncated && b then x else y) as [racc2 trim1] end.
  assert (Hh : tsim (with_reader ts r) (with_reader ts' r')).
  { constructor; cbn; auto. constructor; cbn; try congruence; try (rewrite C1, C2, I1, O1, I2, O2; exact Hn). }
  destruct racc2 as [|it racc2]; [split; [reflexivity|apply ssim_set; assumption]|].
  set (p := parse_plan c maxb (rev (it :: racc2)) _).
  split; [reflexivity|]. apply ssim_set; [exact Hs|].
  assert (Hcs : forall x y d, tsim x y -> tsim (count_sub x d) (count_sub y d)).
  { intros x y d [X1 X2 X3 X4 X5 X6]. unfold count_sub. destruct (d =? 0); [constructor; auto|]. constructor; cbn; auto. now rewrite X3. }
  assert (Hpe : forall x y tl a o, tsim x y -> tsim (persist x tl a o) (persist y tl a o)).
  { intros x y tl a o [X1 X2 X3 X4 X5 X6]. constructor; cbn; auto. }
  cbn [negb]. rewrite !andb_true_r.
  cbn [reader_of with_reader ts_reader].
  assert (Hwr : forall q q', q' = q -> tsim (with_reader (with_reader ts r) q) (with_reader (with_reader ts' r') q')).
  { intros q q' ->. constructor; cbn; auto. apply rsim_refl. }
  destruct ((0 <? ps_parsed p) && ck) eqn:Ecommit.
  - assert (Hck : ck = true) by (destruct ck; [reflexivity|now rewrite andb_false_r in Ecommit]). subst ck.
    apply Hcs.
    destruct m as [|n].
    + destruct (ps_saw_tail p); apply Hpe; apply Hwr; unfold set_tail, set_cur;
        cbn [r_chain r_idx r_off r_tail_bid r_tail_off r_since r_hydrated]; rewrite ?C3, ?C4, ?C5, ?C6, ?C2; rewrite <- ?C1; reflexivity.
    + destruct (ps_saw_tail p); apply Hwr; unfold set_tail, set_cur, set_since;
        cbn [r_chain r_idx r_off r_tail_bid r_tail_off r_since r_hydrated]; rewrite ?C3, ?C4, ?C5, ?C6, ?C2; rewrite <- ?C1; reflexivity.
  - destruct ck; [apply Hcs|]; exact Hh.
Qed.

Lemma batch_read_sim c m s s' t maxb ck start :
  ssim s s' ->
  (r_hydrated (reader_of (get_ts s (t_id t))) = false -> ts_index (get_ts s (t_id t)) = None) ->
  (r_hydrated (reader_of (get_ts s' (t_id t))) = false -> ts_index (get_ts s' (t_id t)) = None) ->
  let '(s1, r1) := batch_read c m s t maxb ck start in
  let '(s1', r1') := batch_read c m s' t maxb ck start in
  r1' = r1 /\ ssim s1 s1'.
Proof.
  intros Hs Hh Hh'. pose proof Hs as (A1 & A2 & A3 & A4).
  pose proof (A4 (t_id t)) as Ht. pose proof Ht as [Tw Tp Tc Ti Tu [Rc Rtb Rto Rs Rn]].
  destruct start as [st0|].
  - (* offset-addressed: reads the chain and the writer only, stores nothing *)
    destruct (batch_read_stateless c m s t maxb ck st0) as (os & E1).
    destruct (batch_read_stateless c m s' t maxb ck st0) as (os' & E2).
    rewrite E1, E2.
    assert (os' = os).
    { unfold batch_read in E1, E2.
      assert (Hp : br_position c (get_ts s' (t_id t)) (Some st0) = br_position c (get_ts s (t_id t)) (Some st0)).
      { unfold br_position.
        assert (Hch : match ts_reader (get_ts s' (t_id t)) with Some r => r_chain r | None => [] end =
                      match ts_reader (get_ts s (t_id t)) with Some r => r_chain r | None => [] end).
        { unfold reader_of in Rc. destruct (ts_reader (get_ts s' (t_id t))), (ts_reader (get_ts s (t_id t))); cbn in Rc; auto. }
        now rewrite Hch. }
      rewrite Hp in E2.
      destruct (br_position_stateless c (get_ts s (t_id t)) st0) as (chain & idx0 & off0 & tb & tof & trim0 & hint0 & Ep).
      rewrite Ep in E1, E2.
      unfold br_from in E1, E2. cbn zeta in E1, E2. rewrite Tw, Tp in E2.
      destruct (plan_sealed _ _ _ _ _ _ _ _ _) as [[[racc planned] idx_after] truncated].
      match type of E1 with context [let '(_, _) := ?X in _] => destruct X as [racc2 trim1] end.
      destruct racc2; [inversion E1; inversion E2; congruence|].
      cbn [negb] in E1, E2. rewrite !andb_false_r in E1, E2. inversion E1; inversion E2; congruence. }
    subst os'. split; [reflexivity|]. apply ssim_set; [exact Hs|exact Ht].
  - unfold batch_read, br_position.
    set (ts := get_ts s (t_id t)) in *. set (ts' := get_ts s' (t_id t)) in *.
    rewrite (hydrate_trivial (reader_of ts) (ts_index ts) true Hh).
    rewrite (hydrate_trivial (reader_of ts') (ts_index ts') true Hh').
    destruct (hyd0_fields (reader_of ts)) as (F1 & F2 & F3 & F4 & F5 & F6 & F7).
    destruct (hyd0_fields (reader_of ts')) as (G1 & G2 & G3 & G4 & G5 & G6 & G7).
    rewrite G1, G4, G5, Rc, Rtb, Rto, <- F1, <- F4, <- F5.
    apply br_from_sim; auto; try congruence;
      try (rewrite F1, F2, F3, G2, G3; rewrite <- Rc at 1; exact Rn).
Qed.

(* ------------------------------------------------------------------ the write path *)
Lemma rn_walk_app : forall rest b idx off,
  rn_walk (rest ++ [b]) idx off =
  match rn_walk rest idx off with
  | (i, o, Some h) => (i, o, Some h)
  | (i, o, None) => rn_walk [b] i o
  end.
Proof.
  induction rest as [|x rest IH]; intros b idx off; cbn [app rn_walk]; [reflexivity|].
  destruct (b_used x <=? off); [apply IH|reflexivity].
Qed.

Lemma cur_norm_app ch b idx off idx' off' : (idx <= length ch)%nat -> (idx' <= length ch)%nat ->
  cur_norm ch idx' off' = cur_norm ch idx off -> cur_norm (ch ++ [b]) idx' off' = cur_norm (ch ++ [b]) idx off.
Proof.
  intros Hl Hl' H. unfold cur_norm in *.
  rewrite !skipn_app. replace (idx - length ch)%nat with 0%nat by lia. replace (idx' - length ch)%nat with 0%nat by lia.
  cbn [skipn]. rewrite !rn_walk_app.
  pose proof (rn_walk_hit (skipn idx ch) idx off ch eq_refl) as H1.
  pose proof (rn_walk_hit (skipn idx' ch) idx' off' ch eq_refl) as H2.
  destruct (rn_walk (skipn idx ch) idx off) as [[i o] h]. destruct (rn_walk (skipn idx' ch) idx' off') as [[i' o'] h'].
  inversion H; subst i' o'. destruct H1 as (H1 & _). destruct H2 as (H2 & _). rewrite <- H1 in H2. subst h'.
  destruct h; reflexivity.
Qed.

Lemma chain_push_rsim r r' b : rsim r r' -> (r_idx r <= length (r_chain r))%nat -> (r_idx r' <= length (r_chain r'))%nat ->
  rsim (chain_push r b) (chain_push r' b).
Proof.
  intros [A1 A2 A3 A4 A5] H1 H2. unfold chain_push. destruct (b_used b =? 0); [constructor; auto|].
  rewrite A2. destruct (r_tail_bid r =? b_id b).
  - constructor; cbn; try congruence; try (rewrite A1, A3; reflexivity).
  - constructor; cbn; try congruence; try (rewrite A1 in *; apply cur_norm_app; auto).
Qed.

Lemma seal_tsim ts ts' b : tsim ts ts' ->
  (r_idx (reader_of ts) <= length (r_chain (reader_of ts)))%nat -> (r_idx (reader_of ts') <= length (r_chain (reader_of ts')))%nat ->
  tsim (seal ts b) (seal ts' b).
Proof.
  intros [A1 A2 A3 A4 A5 A6] H1 H2. constructor; cbn; auto. now apply chain_push_rsim.
Qed.

Lemma with_writer_tsim ts ts' w : tsim ts ts' -> tsim (with_writer ts w) (with_writer ts' w).
Proof. intros [A1 A2 A3 A4 A5 A6]. constructor; cbn; auto. Qed.
Lemma count_add_tsim ts ts' d : tsim ts ts' -> tsim (count_add ts d) (count_add ts' d).
Proof. intros [A1 A2 A3 A4 A5 A6]. unfold count_add. destruct (d =? 0); constructor; cbn; auto. now rewrite A3. Qed.
Lemma with_poison_tsim ts ts' : tsim ts ts' -> tsim (with_poison ts) (with_poison ts').
Proof. intros [A1 A2 A3 A4 A5 A6]. constructor; cbn; auto. Qed.

Lemma mark_unmodelled_ssim s s' t : ssim s s' -> ssim (mark_unmodelled s t) (mark_unmodelled s' t).
Proof.
  intros Hs. unfold mark_unmodelled. apply ssim_set; [exact Hs|].
  destruct Hs as (_ & _ & _ & A4). destruct (A4 t) as [A1 A2 A3 A5 A6 A7]. constructor; cbn; auto.
Qed.

Lemma get_ts_alloc_first c s t : get_ts (fst (alloc_first c s)) t = get_ts s t.
Proof. unfold alloc_first. destruct (c_file c <=? a_off (s_alloc s)); reflexivity. Qed.

Lemma alloc_first_ssim c s s' : ssim s s' ->
  snd (alloc_first c s') = snd (alloc_first c s) /\ ssim (fst (alloc_first c s)) (fst (alloc_first c s')).
Proof.
  intros (A1 & A2 & A3 & A4). unfold alloc_first, disk_add. rewrite A1, A2, A3.
  destruct (c_file c <=? a_off (s_alloc s)); cbn; (split; [reflexivity|]); (split; [reflexivity|]); (split; [reflexivity|]);
    (split; [reflexivity|]); intros t0; exact (A4 t0).
Qed.

Lemma alloc_sized_ssim c s s' want : ssim s s' ->
  match alloc_sized c s want, alloc_sized c s' want with
  | None, None => True
  | Some (s1, b), Some (s1', b') => b' = b /\ ssim s1 s1' /\ (forall t, get_ts s1 t = get_ts s t) /\ (forall t, get_ts s1' t = get_ts s' t)
  | _, _ => False
  end.
Proof.
  intros (A1 & A2 & A3 & A4). unfold alloc_sized, disk_add. rewrite A1, A2, A3.
  destruct ((want =? 0) || (c_max_alloc c <? want)); [exact I|].
  destruct (c_file c <? _); cbn; (split; [reflexivity|]); (split; [|split; intros t0; reflexivity]);
    (split; [reflexivity|]); (split; [reflexivity|]); (split; [reflexivity|]); intros t0; exact (A4 t0).
Qed.

Lemma st_disk_write_ssim s s' b t es : ssim s s' -> ssim (st_disk_write s b t es) (st_disk_write s' b t es).
Proof.
  intros (A1 & A2 & A3 & A4). unfold st_disk_write. cbn. rewrite A2.
  split; [exact A1|]. split; [reflexivity|]. split; [exact A3|]. intros t0; exact (A4 t0).
Qed.

(* the index bound of the engine invariant, on both sides *)
Definition idx_ok (s : st) : Prop := forall t, (r_idx (reader_of (get_ts s t)) <= length (r_chain (reader_of (get_ts s t))))%nat.

Lemma ensure_writer_ssim c s s' t : ssim s s' ->
  snd (ensure_writer c s' t) = snd (ensure_writer c s t) /\ ssim (fst (ensure_writer c s t)) (fst (ensure_writer c s' t)) /\
  (forall t0, reader_of (get_ts (fst (ensure_writer c s t)) t0) = reader_of (get_ts s t0)) /\
  (forall t0, reader_of (get_ts (fst (ensure_writer c s' t)) t0) = reader_of (get_ts s' t0)).
Proof.
  intros Hs. pose proof Hs as (A1 & A2 & A3 & A4). unfold ensure_writer.
  destruct (A4 (t_id t)) as [Tw _ _ _ _ _]. rewrite Tw.
  destruct (ts_writer (get_ts s (t_id t))) as [w|]; [cbn [fst snd]; split; [reflexivity|]; split; [exact Hs|]; split; intros; reflexivity|].
  destruct (alloc_first_ssim c s s' Hs) as (Hb & Hs1).
  pose proof (get_ts_alloc_first c s) as G1. pose proof (get_ts_alloc_first c s') as G2.
  destruct (alloc_first c s) as [s1 b]. destruct (alloc_first c s') as [s1' b']. cbn [fst snd] in *. subst b'.
  split; [reflexivity|]. split.
  - apply ssim_set; [exact Hs1|]. apply with_writer_tsim. destruct Hs1 as (_ & _ & _ & H). apply H.
  - split; intros t0; (destruct (N.eq_dec t0 (t_id t)) as [->|Hne]; [rewrite get_set_same|rewrite get_set_other by exact Hne]);
      unfold reader_of, with_writer; cbn [ts_reader]; rewrite ?G1, ?G2; reflexivity.
Qed.

Lemma ssim_get s s' t : ssim s s' -> tsim (get_ts s t) (get_ts s' t).
Proof. intros (_ & _ & _ & H). apply H. Qed.

(* writing one entry into the writer block [w] and counting it *)
Lemma write_entry_ssim c s s' t w e d : ssim s s' ->
  ssim (set_ts (st_disk_write s w t [e]) (t_id t) (count_add (with_writer (get_ts (st_disk_write s w t [e]) (t_id t)) (Some (blk_add w c [e]))) d))
       (set_ts (st_disk_write s' w t [e]) (t_id t) (count_add (with_writer (get_ts (st_disk_write s' w t [e]) (t_id t)) (Some (blk_add w c [e]))) d)).
Proof.
  intros Hs. apply ssim_set; [now apply st_disk_write_ssim|]. apply count_add_tsim, with_writer_tsim.
  rewrite !get_ts_disk_write. now apply ssim_get.
Qed.

Lemma append_sim c s s' t e : ssim s s' -> idx_ok s -> idx_ok s' ->
  let '(s1, r1) := append c s t e in
  let '(s1', r1') := append c s' t e in
  r1' = r1 /\ ssim s1 s1'.
Proof.
  intros Hs Hi Hi'. unfold append.
  destruct (ensure_writer_ssim c s s' t Hs) as (Hw & Hs1 & Hr1 & Hr1').
  destruct (ensure_writer c s t) as [s1 w]. destruct (ensure_writer c s' t) as [s1' w']. cbn [fst snd] in *. subst w'.
  destruct (appendable c t (e_len e)); [split; [reflexivity|exact Hs1]|].
  pose proof (ssim_get _ _ (t_id t) Hs1) as Ht. pose proof Ht as [Tw Tp Tc Ti Tu Tr]. rewrite Tp.
  destruct (ts_poisoned (get_ts s1 (t_id t))); [split; [reflexivity|exact Hs1]|].
  destruct (b_limit w <? b_used w + need c e).
  - (* rotation *)
    assert (Hseal : ssim (set_ts s1 (t_id t) (seal (get_ts s1 (t_id t)) w)) (set_ts s1' (t_id t) (seal (get_ts s1' (t_id t)) w))).
    { apply ssim_set; [exact Hs1|]. apply seal_tsim; [exact Ht| |].
      - rewrite Hr1. apply Hi.
      - rewrite Hr1'. apply Hi'. }
    pose proof (alloc_sized_ssim c _ _ (need c e) Hseal) as Ha.
    destruct (alloc_sized c (set_ts s1 (t_id t) (seal (get_ts s1 (t_id t)) w)) (need c e)) as [[s2 nb]|];
      destruct (alloc_sized c (set_ts s1' (t_id t) (seal (get_ts s1' (t_id t)) w)) (need c e)) as [[s2' nb']|]; try contradiction.
    + destruct Ha as (-> & Hs2 & _ & _).
      assert (Hs2w : ssim (set_ts s2 (t_id t) (with_writer (get_ts s2 (t_id t)) (Some nb))) (set_ts s2' (t_id t) (with_writer (get_ts s2' (t_id t)) (Some nb)))).
      { apply ssim_set; [exact Hs2|]. apply with_writer_tsim. now apply ssim_get. }
      destruct (negb (name_ok c t)); [split; [reflexivity|exact Hs2w]|].
      split; [reflexivity|]. now apply write_entry_ssim.
    + split; [reflexivity|exact Hseal].
  - destruct (negb (name_ok c t)); [split; [reflexivity|exact Hs1]|].
    split; [reflexivity|]. now apply write_entry_ssim.
Qed.

(* batch planning: the running block [cur] is local to the plan, the topic's reader only
   changes through seals *)
Lemma batch_plan_sim c t : forall es s s' cur rot, ssim s s' -> idx_ok s -> idx_ok s' ->
  let '(s1, c1, ok1, rot1) := batch_plan c s t cur rot es in
  let '(s1', c1', ok1', rot1') := batch_plan c s' t cur rot es in
  c1' = c1 /\ ok1' = ok1 /\ rot1' = rot1 /\ ssim s1 s1'.
Proof.
  induction es as [|e es IH]; intros s s' cur rot Hs Hi Hi'; cbn [batch_plan]; [auto|].
  destruct (need c e <=? b_limit cur - b_used cur).
  - apply IH; [now apply st_disk_write_ssim| |]; intros t0; rewrite get_ts_disk_write; auto.
  - assert (Hseal : ssim (set_ts s (t_id t) (seal (get_ts s (t_id t)) cur)) (set_ts s' (t_id t) (seal (get_ts s' (t_id t)) cur))).
    { apply ssim_set; [exact Hs|]. apply seal_tsim; [now apply ssim_get|apply Hi|apply Hi']. }
    pose proof (alloc_sized_ssim c _ _ (N.max (need c e) (c_block c)) Hseal) as Ha.
    destruct (alloc_sized c (set_ts s (t_id t) (seal (get_ts s (t_id t)) cur)) (N.max (need c e) (c_block c))) as [[s2 nb]|];
      destruct (alloc_sized c (set_ts s' (t_id t) (seal (get_ts s' (t_id t)) cur)) (N.max (need c e) (c_block c))) as [[s2' nb']|]; try contradiction.
    + destruct Ha as (-> & Hs2 & G & G').
      apply IH; [now apply st_disk_write_ssim| |].
      * (* the index bound survives a seal: chain_push keeps idx <= length *)
        intros t0. rewrite get_ts_disk_write, G.
        destruct (N.eq_dec t0 (t_id t)) as [->|Hne]; [rewrite get_set_same|rewrite get_set_other by exact Hne; apply Hi].
        cbn [seal reader_of ts_reader]. specialize (Hi (t_id t)). unfold chain_push.
        destruct (b_used cur =? 0); [exact Hi|]. destruct (r_tail_bid _ =? b_id cur); cbn; rewrite app_length; cbn; lia.
      * intros t0. rewrite get_ts_disk_write, G'.
        destruct (N.eq_dec t0 (t_id t)) as [->|Hne]; [rewrite get_set_same|rewrite get_set_other by exact Hne; apply Hi'].
        cbn [seal reader_of ts_reader]. specialize (Hi' (t_id t)). unfold chain_push.
        destruct (b_used cur =? 0); [exact Hi'|]. destruct (r_tail_bid _ =? b_id cur); cbn; rewrite app_length; cbn; lia.
    + auto.
Qed.

Lemma batch_sim c be s s' t es : ssim s s' -> idx_ok s -> idx_ok s' ->
  let '(s1, r1) := batch c be s t es in
  let '(s1', r1') := batch c be s' t es in
  r1' = r1 /\ ssim s1 s1'.
Proof.
  intros Hs Hi Hi'. unfold batch.
  destruct (ensure_writer_ssim c s s' t Hs) as (Hw & Hs1 & Hr1 & Hr1').
  destruct (ensure_writer c s t) as [s1 w]. destruct (ensure_writer c s' t) as [s1' w']. cbn [fst snd] in *. subst w'.
  destruct (c_max_entries c <? N.of_nat (length es)); [split; [reflexivity|exact Hs1]|].
  destruct (c_max_bytes c <? sum_need c es); [split; [reflexivity|exact Hs1]|].
  destruct (appendable c t (max_len es)); [split; [reflexivity|exact Hs1]|].
  destruct es as [|e0 es0]; [split; [reflexivity|exact Hs1]|].
  pose proof (ssim_get _ _ (t_id t) Hs1) as [Tw Tp Tc Ti Tu Tr]. rewrite Tp.
  destruct (ts_poisoned (get_ts s1 (t_id t))); [split; [reflexivity|exact Hs1]|].
  assert (Hi1 : idx_ok s1) by (intros t0; rewrite Hr1; apply Hi).
  assert (Hi1' : idx_ok s1') by (intros t0; rewrite Hr1'; apply Hi').
  pose proof (batch_plan_sim c t (e0 :: es0) s1 s1' w false Hs1 Hi1 Hi1') as Hp.
  destruct (batch_plan c s1 t w false (e0 :: es0)) as [[[s2 wfin] okp] rot].
  destruct (batch_plan c s1' t w false (e0 :: es0)) as [[[s2' wfin'] okp'] rot'].
  destruct Hp as (-> & -> & -> & Hs2).
  destruct okp; cbn [negb].
  - destruct (negb (name_ok c t)).
    + destruct be.
      * split; [reflexivity|]. destruct rot.
        -- apply ssim_set; [now apply mark_unmodelled_ssim|]. apply with_poison_tsim, ssim_get. now apply mark_unmodelled_ssim.
        -- apply ssim_set; [exact Hs1|]. apply with_poison_tsim. now apply ssim_get.
      * split; [reflexivity|]. destruct rot; [now apply mark_unmodelled_ssim|exact Hs1].
    + split; [reflexivity|]. apply ssim_set; [exact Hs2|]. apply count_add_tsim, with_writer_tsim. now apply ssim_get.
  - split; [reflexivity|]. now apply mark_unmodelled_ssim.
Qed.

(* ------------------------------------------------------------------ one step, and a peek *)
Definition nonconsuming (o : op) : bool :=
  match o with
  | ORead _ false | OBatchRead _ _ false None | OBatchRead _ _ _ (Some _) => true
  | _ => false
  end.

Lemma GInv_hyd c s t : GInv c s -> r_hydrated (reader_of (get_ts s t)) = false -> ts_index (get_ts s t) = None.
Proof. intros (_ & H). apply (ti_hyd _ _ _ (H t)). Qed.
Lemma GInv_idx c s : GInv c s -> idx_ok s.
Proof. intros (_ & H) t. apply (ti_idx _ _ _ (H t)). Qed.

Lemma step_sim c m be s s' o : ssim s s' -> GInv c s -> GInv c s' -> o <> OReopen ->
  let '(s1, r1) := step (env_of c m be) s o in
  let '(s1', r1') := step (env_of c m be) s' o in
  r1' = r1 /\ ssim s1 s1'.
Proof.
  intros Hs Hg Hg' Hne. destruct o as [t e | t es | t ck | t maxb ck start | t | ]; cbn [step env_of v_cfg v_mode v_backend].
  - apply append_sim; [exact Hs|eapply GInv_idx; eauto|eapply GInv_idx; eauto].
  - apply batch_sim; [exact Hs|eapply GInv_idx; eauto|eapply GInv_idx; eauto].
  - apply read_next_sim; auto; intros H; eapply GInv_hyd; eauto.
  - apply batch_read_sim; auto; intros H; eapply GInv_hyd; eauto.
  - split; [|exact Hs]. destruct (ssim_get _ _ (t_id t) Hs) as [_ _ Tc _ _ _]. now rewrite Tc.
  - congruence.
Qed.

Lemma ssim_set_r s t ts' : tsim (get_ts s t) ts' -> ssim s (set_ts s t ts').
Proof.
  intros H. split; [reflexivity|]. split; [reflexivity|]. split; [reflexivity|].
  intros t0. destruct (N.eq_dec t0 t) as [->|Hne]; [now rewrite get_set_same|]. rewrite get_set_other by exact Hne. apply tsim_refl.
Qed.

Lemma cur_norm_idem ch idx off : let '(i, o) := cur_norm ch idx off in cur_norm ch i o = (i, o).
Proof.
  unfold cur_norm. pose proof (rn_walk_idem (skipn idx ch) idx off) as H. pose proof (rn_walk_ge (skipn idx ch) idx off) as G.
  destruct (rn_walk (skipn idx ch) idx off) as [[i o] h]. rewrite skipn_skipn_le in H by exact G. now rewrite H.
Qed.

(* a non-consuming read leaves a state that is indistinguishable from the one it found *)
Lemma peek_ssim c m be s o : GInv c s -> nonconsuming o = true -> ssim s (fst (step (env_of c m be) s o)).
Proof.
  intros Hg Hn. destruct o as [t e | t es | t ck | t maxb ck start | t | ]; try discriminate; cbn [step env_of v_cfg v_mode v_backend].
  - destruct ck; [discriminate|].
    unfold read_next. set (ts := get_ts s (t_id t)).
    rewrite (hydrate_trivial (reader_of ts) (ts_index ts) false (GInv_hyd c s (t_id t) Hg)).
    destruct (hyd0_fields (reader_of ts)) as (F1 & F2 & F3 & F4 & F5 & F6 & F7). rewrite F1, F2, F3.
    pose proof (cur_norm_idem (r_chain (reader_of ts)) (r_idx (reader_of ts)) (r_off (reader_of ts))) as Hid. unfold cur_norm in Hid.
    destruct (rn_walk (skipn (r_idx (reader_of ts)) (r_chain (reader_of ts))) (r_idx (reader_of ts)) (r_off (reader_of ts))) as [[i o] hit] eqn:Ew.
    assert (Hts : tsim ts (with_reader ts (set_cur (hyd0 (reader_of ts)) i o))).
    { constructor; cbn; auto. constructor; cbn; auto. rewrite F1. unfold cur_norm. rewrite Ew. exact Hid. }
    destruct hit as [b|].
    + destruct (block_read c b o) as [[e consumed]|]; cbn [fst]; now apply ssim_set_r.
    + destruct (ts_writer ts) as [w|]; cbn [fst]; [|now apply ssim_set_r].
      destruct (ts_poisoned ts); cbn [fst]; [now apply ssim_set_r|]. cbn [andb].
      destruct (_ <? b_used w); [|cbn [fst]; now apply ssim_set_r].
      destruct (block_read c w _) as [[e consumed]|]; cbn [fst]; now apply ssim_set_r.
  - destruct start as [st0|].
    + destruct (batch_read_stateless c m s t maxb ck st0) as (os & E). rewrite E. cbn [fst]. apply ssim_set_r, tsim_refl.
    + destruct ck; [discriminate|].
      unfold batch_read, br_position. set (ts := get_ts s (t_id t)).
      rewrite (hydrate_trivial (reader_of ts) (ts_index ts) true (GInv_hyd c s (t_id t) Hg)).
      destruct (hyd0_fields (reader_of ts)) as (F1 & F2 & F3 & F4 & F5 & F6 & F7).
      assert (Hts : tsim ts (with_reader ts (hyd0 (reader_of ts)))).
      { constructor; cbn; auto. constructor; cbn; auto. now rewrite F1, F2, F3. }
      unfold br_from. cbn zeta.
      destruct (plan_sealed _ _ _ _ _ _ _ _ _) as [[[racc planned] idx_after] truncated].
      match goal with |- context [if negb truncated && ?b then ?x else ?y] => destruct (if negb truncated && b then x else y) as [racc2 trim1] end.
      destruct racc2; cbn [fst]; [now apply ssim_set_r|].
      rewrite !andb_false_r. cbn [andb]. now apply ssim_set_r.
Qed.

(* ------------------------------------------------------------------ the erasure theorem *)
Definition keep (o : op) : bool := negb (nonconsuming o).

Lemma offered_nonconsuming o : nonconsuming o = true -> offered o = [].
Proof. destruct o as [| |t ck|t mb ck st| |]; cbn; try discriminate; reflexivity. Qed.

Lemma offered_all_filter ops : offered_all (filter keep ops) = offered_all ops.
Proof.
  induction ops as [|o r IH]; [reflexivity|]. cbn [filter offered_all]. unfold keep at 1.
  destruct (nonconsuming o) eqn:E; cbn [negb offered_all]; [now rewrite (offered_nonconsuming o E), IH|now rewrite IH].
Qed.

Lemma ledger_step_nonconsuming g o r : nonconsuming o = true -> ledger_step g o r = g.
Proof. destruct o as [| |t ck|t mb ck st| |]; cbn; try discriminate; intros H; destruct r; try reflexivity;
       try (destruct ck; try discriminate; reflexivity); destruct ck, st; try discriminate; reflexivity. Qed.

Theorem erase_nonconsuming c m be : cfg_ok c -> forall ops s s' g B Bb,
  Rel c s g B Bb -> Rel c s' g B Bb -> ssim s' s -> Forall (op_ok c) ops ->
  B + N.of_nat (length (offered_all ops)) <= u64_max -> Bb + sum_len (offered_all ops) <= u64_max ->
  filter (fun p => keep (fst p)) (trace (env_of c m be) s ops) = trace (env_of c m be) s' (filter keep ops).
Proof.
  intros Hc. induction ops as [|o r IH]; intros s s' g B Bb Hrel Hrel' Hsim Hok HB HBb; [reflexivity|].
  inversion Hok as [|x l Ho Hr]; subst.
  cbn [offered_all] in HB, HBb. rewrite app_length, Nat2N.inj_add in HB. rewrite sum_len_app in HBb.
  pose proof (step_ok c m be s g B Bb o Hc Hrel Ho ltac:(lia) ltac:(lia)) as Hstep.
  cbn [trace filter]. unfold keep at 2.
  destruct (nonconsuming o) eqn:En; cbn [negb].
  - (* erased: the main run moves to an indistinguishable state, the other run stays *)
    pose proof (peek_ssim c m be s o (proj1 Hrel) En) as Hp.
    destruct (step (env_of c m be) s o) as [s1 res]. cbn [fst] in Hp.
    destruct Hstep as (_ & _ & _ & Hrel1). rewrite (ledger_step_nonconsuming g o res En) in Hrel1.
    rewrite (offered_nonconsuming o En) in *. cbn [length sum_len fold_right N.of_nat] in *. rewrite ?N.add_0_r in *.
    cbn [filter fst]. unfold keep at 1. rewrite En. cbn [negb].
    apply (IH s1 s' g B Bb Hrel1 Hrel' (ssim_trans _ _ _ Hsim Hp) Hr); lia.
  - (* kept: both runs step, with the same result *)
    pose proof (step_ok c m be s' g B Bb o Hc Hrel' Ho ltac:(lia) ltac:(lia)) as Hstep'.
    assert (Hne : o <> OReopen) by (intros ->; exact Ho).
    cbn [trace].
    pose proof (step_sim c m be s' s o Hsim (proj1 Hrel') (proj1 Hrel) Hne) as Hss.
    destruct (step (env_of c m be) s o) as [s1 res]. destruct (step (env_of c m be) s' o) as [s1' res'].
    destruct Hss as (-> & Hsim1). destruct Hstep as (_ & _ & _ & Hrel1). destruct Hstep' as (_ & _ & _ & Hrel1').
    cbn [filter fst trace]. unfold keep at 1. rewrite En. cbn [negb]. f_equal.
    apply (IH s1 s1' _ _ _ Hrel1 Hrel1' Hsim1 Hr); lia.
Qed.

Corollary erase_from_init c m be ops : cfg_ok c -> Forall (op_ok c) ops ->
  N.of_nat (length (offered_all ops)) <= u64_max -> sum_len (offered_all ops) <= u64_max ->
  filter (fun p => keep (fst p)) (trace (env_of c m be) init ops) = trace (env_of c m be) init (filter keep ops).
Proof.
  intros Hc Hok HB HBb. apply (erase_nonconsuming c m be Hc ops init init [] 0 0 (Rel_init c) (Rel_init c) (ssim_refl init) Hok); lia.
Qed.
