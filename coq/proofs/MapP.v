(* Proofs about model/Map.v: sorted association lists. *)
From W Require Import model.Base model.Map.
From Coq Require Import Permutation.

(* what a comparison function must satisfy (N.compare and str_cmp do) *)
Record cmp_ok {K : Type} (cmp : K -> K -> comparison) : Prop := {
  cmp_eq : forall a b, cmp a b = Eq <-> a = b;
  cmp_anti : forall a b, cmp b a = CompOpp (cmp a b);
  cmp_trans : forall a b c, cmp a b = Lt -> cmp b c = Lt -> cmp a c = Lt
}.
Arguments cmp_eq {K cmp}.
Arguments cmp_anti {K cmp}.
Arguments cmp_trans {K cmp}.

Lemma N_cmp_ok : cmp_ok N.compare.
Proof.
  split.
  - apply N.compare_eq_iff.
  - intros a b. apply N.compare_antisym.
  - intros a b c. rewrite !N.compare_lt_iff. apply N.lt_trans.
Qed.

Lemma str_cmp_refl a : str_cmp a a = Eq.
Proof. induction a as [|x a IH]; cbn; [reflexivity|]. now rewrite N.compare_refl. Qed.

Lemma str_cmp_ok : cmp_ok str_cmp.
Proof.
  split.
  - intros a. induction a as [|x a IH]; intros [|y b]; cbn; try (split; [discriminate|discriminate]); [tauto|].
    destruct (N.compare_spec x y) as [E|E|E].
    + subst y. rewrite IH. split; [now intros ->|now inversion 1].
    + split; [discriminate|]. inversion 1; subst. now apply N.lt_irrefl in E.
    + split; [discriminate|]. inversion 1; subst. now apply N.lt_irrefl in E.
  - intros a. induction a as [|x a IH]; intros [|y b]; cbn; try reflexivity.
    rewrite (N.compare_antisym x y). destruct (N.compare x y); cbn; auto.
  - intros a. induction a as [|x a IH]; intros [|y b] [|z c]; cbn; try discriminate; auto.
    destruct (N.compare_spec x y) as [E1|E1|E1]; destruct (N.compare_spec y z) as [E2|E2|E2];
      try discriminate; intros H1 H2; subst.
    + rewrite N.compare_refl. eauto.
    + apply N.compare_lt_iff in E2. now rewrite E2.
    + apply N.compare_lt_iff in E1. now rewrite E1.
    + assert (E : x < z) by (eapply N.lt_trans; eauto). apply N.compare_lt_iff in E. now rewrite E.
Qed.


Lemma cmp_refl {K} {cmp : K -> K -> comparison} (ok : cmp_ok cmp) a : cmp a a = Eq.
Proof. now apply (cmp_eq ok). Qed.

Lemma cmp_gt_lt {K} {cmp : K -> K -> comparison} (ok : cmp_ok cmp) a b : cmp a b = Gt <-> cmp b a = Lt.
Proof. rewrite (cmp_anti ok a b). destruct (cmp a b); cbn; split; congruence. Qed.

Lemma cmp_lt_ne {K} {cmp : K -> K -> comparison} (ok : cmp_ok cmp) a b : cmp a b = Lt -> a <> b.
Proof. intros H E. subst. rewrite (cmp_refl ok) in H. discriminate. Qed.

(* ---------- lookup / ins ---------- *)
Lemma lookup_ins_same {K V} {cmp} (ok : @cmp_ok K cmp) k (v : V) l : lookup cmp k (ins cmp k v l) = Some v.
Proof.
  induction l as [|[k' v'] r IH]; cbn [ins lookup].
  - now rewrite (cmp_refl ok).
  - destruct (cmp k k') eqn:E; cbn [lookup]; rewrite ?(cmp_refl ok), ?E; auto.
Qed.

Lemma lookup_ins_other {K V} {cmp} (ok : @cmp_ok K cmp) k k0 (v : V) l :
  k0 <> k -> lookup cmp k0 (ins cmp k v l) = lookup cmp k0 l.
Proof.
  intros Hne. assert (Hk : cmp k0 k <> Eq) by (intros E; apply (cmp_eq ok) in E; contradiction).
  induction l as [|[k' v'] r IH]; cbn [ins lookup].
  - destruct (cmp k0 k); congruence.
  - destruct (cmp k k') eqn:E; cbn [lookup].
    + apply (cmp_eq ok) in E. subst k'. destruct (cmp k0 k); congruence.
    + destruct (cmp k0 k); congruence.
    + now rewrite IH.
Qed.

Lemma lookup_In {K V} {cmp} (ok : @cmp_ok K cmp) k (v : V) l : lookup cmp k l = Some v -> In (k, v) l.
Proof.
  induction l as [|[k' v'] r IH]; cbn [lookup]; [discriminate|].
  destruct (cmp k k') eqn:E; intros H.
  - apply (cmp_eq ok) in E. subst. inversion H; subst. now left.
  - right; auto.
  - right; auto.
Qed.

Lemma lookup_none_notin {K V} {cmp} (ok : @cmp_ok K cmp) k (l : list (K * V)) : lookup cmp k l = None -> ~ In k (keys l).
Proof.
  induction l as [|[k' v'] r IH]; cbn [lookup keys map]; [tauto|].
  destruct (cmp k k') eqn:E; [discriminate| |]; intros H [H1|H1]; cbn in H1;
    try (subst; rewrite (cmp_refl ok) in E; discriminate); now apply IH.
Qed.

Lemma Forall_ins {K V : Type} (cmp : K -> K -> comparison) (P : K * V -> Prop) k v l : P (k, v) -> Forall P l -> Forall P (ins cmp k v l).
Proof.
  intros Hp. induction 1 as [|[k' v'] r Hx Hr IH]; cbn [ins]; [now constructor|].
  destruct (cmp k k'); repeat constructor; auto.
Qed.

Lemma In_ins {K V : Type} (cmp : K -> K -> comparison) (k : K) (v : V) l x : In x (ins cmp k v l) -> x = (k, v) \/ In x l.
Proof.
  induction l as [|[k' v'] r IH]; cbn [ins]; [intros [H|[]]; auto|].
  destruct (cmp k k'); cbn [In]; intros H.
  - destruct H as [H|H]; auto.
  - destruct H as [H|[H|H]]; auto.
  - destruct H as [H|H]; auto. apply IH in H. destruct H; auto.
Qed.

(* ---------- sortedness ---------- *)
Definition lt_all {K V} (cmp : K -> K -> comparison) (k : K) (l : list (K * V)) : Prop :=
  Forall (fun kv => cmp k (fst kv) = Lt) l.

Lemma sortedb_cons {K V} {cmp} (ok : @cmp_ok K cmp) k (v : V) r :
  sortedb cmp ((k, v) :: r) = true <-> lt_all cmp k r /\ sortedb cmp r = true.
Proof.
  revert k v. induction r as [|[k' v'] r IH]; intros k v.
  - cbn. split; [split; [constructor|reflexivity]|reflexivity].
  - change (sortedb cmp ((k, v) :: (k', v') :: r)) with
      (match cmp k k' with Lt => sortedb cmp ((k', v') :: r) | _ => false end).
    destruct (cmp k k') eqn:E.
    + split; [discriminate|]. intros [H _]. inversion H; subst. cbn in *. congruence.
    + split.
      * intros H. split; [|exact H]. apply (proj1 (IH k' v')) in H. destruct H as [H1 H2].
        constructor; [exact E|]. eapply Forall_impl; [|exact H1]. cbn. intros a Ha. eapply (cmp_trans ok); eauto.
      * intros [_ H2]. exact H2.
    + split; [discriminate|]. intros [H _]. inversion H; subst. cbn in *. congruence.
Qed.

Lemma sortedb_val_irrel {K V : Type} (cmp : K -> K -> comparison) (k : K) (v v' : V) r : sortedb cmp ((k, v) :: r) = sortedb cmp ((k, v') :: r).
Proof. destruct r as [|[k2 v2] r]; reflexivity. Qed.

Lemma sorted_ins {K V} {cmp} (ok : @cmp_ok K cmp) k (v : V) l :
  sortedb cmp l = true -> sortedb cmp (ins cmp k v l) = true.
Proof.
  induction l as [|[k' v'] r IH]; intros H; cbn [ins]; [reflexivity|].
  destruct (cmp k k') eqn:E.
  - apply (cmp_eq ok) in E. subst k'. now rewrite (sortedb_val_irrel cmp k v v').
  - change (match cmp k k' with Lt => sortedb cmp ((k', v') :: r) | _ => false end = true). now rewrite E.
  - apply (sortedb_cons ok) in H. destruct H as [H1 H2]. apply (sortedb_cons ok). split; [|auto].
    apply Forall_ins; [|exact H1]. cbn. now apply (cmp_gt_lt ok).
Qed.

Lemma lt_all_lookup {K V} {cmp} (ok : @cmp_ok K cmp) k (l : list (K * V)) : lt_all cmp k l -> lookup cmp k l = None.
Proof.
  induction 1 as [|[k' v'] r Hx Hr IH]; cbn [lookup]; [reflexivity|]. cbn in Hx. now rewrite Hx.
Qed.

Lemma In_lookup {K V} {cmp} (ok : @cmp_ok K cmp) k (v : V) l :
  sortedb cmp l = true -> In (k, v) l -> lookup cmp k l = Some v.
Proof.
  induction l as [|[k' v'] r IH]; intros Hs Hin; [destruct Hin|].
  apply (sortedb_cons ok) in Hs. destruct Hs as [H1 H2]. cbn [lookup]. destruct Hin as [Hin|Hin].
  - inversion Hin; subst. now rewrite (cmp_refl ok).
  - assert (E : cmp k' k = Lt).
    { unfold lt_all in H1. rewrite Forall_forall in H1. apply (H1 (k, v) Hin). }
    apply (cmp_gt_lt ok) in E. rewrite E. auto.
Qed.

Lemma sorted_NoDup {K V} {cmp} (ok : @cmp_ok K cmp) (l : list (K * V)) : sortedb cmp l = true -> NoDup (keys l).
Proof.
  induction l as [|[k v] r IH]; intros Hs; cbn; [constructor|].
  apply (sortedb_cons ok) in Hs. destruct Hs as [H1 H2]. constructor; [|auto].
  intros Hin. apply in_map_iff in Hin. destruct Hin as [[k2 v2] [E Hin]]. cbn in E. subst k2.
  unfold lt_all in H1. rewrite Forall_forall in H1. specialize (H1 _ Hin). cbn in H1.
  rewrite (cmp_refl ok) in H1. discriminate.
Qed.

Lemma sorted_app_inv {K V} {cmp} (ok : @cmp_ok K cmp) (a : list (K * V)) x b :
  sortedb cmp (a ++ x :: b) = true -> Forall (fun kv => cmp (fst kv) (fst x) = Lt) a.
Proof.
  induction a as [|[k0 v0] a IH]; intros H; [constructor|].
  cbn [app] in H. apply (sortedb_cons ok) in H. destruct H as [H1 H2]. constructor; [|auto].
  unfold lt_all in H1. rewrite Forall_forall in H1. apply (H1 x). apply in_elt.
Qed.

Lemma ins_last {K V} {cmp} (ok : @cmp_ok K cmp) k (v : V) l :
  Forall (fun kv => cmp (fst kv) k = Lt) l -> ins cmp k v l = l ++ [(k, v)].
Proof.
  induction 1 as [|[k' v'] r Hx Hr IH]; cbn [ins app]; [reflexivity|].
  cbn in Hx. apply (cmp_gt_lt ok) in Hx. now rewrite Hx, IH.
Qed.

(* inserting a sorted listing left to right rebuilds it *)
Lemma fold_ins_sorted {K V} {cmp} (ok : @cmp_ok K cmp) (l acc : list (K * V)) :
  sortedb cmp (acc ++ l) = true ->
  fold_left (fun m kv => ins cmp (fst kv) (snd kv) m) l acc = acc ++ l.
Proof.
  revert acc. induction l as [|[k v] r IH]; intros acc H; cbn [fold_left]; [now rewrite app_nil_r|].
  cbn [fst snd]. rewrite (ins_last ok) by (apply (sorted_app_inv ok) in H; exact H).
  rewrite IH; rewrite <- app_assoc; [reflexivity|exact H].
Qed.

Lemma of_list_sorted {K V} {cmp} (ok : @cmp_ok K cmp) (l : list (K * V)) : sortedb cmp l = true -> of_list cmp l = l.
Proof. intros H. unfold of_list. now rewrite (fold_ins_sorted ok). Qed.

(* ---------- insertion order does not matter for distinct keys ---------- *)
Ltac cmp_flip ok :=
  repeat match goal with
  | H : ?c ?a ?b = Gt |- _ => apply (cmp_gt_lt ok) in H
  end.

Ltac cmp_contra ok :=
  exfalso;
  match goal with
  | H1 : ?c ?a ?b = Lt, H2 : ?c ?b ?a = Lt |- _ =>
    let X := fresh in pose proof (cmp_trans ok _ _ _ H1 H2) as X; rewrite (cmp_refl ok) in X; discriminate X
  | H1 : ?c ?a ?b = Lt, H2 : ?c ?b ?d = Lt, H3 : ?c ?d ?a = Lt |- _ =>
    let X := fresh in pose proof (cmp_trans ok _ _ _ (cmp_trans ok _ _ _ H1 H2) H3) as X;
    rewrite (cmp_refl ok) in X; discriminate X
  | H : ?c ?a ?a = Lt |- _ => rewrite (cmp_refl ok) in H; discriminate H
  end.

Ltac cmp_fin ok :=
  repeat (cbn [ins];
          repeat match goal with
                 | H : ?c ?a ?b = _ |- context [?c ?a ?b] => rewrite H
                 | |- context [?c ?a ?a] => rewrite (cmp_refl ok a)
                 | H : ?c ?a ?b = Lt |- context [?c ?b ?a] => rewrite (proj2 (cmp_gt_lt ok b a) H)
                 end);
  try reflexivity.

Lemma ins_comm {K V} {cmp} (ok : @cmp_ok K cmp) k1 k2 (v1 v2 : V) l :
  k1 <> k2 -> ins cmp k1 v1 (ins cmp k2 v2 l) = ins cmp k2 v2 (ins cmp k1 v1 l).
Proof.
  intros Hne.
  induction l as [|[k v] r IH].
  - destruct (cmp k1 k2) eqn:E12; [apply (cmp_eq ok) in E12; contradiction| |]; cmp_flip ok; cmp_fin ok.
  - destruct (cmp k1 k2) eqn:E12; [apply (cmp_eq ok) in E12; contradiction| |];
    destruct (cmp k2 k) eqn:E2; try (apply (cmp_eq ok) in E2; subst k2);
    destruct (cmp k1 k) eqn:E1; try (apply (cmp_eq ok) in E1; subst k1);
    try contradiction; cmp_flip ok; try (cmp_fin ok; fail); try (cmp_contra ok; fail).
Qed.

Lemma fold_ins_perm {K V} {cmp} (ok : @cmp_ok K cmp) (l l' : list (K * V)) :
  Permutation l l' -> NoDup (keys l) ->
  forall acc, fold_left (fun m kv => ins cmp (fst kv) (snd kv) m) l acc
            = fold_left (fun m kv => ins cmp (fst kv) (snd kv) m) l' acc.
Proof.
  induction 1 as [|x l l' Hp IH|x y l|l l' l'' Hp1 IH1 Hp2 IH2]; intros Hnd acc.
  - reflexivity.
  - cbn [fold_left]. apply IH. now inversion Hnd.
  - cbn [fold_left]. f_equal. apply (ins_comm ok). cbn in Hnd. inversion Hnd as [|? ? Hn _]; subst.
    intros E. apply Hn. left. now symmetry.
  - rewrite IH1 by exact Hnd. apply IH2.
    eapply Permutation_NoDup; [|exact Hnd]. unfold keys. now apply Permutation_map.
Qed.

(* any listing (permutation) of a sorted map is turned back into that map *)
Lemma of_list_perm {K V} {cmp} (ok : @cmp_ok K cmp) (l m : list (K * V)) :
  sortedb cmp m = true -> Permutation l m -> of_list cmp l = m.
Proof.
  intros Hs Hp. unfold of_list.
  rewrite (fold_ins_perm ok l m Hp).
  - now apply (of_list_sorted ok).
  - eapply Permutation_NoDup; [|apply (sorted_NoDup ok _ Hs)]. unfold keys. apply Permutation_map. now symmetry.
Qed.

Lemma fold_ins_sorted_any {K V} {cmp} (ok : @cmp_ok K cmp) (l acc : list (K * V)) :
  sortedb cmp acc = true -> sortedb cmp (fold_left (fun m kv => ins cmp (fst kv) (snd kv) m) l acc) = true.
Proof. revert acc. induction l as [|x l IH]; intros acc H; cbn [fold_left]; [exact H|]. apply IH. now apply (sorted_ins ok). Qed.

Lemma of_list_is_sorted {K V} {cmp} (ok : @cmp_ok K cmp) (l : list (K * V)) : sortedb cmp (of_list cmp l) = true.
Proof. apply (fold_ins_sorted_any ok). reflexivity. Qed.

(* sum of values *)
Lemma sum_vals_cons {K} (k : K) v (l : list (K * N)) : sum_vals ((k, v) :: l) = v + sum_vals l.
Proof. reflexivity. Qed.

Lemma sum_vals_app {K} (a b : list (K * N)) : sum_vals (a ++ b) = sum_vals a + sum_vals b.
Proof.
  induction a as [|[k v] a IH]; [cbn; now rewrite N.add_0_l|].
  cbn [app]. rewrite !sum_vals_cons, IH. lia.
Qed.
