(* EngineRec.v — the recovery scan (startup_chore as model/Engine.v has it) over ANY well-formed
   file image: every written block is rebuilt with all of its entries, attributed to the topic
   that wrote it, in file order; never-written blocks are skipped without hiding what follows. *)
From W Require Import model.Base model.Engine proofs.EngineWF proofs.EngineInv.
From Coq Require Import ZArith ZifyBool ZifyN ZifyNat.

(* the extent the allocator gives a block, as a function of the entry it was allocated for *)
Definition extent_of (c : Cfg) (e : entry) : N :=
  if c_block c <? need c e then round_up c (need c e) else c_block c.

(* a block image as the writer leaves it: written by one topic; a one-unit block, or a
   multi-unit block whose first entry is the large one it was sized for; content inside it *)
Definition dwf (c : Cfg) (b : dblk) : Prop :=
  match d_ents b with
  | [] => True
  | e1 :: _ => (exists t, d_topic b = Some t) /\ extent_of c e1 = d_limit b /\ sum_need c (d_ents b) <= d_limit b
  end.

Definition rc_get (l : list (N * (topic * list blk))) (t : N) : list blk :=
  match find (fun q => fst q =? t) l with Some (_, (_, ch)) => ch | None => [] end.

Lemma rc_get_push_same l t b : rc_get (rc_push l t b) (t_id t) = rc_get l (t_id t) ++ [b].
Proof.
  unfold rc_get. induction l as [|[k [t0 ch]] l IH]; cbn.
  - now rewrite N.eqb_refl.
  - destruct (k =? t_id t) eqn:E; cbn; rewrite E; [reflexivity|exact IH].
Qed.
Lemma rc_get_push_other l t b t' : t' <> t_id t -> rc_get (rc_push l t b) t' = rc_get l t'.
Proof.
  intros Hne. unfold rc_get. induction l as [|[k [t0 ch]] l IH]; cbn.
  - replace (t_id t =? t') with false by lia. reflexivity.
  - destruct (k =? t_id t) eqn:E; cbn.
    + replace (k =? t') with false by lia. reflexivity.
    + destruct (k =? t'); [reflexivity|exact IH].
Qed.

(* entries that fit inside the extent known so far are all seen, and the extent stays *)
Lemma walk_unit_fit c (Hh : 0 < c_hdr c) lim : forall es pos acc,
  pos + sum_need c es <= lim -> walk_unit c lim es pos acc = (rev acc ++ es, pos + sum_need c es, lim).
Proof.
  induction es as [|e es IH]; intros pos acc Hfit; cbn [walk_unit sum_need].
  - now rewrite app_nil_r, N.add_0_r.
  - cbn [sum_need] in Hfit. pose proof (need_pos c e Hh).
    replace (lim <=? pos) with false by lia.
    replace (lim <? pos + need c e) with false by lia.
    rewrite IH by lia. cbn [rev]. rewrite <- app_assoc. cbn. f_equal. f_equal. lia.
Qed.

(* a whole well-formed block: every entry is seen and the derived extent is the allocated one *)
Lemma walk_block c (Hh : 0 < c_hdr c) (Hb : 0 < c_block c) e1 es L :
  extent_of c e1 = L -> sum_need c (e1 :: es) <= L ->
  walk_unit c (c_block c) (e1 :: es) 0 [] = (e1 :: es, sum_need c (e1 :: es), L).
Proof.
  intros Hext Hfit. unfold extent_of in Hext.
  destruct (c_block c <? need c e1) eqn:E.
  - (* multi-unit: the first entry extends the extent to the allocated one *)
    cbn [walk_unit]. replace (c_block c <=? 0) with false by lia. rewrite N.add_0_l, E, Hext.
    cbn [sum_need] in Hfit. rewrite (walk_unit_fit c Hh L es (need c e1) [e1]) by lia.
    cbn [rev app sum_need]. reflexivity.
  - subst L. rewrite (walk_unit_fit c Hh (c_block c) (e1 :: es) 0 []) by lia. cbn [rev app]. now rewrite N.add_0_l.
Qed.

(* entries the blocks of one file hold for topic id [t] *)
Definition ents_of_topic (t : N) (blocks : list dblk) : list entry :=
  flat_map (fun b => match d_topic b with Some t0 => if t_id t0 =? t then d_ents b else [] | None => [] end) blocks.

Theorem scan_blocks_complete c (Hh : 0 < c_hdr c) (Hb : 0 < c_block c) f : forall blocks zeros next_id acc,
  Forall (dwf c) blocks ->
  let '(acc', id') := scan_blocks c f blocks zeros next_id acc in
  rc_flag acc' = rc_flag acc /\ next_id <= id' /\
  forall t, chain_ents (rc_get (rc_chains acc') t) = chain_ents (rc_get (rc_chains acc) t) ++ ents_of_topic t blocks.
Proof.
  induction blocks as [|b blocks IH]; intros zeros next_id acc Hwf; cbn [scan_blocks].
  - repeat split; [lia|]. intros t. cbn. now rewrite app_nil_r.
  - inversion Hwf as [|x l Hbw Hrest]; subst. unfold dwf in Hbw.
    destruct (d_ents b) as [|e1 es] eqn:Ee.
    + (* never written: skipped, the scan goes on *)
      specialize (IH (zeros + d_limit b / c_block c) next_id acc Hrest).
      destruct (d_topic b) as [tb|] eqn:Etb; destruct (scan_blocks _ _ blocks _ _ _) as [acc' id'];
        destruct IH as (A & B & C); repeat split; auto; intros t'; rewrite C; cbn [ents_of_topic flat_map];
        rewrite ?Etb, ?Ee; try destruct (t_id tb =? t'); reflexivity.
    + destruct Hbw as ((t0 & Ht0) & Hext & Hfit). rewrite Ht0.
      rewrite (walk_block c Hh Hb e1 es (d_limit b) Hext Hfit).
      replace (d_limit b <? d_limit b) with false by lia.
      match goal with |- context [scan_blocks c f blocks ?z ?i ?a] => specialize (IH z i a Hrest) end.
      destruct (scan_blocks _ _ blocks _ _ _) as [acc' id'].
      destruct IH as (A & B & C). cbn [rc_flag rc_chains] in *. repeat split; [exact A|lia|].
      intros t. rewrite C. cbn [ents_of_topic flat_map]. rewrite ?Ht0, ?Ee.
      destruct (t_id t0 =? t) eqn:Et.
      * assert (t = t_id t0) by lia. subst t. rewrite rc_get_push_same, chain_ents_app. cbn [chain_ents flat_map b_ents].
        rewrite app_nil_r, <- app_assoc. reflexivity.
      * rewrite rc_get_push_other by lia. reflexivity.
Qed.

Lemma ents_of_topic_app t a b : ents_of_topic t (a ++ b) = ents_of_topic t a ++ ents_of_topic t b.
Proof. unfold ents_of_topic. apply flat_map_app. Qed.

(* all files, in file order *)
Fixpoint files_ents (t : N) (nfiles : nat) (f : N) (disk : list dblk) : list entry :=
  match nfiles with
  | O => []
  | S k => ents_of_topic t (filter (fun x => d_file x =? f) disk) ++ files_ents t k (f + 1) disk
  end.

Theorem scan_files_complete c (Hh : 0 < c_hdr c) (Hb : 0 < c_block c) : forall nfiles f disk next_id acc,
  Forall (dwf c) disk ->
  let '(acc', id') := scan_files c nfiles f disk next_id acc in
  rc_flag acc' = rc_flag acc /\
  forall t, chain_ents (rc_get (rc_chains acc') t) = chain_ents (rc_get (rc_chains acc) t) ++ files_ents t nfiles f disk.
Proof.
  induction nfiles as [|k IH]; intros f disk next_id acc Hwf; cbn [scan_files files_ents].
  - split; [reflexivity|]. intros t. now rewrite app_nil_r.
  - assert (Hwf' : Forall (dwf c) (filter (fun x => d_file x =? f) disk)).
    { apply Forall_forall. intros x Hx. apply filter_In in Hx. destruct Hx as (Hx & _). eapply Forall_forall in Hwf; eauto. }
    pose proof (scan_blocks_complete c Hh Hb f _ 0 next_id acc Hwf') as H1.
    destruct (scan_blocks _ _ _ _ _ _) as [acc1 id1]. destruct H1 as (A1 & _ & C1).
    specialize (IH (f + 1) disk id1 acc1 Hwf).
    destruct (scan_files _ _ _ _ _ _) as [acc' id']. destruct IH as (A2 & C2).
    split; [congruence|]. intros t. rewrite C2, C1, app_assoc. reflexivity.
Qed.
